import QuicModel.Conn.Wakers
/-
  Invariants of the three waker stores (`QuicModel/Conn/Wakers.lean`), by induction over all histories.
-/
namespace Quic.Proofs.Lemmas.Wakers
open Quic.Conn.Wakers

/-! ### read waiter -/
namespace Read
open ReadWaiter

/-- what the public stream API issues: `poll_receive*` always passes chunks (`want > 0`) and never sets
    a low watermark (`rx_request` is `pub(crate)`; `with_high_watermark` clamps the low one to 0) -/
def PublicOp (op : Op) : Prop := ∀ lw want, op = .pollRead lw want → lw = 0 ∧ want > 0

structure WF (s : State) : Prop where
  r1 : s.consumed ≤ s.recv
  r2 : ∀ f, s.final = some f → s.recv ≤ f
  r3 : s.st = .receiving → ∀ f, s.final = some f → s.consumed < f
  r4 : ∀ lw, s.waiter = some lw → lw = 0 ∧ blocked s lw = true

theorem blocked0 (s : State) : blocked s 0 = true ↔ s.st = .receiving ∧ s.recv ≤ s.consumed ∧ s.final ≠ some s.recv := by
  obtain ⟨st, recv, consumed, final, fcw, waiter⟩ := s
  simp only [blocked, ready, allReceived, len, Nat.zero_min, Nat.zero_le, decide_true, Bool.and_true, Bool.and_eq_true,
    Bool.not_eq_true', beq_iff_eq, beq_eq_false_iff_ne, ne_eq]
  constructor
  · rintro ⟨⟨h1, h2⟩, h3⟩; exact ⟨h1, by have := of_decide_eq_false h2; omega, h3⟩
  · rintro ⟨h1, h2, h3⟩; exact ⟨⟨h1, decide_eq_false (by omega)⟩, h3⟩

theorem pollRead_idle (s : State) (want : Nat) (hw : want > 0) (hl : s.recv ≤ s.consumed)
    (hf : s.final ≠ some s.consumed) : (pollReadReceiving s 0 want).1 = { s with waiter := some 0 } := by
  obtain ⟨st, recv, consumed, final, fcw, waiter⟩ := s
  simp only at hl hf
  have : recv - consumed = 0 := by omega
  simp [pollReadReceiving, len, this, hw, hf]

theorem pollRead_take (s : State) (want : Nat) (hw : want > 0) (hl : s.consumed < s.recv) :
    (pollReadReceiving s 0 want).1 =
      (if s.final == some (s.consumed + min want (s.recv - s.consumed))
       then { s with consumed := s.consumed + min want (s.recv - s.consumed), st := .dataRead, waiter := none }
       else { s with consumed := s.consumed + min want (s.recv - s.consumed) }) := by
  obtain ⟨st, recv, consumed, final, fcw, waiter⟩ := s
  simp only at hl
  have h1 : ¬ (min want (recv - consumed) = 0) := by omega
  simp [pollReadReceiving, len, h1]

theorem wf_init (fcw : Nat) : WF { fcWatermark := fcw } :=
  ⟨Nat.le_refl _, (fun f h => by cases h), (fun _ f h => by cases h), (fun lw h => by cases h)⟩

theorem pollRead_other (s : State) (lw want : Nat) (h : s.st ≠ .receiving) : (pollRead s lw want).1 = { s with waiter := none } := by
  unfold pollRead
  cases hs : s.st <;> simp_all

theorem wf_pollRead (s : State) (want : Nat) (hw : want > 0) (h : WF s) : WF (pollRead s 0 want).1 := by
  by_cases hst : s.st = .receiving
  · have hp : pollRead s 0 want = pollReadReceiving s 0 want := by simp [pollRead, hst]
    rw [hp]
    by_cases hl : s.consumed < s.recv
    · rw [pollRead_take s want hw hl]
      have hold : s.waiter = none := by
        cases hw' : s.waiter with
        | none => rfl
        | some lw =>
          have := h.r4 lw hw'
          have hb := (blocked0 s).1 (this.1 ▸ this.2)
          omega
      have r1 := h.r1
      split
      · exact ⟨(by show s.consumed + min want (s.recv - s.consumed) ≤ s.recv; omega), h.r2, (fun h' => by cases h'),
          (fun lw h' => by cases h')⟩
      · rename_i hne
        refine ⟨(by show s.consumed + min want (s.recv - s.consumed) ≤ s.recv; omega), h.r2, ?_, ?_⟩
        · intro _ f hf
          have hf' : s.final = some f := hf
          have := h.r2 f hf'
          show s.consumed + min want (s.recv - s.consumed) < f
          have : ¬ (f = s.consumed + min want (s.recv - s.consumed)) := by
            intro he; apply hne; simp [hf', he]
          omega
        · intro lw hlw
          have : s.waiter = some lw := hlw
          rw [hold] at this; cases this
    · have hf : s.final ≠ some s.consumed := fun he => by have := h.r3 hst _ he; omega
      have r1 := h.r1
      rw [pollRead_idle s want hw (by omega) hf]
      refine ⟨h.r1, h.r2, h.r3, ?_⟩
      intro lw hlw
      cases hlw
      refine ⟨rfl, (blocked0 _).2 ⟨hst, (by show s.recv ≤ s.consumed; omega), ?_⟩⟩
      intro he
      have he' : s.final = some s.recv := he
      have := h.r3 hst _ he'
      omega
  · rw [pollRead_other s 0 want hst]
    exact ⟨h.r1, h.r2, (fun h' => absurd h' hst), (fun lw h' => by cases h')⟩

theorem wake_waiter (s : State) : (wake s).1 = { s with waiter := none } ∧ ((wake s).2 = true ↔ s.waiter.isSome = true) := by
  unfold wake
  cases h : s.waiter <;> simp [h]
  obtain ⟨st, recv, consumed, final, fcw, waiter⟩ := s
  simp at h; simp [h]

theorem wf_wake (s : State) (h1 : s.consumed ≤ s.recv) (h2 : ∀ f, s.final = some f → s.recv ≤ f)
    (h3 : s.st = .receiving → ∀ f, s.final = some f → s.consumed < f) : WF (wake s).1 := by
  rw [(wake_waiter s).1]
  exact ⟨h1, h2, h3, (fun lw hlw => by cases hlw)⟩

/-- `onDataCore` on a state whose buffer fields are already updated -/
theorem wf_onDataCore (s : State) (isFin : Bool) (hst : s.st = .receiving) (h1 : s.consumed ≤ s.recv)
    (h2 : ∀ f, s.final = some f → s.recv ≤ f)
    (h3 : ∀ f, s.final = some f → s.consumed < f ∨ (isFin = true ∧ f = s.consumed))
    (h4 : ∀ lw, s.waiter = some lw → lw = 0) : WF (onDataCore s isFin).1 := by
  unfold onDataCore
  simp only
  by_cases hd : (isFin && s.final == some s.consumed) = true
  · -- all consumed and FIN: DataRead; everything was received, so the waiter is woken
    rw [if_pos hd]
    simp only [Bool.and_eq_true, beq_iff_eq] at hd
    have hall : allReceived s = true := by
      have := h2 _ hd.2
      simp only [allReceived, beq_iff_eq, hd.2]; congr 1; omega
    simp only [hall, Bool.or_true, if_true]
    apply wf_wake
    · exact h1
    · exact h2
    · intro h'; cases h'
  · rw [if_neg hd]
    have h3' : ∀ f, s.final = some f → s.consumed < f := by
      intro f hf
      rcases h3 f hf with h' | ⟨ha, hb⟩
      · exact h'
      · exfalso; apply hd; simp [ha, hf, hb]
    generalize hsw : ((match s.waiter with
      | some lw => ready s lw
      | none => false) || allReceived s) = sw
    cases sw with
    | true => exact wf_wake s h1 h2 (fun _ => h3')
    | false =>
      simp only [Bool.false_eq_true, if_false]
      simp only [Bool.or_eq_false_iff] at hsw
      refine ⟨h1, h2, (fun _ => h3'), ?_⟩
      intro lw hlw
      have h0 := h4 lw hlw
      subst h0
      refine ⟨rfl, (blocked0 s).2 ⟨hst, ?_, ?_⟩⟩
      · have := hsw.1
        simp only [hlw, ready, len, Nat.zero_min, Nat.zero_le, decide_true, Bool.and_true] at this
        have := of_decide_eq_false this
        omega
      · have := hsw.2
        simpa [allReceived] using this

theorem wf_onData (s : State) (n : Nat) (fin : Option Nat) (hv : (Op.onData n fin).valid s = true) (h : WF s) :
    WF (onData s n fin).1 := by
  unfold onData
  cases hst : s.st with
  | reset => exact h
  | stopping => exact h
  | dataRead => exact h
  | receiving =>
    simp only
    have r1 := h.r1
    have hfinal' : ∀ f, (if s.final.isSome then s.final else fin) = some f → max s.recv n ≤ f := by
      intro f hf
      simp only [Op.valid, Bool.and_eq_true] at hv
      have hv2 := hv.2
      rw [hf] at hv2
      simp only [Bool.and_eq_true, decide_eq_true_eq] at hv2
      omega
    apply wf_onDataCore
    · first | exact hst | rfl
    · show s.consumed ≤ max s.recv n; omega
    · exact hfinal'
    · intro f hf
      have hf' : (if s.final.isSome then s.final else fin) = some f := hf
      show s.consumed < f ∨ (fin.isSome = true ∧ f = s.consumed)
      cases hfs : s.final with
      | some g =>
        simp only [hfs, Option.isSome_some, if_true] at hf'
        cases hf'
        exact Or.inl (h.r3 hst _ hfs)
      | none =>
        simp only [hfs, Option.isSome_none, Bool.false_eq_true, if_false] at hf'
        have := hfinal' f (by simp [hfs, hf'])
        by_cases he : f = s.consumed
        · exact Or.inr ⟨by simp [hf'], he⟩
        · left; omega
    · intro lw hlw
      exact (h.r4 lw hlw).1

theorem wf_onReset (s : State) (h : WF s) : WF (onReset s).1 := by
  unfold onReset
  have r1 := h.r1
  cases hst : s.st with
  | reset => exact wf_wake s h.r1 h.r2 h.r3
  | dataRead => exact wf_wake s h.r1 h.r2 h.r3
  | stopping =>
    apply wf_wake
    · exact Nat.le_refl _
    · intro f hf; have := h.r2 f hf; show s.consumed ≤ f; omega
    · intro h'; cases h'
  | receiving =>
    simp only
    split
    · exact wf_wake s h.r1 h.r2 h.r3
    · apply wf_wake
      · exact Nat.le_refl _
      · intro f hf; have := h.r2 f hf; show s.consumed ≤ f; omega
      · intro h'; cases h'

theorem wf_pollStopSending (s : State) (h : WF s) : WF (pollStopSending s) := by
  unfold pollStopSending
  have r1 := h.r1
  cases hst : s.st with
  | reset => exact h
  | stopping => exact h
  | dataRead => exact h
  | receiving =>
    simp only
    split
    · exact ⟨h.r1, h.r2, (fun h' => by cases h'), (fun lw h' => by cases h')⟩
    · refine ⟨Nat.le_refl _, ?_, (fun h' => by cases h'), (fun lw h' => by cases h')⟩
      intro f hf; have := h.r2 f hf; show s.consumed ≤ f; omega

theorem wf_step (s : State) (op : Op) (hp : PublicOp op) (h : WF s) : WF (step s op).1 := by
  unfold step
  by_cases hv : op.valid s = true
  · simp only [hv, Bool.not_true, Bool.false_eq_true, if_false]
    cases op with
    | pollRead lw want =>
      obtain ⟨h0, hw⟩ := hp lw want rfl
      subst h0
      exact wf_pollRead s want hw h
    | pollStopSending => exact wf_pollStopSending s h
    | onData n fin => exact wf_onData s n fin hv h
    | onReset => exact wf_onReset s h
  · simp only [hv, Bool.not_false, if_true]; exact h

theorem wf_run (ops : List Op) (s : State) (hp : ∀ op ∈ ops, PublicOp op) (h : WF s) : WF (run s ops) := by
  induction ops generalizing s with
  | nil => exact h
  | cons op ops ih =>
    exact ih _ (fun o ho => hp o (List.mem_cons_of_mem _ ho)) (wf_step s op (hp op List.mem_cons_self) h)

/-- `wake` reports a wake-up exactly when a waker was stored -/
theorem wake_reports (s : State) (lw : Nat) (h : s.waiter = some lw) : (wake s).2 = true := by
  simp [wake, h]

theorem onDataCore_wakes (s : State) (isFin : Bool) (lw : Nat) (hw : s.waiter = some lw)
    (hgone : (onDataCore s isFin).1.waiter = none) : (onDataCore s isFin).2 = true := by
  unfold onDataCore at hgone ⊢
  simp only at hgone ⊢
  generalize hsw : ((match s.waiter with
    | some lw => ready s lw
    | none => false) || allReceived s) = sw at hgone ⊢
  have hw2 : (if (isFin && s.final == some s.consumed) = true then { s with st := St.dataRead } else s).waiter = some lw := by
    split <;> exact hw
  cases sw with
  | true => exact wake_reports _ lw hw2
  | false =>
    simp only [Bool.false_eq_true, if_false] at hgone
    rw [hw2] at hgone; cases hgone

/-- a network operation that removes the stored waker reports a wake-up in the same step -/
theorem net_wakes (s : State) (op : Op) (hnet : (∃ n fin, op = .onData n fin) ∨ op = .onReset)
    (lw : Nat) (hw : s.waiter = some lw) (hgone : (step s op).1.waiter = none) : (step s op).2 = true := by
  unfold step at hgone ⊢
  by_cases hv : op.valid s = true
  · simp only [hv, Bool.not_true, Bool.false_eq_true, if_false] at hgone ⊢
    rcases hnet with ⟨n, fin, rfl⟩ | rfl
    · simp only [onData] at hgone ⊢
      cases hst : s.st <;> simp only [hst] at hgone ⊢ <;> try (rw [hw] at hgone; cases hgone)
      exact onDataCore_wakes _ _ lw hw hgone
    · simp only [onReset]
      apply wake_reports _ lw
      cases hst : s.st <;> simp only <;> (try split) <;> exact hw
  · simp only [hv, Bool.not_false, if_true] at hgone
    rw [hw] at hgone; cases hgone

end Read

/-! ### write waiter -/
namespace Write
open WriteWaiter

structure WF (s : State) : Prop where
  w1 : s.ds = .cancelled ↔ s.st ≠ .sending
  w2 : s.ds = .finishing true → s.enq > 0
  w3 : s.ds = .finished → s.enq = 0
  /-- a stored waker ⇒ its blocking condition holds -/
  w4 : ∀ f, s.waiter = some f → blocked s f = true

theorem wf_init (cap : Nat) : WF { cap := cap } := by
  constructor <;> simp

theorem wf_pollSending (s : State) (r : Req) (hst : s.st = .sending) (h : WF s) : WF (pollSending s r).1 := by
  by_cases hr : r = .reset
  · subst hr; exact h
  obtain ⟨st, ds, enq, cap, waiter⟩ := s
  obtain ⟨w1, w2, w3, w4⟩ := h
  simp only at w1 w2 w3 w4 hst
  subst hst
  cases r <;> (try (exact absurd rfl hr)) <;> rcases ds with _ | (_ | _) | _ | _ <;> rcases waiter with _ | (_ | _) <;>
    simp only [reduceCtorEq, ne_eq, not_true_eq_false, not_false_eq_true, iff_false, iff_true, false_iff, true_iff] at w1 <;>
    (constructor <;>
      simp_all [blocked, pollSending, storeWaker, canPush, isEmpty, dsFinish] <;> (repeat' split) <;> (try simp_all [decide_eq_false_iff_not, Nat.not_lt]) <;> (try omega))

theorem wf_clear (s : State) (h : WF s) : WF { s with waiter := none } :=
  ⟨h.w1, h.w2, h.w3, (fun f hf => by cases hf)⟩

theorem wf_initReset (s : State) (internal : Bool) (h : WF s) : WF { (initReset s internal).1 with waiter := none } := by
  obtain ⟨st, ds, enq, cap, waiter⟩ := s
  obtain ⟨w1, w2, w3, w4⟩ := h
  simp only at w1 w2 w3 w4
  rcases st with _ | _ | _ <;> rcases ds with _ | (_ | _) | _ | _ <;> cases internal <;>
    simp only [reduceCtorEq, ne_eq, not_true_eq_false, not_false_eq_true, iff_false, iff_true, false_iff, true_iff] at w1 <;>
    (constructor <;> simp_all [initReset])

theorem wf_poll (s : State) (r : Req) (h : WF s) : WF (pollRequest s r).1 := by
  unfold pollRequest
  split
  · exact wf_initReset s false h
  · split
    · rename_i hst; exact wf_pollSending s r hst h
    · exact wf_clear s h

theorem wake_eq (s : State) : (wake s).1 = { s with waiter := none } ∧ ((wake s).2 = true ↔ s.waiter.isSome = true) := by
  obtain ⟨st, ds, enq, cap, waiter⟩ := s
  cases waiter <;> simp [wake]

theorem wf_ack_sending (s : State) (n : Nat) (fa ra : Bool) (hst : s.st = .sending) (h : WF s) :
    WF (onPacketAck s n fa ra).1 := by
  obtain ⟨st, ds, enq, cap, waiter⟩ := s
  obtain ⟨w1, w2, w3, w4⟩ := h
  simp only at w1 w2 w3 w4 hst
  subst hst
  rcases ds with _ | (_ | _) | _ | _ <;>
    simp only [reduceCtorEq, ne_eq, not_true_eq_false, not_false_eq_true, iff_false, iff_true, false_iff, true_iff] at w1 <;>
    rcases waiter with _ | (_ | _) <;> cases fa <;>
    (constructor <;>
      simp_all [blocked, onPacketAck, wake, canPush, isEmpty] <;> (repeat' split) <;>
      (try simp_all [decide_eq_false_iff_not, Nat.not_lt]) <;> (try omega))

theorem wf_ack_reset (s : State) (n : Nat) (fa ra : Bool) (hst : s.st ≠ .sending) (h : WF s) :
    WF (onPacketAck s n fa ra).1 := by
  obtain ⟨st, ds, enq, cap, waiter⟩ := s
  obtain ⟨w1, w2, w3, w4⟩ := h
  simp only at w1 w2 w3 w4 hst
  have hds : ds = .cancelled := w1.2 hst
  subst hds
  rcases st with _ | _ | _ <;> (try (exact absurd rfl hst)) <;> rcases waiter with _ | (_ | _) <;> cases ra <;>
    (constructor <;> simp_all [blocked, onPacketAck, wake])

theorem wf_ack (s : State) (n : Nat) (fa ra : Bool) (h : WF s) : WF (onPacketAck s n fa ra).1 := by
  by_cases hst : s.st = .sending
  · exact wf_ack_sending s n fa ra hst h
  · exact wf_ack_reset s n fa ra hst h

theorem wf_net (s : State) (op : Op) (h : WF s) : WF (step s op).1 := by
  cases op with
  | poll r => exact wf_poll s r h
  | ack n fa ra => exact wf_ack s n fa ra h
  | stopSending =>
    simp only [step, onStopSending]
    split
    · rw [(wake_eq _).1]; exact wf_initReset s false h
    · have : (initReset s false).1 = s := by
        rename_i hn
        unfold initReset at hn ⊢
        cases hst : s.st <;> simp_all
        split <;> simp_all
      rw [this]; exact h
  | internalReset =>
    simp only [step, onInternalReset]
    rw [(wake_eq _).1]; exact wf_initReset s true h
  | maxStreamData =>
    simp only [step, onMaxStreamData]
    cases hst : s.st <;> simp only
    · split
      · rw [(wake_eq _).1]; exact wf_clear s h
      · exact h
    · exact h
    · exact h

theorem wf_run (ops : List Op) (s : State) (h : WF s) : WF (run s ops) := by
  induction ops generalizing s with
  | nil => exact h
  | cons op ops ih => exact ih _ (wf_net s op h)

/-- a network operation never changes the stored flag: the waker stays as it is or is woken -/
theorem net_keeps_or_wakes (s : State) (op : Op) (hnet : ∀ r, op ≠ .poll r) (f : Bool) (hw : s.waiter = some f) :
    ((step s op).1.waiter = some f ∧ (step s op).2 = false) ∨ ((step s op).1.waiter = none ∧ (step s op).2 = true) := by
  obtain ⟨st, ds, enq, cap, waiter⟩ := s
  simp only at hw
  subst hw
  cases op with
  | poll r => exact absurd rfl (hnet r)
  | ack n fa ra =>
    rcases st with _ | _ | _ <;> rcases ds with _ | (_ | _) | _ | _ <;> cases f <;> cases fa <;> cases ra <;>
      simp [step, onPacketAck, wake, canPush, isEmpty] <;> (repeat' split) <;> simp_all
  | stopSending =>
    rcases st with _ | _ | _ <;> rcases ds with _ | (_ | _) | _ | _ <;> simp [step, onStopSending, initReset, wake]
  | internalReset =>
    rcases st with _ | _ | _ <;> rcases ds with _ | (_ | _) | _ | _ <;> simp [step, onInternalReset, initReset, wake]
  | maxStreamData =>
    rcases st with _ | _ | _ <;> rcases ds with _ | (_ | _) | _ | _ <;> simp [step, onMaxStreamData, wake] <;>
      (repeat' split) <;> simp_all

end Write

/-! ### open-stream waiters -/
namespace Open
open OpenWaiters

/-- the parked tasks hold the consecutive tokens `expired+1 … tokenCounter-1`, in list order -/
def TokInv (s : State) : Prop :=
  s.expired + 1 ≤ s.tokenCounter ∧ s.wakers = List.range' (s.expired + 1) (s.tokenCounter - (s.expired + 1))

theorem tok_init (ml pl : Nat) : TokInv { maxLocal := ml, peerLimit := pl } := by
  simp [TokInv]

theorem tok_wakeUnblocked (s : State) (h : TokInv s) : TokInv (wakeUnblocked s).1 := by
  obtain ⟨h1, h2⟩ := h
  unfold wakeUnblocked
  simp only [TokInv]
  have hlen : s.wakers.length = s.tokenCounter - (s.expired + 1) := by rw [h2]; simp
  refine ⟨by omega, ?_⟩
  rw [h2, List.drop_range']
  congr 1 <;> omega

theorem tok_step (s : State) (op : Op) (h : TokInv s) (hc : (step s op).1.isClosed = false) : TokInv (step s op).1 := by
  cases op with
  | pollOpen token =>
    simp only [step, pollOpen]
    split
    · split
      · split <;> exact h
      · obtain ⟨h1, h2⟩ := h
        simp only [TokInv]
        refine ⟨by omega, ?_⟩
        rw [h2]
        have : s.tokenCounter + 1 - (s.expired + 1) = (s.tokenCounter - (s.expired + 1)) + 1 := by omega
        rw [this, List.range'_concat]
        simp only [Nat.one_mul]
        congr 2; omega
    · exact h
  | closeStream =>
    simp only [step, onCloseStream]
    split
    · exact tok_wakeUnblocked _ h
    · exact h
  | maxStreams l =>
    simp only [step, onMaxStreams]
    split
    · exact h
    · exact tok_wakeUnblocked _ h
  | close => simp [step, close] at hc

/-- every parked task's token indexes its own slot of `wakers` -/
theorem tok_index (s : State) (h : TokInv s) (i : Nat) (hi : i < s.wakers.length) :
    tokenIndex (s.wakers[i]) s.expired = some i := by
  obtain ⟨h1, h2⟩ := h
  have : s.wakers[i] = s.expired + 1 + i := by
    simp only [h2, List.getElem_range', Nat.one_mul]
  rw [this]
  simp only [tokenIndex]
  have : ¬ (s.expired + 1 + i = 0) := by omega
  simp only [this, if_false]
  have : ¬ (s.expired + 1 + i < s.expired + 1) := by omega
  simp only [this, if_false]
  congr 1; omega

end Open

end Quic.Proofs.Lemmas.Wakers
