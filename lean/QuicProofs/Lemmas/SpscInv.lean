import QuicModel.Sync.Spsc
/-
  Helper lemmas for C17 (spsc ring over the RA view machine): modular index arithmetic and the
  inductive invariant `Inv`.  The property theorems are in `QuicProofs/Props/C17Spsc.lean`.
-/
namespace Quic.Sync.Spsc
open Quic.Sync.Ra

/-! ### index arithmetic -/

theorem mod_ne_of_lt {a b cap : Nat} (h1 : a < b) (h2 : b < a + cap) : a % cap ≠ b % cap := by
  intro h
  have hd : cap ∣ (b - a) := Nat.dvd_of_mod_eq_zero (Nat.sub_mod_eq_zero_of_mod_eq h.symm)
  have : cap ≤ b - a := Nat.le_of_dvd (by omega) hd
  omega

theorem mod_inj_of_lt {a b cap : Nat} (h : a % cap = b % cap) (h1 : a < b + cap) (h2 : b < a + cap) : a = b := by
  rcases Nat.lt_trichotomy a b with hlt | heq | hgt
  · exact absurd h (mod_ne_of_lt hlt h2)
  · exact heq
  · exact absurd h.symm (mod_ne_of_lt hgt h1)

theorem wrapAdd_mod (n cap : Nat) : wrapAdd (n % cap) 1 cap = (n + 1) % cap := by
  simp [wrapAdd, Nat.mod_add_mod]

theorem count_mod {h n cap : Nat} (h1 : h ≤ n) (h2 : n - h < cap) :
    (h % cap + cap - n % cap) % cap = (cap - (n - h)) % cap := by
  have hc : 0 < cap := by omega
  obtain ⟨d, rfl⟩ : ∃ d, n = h + d := ⟨n - h, by omega⟩
  have hr : h % cap < cap := Nat.mod_lt _ hc
  have hq : (h + d) % cap = (h % cap + d) % cap := by rw [Nat.mod_add_mod]
  rw [hq]
  by_cases hlt : h % cap + d < cap
  · rw [Nat.mod_eq_of_lt hlt]; congr 1; omega
  · have : (h % cap + d) % cap = h % cap + d - cap := by
      rw [Nat.mod_eq_sub_mod (by omega)]; exact Nat.mod_eq_of_lt (by omega)
    rw [this]
    have : h % cap + cap - (h % cap + d - cap) = (cap - (h + d - h)) + cap := by omega
    rw [this, Nat.add_mod_right]

theorem isFull_iff {h n cap : Nat} (hc : 2 ≤ cap) (h1 : h ≤ n) (h2 : n + 1 ≤ h + cap) :
    isFull (h % cap) (n % cap) cap = true ↔ n + 1 = h + cap := by
  unfold isFull count
  rw [beq_iff_eq, count_mod h1 (by omega)]
  by_cases he : n = h
  · subst he; simp; omega
  · rw [Nat.mod_eq_of_lt (by omega)]; omega

theorem isEmpty_iff {h t cap : Nat} (h1 : h ≤ t) (h2 : t < h + cap) :
    isEmpty (h % cap) (t % cap) = true ↔ h = t := by
  unfold isEmpty
  rw [beq_iff_eq]
  constructor
  · intro e
    by_cases hh : h = t
    · exact hh
    · exact absurd e.symm (mod_ne_of_lt (by omega) h2)
  · intro e; rw [e]

/-! ### control predicates -/

def Pc.running : Pc → Bool
  | .idle => true | .slice => true | .acq1 _ => true | .acq2 _ => true
  | .closed1 _ => false | .dcHead => false | .dcTail => false | .dcTake => false | .done => false
def Pc.inSlice : Pc → Bool
  | .slice => true | .acq1 b => b | .acq2 b => b
  | .idle => false | .closed1 _ => false | .dcHead => false | .dcTail => false | .dcTake => false | .done => false
def Pc.quiet : Pc → Bool
  | .closed1 w => w | .done => true
  | .idle => false | .slice => false | .acq1 _ => false | .acq2 _ => false
  | .dcHead => false | .dcTail => false | .dcTake => false
def Pc.dropping : Pc → Bool
  | .closed1 w => !w | .dcHead => true | .dcTail => true | .dcTake => true
  | .idle => false | .slice => false | .acq1 _ => false | .acq2 _ => false | .done => false
def Pc.predrop : Pc → Bool
  | .closed1 w => !w | .dcHead => true | .dcTail => true
  | .dcTake => false | .idle => false | .slice => false | .acq1 _ => false | .acq2 _ => false | .done => false

@[simp] theorem Pc.running_idle : Pc.running .idle = true := rfl
@[simp] theorem Pc.running_slice : Pc.running .slice = true := rfl
@[simp] theorem Pc.running_acq1 (b : Bool) : Pc.running (.acq1 b) = true := rfl
@[simp] theorem Pc.running_acq2 (b : Bool) : Pc.running (.acq2 b) = true := rfl
@[simp] theorem Pc.running_closed1 (w : Bool) : Pc.running (.closed1 w) = false := rfl
@[simp] theorem Pc.running_dcHead : Pc.running .dcHead = false := rfl
@[simp] theorem Pc.running_dcTail : Pc.running .dcTail = false := rfl
@[simp] theorem Pc.running_dcTake : Pc.running .dcTake = false := rfl
@[simp] theorem Pc.running_done : Pc.running .done = false := rfl
@[simp] theorem Pc.inSlice_idle : Pc.inSlice .idle = false := rfl
@[simp] theorem Pc.inSlice_slice : Pc.inSlice .slice = true := rfl
@[simp] theorem Pc.inSlice_acq1 (b : Bool) : Pc.inSlice (.acq1 b) = b := rfl
@[simp] theorem Pc.inSlice_acq2 (b : Bool) : Pc.inSlice (.acq2 b) = b := rfl
@[simp] theorem Pc.inSlice_closed1 (w : Bool) : Pc.inSlice (.closed1 w) = false := rfl
@[simp] theorem Pc.inSlice_dcHead : Pc.inSlice .dcHead = false := rfl
@[simp] theorem Pc.inSlice_dcTail : Pc.inSlice .dcTail = false := rfl
@[simp] theorem Pc.inSlice_dcTake : Pc.inSlice .dcTake = false := rfl
@[simp] theorem Pc.inSlice_done : Pc.inSlice .done = false := rfl
@[simp] theorem Pc.quiet_idle : Pc.quiet .idle = false := rfl
@[simp] theorem Pc.quiet_slice : Pc.quiet .slice = false := rfl
@[simp] theorem Pc.quiet_acq1 (b : Bool) : Pc.quiet (.acq1 b) = false := rfl
@[simp] theorem Pc.quiet_acq2 (b : Bool) : Pc.quiet (.acq2 b) = false := rfl
@[simp] theorem Pc.quiet_closed1 (w : Bool) : Pc.quiet (.closed1 w) = w := rfl
@[simp] theorem Pc.quiet_dcHead : Pc.quiet .dcHead = false := rfl
@[simp] theorem Pc.quiet_dcTail : Pc.quiet .dcTail = false := rfl
@[simp] theorem Pc.quiet_dcTake : Pc.quiet .dcTake = false := rfl
@[simp] theorem Pc.quiet_done : Pc.quiet .done = true := rfl
@[simp] theorem Pc.dropping_idle : Pc.dropping .idle = false := rfl
@[simp] theorem Pc.dropping_slice : Pc.dropping .slice = false := rfl
@[simp] theorem Pc.dropping_acq1 (b : Bool) : Pc.dropping (.acq1 b) = false := rfl
@[simp] theorem Pc.dropping_acq2 (b : Bool) : Pc.dropping (.acq2 b) = false := rfl
@[simp] theorem Pc.dropping_closed1 (w : Bool) : Pc.dropping (.closed1 w) = !w := rfl
@[simp] theorem Pc.dropping_dcHead : Pc.dropping .dcHead = true := rfl
@[simp] theorem Pc.dropping_dcTail : Pc.dropping .dcTail = true := rfl
@[simp] theorem Pc.dropping_dcTake : Pc.dropping .dcTake = true := rfl
@[simp] theorem Pc.dropping_done : Pc.dropping .done = false := rfl
@[simp] theorem Pc.predrop_idle : Pc.predrop .idle = false := rfl
@[simp] theorem Pc.predrop_slice : Pc.predrop .slice = false := rfl
@[simp] theorem Pc.predrop_acq1 (b : Bool) : Pc.predrop (.acq1 b) = false := rfl
@[simp] theorem Pc.predrop_acq2 (b : Bool) : Pc.predrop (.acq2 b) = false := rfl
@[simp] theorem Pc.predrop_closed1 (w : Bool) : Pc.predrop (.closed1 w) = !w := rfl
@[simp] theorem Pc.predrop_dcHead : Pc.predrop .dcHead = true := rfl
@[simp] theorem Pc.predrop_dcTail : Pc.predrop .dcTail = true := rfl
@[simp] theorem Pc.predrop_dcTake : Pc.predrop .dcTake = false := rfl
@[simp] theorem Pc.predrop_done : Pc.predrop .done = false := rfl

/-- the inductive invariant of the spsc system under the pinned orderings (for runs that have not failed) -/
structure Inv (s : Sys) : Prop where
  nofail : s.fail = none
  cap2 : 2 ≤ s.cap
  ch1 : s.p.gPeer ≤ s.c.gPrev
  ch2 : s.c.gPrev ≤ s.popped.length
  ch3 : (s.popped.length + s.dropped.length) ≤ s.pushed.length
  ch4 : s.c.gPeer ≤ s.p.gPrev
  ch5 : s.p.gPrev ≤ s.pushed.length
  ch6 : s.c.pc.quiet = false → (s.popped.length + s.dropped.length) ≤ s.c.gPeer
  ch7 : s.pushed.length + 1 ≤ s.p.gPeer + s.cap
  ch8 : s.popped.length ≤ s.c.gPeer
  pNoAcq2 : ∀ b, s.p.pc ≠ .acq2 b
  dropP : s.p.pc.dropping = true → s.c.pc.quiet = true
  dropC : s.c.pc.dropping = true → s.p.pc.quiet = true
  dropRc : s.c.pc.running = true → s.dropped = []
  dropRp : s.p.pc.running = true → s.dropped = []
  dropP0 : s.p.pc.predrop = true → s.dropped = []
  dropC0 : s.c.pc.predrop = true → s.dropped = []
  pA1 : s.p.pc.running = true → s.p.tail = s.pushed.length % s.cap ∧ s.p.head = s.p.gPeer % s.cap
  pA2 : s.p.pc = .dcTail → s.p.head = (s.popped.length + s.dropped.length) % s.cap ∧ s.p.gPeer = (s.popped.length + s.dropped.length)
  pA3 : s.p.pc = .dcTake → s.p.head = (s.popped.length + s.dropped.length) % s.cap ∧ s.p.tail = s.pushed.length % s.cap
  cA1 : s.c.pc.running = true → s.c.head = s.popped.length % s.cap ∧ s.c.tail = s.c.gPeer % s.cap
  cA2 : s.c.pc = .dcTail → s.c.head = (s.popped.length + s.dropped.length) % s.cap
  cA3 : s.c.pc = .dcTake → s.c.head = (s.popped.length + s.dropped.length) % s.cap ∧ s.c.tail = s.c.gPeer % s.cap
  pS1 : s.p.pc.inSlice = false → s.p.gPrev = s.pushed.length
  pS2 : s.p.pc.inSlice = true → s.p.prev = s.p.gPrev % s.cap
  cS1 : s.c.pc.inSlice = false → s.c.gPrev = s.popped.length
  cS2 : s.c.pc.inSlice = true → s.c.prev = s.c.gPrev % s.cap
  hH : ∀ m ∈ s.mem.hist HEAD, m.val = m.tag % s.cap ∧ m.tag ≤ s.c.gPrev ∧ m.ts < (s.mem.hist HEAD).length
  hHmono : ∀ m1 ∈ s.mem.hist HEAD, ∀ m2 ∈ s.mem.hist HEAD, m1.ts ≤ m2.ts → m1.tag ≤ m2.tag
  hHp : ∀ m ∈ s.mem.hist HEAD, s.pv.atm HEAD ≤ m.ts → s.p.gPeer ≤ m.tag
  hHc : ∀ m ∈ s.mem.hist HEAD, s.cv.atm HEAD ≤ m.ts → m.tag = s.c.gPrev
  hHx : s.p.pc.dropping = true → ∀ m ∈ s.mem.hist HEAD, s.pv.atm HEAD ≤ m.ts → m.tag = s.c.gPrev
  hT : ∀ m ∈ s.mem.hist TAIL, m.val = m.tag % s.cap ∧ m.tag ≤ s.p.gPrev ∧ m.ts < (s.mem.hist TAIL).length
  hTmono : ∀ m1 ∈ s.mem.hist TAIL, ∀ m2 ∈ s.mem.hist TAIL, m1.ts ≤ m2.ts → m1.tag ≤ m2.tag
  hTc : ∀ m ∈ s.mem.hist TAIL, s.cv.atm TAIL ≤ m.ts → s.c.gPeer ≤ m.tag
  hTp : ∀ m ∈ s.mem.hist TAIL, s.pv.atm TAIL ≤ m.ts → m.tag = s.p.gPrev
  hO : ∀ m ∈ s.mem.hist OPEN, (m.tag = 0 ∧ m.val ≠ 0) ∨ (m.tag = 1 ∧ m.val = 0 ∧ s.p.pc.running = false)
        ∨ (m.tag = 2 ∧ m.val = 0 ∧ s.c.pc.running = false)
  hOnn : s.mem.hist OPEN ≠ []
  hOne : ∀ last rest, s.mem.hist OPEN = last :: rest → last.val ≠ 0 → s.p.pc.running = true ∧ s.c.pc.running = true
  hOx : ∀ m ∈ s.mem.hist OPEN, m.tag = 2 → ∀ h ∈ s.mem.hist HEAD, m.view.atm HEAD ≤ h.ts → h.tag = s.c.gPrev
  cellF : ∀ j, (s.popped.length + s.dropped.length) ≤ j → j < s.pushed.length → s.mem.cell (j % s.cap) = s.pushed[j]?
  cellE : ∀ c, (∃ j, (s.popped.length + s.dropped.length) ≤ j ∧ j < s.pushed.length ∧ j % s.cap = c) ∨ s.mem.cell c = none
  fifo : s.popped ++ s.dropped = s.pushed.take (s.popped.length + s.dropped.length)
  v0p : ∀ c, s.pv.na c ≤ s.mem.stamp c
  v0c : ∀ c, s.cv.na c ≤ s.mem.stamp c
  v0m : ∀ l, ∀ m ∈ s.mem.hist l, ∀ c, m.view.na c ≤ s.mem.stamp c
  v1 : ∀ c, (∃ j, s.p.gPeer ≤ j ∧ j < (s.popped.length + s.dropped.length) ∧ j % s.cap = c) ∨ s.pv.na c = s.mem.stamp c
  v2 : s.c.pc.quiet = false → ∀ c, (∃ j, s.c.gPeer ≤ j ∧ j < s.pushed.length ∧ j % s.cap = c) ∨ s.cv.na c = s.mem.stamp c
  mT : ∀ m ∈ s.mem.hist TAIL, ∀ j, (s.popped.length + s.dropped.length) ≤ j → j < m.tag → m.view.na (j % s.cap) = s.mem.stamp (j % s.cap)
  mH : ∀ m ∈ s.mem.hist HEAD, ∀ j, j < m.tag → s.pushed.length ≤ j + s.cap → m.view.na (j % s.cap) = s.mem.stamp (j % s.cap)

/-! ### memory-operation facts -/

theorem readable_some {m : Mem} {V : View} {l ts : Nat} {x : Msg} (h : readable m V l ts = some x) :
    x ∈ m.hist l ∧ V.atm l ≤ x.ts := by
  unfold readable at h
  have h1 := List.mem_of_find?_eq_some h
  have h2 := List.find?_some h
  simp at h2
  exact ⟨h1, by omega⟩

@[simp] theorem hist_pushMsg (m : Mem) (l : Nat) (x : Msg) (y : Nat) :
    (pushMsg m l x).hist y = if y = l then x :: m.hist y else m.hist y := rfl
@[simp] theorem cell_pushMsg (m : Mem) (l : Nat) (x : Msg) : (pushMsg m l x).cell = m.cell := rfl
@[simp] theorem stamp_pushMsg (m : Mem) (l : Nat) (x : Msg) : (pushMsg m l x).stamp = m.stamp := rfl
@[simp] theorem freed_pushMsg (m : Mem) (l : Nat) (x : Msg) : (pushMsg m l x).freed = m.freed := rfl

@[simp] theorem afterLoad_acq_na (V : View) (l : Nat) (x : Msg) (c : Nat) :
    (afterLoad V .acquire l x).na c = max (V.na c) (x.view.na c) := rfl
@[simp] theorem afterLoad_acq_atm (V : View) (l : Nat) (x : Msg) (y : Nat) :
    (afterLoad V .acquire l x).atm y = max (if y = l then x.ts else V.atm y) (x.view.atm y) := rfl

theorem naAccess_none {m : Mem} {V : View} {c : Nat} {nc : Option Nat} (h : naAccess m V c nc = none) :
    V.na c ≠ m.stamp c := by
  unfold naAccess at h
  split at h
  · simp at h
  · assumption

theorem naAccess_some {m m' : Mem} {V V' : View} {c : Nat} {nc old : Option Nat}
    (h : naAccess m V c nc = some (old, m', V')) :
    V.na c = m.stamp c ∧ old = m.cell c ∧
    m' = { m with cell := fun x => if x = c then nc else m.cell x,
                  stamp := fun x => if x = c then m.stamp c + 1 else m.stamp x } ∧
    V' = V.setNa c (m.stamp c + 1) := by
  unfold naAccess at h
  split at h
  · simp at h
    obtain ⟨h1, h2, h3⟩ := h
    exact ⟨by assumption, h1.symm, h2.symm, h3.symm⟩
  · simp at h

/-- bring every field of the invariant into the local context -/
macro "inv_facts " i:ident : tactic => `(tactic| (
  have cap2 := ($i).cap2; have ch1 := ($i).ch1; have ch2 := ($i).ch2; have ch3 := ($i).ch3
  have ch4 := ($i).ch4; have ch5 := ($i).ch5; have ch6 := ($i).ch6; have ch7 := ($i).ch7; have ch8 := ($i).ch8
  have pNoAcq2 := ($i).pNoAcq2; have dropP := ($i).dropP; have dropC := ($i).dropC
  have dropRc := ($i).dropRc; have dropRp := ($i).dropRp; have dropP0 := ($i).dropP0; have dropC0 := ($i).dropC0
  have pA1 := ($i).pA1; have pA2 := ($i).pA2; have pA3 := ($i).pA3
  have cA1 := ($i).cA1; have cA2 := ($i).cA2; have cA3 := ($i).cA3
  have pS1 := ($i).pS1; have pS2 := ($i).pS2; have cS1 := ($i).cS1; have cS2 := ($i).cS2
  have hH := ($i).hH; have hHmono := ($i).hHmono; have hHp := ($i).hHp; have hHc := ($i).hHc; have hHx := ($i).hHx
  have hT := ($i).hT; have hTmono := ($i).hTmono; have hTc := ($i).hTc; have hTp := ($i).hTp
  have hO := ($i).hO; have hOnn := ($i).hOnn; have hOne := ($i).hOne; have hOx := ($i).hOx
  have cellF := ($i).cellF; have cellE := ($i).cellE; have fifo := ($i).fifo
  have v0p := ($i).v0p; have v0c := ($i).v0c; have v0m := ($i).v0m
  have v1 := ($i).v1; have v2 := ($i).v2; have mT := ($i).mT; have mH := ($i).mH))

/-- close every goal (tagged by field name after `constructor`) whose statement did not change, by definitional unfolding -/
macro "inv_same " i:ident : tactic => `(tactic| (
  try (case nofail => first | exact ($i).nofail | rfl)
  try (case cap2 => exact ($i).cap2)
  try (case ch1 => exact ($i).ch1)
  try (case ch2 => exact ($i).ch2)
  try (case ch3 => exact ($i).ch3)
  try (case ch4 => exact ($i).ch4)
  try (case ch5 => exact ($i).ch5)
  try (case ch6 => exact ($i).ch6)
  try (case ch7 => exact ($i).ch7)
  try (case ch8 => exact ($i).ch8)
  try (case pNoAcq2 => exact ($i).pNoAcq2)
  try (case dropP => exact ($i).dropP)
  try (case dropC => exact ($i).dropC)
  try (case dropRc => exact ($i).dropRc)
  try (case dropRp => exact ($i).dropRp)
  try (case dropP0 => exact ($i).dropP0)
  try (case dropC0 => exact ($i).dropC0)
  try (case pA1 => exact ($i).pA1)
  try (case pA2 => exact ($i).pA2)
  try (case pA3 => exact ($i).pA3)
  try (case cA1 => exact ($i).cA1)
  try (case cA2 => exact ($i).cA2)
  try (case cA3 => exact ($i).cA3)
  try (case pS1 => exact ($i).pS1)
  try (case pS2 => exact ($i).pS2)
  try (case cS1 => exact ($i).cS1)
  try (case cS2 => exact ($i).cS2)
  try (case hH => exact ($i).hH)
  try (case hHmono => exact ($i).hHmono)
  try (case hHp => exact ($i).hHp)
  try (case hHc => exact ($i).hHc)
  try (case hHx => exact ($i).hHx)
  try (case hT => exact ($i).hT)
  try (case hTmono => exact ($i).hTmono)
  try (case hTc => exact ($i).hTc)
  try (case hTp => exact ($i).hTp)
  try (case hO => exact ($i).hO)
  try (case hOnn => exact ($i).hOnn)
  try (case hOne => exact ($i).hOne)
  try (case hOx => exact ($i).hOx)
  try (case cellF => exact ($i).cellF)
  try (case cellE => exact ($i).cellE)
  try (case fifo => exact ($i).fifo)
  try (case v0p => exact ($i).v0p)
  try (case v0c => exact ($i).v0c)
  try (case v0m => exact ($i).v0m)
  try (case v1 => exact ($i).v1)
  try (case v2 => exact ($i).v2)
  try (case mT => exact ($i).mT)
  try (case mH => exact ($i).mH)))

/-! ### views after a load -/

theorem afterLoad_atm_ge (V : View) (o : Ord) (l : Nat) (x : Msg) (h : V.atm l ≤ x.ts) (y : Nat) :
    V.atm y ≤ (afterLoad V o l x).atm y := by
  unfold afterLoad
  by_cases hy : y = l
  · subst hy; split <;> simp only [View.join, View.setAtm, if_true] <;> omega
  · split <;> simp only [View.join, View.setAtm, if_neg hy] <;> omega

theorem afterLoad_atm_self (V : View) (o : Ord) (l : Nat) (x : Msg) : x.ts ≤ (afterLoad V o l x).atm l := by
  unfold afterLoad
  split <;> simp only [View.join, View.setAtm, if_true] <;> omega

theorem afterLoad_na_le {st : Nat → Nat} (V : View) (o : Ord) (l : Nat) (x : Msg)
    (h1 : ∀ c, V.na c ≤ st c) (h2 : ∀ c, x.view.na c ≤ st c) (c : Nat) : (afterLoad V o l x).na c ≤ st c := by
  have := h1 c; have := h2 c
  unfold afterLoad
  split <;> simp only [View.join, View.setAtm] <;> omega

theorem afterLoad_na_eq {st : Nat → Nat} (V : View) (o : Ord) (l : Nat) (x : Msg)
    (h2 : ∀ c, x.view.na c ≤ st c) (c : Nat) (h : V.na c = st c) : (afterLoad V o l x).na c = st c := by
  have := h2 c
  unfold afterLoad
  split <;> simp only [View.join, View.setAtm] <;> omega

theorem afterLoad_acq_na_ge (V : View) (l : Nat) (x : Msg) (c : Nat) :
    x.view.na c ≤ (afterLoad V .acquire l x).na c := by
  simp only [afterLoad_acq_na]; omega

theorem Pc.quiet_of_stopped {pc : Pc} (h1 : pc.running = false) (h2 : pc.dropping = false) : pc.quiet = true := by
  cases pc <;> simp_all [Pc.running, Pc.dropping, Pc.quiet]

theorem Pc.not_dropping_of_quiet {pc : Pc} (h : pc.quiet = true) : pc.dropping = false := by
  cases pc <;> simp_all [Pc.dropping, Pc.quiet]

theorem Pc.not_running_of_quiet {pc : Pc} (h : pc.quiet = true) : pc.running = false := by
  cases pc <;> simp_all [Pc.running, Pc.quiet]

/-- the sender's view may grow (join with any view that is bounded by the current stamps) -/
theorem Inv.pv_mono {s : Sys} (inv : Inv s) (V : View)
    (hatH : s.pv.atm HEAD ≤ V.atm HEAD) (hatT : s.pv.atm TAIL ≤ V.atm TAIL)
    (hle : ∀ c, V.na c ≤ s.mem.stamp c)
    (heq : ∀ c, s.pv.na c = s.mem.stamp c → V.na c = s.mem.stamp c) : Inv { s with pv := V } := by
  constructor
  inv_same inv
  case hHp => intro m hm h; exact inv.hHp m hm (Nat.le_trans hatH h)
  case hHx => intro hd m hm h; exact inv.hHx hd m hm (Nat.le_trans hatH h)
  case hTp => intro m hm h; exact inv.hTp m hm (Nat.le_trans hatT h)
  case v0p => exact hle
  case v1 =>
    intro c
    rcases inv.v1 c with h | h
    · exact .inl h
    · exact .inr (heq c h)

theorem Inv.cv_mono {s : Sys} (inv : Inv s) (V : View)
    (hatH : s.cv.atm HEAD ≤ V.atm HEAD) (hatT : s.cv.atm TAIL ≤ V.atm TAIL)
    (hle : ∀ c, V.na c ≤ s.mem.stamp c)
    (heq : ∀ c, s.cv.na c = s.mem.stamp c → V.na c = s.mem.stamp c) : Inv { s with cv := V } := by
  constructor
  inv_same inv
  case hHc => intro m hm h; exact inv.hHc m hm (Nat.le_trans hatH h)
  case hTc => intro m hm h; exact inv.hTc m hm (Nat.le_trans hatT h)
  case v0c => exact hle
  case v2 =>
    intro hq c
    rcases inv.v2 hq c with h | h
    · exact .inl h
    · exact .inr (heq c h)

theorem Inv.pLoad {s : Sys} (inv : Inv s) {o : Ord} {l ts : Nat} {m : Msg}
    (h : readable s.mem s.pv l ts = some m) : Inv { s with pv := afterLoad s.pv o l m } := by
  obtain ⟨hm, hts⟩ := readable_some h
  exact inv.pv_mono _ (afterLoad_atm_ge _ _ _ _ hts _) (afterLoad_atm_ge _ _ _ _ hts _)
    (afterLoad_na_le _ _ _ _ inv.v0p (inv.v0m l m hm))
    (afterLoad_na_eq _ _ _ _ (inv.v0m l m hm))

theorem Inv.cLoad {s : Sys} (inv : Inv s) {o : Ord} {l ts : Nat} {m : Msg}
    (h : readable s.mem s.cv l ts = some m) : Inv { s with cv := afterLoad s.cv o l m } := by
  obtain ⟨hm, hts⟩ := readable_some h
  exact inv.cv_mono _ (afterLoad_atm_ge _ _ _ _ hts _) (afterLoad_atm_ge _ _ _ _ hts _)
    (afterLoad_na_le _ _ _ _ inv.v0c (inv.v0m l m hm))
    (afterLoad_na_eq _ _ _ _ (inv.v0m l m hm))

macro "pc_close" : tactic => `(tactic| (intros; simp_all))

/-- goals that only differ by a program counter: take the same field of `i`, then `simp_all` (the pc equation must be in the context) -/
macro "inv_pc " i:ident : tactic => `(tactic| (
  try (case pNoAcq2 => (have hf := ($i).pNoAcq2; intros; simp_all; done))
  try (case dropP => (have hf := ($i).dropP; intros; simp_all; done))
  try (case dropC => (have hf := ($i).dropC; intros; simp_all; done))
  try (case dropRc => (have hf := ($i).dropRc; intros; simp_all; done))
  try (case dropRp => (have hf := ($i).dropRp; intros; simp_all; done))
  try (case dropP0 => (have hf := ($i).dropP0; intros; simp_all; done))
  try (case dropC0 => (have hf := ($i).dropC0; intros; simp_all; done))
  try (case pA1 => (have hf := ($i).pA1; intros; simp_all; done))
  try (case pA2 => (have hf := ($i).pA2; intros; simp_all; done))
  try (case pA3 => (have hf := ($i).pA3; intros; simp_all; done))
  try (case cA1 => (have hf := ($i).cA1; intros; simp_all; done))
  try (case cA2 => (have hf := ($i).cA2; intros; simp_all; done))
  try (case cA3 => (have hf := ($i).cA3; intros; simp_all; done))
  try (case pS1 => (have hf := ($i).pS1; intros; simp_all; done))
  try (case pS2 => (have hf := ($i).pS2; intros; simp_all; done))
  try (case cS1 => (have hf := ($i).cS1; intros; simp_all; done))
  try (case cS2 => (have hf := ($i).cS2; intros; simp_all; done))
  try (case hHx => (have hf := ($i).hHx; intros; simp_all; done))
  try (case hO => (have hf := ($i).hO; intros; simp_all; done))
  try (case hOne => (have hf := ($i).hOne; intros; simp_all; done))
  try (case ch6 => (have hf := ($i).ch6; intros; simp_all; done))
  try (case v2 => (have hf := ($i).v2; intros; simp_all; done))))

end Quic.Sync.Spsc
