import QuicModel.Compose.Auth
import QuicProofs.Props.C16Window
/-
  Helper lemmas for C06 (`QuicProofs/Props/C06Auth.lean`): the receive pipeline of
  `QuicModel/Compose/Auth.lean` keeps, per packet-number space, an invariant that ties the
  duplicate window to a `SlidingWindow.run` of the check/insert operations the pipeline issued,
  and the processed log / ack list / ECN counters to the packets that completed processing.
-/
namespace Quic.Proofs.Lemmas.Auth
open Quic.Data Quic.Data.SlidingWindow Quic.Compose.Auth
open Quic.Proofs.C16

/-! ### `SlidingWindow.run` / `accepted` over concatenated histories -/

theorem run_append (s : State) (a b : List Op) :
    (run s (a ++ b)).1 = (run (run s a).1 b).1 := by
  induction a generalizing s with
  | nil => rfl
  | cons op a ih => simp only [List.cons_append, run]; exact ih _

theorem accepted_append (s : State) (a b : List Op) :
    accepted s (a ++ b) = accepted s a ++ accepted (run s a).1 b := by
  induction a generalizing s with
  | nil => rfl
  | cons op a ih =>
    cases op with
    | insert pn =>
      simp only [List.cons_append, accepted, run]
      split
      · simp only [List.cons_append, List.cons.injEq, true_and]; exact ih _
      · exact ih _
    | check pn =>
      simp only [List.cons_append, accepted, run]; exact ih _

theorem run_check (s : State) (pn : Nat) : (run s [.check pn]).1 = s := rfl
theorem accepted_check (s : State) (pn : Nat) : accepted s [.check pn] = [] := rfl

theorem run_check_insert (s : State) (pn : Nat) :
    (run s [.check pn, .insert pn]).1 = (insertInner s pn).1 := rfl

theorem accepted_check_insert (s : State) (pn : Nat) :
    accepted s [.check pn, .insert pn] =
      if Res.ofInsertOut (insertInner s pn).2 = .ok then [pn] else [] := by
  simp only [accepted, step]
  split <;> simp [*]

/-- in a state a history can reach: `check` Ok ⇒ `insert` accepts, the number is fresh -/
theorem check_ok_fresh (ops : List Op) (pn : Nat) (u : Unit)
    (h : check (run init ops).1 pn = .ok u) :
    Res.ofInsertOut (insertInner (run init ops).1 pn).2 = .ok ∧ pn ∉ accepted init ops := by
  have h1 : Res.ofInsertOut (insertInner (run init ops).1 pn).2 = .ok := by
    rw [window_insert_result_eq_check, h]; rfl
  exact ⟨h1, window_insert_ok_fresh ops pn h1⟩

/-! ### field access of the connection state -/

@[simp] theorem get_set_same (c : Conn) (sp : Space) (s : SpaceState) : (c.set sp s).get sp = s := by
  cases sp <;> rfl

theorem get_set_other (c : Conn) (sp sp' : Space) (s : SpaceState) (h : sp' ≠ sp) :
    (c.set sp s).get sp' = c.get sp' := by
  cases sp <;> cases sp' <;> first | rfl | exact absurd rfl h

@[simp] theorem set_status (c : Conn) (sp : Space) (s : SpaceState) : (c.set sp s).status = c.status := by
  cases sp <;> rfl
@[simp] theorem set_failures (c : Conn) (sp : Space) (s : SpaceState) : (c.set sp s).failures = c.failures := by
  cases sp <;> rfl
@[simp] theorem set_limit (c : Conn) (sp : Space) (s : SpaceState) :
    (c.set sp s).integrityLimit = c.integrityLimit := by
  cases sp <;> rfl
@[simp] theorem set_peerTokens (c : Conn) (sp : Space) (s : SpaceState) :
    (c.set sp s).peerTokens = c.peerTokens := by
  cases sp <;> rfl
@[simp] theorem set_localTokens (c : Conn) (sp : Space) (s : SpaceState) :
    (c.set sp s).localTokens = c.localTokens := by
  cases sp <;> rfl

@[simp] theorem get_with_status (c : Conn) (st : Status) (sp : Space) :
    ({ c with status := st } : Conn).get sp = c.get sp := by
  cases sp <;> rfl
@[simp] theorem get_with_failures (c : Conn) (f : Nat) (sp : Space) :
    ({ c with failures := f } : Conn).get sp = c.get sp := by
  cases sp <;> rfl

@[simp] theorem close_get (c : Conn) (r : CloseReason) (sp : Space) : (c.close r).get sp = c.get sp := by
  cases sp <;> rfl
@[simp] theorem close_status (c : Conn) (r : CloseReason) : (c.close r).status = .closed r := rfl
@[simp] theorem close_failures (c : Conn) (r : CloseReason) : (c.close r).failures = c.failures := rfl
@[simp] theorem close_limit (c : Conn) (r : CloseReason) : (c.close r).integrityLimit = c.integrityLimit := rfl
@[simp] theorem close_peerTokens (c : Conn) (r : CloseReason) : (c.close r).peerTokens = c.peerTokens := rfl
@[simp] theorem close_localTokens (c : Conn) (r : CloseReason) : (c.close r).localTokens = c.localTokens := rfl

/-! ### the AEAD step and the reset check leave the spaces alone -/

theorem decryptStep_get (c : Conn) (d : Datagram) (sp : Space) : (decryptStep c d).1.get sp = c.get sp := by
  unfold decryptStep
  repeat' split
  all_goals simp

theorem decryptStep_status (c : Conn) (d : Datagram) : (decryptStep c d).1.status = c.status := by
  unfold decryptStep
  repeat' split
  all_goals rfl

theorem decryptStep_auth (c : Conn) (d : Datagram) (h : d.authentic = true) : decryptStep c d = (c, .ok) := by
  unfold decryptStep; simp [h]

theorem decryptStep_forged (c : Conn) (d : Datagram) (h : d.authentic = false) : (decryptStep c d).2 ≠ .ok := by
  unfold decryptStep
  simp only [h, Bool.false_eq_true, if_false]
  repeat' split
  all_goals simp

theorem resetCheck_get (c : Conn) (d : Datagram) (v : Verdict) (sp : Space) :
    (resetCheck c d v).1.get sp = c.get sp := by
  unfold resetCheck; split <;> simp


/-! ### log bookkeeping -/

theorem completedPns_append (l : List Entry) (e : Entry) :
    completedPns (l ++ [e]) = completedPns l ++ (if e.completed then [e.pn] else []) := by
  unfold completedPns
  cases h : e.completed <;> simp [List.filter_append, h]

theorem countEcn_append (l : List Entry) (e : Entry) (k : Nat) :
    countEcn (l ++ [e]) k = countEcn l k + (if (e.completed && e.ecn == k) = true then 1 else 0) := by
  unfold countEcn
  cases h : (e.completed && e.ecn == k) <;> simp [List.filter_append, h]

@[simp] theorem bumpEcn_window (s : SpaceState) (k : Nat) : (bumpEcn s k).window = s.window := by
  unfold bumpEcn; repeat' split
  all_goals rfl
@[simp] theorem bumpEcn_processed (s : SpaceState) (k : Nat) : (bumpEcn s k).processed = s.processed := by
  unfold bumpEcn; repeat' split
  all_goals rfl
@[simp] theorem bumpEcn_ackPns (s : SpaceState) (k : Nat) : (bumpEcn s k).ackPns = s.ackPns := by
  unfold bumpEcn; repeat' split
  all_goals rfl
theorem bumpEcn_ect0 (s : SpaceState) (k : Nat) : (bumpEcn s k).ect0 = s.ect0 + (if k = 2 then 1 else 0) := by
  unfold bumpEcn; repeat' split
  all_goals simp_all
theorem bumpEcn_ect1 (s : SpaceState) (k : Nat) : (bumpEcn s k).ect1 = s.ect1 + (if k = 1 then 1 else 0) := by
  unfold bumpEcn; repeat' split
  all_goals simp_all
theorem bumpEcn_ce (s : SpaceState) (k : Nat) : (bumpEcn s k).ce = s.ce + (if k = 3 then 1 else 0) := by
  unfold bumpEcn; repeat' split
  all_goals simp_all

/-! ### the per-space invariant -/

/-- what holds of one packet-number space after the pipeline issued the window operations `ops`;
    `isOpen` = the connection is still open -/
structure SpInv (st : SpaceState) (ops : List Op) (isOpen : Prop) : Prop where
  /-- the duplicate window is the `SlidingWindow.run` of the issued operations -/
  win : st.window = (run init ops).1
  /-- the packets whose processing completed are exactly those the window accepted -/
  acc : completedPns st.processed = accepted init ops
  ack : st.ackPns = completedPns st.processed
  e0 : st.ect0 = countEcn st.processed 2
  e1 : st.ect1 = countEcn st.processed 1
  e3 : st.ce = countEcn st.processed 3
  /-- while the connection is open every logged packet completed -/
  allc : isOpen → ∀ e ∈ st.processed, e.completed = true
  nodup : (st.processed.map (·.pn)).Nodup

theorem SpInv.initial (P : Prop) : SpInv SpaceState.init [] P :=
  ⟨rfl, rfl, rfl, rfl, rfl, rfl, fun _ e he => (by cases he), List.nodup_nil⟩

theorem SpInv.mono {st : SpaceState} {ops : List Op} {P Q : Prop} (h : SpInv st ops P) (hq : Q → P) :
    SpInv st ops Q :=
  ⟨h.win, h.acc, h.ack, h.e0, h.e1, h.e3, fun q => h.allc (hq q), h.nodup⟩

theorem SpInv.nil {st : SpaceState} {ops : List Op} {P : Prop} (h : SpInv st ops P) : SpInv st (ops ++ []) P := by
  simpa using h

theorem SpInv.check {st : SpaceState} {ops : List Op} {P : Prop} (h : SpInv st ops P) (pn : Nat) :
    SpInv st (ops ++ [.check pn]) P := by
  refine ⟨?_, ?_, h.ack, h.e0, h.e1, h.e3, h.allc, h.nodup⟩
  · rw [run_append, run_check]; exact h.win
  · rw [accepted_append, accepted_check, List.append_nil]; exact h.acc

/-- all logged numbers are accepted numbers while the connection is open -/
theorem SpInv.pns_eq {st : SpaceState} {ops : List Op} (h : SpInv st ops True) :
    st.processed.map (·.pn) = accepted init ops := by
  rw [← h.acc]
  unfold completedPns
  congr 1
  exact (List.filter_eq_self.mpr (fun e he => h.allc trivial e he)).symm

/-- the packet completed: logged, acknowledged, counted, inserted -/
theorem SpInv.processed {st : SpaceState} {ops : List Op} {P : Prop} (h : SpInv st ops True)
    (pn payload ecn : Nat) (u : Unit) (hc : SlidingWindow.check st.window pn = .ok u) :
    SpInv { bumpEcn { st with processed := st.processed ++ [⟨pn, payload, ecn, true⟩],
                               ackPns := st.ackPns ++ [pn] } ecn with
            window := (insertInner st.window pn).1 }
      (ops ++ [.check pn, .insert pn]) P := by
  have hw := h.win
  rw [hw] at hc
  obtain ⟨hok, hfresh⟩ := check_ok_fresh ops pn u hc
  refine ⟨?_, ?_, ?_, ?_, ?_, ?_, ?_, ?_⟩
  · show (insertInner st.window pn).1 = _
    rw [run_append, run_check_insert, hw]
  · show completedPns (bumpEcn _ ecn).processed = _
    rw [bumpEcn_processed, completedPns_append, accepted_append, accepted_check_insert, if_pos hok, h.acc]
    rfl
  · show (bumpEcn _ ecn).ackPns = completedPns (bumpEcn _ ecn).processed
    rw [bumpEcn_ackPns, bumpEcn_processed, completedPns_append, h.ack]
    rfl
  · show (bumpEcn _ ecn).ect0 = countEcn (bumpEcn _ ecn).processed 2
    rw [bumpEcn_ect0, bumpEcn_processed, countEcn_append, h.e0]
    by_cases hk : ecn = 2 <;> simp [hk]
  · show (bumpEcn _ ecn).ect1 = countEcn (bumpEcn _ ecn).processed 1
    rw [bumpEcn_ect1, bumpEcn_processed, countEcn_append, h.e1]
    by_cases hk : ecn = 1 <;> simp [hk]
  · show (bumpEcn _ ecn).ce = countEcn (bumpEcn _ ecn).processed 3
    rw [bumpEcn_ce, bumpEcn_processed, countEcn_append, h.e3]
    by_cases hk : ecn = 3 <;> simp [hk]
  · intro _ e he
    have he' : e ∈ st.processed ++ [⟨pn, payload, ecn, true⟩] := by simpa using he
    rcases List.mem_append.mp he' with h1 | h1
    · exact h.allc trivial e h1
    · simp only [List.mem_singleton] at h1; rw [h1]
  · show ((bumpEcn _ ecn).processed.map (·.pn)).Nodup
    rw [bumpEcn_processed, List.map_append, h.pns_eq]
    have hn : (accepted init ops).Nodup := window_at_most_once ops
    rw [List.nodup_append]
    refine ⟨hn, (by simp), ?_⟩
    intro a ha b hb
    simp only [List.map_cons, List.map_nil, List.mem_singleton] at hb
    intro hab
    rw [hab, hb] at ha
    exact hfresh ha

/-- frame processing failed: logged, connection closes, nothing else happens -/
theorem SpInv.frameError {st : SpaceState} {ops : List Op} (h : SpInv st ops True)
    (pn payload ecn : Nat) (u : Unit) (hc : SlidingWindow.check st.window pn = .ok u) :
    SpInv { st with processed := st.processed ++ [⟨pn, payload, ecn, false⟩] } (ops ++ [.check pn]) False := by
  have hw := h.win
  rw [hw] at hc
  obtain ⟨_, hfresh⟩ := check_ok_fresh ops pn u hc
  refine ⟨?_, ?_, ?_, ?_, ?_, ?_, fun f => f.elim, ?_⟩
  · rw [run_append, run_check]; exact hw
  · show completedPns (st.processed ++ _) = _
    rw [completedPns_append, accepted_append, accepted_check]; simp [h.acc]
  · show st.ackPns = completedPns (st.processed ++ _)
    rw [completedPns_append]; simp [h.ack]
  · show st.ect0 = countEcn (st.processed ++ _) 2
    rw [countEcn_append]; simp [h.e0]
  · show st.ect1 = countEcn (st.processed ++ _) 1
    rw [countEcn_append]; simp [h.e1]
  · show st.ce = countEcn (st.processed ++ _) 3
    rw [countEcn_append]; simp [h.e3]
  · show ((st.processed ++ _).map (·.pn)).Nodup
    rw [List.map_append, h.pns_eq]
    have hn : (accepted init ops).Nodup := window_at_most_once ops
    rw [List.nodup_append]
    refine ⟨hn, (by simp), ?_⟩
    intro a ha b hb
    simp only [List.map_cons, List.map_nil, List.mem_singleton] at hb
    intro hab
    rw [hab, hb] at ha
    exact hfresh ha


theorem SpInv.checkIf {st : SpaceState} {ops : List Op} {P : Prop} (h : SpInv st ops P)
    (b : Prop) [Decidable b] (pn : Nat) : SpInv st (ops ++ if b then [Op.check pn] else []) P := by
  split
  · exact h.check pn
  · exact h.nil

/-! ### one step of the pipeline -/

/-- in a reachable window state, a packet number that passed `check` is inserted without error -/
theorem insert_of_check_ok (ops : List Op) (w : State) (hw : w = (run init ops).1) (pn : Nat) (u : Unit)
    (hc : SlidingWindow.check w pn = .ok u) :
    SlidingWindow.insert w pn = ((insertInner w pn).1, .ok ()) := by
  subst hw
  have hok := (check_ok_fresh ops pn u hc).1
  unfold SlidingWindow.insert
  cases hi : insertInner (run init ops).1 pn with
  | mk s' out =>
    rw [hi] at hok
    cases out with
    | ok ev => rfl
    | err e => cases e <;> simp [Res.ofInsertOut] at hok
    | panic => simp [Res.ofInsertOut] at hok

theorem commit_get_other (c : Conn) (sp sp' : Space) (s1 : SpaceState) (pn : Nat) (h : sp' ≠ sp) :
    (commit c sp s1 pn).1.get sp' = c.get sp' := by
  unfold commit
  split <;> simp [get_set_other _ _ _ _ h]

theorem commit_status (c : Conn) (sp : Space) (s1 : SpaceState) (pn : Nat) :
    (commit c sp s1 pn).1.status = c.status := by
  unfold commit
  split <;> simp

theorem commit_verdict (c : Conn) (sp : Space) (s1 : SpaceState) (pn : Nat) :
    (commit c sp s1 pn).2 = .processed ∨ (commit c sp s1 pn).2 = .panic := by
  unfold commit
  split <;> simp

theorem processStep_get_other (c : Conn) (d : Datagram) (sp : Space) (h : sp ≠ d.space) :
    (processStep c d).1.get sp = c.get sp := by
  unfold processStep
  split
  · exact commit_get_other c d.space sp _ _ h
  · simp [get_set_other _ _ _ _ h]

theorem processStep_status (c : Conn) (d : Datagram) :
    (processStep c d).1.status = if d.framesOk then c.status else .closed .frameError := by
  unfold processStep
  split
  · exact commit_status _ _ _ _
  · simp

/-- the verdict of `processStep` tells which branch ran -/
theorem processStep_verdict_space (c : Conn) (d : Datagram) :
    (processStep c d).2 = .processed ∨ (processStep c d).2 = .panic ∨ (processStep c d).2 = .frameError := by
  unfold processStep
  split
  · rcases commit_verdict c d.space (ackStep (c.get d.space) d) d.pn with h | h
    · exact Or.inl h
    · exact Or.inr (Or.inl h)
  · simp

@[simp] theorem ackStep_window (s : SpaceState) (d : Datagram) : (ackStep s d).window = s.window := by
  unfold ackStep; simp

theorem processStep_ok (c : Conn) (d : Datagram) (ops : List Op)
    (hw : (c.get d.space).window = (run init ops).1) (u : Unit)
    (hc : SlidingWindow.check (c.get d.space).window d.pn = .ok u) (hf : d.framesOk = true) :
    processStep c d =
      (c.set d.space { ackStep (c.get d.space) d with window := (insertInner (c.get d.space).window d.pn).1 },
        .processed) := by
  unfold processStep commit
  simp only [hf, if_true, ackStep_window]
  rw [insert_of_check_ok ops _ hw d.pn u hc]

theorem processStep_err (c : Conn) (d : Datagram) (hf : d.framesOk = false) :
    processStep c d =
      ((c.set d.space { c.get d.space with processed := (c.get d.space).processed ++ [entryOf d] }).close .frameError,
        .frameError) := by
  unfold processStep
  simp [hf]

theorem SpInv.ackInsert {st : SpaceState} {ops : List Op} {P : Prop} (h : SpInv st ops True)
    (d : Datagram) (hf : d.framesOk = true) (u : Unit) (hc : SlidingWindow.check st.window d.pn = .ok u) :
    SpInv { ackStep st d with window := (insertInner st.window d.pn).1 } (ops ++ [.check d.pn, .insert d.pn]) P := by
  have := h.processed (P := P) d.pn d.payload d.ecn u hc
  simpa only [ackStep, entryOf, hf] using this

theorem SpInv.frameErr {st : SpaceState} {ops : List Op} (h : SpInv st ops True)
    (d : Datagram) (hf : d.framesOk = false) (u : Unit) (hc : SlidingWindow.check st.window d.pn = .ok u) :
    SpInv { st with processed := st.processed ++ [entryOf d] } (ops ++ [.check d.pn]) False := by
  have := h.frameError d.pn d.payload d.ecn u hc
  simpa only [entryOf, hf] using this

/-- the per-space invariant is preserved by one datagram; the window operations it issued are
    appended to the history of operations -/
theorem receive_inv (c : Conn) (d : Datagram) (sp : Space) (ops : List Op)
    (h : SpInv (c.get sp) ops (c.status = .open)) :
    SpInv ((receive c d).1.get sp) (ops ++ windowOps sp d (receive c d).2)
      ((receive c d).1.status = .open) := by
  unfold receive
  split
  · -- closing: dropped
    rename_i r hs
    exact h.nil
  · rename_i hs
    have hT : SpInv (c.get sp) ops True := h.mono (fun _ => hs)
    split
    · -- header protection cannot be removed
      rename_i hh
      have hh' : d.hdrOk = false := by simpa using hh
      unfold resetCheck
      split
      · simp only [close_get]
        have : windowOps sp d .statelessReset = [] := by simp [windowOps, hh']
        rw [this]
        exact (hT.mono (fun _ => trivial)).nil
      · exact h.nil
    · rename_i hh
      have hh' : d.hdrOk = true := by simpa using hh
      simp only []
      split
      · -- duplicate / too old
        rename_i e he
        simp only [decryptStep_get, decryptStep_status, windowOps, hh', and_true]
        exact h.checkIf _ _
      · rename_i u hu
        rw [decryptStep_get] at hu
        split
        · -- AEAD_LIMIT_REACHED
          simp only [close_get, decryptStep_get, windowOps]
          exact (hT.mono (fun _ => trivial)).checkIf _ _
        · -- plain decryption failure: reset check
          unfold resetCheck
          split
          · simp only [close_get, decryptStep_get, windowOps, hh', and_true]
            exact (hT.mono (fun _ => trivial)).checkIf _ _
          · simp only [decryptStep_get, decryptStep_status, windowOps]
            exact h.checkIf _ _
        · -- opened: frame processing
          rename_i hdec
          have hauth : d.authentic = true := by
            cases ha : d.authentic with
            | true => rfl
            | false => exact absurd hdec (decryptStep_forged c d ha)
          rw [decryptStep_auth c d hauth]
          by_cases hsp : d.space = sp
          · subst hsp
            cases hf : d.framesOk with
            | true =>
              rw [processStep_ok c d ops hT.win u hu hf]
              simp only [get_set_same, set_status, windowOps, if_true]
              exact hT.ackInsert d hf u hu
            | false =>
              rw [processStep_err c d hf]
              simp only [close_get, get_set_same, windowOps, if_true]
              exact (hT.frameErr d hf u hu).mono (fun hq => by simp at hq)
          · have hne : sp ≠ d.space := fun e => hsp e.symm
            rw [processStep_get_other c d sp hne, processStep_status]
            have hops : windowOps sp d (processStep c d).2 = [] := by
              rcases processStep_verdict_space c d with hv | hv | hv <;> simp [hv, windowOps, hsp]
            rw [hops]
            refine (hT.mono (fun _ => trivial)).nil

/-- … and by a whole history -/
theorem receiveAll_inv (hist : List Datagram) (c : Conn) (sp : Space) (ops : List Op)
    (h : SpInv (c.get sp) ops (c.status = .open)) :
    SpInv ((receiveAll c hist).get sp) (ops ++ windowOpsAll sp c hist) ((receiveAll c hist).status = .open) := by
  induction hist generalizing c ops with
  | nil => simpa [receiveAll, windowOpsAll] using h
  | cons d ds ih =>
    simp only [receiveAll, windowOpsAll, ← List.append_assoc]
    exact ih _ _ (receive_inv c d sp ops h)


/-! ### case analysis of the pipeline, once -/

/-- the six ways a datagram can go through `receive` -/
theorem receive_cases (c : Conn) (d : Datagram) (P : Conn × Verdict → Prop)
    (hclosed : ∀ r, c.status = .closed r → P (c, .droppedClosed))
    (hunprot : c.status = .open → d.hdrOk = false → P (resetCheck c d .unprotectFailed))
    (hdup : ∀ e, c.status = .open → d.hdrOk = true →
      SlidingWindow.check (c.get d.space).window d.pn = .error e → P ((decryptStep c d).1, .duplicate e))
    (hlimit : ∀ u, c.status = .open → d.hdrOk = true →
      SlidingWindow.check (c.get d.space).window d.pn = .ok u → (decryptStep c d).2 = .aeadLimit →
      P ((decryptStep c d).1.close .aeadLimit, .aeadLimit))
    (hdecerr : ∀ u, c.status = .open → d.hdrOk = true →
      SlidingWindow.check (c.get d.space).window d.pn = .ok u → (decryptStep c d).2 = .decryptError →
      P (resetCheck (decryptStep c d).1 d .decryptFailed))
    (hproc : ∀ u, c.status = .open → d.hdrOk = true →
      SlidingWindow.check (c.get d.space).window d.pn = .ok u → d.authentic = true → P (processStep c d)) :
    P (receive c d) := by
  unfold receive
  split
  · rename_i r hs; exact hclosed r hs
  · rename_i hs
    split
    · rename_i hh; exact hunprot hs (by simpa using hh)
    · rename_i hh
      have hh' : d.hdrOk = true := by simpa using hh
      simp only []
      split
      · rename_i e he
        rw [decryptStep_get] at he
        exact hdup e hs hh' he
      · rename_i u hu
        rw [decryptStep_get] at hu
        split
        · rename_i hd; exact hlimit u hs hh' hu hd
        · rename_i hd; exact hdecerr u hs hh' hu hd
        · rename_i hd
          have hauth : d.authentic = true := by
            cases ha : d.authentic with
            | true => rfl
            | false => exact absurd hd (decryptStep_forged c d ha)
          rw [decryptStep_auth c d hauth]
          exact hproc u hs hh' hu hauth

/-! ### fields the pipeline never writes -/

theorem decryptStep_static (c : Conn) (d : Datagram) :
    (decryptStep c d).1.peerTokens = c.peerTokens ∧ (decryptStep c d).1.localTokens = c.localTokens ∧
    (decryptStep c d).1.integrityLimit = c.integrityLimit ∧
    c.failures ≤ (decryptStep c d).1.failures ∧ (decryptStep c d).1.failures ≤ c.failures + 1 := by
  unfold decryptStep
  repeat' split
  all_goals simp

theorem resetCheck_static (c : Conn) (d : Datagram) (v : Verdict) :
    (resetCheck c d v).1.peerTokens = c.peerTokens ∧ (resetCheck c d v).1.localTokens = c.localTokens ∧
    (resetCheck c d v).1.integrityLimit = c.integrityLimit ∧ (resetCheck c d v).1.failures = c.failures := by
  unfold resetCheck
  split <;> simp

theorem processStep_static (c : Conn) (d : Datagram) :
    (processStep c d).1.peerTokens = c.peerTokens ∧ (processStep c d).1.localTokens = c.localTokens ∧
    (processStep c d).1.integrityLimit = c.integrityLimit ∧ (processStep c d).1.failures = c.failures := by
  unfold processStep commit
  repeat' split
  all_goals simp

/-- tokens and the integrity limit are never written; `failures` never decreases, grows by ≤ 1 -/
theorem receive_static (c : Conn) (d : Datagram) :
    (receive c d).1.peerTokens = c.peerTokens ∧ (receive c d).1.localTokens = c.localTokens ∧
    (receive c d).1.integrityLimit = c.integrityLimit ∧
    c.failures ≤ (receive c d).1.failures ∧ (receive c d).1.failures ≤ c.failures + 1 := by
  apply receive_cases c d (P := fun r => r.1.peerTokens = c.peerTokens ∧ r.1.localTokens = c.localTokens ∧
    r.1.integrityLimit = c.integrityLimit ∧ c.failures ≤ r.1.failures ∧ r.1.failures ≤ c.failures + 1)
  · intro r _; simp
  · intro _ _
    have := resetCheck_static c d .unprotectFailed
    simp [this.1, this.2.1, this.2.2.1, this.2.2.2]
  · intro e _ _ _; exact decryptStep_static c d
  · intro u _ _ _ _; simpa using decryptStep_static c d
  · intro u _ _ _ _
    have h1 := resetCheck_static (decryptStep c d).1 d .decryptFailed
    have h2 := decryptStep_static c d
    simp only [h1.1, h1.2.1, h1.2.2.1, h1.2.2.2]; exact h2
  · intro u _ _ _ _
    have := processStep_static c d
    simp [this.1, this.2.1, this.2.2.1, this.2.2.2]

/-! ### forged datagrams -/

theorem forged_spaces (c : Conn) (d : Datagram) (hf : d.authentic = false) (sp : Space) :
    (receive c d).1.get sp = c.get sp := by
  apply receive_cases c d (P := fun r => r.1.get sp = c.get sp)
  · intro r _; rfl
  · intro _ _; exact resetCheck_get c d _ sp
  · intro e _ _ _; exact decryptStep_get c d sp
  · intro u _ _ _ _; simp [decryptStep_get]
  · intro u _ _ _ _; rw [resetCheck_get, decryptStep_get]
  · intro u _ _ _ ha; rw [hf] at ha; cases ha

theorem resetCheck_verdict (c : Conn) (d : Datagram) (v : Verdict) :
    (resetCheck c d v).2 = v ∨ (resetCheck c d v).2 = .statelessReset := by
  unfold resetCheck; split <;> simp

theorem forged_rest (c : Conn) (d : Datagram) (hf : d.authentic = false) :
    (receive c d).1.peerTokens = c.peerTokens ∧ (receive c d).1.localTokens = c.localTokens ∧
    (receive c d).1.integrityLimit = c.integrityLimit ∧
    c.failures ≤ (receive c d).1.failures ∧ (receive c d).1.failures ≤ c.failures + 1 ∧
    (receive c d).2 ≠ .processed ∧ (receive c d).2 ≠ .frameError := by
  have hs := receive_static c d
  refine ⟨hs.1, hs.2.1, hs.2.2.1, hs.2.2.2.1, hs.2.2.2.2, ?_⟩
  apply receive_cases c d (P := fun r => r.2 ≠ .processed ∧ r.2 ≠ .frameError)
  · intro r _; simp
  · intro _ _; rcases resetCheck_verdict c d .unprotectFailed with h | h <;> simp [h]
  · intro e _ _ _; simp
  · intro u _ _ _ _; simp
  · intro u _ _ _ _; rcases resetCheck_verdict (decryptStep c d).1 d .decryptFailed with h | h <;> simp [h]
  · intro u _ _ _ ha; rw [hf] at ha; cases ha

theorem resetCheck_status_of_not_mem (c : Conn) (d : Datagram) (v : Verdict) (h : d.trailer ∉ c.peerTokens) :
    resetCheck c d v = (c, v) := by
  unfold resetCheck; simp [h]

theorem forged_stays_open (c : Conn) (d : Datagram) (hopen : c.status = .open)
    (hf : d.authentic = false) (htok : d.trailer ∉ c.peerTokens)
    (hlim : d.space = .app → c.failures + 1 < c.integrityLimit) :
    (receive c d).1.status = .open := by
  have htok1 : d.trailer ∉ (decryptStep c d).1.peerTokens := by rw [(decryptStep_static c d).1]; exact htok
  apply receive_cases c d (P := fun r => r.1.status = .open)
  · intro r hr; rw [hopen] at hr; cases hr
  · intro _ _; rw [resetCheck_status_of_not_mem c d _ htok]; exact hopen
  · intro e _ _ _; rw [decryptStep_status]; exact hopen
  · intro u _ _ _ hd
    exfalso
    unfold decryptStep at hd
    simp only [hf, Bool.false_eq_true, if_false] at hd
    split at hd
    · rename_i hsp
      have := hlim hsp
      split at hd
      · omega
      · simp at hd
    · simp at hd
  · intro u _ _ _ _
    rw [resetCheck_status_of_not_mem _ d _ htok1, decryptStep_status]; exact hopen
  · intro u _ _ _ ha; rw [hf] at ha; cases ha

/-! ### stateless reset -/

theorem resetCheck_closed (c : Conn) (d : Datagram) (v : Verdict) (r : CloseReason) (hopen : c.status = .open)
    (h : (resetCheck c d v).1.status = .closed r) : d.trailer ∈ c.peerTokens := by
  unfold resetCheck at h
  split at h
  · assumption
  · rw [hopen] at h; cases h

theorem reset_needs_token (c : Conn) (d : Datagram) (hopen : c.status = .open)
    (hr : (receive c d).1.status = .closed .statelessReset) :
    d.trailer ∈ c.peerTokens ∧ (d.hdrOk = false ∨ d.authentic = false) := by
  revert hr
  apply receive_cases c d (P := fun r => r.1.status = .closed .statelessReset →
    d.trailer ∈ c.peerTokens ∧ (d.hdrOk = false ∨ d.authentic = false))
  · intro r hr; rw [hopen] at hr; cases hr
  · intro _ hh h; exact ⟨resetCheck_closed c d _ _ hopen h, Or.inl hh⟩
  · intro e _ _ _ h; rw [decryptStep_status, hopen] at h; cases h
  · intro u _ _ _ _ h; simp at h
  · intro u _ _ _ hd h
    have h1 := resetCheck_closed (decryptStep c d).1 d _ _ (by rw [decryptStep_status]; exact hopen) h
    rw [(decryptStep_static c d).1] at h1
    refine ⟨h1, Or.inr ?_⟩
    cases ha : d.authentic with
    | false => rfl
    | true => rw [decryptStep_auth c d ha] at hd; cases hd
  · intro u _ _ _ _ h
    rw [processStep_status] at h
    split at h
    · rw [hopen] at h; cases h
    · cases h

theorem receive_closed (c : Conn) (d : Datagram) (r : CloseReason) (h : c.status = .closed r) :
    receive c d = (c, .droppedClosed) := by
  unfold receive; rw [h]

theorem receiveAll_closed (hist : List Datagram) (c : Conn) (r : CloseReason) (h : c.status = .closed r) :
    receiveAll c hist = c := by
  induction hist with
  | nil => rfl
  | cons d ds ih => simp only [receiveAll, receive_closed c d r h]; exact ih

theorem reset_history (hist : List Datagram) (c : Conn) (hopen : c.status = .open)
    (hr : (receiveAll c hist).status = .closed .statelessReset) :
    ∃ d ∈ hist, d.trailer ∈ c.peerTokens ∧ (d.hdrOk = false ∨ d.authentic = false) := by
  induction hist generalizing c with
  | nil => simp only [receiveAll] at hr; rw [hopen] at hr; cases hr
  | cons d ds ih =>
    simp only [receiveAll] at hr
    cases hs : (receive c d).1.status with
    | «open» =>
      obtain ⟨d', hd', ht, hx⟩ := ih _ hs hr
      rw [(receive_static c d).1] at ht
      exact ⟨d', List.mem_cons_of_mem _ hd', ht, hx⟩
    | closed r =>
      rw [receiveAll_closed ds _ r hs, hs] at hr
      cases hr
      exact ⟨d, List.mem_cons_self, reset_needs_token c d hopen hs⟩

/-! ### independence of `failures` and of the local tokens -/

theorem set_with_failures (c : Conn) (f : Nat) (sp : Space) (s : SpaceState) :
    ({ c with failures := f } : Conn).set sp s = { c.set sp s with failures := f } := by
  cases sp <;> rfl

theorem set_with_localTokens (c : Conn) (l : List Nat) (sp : Space) (s : SpaceState) :
    ({ c with localTokens := l } : Conn).set sp s = { c.set sp s with localTokens := l } := by
  cases sp <;> rfl

theorem processStep_failures (c : Conn) (d : Datagram) (f : Nat) :
    processStep { c with failures := f } d = ({ (processStep c d).1 with failures := f }, (processStep c d).2) := by
  unfold processStep commit
  simp only [get_with_failures, set_with_failures]
  repeat' split
  all_goals rfl

theorem resetCheck_failures (c : Conn) (d : Datagram) (v : Verdict) (f : Nat) :
    resetCheck { c with failures := f } d v = ({ (resetCheck c d v).1 with failures := f }, (resetCheck c d v).2) := by
  unfold resetCheck
  split <;> rfl

/-- an authentic datagram is processed the same whatever the failure counter says -/
theorem receive_open (c : Conn) (d : Datagram) (hs : c.status = .open) :
    receive c d =
      if !d.hdrOk then resetCheck c d .unprotectFailed
      else match SlidingWindow.check ((decryptStep c d).1.get d.space).window d.pn with
        | .error e => ((decryptStep c d).1, .duplicate e)
        | .ok _ => match (decryptStep c d).2 with
          | .aeadLimit => ((decryptStep c d).1.close .aeadLimit, .aeadLimit)
          | .decryptError => resetCheck (decryptStep c d).1 d .decryptFailed
          | .ok => processStep (decryptStep c d).1 d := by
  unfold receive; rw [hs]; rfl

theorem status_cases (c : Conn) : c.status = .open ∨ ∃ r, c.status = .closed r := by
  cases c.status with
  | «open» => exact Or.inl rfl
  | closed r => exact Or.inr ⟨r, rfl⟩

theorem receive_failures_auth (c : Conn) (d : Datagram) (f : Nat) (ha : d.authentic = true) :
    receive { c with failures := f } d = ({ (receive c d).1 with failures := f }, (receive c d).2) := by
  rcases status_cases c with hs | ⟨r, hs⟩
  · rw [receive_open c d hs, receive_open { c with failures := f } d hs]
    simp only [decryptStep_auth _ d ha, get_with_failures]
    by_cases hh : (!d.hdrOk) = true
    · simp only [hh, if_true]; exact resetCheck_failures c d _ f
    · simp only [hh]
      cases hck : SlidingWindow.check (c.get d.space).window d.pn with
      | error e => rfl
      | ok u => exact processStep_failures c d f
  · rw [receive_closed c d r hs, receive_closed { c with failures := f } d r hs]

theorem conn_eq_with_failures (a b : Conn) (h1 : a.initial = b.initial) (h2 : a.handshake = b.handshake)
    (h3 : a.app = b.app) (h4 : a.integrityLimit = b.integrityLimit) (h5 : a.status = b.status)
    (h6 : a.peerTokens = b.peerTokens) (h7 : a.localTokens = b.localTokens) :
    a = { b with failures := a.failures } := by
  cases a; cases b; simp_all

/-- a forged datagram below the limit and without a peer token changes nothing but `failures` -/
theorem forged_only_failures (c : Conn) (d : Datagram) (hf : d.authentic = false)
    (htok : d.trailer ∉ c.peerTokens) (hlim : c.failures + 1 < c.integrityLimit) :
    (receive c d).1 = { c with failures := (receive c d).1.failures } := by
  have hs := forged_spaces c d hf
  have hr := receive_static c d
  have hst : (receive c d).1.status = c.status := by
    cases hc : c.status with
    | closed r => rw [receive_closed c d r hc]; exact hc
    | «open» => exact forged_stays_open c d hc hf htok (fun _ => hlim)
  exact conn_eq_with_failures _ _ (hs .initial) (hs .handshake) (hs .app) hr.2.2.1 hst hr.1 hr.2.1

theorem noninterference_gen (hist : List Datagram) (c c' : Conn) (f0 : Nat) (hc : c = { c' with failures := f0 })
    (hbudget : c.failures + (hist.filter (fun d => !d.authentic)).length < c.integrityLimit)
    (htok : ∀ d ∈ hist, d.authentic = false → d.trailer ∉ c.peerTokens) :
    ∃ f, receiveAll c hist = { receiveAll c' (hist.filter (·.authentic)) with failures := f } := by
  induction hist generalizing c c' f0 with
  | nil => exact ⟨f0, hc⟩
  | cons d ds ih =>
    have hst := receive_static c d
    cases ha : d.authentic with
    | true =>
      simp only [receiveAll, List.filter_cons, ha, if_true]
      have hstep : (receive c d).1 = { (receive c' d).1 with failures := f0 } := by
        rw [hc, receive_failures_auth c' d f0 ha]
      apply ih (receive c d).1 (receive c' d).1 f0 hstep
      · have hfl : (receive c d).1.failures = c.failures := by rw [hstep, hc]
        rw [hfl, hst.2.2.1]
        simpa [List.filter_cons, ha] using hbudget
      · intro d' hd' hf'; rw [hst.1]; exact htok d' (List.mem_cons_of_mem _ hd') hf'
    | false =>
      simp only [receiveAll, List.filter_cons, ha, Bool.false_eq_true, if_false]
      have hb : c.failures + (1 + (ds.filter (fun d => !d.authentic)).length) < c.integrityLimit := by
        simpa [List.filter_cons, ha, Nat.add_comm] using hbudget
      have hstep := forged_only_failures c d ha (htok d List.mem_cons_self ha) (by omega)
      apply ih (receive c d).1 c' (receive c d).1.failures
      · rw [hstep, hc]
      · rw [hst.2.2.1]; have := hst.2.2.2.2; omega
      · intro d' hd' hf'; rw [hst.1]; exact htok d' (List.mem_cons_of_mem _ hd') hf'

theorem noninterference (hist : List Datagram) (c : Conn)
    (hbudget : c.failures + (hist.filter (fun d => !d.authentic)).length < c.integrityLimit)
    (htok : ∀ d ∈ hist, d.authentic = false → d.trailer ∉ c.peerTokens) :
    ∃ f, receiveAll c hist = { receiveAll c (hist.filter (·.authentic)) with failures := f } :=
  noninterference_gen hist c c c.failures rfl hbudget htok

theorem processStep_localTokens (c : Conn) (d : Datagram) (l : List Nat) :
    processStep { c with localTokens := l } d
      = ({ (processStep c d).1 with localTokens := l }, (processStep c d).2) := by
  have hg : ∀ sp, ({ c with localTokens := l } : Conn).get sp = c.get sp := by intro sp; cases sp <;> rfl
  unfold processStep commit
  simp only [hg, set_with_localTokens]
  repeat' split
  all_goals rfl

theorem resetCheck_localTokens (c : Conn) (d : Datagram) (v : Verdict) (l : List Nat) :
    resetCheck { c with localTokens := l } d v
      = ({ (resetCheck c d v).1 with localTokens := l }, (resetCheck c d v).2) := by
  unfold resetCheck
  split <;> rfl

theorem decryptStep_localTokens (c : Conn) (d : Datagram) (l : List Nat) :
    decryptStep { c with localTokens := l } d
      = ({ (decryptStep c d).1 with localTokens := l }, (decryptStep c d).2) := by
  unfold decryptStep
  repeat' split
  all_goals rfl

theorem receive_localTokens (c : Conn) (d : Datagram) (l : List Nat) :
    receive { c with localTokens := l } d = ({ (receive c d).1 with localTokens := l }, (receive c d).2) := by
  have hg : ∀ (x : Conn) sp, ({ x with localTokens := l } : Conn).get sp = x.get sp := by
    intro x sp; cases sp <;> rfl
  rcases status_cases c with hs | ⟨r, hs⟩
  · rw [receive_open c d hs, receive_open { c with localTokens := l } d hs]
    simp only [decryptStep_localTokens, hg]
    by_cases hh : (!d.hdrOk) = true
    · simp only [hh, if_true]; exact resetCheck_localTokens c d _ l
    · simp only [hh]
      cases hck : SlidingWindow.check ((decryptStep c d).1.get d.space).window d.pn with
      | error e => rfl
      | ok u =>
        cases hd : (decryptStep c d).2 with
        | ok => exact processStep_localTokens _ d l
        | decryptError => exact resetCheck_localTokens _ d _ l
        | aeadLimit => rfl
  · rw [receive_closed c d r hs, receive_closed { c with localTokens := l } d r hs]

/-! ### the `.expect` never fires; where log entries come from -/

theorem receive_no_panic (c : Conn) (d : Datagram)
    (h : ∃ ops, SpInv (c.get d.space) ops (c.status = .open)) : (receive c d).2 ≠ .panic := by
  obtain ⟨ops, hi⟩ := h
  apply receive_cases c d (P := fun r => r.2 ≠ .panic)
  · intro r _; simp
  · intro _ _; rcases resetCheck_verdict c d .unprotectFailed with h | h <;> simp [h]
  · intro e _ _ _; simp
  · intro u _ _ _ _; simp
  · intro u _ _ _ _; rcases resetCheck_verdict (decryptStep c d).1 d .decryptFailed with h | h <;> simp [h]
  · intro u hs _ hu _
    cases hf : d.framesOk with
    | true => rw [processStep_ok c d ops hi.win u hu hf]; simp
    | false => rw [processStep_err c d hf]; simp

theorem no_panic (hist : List Datagram) (c : Conn)
    (h : ∀ sp, ∃ ops, SpInv (c.get sp) ops (c.status = .open)) : Verdict.panic ∉ verdicts c hist := by
  induction hist generalizing c with
  | nil => simp [verdicts]
  | cons d ds ih =>
    simp only [verdicts, List.mem_cons, not_or]
    refine ⟨fun e => receive_no_panic c d (h d.space) e.symm, ih _ ?_⟩
    intro sp
    obtain ⟨ops, hi⟩ := h sp
    exact ⟨_, receive_inv c d sp ops hi⟩

theorem processed_step (c : Conn) (d : Datagram) (sp : Space) (e : Entry)
    (he : e ∈ ((receive c d).1.get sp).processed) :
    e ∈ (c.get sp).processed ∨ (d.authentic = true ∧ d.hdrOk = true ∧ d.space = sp ∧ e = entryOf d) := by
  revert he
  apply receive_cases c d (P := fun r => e ∈ (r.1.get sp).processed →
    e ∈ (c.get sp).processed ∨ (d.authentic = true ∧ d.hdrOk = true ∧ d.space = sp ∧ e = entryOf d))
  · intro r _ h; exact Or.inl h
  · intro _ _ h; rw [resetCheck_get] at h; exact Or.inl h
  · intro e' _ _ _ h; rw [decryptStep_get] at h; exact Or.inl h
  · intro u _ _ _ _ h; rw [close_get, decryptStep_get] at h; exact Or.inl h
  · intro u _ _ _ _ h; rw [resetCheck_get, decryptStep_get] at h; exact Or.inl h
  · intro u _ hh _ ha h
    by_cases hsp : d.space = sp
    · subst hsp
      unfold processStep commit at h
      split at h
      · split at h <;>
        · simp only [get_set_same, ackStep, bumpEcn_processed, List.mem_append, List.mem_singleton] at h
          rcases h with h | h
          · exact Or.inl h
          · exact Or.inr ⟨ha, hh, rfl, h⟩
      · simp only [close_get, get_set_same, List.mem_append, List.mem_singleton] at h
        rcases h with h | h
        · exact Or.inl h
        · exact Or.inr ⟨ha, hh, rfl, h⟩
    · rw [processStep_get_other c d sp (fun e => hsp e.symm)] at h
      exact Or.inl h

theorem processed_from_history (hist : List Datagram) (c : Conn) (sp : Space) (e : Entry)
    (he : e ∈ ((receiveAll c hist).get sp).processed) :
    e ∈ (c.get sp).processed ∨ ∃ d ∈ hist, d.authentic = true ∧ d.hdrOk = true ∧ d.space = sp ∧ e = entryOf d := by
  induction hist generalizing c with
  | nil => exact Or.inl he
  | cons d ds ih =>
    simp only [receiveAll] at he
    rcases ih _ he with h | ⟨d', hd', hx⟩
    · rcases processed_step c d sp e h with h | h
      · exact Or.inl h
      · exact Or.inr ⟨d, List.mem_cons_self, h⟩
    · exact Or.inr ⟨d', List.mem_cons_of_mem _ hd', hx⟩

theorem ecn_sum_le (l : List Entry) :
    countEcn l 2 + countEcn l 1 + countEcn l 3 ≤ (completedPns l).length := by
  induction l with
  | nil => simp [countEcn, completedPns]
  | cons e l ih =>
    unfold countEcn completedPns at *
    simp only [List.filter_cons, List.length_map] at *
    cases hc : e.completed <;> simp only [Bool.false_and, Bool.true_and, if_false, if_true,
      Bool.false_eq_true, List.length_cons]
    · exact ih
    · by_cases h2 : e.ecn = 2
      · simp [h2]; omega
      · by_cases h1 : e.ecn = 1
        · simp [h1]; omega
        · by_cases h3 : e.ecn = 3
          · simp [h3]; omega
          · simp [h1, h2, h3]; omega

end Quic.Proofs.Lemmas.Auth
