import QuicModel.Conn.IdMapper
/- helper lemmas for Props/C13IdMapper.lean: initial-id operations leave the map of issued ids alone -/
namespace Quic.Proofs.IdMapper
open Quic.Conn Quic.Conn.IdMapper

theorem step_initial_op_localMap (s : State) (op : Op) (h : op.isInitialOp = true) : (step s op).localMap = s.localMap := by
  cases op with
  | insertLocal id o => simp [Op.isInitialOp] at h
  | removeLocal id => simp [Op.isInitialOp] at h
  | insertInitial id o =>
    simp only [step]
    split
    · simp only [initialTryInsert]
      split <;> rfl
    · rfl
  | removeInitial o =>
    simp only [step]
    split
    · simp only [initialRemove]
      split <;> rfl
    · rfl

theorem run_initial_ops_localMap (s : State) (ops : List Op) (h : ∀ op ∈ ops, op.isInitialOp = true) :
    (run s ops).localMap = s.localMap := by
  induction ops generalizing s with
  | nil => rfl
  | cons op ops ih =>
    simp only [run]
    rw [ih (step s op) (fun o ho => h o (List.mem_cons_of_mem _ ho)), step_initial_op_localMap s op (h op List.mem_cons_self)]

end Quic.Proofs.IdMapper
