import QuicModel.Dc.KeyPhase
/-
  Helper lemmas for C18KeyPhase: the opener invariant between two `open_with` calls, what one arrival
  does under it, and the sealer's generation/phase bookkeeping.
-/
namespace Quic.Proofs.DcKeyPhase
open Quic.Dc.KeyPhase

/-! ### one decrypt call -/

theorem decrypt_unauth (o : Opener) (w : Wire) (a : Option OpenError)
    (h : aeadOpens o.chain (o.slot w.phase) w = false) : o.decrypt w a = (o, .error .invalidTag) := by
  simp [Opener.decrypt, h]

theorem decryptInPlace_eq_decrypt (o : Opener) (w : Wire) (a : Option OpenError) :
    o.decryptInPlace w a = o.decrypt w a := rfl

theorem open_eq_decrypt (ip : Bool) (o : Opener) (w : Wire) (a : Option OpenError) :
    o.open ip w a = o.decrypt w a := by
  cases ip <;> rfl

/-- the three outcomes of `decrypt` on a packet that passes the AEAD -/
theorem decrypt_auth (o : Opener) (w : Wire) (a : Option OpenError)
    (h : aeadOpens o.chain (o.slot w.phase) w = true) :
    o.decrypt w a =
      match (o.dedup.check a).2 with
      | some e => ({ o with dedup := (o.dedup.check a).1 }, .error e)
      | none => (({ o with dedup := (o.dedup.check a).1 } : Opener).notePhase w.phase, .ok ()) := by
  simp only [Opener.decrypt, h, Bool.not_true, Bool.false_eq_true, if_false, Opener.onDecryptSuccess]
  cases hc : (o.dedup.check a).2 <;> simp

theorem notePhase_chain (o : Opener) (p : Bool) : (o.notePhase p).chain = o.chain := by
  unfold Opener.notePhase; split <;> rfl

theorem update_chain (o : Opener) : o.update.chain = o.chain := by
  unfold Opener.update; cases o.keyPhase <;> rfl

theorem openWithTail_chain (o : Opener) : (openWithTail o).chain = o.chain := by
  unfold openWithTail; split
  · exact update_chain o
  · rfl

theorem decrypt_chain (o : Opener) (w : Wire) (a : Option OpenError) : (o.decrypt w a).1.chain = o.chain := by
  cases h : aeadOpens o.chain (o.slot w.phase) w
  · rw [decrypt_unauth o w a h]
  · rw [decrypt_auth o w a h]
    cases (o.dedup.check a).2
    · simp [notePhase_chain]
    · rfl

theorem openWith_chain (ip : Bool) (o : Opener) (w : Wire) (a : Option OpenError) :
    (openWith ip o w a).1.chain = o.chain := by
  simp only [openWith, open_eq_decrypt, openWithTail_chain, decrypt_chain]

/-! ### Dedup -/

/-- the replay check of this opener passes: it already did, or it is still armed and the map says ok -/
def DedupOk (d : Dedup) (a : Option OpenError) : Prop :=
  d.cell = some none ∨ (d.cell = none ∧ d.init = true ∧ a = none)

theorem check_ok (d : Dedup) (a : Option OpenError) (h : DedupOk d a) :
    (d.check a).2 = none ∧ (d.check a).1.cell = some none := by
  rcases h with h | ⟨h1, h2, h3⟩
  · simp [Dedup.check, h]
  · simp [Dedup.check, h1, h2, h3]

theorem check_disabled (a : Option OpenError) : DedupOk Dedup.disabled a := Or.inl rfl

/-! ### the invariant between two `open_with` calls -/

def parity (g : Nat) : Bool := decide (g % 2 = 1)

theorem parity_succ (g : Nat) : parity (g + 1) = !parity g := by
  unfold parity
  rcases Nat.mod_two_eq_zero_or_one g with h | h <;> simp [Nat.add_mod, h]

/-- after G updates: the slot of the expected phase holds generation G, the other slot G+1, the next
    derived key is G+2, the expected phase is G's parity, and no update is pending -/
structure Inv (o : Opener) (G : Nat) : Prop where
  cur : o.slot o.keyPhase = G
  nxt : o.slot (!o.keyPhase) = G + 1
  ku : o.kuNext = G + 2
  ph : o.keyPhase = parity G
  nu : o.needsUpdate = false

theorem inv_new (c : Nat) (d : Dedup) : Inv (Opener.new c d) 0 :=
  ⟨rfl, rfl, rfl, rfl, rfl⟩

theorem inv_slot (o : Opener) (G : Nat) (inv : Inv o G) (p : Bool) :
    o.slot p = if p = parity G then G else G + 1 := by
  by_cases hp : p = parity G
  · rw [if_pos hp, hp, ← inv.ph]; exact inv.cur
  · rw [if_neg hp]
    have : p = !o.keyPhase := by
      rw [inv.ph]; cases p <;> cases h : parity G <;> simp_all
    rw [this]; exact inv.nxt

/-- the dedup cell is not part of the key-phase invariant -/
theorem inv_with_dedup (o : Opener) (G : Nat) (inv : Inv o G) (d : Dedup) : Inv { o with dedup := d } G :=
  ⟨inv.cur, inv.nxt, inv.ku, inv.ph, inv.nu⟩

theorem inv_update (o : Opener) (G : Nat) (nxt : o.slot (!o.keyPhase) = G + 1)
    (ku : o.kuNext = G + 2) (ph : o.keyPhase = parity G) : Inv o.update (G + 1) := by
  cases hk : o.keyPhase
  · simp only [hk, Opener.slot, Bool.not_false, if_true, Bool.false_eq_true, if_false] at nxt
    refine ⟨?_, ?_, ?_, ?_, ?_⟩ <;> simp [Opener.update, Opener.slot, hk, nxt, ku, parity_succ, ← ph]
  · simp only [hk, Opener.slot, Bool.not_true, if_true, Bool.false_eq_true, if_false] at nxt
    refine ⟨?_, ?_, ?_, ?_, ?_⟩ <;> simp [Opener.update, Opener.slot, hk, nxt, ku, parity_succ, ← ph]

/-! ### genuine / forged packets under the invariant -/

theorem genuine_origin (c : Nat) (w : Wire) (h : Genuine c w = true) :
    ∃ s, w.origin = some s ∧ w.altered = false ∧ s.chain = c ∧ w.phase = parity s.gen := by
  unfold Genuine at h
  cases ho : w.origin with
  | none => simp [ho] at h
  | some s =>
    simp only [ho, Bool.and_eq_true, Bool.not_eq_true', beq_iff_eq] at h
    exact ⟨s, rfl, h.1.1, h.1.2, h.2⟩

/-- under the invariant a packet passes the AEAD iff it is genuine and of the current or next generation -/
theorem aead_iff (o : Opener) (G : Nat) (inv : Inv o G) (w : Wire) :
    aeadOpens o.chain (o.slot w.phase) w = true ↔ (Genuine o.chain w = true ∧ (w.gen = G ∨ w.gen = G + 1)) := by
  rw [inv_slot o G inv]
  unfold aeadOpens Genuine Wire.gen
  cases ho : w.origin with
  | none => simp
  | some s =>
    have hp := parity_succ G
    constructor
    · intro h
      simp only [Bool.and_eq_true, Bool.not_eq_true', beq_iff_eq] at h
      obtain ⟨⟨h1, h2⟩, h3⟩ := h
      by_cases hc : w.phase = parity G
      · rw [if_pos hc] at h3
        refine ⟨?_, Or.inl h3⟩
        simp only [Bool.and_eq_true, Bool.not_eq_true', beq_iff_eq]
        exact ⟨⟨h1, h2⟩, by rw [h3]; exact hc⟩
      · rw [if_neg hc] at h3
        refine ⟨?_, Or.inr h3⟩
        simp only [Bool.and_eq_true, Bool.not_eq_true', beq_iff_eq]
        refine ⟨⟨h1, h2⟩, ?_⟩
        rw [h3]
        show w.phase = parity (G + 1)
        rw [hp]; cases hw : w.phase <;> cases hg : parity G <;> simp_all
    · rintro ⟨h, hg⟩
      have hg : s.gen = G ∨ s.gen = G + 1 := hg
      simp only [Bool.and_eq_true, Bool.not_eq_true', beq_iff_eq] at h
      obtain ⟨⟨h1, h2⟩, h3⟩ := h
      have h3 : w.phase = parity s.gen := h3
      simp only [Bool.and_eq_true, Bool.not_eq_true', beq_iff_eq]
      refine ⟨⟨h1, h2⟩, ?_⟩
      rcases hg with hg | hg
      · rw [hg] at h3; rw [if_pos h3]; exact hg
      · rw [hg, hp] at h3
        have : ¬ w.phase = parity G := by
          rw [h3]; cases parity G <;> simp
        rw [if_neg this]; exact hg

theorem forged_not_auth (o : Opener) (G : Nat) (inv : Inv o G) (w : Wire) (h : Genuine o.chain w = false) :
    aeadOpens o.chain (o.slot w.phase) w = false := by
  cases ha : aeadOpens o.chain (o.slot w.phase) w
  · rfl
  · have := ((aead_iff o G inv w).mp ha).1
    rw [h] at this; cases this

theorem openWithTail_inv (o : Opener) (G : Nat) (inv : Inv o G) : openWithTail o = o := by
  simp [openWithTail, inv.nu]

/-- forged arrival: nothing happens -/
theorem openWith_forged (ip : Bool) (o : Opener) (G : Nat) (inv : Inv o G) (w : Wire) (a : Option OpenError)
    (h : Genuine o.chain w = false) : openWith ip o w a = (o, .error .invalidTag) := by
  simp only [openWith, open_eq_decrypt, decrypt_unauth o w a (forged_not_auth o G inv w h), openWithTail_inv o G inv]

/-- genuine arrival of a generation the opener does not hold: nothing happens -/
theorem openWith_stale (ip : Bool) (o : Opener) (G : Nat) (inv : Inv o G) (w : Wire) (a : Option OpenError)
    (hg : ¬ (w.gen = G ∨ w.gen = G + 1)) : openWith ip o w a = (o, .error .invalidTag) := by
  have : aeadOpens o.chain (o.slot w.phase) w = false := by
    cases ha : aeadOpens o.chain (o.slot w.phase) w
    · rfl
    · exact absurd ((aead_iff o G inv w).mp ha).2 hg
  simp only [openWith, open_eq_decrypt, decrypt_unauth o w a this, openWithTail_inv o G inv]

/-- genuine arrival of the current or the next generation with a passing replay check: it opens, and the
    opener afterwards stands at exactly the packet's generation -/
theorem openWith_genuine (ip : Bool) (o : Opener) (G : Nat) (inv : Inv o G) (w : Wire) (a : Option OpenError)
    (hgen : Genuine o.chain w = true) (hg : w.gen = G ∨ w.gen = G + 1) (hd : DedupOk o.dedup a) :
    (openWith ip o w a).2 = .ok () ∧ Inv (openWith ip o w a).1 w.gen ∧ (openWith ip o w a).1.dedup.cell = some none := by
  have ha := (aead_iff o G inv w).mpr ⟨hgen, hg⟩
  obtain ⟨hc1, hc2⟩ := check_ok o.dedup a hd
  obtain ⟨s, hs, _, _, hph⟩ := genuine_origin o.chain w hgen
  have hwg : w.gen = s.gen := by simp [Wire.gen, hs]
  have inv1 := inv_with_dedup o G inv (o.dedup.check a).1
  rcases hg with hg | hg
  · -- same phase: no flag
    have hsame : (w.phase != o.keyPhase) = false := by
      rw [hph, ← hwg, hg, inv.ph]; simp
    have : ({ o with dedup := (o.dedup.check a).1 } : Opener).notePhase w.phase = { o with dedup := (o.dedup.check a).1 } := by
      simp [Opener.notePhase, hsame]
    have e : openWith ip o w a = ({ o with dedup := (o.dedup.check a).1 }, .ok ()) := by
      simp only [openWith, open_eq_decrypt, decrypt_auth o w a ha, hc1, this, openWithTail_inv _ G inv1]
    rw [e]
    exact ⟨rfl, by rw [hg]; exact inv1, hc2⟩
  · -- other phase: flag raised, the tail of open_with rotates
    have hother : (w.phase != o.keyPhase) = true := by
      rw [hph, ← hwg, hg, inv.ph, parity_succ]; cases parity G <;> rfl
    have hn : ({ o with dedup := (o.dedup.check a).1 } : Opener).notePhase w.phase
        = { o with dedup := (o.dedup.check a).1, needsUpdate := true } := by
      simp [Opener.notePhase, hother]
    have ht : openWithTail { o with dedup := (o.dedup.check a).1, needsUpdate := true }
        = ({ o with dedup := (o.dedup.check a).1, needsUpdate := true } : Opener).update := by
      simp [openWithTail]
    have e : openWith ip o w a = (({ o with dedup := (o.dedup.check a).1, needsUpdate := true } : Opener).update, .ok ()) := by
      simp only [openWith, open_eq_decrypt, decrypt_auth o w a ha, hc1, hn, ht]
    rw [e]
    refine ⟨rfl, ?_, ?_⟩
    · rw [hg]
      exact inv_update _ G inv.nxt inv.ku inv.ph
    · show (Opener.update _).dedup.cell = some none
      unfold Opener.update; cases o.keyPhase <;> exact hc2

/-- whatever arrives, some generation's invariant holds again after `open_with` -/
theorem openWith_inv (ip : Bool) (o : Opener) (G : Nat) (inv : Inv o G) (w : Wire) (a : Option OpenError) :
    ∃ G', Inv (openWith ip o w a).1 G' := by
  cases ha : aeadOpens o.chain (o.slot w.phase) w
  · refine ⟨G, ?_⟩
    simp only [openWith, open_eq_decrypt, decrypt_unauth o w a ha, openWithTail_inv o G inv]; exact inv
  · obtain ⟨hgen, hg⟩ := (aead_iff o G inv w).mp ha
    simp only [openWith, open_eq_decrypt, decrypt_auth o w a ha]
    have inv1 := inv_with_dedup o G inv (o.dedup.check a).1
    cases hc : (o.dedup.check a).2 with
    | some e =>
      refine ⟨G, ?_⟩
      show Inv (openWithTail { o with dedup := (o.dedup.check a).1 }) G
      rw [openWithTail_inv _ G inv1]; exact inv1
    | none =>
      by_cases hp : (w.phase != o.keyPhase) = true
      · refine ⟨G + 1, ?_⟩
        have hn : ({ o with dedup := (o.dedup.check a).1 } : Opener).notePhase w.phase
            = { o with dedup := (o.dedup.check a).1, needsUpdate := true } := by
          simp [Opener.notePhase, hp]
        show Inv (openWithTail (({ o with dedup := (o.dedup.check a).1 } : Opener).notePhase w.phase)) (G + 1)
        rw [hn]
        have ht : openWithTail { o with dedup := (o.dedup.check a).1, needsUpdate := true }
            = ({ o with dedup := (o.dedup.check a).1, needsUpdate := true } : Opener).update := by
          simp [openWithTail]
        rw [ht]
        exact inv_update _ G inv.nxt inv.ku inv.ph
      · refine ⟨G, ?_⟩
        have hn : ({ o with dedup := (o.dedup.check a).1 } : Opener).notePhase w.phase
            = { o with dedup := (o.dedup.check a).1 } := by
          simp [Opener.notePhase, hp]
        show Inv (openWithTail (({ o with dedup := (o.dedup.check a).1 } : Opener).notePhase w.phase)) G
        rw [hn, openWithTail_inv _ G inv1]; exact inv1

/-! ### the sealer -/

def SInv (s : Sealer) : Prop := s.keyPhase = parity s.gen

theorem sinv_new (c : Nat) : SInv (Sealer.new c) := rfl

theorem sinv_update (s : Sealer) (h : SInv s) : SInv s.update := by
  unfold SInv at *
  simp [Sealer.update, parity_succ, h]

theorem sinv_encrypt (s : Sealer) (h : SInv s) (pn : Nat) (hdr payload : List Nat) : SInv (s.encrypt pn hdr payload).1 := h

theorem encrypt_genuine (s : Sealer) (h : SInv s) (pn : Nat) (hdr payload : List Nat) :
    Genuine s.chain (s.encrypt pn hdr payload).2 = true ∧ (s.encrypt pn hdr payload).2.gen = s.gen := by
  unfold SInv at h
  simp [Sealer.encrypt, Genuine, Wire.gen, h, parity]

/-- generations grow by at most one from one element to the next, starting at or just above `G` -/
def Steps : Nat → List Nat → Prop
  | _, [] => True
  | G, g :: t => (g = G ∨ g = G + 1) ∧ Steps g t

def Starts (G : Nat) (l : List Nat) : Prop := ∀ g ∈ l.head?, g = G

theorem steps_replicate (g : Nat) (n : Nat) (rest : List Nat) (h : Steps g rest) :
    Steps g (List.replicate n g ++ rest) := by
  induction n with
  | zero => simpa using h
  | succ n ih => rw [List.replicate_succ, List.cons_append]; exact ⟨Or.inl rfl, ih⟩

theorem steps_from_next (g : Nat) (rest : List Nat) (hs : Starts (g + 1) rest) (h : Steps (g + 1) rest) : Steps g rest := by
  cases rest with
  | nil => trivial
  | cons x t =>
    have hx : x = g + 1 := hs x (by simp)
    exact ⟨Or.inr hx, h.2⟩

/-- one `transmit` batch: the packets sealed inside one `seal_with` closure -/
def sealBatch (s : Sealer) : List (Nat × List Nat × List Nat) → Sealer × List Wire
  | [] => (s, [])
  | (pn, hdr, payload) :: t =>
    let r := s.encrypt pn hdr payload
    let r2 := sealBatch r.1 t
    (r2.1, r.2 :: r2.2)

/-- the packets a stream's sealer emits over a sequence of `seal_with` calls on a reliable transport -/
def sealRun (maxRec : Nat) (s : Sealer) : List (List (Nat × List Nat × List Nat)) → List Wire
  | [] => []
  | b :: bs => (sealBatch s b).2 ++ sealRun maxRec (sealWithTail maxRec true (sealBatch s b).1) bs

theorem sealBatch_spec (s : Sealer) (b : List (Nat × List Nat × List Nat)) :
    (sealBatch s b).1 = { s with encryptedRecords := s.encryptedRecords + b.length } ∧
    (sealBatch s b).2.map Wire.gen = List.replicate b.length s.gen ∧
    (SInv s → ∀ w ∈ (sealBatch s b).2, Genuine s.chain w = true) := by
  induction b generalizing s with
  | nil => exact ⟨rfl, rfl, fun _ _ h => by cases h⟩
  | cons x t ih =>
    obtain ⟨pn, hdr, payload⟩ := x
    obtain ⟨h1, h2, h3⟩ := ih (s.encrypt pn hdr payload).1
    refine ⟨?_, ?_, ?_⟩
    · show (sealBatch (s.encrypt pn hdr payload).1 t).1 = _
      rw [h1]; simp [Sealer.encrypt]; omega
    · simp only [sealBatch, List.map_cons, h2, List.length_cons, List.replicate_succ]
      simp [Sealer.encrypt, Wire.gen]
    · intro hs w hw
      simp only [sealBatch, List.mem_cons] at hw
      rcases hw with rfl | hw
      · exact (encrypt_genuine s hs pn hdr payload).1
      · exact h3 (sinv_encrypt s hs pn hdr payload) w hw

theorem sealWithTail_cases (maxRec : Nat) (s : Sealer) :
    (s.encryptedRecords < maxRec ∧ sealWithTail maxRec true s = s) ∨
    (maxRec ≤ s.encryptedRecords ∧ sealWithTail maxRec true s = s.update) := by
  unfold sealWithTail Sealer.needsUpdate
  by_cases h : s.encryptedRecords ≥ maxRec
  · right; exact ⟨h, by simp [h]⟩
  · left; exact ⟨by omega, by simp [h]⟩

/-- in-order output of a reliable stream's sealer: generations start at the sealer's own and climb by
    single steps; every packet is genuine for the chain -/
theorem sealRun_steps (maxRec : Nat) (hm : 1 ≤ maxRec) (s : Sealer) (hs : SInv s) (hr : s.encryptedRecords < maxRec)
    (bs : List (List (Nat × List Nat × List Nat))) :
    Starts s.gen ((sealRun maxRec s bs).map Wire.gen) ∧ Steps s.gen ((sealRun maxRec s bs).map Wire.gen) ∧
    ∀ w ∈ sealRun maxRec s bs, Genuine s.chain w = true := by
  induction bs generalizing s with
  | nil => exact ⟨fun g h => by simp [sealRun] at h, trivial, fun _ h => by cases h⟩
  | cons b bs ih =>
    obtain ⟨h1, h2, h3⟩ := sealBatch_spec s b
    simp only [sealRun, List.map_append, h2]
    have hs1 : SInv (sealBatch s b).1 := by rw [h1]; exact hs
    rcases sealWithTail_cases maxRec (sealBatch s b).1 with ⟨hlt, heq⟩ | ⟨hge, heq⟩
    · -- no update after this batch
      rw [heq]
      obtain ⟨i1, i2, i3⟩ := ih (sealBatch s b).1 hs1 hlt
      have hg : (sealBatch s b).1.gen = s.gen := by rw [h1]
      have hc : (sealBatch s b).1.chain = s.chain := by rw [h1]
      rw [hg] at i1 i2; rw [hc] at i3
      refine ⟨?_, steps_replicate _ _ _ i2, ?_⟩
      · intro g hgm
        cases hb : b.length with
        | zero => rw [hb] at hgm; simpa using i1 g (by simpa using hgm)
        | succ n => rw [hb, List.replicate_succ] at hgm; simp at hgm; exact hgm.symm
      · intro w hw
        rcases List.mem_append.mp hw with hw | hw
        · exact h3 hs w hw
        · exact i3 w hw
    · -- the batch reached the budget: update
      rw [heq]
      have hlen : 0 < b.length := by
        rw [h1] at hge; simp at hge; omega
      have hu : (sealBatch s b).1.update.encryptedRecords < maxRec := by simp [Sealer.update]; omega
      obtain ⟨i1, i2, i3⟩ := ih (sealBatch s b).1.update (sinv_update _ hs1) hu
      have hg : (sealBatch s b).1.update.gen = s.gen + 1 := by rw [h1]; rfl
      have hc : (sealBatch s b).1.update.chain = s.chain := by rw [h1]; rfl
      rw [hg] at i1 i2; rw [hc] at i3
      refine ⟨?_, steps_replicate _ _ _ (steps_from_next _ _ i1 i2), ?_⟩
      · intro g hgm
        obtain ⟨n, hn⟩ : ∃ n, b.length = n + 1 := ⟨b.length - 1, by omega⟩
        rw [hn, List.replicate_succ] at hgm; simp at hgm; exact hgm.symm
      · intro w hw
        rcases List.mem_append.mp hw with hw | hw
        · exact h3 hs w hw
        · exact i3 w hw

/-! ### history predicates and Once helpers -/

/-- the generations of the genuine packets of a history stay inside the opener's window: each is the
    generation of the previous genuine packet (initially the opener's) or the next one. Reordering and
    duplication inside that window are allowed; forged arrivals are unconstrained. -/
def InWindow (chain : Nat) (G : Nat) (h : List Arrival) : Prop :=
  Steps G ((h.filter (fun a => Genuine chain a.wire)).map (·.wire.gen))

/-- the replay check lets this opener's key through: dedup is disabled / already passed, or it is still
    armed and the map answers Ok whenever it is asked -/
def DedupFine (d : Dedup) (h : List Arrival) : Prop :=
  d.cell = some none ∨ (d.cell = none ∧ d.init = true ∧ ∀ a ∈ h, a.mapAnswer = none)

/-- results of a history on one `open::Once` -/
def runOnce (o : OnceOpener) : List (Wire × Option OpenError) → List (Except OpenError Unit)
  | [] => []
  | (w, a) :: t => (o.decrypt w a).2 :: runOnce (o.decrypt w a).1 t

theorem once_opened_stays (o : OnceOpener) (w : Wire) (a : Option OpenError) (h : o.opened = true) :
    (o.decrypt w a).1.opened = true ∧ isOk (o.decrypt w a).2 = false := by
  unfold OnceOpener.decrypt
  split
  · exact ⟨h, rfl⟩
  · split
    · exact ⟨h, rfl⟩
    · cases hc : (o.dedup.check a).2 <;> simp [h, isOk, hc]

theorem once_ok_sets_opened (o : OnceOpener) (w : Wire) (a : Option OpenError) (h : isOk (o.decrypt w a).2 = true) :
    (o.decrypt w a).1.opened = true := by
  unfold OnceOpener.decrypt at h ⊢
  split
  · simp_all [isOk]
  · split
    · simp_all [isOk]
    · cases hc : (o.dedup.check a).2 with
      | some e => simp_all [isOk]
      | none => cases ho : o.opened <;> simp_all [isOk]

theorem runOnce_opened_none_ok (o : OnceOpener) (h : o.opened = true) (l : List (Wire × Option OpenError)) :
    ((runOnce o l).filter isOk).length = 0 := by
  induction l generalizing o with
  | nil => rfl
  | cons x t ih =>
    obtain ⟨w, a⟩ := x
    obtain ⟨h1, h2⟩ := once_opened_stays o w a h
    simp only [runOnce, List.filter_cons, h2]
    exact ih _ h1

end Quic.Proofs.DcKeyPhase
