import QuicModel.Data.AckRanges
import QuicProofs.Lemmas.IntervalSet
/-
  Helper lemmas for C16 (`ack::Ranges`): the three-way characterisation of
  `insert_packet_number_range` on a set that respects its limit.
-/
namespace Quic.Proofs.AckLemmas
open Quic.Data.IvSet Quic.Data.IvSpec Quic.Data.AckRanges Quic.Proofs.IvLemmas

/-- the state invariant of `ack::Ranges` created by `Ranges::new(L)` -/
def Inv (L : Nat) (s : IvSet) : Prop := s.limit = some L ∧ 1 ≤ L ∧ WF s.ivs ∧ s.ivs.length ≤ L

theorem Inv.new (L : Nat) (hL : 1 ≤ L) : Inv L (new L) := ⟨rfl, hL, WF.nil, Nat.zero_le _⟩

theorem minBelow_iff (mn : Interval) (start : Nat) (h : mn.lo ≤ mn.hi) : minBelow mn start = true ↔ mn.hi < start := by
  unfold minBelow
  have := (cmpVal_spec mn start h).2.1
  rw [← this]; simp

theorem eta (s : IvSet) (L : Nat) (h : s.limit = some L) : s = ⟨some L, s.ivs⟩ := by cases s; simp_all

/-- `insert_packet_number_range` in three cases -/
theorem insertRange_char (L : Nat) (s : IvSet) (lo hi : Nat) (hinv : Inv L s) (h : lo ≤ hi) :
    (¬ InsertLimitHit s ⟨lo, hi⟩ ∧ insertRange s lo hi = (⟨some L, insSpec s.ivs ⟨lo, hi⟩⟩, .ok)) ∨
    (InsertLimitHit s ⟨lo, hi⟩ ∧ s.ivs.length = L ∧ ∃ mn rest, s.ivs = mn :: rest ∧
      ((mn.hi < lo ∧ insertRange s lo hi = (⟨some L, insSpec rest ⟨lo, hi⟩⟩, .lowestRangeDropped mn.lo mn.hi)) ∨
       (hi + 1 < mn.lo ∧ insertRange s lo hi = (s, .rangeInsertionFailed lo hi)))) := by
  obtain ⟨hlim, hL, hwf, hlen⟩ := hinv
  rcases insert_char s ⟨lo, hi⟩ hwf h with ⟨h1, hn⟩ | ⟨h1, hy⟩
  · refine Or.inl ⟨hn, ?_⟩
    simp only [insertRange, h1, hlim]
  · obtain ⟨hne, hiso, L', hL', hle⟩ := hy
    rw [hlim] at hL'; cases hL'
    have hlenL : s.ivs.length = L := by omega
    refine Or.inr ⟨⟨hne, hiso, L, hlim, hle⟩, hlenL, ?_⟩
    cases hiv : s.ivs with
    | nil => exact absurd hiv hne
    | cons mn rest =>
      refine ⟨mn, rest, rfl, ?_⟩
      rw [hiv] at hwf
      have hmn := hwf.head_valid
      have hrestlen : rest.length + 1 = L := by rw [hiv] at hlenL; simpa using hlenL
      have hpop : s.popMin = (⟨some L, rest⟩, some mn) := by simp [IvSet.popMin, hiv, hlim]
      have hnotouch := hiso mn (by rw [hiv]; exact List.mem_cons_self ..)
      unfold Touches at hnotouch
      by_cases hb : mn.hi < lo
      · refine Or.inl ⟨hb, ?_⟩
        have hmb := (minBelow_iff mn lo hmn).2 hb
        rcases insert_char ⟨some L, rest⟩ ⟨lo, hi⟩ hwf.tail h with ⟨h2, _⟩ | ⟨_, hy2⟩
        · simp only [insertRange, h1, hpop, hmb, if_true, h2]
        · obtain ⟨_, _, L', hL', hle'⟩ := hy2
          simp only [Option.some.injEq] at hL'; subst hL'
          simp only at hle'; omega
      · have hbelow : hi + 1 < mn.lo := by simp only at hnotouch; omega
        refine Or.inr ⟨hbelow, ?_⟩
        have hmb : minBelow mn lo = false := by
          cases hc : minBelow mn lo
          · rfl
          · exact absurd ((minBelow_iff mn lo hmn).1 hc) hb
        rcases insertFront_char ⟨some L, rest⟩ mn hwf.tail hmn with ⟨h2, _⟩ | ⟨_, hy2⟩
        · have hspec : insSpec rest mn = mn :: rest := insSpec_of_lt rest mn hwf.head_lt
          simp only [insertRange, h1, hpop, hmb, Bool.false_eq_true, if_false, h2, hspec]
          rw [eta s L hlim, hiv]
        · obtain ⟨_, _, L', hL', hle'⟩ := hy2
          simp only [Option.some.injEq] at hL'; subst hL'
          simp only at hle'; omega

end Quic.Proofs.AckLemmas
