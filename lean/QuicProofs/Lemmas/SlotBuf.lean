import QuicModel.Data.SlotBuf
import QuicModel.Data.RefBufSpec
import QuicProofs.Lemmas.RefBuf
/-
  Helper lemmas relating `Data.SlotBuf` (transcription of the slot layer) to the byte-map view
  used by `Data.RefBuf`: the read path (`readChunk`) and `skip`.
-/
namespace Quic.Proofs.SlotBufLemmas
open Quic.Data Quic.Data.SlotBuf

/-- byte of one slot at absolute offset `i` -/
def slotByte (s : Slot) (i : Nat) : Option Nat := if s.start ≤ i then s.data[i - s.start]? else none

def bytesOf (slots : List Slot) (i : Nat) : Option Nat := slots.findSome? (fun s => slotByte s i)

theorem byteAt_eq (b : SlotBuf) (i : Nat) : byteAt b i = bytesOf b.slots i := rfl

/-- the slot invariants asserted by `Reassembler::invariants` / `Slot::invariants`: allocations
    ordered and disjoint, above `start_offset`, non-empty, data inside the allocation -/
def WFSlots (lo : Nat) : List Slot → Prop
  | [] => True
  | s :: rest => lo ≤ s.start ∧ s.start < s.endAlloc ∧ s.end_ ≤ s.endAlloc ∧ WFSlots s.endAlloc rest

def WF (b : SlotBuf) : Prop := WFSlots b.start b.slots

theorem wfslots_mono {lo lo' : Nat} {l : List Slot} (h : WFSlots lo l) (hle : lo' ≤ lo) : WFSlots lo' l := by
  cases l with
  | nil => trivial
  | cons s rest => exact ⟨Nat.le_trans hle h.1, h.2.1, h.2.2.1, h.2.2.2⟩

/-- nothing is held below the lower bound of a well-formed slot list -/
theorem bytesOf_below {lo : Nat} {l : List Slot} (h : WFSlots lo l) {i : Nat} (hi : i < lo) : bytesOf l i = none := by
  induction l generalizing lo with
  | nil => rfl
  | cons s rest ih =>
    obtain ⟨h1, h2, h3, h4⟩ := h
    unfold bytesOf
    rw [List.findSome?_cons]
    have : slotByte s i = none := by
      unfold slotByte
      have : ¬ s.start ≤ i := by omega
      simp [this]
    rw [this]
    exact ih h4 (by omega)

theorem slotByte_none_of_ge_end {s : Slot} {i : Nat} (h : s.end_ ≤ i) : slotByte s i = none := by
  unfold slotByte
  split
  · rw [List.getElem?_eq_none]
    unfold Slot.end_ at h
    omega
  · rfl

theorem bytesOf_cons (s : Slot) (rest : List Slot) (i : Nat) :
    bytesOf (s :: rest) i = (slotByte s i).or (bytesOf rest i) := by
  unfold bytesOf
  rw [List.findSome?_cons]
  cases slotByte s i <;> rfl

/-- trimming `n` offsets (inside the allocation) off the front slot removes exactly the offsets
    below `start + n` -/
theorem bytesOf_trim_front' {lo : Nat} {s : Slot} {rest : List Slot} (h : WFSlots lo (s :: rest)) (n e : Nat)
    (hn : s.start + n ≤ s.endAlloc) (i : Nat) :
    bytesOf ({ start := s.start + n, endAlloc := e, data := s.data.drop n } :: rest) i
      = if i < s.start + n then none else bytesOf (s :: rest) i := by
  obtain ⟨h1, h2, h3, h4⟩ := h
  rw [bytesOf_cons, bytesOf_cons]
  unfold Slot.end_ at h3
  split
  · rename_i hi
    have : bytesOf rest i = none := bytesOf_below h4 (by omega)
    rw [this]
    simp [slotByte]
    omega
  · rename_i hi
    congr 1
    simp only [slotByte, List.getElem?_drop]
    have h5 : s.start + n ≤ i := by omega
    have h6 : s.start ≤ i := by omega
    simp only [h5, h6, if_true]
    congr 1
    omega

theorem bytesOf_trim_front {lo : Nat} {s : Slot} {rest : List Slot} (h : WFSlots lo (s :: rest)) (n e : Nat)
    (hn : n ≤ s.data.length) (i : Nat) :
    bytesOf ({ start := s.start + n, endAlloc := e, data := s.data.drop n } :: rest) i
      = if i < s.start + n then none else bytesOf (s :: rest) i := by
  apply bytesOf_trim_front' h
  have := h.2.2.1
  unfold Slot.end_ at this
  omega

/-- dropping the front slot once all its data is consumed -/
theorem bytesOf_drop_front {lo : Nat} {s : Slot} {rest : List Slot} (h : WFSlots lo (s :: rest)) (i : Nat) :
    bytesOf rest i = if i < s.start + s.data.length then none else bytesOf (s :: rest) i := by
  obtain ⟨h1, h2, h3, h4⟩ := h
  unfold Slot.end_ at h3
  split
  · exact bytesOf_below h4 (by omega)
  · rw [bytesOf_cons, slotByte_none_of_ge_end (by unfold Slot.end_; omega)]
    rfl

/-- watermark as a bound -/
def underWatermark (w : Option Nat) (k : Nat) : Prop :=
  match w with
  | some w => k ≤ w
  | none => True

theorem readN_le (slot : Slot) (w : Option Nat) : readN slot w ≤ slot.data.length := by
  unfold readN; cases w <;> simp only <;> omega

theorem readN_under (slot : Slot) (w : Option Nat) : underWatermark w (readN slot w) := by
  unfold readN underWatermark; cases w <;> simp only <;> omega

theorem finalHere_under {fo : Option Nat} {slot : Slot} {w : Option Nat} (h : finalHere fo slot w = true) :
    underWatermark w slot.data.length := by
  unfold finalHere at h
  unfold underWatermark
  cases fo with
  | none => simp at h
  | some f => cases w <;> simp at h ⊢; omega

/-- the read path: one `read_chunk` hands out the held bytes of `[start, start + k)`, advances
    `start_offset` by `k`, removes exactly those offsets from what is held, keeps the slot
    invariants, respects the watermark, and returns nothing only when nothing is held at
    `start_offset` or the watermark is 0 -/
theorem readChunk_spec (b : SlotBuf) (w : Option Nat) (hwf : WF b) :
    (∀ j, j < (readChunk b w).2.length → (readChunk b w).2[j]? = byteAt b (b.start + j)) ∧
    (∀ j, j < (readChunk b w).2.length → (byteAt b (b.start + j)).isSome) ∧
    (readChunk b w).1.start = b.start + (readChunk b w).2.length ∧
    (readChunk b w).1.maxRecv = b.maxRecv ∧ (readChunk b w).1.finalOffset = b.finalOffset ∧
    (∀ i, byteAt (readChunk b w).1 i = if i < b.start + (readChunk b w).2.length then none else byteAt b i) ∧
    WF (readChunk b w).1 ∧
    underWatermark w (readChunk b w).2.length ∧
    ((readChunk b w).2.length = 0 → byteAt b b.start = none ∨ w = some 0) := by
  obtain ⟨slots, st, mr, fo⟩ := b
  cases slots with
  | nil =>
    simp only [readChunk]
    refine ⟨by simp, by simp, by simp, trivial, trivial, ?_, hwf, ?_, ?_⟩
    · intro i
      simp only [byteAt_eq, bytesOf, List.findSome?_nil]
      first
        | exact (ite_self _).symm
        | (rw [ite_self])
        | (by_cases h : i < st + ([] : List Nat).length <;> simp only [h, if_true, if_false])
    · cases w <;> simp [underWatermark]
    · intro _; left; simp [byteAt_eq, bytesOf]
  | cons slot rest =>
    have hwf' : WFSlots st (slot :: rest) := hwf
    obtain ⟨h1, h2, h3, h4⟩ := hwf'
    by_cases hocc : slot.isOccupied st = true
    · -- occupied
      have hstart : slot.start = st := by
        simp [Slot.isOccupied] at hocc; exact hocc.2
      have hne : slot.data ≠ [] := by
        simp [Slot.isOccupied] at hocc; exact hocc.1
      have hlen : 0 < slot.data.length := List.length_pos_iff.mpr hne
      have hfirst : ∀ j, j < slot.data.length → byteAt ⟨slot :: rest, st, mr, fo⟩ (st + j) = slot.data[j]? := by
        intro j hj
        rw [byteAt_eq, bytesOf_cons]
        have : slotByte slot (st + j) = slot.data[j]? := by
          simp [slotByte, hstart]
        rw [this]
        have hs : (slot.data[j]?).isSome := by simp; exact hj
        obtain ⟨x, hx⟩ := Option.isSome_iff_exists.mp hs
        rw [hx]; rfl
      by_cases hfin : finalHere fo slot w = true
      · -- final slot consumed as a whole
        have hrc : readChunk ⟨slot :: rest, st, mr, fo⟩ w = (⟨rest, st + slot.data.length, mr, fo⟩, slot.data) := by
          simp [readChunk, hocc, hfin]
        rw [hrc]
        refine ⟨?_, ?_, rfl, rfl, rfl, ?_, ?_, finalHere_under hfin, ?_⟩
        · intro j hj; rw [hfirst j hj]
        · intro j hj; rw [hfirst j hj]; simp; exact hj
        · intro i
          simp only [byteAt_eq]
          rw [bytesOf_drop_front (lo := st) ⟨h1, h2, h3, h4⟩ i, hstart]
        · show WFSlots (st + slot.data.length) rest
          unfold Slot.end_ at h3
          exact wfslots_mono h4 (by omega)
        · intro h0; simp only at h0; omega
      · -- ordinary read: `min watermark len` bytes
        have hnle := readN_le slot w
        have htl : (slot.data.take (readN slot w)).length = readN slot w := by simp; omega
        have hrc : readChunk ⟨slot :: rest, st, mr, fo⟩ w =
            (⟨if slot.start + readN slot w == slot.endAlloc then rest
               else { slot with start := slot.start + readN slot w, data := slot.data.drop (readN slot w) } :: rest,
              st + readN slot w, mr, fo⟩, slot.data.take (readN slot w)) := by
          simp [readChunk, hocc, hfin, Slot.shouldDrop, htl]
        rw [hrc]
        simp only [htl]
        unfold Slot.end_ at h3
        refine ⟨?_, ?_, trivial, trivial, trivial, ?_, ?_, readN_under slot w, ?_⟩
        · intro j hj; rw [hfirst j (by omega), List.getElem?_take]; simp [hj]
        · intro j hj; rw [hfirst j (by omega)]; simp; omega
        · intro i
          simp only [byteAt_eq]
          by_cases hall : slot.start + readN slot w = slot.endAlloc
          · have hnl : readN slot w = slot.data.length := by omega
            simp only [hall, beq_self_eq_true, if_true]
            rw [bytesOf_drop_front (lo := st) ⟨h1, h2, by unfold Slot.end_; omega, h4⟩ i, hstart, hnl]
          · have : (slot.start + readN slot w == slot.endAlloc) = false := by simpa using hall
            simp only [this, Bool.false_eq_true, if_false]
            rw [bytesOf_trim_front (lo := st) ⟨h1, h2, by unfold Slot.end_; omega, h4⟩ _ slot.endAlloc hnle i, hstart]
        · show WFSlots (st + readN slot w) _
          by_cases hall : slot.start + readN slot w = slot.endAlloc
          · simp only [hall, beq_self_eq_true, if_true]
            exact wfslots_mono h4 (by omega)
          · have : (slot.start + readN slot w == slot.endAlloc) = false := by simpa using hall
            simp only [this, Bool.false_eq_true, if_false]
            refine ⟨by simp; omega, by simp; omega, ?_, h4⟩
            simp [Slot.end_]; omega
        · intro h0
          right
          have h0' : readN slot w = 0 := by
            first
              | exact h0
              | (rw [← htl]; exact h0)
          unfold readN at h0'
          cases w with
          | none => simp only at h0'; omega
          | some w => simp only at h0'; congr 1; omega
    · -- front slot not occupied: nothing to read
      have hocc' : slot.isOccupied st = false := by simpa using hocc
      have hrc : readChunk ⟨slot :: rest, st, mr, fo⟩ w = (⟨slot :: rest, st, mr, fo⟩, []) := by
        simp [readChunk, hocc']
      rw [hrc]
      refine ⟨by simp, by simp, by simp, rfl, rfl, ?_, hwf, ?_, ?_⟩
      · intro i
        simp only [List.length_nil, Nat.add_zero]
        split
        · rename_i hi
          rw [byteAt_eq]
          exact bytesOf_below (lo := st) (l := slot :: rest) ⟨h1, h2, h3, h4⟩ hi
        · rfl
      · cases w <;> simp [underWatermark]
      · intro _
        left
        rw [byteAt_eq, bytesOf_cons]
        have hr : bytesOf rest st = none := bytesOf_below h4 (by omega)
        rw [hr]
        simp only [Slot.isOccupied, Bool.and_eq_false_imp, Bool.not_eq_eq_eq_not, Bool.not_true] at hocc'
        unfold slotByte
        by_cases hd : slot.data = []
        · simp [hd]
        · have : slot.start ≠ st := by
            intro he
            have := hocc' (by simpa using hd)
            simp [he] at this
          have : ¬ slot.start ≤ st := by omega
          simp [this]

/-- the slot-clearing loop of `skip`: exactly the offsets below the new start are dropped -/
theorem skipSlots_spec {lo : Nat} {l : List Slot} (h : WFSlots lo l) (ns : Nat) (hlo : lo ≤ ns) :
    WFSlots ns (skipSlots ns l) ∧ ∀ i, bytesOf (skipSlots ns l) i = if i < ns then none else bytesOf l i := by
  induction l generalizing lo with
  | nil =>
    refine ⟨trivial, fun i => ?_⟩
    simp only [skipSlots, bytesOf, List.findSome?_nil]
    first
      | exact (ite_self _).symm
      | (rw [ite_self])
  | cons s rest ih =>
    obtain ⟨h1, h2, h3, h4⟩ := h
    have h3' : s.start + s.data.length ≤ s.endAlloc := h3
    unfold skipSlots
    split
    · -- the whole slot lies below the new start
      rename_i hlt
      obtain ⟨ihw, ihb⟩ := ih h4 (by omega)
      refine ⟨ihw, fun i => ?_⟩
      rw [ihb i, bytesOf_cons]
      split
      · rfl
      · rw [slotByte_none_of_ge_end (by unfold Slot.end_; omega)]; rfl
    · rename_i hge
      by_cases hns : ns ≥ s.start
      · have hsk : s.skipUntil ns = { start := s.start + (ns - s.start), endAlloc := s.endAlloc, data := s.data.drop (ns - s.start) } := by
          simp [Slot.skipUntil, hns]
        rw [hsk]
        have hst : s.start + (ns - s.start) = ns := by omega
        by_cases hdrop : ns = s.endAlloc
        · have : (({ start := s.start + (ns - s.start), endAlloc := s.endAlloc, data := s.data.drop (ns - s.start) } : Slot).shouldDrop) = true := by
            simp [Slot.shouldDrop]; omega
          simp only [this, if_true]
          refine ⟨by rw [hdrop]; exact h4, fun i => ?_⟩
          split
          · exact bytesOf_below h4 (by omega)
          · rw [bytesOf_cons, slotByte_none_of_ge_end (by unfold Slot.end_; omega)]; rfl
        · have : (({ start := s.start + (ns - s.start), endAlloc := s.endAlloc, data := s.data.drop (ns - s.start) } : Slot).shouldDrop) = false := by
            simp [Slot.shouldDrop]; omega
          simp only [this, Bool.false_eq_true, if_false]
          refine ⟨⟨by simp only; omega, by simp only; omega, ?_, h4⟩, fun i => ?_⟩
          · simp only [Slot.end_, List.length_drop]; omega
          · rw [bytesOf_trim_front' (lo := lo) ⟨h1, h2, h3, h4⟩ (ns - s.start) s.endAlloc (by omega) i, hst]
      · have hsk : s.skipUntil ns = s := by
          simp [Slot.skipUntil, hns]
        rw [hsk]
        have : s.shouldDrop = false := by simp [Slot.shouldDrop]; omega
        simp only [this, Bool.false_eq_true, if_false]
        refine ⟨⟨by omega, h2, h3, h4⟩, fun i => ?_⟩
        split
        · exact bytesOf_below (lo := ns) (l := s :: rest) ⟨by omega, h2, h3, h4⟩ (by omega)
        · rfl

/-! ### the contiguous run seen by `iter()` / `report()` / `total_received_len()` -/

/-- bytes in the occupied chunks walked from `prev` -/
def runLen : List Slot → Nat → Nat
  | [], _ => 0
  | s :: rest, prev => if s.isOccupied prev then s.data.length + runLen rest s.end_ else 0

theorem chunks_go_length (l : List Slot) (prev : Nat) :
    (chunks.go l prev).foldl (fun a c => a + c.length) 0 = runLen l prev := by
  have key : ∀ (l : List Slot) (prev a : Nat),
      (chunks.go l prev).foldl (fun a c => a + c.length) a = a + runLen l prev := by
    intro l
    induction l with
    | nil => intro prev a; simp [chunks.go, runLen]
    | cons s rest ih =>
      intro prev a
      unfold chunks.go runLen
      split
      · simp only [List.foldl_cons]
        rw [ih]
        omega
      · simp
  have := key l prev 0
  omega

theorem totalReceived_go (l : List Slot) (prev : Nat) : totalReceivedLen.go l prev = prev + runLen l prev := by
  induction l generalizing prev with
  | nil => simp [totalReceivedLen.go, runLen]
  | cons s rest ih =>
    unfold totalReceivedLen.go runLen
    split
    · rename_i h
      rw [ih]
      have : s.start = prev := by simp [Slot.isOccupied] at h; exact h.2
      unfold Slot.end_
      omega
    · simp

theorem len_eq_runLen (b : SlotBuf) : len b = runLen b.slots b.start := by
  unfold len report chunks
  exact chunks_go_length _ _

theorem totalReceivedLen_eq (b : SlotBuf) : totalReceivedLen b = b.start + runLen b.slots b.start :=
  totalReceived_go _ _

/-- the walked run is exactly the contiguous run of held bytes -/
theorem runLen_spec {lo : Nat} {l : List Slot} (h : WFSlots lo l) {prev : Nat} (hp : prev ≤ lo) :
    (∀ j, j < runLen l prev → (bytesOf l (prev + j)).isSome) ∧ bytesOf l (prev + runLen l prev) = none := by
  induction l generalizing lo prev with
  | nil => simp [runLen, bytesOf]
  | cons s rest ih =>
    obtain ⟨h1, h2, h3, h4⟩ := h
    have h3' : s.start + s.data.length ≤ s.endAlloc := h3
    unfold runLen
    split
    · rename_i hocc
      have hstart : s.start = prev := by simp [Slot.isOccupied] at hocc; exact hocc.2
      obtain ⟨ih1, ih2⟩ := ih h4 (prev := s.end_) h3
      constructor
      · intro j hj
        rw [bytesOf_cons]
        by_cases hjl : j < s.data.length
        · have : (slotByte s (prev + j)).isSome := by
            simp [slotByte, hstart]; exact hjl
          obtain ⟨x, hx⟩ := Option.isSome_iff_exists.mp this
          simp [hx]
        · rw [slotByte_none_of_ge_end (by unfold Slot.end_; omega), Option.none_or]
          have := ih1 (j - s.data.length) (by omega)
          have he : s.end_ + (j - s.data.length) = prev + j := by unfold Slot.end_; omega
          rw [he] at this
          exact this
      · rw [bytesOf_cons, slotByte_none_of_ge_end (by unfold Slot.end_; omega), Option.none_or]
        have he : s.end_ + runLen rest s.end_ = prev + (s.data.length + runLen rest s.end_) := by
          unfold Slot.end_; omega
        rw [← he]
        exact ih2
    · rename_i hocc
      refine ⟨fun j hj => by omega, ?_⟩
      simp only [Nat.add_zero]
      rw [bytesOf_cons, bytesOf_below h4 (by omega), Option.or_none]
      have hocc' : s.isOccupied prev = false := by simpa using hocc
      simp only [Slot.isOccupied, Bool.and_eq_false_imp, Bool.not_eq_eq_eq_not, Bool.not_true] at hocc'
      unfold slotByte
      by_cases hd : s.data = []
      · simp [hd]
      · have : s.start ≠ prev := by
          intro he
          have := hocc' (by simpa using hd)
          simp [he] at this
        have : ¬ s.start ≤ prev := by omega
        simp [this]

/-! ### the refinement relation -/

/-- the slot layer `b` represents the reference buffer `s` -/
structure Refines (b : SlotBuf) (s : RefBuf.RefBuf) : Prop where
  wf : WF b
  start : b.start = s.consumed
  maxRecv : b.maxRecv = s.maxRecv
  final : b.finalOffset = s.finalSize
  bytes : ∀ i, byteAt b i = RefBuf.byteAt s i

theorem refines_init : Refines init RefBuf.init := by
  refine ⟨trivial, rfl, rfl, rfl, fun i => ?_⟩
  simp [byteAt_eq, bytesOf, init, RefBuf.byteAt, RefBuf.init, RefBuf.get]

open Quic.Proofs.RefBufLemmas in
/-- both layers see the same contiguous run -/
theorem refines_len {b : SlotBuf} {s : RefBuf.RefBuf} (h : Refines b s) : len b = RefBuf.len s := by
  rw [len_eq_runLen]
  obtain ⟨r1, r2⟩ := runLen_spec (lo := b.start) h.wf (Nat.le_refl _)
  have e1 := len_spec_end s
  by_cases hlt : runLen b.slots b.start < RefBuf.len s
  · have := len_spec_lt s (s.consumed + runLen b.slots b.start) (by omega) (by omega)
    rw [← h.bytes, byteAt_eq, ← h.start, r2] at this
    simp at this
  · by_cases hgt : RefBuf.len s < runLen b.slots b.start
    · have := r1 (RefBuf.len s) hgt
      rw [← byteAt_eq, h.bytes, h.start, e1] at this
      simp at this
    · omega

theorem isEmpty_iff_runLen (b : SlotBuf) : isEmpty b = (runLen b.slots b.start == 0) := by
  obtain ⟨slots, st, mr, fo⟩ := b
  cases slots with
  | nil => simp [isEmpty, runLen]
  | cons s rest =>
    simp only [isEmpty, runLen]
    by_cases hocc : s.isOccupied st = true
    · have hne : s.data ≠ [] := by simp [Slot.isOccupied] at hocc; exact hocc.1
      have : 0 < s.data.length := List.length_pos_iff.mpr hne
      simp only [hocc, Bool.not_true, if_true]
      symm
      simp only [beq_eq_false_iff_ne, ne_eq]
      omega
    · simp [hocc]

open Quic.Proofs.RefBufLemmas in
theorem refines_observers {b : SlotBuf} {s : RefBuf.RefBuf} (h : Refines b s) :
    len b = RefBuf.len s ∧ b.start = RefBuf.consumedLen s ∧
    totalReceivedLen b = RefBuf.totalReceivedLen s ∧ isEmpty b = RefBuf.isEmpty s ∧
    isWritingComplete b = RefBuf.isWritingComplete s ∧ isReadingComplete b = RefBuf.isReadingComplete s := by
  have hl := refines_len h
  have hr : runLen b.slots b.start = RefBuf.len s := by rw [← len_eq_runLen]; exact hl
  have ht : totalReceivedLen b = RefBuf.totalReceivedLen s := by
    rw [totalReceivedLen_eq, hr, h.start]; rfl
  refine ⟨hl, h.start, ht, ?_, ?_, ?_⟩
  · rw [isEmpty_iff_runLen, hr]; rfl
  · unfold isWritingComplete RefBuf.isWritingComplete
    rw [h.final, ht]
    rfl
  · unfold isReadingComplete RefBuf.isReadingComplete
    rw [h.final, h.start]

open Quic.Proofs.RefBufLemmas in
/-- reading through the slot layer is a legal chunk of the reference buffer with the same bytes -/
theorem refines_readChunk {b : SlotBuf} {s : RefBuf.RefBuf} (h : Refines b s) (w : Option Nat) :
    Refines (readChunk b w).1 (RefBuf.take s (readChunk b w).2.length).1 ∧
    (readChunk b w).2 = (RefBuf.take s (readChunk b w).2.length).2 ∧
    RefBuf.popChunk s w (readChunk b w).2.length = some (RefBuf.take s (readChunk b w).2.length) := by
  obtain ⟨c1, c2, c3, c4, c5, c6, c7, c8, c9⟩ := readChunk_spec b w h.wf
  generalize hk : (readChunk b w).2.length = k at *
  -- the chunk is inside the contiguous run of the reference
  have hkl : k ≤ RefBuf.len s := by
    by_cases hgt : RefBuf.len s < k
    · have := c2 (RefBuf.len s) hgt
      rw [h.bytes, h.start, len_spec_end s] at this
      simp at this
    · omega
  refine ⟨⟨c7, ?_, ?_, ?_, ?_⟩, ?_, ?_⟩
  · rw [c3, h.start]; rfl
  · rw [c4, h.maxRecv]; rfl
  · rw [c5, h.final]; rfl
  · intro i
    rw [c6 i, byteAt_take, h.start, h.bytes]
  · apply List.ext_getElem?
    intro j
    by_cases hj : j < k
    · rw [c1 j hj, take_out_get s k j hkl hj, h.bytes, h.start]
    · rw [List.getElem?_eq_none (by omega), List.getElem?_eq_none (by rw [take_out_length s k hkl]; omega)]
  · have hpc : RefBuf.popChunk s w k
        = if (k = 0 ∧ popCount s w = 0) ∨ (1 ≤ k ∧ k ≤ popCount s w) then some (RefBuf.take s k) else none := rfl
    rw [hpc]
    have hcond : (k = 0 ∧ popCount s w = 0) ∨ (1 ≤ k ∧ k ≤ popCount s w) := by
      by_cases hk0 : k = 0
      · left
        refine ⟨hk0, ?_⟩
        rcases c9 hk0 with hb | hw
        · -- nothing held at start
          have hl0 : RefBuf.len s = 0 := by
            by_cases hpos : 0 < RefBuf.len s
            · have := len_spec_lt s s.consumed (Nat.le_refl _) (by omega)
              rw [← h.bytes, ← h.start, hb] at this
              simp at this
            · omega
          unfold popCount
          cases w <;> simp only <;> omega
        · subst hw
          simp [popCount]
      · right
        refine ⟨by omega, ?_⟩
        unfold popCount
        unfold underWatermark at c8
        cases w <;> simp only at c8 ⊢ <;> omega
    simp only [hcond, if_true]

open Quic.Proofs.RefBufLemmas in
/-- `skip` through the slot layer is `skip` of the reference buffer -/
theorem refines_skip {b : SlotBuf} {s : RefBuf.RefBuf} (h : Refines b s) (n : Nat) :
    (∀ e, skip b n = .error e ↔ RefBuf.skip s n = .error e) ∧
    (∀ b' s', skip b n = .ok b' → RefBuf.skip s n = .ok s' → Refines b' s') := by
  obtain ⟨bs, bst, bmr, bfo⟩ := b
  obtain ⟨sc, ssg, sfs, smr⟩ := s
  have hst : bst = sc := h.start
  have hmr : bmr = smr := h.maxRecv
  have hfo : bfo = sfs := h.final
  subst hst hmr hfo
  constructor
  · intro e
    unfold skip RefBuf.skip
    by_cases h0 : n = 0
    · simp [h0]
    · by_cases h1 : bst + n > RefBuf.maxOffset
      · simp [h0, h1]
      · cases bfo with
        | none => simp [h0, h1]
        | some f => by_cases h2 : f ≥ bst + n <;> simp [h0, h1, h2]
  · intro b' s' hb hs
    by_cases h0 : n = 0
    · subst h0
      rw [skip_zero] at hs
      cases hs
      simp [skip] at hb
      subst hb
      exact h
    · obtain ⟨_, _, rfl⟩ := skip_ok_fields hs h0
      have hb' : b' = ⟨skipSlots (bst + n) bs, bst + n, max bmr (bst + n), bfo⟩ := by
        unfold skip at hb
        simp only [h0, if_false] at hb
        split at hb
        · cases hb
        · cases bfo with
          | none => simp only at hb; cases hb; rfl
          | some f =>
            simp only at hb
            split at hb
            · cases hb; rfl
            · cases hb
      subst hb'
      obtain ⟨w1, w2⟩ := skipSlots_spec (lo := bst) h.wf (bst + n) (by omega)
      refine ⟨w1, rfl, rfl, rfl, fun i => ?_⟩
      have hbi : RefBuf.byteAt { (RefBuf.take ⟨bst, ssg, bfo, bmr⟩ n).1 with maxRecv := max bmr (bst + n) } i
          = RefBuf.byteAt (RefBuf.take ⟨bst, ssg, bfo, bmr⟩ n).1 i := rfl
      rw [byteAt_eq, w2 i, hbi, byteAt_take]
      simp only
      rw [← h.bytes i]
      rfl

/-! ### the write path: cursors and errors (the data path through the slot loops is not proved) -/

theorem reader_skipUntil_eq_trim (off : Nat) (d : List Nat) (fin : Bool) (c : Nat) :
    (⟨off, d, fin⟩ : Reader).skipUntil c = ⟨(RefBuf.trim c off d).1, (RefBuf.trim c off d).2, fin⟩ := by
  unfold Reader.skipUntil RefBuf.trim
  split <;> rfl

/-- errors and cursors of a write agree between the layers -/
theorem refines_write_cursors {b : SlotBuf} {s : RefBuf.RefBuf} (h : Refines b s) (off : Nat) (d : List Nat) (fin : Bool) :
    (∀ e, write b off d fin = some (.error e) ↔ RefBuf.write s off d fin = .error e) ∧
    (∀ b', write b off d fin = some (.ok b') →
      ∃ s', RefBuf.write s off d fin = .ok s' ∧
        b'.start = s'.consumed ∧ b'.maxRecv = s'.maxRecv ∧ b'.finalOffset = s'.finalSize) := by
  obtain ⟨bs, bst, bmr, bfo⟩ := b
  obtain ⟨sc, ssg, sfs, smr⟩ := s
  have hst : bst = sc := h.start
  have hmr : bmr = smr := h.maxRecv
  have hfo : bfo = sfs := h.final
  subst hst hmr hfo
  unfold write RefBuf.write
  by_cases h0 : off + d.length > RefBuf.maxOffset
  · simp [h0]
  · simp only [h0, if_false, reader_skipUntil_eq_trim]
    generalize RefBuf.trim bst off d = p
    obtain ⟨cur, rest⟩ := p
    simp only
    cases hf : RefBuf.handleFin bfo bmr cur rest.length (if fin = true then some (cur + rest.length) else none) with
    | error e => simp
    | ok v =>
      obtain ⟨fs, mr⟩ := v
      simp only
      constructor
      · intro e
        cases hw : writeImpl ⟨bst, fs⟩ bs ⟨cur, rest, fin⟩ <;> simp
      · intro b' hb
        cases hw : writeImpl ⟨bst, fs⟩ bs ⟨cur, rest, fin⟩ with
        | none => rw [hw] at hb; simp at hb
        | some b2 =>
          rw [hw] at hb
          simp only [Option.some.injEq, Except.ok.injEq] at hb
          subst hb
          exact ⟨_, rfl, rfl, rfl, rfl⟩

/-! ### lock-step of the two layers -/

/-- one API call on the slot layer; `none` = the transcription got stuck (ran out of loop fuel or
    indexed outside the deque, which the code `assume!`s away) -/
def slotStep (b : SlotBuf) : RefBuf.Op → Option (SlotBuf × RefBuf.Out)
  | .write off d fin =>
    match write b off d fin with
    | some (.ok b') => some (b', .done)
    | some (.error e) => some (b, .err e)
    | none => none
  | .pop w => some ((readChunk b w).1, .bytes (readChunk b w).2)
  | .skip n =>
    match skip b n with
    | .ok b' => some (b', .done)
    | .error e => some (b, .err e)
  | .reset => some (init, .done)

/-- the reference-buffer call that matches a slot-layer call with output `o`: a single pop that
    handed out `k` bytes is the read with watermark `k` -/
def matching (op : RefBuf.Op) (o : RefBuf.Out) : RefBuf.Op :=
  match op, o with
  | .pop _, .bytes c => .pop (some c.length)
  | op, _ => op

/-- THE MISSING OBLIGATION, as a named proposition: the data path of an accepted write through
    the slot loops (`write_reader_impl`, `write_reader_at`, `write_reader_with_alloc`,
    `try_write_reader`, `unsplit_range`, `allocate_slot`) stores exactly what the reference stores
    and keeps the slot invariants. Checked by the differential run `reassembler-slots`, not proved. -/
def WriteDataPathRefines : Prop :=
  ∀ (b : SlotBuf) (s : RefBuf.RefBuf) (off : Nat) (d : List Nat) (fin : Bool) (b' : SlotBuf) (s' : RefBuf.RefBuf),
    Refines b s → write b off d fin = some (.ok b') → RefBuf.write s off d fin = .ok s' → Refines b' s'

open Quic.Proofs.RefBufLemmas in
theorem slotStep_refines (hW : WriteDataPathRefines) {b : SlotBuf} {s : RefBuf.RefBuf} (h : Refines b s)
    (op : RefBuf.Op) {b' : SlotBuf} {o : RefBuf.Out} (hs : slotStep b op = some (b', o)) :
    (RefBuf.step s (matching op o)).2 = o ∧ Refines b' (RefBuf.step s (matching op o)).1 := by
  cases op with
  | write off d fin =>
    obtain ⟨he, hk⟩ := refines_write_cursors h off d fin
    simp only [slotStep] at hs
    cases hw : write b off d fin with
    | none => rw [hw] at hs; cases hs
    | some r =>
      rw [hw] at hs
      cases r with
      | error e =>
        simp only [Option.some.injEq, Prod.mk.injEq] at hs
        obtain ⟨rfl, rfl⟩ := hs
        have := (he e).mp hw
        simp only [matching, RefBuf.step, this]
        exact ⟨trivial, h⟩
      | ok b2 =>
        simp only [Option.some.injEq, Prod.mk.injEq] at hs
        obtain ⟨rfl, rfl⟩ := hs
        obtain ⟨s', hs', _⟩ := hk b2 hw
        simp only [matching, RefBuf.step, hs']
        exact ⟨trivial, hW b s off d fin b2 s' h hw hs'⟩
  | pop w =>
    simp only [slotStep, Option.some.injEq, Prod.mk.injEq] at hs
    obtain ⟨rfl, rfl⟩ := hs
    obtain ⟨r1, r2, r3⟩ := refines_readChunk h w
    have hpop : RefBuf.pop s (some (readChunk b w).2.length) = RefBuf.take s (readChunk b w).2.length := by
      have hpc : RefBuf.popChunk s w (readChunk b w).2.length
          = if ((readChunk b w).2.length = 0 ∧ popCount s w = 0) ∨ (1 ≤ (readChunk b w).2.length ∧ (readChunk b w).2.length ≤ popCount s w)
            then some (RefBuf.take s (readChunk b w).2.length) else none := rfl
      rw [hpc] at r3
      have hle := popCount_le s w
      rw [pop_eq]
      have : popCount s (some (readChunk b w).2.length) = (readChunk b w).2.length := by
        simp only [popCount]
        split at r3
        · rename_i hc; omega
        · cases r3
      rw [this]
    simp only [matching, RefBuf.step, hpop]
    exact ⟨by rw [← r2], r1⟩
  | skip n =>
    obtain ⟨he, hk⟩ := refines_skip h n
    simp only [slotStep] at hs
    cases hw : skip b n with
    | error e =>
      rw [hw] at hs
      simp only [Option.some.injEq, Prod.mk.injEq] at hs
      obtain ⟨rfl, rfl⟩ := hs
      have := (he e).mp hw
      simp only [matching, RefBuf.step, this]
      exact ⟨trivial, h⟩
    | ok b2 =>
      rw [hw] at hs
      simp only [Option.some.injEq, Prod.mk.injEq] at hs
      obtain ⟨rfl, rfl⟩ := hs
      cases hr : RefBuf.skip s n with
      | error e =>
        have := (he e).mpr hr
        rw [hw] at this
        cases this
      | ok s' =>
        simp only [matching, RefBuf.step, hr]
        exact ⟨trivial, hk b2 s' hw hr⟩
  | reset =>
    simp only [slotStep, Option.some.injEq, Prod.mk.injEq] at hs
    obtain ⟨rfl, rfl⟩ := hs
    exact ⟨rfl, refines_init⟩

/-- run a history on the slot layer, collecting the outputs -/
def slotRun (b : SlotBuf) : List RefBuf.Op → Option (SlotBuf × List RefBuf.Out)
  | [] => some (b, [])
  | op :: ops =>
    match slotStep b op with
    | none => none
    | some (b', o) =>
      match slotRun b' ops with
      | none => none
      | some (b'', os) => some (b'', o :: os)

/-- outputs of a history on the reference buffer -/
def refOutputs (s : RefBuf.RefBuf) : List RefBuf.Op → List RefBuf.Out
  | [] => []
  | op :: ops => (RefBuf.step s op).2 :: refOutputs (RefBuf.step s op).1 ops

theorem slotRun_refines (hW : WriteDataPathRefines) {b : SlotBuf} {s : RefBuf.RefBuf} (h : Refines b s)
    (ops : List RefBuf.Op) {b' : SlotBuf} {os : List RefBuf.Out} (hr : slotRun b ops = some (b', os)) :
    ∃ ops', ops'.length = ops.length ∧ refOutputs s ops' = os ∧ Refines b' (RefBuf.run s ops') := by
  induction ops generalizing b s os with
  | nil =>
    simp only [slotRun, Option.some.injEq, Prod.mk.injEq] at hr
    obtain ⟨rfl, rfl⟩ := hr
    exact ⟨[], rfl, rfl, h⟩
  | cons op ops ih =>
    simp only [slotRun] at hr
    cases hs : slotStep b op with
    | none => rw [hs] at hr; cases hr
    | some p =>
      obtain ⟨b1, o⟩ := p
      rw [hs] at hr
      simp only at hr
      cases hr2 : slotRun b1 ops with
      | none => rw [hr2] at hr; cases hr
      | some q =>
        obtain ⟨b2, os2⟩ := q
        rw [hr2] at hr
        simp only [Option.some.injEq, Prod.mk.injEq] at hr
        obtain ⟨rfl, rfl⟩ := hr
        obtain ⟨e1, e2⟩ := slotStep_refines hW h op hs
        obtain ⟨ops', hl, ho, hf⟩ := ih e2 hr2
        refine ⟨matching op o :: ops', by simp [hl], ?_, ?_⟩
        · simp only [refOutputs, e1, ho]
        · exact hf

end Quic.Proofs.SlotBufLemmas
