import QuicModel.Stream.DataSender
/-
  Helper lemmas for the C12 theorems about the data-sender model: the interval-list helper, the
  sender invariant (`Inv`) and its preservation by every operation.
-/
namespace Quic.Proofs.DataSender
open Quic.Stream.DataSender

/-! ### interval lists -/
namespace Iv
open Quic.Stream.DataSender.Iv (mem wf remove interOne inter minValue)

theorem mem_append (x : Nat) (l m : IvList) : mem x (l ++ m) ↔ mem x l ∨ mem x m := by
  induction l with
  | nil => simp [mem]
  | cons p t ih => obtain ⟨a, b⟩ := p; simp only [List.cons_append, mem, ih]; grind

theorem wf_append (l m : IvList) : wf (l ++ m) ↔ wf l ∧ wf m := by
  induction l with
  | nil => simp [wf]
  | cons p t ih => obtain ⟨a, b⟩ := p; simp only [List.cons_append, wf, ih]; grind

theorem mem_insert (x : Nat) (l : IvList) : ∀ (a b : Nat), a ≤ b → wf l →
    (mem x (Iv.insert l a b) ↔ mem x l ∨ (a ≤ x ∧ x < b)) := by
  induction l with
  | nil => intro a b _ _; simp [Iv.insert, mem]
  | cons p t ih =>
    obtain ⟨c, d⟩ := p
    intro a b hab hw
    simp only [wf] at hw
    simp only [Iv.insert]
    split
    · simp only [mem]; grind
    · split
      · simp only [mem, ih a b hab hw.2]; grind
      · rw [ih (min a c) (max b d) (by omega) hw.2]
        simp only [mem]
        constructor
        · rintro (h | h)
          · grind
          · by_cases hx : a ≤ x ∧ x < b
            · grind
            · left; left; omega
        · rintro ((h | h) | h)
          · right; omega
          · grind
          · right; omega

theorem wf_insert (l : IvList) : ∀ (a b : Nat), a < b → wf l → wf (Iv.insert l a b) := by
  induction l with
  | nil => intro a b hab _; simp [Iv.insert, wf, hab]
  | cons p t ih =>
    obtain ⟨c, d⟩ := p
    intro a b hab hw
    simp only [wf] at hw
    simp only [Iv.insert]
    split
    · simp only [wf]; grind
    · split
      · simp only [wf]; exact ⟨hw.1, ih a b hab hw.2⟩
      · exact ih _ _ (by omega) hw.2

theorem mem_remove (x : Nat) (l : IvList) (a b : Nat) :
    mem x (remove l a b) ↔ mem x l ∧ ¬ (a ≤ x ∧ x < b) := by
  induction l with
  | nil => simp [remove, mem]
  | cons p t ih =>
    obtain ⟨c, d⟩ := p
    simp only [remove, mem_append, ih, mem]
    constructor
    · rintro (h | h | h)
      · split at h
        · simp only [mem, or_false] at h; exact ⟨Or.inl (by omega), by omega⟩
        · simp [mem] at h
      · split at h
        · simp only [mem, or_false] at h; exact ⟨Or.inl (by omega), by omega⟩
        · simp [mem] at h
      · grind
    · rintro ⟨h | h, hn⟩
      · by_cases hx : x < a
        · left; rw [if_pos (by omega)]; simp only [mem]; omega
        · right; left; rw [if_pos (by omega)]; simp only [mem]; omega
      · grind

theorem wf_remove (l : IvList) (a b : Nat) : wf (remove l a b) := by
  induction l with
  | nil => simp [remove, wf]
  | cons p t ih =>
    obtain ⟨c, d⟩ := p
    simp only [remove, wf_append]
    refine ⟨?_, ?_, ih⟩
    · split <;> simp [wf]; assumption
    · split <;> simp [wf]; assumption

theorem mem_interOne (x a b : Nat) (m : IvList) :
    mem x (interOne a b m) ↔ (a ≤ x ∧ x < b) ∧ mem x m := by
  induction m with
  | nil => simp [interOne, mem]
  | cons p t ih =>
    obtain ⟨c, d⟩ := p
    simp only [interOne, mem_append, ih, mem]
    constructor
    · rintro (h | h)
      · split at h
        · simp only [mem, or_false] at h; exact ⟨by omega, Or.inl (by omega)⟩
        · simp [mem] at h
      · grind
    · rintro ⟨hab, h | h⟩
      · left; rw [if_pos (by omega)]; simp only [mem]; omega
      · grind

theorem wf_interOne (a b : Nat) (m : IvList) : wf (interOne a b m) := by
  induction m with
  | nil => simp [interOne, wf]
  | cons p t ih =>
    obtain ⟨c, d⟩ := p
    simp only [interOne, wf_append]
    refine ⟨?_, ih⟩
    split <;> simp [wf]; assumption

theorem mem_inter (x : Nat) (l m : IvList) : mem x (inter l m) ↔ mem x l ∧ mem x m := by
  induction l with
  | nil => simp [inter, mem]
  | cons p t ih => obtain ⟨a, b⟩ := p; simp only [inter, mem_append, mem_interOne, ih, mem]; grind

theorem wf_inter (l m : IvList) : wf (inter l m) := by
  induction l with
  | nil => simp [inter, wf]
  | cons p t ih => obtain ⟨a, b⟩ := p; simp only [inter, wf_append]; exact ⟨wf_interOne a b m, ih⟩

theorem minValue_none (l : IvList) : minValue l = none ↔ l = [] := by
  cases l with
  | nil => simp [minValue]
  | cons p t => obtain ⟨a, b⟩ := p; simp only [minValue]; split <;> simp

/-- the minimum is a lower bound of the members, and a member when the intervals are non-empty -/
theorem minValue_some (l : IvList) : ∀ m, minValue l = some m →
    (∀ x, mem x l → m ≤ x) ∧ (wf l → mem m l) := by
  induction l with
  | nil => intro m h; simp [minValue] at h
  | cons p t ih =>
    obtain ⟨a, b⟩ := p
    intro m h
    simp only [minValue] at h
    split at h
    · rename_i hn
      cases h
      have ht : t = [] := (minValue_none t).mp hn
      subst ht
      simp only [mem, wf, or_false, and_true]
      exact ⟨fun x hx => by omega, fun hw => by omega⟩
    · rename_i m' hm'
      cases h
      have := ih m' hm'
      simp only [mem, wf]
      refine ⟨fun x hx => ?_, fun hw => ?_⟩
      · rcases hx with hx | hx
        · omega
        · have := this.1 x hx; omega
      · by_cases hle : a ≤ m'
        · left; rw [Nat.min_eq_left hle]; omega
        · right; rw [Nat.min_eq_right (by omega)]; exact this.2 hw.2

/-- both ends of a non-empty interval of the list are members -/
theorem mem_of_mem_list {l : IvList} {a b : Nat} (h : (a, b) ∈ l) (hab : a < b) : mem a l ∧ mem (b - 1) l := by
  induction l with
  | nil => cases h
  | cons p t ih =>
    obtain ⟨c, d⟩ := p
    simp only [mem]
    rcases List.mem_cons.mp h with h | h
    · cases h; exact ⟨Or.inl (by omega), Or.inl (by omega)⟩
    · exact ⟨Or.inr (ih h).1, Or.inr (ih h).2⟩

theorem wf_of_mem_list {l : IvList} {a b : Nat} (h : (a, b) ∈ l) (hw : wf l) : a < b := by
  induction l with
  | nil => cases h
  | cons p t ih =>
    obtain ⟨c, d⟩ := p
    simp only [wf] at hw
    rcases List.mem_cons.mp h with h | h
    · cases h; exact hw.1
    · exact ih h hw.2

/-- folding `remove` over a list of ranges -/
theorem mem_foldl_remove (x : Nat) (rs : List (Nat × Nat)) : ∀ (l : IvList),
    (mem x (rs.foldl (fun p iv => remove p iv.1 iv.2) l) ↔ mem x l ∧ ∀ r ∈ rs, ¬ (r.1 ≤ x ∧ x < r.2)) := by
  induction rs with
  | nil => intro l; simp
  | cons r t ih =>
    intro l
    simp only [List.foldl_cons, ih, mem_remove, List.mem_cons, forall_eq_or_imp]
    grind

/-- folding `Iv.insert` over a list of non-empty ranges -/
theorem foldl_insert (x : Nat) (rs : List (Nat × Nat)) : ∀ (l : IvList), wf l → (∀ r ∈ rs, r.1 < r.2) →
    wf (rs.foldl (fun p iv => Iv.insert p iv.1 iv.2) l) ∧
    (mem x (rs.foldl (fun p iv => Iv.insert p iv.1 iv.2) l) ↔ mem x l ∨ ∃ r ∈ rs, r.1 ≤ x ∧ x < r.2) := by
  induction rs with
  | nil => intro l hw _; simp [hw]
  | cons r t ih =>
    intro l hw hr
    have hr1 := hr r (by simp)
    have := ih (Iv.insert l r.1 r.2) (wf_insert l _ _ hr1 hw) (fun q hq => hr q (by simp [hq]))
    simp only [List.foldl_cons]
    refine ⟨this.1, ?_⟩
    rw [this.2, mem_insert x l _ _ (by omega) hw]
    simp only [List.mem_cons, exists_eq_or_imp]
    grind

end Iv


variable {F : Type}

/-! ### list slices -/

theorem slice_of_drop {W : List Nat} {head a n : Nat} (h : head ≤ a) :
    ((W.drop head).drop (a - head)).take n = (W.drop a).take n := by
  rw [List.drop_drop]
  congr 2
  omega

theorem slice_append {W D : List Nat} {a n : Nat} (h : a + n ≤ W.length) :
    ((W ++ D).drop a).take n = (W.drop a).take n := by
  rw [List.drop_append_of_le_length (by omega), List.take_append_of_le_length]
  simp only [List.length_drop]; omega

theorem slice_length {W : List Nat} {a n : Nat} (h : a + n ≤ W.length) : ((W.drop a).take n).length = n := by
  simp only [List.length_take, List.length_drop]; omega

/-! ### the invariant -/

/-- the part of the invariant that does not mention `lost` -/
structure Core (s : Sender F) : Prop where
  bytes : s.bytes = s.written.drop s.head
  headLe : s.head ≤ s.written.length
  pend : ∀ x, Iv.mem x s.pending → s.head ≤ x ∧ x < s.written.length
  newData : ∀ x, s.transmissionOffset ≤ x → x < s.written.length → Iv.mem x s.pending
  toLe : s.transmissionOffset ≤ s.written.length
  trans : ∀ t ∈ s.transmissions, t.2.1 < t.2.2 ∧ t.2.2 ≤ s.transmissionOffset
  pendWf : Iv.wf s.pending
  noPanic : s.viewPanic = false
  notCancelled : s.state ≠ .cancelled

/-- the lost intervals `l` are consistent with the sender -/
structure LostOk (s : Sender F) (l : IvList) : Prop where
  sub : ∀ x, Iv.mem x l → Iv.mem x s.pending
  lt : ∀ x, Iv.mem x l → x < s.transmissionOffset
  wf : Iv.wf l

def Inv (s : Sender F) : Prop := Core s ∧ LostOk s s.lost

theorem Core.totalLen {s : Sender F} (h : Core s) : s.totalLen = s.written.length := by
  simp only [Sender.totalLen, h.bytes, List.length_drop]
  have := h.headLe; omega

/-- a frame is a slice of the written bytes; a FIN only in state `Finishing`, at the very end -/
def FrameOk (W : List Nat) (finishing : Bool) (fr : Frame) : Prop :=
  fr.data = (W.drop fr.off).take fr.data.length ∧ fr.stop ≤ W.length ∧
  (fr.fin = true → finishing = true ∧ fr.stop = W.length)

/-- the state after a transmission is the state before, up to the FIN bookkeeping -/
def SameKind (st st' : State) : Prop :=
  st' = st ∨ (∃ f f', st = .finishing f ∧ st' = .finishing f')

theorem SameKind.refl (st : State) : SameKind st st := Or.inl rfl

theorem SameKind.trans {a b c : State} (h1 : SameKind a b) (h2 : SameKind b c) : SameKind a c := by
  rcases h1 with rfl | ⟨f, f', rfl, rfl⟩
  · exact h2
  · rcases h2 with rfl | ⟨g, g', hg, rfl⟩
    · exact Or.inr ⟨f, f', rfl, rfl⟩
    · exact Or.inr ⟨f, g', rfl, rfl⟩

theorem SameKind.isFinishing {a b : State} (h : SameKind a b) : b.isFinishing = a.isFinishing := by
  rcases h with rfl | ⟨f, f', rfl, rfl⟩ <;> rfl

theorem SameKind.cancelled {a b : State} (h : SameKind a b) : b = .cancelled ↔ a = .cancelled := by
  rcases h with rfl | ⟨f, f', rfl, rfl⟩ <;> simp

theorem finOnTransmit_sameKind (st : State) (pn : Nat) : SameKind st (st.finOnTransmit pn) := by
  cases st <;> simp [State.finOnTransmit, SameKind]

theorem writeChunk_spec (s : Sender F) (a b2 pn : Nat) (hc : Core s) (hab : a < b2) (ha : s.head ≤ a)
    (hb : b2 ≤ s.written.length) :
    let r := writeChunk s a b2 pn
    r.1.head = s.head ∧ r.1.bytes = s.bytes ∧ r.1.written = s.written ∧ r.1.pending = s.pending ∧
    r.1.lost = s.lost ∧ r.1.transmissionOffset = s.transmissionOffset ∧ r.1.fc = s.fc ∧ SameKind s.state r.1.state ∧
    r.1.viewPanic = false ∧ r.2.stop = b2 ∧ r.2.off = a ∧ r.2.data.length = b2 - a ∧
    r.1.transmissions = s.transmissions ++ [(pn, a, b2)] ∧ FrameOk s.written s.state.isFinishing r.2 := by
  have htot := hc.totalLen
  have hnp := hc.noPanic
  have hlen : ((s.bytes.drop (a - s.head)).take (b2 - a)).length = b2 - a := by
    rw [hc.bytes, slice_of_drop ha]; exact slice_length (by omega)
  have hstop : (writeChunk s a b2 pn).2.stop = b2 := by
    simp only [writeChunk, Frame.stop, hlen]; omega
  refine ⟨rfl, rfl, rfl, rfl, rfl, rfl, rfl, ?_, ?_, hstop, rfl, hlen, rfl, ?_, ?_, ?_⟩
  · simp only [writeChunk]
    split
    · exact finOnTransmit_sameKind _ _
    · exact SameKind.refl _
  · simp only [writeChunk, hnp, Bool.false_or, Bool.not_eq_false', decide_eq_true_eq]
    rw [htot]; omega
  · simp only [writeChunk]
    rw [hlen, hc.bytes, slice_of_drop ha]
  · rw [hstop]; exact hb
  · intro hfin
    simp only [writeChunk, Bool.and_eq_true, decide_eq_true_eq] at hfin
    rw [hstop]
    exact ⟨hfin.1, by rw [hfin.2, htot]⟩

/-- what `transmit_interval` does to the sender, for a non-empty interval inside the buffer -/
theorem transmitInterval_spec (ops : FlowOps F) (s : Sender F) (a b pn cap : Nat) (hc : Core s)
    (hab : a < b) (ha : s.head ≤ a) (hb : b ≤ s.written.length) :
    let r := transmitInterval ops s a b pn cap
    r.1.head = s.head ∧ r.1.bytes = s.bytes ∧ r.1.written = s.written ∧ r.1.pending = s.pending ∧
    r.1.lost = s.lost ∧ r.1.transmissionOffset = s.transmissionOffset ∧ SameKind s.state r.1.state ∧
    r.1.viewPanic = false ∧
    (r.2 = none → r.1.transmissions = s.transmissions) ∧
    (∀ fr, r.2 = some fr → a < fr.stop ∧ fr.stop ≤ b ∧ fr.off = a ∧ fr.stop - a ≤ cap ∧ fr.data.length = fr.stop - a ∧
        r.1.transmissions = s.transmissions ++ [(pn, a, fr.stop)] ∧
        FrameOk s.written s.state.isFinishing fr) := by
  have hnp := hc.noPanic
  simp only [transmitInterval]
  split
  · exact ⟨rfl, rfl, rfl, rfl, rfl, rfl, SameKind.refl _, hnp, fun _ => rfl, fun fr h => by cases h⟩
  · rename_i hcap
    split
    · exact ⟨rfl, rfl, rfl, rfl, rfl, rfl, SameKind.refl _, hnp, fun _ => rfl, fun fr h => by cases h⟩
    · rename_i hwin
      have hb1le : a < intervalEnd cap a b ∧ intervalEnd cap a b ≤ b ∧ intervalEnd cap a b - a ≤ cap := by
        simp only [intervalEnd]; split <;> omega
      generalize intervalEnd cap a b = b1 at hwin hb1le ⊢
      generalize (ops.acquire s.fc b1).2 = window at hwin ⊢
      have hb2le : a < windowEnd window a b1 ∧ windowEnd window a b1 ≤ b1 := by
        simp only [windowEnd]; split <;> omega
      generalize windowEnd window a b1 = b2 at hb2le ⊢
      have hc1 : Core ({ s with fc := (ops.acquire s.fc b1).1 } : Sender F) :=
        ⟨hc.bytes, hc.headLe, hc.pend, hc.newData, hc.toLe, hc.trans, hc.pendWf, hc.noPanic, hc.notCancelled⟩
      have hw := writeChunk_spec ({ s with fc := (ops.acquire s.fc b1).1 } : Sender F) a b2 pn hc1
        (by omega) ha (by simp only []; omega)
      simp only [] at hw
      obtain ⟨w1, w2, w3, w4, w5, w6, _, w8, w9, w10, w11, w12, w13, w14⟩ := hw
      refine ⟨w1, w2, w3, w4, w5, w6, w8, w9, (fun h => by cases h), ?_⟩
      intro fr hfr
      simp only [Option.some.injEq] at hfr
      subst hfr
      rw [w10]
      exact ⟨by omega, by omega, w11, by omega, w12, w13, w14⟩



/-- `Core` only depends on these fields -/
theorem core_congr {s s' : Sender F} (hc : Core s) (h1 : s'.head = s.head) (h2 : s'.bytes = s.bytes)
    (h3 : s'.written = s.written) (h4 : s'.pending = s.pending) (h5 : s'.transmissionOffset = s.transmissionOffset)
    (h6 : ∀ t ∈ s'.transmissions, t.2.1 < t.2.2 ∧ t.2.2 ≤ s.transmissionOffset) (h7 : s'.viewPanic = false)
    (h8 : SameKind s.state s'.state) : Core s' := by
  refine ⟨by rw [h2, h3, h1]; exact hc.bytes, by rw [h1, h3]; exact hc.headLe, ?_, ?_, by rw [h5, h3]; exact hc.toLe,
    by rw [h5]; exact h6, by rw [h4]; exact hc.pendWf, h7, ?_⟩
  · intro x hx; rw [h4] at hx; rw [h1, h3]; exact hc.pend x hx
  · intro x h hx; rw [h5] at h; rw [h3] at hx; rw [h4]; exact hc.newData x h hx
  · intro hcan; exact hc.notCancelled (h8.cancelled.mp hcan)

theorem lostOk_congr {s s' : Sender F} {l : IvList} (h : LostOk s l) (h4 : s'.pending = s.pending)
    (h5 : s'.transmissionOffset = s.transmissionOffset) : LostOk s' l :=
  ⟨by rw [h4]; exact h.sub, by rw [h5]; exact h.lt, h.wf⟩

theorem transmitLost_spec (ops : FlowOps F) (pn : Nat) (l : IvList) : ∀ (s : Sender F) (cap : Nat),
    Core s → LostOk s l →
    let r := transmitLost ops pn l s cap
    Core r.1 ∧ LostOk r.1 r.2.1 ∧ r.1.written = s.written ∧ r.1.transmissionOffset = s.transmissionOffset ∧
    r.1.pending = s.pending ∧ r.1.head = s.head ∧ r.1.bytes = s.bytes ∧ SameKind s.state r.1.state ∧
    (∀ fr ∈ r.2.2.1, FrameOk s.written s.state.isFinishing fr) := by
  induction l with
  | nil =>
    intro s cap hc hl
    show Core s ∧ LostOk s [] ∧ s.written = s.written ∧ s.transmissionOffset = s.transmissionOffset ∧
      s.pending = s.pending ∧ s.head = s.head ∧ s.bytes = s.bytes ∧ SameKind s.state s.state ∧
      ∀ fr ∈ ([] : List Frame), FrameOk s.written s.state.isFinishing fr
    exact ⟨hc, hl, rfl, rfl, rfl, rfl, rfl, SameKind.refl _, by simp⟩
  | cons p rest ih =>
    obtain ⟨a, b⟩ := p
    intro s cap hc hl
    have hwf := hl.wf
    simp only [Iv.wf] at hwf
    have hab : a < b := hwf.1
    have hma : Iv.mem a ((a, b) :: rest) := by simp only [Iv.mem]; left; omega
    have hmb : Iv.mem (b - 1) ((a, b) :: rest) := by simp only [Iv.mem]; left; omega
    have ha := (hc.pend a (hl.sub a hma)).1
    have hb := (hc.pend (b - 1) (hl.sub (b - 1) hmb)).2
    have hbt := hl.lt (b - 1) hmb
    have hsp := transmitInterval_spec ops s a b pn cap hc hab ha (by omega)
    simp only [] at hsp
    obtain ⟨e1, e2, e3, e4, e5, e6, e7, e8, e9, e10⟩ := hsp
    simp only [transmitLost]
    cases hr : transmitInterval ops s a b pn cap with
    | mk s1 o =>
      rw [hr] at e1 e2 e3 e4 e5 e6 e7 e8 e9 e10
      simp only [] at e1 e2 e3 e4 e5 e6 e7 e8 e9 e10
      cases o with
      | none =>
        simp only []
        have hc1 : Core s1 := core_congr hc e1 e2 e3 e4 e6 (by rw [e9 rfl]; exact hc.trans) e8 e7
        exact ⟨hc1, lostOk_congr hl e4 e6, e3, e6, e4, e1, e2, e7, by simp⟩
      | some fr =>
        obtain ⟨f1, f2, f3, f4, f5, f6, f7⟩ := e10 fr rfl
        have hc1 : Core s1 := by
          refine core_congr hc e1 e2 e3 e4 e6 ?_ e8 e7
          rw [f6]
          intro t ht
          rcases List.mem_append.mp ht with ht | ht
          · exact hc.trans t ht
          · simp only [List.mem_singleton] at ht; subst ht; simp only []; omega
        simp only []
        split
        · rename_i hlt
          refine ⟨hc1, ?_, e3, e6, e4, e1, e2, e7, ?_⟩
          · refine ⟨fun x hx => ?_, fun x hx => ?_, ?_⟩
            · rw [e4]; apply hl.sub
              simp only [Iv.mem] at hx ⊢
              rcases hx with hx | hx
              · left; omega
              · right; exact hx
            · rw [e6]; apply hl.lt
              simp only [Iv.mem] at hx ⊢
              rcases hx with hx | hx
              · left; omega
              · right; exact hx
            · simp only [Iv.wf]; exact ⟨hlt, hwf.2⟩
          · intro fr' hfr'
            simp only [List.mem_singleton] at hfr'
            subst hfr'; exact f7
        · have hl1 : LostOk s1 rest := by
            refine ⟨fun x hx => ?_, fun x hx => ?_, hwf.2⟩
            · rw [e4]; exact hl.sub x (by simp only [Iv.mem]; right; exact hx)
            · rw [e6]; exact hl.lt x (by simp only [Iv.mem]; right; exact hx)
          have := ih s1 (cap - fr.data.length) hc1 hl1
          simp only [] at this
          obtain ⟨g1, g2, g3, g4, g5, g6, g7, g8, g9⟩ := this
          refine ⟨g1, g2, by rw [g3, e3], by rw [g4, e6], by rw [g5, e4], by rw [g6, e1], by rw [g7, e2],
            e7.trans g8, ?_⟩
          intro fr' hfr'
          rcases List.mem_cons.mp hfr' with rfl | hfr'
          · exact f7
          · have := g9 fr' hfr'
            rw [e3, e7.isFinishing] at this
            exact this



theorem canTransmitFin_finishing {st : State} {a b c : Bool} (h : st.canTransmitFin a b c = true) :
    st.isFinishing = true := by
  cases st with
  | finishing f => rfl
  | sending => simp [State.canTransmitFin] at h
  | finished => simp [State.canTransmitFin] at h
  | cancelled => simp [State.canTransmitFin] at h

/-- the outcome of one phase of `on_transmit` relative to the sender `s0` at the start of the call -/
def PhaseOk (W : List Nat) (st0 : State) (s' : Sender F) (frames : List Frame) : Prop :=
  Inv s' ∧ s'.written = W ∧ SameKind st0 s'.state ∧ (∀ fr ∈ frames, FrameOk W st0.isFinishing fr)

theorem phaseLost_spec (ops : FlowOps F) (s : Sender F) (pn cap : Nat) (cr : Bool) (h : Inv s) :
    PhaseOk s.written s.state (phaseLost ops s pn cap cr).1 (phaseLost ops s pn cap cr).2.1 := by
  obtain ⟨hc, hl⟩ := h
  simp only [phaseLost]
  split
  · have := transmitLost_spec ops pn s.lost s cap hc hl
    simp only [] at this
    obtain ⟨g1, g2, g3, g4, g5, g6, g7, g8, g9⟩ := this
    refine ⟨⟨core_congr g1 rfl rfl rfl rfl rfl g1.trans g1.noPanic (SameKind.refl _), lostOk_congr g2 rfl rfl⟩,
      g3, g8, g9⟩
  · exact ⟨⟨hc, hl⟩, rfl, SameKind.refl _, by simp⟩

theorem phaseNew_spec (ops : FlowOps F) (s : Sender F) (pn cap : Nat) (ib ct : Bool) (h : Inv s) :
    PhaseOk s.written s.state (phaseNew ops s pn cap ib ct).1 (phaseNew ops s pn cap ib ct).2.1 := by
  obtain ⟨hc, hl⟩ := h
  have htot := hc.totalLen
  simp only [phaseNew]
  split
  · rename_i hcond
    have hlt : s.transmissionOffset < s.written.length := by rw [← htot]; exact hcond.2.2
    have hhead := (hc.pend _ (hc.newData _ (Nat.le_refl _) hlt)).1
    have hsp := transmitInterval_spec ops s s.transmissionOffset s.totalLen pn cap hc (by omega) hhead (by omega)
    simp only [] at hsp
    obtain ⟨e1, e2, e3, e4, e5, e6, e7, e8, e9, e10⟩ := hsp
    cases hr : transmitInterval ops s s.transmissionOffset s.totalLen pn cap with
    | mk s2 o =>
      rw [hr] at e1 e2 e3 e4 e5 e6 e7 e8 e9 e10
      simp only [] at e1 e2 e3 e4 e5 e6 e7 e8 e9 e10
      cases o with
      | none =>
        refine ⟨⟨core_congr hc e1 e2 e3 e4 e6 (by rw [e9 rfl]; exact hc.trans) e8 e7, ?_⟩, e3, e7, by simp⟩
        rw [e5]; exact lostOk_congr hl e4 e6
      | some fr =>
        obtain ⟨f1, f2, f3, f4, f5, f6, f7⟩ := e10 fr rfl
        refine ⟨⟨?_, ?_⟩, e3, e7, ?_⟩
        · refine ⟨by simp only []; rw [e2, e3, e1]; exact hc.bytes, by simp only []; rw [e1, e3]; exact hc.headLe,
            ?_, ?_, by simp only []; rw [e3]; omega, ?_, by simp only []; rw [e4]; exact hc.pendWf, e8, ?_⟩
          · intro x hx; simp only [] at hx ⊢; rw [e4] at hx; rw [e1, e3]; exact hc.pend x hx
          · intro x hx1 hx2; simp only [] at hx1 hx2 ⊢; rw [e3] at hx2; rw [e4]
            exact hc.newData x (by omega) hx2
          · intro t ht
            simp only [] at ht ⊢
            rw [f6] at ht
            rcases List.mem_append.mp ht with ht | ht
            · have := hc.trans t ht; omega
            · simp only [List.mem_singleton] at ht; subst ht; simp only []; omega
          · simp only []; intro hcan; exact hc.notCancelled (e7.cancelled.mp hcan)
        · simp only []
          rw [e5]
          exact ⟨by rw [e4]; exact hl.sub, fun x hx => by have := hl.lt x hx; show x < fr.stop; omega, hl.wf⟩
        · intro fr' hfr'
          simp only [List.mem_singleton] at hfr'
          subst hfr'
          exact f7
  · exact ⟨⟨hc, hl⟩, rfl, SameKind.refl _, by simp⟩

theorem phaseFin_spec (ops : FlowOps F) (s : Sender F) (pn cap : Nat) (cr ct ib : Bool) (h : Inv s) :
    PhaseOk s.written s.state (phaseFin ops s pn cap cr ct ib).1 (phaseFin ops s pn cap cr ct ib).2 := by
  obtain ⟨hc, hl⟩ := h
  simp only [phaseFin]
  split
  · rename_i hfin
    have hfinishing := canTransmitFin_finishing hfin.1
    have hk3 : SameKind s.state (s.state.finOnTransmit pn) := finOnTransmit_sameKind _ _
    refine ⟨⟨core_congr hc rfl rfl rfl rfl rfl hc.trans hc.noPanic hk3, lostOk_congr hl rfl rfl⟩, rfl, hk3, ?_⟩
    intro fr hfr
    simp only [List.mem_singleton] at hfr
    subst hfr
    refine ⟨by simp, ?_, ?_⟩
    · simp only [Frame.stop, List.length_nil, Nat.add_zero]
      rw [hc.totalLen]; exact Nat.le_refl _
    · intro _
      refine ⟨hfinishing, ?_⟩
      simp only [Frame.stop, List.length_nil, Nat.add_zero]
      rw [hc.totalLen]
  · exact ⟨⟨hc, hl⟩, rfl, SameKind.refl _, by simp⟩

/-- composing phases -/
theorem PhaseOk.then {W : List Nat} {st0 : State} {s1 s2 : Sender F} {f1 f2 : List Frame}
    (h1 : PhaseOk W st0 s1 f1) (h2 : PhaseOk s1.written s1.state s2 f2) : PhaseOk W st0 s2 (f1 ++ f2) := by
  obtain ⟨a1, a2, a3, a4⟩ := h1
  obtain ⟨b1, b2, b3, b4⟩ := h2
  refine ⟨b1, by rw [b2, a2], a3.trans b3, ?_⟩
  intro fr hfr
  rcases List.mem_append.mp hfr with h | h
  · exact a4 fr h
  · have := b4 fr h
    rw [a2, a3.isFinishing] at this
    exact this

/-- `on_transmit`: the invariant is kept, `written` is untouched, every frame is a slice of what
    was written, a FIN only in state `Finishing` and at the very end -/
theorem onTransmit_spec (ops : FlowOps F) (s : Sender F) (pn cap : Nat) (cr ct : Bool) (h : Inv s) :
    PhaseOk s.written s.state (onTransmit ops s pn cap cr ct).1 (onTransmit ops s pn cap cr ct).2 := by
  simp only [onTransmit]
  split
  · exact ⟨h, rfl, SameKind.refl _, by simp⟩
  · have p1 := phaseLost_spec ops s pn cap cr h
    split
    · exact p1
    · have p2 := phaseNew_spec ops (phaseLost ops s pn cap cr).1 pn (phaseLost ops s pn cap cr).2.2.1
        (ops.isBlocked (phaseLost ops s pn cap cr).1.fc) ct p1.1
      have p12 := p1.then p2
      split
      · exact p12
      · have p3 := phaseFin_spec ops
          (phaseNew ops (phaseLost ops s pn cap cr).1 pn (phaseLost ops s pn cap cr).2.2.1
            (ops.isBlocked (phaseLost ops s pn cap cr).1.fc) ct).1 pn
          (phaseNew ops (phaseLost ops s pn cap cr).1 pn (phaseLost ops s pn cap cr).2.2.1
            (ops.isBlocked (phaseLost ops s pn cap cr).1.fc) ct).2.2.1 cr ct
          (ops.isBlocked (phaseLost ops s pn cap cr).1.fc) p12.1
        exact p12.then p3



theorem takeRange_ranges {lo hi : Nat} {ts : List (Nat × Nat × Nat)} {iv : Nat × Nat}
    (h : iv ∈ (takeRange lo hi ts).1) : ∃ t ∈ ts, iv = t.2 := by
  simp only [takeRange, List.mem_map, List.mem_filter] at h
  obtain ⟨t, ⟨ht, _⟩, rfl⟩ := h
  exact ⟨t, ht, rfl⟩

theorem takeRange_rest {lo hi : Nat} {ts : List (Nat × Nat × Nat)} {t : Nat × Nat × Nat}
    (h : t ∈ (takeRange lo hi ts).2) : t ∈ ts := by
  simp only [takeRange, List.mem_filter] at h
  exact h.1

theorem wf_foldl_remove (rs : List (Nat × Nat)) : ∀ (l : IvList), Iv.wf l →
    Iv.wf (rs.foldl (fun p iv => Iv.remove p iv.1 iv.2) l) := by
  induction rs with
  | nil => intro l h; exact h
  | cons r t ih => intro l _; exact ih _ (Iv.wf_remove l r.1 r.2)

/-- how an acknowledgement / loss report may change the state -/
def Progress (st st' : State) : Prop :=
  (st ≠ .sending → st' ≠ .sending) ∧ (st' = .cancelled ↔ st = .cancelled)

theorem Progress.refl (st : State) : Progress st st := ⟨id, Iff.rfl⟩

theorem Progress.trans {a b c : State} (h1 : Progress a b) (h2 : Progress b c) : Progress a c :=
  ⟨fun h => h2.1 (h1.1 h), h2.2.trans h1.2⟩

theorem onAck_progress (st : State) (lo hi : Nat) : Progress st (st.onAck lo hi) := by
  cases st <;> simp [Progress, State.onAck]

theorem onLoss_progress (st : State) (lo hi : Nat) : Progress st (st.onLoss lo hi).1 := by
  cases st <;> simp [Progress, State.onLoss]

theorem release_inv {s : Sender F} {first : Nat} (h : Inv s)
    (hmin : ∀ x, Iv.mem x s.pending → first ≤ x) (hle : first ≤ s.written.length) : Inv (s.release first) := by
  obtain ⟨hc, hl⟩ := h
  simp only [Sender.release]
  split
  · exact ⟨hc, hl⟩
  · refine ⟨⟨?_, hle, ?_, hc.newData, hc.toLe, hc.trans, hc.pendWf, hc.noPanic, hc.notCancelled⟩, lostOk_congr hl rfl rfl⟩
    · simp only []
      rw [hc.bytes, List.drop_drop]; congr 1; omega
    · intro x hx
      exact ⟨hmin x hx, (hc.pend x hx).2⟩

theorem releaseAll_core {s : Sender F} (hc : Core s) (hp : s.pending = []) : Core s.releaseAll := by
  have htot := hc.totalLen
  refine ⟨?_, ?_, ?_, ?_, hc.toLe, hc.trans, hc.pendWf, hc.noPanic, hc.notCancelled⟩
  · simp only [Sender.releaseAll, htot, List.drop_length]
  · simp only [Sender.releaseAll, htot]; exact Nat.le_refl _
  · intro x hx; simp only [Sender.releaseAll, hp, Iv.mem] at hx
  · exact hc.newData

theorem ackRemove_spec (s : Sender F) (lo hi : Nat) (h : Inv s) :
    Inv (ackRemove s lo hi).1 ∧ (ackRemove s lo hi).1.written = s.written ∧
    Progress s.state (ackRemove s lo hi).1.state := by
  obtain ⟨hc, hl⟩ := h
  have hprog := onAck_progress s.state lo hi
  have hnc : s.state.onAck lo hi ≠ .cancelled := fun hcn => hc.notCancelled (hprog.2.mp hcn)
  have hr : ∀ iv ∈ (takeRange lo hi s.transmissions).1, iv.1 < iv.2 ∧ iv.2 ≤ s.transmissionOffset := by
    intro iv hiv
    obtain ⟨t, ht, rfl⟩ := takeRange_ranges hiv
    exact hc.trans t ht
  simp only [ackRemove]
  split
  · refine ⟨⟨⟨hc.bytes, hc.headLe, hc.pend, hc.newData, hc.toLe, ?_, hc.pendWf, hc.noPanic, hnc⟩, lostOk_congr hl rfl rfl⟩, rfl, hprog⟩
    intro t ht; exact hc.trans t (takeRange_rest ht)
  · generalize hpd : (takeRange lo hi s.transmissions).1.foldl (fun p iv => Iv.remove p iv.1 iv.2) s.pending = pending'
    have hmem : ∀ x, Iv.mem x pending' ↔ Iv.mem x s.pending ∧
        ∀ r ∈ (takeRange lo hi s.transmissions).1, ¬ (r.1 ≤ x ∧ x < r.2) := by
      intro x; rw [← hpd]; exact Iv.mem_foldl_remove x _ _
    have hwf' : Iv.wf pending' := by rw [← hpd]; exact wf_foldl_remove _ _ hc.pendWf
    refine ⟨⟨⟨hc.bytes, hc.headLe, ?_, ?_, hc.toLe, ?_, hwf', hc.noPanic, hnc⟩, ?_⟩, rfl, hprog⟩
    · intro x hx; exact hc.pend x ((hmem x).mp hx).1
    · intro x hx1 hx2
      refine (hmem x).mpr ⟨hc.newData x hx1 hx2, ?_⟩
      intro r hr' hcon
      have := (hr r hr').2
      simp only [] at hx1
      omega
    · intro t ht; exact hc.trans t (takeRange_rest ht)
    · exact ⟨fun x hx => ((Iv.mem_inter x _ _).mp hx).2, fun x hx => hl.lt x ((Iv.mem_inter x _ _).mp hx).1,
        Iv.wf_inter _ _⟩

theorem ackRelease_spec (s : Sender F) (h : Inv s) :
    Inv (ackRelease s) ∧ (ackRelease s).written = s.written ∧ (ackRelease s).state = s.state := by
  simp only [ackRelease]
  cases hmv : Iv.minValue s.pending with
  | some first =>
    have hm := Iv.minValue_some s.pending first hmv
    have hfb := h.1.pend first (hm.2 h.1.pendWf)
    refine ⟨release_inv h hm.1 (by omega), ?_, ?_⟩ <;> (simp only [Sender.release]; split <;> rfl)
  | none =>
    have hpe : s.pending = [] := (Iv.minValue_none s.pending).mp hmv
    obtain ⟨hc, hl⟩ := h
    have hca := releaseAll_core hc hpe
    refine ⟨⟨core_congr hca rfl rfl rfl rfl rfl (by intro t ht; cases ht) hca.noPanic (SameKind.refl _),
      lostOk_congr hl rfl rfl⟩, rfl, rfl⟩

theorem ackFinish_spec (ops : FlowOps F) (s : Sender F) (h : Inv s) :
    Inv (ackFinish ops s) ∧ (ackFinish ops s).written = s.written ∧ Progress s.state (ackFinish ops s).state := by
  simp only [ackFinish]
  split
  · rename_i hfin
    obtain ⟨hc, hl⟩ := h
    have hca := releaseAll_core hc hfin.2.2.1
    refine ⟨⟨⟨hca.bytes, hca.headLe, hca.pend, hca.newData, hca.toLe, hca.trans, hca.pendWf, hca.noPanic, by simp⟩,
      lostOk_congr hl rfl rfl⟩, rfl, ?_⟩
    refine ⟨fun _ => by simp, ?_⟩
    constructor
    · intro h; cases h
    · intro h; exact absurd h hc.notCancelled
  · exact ⟨h, rfl, Progress.refl _⟩

/-- `on_packet_ack` keeps the invariant; `written` is untouched -/
theorem onPacketAck_spec (ops : FlowOps F) (s : Sender F) (lo hi : Nat) (h : Inv s) :
    Inv (onPacketAck ops s lo hi) ∧ (onPacketAck ops s lo hi).written = s.written ∧
    Progress s.state (onPacketAck ops s lo hi).state := by
  have h1 := ackRemove_spec s lo hi h
  simp only [onPacketAck]
  split
  · have h2 := ackRelease_spec _ h1.1
    have h3 := ackFinish_spec ops _ h2.1
    exact ⟨h3.1, by rw [h3.2.1, h2.2.1, h1.2.1], (h1.2.2.trans (by rw [h2.2.2]; exact Progress.refl _)).trans h3.2.2⟩
  · have h3 := ackFinish_spec ops _ h1.1
    exact ⟨h3.1, by rw [h3.2.1, h1.2.1], h1.2.2.trans h3.2.2⟩

theorem wf_foldl_insert (rs : List (Nat × Nat)) (l : IvList) (hw : Iv.wf l) (hr : ∀ r ∈ rs, r.1 < r.2) :
    Iv.wf (rs.foldl (fun p iv => Iv.insert p iv.1 iv.2) l) := (Iv.foldl_insert 0 rs l hw hr).1

/-- `on_packet_loss` keeps the invariant; `written` is untouched -/
theorem onPacketLoss_spec (ops : FlowOps F) (s : Sender F) (lo hi : Nat) (h : Inv s) :
    Inv (onPacketLoss ops s lo hi) ∧ (onPacketLoss ops s lo hi).written = s.written ∧
    Progress s.state (onPacketLoss ops s lo hi).state := by
  obtain ⟨hc, hl⟩ := h
  have hprog := onLoss_progress s.state lo hi
  have hnc : (s.state.onLoss lo hi).1 ≠ .cancelled := fun hcn => hc.notCancelled (hprog.2.mp hcn)
  have hr : ∀ iv ∈ (takeRange lo hi s.transmissions).1, iv.1 < iv.2 ∧ iv.2 ≤ s.transmissionOffset := by
    intro iv hiv
    obtain ⟨t, ht, rfl⟩ := takeRange_ranges hiv
    exact hc.trans t ht
  have htr : ∀ t ∈ (takeRange lo hi s.transmissions).2, t.2.1 < t.2.2 ∧ t.2.2 ≤ s.transmissionOffset :=
    fun t ht => hc.trans t (takeRange_rest ht)
  simp only [onPacketLoss]
  split
  · split
    · refine ⟨⟨⟨hc.bytes, hc.headLe, hc.pend, hc.newData, hc.toLe, htr, hc.pendWf, hc.noPanic, hnc⟩, ?_⟩, rfl, hprog⟩
      exact ⟨fun x hx => ((Iv.mem_inter x _ _).mp hx).2, fun x hx => hl.lt x ((Iv.mem_inter x _ _).mp hx).1,
        Iv.wf_inter _ _⟩
    · exact ⟨⟨⟨hc.bytes, hc.headLe, hc.pend, hc.newData, hc.toLe, htr, hc.pendWf, hc.noPanic, hnc⟩, lostOk_congr hl rfl rfl⟩, rfl, hprog⟩
  · refine ⟨⟨⟨hc.bytes, hc.headLe, hc.pend, hc.newData, hc.toLe, htr, hc.pendWf, hc.noPanic, hnc⟩, ?_⟩, rfl, hprog⟩
    refine ⟨fun x hx => ((Iv.mem_inter x _ _).mp hx).2, fun x hx => ?_, Iv.wf_inter _ _⟩
    have hx1 := ((Iv.mem_inter x _ _).mp hx).1
    have := (Iv.foldl_insert x _ s.lost hl.wf (fun r hr' => (hr r hr').1)).2.mp hx1
    rcases this with h | ⟨r, hr', hrx⟩
    · exact hl.lt x h
    · have := (hr r hr').2; simp only []; omega



theorem push_spec (s : Sender F) (d : List Nat) (h : Inv s) :
    Inv (push s d) ∧ (push s d).state = s.state ∧
    ∃ d', (push s d).written = s.written ++ d' ∧ (s.state ≠ .sending → d' = []) := by
  obtain ⟨hc, hl⟩ := h
  have htot := hc.totalLen
  simp only [push]
  split
  · rename_i hcond
    refine ⟨⟨hc, hl⟩, rfl, [], by simp, fun _ => rfl⟩
  · rename_i hcond
    have hd : d ≠ [] := fun e => hcond (Or.inr e)
    have hdl : 0 < d.length := List.length_pos_iff.mpr hd
    have hmem : ∀ x, Iv.mem x (Iv.insert s.pending s.totalLen (s.totalLen + d.length)) ↔
        Iv.mem x s.pending ∨ (s.totalLen ≤ x ∧ x < s.totalLen + d.length) :=
      fun x => Iv.mem_insert x s.pending _ _ (by omega) hc.pendWf
    refine ⟨⟨⟨?_, ?_, ?_, ?_, ?_, hc.trans, ?_, hc.noPanic, hc.notCancelled⟩, ?_⟩, rfl, d, rfl, ?_⟩
    · simp only []
      rw [hc.bytes, List.drop_append_of_le_length hc.headLe]
    · simp only [List.length_append]; have := hc.headLe; omega
    · intro x hx
      simp only [List.length_append]
      rcases (hmem x).mp hx with h | h
      · have := hc.pend x h; omega
      · have := hc.headLe; omega
    · intro x hx1 hx2
      simp only [List.length_append] at hx2
      apply (hmem x).mpr
      by_cases hlt : x < s.written.length
      · exact Or.inl (hc.newData x hx1 hlt)
      · right; omega
    · simp only [List.length_append]; have := hc.toLe; omega
    · exact Iv.wf_insert _ _ _ (by omega) hc.pendWf
    · exact ⟨fun x hx => (hmem x).mpr (Or.inl (hl.sub x hx)), hl.lt, hl.wf⟩
    · intro hns
      exfalso; apply hcond; left; exact hns

theorem finish_spec (s : Sender F) (h : Inv s) :
    Inv (finish s) ∧ (finish s).written = s.written ∧ Progress s.state (finish s).state := by
  obtain ⟨hc, hl⟩ := h
  simp only [finish]
  split
  · rename_i hs
    refine ⟨⟨⟨hc.bytes, hc.headLe, hc.pend, hc.newData, hc.toLe, hc.trans, hc.pendWf, hc.noPanic, by simp⟩,
      lostOk_congr hl rfl rfl⟩, rfl, ?_⟩
    simp only [Progress, hs]
    simp
  · exact ⟨⟨hc, hl⟩, rfl, Progress.refl _⟩

theorem SameKind.progress {a b : State} (h : SameKind a b) : Progress a b := by
  rcases h with rfl | ⟨f, f', rfl, rfl⟩
  · exact Progress.refl _
  · simp [Progress]

/-! ### the send stream (sender + reset) and the log of what it put on the wire -/

/-- either the stream was reset (the sender is cancelled and stays silent) or the sender invariant holds -/
def Ok (st : SendStream F) : Prop :=
  (st.resetSent = true ∧ st.sender.state = .cancelled ∧ st.sender.viewPanic = false) ∨
  (st.resetSent = false ∧ Inv st.sender)

def framesOf : Out → List Frame
  | .frames l => l
  | .resetStream => []

/-- all STREAM frames of a list of outputs, in order -/
def allFrames (outs : List Out) : List Frame := outs.flatMap framesOf

/-- the frames emitted so far are consistent with the bytes written so far -/
structure LogOk (st : SendStream F) (log : List Frame) : Prop where
  slice : ∀ fr ∈ log, fr.data = (st.sender.written.drop fr.off).take fr.data.length ∧ fr.stop ≤ st.sender.written.length
  fin : ∀ fr ∈ log, fr.fin = true → fr.stop = st.sender.written.length ∧ st.sender.state ≠ .sending

/-- extending the log when `written` grows by `d'` (nothing once the sender left `Sending`) -/
theorem logOk_extend {st st' : SendStream F} {log : List Frame} {d' : List Nat} (h : LogOk st log)
    (hw : st'.sender.written = st.sender.written ++ d') (hd : st.sender.state ≠ .sending → d' = [])
    (hs : st.sender.state ≠ .sending → st'.sender.state ≠ .sending) : LogOk st' log := by
  constructor
  · intro fr hfr
    have ⟨h1, h2⟩ := h.slice fr hfr
    rw [hw]
    refine ⟨?_, by simp only [List.length_append]; omega⟩
    rw [slice_append (by simp only [Frame.stop] at h2; omega)]
    exact h1
  · intro fr hfr hfin
    have ⟨h1, h2⟩ := h.fin fr hfr hfin
    rw [hw, hd h2]
    exact ⟨by simpa using h1, hs h2⟩

theorem cancelled_ack (ops : FlowOps F) (s : Sender F) (lo hi : Nat) (h : s.state = .cancelled) :
    (onPacketAck ops s lo hi).state = .cancelled ∧ (onPacketAck ops s lo hi).viewPanic = s.viewPanic ∧
    (onPacketAck ops s lo hi).written = s.written := by
  have e1 : (ackRemove s lo hi).1.state = .cancelled ∧ (ackRemove s lo hi).1.viewPanic = s.viewPanic ∧
      (ackRemove s lo hi).1.written = s.written := by
    simp only [ackRemove]; split <;> simp [h, State.onAck]
  have e2 : ∀ s' : Sender F, (ackRelease s').state = s'.state ∧ (ackRelease s').viewPanic = s'.viewPanic ∧
      (ackRelease s').written = s'.written := by
    intro s'; simp only [ackRelease]; split
    · simp only [Sender.release]; split <;> simp
    · simp [Sender.releaseAll]
  have e3 : ∀ s' : Sender F, s'.state = .cancelled → (ackFinish ops s').state = .cancelled ∧
      (ackFinish ops s').viewPanic = s'.viewPanic ∧ (ackFinish ops s').written = s'.written := by
    intro s' hs'; simp only [ackFinish]; split
    · rename_i hc; rw [hs'] at hc; simp at hc
    · exact ⟨hs', rfl, rfl⟩
  simp only [onPacketAck]
  split
  · have := e2 (ackRemove s lo hi).1
    have := e3 _ (by rw [this.1]; exact e1.1)
    grind
  · have := e3 _ e1.1
    grind

theorem cancelled_loss (ops : FlowOps F) (s : Sender F) (lo hi : Nat) (h : s.state = .cancelled) :
    (onPacketLoss ops s lo hi).state = .cancelled ∧ (onPacketLoss ops s lo hi).viewPanic = s.viewPanic ∧
    (onPacketLoss ops s lo hi).written = s.written := by
  simp only [onPacketLoss]
  split
  · split <;> simp [h, State.onLoss]
  · simp [h, State.onLoss]

/-- one step of the send stream keeps `Ok` and extends the log consistently -/
theorem step_spec (ops : FlowOps F) (st : SendStream F) (op : Op (F := F)) (log : List Frame)
    (hok : Ok st) (hlog : LogOk st log) :
    Ok (step ops st op).1 ∧ LogOk (step ops st op).1 (log ++ framesOf (step ops st op).2) ∧
    (st.resetSent = true → (step ops st op).1.resetSent = true ∧ (step ops st op).2 = .frames []) := by
  rcases hok with ⟨hr, hcan, hnp⟩ | ⟨hr, hinv⟩
  · -- after the reset: nothing is sent any more
    have hsame : step ops st op = (st, .frames []) →
        Ok (step ops st op).1 ∧ LogOk (step ops st op).1 (log ++ framesOf (step ops st op).2) ∧
        (st.resetSent = true → (step ops st op).1.resetSent = true ∧ (step ops st op).2 = .frames []) := by
      intro he; rw [he]
      exact ⟨Or.inl ⟨hr, hcan, hnp⟩, by simpa [framesOf] using hlog, fun _ => ⟨hr, rfl⟩⟩
    cases op with
    | push d => exact hsame (by simp [step, hr])
    | finish => exact hsame (by simp [step, hr])
    | transmit pn cap cr ct => exact hsame (by simp [step, hr])
    | reset => exact hsame (by simp [step, hr])
    | ack lo hi =>
      have hc := cancelled_ack ops st.sender lo hi hcan
      have he : step ops st (.ack lo hi) = ({ st with sender := onPacketAck ops st.sender lo hi }, .frames []) := rfl
      rw [he]
      refine ⟨Or.inl ⟨hr, hc.1, by simp only []; rw [hc.2.1]; exact hnp⟩, ?_, fun _ => ⟨hr, rfl⟩⟩
      simp only [framesOf, List.append_nil]
      exact logOk_extend (d' := []) hlog (by simp [hc.2.2]) (fun _ => rfl) (fun _ => by simp [hc.1])
    | loss lo hi =>
      have hc := cancelled_loss ops st.sender lo hi hcan
      have he : step ops st (.loss lo hi) = ({ st with sender := onPacketLoss ops st.sender lo hi }, .frames []) := rfl
      rw [he]
      refine ⟨Or.inl ⟨hr, hc.1, by simp only []; rw [hc.2.1]; exact hnp⟩, ?_, fun _ => ⟨hr, rfl⟩⟩
      simp only [framesOf, List.append_nil]
      exact logOk_extend (d' := []) hlog (by simp [hc.2.2]) (fun _ => rfl) (fun _ => by simp [hc.1])
    | flow f =>
      have he : step ops st (.flow f) = ({ st with sender := { st.sender with fc := f } }, .frames []) := rfl
      rw [he]
      refine ⟨Or.inl ⟨hr, hcan, hnp⟩, ?_, fun _ => ⟨hr, rfl⟩⟩
      simp only [framesOf, List.append_nil]
      exact logOk_extend (d' := []) hlog (by simp) (fun _ => rfl) (fun h => h)
  · have hnr : ¬ (st.resetSent = true) := by simp [hr]
    cases op with
    | push d =>
      have ⟨h1, h2, d', h3, h4⟩ := push_spec st.sender d hinv
      have he : step ops st (.push d) = ({ st with sender := push st.sender d }, .frames []) := by simp [step, hr]
      rw [he]
      refine ⟨Or.inr ⟨hr, h1⟩, ?_, fun h => absurd h hnr⟩
      simp only [framesOf, List.append_nil]
      exact logOk_extend hlog h3 h4 (fun h => by simp only []; rw [h2]; exact h)
    | finish =>
      have ⟨h1, h2, h3⟩ := finish_spec st.sender hinv
      have he : step ops st .finish = ({ st with sender := finish st.sender }, .frames []) := by simp [step, hr]
      rw [he]
      refine ⟨Or.inr ⟨hr, h1⟩, ?_, fun h => absurd h hnr⟩
      simp only [framesOf, List.append_nil]
      exact logOk_extend (d' := []) hlog (by simp [h2]) (fun _ => rfl) h3.1
    | transmit pn cap cr ct =>
      have ⟨h1, h2, h3, h4⟩ := onTransmit_spec ops st.sender pn cap cr ct hinv
      have he : step ops st (.transmit pn cap cr ct) =
          ({ st with sender := (onTransmit ops st.sender pn cap cr ct).1 }, .frames (onTransmit ops st.sender pn cap cr ct).2) := by
        simp [step, hr]
      rw [he]
      refine ⟨Or.inr ⟨hr, h1⟩, ?_, fun h => absurd h hnr⟩
      simp only [framesOf]
      have hold := logOk_extend (st' := { st with sender := (onTransmit ops st.sender pn cap cr ct).1 }) (d' := [])
        hlog (by simp [h2]) (fun _ => rfl) h3.progress.1
      constructor
      · intro fr hfr
        rcases List.mem_append.mp hfr with h | h
        · exact hold.slice fr h
        · have := h4 fr h
          simp only []
          rw [h2]
          exact ⟨this.1, this.2.1⟩
      · intro fr hfr hfin
        rcases List.mem_append.mp hfr with h | h
        · exact hold.fin fr h hfin
        · have := (h4 fr h).2.2 hfin
          simp only []
          rw [h2]
          refine ⟨this.2, ?_⟩
          apply h3.progress.1
          intro hs; rw [hs] at this; simp [State.isFinishing] at this
    | ack lo hi =>
      have ⟨h1, h2, h3⟩ := onPacketAck_spec ops st.sender lo hi hinv
      have he : step ops st (.ack lo hi) = ({ st with sender := onPacketAck ops st.sender lo hi }, .frames []) := rfl
      rw [he]
      refine ⟨Or.inr ⟨hr, h1⟩, ?_, fun h => absurd h hnr⟩
      simp only [framesOf, List.append_nil]
      exact logOk_extend (d' := []) hlog (by simp [h2]) (fun _ => rfl) h3.1
    | loss lo hi =>
      have ⟨h1, h2, h3⟩ := onPacketLoss_spec ops st.sender lo hi hinv
      have he : step ops st (.loss lo hi) = ({ st with sender := onPacketLoss ops st.sender lo hi }, .frames []) := rfl
      rw [he]
      refine ⟨Or.inr ⟨hr, h1⟩, ?_, fun h => absurd h hnr⟩
      simp only [framesOf, List.append_nil]
      exact logOk_extend (d' := []) hlog (by simp [h2]) (fun _ => rfl) h3.1
    | reset =>
      by_cases hfin : st.sender.state = .finished
      · have he : step ops st .reset = (st, .frames []) := by simp [step, hr, hfin]
        rw [he]
        exact ⟨Or.inr ⟨hr, hinv⟩, by simpa [framesOf] using hlog, fun h => absurd h hnr⟩
      · have he : step ops st .reset = ({ sender := stopSending ops st.sender, resetSent := true }, .resetStream) := by
          simp [step, hr, hfin]
        rw [he]
        refine ⟨Or.inl ⟨rfl, ?_, ?_⟩, ?_, fun h => absurd h hnr⟩
        · simp only [stopSending, hfin, if_false]
        · simp only [stopSending, hfin, if_false]; exact hinv.1.noPanic
        · simp only [framesOf, List.append_nil]
          refine logOk_extend (d' := []) hlog ?_ (fun _ => rfl) (fun _ => ?_)
          · simp only [stopSending, hfin, if_false, List.append_nil]
          · simp only [stopSending, hfin, if_false]; simp
    | flow f =>
      have he : step ops st (.flow f) = ({ st with sender := { st.sender with fc := f } }, .frames []) := rfl
      rw [he]
      obtain ⟨hc, hl⟩ := hinv
      refine ⟨Or.inr ⟨hr, ⟨hc.bytes, hc.headLe, hc.pend, hc.newData, hc.toLe, hc.trans, hc.pendWf, hc.noPanic,
        hc.notCancelled⟩, lostOk_congr hl rfl rfl⟩, ?_, fun h => absurd h hnr⟩
      simp only [framesOf, List.append_nil]
      exact logOk_extend (d' := []) hlog (by simp) (fun _ => rfl) (fun h => h)


/-- a whole history -/
theorem run_spec (ops : FlowOps F) (hist : List (Op (F := F))) : ∀ (st : SendStream F) (log : List Frame),
    Ok st → LogOk st log →
    Ok (run ops st hist).1 ∧ LogOk (run ops st hist).1 (log ++ allFrames (run ops st hist).2) ∧
    (st.resetSent = true → ∀ o ∈ (run ops st hist).2, o = .frames []) := by
  induction hist with
  | nil => intro st log hok hlog; simpa [run, allFrames] using ⟨hok, hlog⟩
  | cons op rest ih =>
    intro st log hok hlog
    have ⟨h1, h2, h3⟩ := step_spec ops st op log hok hlog
    have ⟨g1, g2, g3⟩ := ih (step ops st op).1 _ h1 h2
    simp only [run, allFrames, List.flatMap_cons]
    refine ⟨g1, ?_, ?_⟩
    · simpa [allFrames, List.append_assoc] using g2
    · intro hr o ho
      rcases List.mem_cons.mp ho with rfl | ho
      · exact (h3 hr).2
      · exact g3 (h3 hr).1 o ho

theorem ok_init (fc : F) : Ok (initStream fc) ∧ LogOk (initStream fc) [] := by
  refine ⟨Or.inr ⟨rfl, ⟨?_, ?_⟩⟩, ⟨by simp, by simp⟩⟩
  · constructor <;> simp [initStream, Iv.mem, Iv.wf]
  · constructor <;> simp [initStream, Iv.mem, Iv.wf]

theorem run_append (ops : FlowOps F) (st : SendStream F) (a b : List (Op (F := F))) :
    run ops st (a ++ b) = ((run ops (run ops st a).1 b).1, (run ops st a).2 ++ (run ops (run ops st a).1 b).2) := by
  induction a generalizing st with
  | nil => simp [run]
  | cons o a ih => simp [run, ih]

/-- only `init_reset` emits RESET_STREAM, and it marks the stream as reset -/
theorem step_reset_out (ops : FlowOps F) (st : SendStream F) (op : Op (F := F))
    (h : (step ops st op).2 = .resetStream) : (step ops st op).1.resetSent = true := by
  cases op with
  | push d => simp only [step] at h; split at h <;> cases h
  | finish => simp only [step] at h; split at h <;> cases h
  | transmit pn cap cr ct => simp only [step] at h; split at h <;> cases h
  | ack lo hi => cases h
  | loss lo hi => cases h
  | flow f => cases h
  | reset =>
    simp only [step] at h ⊢
    split
    · rename_i hc; rw [if_pos hc] at h; cases h
    · rfl

/-! ## progress helpers (used by `Quic.Proofs.C12.new_data_is_transmitted`) -/

open Quic.Stream.DataSender in
theorem ti_some (s : Sender SimpleFc) (a b pn cap : Nat) (hw : a < s.fc.allowed) (hc : 32 ≤ cap) :
    ∃ s2 fr, transmitInterval simpleFlow s a b pn cap = (s2, some fr) := by
  unfold transmitInterval
  have h65 : min cap 65535 ≠ 0 := by omega
  have h32 : ¬ (min cap 65535 < 32) := by omega
  rw [if_neg (by intro h; rcases h with h | h; exact h65 h; exact h32 h.2)]
  have : ¬ ((simpleFlow.acquire s.fc (intervalEnd cap a b)).2 ≤ a) := by simp [simpleFlow]; omega
  rw [if_neg this]
  exact ⟨_, _, rfl⟩

open Quic.Stream.DataSender in
theorem phaseNew_writes (s : Sender SimpleFc) (pn cap : Nat)
    (hnew : s.transmissionOffset < s.totalLen) (hw : s.transmissionOffset < s.fc.allowed) (hc : 32 ≤ cap) :
    (phaseNew simpleFlow s pn cap false true).2.1 ≠ [] ∧ (phaseNew simpleFlow s pn cap false true).2.2.2 = false := by
  obtain ⟨s2, fr, h⟩ := ti_some s s.transmissionOffset s.totalLen pn cap hw hc
  simp [phaseNew, hnew, h]

end Quic.Proofs.DataSender
