import QuicModel.Conn.Wakers
import QuicProofs.Lemmas.Wakers
/-
  The read waiter (`QuicModel/Conn/Wakers.lean`, `ReadWaiter`) under EVERY read request the transport-level request API can
  issue: any low watermark, any number of requested bytes (`want = 0` = a request without chunks).  `Lemmas/Wakers.lean` covers
  the requests of the public `s2n-quic` stream API only (`lw = 0 ∧ want > 0`) and proves the stronger `blocked` condition there;
  here the invariant is the consistency of the two cooperating sites: a stored waker's low watermark is never already met.
-/
namespace Quic.Proofs.Lemmas.WakersAnyLow
open Quic.Conn.Wakers Quic.Conn.Wakers.ReadWaiter

structure WFG (s : State) : Prop where
  r1 : s.consumed ≤ s.recv
  r2 : ∀ f, s.final = some f → s.recv ≤ f
  r3 : s.st = .receiving → ∀ f, s.final = some f → s.consumed < f
  r4 : ∀ lw, s.waiter = some lw → s.st = .receiving ∧ ready s lw = false

theorem ready_false_iff (s : State) (lw : Nat) :
    ready s lw = false ↔ (s.recv - s.consumed = 0 ∨ s.recv - s.consumed < min lw s.fcWatermark) := by
  unfold ready len
  by_cases h1 : s.recv - s.consumed > 0 <;> by_cases h2 : s.recv - s.consumed ≥ min lw s.fcWatermark <;>
    simp [h1, h2] <;> omega

theorem wfg_init (fcw : Nat) : WFG { fcWatermark := fcw } :=
  ⟨Nat.le_refl _, (fun f h => by cases h), (fun _ f h => by cases h), (fun lw h => by cases h)⟩

/-- the three outcomes of a read request in the `Receiving` state -/
theorem pollReadReceiving_cases (s : State) (lw want : Nat) (h3 : ∀ f, s.final = some f → s.consumed < f) :
    -- parked: nothing consumed, the low watermark is not met or the buffer is empty
    ((pollReadReceiving s lw want).1 = { s with waiter := some lw } ∧
        (s.recv - s.consumed < min s.fcWatermark lw ∨ s.recv - s.consumed = 0)) ∨
    -- consumed `take` bytes; the stream continues, the previous waiter (if any) stays
    (∃ take, take ≤ s.recv - s.consumed ∧ s.final ≠ some (s.consumed + take) ∧
        (pollReadReceiving s lw want).1 = { s with consumed := s.consumed + take }) ∨
    -- consumed the last byte
    (∃ take, take ≤ s.recv - s.consumed ∧
        (pollReadReceiving s lw want).1 = { s with consumed := s.consumed + take, st := .dataRead, waiter := none }) := by
  obtain ⟨st, recv, consumed, final, fcw, waiter⟩ := s
  simp only at h3
  by_cases he : recv - consumed ≥ min fcw lw
  · by_cases hw : want > 0 ∧ min want (recv - consumed) = 0
    · left
      have hl : recv - consumed = 0 := by omega
      have hf : ¬ (final = some consumed) := fun h => by have := h3 _ h; omega
      refine ⟨?_, Or.inr hl⟩
      simp [pollReadReceiving, len, hl, hw.1, hf]
    · right
      by_cases hfin : final = some (consumed + min want (recv - consumed))
      · right
        refine ⟨min want (recv - consumed), Nat.min_le_right _ _, ?_⟩
        have hsw : (decide (want > 0) && decide (min want (recv - consumed) = 0)) = false := by
          simp only [Bool.and_eq_false_iff, decide_eq_false_iff_not]; omega
        have he' : min fcw lw ≤ recv - consumed := he
        simp [pollReadReceiving, len, he', hfin]
        intro h; omega
      · left
        refine ⟨min want (recv - consumed), Nat.min_le_right _ _, hfin, ?_⟩
        have hsw : (decide (want > 0) && decide (min want (recv - consumed) = 0)) = false := by
          simp only [Bool.and_eq_false_iff, decide_eq_false_iff_not]; omega
        have hb : (final == some (consumed + min want (recv - consumed))) = false := by simpa using hfin
        have he' : min fcw lw ≤ recv - consumed := he
        simp [pollReadReceiving, len, he', hb]
        intro h1 h2; exfalso; omega
  · left
    have hf : ¬ (final = some consumed) := fun h => by have := h3 _ h; omega
    have hd : decide (recv - consumed ≥ min fcw lw) = false := decide_eq_false he
    have he' : ¬ (min fcw lw ≤ recv - consumed) := he
    refine ⟨?_, Or.inl (by show recv - consumed < min fcw lw; omega)⟩
    simp [pollReadReceiving, len, he', hf]

theorem wfg_pollRead (s : State) (lw want : Nat) (h : WFG s) : WFG (pollRead s lw want).1 := by
  by_cases hst : s.st = .receiving
  · have hp : pollRead s lw want = pollReadReceiving s lw want := by simp [pollRead, hst]
    rw [hp]
    have r1 := h.r1
    rcases pollReadReceiving_cases s lw want (h.r3 hst) with ⟨he, hc⟩ | ⟨take, ht, hne, he⟩ | ⟨take, ht, he⟩
    · rw [he]
      refine ⟨h.r1, h.r2, h.r3, ?_⟩
      intro lw' hlw
      cases hlw
      refine ⟨hst, (ready_false_iff _ _).2 ?_⟩
      show s.recv - s.consumed = 0 ∨ s.recv - s.consumed < min lw s.fcWatermark
      omega
    · rw [he]
      refine ⟨(by show s.consumed + take ≤ s.recv; omega), h.r2, ?_, ?_⟩
      · intro _ f hf
        have hf' : s.final = some f := hf
        have hle := h.r2 f hf'
        show s.consumed + take < f
        have hx : ¬ (f = s.consumed + take) := fun hx => hne (by rw [hf', hx])
        omega
      · intro lw' hlw
        have hw' : s.waiter = some lw' := hlw
        obtain ⟨_, hr⟩ := h.r4 lw' hw'
        refine ⟨hst, (ready_false_iff _ _).2 ?_⟩
        have := (ready_false_iff s lw').1 hr
        show s.recv - (s.consumed + take) = 0 ∨ s.recv - (s.consumed + take) < min lw' s.fcWatermark
        omega
    · rw [he]
      exact ⟨(by show s.consumed + take ≤ s.recv; omega), h.r2, (fun h' => by cases h'), (fun lw' h' => by cases h')⟩
  · rw [Lemmas.Wakers.Read.pollRead_other s lw want hst]
    exact ⟨h.r1, h.r2, (fun h' => absurd h' hst), (fun lw' h' => by cases h')⟩

theorem wfg_wake (s : State) (h1 : s.consumed ≤ s.recv) (h2 : ∀ f, s.final = some f → s.recv ≤ f)
    (h3 : s.st = .receiving → ∀ f, s.final = some f → s.consumed < f) : WFG (wake s).1 := by
  rw [(Lemmas.Wakers.Read.wake_waiter s).1]
  exact ⟨h1, h2, h3, (fun lw hlw => by cases hlw)⟩

theorem wfg_onDataCore (s : State) (isFin : Bool) (hst : s.st = .receiving) (h1 : s.consumed ≤ s.recv)
    (h2 : ∀ f, s.final = some f → s.recv ≤ f)
    (h3 : ∀ f, s.final = some f → s.consumed < f ∨ (isFin = true ∧ f = s.consumed)) : WFG (onDataCore s isFin).1 := by
  unfold onDataCore
  simp only
  by_cases hd : (isFin && s.final == some s.consumed) = true
  · rw [if_pos hd]
    simp only [Bool.and_eq_true, beq_iff_eq] at hd
    have hall : allReceived s = true := by
      have := h2 _ hd.2
      simp only [allReceived, beq_iff_eq, hd.2]; congr 1; omega
    simp only [hall, Bool.or_true, if_true]
    apply wfg_wake
    · exact h1
    · exact h2
    · intro h'; cases h'
  · rw [if_neg hd]
    have h3' : ∀ f, s.final = some f → s.consumed < f := by
      intro f hf
      rcases h3 f hf with h' | ⟨ha, hb⟩
      · exact h'
      · exfalso; apply hd; simp [ha, hf, hb]
    generalize hsw : ((match s.waiter with
      | some lw => ready s lw
      | none => false) || allReceived s) = sw
    cases sw with
    | true => exact wfg_wake s h1 h2 (fun _ => h3')
    | false =>
      simp only [Bool.false_eq_true, if_false]
      simp only [Bool.or_eq_false_iff] at hsw
      refine ⟨h1, h2, (fun _ => h3'), ?_⟩
      intro lw hlw
      have := hsw.1
      simp only [hlw] at this
      exact ⟨hst, this⟩

theorem wfg_onData (s : State) (n : Nat) (fin : Option Nat) (hv : (Op.onData n fin).valid s = true) (h : WFG s) :
    WFG (onData s n fin).1 := by
  unfold onData
  cases hst : s.st with
  | reset => exact h
  | stopping => exact h
  | dataRead => exact h
  | receiving =>
    simp only
    have r1 := h.r1
    have hfinal' : ∀ f, (if s.final.isSome then s.final else fin) = some f → max s.recv n ≤ f := by
      intro f hf
      simp only [Op.valid, Bool.and_eq_true] at hv
      have hv2 := hv.2
      rw [hf] at hv2
      simp only [Bool.and_eq_true, decide_eq_true_eq] at hv2
      omega
    apply wfg_onDataCore
    · first | exact hst | rfl
    · show s.consumed ≤ max s.recv n; omega
    · exact hfinal'
    · intro f hf
      have hf' : (if s.final.isSome then s.final else fin) = some f := hf
      show s.consumed < f ∨ (fin.isSome = true ∧ f = s.consumed)
      cases hfs : s.final with
      | some g =>
        simp only [hfs, Option.isSome_some, if_true] at hf'
        cases hf'
        exact Or.inl (h.r3 hst _ hfs)
      | none =>
        simp only [hfs, Option.isSome_none, Bool.false_eq_true, if_false] at hf'
        have := hfinal' f (by simp [hfs, hf'])
        by_cases he : f = s.consumed
        · exact Or.inr ⟨by simp [hf'], he⟩
        · left; omega

theorem wfg_onReset (s : State) (h : WFG s) : WFG (onReset s).1 := by
  unfold onReset
  have r1 := h.r1
  cases hst : s.st with
  | reset => exact wfg_wake s h.r1 h.r2 h.r3
  | dataRead => exact wfg_wake s h.r1 h.r2 h.r3
  | stopping =>
    apply wfg_wake
    · exact Nat.le_refl _
    · intro f hf; have := h.r2 f hf; show s.consumed ≤ f; omega
    · intro h'; cases h'
  | receiving =>
    simp only
    split
    · exact wfg_wake s h.r1 h.r2 h.r3
    · apply wfg_wake
      · exact Nat.le_refl _
      · intro f hf; have := h.r2 f hf; show s.consumed ≤ f; omega
      · intro h'; cases h'

theorem wfg_pollStopSending (s : State) (h : WFG s) : WFG (pollStopSending s) := by
  unfold pollStopSending
  have r1 := h.r1
  cases hst : s.st with
  | reset => exact h
  | stopping => exact h
  | dataRead => exact h
  | receiving =>
    simp only
    split
    · exact ⟨h.r1, h.r2, (fun h' => by cases h'), (fun lw h' => by cases h')⟩
    · refine ⟨Nat.le_refl _, ?_, (fun h' => by cases h'), (fun lw h' => by cases h')⟩
      intro f hf; have := h.r2 f hf; show s.consumed ≤ f; omega

theorem wfg_step (s : State) (op : Op) (h : WFG s) : WFG (step s op).1 := by
  unfold step
  by_cases hv : op.valid s = true
  · simp only [hv, Bool.not_true, Bool.false_eq_true, if_false]
    cases op with
    | pollRead lw want => exact wfg_pollRead s lw want h
    | pollStopSending => exact wfg_pollStopSending s h
    | onData n fin => exact wfg_onData s n fin hv h
    | onReset => exact wfg_onReset s h
  · simp only [hv, Bool.not_false, if_true]; exact h

theorem wfg_run (ops : List Op) (s : State) (h : WFG s) : WFG (run s ops) := by
  induction ops generalizing s with
  | nil => exact h
  | cons op ops ih => exact ih _ (wfg_step s op h)

end Quic.Proofs.Lemmas.WakersAnyLow
