import QuicModel.Conn.KeyChain
import QuicModel.Conn.KeySet
/-
  Helper lemmas for the C15 key-chain part: the observation-table checker `check` is sound and
  complete for `ChainOKUpTo`. Property theorems: Props/C15KeyChain.lean.
-/
namespace Quic.Proofs.KeyChainLemmas
open Quic.Conn.KeyChain

/-! ### lookup -/

theorem lookup_append (a b : List Obs) (i j : Nat) :
    lookup (a ++ b) i j = match lookup a i j with
      | some v => some v
      | none => lookup b i j := by
  induction a with
  | nil => simp [lookup]
  | cons o a ih =>
    simp only [List.cons_append, lookup]
    by_cases h : (o.i == i && o.j == j) = true
    · simp [h]
    · simp only [h, if_false, Bool.false_eq_true]
      exact ih

theorem lookup_mem {t : List Obs} {i j : Nat} {b : Bool} (h : lookup t i j = some b) :
    ∃ o ∈ t, o.i = i ∧ o.j = j ∧ o.opened = b := by
  induction t with
  | nil => simp [lookup] at h
  | cons o t ih =>
    simp only [lookup] at h
    by_cases hc : (o.i == i && o.j == j) = true
    · simp only [hc, if_true, Option.some.injEq] at h
      simp only [Bool.and_eq_true, beq_iff_eq] at hc
      exact ⟨o, List.mem_cons_self, hc.1, hc.2, h⟩
    · simp only [hc, if_false, Bool.false_eq_true] at h
      obtain ⟨o', hm, h'⟩ := ih h
      exact ⟨o', List.mem_cons_of_mem _ hm, h'⟩

/-! ### the checker, cell by cell -/

theorem cell_ok (t : List Obs) (i j : Nat) : cell t i j = .chainok ↔ lookup t i j = some (i == j) := by
  unfold cell
  cases h : lookup t i j with
  | none => simp
  | some b =>
    by_cases hb : (b == (i == j)) = true
    · simp only [hb, if_true, true_iff]
      simp only [beq_iff_eq] at hb
      rw [hb]
    · simp only [hb, if_false, Bool.false_eq_true]
      constructor
      · intro h'; cases h'
      · intro h'
        simp only [Option.some.injEq] at h'
        exact absurd (by simp [h']) hb

theorem checkRow_ok (t : List Obs) (i m : Nat) :
    checkRow t i m = .chainok ↔ ∀ j, j < m → cell t i j = .chainok := by
  induction m with
  | zero => simp [checkRow]
  | succ m ih =>
    simp only [checkRow]
    cases h : checkRow t i m with
    | chainok =>
      simp only
      rw [h] at ih
      constructor
      · intro hc j hj
        by_cases hjm : j = m
        · subst hjm; exact hc
        · exact (ih.mp rfl) j (by omega)
      · intro hall; exact hall m (by omega)
    | missing a b =>
      simp only
      rw [h] at ih
      constructor
      · intro hc; cases hc
      · intro hall
        exact absurd (ih.mpr (fun j hj => hall j (by omega))) (by simp)
    | broken a b c =>
      simp only
      rw [h] at ih
      constructor
      · intro hc; cases hc
      · intro hall
        exact absurd (ih.mpr (fun j hj => hall j (by omega))) (by simp)
    | conflict a b =>
      simp only
      rw [h] at ih
      constructor
      · intro hc; cases hc
      · intro hall
        exact absurd (ih.mpr (fun j hj => hall j (by omega))) (by simp)

theorem checkRows_ok (t : List Obs) (n k : Nat) :
    checkRows t n k = .chainok ↔ ∀ i, i < k → checkRow t i (n + 1) = .chainok := by
  induction k with
  | zero => simp [checkRows]
  | succ k ih =>
    simp only [checkRows]
    cases h : checkRows t n k with
    | chainok =>
      simp only
      rw [h] at ih
      constructor
      · intro hc i hi
        by_cases hik : i = k
        · subst hik; exact hc
        · exact (ih.mp rfl) i (by omega)
      · intro hall; exact hall k (by omega)
    | missing a b =>
      simp only
      rw [h] at ih
      constructor
      · intro hc; cases hc
      · intro hall
        exact absurd (ih.mpr (fun i hi => hall i (by omega))) (by simp)
    | broken a b c =>
      simp only
      rw [h] at ih
      constructor
      · intro hc; cases hc
      · intro hall
        exact absurd (ih.mpr (fun i hi => hall i (by omega))) (by simp)
    | conflict a b =>
      simp only
      rw [h] at ih
      constructor
      · intro hc; cases hc
      · intro hall
        exact absurd (ih.mpr (fun i hi => hall i (by omega))) (by simp)

theorem firstConflict_none (t all : List Obs) :
    firstConflict t all = none ↔ ∀ o, o ∈ t → consistentAt all o = true := by
  induction t with
  | nil => simp [firstConflict]
  | cons o t ih =>
    simp only [firstConflict]
    by_cases hc : consistentAt all o = true
    · simp only [hc, if_true, List.mem_cons]
      rw [ih]
      constructor
      · intro h o' ho'
        rcases ho' with rfl | ho'
        · exact hc
        · exact h o' ho'
      · intro h o' ho'; exact h o' (Or.inr ho')
    · simp only [hc, if_false, Bool.false_eq_true, List.mem_cons]
      constructor
      · intro h; cases h
      · intro h; exact absurd (h o (Or.inl rfl)) hc

/-- the checker's verdict in closed form -/
theorem check_ok (n : Nat) (t : List Obs) :
    check n t = .chainok ↔
      (∀ o, o ∈ t → consistentAt t o = true) ∧ ∀ i j, i ≤ n → j ≤ n → lookup t i j = some (i == j) := by
  unfold check
  cases h : firstConflict t t with
  | some o =>
    simp only
    constructor
    · intro hc; cases hc
    · intro hall
      have := (firstConflict_none t t).mpr hall.1
      rw [h] at this; cases this
  | none =>
    simp only
    rw [checkRows_ok]
    have hcons := (firstConflict_none t t).mp h
    constructor
    · intro hall
      refine ⟨hcons, fun i j hi hj => ?_⟩
      exact (cell_ok t i j).mp ((checkRow_ok t i (n + 1)).mp (hall i (by omega)) j (by omega))
    · intro hall i hi
      exact (checkRow_ok t i (n + 1)).mpr (fun j hj => (cell_ok t i j).mpr (hall.2 i j (by omega) (by omega)))

/-! ### complete tables -/

theorem mem_tabulateRow (opens : Nat → Nat → Bool) (i m : Nat) (o : Obs) :
    o ∈ tabulateRow opens i m ↔ ∃ j, j < m ∧ o = ⟨i, j, opens i j⟩ := by
  induction m with
  | zero => simp [tabulateRow]
  | succ m ih =>
    simp only [tabulateRow, List.mem_append, List.mem_singleton, ih]
    constructor
    · rintro (⟨j, hj, rfl⟩ | rfl)
      · exact ⟨j, by omega, rfl⟩
      · exact ⟨m, by omega, rfl⟩
    · rintro ⟨j, hj, rfl⟩
      by_cases hjm : j = m
      · subst hjm; exact Or.inr rfl
      · exact Or.inl ⟨j, by omega, rfl⟩

theorem mem_tabulateRows (opens : Nat → Nat → Bool) (n k : Nat) (o : Obs) :
    o ∈ tabulateRows opens n k ↔ ∃ i j, i < k ∧ j < n + 1 ∧ o = ⟨i, j, opens i j⟩ := by
  induction k with
  | zero => simp [tabulateRows]
  | succ k ih =>
    simp only [tabulateRows, List.mem_append, ih, mem_tabulateRow]
    constructor
    · rintro (⟨i, j, hi, hj, rfl⟩ | ⟨j, hj, rfl⟩)
      · exact ⟨i, j, by omega, hj, rfl⟩
      · exact ⟨k, j, by omega, hj, rfl⟩
    · rintro ⟨i, j, hi, hj, rfl⟩
      by_cases hik : i = k
      · subst hik; exact Or.inr ⟨j, hj, rfl⟩
      · exact Or.inl ⟨i, j, by omega, hj, rfl⟩

theorem lookup_tabulateRow (opens : Nat → Nat → Bool) (i m i' j : Nat) :
    lookup (tabulateRow opens i m) i' j = if i' = i ∧ j < m then some (opens i j) else none := by
  induction m with
  | zero => simp [tabulateRow, lookup]
  | succ m ih =>
    simp only [tabulateRow, lookup_append, ih]
    by_cases h1 : i' = i ∧ j < m
    · have h2 : i' = i ∧ j < m + 1 := ⟨h1.1, by omega⟩
      simp [h1, h2]
    · simp only [h1, if_false, lookup]
      by_cases h3 : i = i' ∧ m = j
      · obtain ⟨rfl, rfl⟩ := h3
        simp
      · have h4 : ¬ (i' = i ∧ j < m + 1) := by
          intro ⟨ha, hb⟩
          apply h3
          refine ⟨ha.symm, ?_⟩
          have : ¬ j < m := fun hlt => h1 ⟨ha, hlt⟩
          omega
        have h5 : ((i == i') && (m == j)) = false := by
          simp only [Bool.and_eq_false_imp, beq_iff_eq, beq_eq_false_iff_ne]
          intro ha hb
          exact h3 ⟨ha, hb⟩
        simp [h4, h5]

theorem lookup_tabulateRows (opens : Nat → Nat → Bool) (n k i j : Nat) :
    lookup (tabulateRows opens n k) i j = if i < k ∧ j < n + 1 then some (opens i j) else none := by
  induction k with
  | zero => simp [tabulateRows, lookup]
  | succ k ih =>
    simp only [tabulateRows, lookup_append, ih, lookup_tabulateRow]
    by_cases h1 : i < k ∧ j < n + 1
    · have h2 : i < k + 1 ∧ j < n + 1 := ⟨by omega, h1.2⟩
      simp [h1, h2]
    · simp only [h1, if_false]
      by_cases h3 : i = k ∧ j < n + 1
      · have h2 : i < k + 1 ∧ j < n + 1 := ⟨by omega, h3.2⟩
        obtain ⟨rfl, _⟩ := h3
        simp [h2]
      · have h2 : ¬ (i < k + 1 ∧ j < n + 1) := by
          intro ⟨ha, hb⟩
          by_cases hik : i = k
          · exact h3 ⟨hik, hb⟩
          · exact h1 ⟨by omega, hb⟩
        simp [h3, h2]

theorem lookup_tabulate (opens : Nat → Nat → Bool) (n i j : Nat) (hi : i ≤ n) (hj : j ≤ n) :
    lookup (tabulate n opens) i j = some (opens i j) := by
  unfold tabulate
  rw [lookup_tabulateRows]
  have : i < n + 1 ∧ j < n + 1 := ⟨by omega, by omega⟩
  simp [this]

theorem tabulate_consistent (opens : Nat → Nat → Bool) (n : Nat) (o : Obs) (ho : o ∈ tabulate n opens) :
    consistentAt (tabulate n opens) o = true := by
  unfold tabulate at ho
  obtain ⟨i, j, hi, hj, rfl⟩ := (mem_tabulateRows opens n (n + 1) o).mp ho
  unfold consistentAt
  simp only
  rw [lookup_tabulate opens n i j (by omega) (by omega)]
  simp

/-! ### physical keys -/

theorem count_map_of_injective {K : Type} [DecidableEq K] (f : Nat → K) (hinj : ∀ i j, f i = f j → i = j)
    (l : List Nat) (g : Nat) : (l.map f).count (f g) = l.count g := by
  induction l with
  | nil => rfl
  | cons x l ih =>
    simp only [List.map_cons, List.count_cons, ih]
    by_cases hx : x = g
    · subst hx; simp
    · have : ¬ f x = f g := fun he => hx (hinj x g he)
      simp [hx, this]

open Quic.Conn.KeySet in
/-- `decrypt_packet` with the verdict of physical keys: the packet was sealed with generation `g` of
    the sender's chain (or by nobody) and is tried under the key in the slot named by its phase bit
    (`decrypt_eq`: that is the slot the code always selects) -/
def decryptPhys (opens : Nat → Nat → Bool) (r : Repairs) (s : Quic.Conn.KeySet.State) (ph : Bool) (g : Option Nat) (pn la pto : Nat) :
    Quic.Conn.KeySet.State × Quic.Conn.KeySet.DecOut :=
  match g with
  | none => decrypt r s ph none pn la pto
  | some g =>
    if opens g (s.slot ph).keyGen then decrypt r s ph (some (s.slot ph).keyGen) pn la pto
    else decrypt r s ph none pn la pto

end Quic.Proofs.KeyChainLemmas
