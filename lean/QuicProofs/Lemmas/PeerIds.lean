import QuicModel.Conn.PeerIds
/-
  Helper lemmas for C13: invariants of the transcribed `PeerIdRegistry` (+ the active path's destination
  connection ID kept by `path::Manager`) over all operation histories.
-/
namespace Quic.Proofs.PeerIds
open Quic.Conn.PeerIds
open Quic.Rfc.PeerView (Frame Ev)

/-- (sequence number, connection id) pairs the peer issued, read off the ghost events -/
def peerPairs (ev : List Ev) : List (Nat × Cid) :=
  ev.filterMap (fun e => match e with
    | .hsPeer q c => some (q, c)
    | .rxNcid f => some (f.seq, f.cid)
    | _ => none)

theorem peerPairs_append (a b : List Ev) : peerPairs (a ++ b) = peerPairs a ++ peerPairs b := by
  simp [peerPairs, List.filterMap_append]

/-! ### the scan of `on_new_connection_id` -/

theorem retireIfReady_id (i : IdInfo) (rpt : Nat) : (i.retireIfReady rpt).id = i.id := by
  unfold IdInfo.retireIfReady; split <;> rfl

theorem retireIfReady_seq (i : IdInfo) (rpt : Nat) : (i.retireIfReady rpt).seq = i.seq := by
  unfold IdInfo.retireIfReady; split <;> rfl

theorem scan_spec (rpt : Nat) (newId : Cid) (tok : Token) (seq : Nat) (ids : List IdInfo) {r : Scan}
    (h : scan rpt newId tok seq ids = .ok r) :
    r.ids.map (·.id) = ids.map (·.id) ∧ r.ids.map (·.seq) = ids.map (·.seq) ∧
    (r.isDuplicate = false → ∀ i ∈ ids, i.id ≠ newId) := by
  induction ids generalizing r with
  | nil =>
    simp only [scan] at h
    cases h
    simp
  | cons i rest ih =>
    unfold scan at h
    split at h
    · cases h
    · next dup hv =>
      split at h
      · cases h
      · next r' hr' =>
        cases h
        obtain ⟨h1, h2, h3⟩ := ih hr'
        refine ⟨?_, ?_, ?_⟩
        · simp only [List.map_cons, h1, retireIfReady_id]
        · simp only [List.map_cons, h2, retireIfReady_seq]
        · intro hd
          simp only [Bool.or_eq_false_iff] at hd
          intro j hj
          cases hj with
          | head =>
            intro hid
            unfold IdInfo.validateNewConnectionId at hv
            simp only [hid, beq_self_eq_true, if_true] at hv
            split at hv
            · cases hv
            · cases hv
              exact absurd hd.1 (by simp)
          | tail _ hj => exact h3 hd.2 j hj

theorem retirePendingNew_map_id (ids : List IdInfo) : (retirePendingNew ids).map (·.id) = ids.map (·.id) := by
  induction ids with
  | nil => rfl
  | cons i rest ih =>
    unfold retirePendingNew
    split
    · simp
    · simp [ih]

theorem retirePendingNew_map_seq (ids : List IdInfo) : (retirePendingNew ids).map (·.seq) = ids.map (·.seq) := by
  induction ids with
  | nil => rfl
  | cons i rest ih =>
    unfold retirePendingNew
    split
    · simp
    · simp [ih]

theorem consumeNew_spec (ids : List IdInfo) {c : Cid} {ids' : List IdInfo} (h : consumeNew ids = some (c, ids')) :
    ids'.map (·.id) = ids.map (·.id) ∧ ids'.map (·.seq) = ids.map (·.seq) ∧
    (∃ j ∈ ids', j.id = c ∧ j.isActive = true) ∧
    (∀ j ∈ ids, j.isActive = true → ∃ j' ∈ ids', j'.id = j.id ∧ j'.isActive = true) := by
  induction ids generalizing ids' with
  | nil => simp [consumeNew] at h
  | cons i rest ih =>
    unfold consumeNew at h
    split at h
    · next hst =>
      cases h
      refine ⟨by simp, by simp, ⟨{ i with status := .inUse }, by simp, rfl, by simp [IdInfo.isActive]⟩, ?_⟩
      intro j hj hact
      rcases List.mem_cons.mp hj with rfl | hj
      · exact ⟨{ j with status := .inUse }, by simp, rfl, by simp [IdInfo.isActive]⟩
      · exact ⟨j, List.mem_cons_of_mem _ hj, rfl, hact⟩
    · split at h
      · next c' r hr =>
        cases h
        obtain ⟨h1, h2, ⟨j, hj, hjc, hja⟩, h4⟩ := ih hr
        refine ⟨by simp [h1], by simp [h2], ⟨j, List.mem_cons_of_mem _ hj, hjc, hja⟩, ?_⟩
        intro k hk hact
        rcases List.mem_cons.mp hk with rfl | hk
        · exact ⟨k, by simp, rfl, hact⟩
        · obtain ⟨k', hk', h5, h6⟩ := h4 k hk hact
          exact ⟨k', List.mem_cons_of_mem _ hk', h5, h6⟩
      · cases h

/-- pairs (seq, id) of the registered ids -/
def pairs (ids : List IdInfo) : List (Nat × Cid) := ids.map (fun i => (i.seq, i.id))

theorem pairs_of_maps {a b : List IdInfo} (h1 : a.map (·.id) = b.map (·.id)) (h2 : a.map (·.seq) = b.map (·.seq)) :
    pairs a = pairs b := by
  induction a generalizing b with
  | nil =>
    cases b with
    | nil => rfl
    | cons _ _ => simp at h1
  | cons x xs ih =>
    cases b with
    | nil => simp at h1
    | cons y ys =>
      simp only [List.map_cons, List.cons.injEq] at h1 h2
      simp only [pairs, List.map_cons, List.cons.injEq, Prod.mk.injEq]
      exact ⟨⟨h2.1, h1.1⟩, ih h1.2 h2.2⟩

theorem known_iff (ids : List IdInfo) (P : List (Nat × Cid)) :
    (∀ i ∈ ids, (i.seq, i.id) ∈ P) ↔ ∀ x ∈ pairs ids, x ∈ P := by
  simp [pairs]


theorem nodup_id_inj (ids : List IdInfo) (h : (ids.map (·.id)).Nodup) (a b : IdInfo) (ha : a ∈ ids) (hb : b ∈ ids)
    (hab : a.id = b.id) : a = b := by
  induction ids with
  | nil => cases ha
  | cons x rest ih =>
    simp only [List.map_cons, List.nodup_cons, List.mem_map, not_exists, not_and] at h
    rcases List.mem_cons.mp ha with ha1 | ha1
    · rcases List.mem_cons.mp hb with hb1 | hb1
      · rw [ha1, hb1]
      · exact absurd (by rw [← ha1]; exact hab.symm) (h.1 b hb1)
    · rcases List.mem_cons.mp hb with hb1 | hb1
      · exact absurd (by rw [← hb1]; exact hab) (h.1 a ha1)
      · exact ih h.2 ha1 hb1

/-- the part of the invariant that does not mention the active path -/
structure PInv0 (s : State) : Prop where
  idsNodup : (s.ids.map (·.id)).Nodup
  known : ∀ x ∈ pairs s.ids, x ∈ peerPairs s.events
  retiresOk : ∀ q d, Ev.txRetire q d ∈ s.events → ∃ c, (q, c) ∈ peerPairs s.events ∧ d ≠ some c

def HasActive (s : State) : Prop := ∃ j ∈ s.ids, j.id = s.activeCid ∧ j.isActive = true

theorem PInv0.same_keys {s s' : State} (h : PInv0 s) (h1 : s'.ids.map (·.id) = s.ids.map (·.id))
    (h2 : s'.ids.map (·.seq) = s.ids.map (·.seq)) (he : s'.events = s.events) : PInv0 s' := by
  refine ⟨by rw [h1]; exact h.idsNodup, ?_, by rw [he]; exact h.retiresOk⟩
  rw [pairs_of_maps h1 h2, he]; exact h.known

theorem isActive_any {s : State} {c : Cid} (h : isActive s c = true) : ∃ j ∈ s.ids, j.id = c ∧ j.isActive = true := by
  unfold isActive at h
  simp only [List.any_eq_true, Bool.and_eq_true, beq_iff_eq] at h
  obtain ⟨j, hj, h1, h2⟩ := h
  exact ⟨j, hj, h1, h2⟩

theorem newIdsList_spec (r : Scan) (n : IdInfo) (ids : List IdInfo) (hid : r.ids.map (·.id) = ids.map (·.id))
    (hseq : r.ids.map (·.seq) = ids.map (·.seq)) :
    (newIdsList r n).map (·.id) = ids.map (·.id) ++ [n.id] ∧ pairs (newIdsList r n) = pairs ids ++ [(n.seq, n.id)] := by
  unfold newIdsList
  split
  · have h1 := (retirePendingNew_map_id r.ids).trans hid
    have h2 := (retirePendingNew_map_seq r.ids).trans hseq
    refine ⟨by simp [h1], ?_⟩
    have := pairs_of_maps h1 h2
    simp only [pairs] at this ⊢
    simp [this]
  · refine ⟨by simp [hid], ?_⟩
    have := pairs_of_maps hid hseq
    simp only [pairs] at this ⊢
    simp [this]

theorem registry_pinv0 {s s1 : State} (h : PInv0 s) (newId : Cid) (seq rpt : Nat) (tok : Token)
    (hr : registryOnNewConnectionId s newId seq rpt tok = .ok s1) :
    PInv0 s1 ∧ s1.activeCid = s.activeCid := by
  unfold registryOnNewConnectionId at hr
  split at hr
  · cases hr
  · next r hscan =>
    obtain ⟨hid, hseq, hdup⟩ := scan_spec _ _ _ _ _ hscan
    have hsub : ∀ x ∈ peerPairs s.events, x ∈ peerPairs (s.events ++ [Ev.rxNcid { seq := seq, rpt := rpt, cid := newId, token := tok }]) := by
      intro x hx; rw [peerPairs_append]; exact List.mem_append_left _ hx
    have hret : ∀ q d, Ev.txRetire q d ∈ s.events ++ [Ev.rxNcid { seq := seq, rpt := rpt, cid := newId, token := tok }] →
        ∃ c, (q, c) ∈ peerPairs (s.events ++ [Ev.rxNcid { seq := seq, rpt := rpt, cid := newId, token := tok }]) ∧ d ≠ some c := by
      intro q d hq
      simp only [List.mem_append, List.mem_singleton] at hq
      rcases hq with hq | hq
      · obtain ⟨c, hc, hne⟩ := h.retiresOk q d hq
        exact ⟨c, hsub _ hc, hne⟩
      · cases hq
    split at hr
    · next hnd =>
      have hnd' : r.isDuplicate = false := by simpa using hnd
      split at hr
      · cases hr
      · split at hr
        · cases hr
        · cases hr
          obtain ⟨hl1, hl2⟩ := newIdsList_spec r (newInfo newId seq tok (max s.retirePriorTo rpt)) s.ids hid hseq
          have hnid : (newInfo newId seq tok (max s.retirePriorTo rpt)).id = newId := retireIfReady_id _ _
          have hnseq : (newInfo newId seq tok (max s.retirePriorTo rpt)).seq = seq := retireIfReady_seq _ _
          refine ⟨⟨?_, ?_, hret⟩, rfl⟩
          · simp only [hl1, hnid]
            rw [List.nodup_append]
            refine ⟨h.idsNodup, by simp, ?_⟩
            intro a ha b hb
            simp only [List.mem_singleton] at hb
            subst hb
            simp only [List.mem_map] at ha
            obtain ⟨i, hi, rfl⟩ := ha
            exact hdup hnd' i hi
          · intro x hx
            simp only [hl2, hnid, hnseq, List.mem_append, List.mem_singleton] at hx
            rcases hx with hx | hx
            · exact hsub _ (h.known x hx)
            · subst hx
              rw [peerPairs_append]
              apply List.mem_append_right
              simp [peerPairs]
    · split at hr
      · cases hr
      · cases hr
        refine ⟨⟨by simp only [hid]; exact h.idsNodup, ?_, hret⟩, rfl⟩
        intro x hx
        apply hsub
        apply h.known
        rw [← pairs_of_maps hid hseq]; exact hx


theorem canTransmit_not_active (i : IdInfo) (c : Nat) (h : i.transmissionInterest.canTransmit c = true) :
    i.isActive = false := by
  unfold IdInfo.transmissionInterest at h
  unfold IdInfo.isActive
  split at h
  · next hs => simp [hs]
  · next hs => simp [hs]
  · simp [Interest.canTransmit] at h

/-- what `transmitLoop` does -/
theorem transmitLoop_spec (dcid : Cid) (c pn : Nat) (ids : List IdInfo) (room : Nat) :
    (transmitLoop dcid c pn ids room).1.map (·.id) = ids.map (·.id) ∧
    (transmitLoop dcid c pn ids room).1.map (·.seq) = ids.map (·.seq) ∧
    (∀ j ∈ ids, j.isActive = true → j ∈ (transmitLoop dcid c pn ids room).1) ∧
    (∀ e ∈ (transmitLoop dcid c pn ids room).2, ∃ i ∈ ids, e = Ev.txRetire i.seq (some dcid) ∧ i.isActive = false) := by
  induction ids generalizing room with
  | nil => simp [transmitLoop]
  | cons i rest ih =>
    unfold transmitLoop
    split
    · next hc =>
      have hna := canTransmit_not_active i c hc
      cases room with
      | succ r =>
        obtain ⟨h1, h2, h3, h4⟩ := ih r
        refine ⟨by simp [h1], by simp [h2], ?_, ?_⟩
        · intro j hj hact
          rcases List.mem_cons.mp hj with hj1 | hj1
          · rw [hj1, hna] at hact; cases hact
          · exact List.mem_cons_of_mem _ (h3 j hj1 hact)
        · intro e he
          rcases List.mem_cons.mp he with he1 | he1
          · exact ⟨i, by simp, he1, hna⟩
          · obtain ⟨k, hk, h5⟩ := h4 e he1
            exact ⟨k, List.mem_cons_of_mem _ hk, h5⟩
      | zero =>
        obtain ⟨h1, h2, h3, h4⟩ := ih 0
        refine ⟨by simp [h1], by simp [h2], ?_, ?_⟩
        · intro j hj hact
          rcases List.mem_cons.mp hj with hj1 | hj1
          · rw [hj1]; simp
          · exact List.mem_cons_of_mem _ (h3 j hj1 hact)
        · intro e he
          obtain ⟨k, hk, h5⟩ := h4 e he
          exact ⟨k, List.mem_cons_of_mem _ hk, h5⟩
    · obtain ⟨h1, h2, h3, h4⟩ := ih room
      refine ⟨by simp [h1], by simp [h2], ?_, ?_⟩
      · intro j hj hact
        rcases List.mem_cons.mp hj with hj1 | hj1
        · rw [hj1]; simp
        · exact List.mem_cons_of_mem _ (h3 j hj1 hact)
      · intro e he
        obtain ⟨k, hk, h5⟩ := h4 e he
        exact ⟨k, List.mem_cons_of_mem _ hk, h5⟩

structure PInv (s : State) : Prop where
  base : PInv0 s
  act : HasActive s

theorem pinv_onNewConnectionId {s s' : State} (h : PInv s) (newId : Cid) (seq rpt : Nat) (tok : Token)
    (hr : onNewConnectionId s newId seq rpt tok = .ok s') : PInv s' := by
  unfold onNewConnectionId at hr
  split at hr
  · cases hr
  · next s1 hreg =>
    obtain ⟨h0, hcid⟩ := registry_pinv0 h.base newId seq rpt tok hreg
    split at hr
    · split at hr
      · next c ids hcons =>
        cases hr
        obtain ⟨h1, h2, h3, _⟩ := consumeNew_spec _ hcons
        exact ⟨h0.same_keys h1 h2 rfl, h3⟩
      · cases hr
    · next hact =>
      cases hr
      have : isActive s' s'.activeCid = true := by simpa using hact
      exact ⟨h0, isActive_any this⟩

theorem pinv_onTransmit {s : State} (h : PInv s) (c pn : Nat) (w : Nat) : PInv (onTransmit s c pn w) := by
  unfold onTransmit
  obtain ⟨h1, h2, h3, h4⟩ := transmitLoop_spec s.activeCid c pn s.ids w
  obtain ⟨j, hj, hjc, hja⟩ := h.act
  refine ⟨⟨by simp only [h1]; exact h.base.idsNodup, ?_, ?_⟩, ⟨j, h3 j hj hja, hjc, hja⟩⟩
  · intro x hx
    simp only at hx ⊢
    rw [pairs_of_maps h1 h2] at hx
    rw [peerPairs_append]
    exact List.mem_append_left _ (h.base.known x hx)
  · intro q d hq
    simp only [List.mem_append] at hq
    rcases hq with hq | hq
    · obtain ⟨c', hc', hne⟩ := h.base.retiresOk q d hq
      exact ⟨c', by simp only [peerPairs_append]; exact List.mem_append_left _ hc', hne⟩
    · obtain ⟨i, hi, he, hna⟩ := h4 _ hq
      cases he
      refine ⟨i.id, ?_, ?_⟩
      · simp only [peerPairs_append]
        apply List.mem_append_left
        apply h.base.known
        exact List.mem_map.mpr ⟨i, hi, rfl⟩
      · intro heq
        have hid : j.id = i.id := by
          rw [hjc]; exact Option.some.inj heq
        have := nodup_id_inj s.ids h.base.idsNodup j i hj hi hid
        rw [this, hna] at hja
        cases hja

theorem pinv_onPacketAck {s : State} (h : PInv s) (set : List Nat) : PInv (onPacketAck s set) := by
  unfold onPacketAck
  obtain ⟨j, hj, hjc, hja⟩ := h.act
  refine ⟨⟨h.base.idsNodup.sublist ((List.filter_sublist).map _), ?_, h.base.retiresOk⟩, ⟨j, ?_, hjc, hja⟩⟩
  · intro x hx
    apply h.base.known
    simp only [pairs, List.mem_map, List.mem_filter] at hx ⊢
    obtain ⟨i, ⟨hi, _⟩, rfl⟩ := hx
    exact ⟨i, hi, rfl⟩
  · simp only [List.mem_filter]
    refine ⟨hj, ?_⟩
    unfold IdInfo.isActive at hja
    split <;> simp_all

theorem pinv_onPacketLoss {s : State} (h : PInv s) (set : List Nat) : PInv (onPacketLoss s set) := by
  unfold onPacketLoss
  obtain ⟨j, hj, hjc, hja⟩ := h.act
  have hid : (s.ids.map (fun i => match i.status with
      | .pendingAcknowledgement pn => if set.contains pn then { i with status := Status.pendingRetirementRetransmission } else i
      | _ => i)).map (·.id) = s.ids.map (·.id) := by
    simp only [List.map_map]; apply List.map_congr_left; intro i _
    simp only [Function.comp]; split <;> (try split) <;> rfl
  have hseq : (s.ids.map (fun i => match i.status with
      | .pendingAcknowledgement pn => if set.contains pn then { i with status := Status.pendingRetirementRetransmission } else i
      | _ => i)).map (·.seq) = s.ids.map (·.seq) := by
    simp only [List.map_map]; apply List.map_congr_left; intro i _
    simp only [Function.comp]; split <;> (try split) <;> rfl
  refine ⟨h.base.same_keys hid hseq rfl, ⟨j, ?_, hjc, hja⟩⟩
  simp only [List.mem_map]
  refine ⟨j, hj, ?_⟩
  unfold IdInfo.isActive at hja
  split <;> simp_all

theorem pinv_step {s : State} (h : PInv s) (op : Op) : PInv (step s op) := by
  cases op with
  | onNewConnectionId id seq rpt tok =>
    simp only [step]
    split
    · next s' hs => exact pinv_onNewConnectionId h id seq rpt tok hs
    · exact h
  | onTransmit c pn w => exact pinv_onTransmit h c pn w
  | onPacketAck set => exact pinv_onPacketAck h set
  | onPacketLoss set => exact pinv_onPacketLoss h set
  | updateActivePath c =>
    simp only [step, updateActivePath]
    split
    · next hact => exact ⟨h.base.same_keys rfl rfl rfl, isActive_any hact⟩
    · split
      · next c' ids hcons =>
        obtain ⟨h1, h2, h3, _⟩ := consumeNew_spec _ hcons
        exact ⟨h.base.same_keys h1 h2 rfl, h3⟩
      · exact h
  | consumeForNewPath =>
    simp only [step, consumeForNewPath]
    split
    · next c' ids hcons =>
      obtain ⟨h1, h2, _, h4⟩ := consumeNew_spec _ hcons
      obtain ⟨j, hj, hjc, hja⟩ := h.act
      obtain ⟨j', hj', h5, h6⟩ := h4 j hj hja
      exact ⟨h.base.same_keys h1 h2 rfl, ⟨j', hj', h5.trans hjc, h6⟩⟩
    · exact h

theorem pinv_run {s : State} (h : PInv s) (ops : List Op) : PInv (run s ops) := by
  induction ops generalizing s with
  | nil => exact h
  | cons op ops ih => exact ih (pinv_step h op)

theorem pinv_init (peerId : Cid) (rot : Bool) : PInv (init peerId rot) := by
  refine ⟨⟨by simp [init], ?_, ?_⟩, ⟨_, List.mem_singleton.mpr rfl, rfl, ?_⟩⟩
  · intro x hx
    simp only [init, pairs, List.map_cons, List.map_nil, List.mem_singleton] at hx
    subst hx
    simp [init, peerPairs]
  · intro q d hq
    simp [init] at hq
  · cases rot <;> simp [IdInfo.isActive]

end Quic.Proofs.PeerIds
