import QuicModel.Stream.SendTrace
import QuicModel.Stream.SendTraceSpec
/-
  Helper lemmas for the soundness of the trace acceptor (`accepted_trace_satisfies_C03/C12`):
  the ghost state of the acceptor after the ops `pre` equals the raw folds of `SendTraceSpec`
  over `pre` (`Inv`), every accepted step satisfies the position predicates and preserves `Inv`.
-/
namespace Quic.Proofs.SendTrace
open Quic.Stream.SendTrace Quic.Stream.SendTrace.Spec

/-! ### finite map -/

theorem sget_sset (m : List (Nat × StreamSt)) (k : Nat) (v : StreamSt) (x : Nat) :
    sget (sset m k v) x = if k = x then v else sget m x := by
  induction m with
  | nil => simp [sset, sget]
  | cons p t ih =>
    obtain ⟨k', v'⟩ := p
    simp only [sset]
    by_cases h : k' = k
    · subst h; by_cases hx : k' = x <;> simp [sget, hx]
    · simp only [h, if_false, sget]
      by_cases hx : k' = x
      · subst hx; simp [Ne.symm h]
      · simp [hx, ih]

/-! ### sums over duplicate-free id lists -/

theorem sum_map_congr {l : List Nat} {f g : Nat → Nat} (h : ∀ x ∈ l, f x = g x) :
    (l.map f).sum = (l.map g).sum := by
  induction l with
  | nil => rfl
  | cons a t ih =>
    simp only [List.map_cons, List.sum_cons]
    rw [h a (by simp), ih (fun x hx => h x (by simp [hx]))]

theorem le_sum_of_mem {l : List Nat} {f : Nat → Nat} {x : Nat} (h : x ∈ l) : f x ≤ (l.map f).sum := by
  induction l with
  | nil => cases h
  | cons a t ih =>
    simp only [List.map_cons, List.sum_cons]
    rcases List.mem_cons.mp h with rfl | h'
    · omega
    · have := ih h'; omega

/-- changing `f` at one id of a duplicate-free list changes the sum by exactly that difference -/
theorem sum_update {l : List Nat} (hn : l.Nodup) {f g : Nat → Nat} {k : Nat}
    (hk : k ∈ l) (hg : ∀ x, x ≠ k → g x = f x) :
    (l.map g).sum + f k = (l.map f).sum + g k := by
  induction l with
  | nil => cases hk
  | cons a t ih =>
    simp only [List.map_cons, List.sum_cons]
    have hnd := List.nodup_cons.mp hn
    rcases List.mem_cons.mp hk with rfl | h'
    · have : (t.map g).sum = (t.map f).sum :=
        sum_map_congr (fun x hx => hg x (fun e => hnd.1 (e ▸ hx)))
      omega
    · have hak : a ≠ k := fun e => hnd.1 (e ▸ h')
      have := ih hnd.2 h'
      rw [hg a hak]; omega

/-! ### snoc forms of the raw folds -/

section snoc
variable (pre : List Op) (op : Op)

theorem limMaxData_snoc : limMaxData (pre ++ [op]) =
    (match op with | .tp t => max (limMaxData pre) t.maxData | .rxMaxData v => max (limMaxData pre) v | _ => limMaxData pre) := by
  simp only [limMaxData, List.foldl_append, List.foldl_cons, List.foldl_nil]
  cases op <;> rfl

theorem limStream_snoc (sid : Nat) : limStream (pre ++ [op]) sid =
    (match op with
     | .tp t => max (limStream pre sid) (t.initialLimit sid)
     | .rxMaxStreamData s v => if s = sid then max (limStream pre sid) v else limStream pre sid
     | _ => limStream pre sid) := by
  simp only [limStream, List.foldl_append, List.foldl_cons, List.foldl_nil]
  cases op <;> rfl

theorem limStreams_snoc (b : Bool) : limStreams (pre ++ [op]) b =
    (match op with
     | .tp t => max (limStreams pre b) (t.maxStreams b)
     | .rxMaxStreams b' v => if b' = b then max (limStreams pre b) v else limStreams pre b
     | _ => limStreams pre b) := by
  simp only [limStreams, List.foldl_append, List.foldl_cons, List.foldl_nil]
  cases op <;> rfl

theorem role_snoc : role (pre ++ [op]) =
    (match role pre, op with | none, .tp t => some t.server | r, _ => r) := by
  simp only [role, List.foldl_append, List.foldl_cons, List.foldl_nil]
  cases op <;> rfl

theorem sentEnd_snoc (sid : Nat) : sentEnd (pre ++ [op]) sid =
    (match op with
     | .txStream _ s off len _ _ => if s = sid then max (sentEnd pre sid) (off + len) else sentEnd pre sid
     | .txReset _ s f => if s = sid then max (sentEnd pre sid) f else sentEnd pre sid
     | _ => sentEnd pre sid) := by
  simp only [sentEnd, List.foldl_append, List.foldl_cons, List.foldl_nil]
  cases op <;> rfl

theorem txSids_snoc : txSids (pre ++ [op]) =
    (match op with
     | .txStream _ s _ _ _ _ => if s ∈ txSids pre then txSids pre else txSids pre ++ [s]
     | .txReset _ s _ => if s ∈ txSids pre then txSids pre else txSids pre ++ [s]
     | _ => txSids pre) := by
  simp only [txSids, List.foldl_append, List.foldl_cons, List.foldl_nil]
  cases op <;> rfl

theorem writtenLen_snoc (sid : Nat) : writtenLen (pre ++ [op]) sid =
    (match op with
     | .appWrite s len _ => if s = sid then writtenLen pre sid + len else writtenLen pre sid
     | _ => writtenLen pre sid) := by
  simp only [writtenLen, List.foldl_append, List.foldl_cons, List.foldl_nil]
  cases op <;> rfl

theorem keyOf_snoc (sid : Nat) : keyOf (pre ++ [op]) sid =
    (match keyOf pre sid, op with
     | none, .appWrite s _ key => if s = sid then some key else none
     | k, _ => k) := by
  simp only [keyOf, List.foldl_append, List.foldl_cons, List.foldl_nil]
  cases op <;> rfl

theorem finalOf_snoc (sid : Nat) : finalOf (pre ++ [op]) sid =
    (match finalOf pre sid, op with
     | none, .txStream _ s off len true _ => if s = sid then some (off + len) else none
     | none, .txReset _ s fs => if s = sid then some fs else none
     | f, _ => f) := by
  simp only [finalOf, List.foldl_append, List.foldl_cons, List.foldl_nil]
  cases op <;> rfl

theorem resetSent_snoc (sid : Nat) : resetSent (pre ++ [op]) sid =
    (match op with
     | .txReset _ s _ => resetSent pre sid || decide (s = sid)
     | _ => resetSent pre sid) := by
  simp only [resetSent, List.foldl_append, List.foldl_cons, List.foldl_nil]
  cases op <;> rfl

theorem closePn_snoc : closePn (pre ++ [op]) =
    (match closePn pre, op with | none, .txClose pn => some pn | c, _ => c) := by
  simp only [closePn, List.foldl_append, List.foldl_cons, List.foldl_nil]
  cases op <;> rfl

theorem nClose_snoc : nClose (pre ++ [op]) =
    (match op with | .txClose _ => nClose pre + 1 | _ => nClose pre) := by
  simp only [nClose, List.foldl_append, List.foldl_cons, List.foldl_nil]
  cases op <;> rfl

theorem rxAfterClose_snoc : rxAfterClose (pre ++ [op]) =
    (match op with
     | .txClose _ => (true, (rxAfterClose pre).2)
     | .rxPkt => if (rxAfterClose pre).1 then (true, (rxAfterClose pre).2 + 1) else rxAfterClose pre
     | _ => rxAfterClose pre) := by
  simp only [rxAfterClose, List.foldl_append, List.foldl_cons, List.foldl_nil]
  cases op <;> rfl

theorem nOpened_snoc (b : Bool) : nOpened (pre ++ [op]) b =
    (match op with
     | .appOpen sid => if isBidi sid = b then nOpened pre b + 1 else nOpened pre b
     | _ => nOpened pre b) := by
  simp only [nOpened, List.foldl_append, List.foldl_cons, List.foldl_nil]
  cases op <;> rfl

end snoc

/-! ### connection sum -/

theorem connSum_snoc_same {pre : List Op} {op : Op} (h1 : txSids (pre ++ [op]) = txSids pre)
    (h2 : ∀ sid, sentEnd (pre ++ [op]) sid = sentEnd pre sid) : connSum (pre ++ [op]) = connSum pre := by
  unfold connSum
  rw [h1]
  exact sum_map_congr (fun x _ => h2 x)

theorem sentEnd_le_connSum {pre : List Op} (hz : ∀ sid, sid ∉ txSids pre → sentEnd pre sid = 0) (sid : Nat) :
    sentEnd pre sid ≤ connSum pre := by
  by_cases h : sid ∈ txSids pre
  · exact le_sum_of_mem h
  · rw [hz sid h]; exact Nat.zero_le _

theorem connSum_snoc_tx {pre : List Op} {op : Op} (hn : (txSids pre).Nodup)
    (hz : ∀ sid, sid ∉ txSids pre → sentEnd pre sid = 0) (sid e : Nat)
    (hS : txSids (pre ++ [op]) = if sid ∈ txSids pre then txSids pre else txSids pre ++ [sid])
    (hE : ∀ x, sentEnd (pre ++ [op]) x = if sid = x then max (sentEnd pre x) e else sentEnd pre x) :
    connSum (pre ++ [op]) + sentEnd pre sid = connSum pre + max (sentEnd pre sid) e := by
  unfold connSum
  rw [hS]
  by_cases h : sid ∈ txSids pre
  · simp only [h, if_true]
    have := sum_update hn (f := sentEnd pre) (g := sentEnd (pre ++ [op])) h
      (fun x hx => by rw [hE x]; simp [Ne.symm hx])
    rw [hE sid] at this
    simpa using this
  · simp only [h, if_false, List.map_append, List.sum_append, List.map_cons, List.map_nil, List.sum_cons, List.sum_nil]
    have h0 := hz sid h
    have : ((txSids pre).map (sentEnd (pre ++ [op]))).sum = ((txSids pre).map (sentEnd pre)).sum :=
      sum_map_congr (fun x hx => by rw [hE x]; have : sid ≠ x := fun e => h (e ▸ hx); simp [this])
    rw [this, hE sid, h0]; simp

theorem nodup_snoc_tx {l : List Nat} (hn : l.Nodup) (sid : Nat) :
    (if sid ∈ l then l else l ++ [sid]).Nodup := by
  by_cases h : sid ∈ l
  · simpa [h] using hn
  · simp only [h, if_false]
    rw [List.nodup_append]
    refine ⟨hn, by simp, ?_⟩
    intro a ha b hb
    simp at hb; subst hb
    exact fun e => h (e ▸ ha)


/-! ### the invariant tying the acceptor's ghost state to the raw folds -/

def St.limit (s : St) (sid : Nat) : Nat :=
  max (sget s.streams sid).msd (match s.tp with | some t => t.initialLimit sid | none => 0)

structure Inv (pre : List Op) (s : St) : Prop where
  role : s.tp.map (·.server) = role pre
  maxData : s.maxData = limMaxData pre
  maxStreams : ∀ b, s.maxStreams b = limStreams pre b
  limit : ∀ sid, St.limit s sid = limStream pre sid
  highest : ∀ sid, (sget s.streams sid).highest = sentEnd pre sid
  sum : s.sumHighest = connSum pre
  nodup : (txSids pre).Nodup
  zero : ∀ sid, sid ∉ txSids pre → sentEnd pre sid = 0
  written : ∀ sid, (sget s.streams sid).written = writtenLen pre sid
  key : ∀ sid, (sget s.streams sid).key = keyOf pre sid
  final : ∀ sid, (sget s.streams sid).final = finalOf pre sid
  reset : ∀ sid, (sget s.streams sid).resetSent = resetSent pre sid
  closed : s.closed = closePn pre
  closedRx : (rxAfterClose pre).1 = (closePn pre).isSome
  credit : (closePn pre).isSome → nClose pre + s.credit = 1 + (rxAfterClose pre).2
  notClosed : closePn pre = none → nClose pre = 0 ∧ (rxAfterClose pre).2 = 0
  opened : ∀ b, s.openedCount b = nOpened pre b

theorem inv_init : Inv [] init := by
  constructor <;> simp [init, Spec.role, limMaxData, limStreams, limStream, sentEnd, connSum, txSids, writtenLen,
    keyOf, finalOf, resetSent, closePn, rxAfterClose, nClose, nOpened, St.maxStreams, St.openedCount, St.limit, sget]


/-! ### every accepted step preserves the invariant and satisfies the position predicates -/

/-- close an `Inv` field of the successor state from the corresponding field of the predecessor -/
macro "fld " t:term : tactic =>
  `(tactic| simpa [role_snoc, limMaxData_snoc, limStreams_snoc, limStream_snoc, sentEnd_snoc, txSids_snoc,
      writtenLen_snoc, keyOf_snoc, finalOf_snoc, resetSent_snoc, closePn_snoc, rxAfterClose_snoc, nClose_snoc,
      nOpened_snoc, St.maxStreams, St.limit, St.openedCount, sget_sset] using $t)

/-- same for a per-stream field after the stream `k` was updated: case split on the stream id -/
macro "sfld " k:term ", " x:term ", " t:term : tactic =>
  `(tactic| (by_cases hx : $k = $x <;>
      simp [hx, role_snoc, limMaxData_snoc, limStreams_snoc, limStream_snoc, sentEnd_snoc, txSids_snoc,
      writtenLen_snoc, keyOf_snoc, finalOf_snoc, resetSent_snoc, closePn_snoc, rxAfterClose_snoc, nClose_snoc,
      nOpened_snoc, St.maxStreams, St.limit, St.openedCount, sget_sset] <;> (first | exact $t | simpa [St.limit] using $t | skip)))

macro "sum_same " h:term : tactic =>
  `(tactic| (rw [connSum_snoc_same (by simp [txSids_snoc]) (by intro sid; simp [sentEnd_snoc])]; exact $h))


theorem step_rxMaxData {pre s s'} (v : Nat) (h : Inv pre s) (hs : step s (.rxMaxData v) = .ok s') :
    Inv (pre ++ [.rxMaxData v]) s' := by
  simp only [step, Except.ok.injEq] at hs
  subst hs
  constructor
  · fld h.role
  · simp [limMaxData_snoc, h.maxData]
  · intro b; fld h.maxStreams b
  · intro x; fld h.limit x
  · intro x; fld h.highest x
  · sum_same h.sum
  · fld h.nodup
  · intro x; fld h.zero x
  · intro x; fld h.written x
  · intro x; fld h.key x
  · intro x; fld h.final x
  · intro x; fld h.reset x
  · fld h.closed
  · fld h.closedRx
  · fld h.credit
  · fld h.notClosed
  · intro b; fld h.opened b




theorem step_rxMaxStreamData {pre s s'} (k v : Nat) (h : Inv pre s) (hs : step s (.rxMaxStreamData k v) = .ok s') :
    Inv (pre ++ [.rxMaxStreamData k v]) s' := by
  simp only [step, Except.ok.injEq] at hs
  subst hs
  constructor
  · fld h.role
  · fld h.maxData
  · intro b; fld h.maxStreams b
  · intro x
    have := h.limit x
    by_cases hx : k = x
    · subst hx; simp [limStream_snoc, St.limit, sget_sset] at this ⊢; omega
    · simpa [hx, limStream_snoc, St.limit, sget_sset] using this
  · intro x; sfld k, x, h.highest x
  · rw [connSum_snoc_same (by simp [txSids_snoc]) (by intro sid; simp [sentEnd_snoc])]; exact h.sum
  · fld h.nodup
  · intro x; fld h.zero x
  · intro x; sfld k, x, h.written x
  · intro x; sfld k, x, h.key x
  · intro x; sfld k, x, h.final x
  · intro x; sfld k, x, h.reset x
  · fld h.closed
  · fld h.closedRx
  · fld h.credit
  · fld h.notClosed
  · intro b; fld h.opened b





theorem step_tp {pre s s'} (t : Tp) (h : Inv pre s) (hs : step s (.tp t) = .ok s') :
    Inv (pre ++ [.tp t]) s' := by
  simp only [step] at hs
  split at hs
  · cases hs
  · rename_i hn
    simp only [Except.ok.injEq] at hs
    subst hs
    have htp : s.tp = none := by cases hh : s.tp <;> simp_all
    have hr : role pre = none := by have := h.role; simpa [htp] using this.symm
    constructor
    · simp [role_snoc, hr]
    · simp [limMaxData_snoc, h.maxData]
    · intro b
      have := h.maxStreams b
      cases b <;> simp [limStreams_snoc, St.maxStreams, Tp.maxStreams] at this ⊢ <;> omega
    · intro x
      have := h.limit x
      simp [limStream_snoc, St.limit, htp] at this ⊢; omega
    · intro x; fld h.highest x
    · sum_same h.sum
    · fld h.nodup
    · intro x; fld h.zero x
    · intro x; fld h.written x
    · intro x; fld h.key x
    · intro x; fld h.final x
    · intro x; fld h.reset x
    · fld h.closed
    · fld h.closedRx
    · fld h.credit
    · fld h.notClosed
    · intro b; fld h.opened b

theorem step_rxMaxStreams {pre s s'} (bd : Bool) (v : Nat) (h : Inv pre s) (hs : step s (.rxMaxStreams bd v) = .ok s') :
    Inv (pre ++ [.rxMaxStreams bd v]) s' := by
  simp only [step, Except.ok.injEq] at hs
  subst hs
  constructor
  · cases bd <;> fld h.role
  · cases bd <;> fld h.maxData
  · intro b
    have := h.maxStreams b
    cases bd <;> cases b <;> simp [limStreams_snoc, St.maxStreams] at this ⊢ <;> omega
  · intro x; cases bd <;> fld h.limit x
  · intro x; cases bd <;> fld h.highest x
  · rw [connSum_snoc_same (by simp [txSids_snoc]) (by intro sid; simp [sentEnd_snoc])]; cases bd <;> exact h.sum
  · fld h.nodup
  · intro x; fld h.zero x
  · intro x; cases bd <;> fld h.written x
  · intro x; cases bd <;> fld h.key x
  · intro x; cases bd <;> fld h.final x
  · intro x; cases bd <;> fld h.reset x
  · cases bd <;> fld h.closed
  · fld h.closedRx
  · cases bd <;> fld h.credit
  · fld h.notClosed
  · intro b; cases bd <;> fld h.opened b

/-- ops that only set a per-stream flag the raw folds do not look at -/
theorem inv_flag {pre s} (op : Op) (k : Nat) (st' : StreamSt) (h : Inv pre s)
    (hop : match op with | .rxStopSending _ => True | .appFinish _ => True | .appReset _ => True | _ => False)
    (e1 : st'.msd = (sget s.streams k).msd) (e2 : st'.highest = (sget s.streams k).highest)
    (e3 : st'.written = (sget s.streams k).written) (e4 : st'.key = (sget s.streams k).key)
    (e5 : st'.final = (sget s.streams k).final) (e6 : st'.resetSent = (sget s.streams k).resetSent) :
    Inv (pre ++ [op]) { s with streams := sset s.streams k st' } := by
  cases op <;> simp at hop <;>
  · constructor
    · fld h.role
    · fld h.maxData
    · intro b; fld h.maxStreams b
    · intro x; have := h.limit x; by_cases hx : k = x
      · subst hx; simp [limStream_snoc, St.limit, sget_sset, e1] at this ⊢; exact this
      · simpa [hx, limStream_snoc, St.limit, sget_sset] using this
    · intro x; have := h.highest x; by_cases hx : k = x
      · subst hx; simp [sentEnd_snoc, sget_sset, e2] at this ⊢; exact this
      · simpa [hx, sentEnd_snoc, sget_sset] using this
    · sum_same h.sum
    · fld h.nodup
    · intro x; fld h.zero x
    · intro x; have := h.written x; by_cases hx : k = x
      · subst hx; simp [writtenLen_snoc, sget_sset, e3] at this ⊢; exact this
      · simpa [hx, writtenLen_snoc, sget_sset] using this
    · intro x; have := h.key x; by_cases hx : k = x
      · subst hx; simp [keyOf_snoc, sget_sset, e4] at this ⊢; exact this
      · simpa [hx, keyOf_snoc, sget_sset] using this
    · intro x; have := h.final x; by_cases hx : k = x
      · subst hx; simp [finalOf_snoc, sget_sset, e5] at this ⊢; exact this
      · simpa [hx, finalOf_snoc, sget_sset] using this
    · intro x; have := h.reset x; by_cases hx : k = x
      · subst hx; simp [resetSent_snoc, sget_sset, e6] at this ⊢; exact this
      · simpa [hx, resetSent_snoc, sget_sset] using this
    · fld h.closed
    · fld h.closedRx
    · fld h.credit
    · fld h.notClosed
    · intro b; fld h.opened b






theorem step_appWrite {pre s s'} (k len key : Nat) (h : Inv pre s) (hs : step s (.appWrite k len key) = .ok s') :
    Inv (pre ++ [.appWrite k len key]) s' := by
  simp only [step] at hs
  split at hs; · cases hs
  split at hs; · cases hs
  split at hs; · cases hs
  rename_i hk
  simp only [Except.ok.injEq] at hs
  subst hs
  constructor
  · fld h.role
  · fld h.maxData
  · intro b; fld h.maxStreams b
  · intro x; sfld k, x, h.limit x
  · intro x; sfld k, x, h.highest x
  · sum_same h.sum
  · fld h.nodup
  · intro x; fld h.zero x
  · intro x; sfld k, x, h.written x
  · intro x
    have := h.key x
    by_cases hx : k = x
    · subst hx
      simp only [keyOf_snoc, sget_sset, if_true]
      rw [← this]
      cases hkk : (sget s.streams k).key with
      | none => simp
      | some k0 => simp [optNe, hkk] at hk; simp [hk]
    · simp only [keyOf_snoc, sget_sset, hx, if_false]
      rw [← this]; cases (sget s.streams x).key <;> simp [hx]
  · intro x; sfld k, x, h.final x
  · intro x; sfld k, x, h.reset x
  · fld h.closed
  · fld h.closedRx
  · fld h.credit
  · fld h.notClosed
  · intro b; fld h.opened b

theorem step_appOpen {pre s s'} (k : Nat) (h : Inv pre s) (hs : step s (.appOpen k) = .ok s') :
    C03At pre (.appOpen k) ∧ C12At pre (.appOpen k) ∧ Inv (pre ++ [.appOpen k]) s' := by
  simp only [step] at hs
  split at hs; · cases hs
  rename_i t htp
  unfold stepAppOpen at hs
  split at hs; · cases hs
  rename_i hloc
  split at hs; · cases hs
  rename_i hidx
  split at hs; · cases hs
  rename_i hmax
  have hs : (if isBidi k = true then
      { s with streams := sset s.streams k { (sget s.streams k) with opened := true }, openedBidi := s.openedBidi + 1 }
    else { s with streams := sset s.streams k { (sget s.streams k) with opened := true }, openedUni := s.openedUni + 1 }) = s' := by
    split at hs <;> simp_all
  have hrole : role pre = some t.server := by have := h.role; simpa [htp] using this.symm
  have hms := h.maxStreams (isBidi k)
  have hop := h.opened (isBidi k)
  refine ⟨?_, ?_, ?_⟩
  · simp only [C03At]; omega
  · simp only [C12At]; intro srv hsrv
    rw [hrole] at hsrv; cases hsrv
    refine ⟨by simpa using hloc, ?_⟩
    simp at hidx; omega
  · subst hs
    constructor
    · cases hb : isBidi k <;> fld h.role
    · cases hb : isBidi k <;> fld h.maxData
    · intro b; cases hb : isBidi k <;> fld h.maxStreams b
    · intro x
      have := h.limit x
      cases hb : isBidi k <;>
      · by_cases hx : k = x
        · subst hx; simpa [limStream_snoc, St.limit, sget_sset] using this
        · simpa [hx, limStream_snoc, St.limit, sget_sset] using this
    · intro x
      have := h.highest x
      cases hb : isBidi k <;>
      · by_cases hx : k = x
        · subst hx; simpa [sentEnd_snoc, sget_sset] using this
        · simpa [hx, sentEnd_snoc, sget_sset] using this
    · rw [connSum_snoc_same (by simp [txSids_snoc]) (by intro sid; simp [sentEnd_snoc])]
      cases hb : isBidi k <;> exact h.sum
    · fld h.nodup
    · intro x; fld h.zero x
    · intro x
      have := h.written x
      cases hb : isBidi k <;>
      · by_cases hx : k = x
        · subst hx; simpa [writtenLen_snoc, sget_sset] using this
        · simpa [hx, writtenLen_snoc, sget_sset] using this
    · intro x
      have := h.key x
      cases hb : isBidi k <;>
      · by_cases hx : k = x
        · subst hx; simpa [keyOf_snoc, sget_sset] using this
        · simpa [hx, keyOf_snoc, sget_sset] using this
    · intro x
      have := h.final x
      cases hb : isBidi k <;>
      · by_cases hx : k = x
        · subst hx; simpa [finalOf_snoc, sget_sset] using this
        · simpa [hx, finalOf_snoc, sget_sset] using this
    · intro x
      have := h.reset x
      cases hb : isBidi k <;>
      · by_cases hx : k = x
        · subst hx; simpa [resetSent_snoc, sget_sset] using this
        · simpa [hx, resetSent_snoc, sget_sset] using this
    · cases hb : isBidi k <;> fld h.closed
    · fld h.closedRx
    · cases hb : isBidi k <;> fld h.credit
    · fld h.notClosed
    · intro b
      have := h.opened b
      cases hb : isBidi k <;> cases b <;> simp [nOpened_snoc, St.openedCount, hb] at this ⊢ <;> omega





theorem step_txClose {pre s s'} (pn : Nat) (h : Inv pre s) (hs : step s (.txClose pn) = .ok s') :
    C12At pre (.txClose pn) ∧ Inv (pre ++ [.txClose pn]) s' := by
  simp only [step] at hs
  have hc := h.closed
  split at hs
  · rename_i hcl
    simp only [Except.ok.injEq] at hs
    subst hs
    have hcp : closePn pre = none := by rw [← hc]; exact hcl
    have hn0 := h.notClosed hcp
    have hrx := h.closedRx
    refine ⟨by simp [C12At, hcp], ?_⟩
    constructor
    · fld h.role
    · fld h.maxData
    · intro b; fld h.maxStreams b
    · intro x; fld h.limit x
    · intro x; fld h.highest x
    · sum_same h.sum
    · fld h.nodup
    · intro x; fld h.zero x
    · intro x; fld h.written x
    · intro x; fld h.key x
    · intro x; fld h.final x
    · intro x; fld h.reset x
    · simp [closePn_snoc, hcp]
    · simp [closePn_snoc, rxAfterClose_snoc, hcp]
    · intro _
      simp [nClose_snoc, rxAfterClose_snoc, hn0.1, hn0.2]
    · simp [closePn_snoc, hcp]
    · intro b; fld h.opened b
  · rename_i p hcl
    split at hs; · cases hs
    rename_i hp
    split at hs; · cases hs
    rename_i hcr
    simp only [Except.ok.injEq] at hs
    subst hs
    have hcp : closePn pre = some p := by rw [← hc]; exact hcl
    have hcred := h.credit (by simp [hcp])
    refine ⟨?_, ?_⟩
    · simp only [C12At]; intro p' hp'
      rw [hcp] at hp'; cases hp'
      refine ⟨(by simpa using hp : p = pn).symm, ?_⟩
      omega
    · constructor
      · fld h.role
      · fld h.maxData
      · intro b; fld h.maxStreams b
      · intro x; fld h.limit x
      · intro x; fld h.highest x
      · sum_same h.sum
      · fld h.nodup
      · intro x; fld h.zero x
      · intro x; fld h.written x
      · intro x; fld h.key x
      · intro x; fld h.final x
      · intro x; fld h.reset x
      · simp [closePn_snoc, hcp, hcl]
      · have := h.closedRx; simp [closePn_snoc, rxAfterClose_snoc, hcp]
      · intro _
        simp [nClose_snoc, rxAfterClose_snoc]; omega
      · simp [closePn_snoc, hcp]
      · intro b; fld h.opened b





/-- an op the raw folds ignore leaves `Inv` untouched when the state is unchanged -/
theorem inv_ignored {pre s} (op : Op) (h : Inv pre s)
    (hop : match op with | .txOther _ => True | .txBlocked _ _ _ => True | _ => False) :
    Inv (pre ++ [op]) s := by
  cases op <;> simp at hop
  case txOther pn =>
    constructor
    · fld h.role
    · fld h.maxData
    · intro b; fld h.maxStreams b
    · intro x; fld h.limit x
    · intro x; fld h.highest x
    · sum_same h.sum
    · fld h.nodup
    · intro x; fld h.zero x
    · intro x; fld h.written x
    · intro x; fld h.key x
    · intro x; fld h.final x
    · intro x; fld h.reset x
    · fld h.closed
    · fld h.closedRx
    · fld h.credit
    · fld h.notClosed
    · intro b; fld h.opened b
  case txBlocked pn sid l =>
    constructor
    · fld h.role
    · fld h.maxData
    · intro b; fld h.maxStreams b
    · intro x; fld h.limit x
    · intro x; fld h.highest x
    · sum_same h.sum
    · fld h.nodup
    · intro x; fld h.zero x
    · intro x; fld h.written x
    · intro x; fld h.key x
    · intro x; fld h.final x
    · intro x; fld h.reset x
    · fld h.closed
    · fld h.closedRx
    · fld h.credit
    · fld h.notClosed
    · intro b; fld h.opened b

theorem step_rxPkt {pre s s'} (h : Inv pre s) (hs : step s .rxPkt = .ok s') :
    Inv (pre ++ [.rxPkt]) s' := by
  simp only [step, Except.ok.injEq] at hs
  subst hs
  have hc := h.closed
  have hrx := h.closedRx
  cases hcl : s.closed with
  | none =>
    have hcp : closePn pre = none := by rw [← hc]; exact hcl
    have hr1 : (rxAfterClose pre).1 = false := by rw [hrx, hcp]; rfl
    simp only [Option.isSome_none, Bool.false_eq_true, if_false]
    constructor
    · fld h.role
    · fld h.maxData
    · intro b; fld h.maxStreams b
    · intro x; fld h.limit x
    · intro x; fld h.highest x
    · sum_same h.sum
    · fld h.nodup
    · intro x; fld h.zero x
    · intro x; fld h.written x
    · intro x; fld h.key x
    · intro x; fld h.final x
    · intro x; fld h.reset x
    · fld h.closed
    · simp [closePn_snoc, rxAfterClose_snoc, hr1, hcp]
    · simp [closePn_snoc, hcp]
    · have := h.notClosed; simpa [closePn_snoc, nClose_snoc, rxAfterClose_snoc, hr1] using this
    · intro b; fld h.opened b
  | some p =>
    have hcp : closePn pre = some p := by rw [← hc]; exact hcl
    have hr1 : (rxAfterClose pre).1 = true := by rw [hrx, hcp]; rfl
    have hcred := h.credit (by simp [hcp])
    simp only [Option.isSome_some, if_true]
    constructor
    · fld h.role
    · fld h.maxData
    · intro b; fld h.maxStreams b
    · intro x; fld h.limit x
    · intro x; fld h.highest x
    · sum_same h.sum
    · fld h.nodup
    · intro x; fld h.zero x
    · intro x; fld h.written x
    · intro x; fld h.key x
    · intro x; fld h.final x
    · intro x; fld h.reset x
    · simp [closePn_snoc, hcp]
    · simp [closePn_snoc, rxAfterClose_snoc, hr1, hcp]
    · intro _; simp [nClose_snoc, rxAfterClose_snoc, hr1]; omega
    · simp [closePn_snoc, hcp]
    · intro b; fld h.opened b




/-- a STREAM / RESET_STREAM frame on `sid` with end offset `e`: the successor state (given
    extensionally) satisfies `Inv` -/
theorem inv_tx {pre s s'} (op : Op) (sid e : Nat) (st' : StreamSt) (h : Inv pre s)
    (hop : (∃ pn off len fin dg, op = .txStream pn sid off len fin dg ∧ e = off + len) ∨ (∃ pn, op = .txReset pn sid e))
    (htp : s'.tp = s.tp) (hmaxd : s'.maxData = s.maxData) (hmsb : s'.maxStreamsBidi = s.maxStreamsBidi)
    (hmsu : s'.maxStreamsUni = s.maxStreamsUni) (hob : s'.openedBidi = s.openedBidi) (hou : s'.openedUni = s.openedUni)
    (hclosed : s'.closed = s.closed) (hcredit : s'.credit = s.credit)
    (hget : ∀ x, sget s'.streams x = if sid = x then st' else sget s.streams x)
    (hsum : s'.sumHighest = s.sumHighest - (sget s.streams sid).highest + st'.highest)
    (h1 : st'.msd = (sget s.streams sid).msd) (h2 : st'.highest = max (sget s.streams sid).highest e)
    (h3 : st'.written = (sget s.streams sid).written) (h4 : st'.key = (sget s.streams sid).key)
    (h5 : st'.final = finalOf (pre ++ [op]) sid) (h6 : st'.resetSent = resetSent (pre ++ [op]) sid) :
    Inv (pre ++ [op]) s' := by
  have hS : txSids (pre ++ [op]) = if sid ∈ txSids pre then txSids pre else txSids pre ++ [sid] := by
    rcases hop with ⟨pn, off, len, fin, dg, rfl, _⟩ | ⟨pn, rfl⟩ <;> simp [txSids_snoc]
  have hE : ∀ x, sentEnd (pre ++ [op]) x = if sid = x then max (sentEnd pre x) e else sentEnd pre x := by
    intro x
    rcases hop with ⟨pn, off, len, fin, dg, rfl, rfl⟩ | ⟨pn, rfl⟩ <;> simp [sentEnd_snoc]
  have hhi := h.highest sid
  constructor
  · rw [htp]; rcases hop with ⟨pn, off, len, fin, dg, rfl, _⟩ | ⟨pn, rfl⟩ <;> fld h.role
  · rw [hmaxd]; rcases hop with ⟨pn, off, len, fin, dg, rfl, _⟩ | ⟨pn, rfl⟩ <;> fld h.maxData
  · intro b
    have := h.maxStreams b
    simp only [St.maxStreams, hmsb, hmsu] at this ⊢
    rcases hop with ⟨pn, off, len, fin, dg, rfl, _⟩ | ⟨pn, rfl⟩ <;> simpa [limStreams_snoc] using this
  · intro x
    have := h.limit x
    simp only [St.limit, htp, hget] at this ⊢
    have hm : (if sid = x then st' else sget s.streams x).msd = (sget s.streams x).msd := by
      by_cases hx : sid = x
      · subst hx; simp [h1]
      · simp [hx]
    rw [hm]
    rcases hop with ⟨pn, off, len, fin, dg, rfl, _⟩ | ⟨pn, rfl⟩ <;> simpa [limStream_snoc] using this
  · intro x
    rw [hget, hE x]
    by_cases hx : sid = x
    · subst hx; simp [h2, hhi]
    · simpa [hx] using h.highest x
  · have hc := connSum_snoc_tx h.nodup h.zero sid e hS hE
    have hle := sentEnd_le_connSum h.zero sid
    rw [hsum, h2, hhi, h.sum]; omega
  · rw [hS]; exact nodup_snoc_tx h.nodup sid
  · intro x hx
    rw [hS] at hx
    have hne : sid ≠ x := by
      intro e'; subst e'
      by_cases hm : sid ∈ txSids pre <;> simp [hm] at hx
    have hx' : x ∉ txSids pre := by
      by_cases hm : sid ∈ txSids pre
      · simpa [hm] using hx
      · simp [hm] at hx; exact hx.1
    rw [hE x]; simp [hne, h.zero x hx']
  · intro x
    rw [hget]
    have : writtenLen (pre ++ [op]) x = writtenLen pre x := by
      rcases hop with ⟨pn, off, len, fin, dg, rfl, _⟩ | ⟨pn, rfl⟩ <;> simp [writtenLen_snoc]
    rw [this]
    by_cases hx : sid = x
    · subst hx; simp [h3, h.written]
    · simpa [hx] using h.written x
  · intro x
    rw [hget]
    have : keyOf (pre ++ [op]) x = keyOf pre x := by
      rcases hop with ⟨pn, off, len, fin, dg, rfl, _⟩ | ⟨pn, rfl⟩ <;> simp [keyOf_snoc] <;> cases keyOf pre x <;> rfl
    rw [this]
    by_cases hx : sid = x
    · subst hx; simp [h4, h.key]
    · simpa [hx] using h.key x
  · intro x
    rw [hget]
    by_cases hx : sid = x
    · subst hx; simp [h5]
    · simp only [hx, if_false]
      rw [h.final x]
      rcases hop with ⟨pn, off, len, fin, dg, rfl, _⟩ | ⟨pn, rfl⟩
      · simp only [finalOf_snoc]
        cases finalOf pre x <;> cases fin <;> simp [hx]
      · simp only [finalOf_snoc]
        cases finalOf pre x <;> simp [hx]
  · intro x
    rw [hget]
    by_cases hx : sid = x
    · subst hx; simp [h6]
    · simp only [hx, if_false]
      rw [h.reset x]
      rcases hop with ⟨pn, off, len, fin, dg, rfl, _⟩ | ⟨pn, rfl⟩ <;> simp [resetSent_snoc, hx]
  · rw [hclosed]; rcases hop with ⟨pn, off, len, fin, dg, rfl, _⟩ | ⟨pn, rfl⟩ <;> fld h.closed
  · rcases hop with ⟨pn, off, len, fin, dg, rfl, _⟩ | ⟨pn, rfl⟩ <;> fld h.closedRx
  · rw [hcredit]; rcases hop with ⟨pn, off, len, fin, dg, rfl, _⟩ | ⟨pn, rfl⟩ <;> fld h.credit
  · rcases hop with ⟨pn, off, len, fin, dg, rfl, _⟩ | ⟨pn, rfl⟩ <;> fld h.notClosed
  · intro b
    have := h.opened b
    simp only [St.openedCount, hob, hou] at this ⊢
    rcases hop with ⟨pn, off, len, fin, dg, rfl, _⟩ | ⟨pn, rfl⟩ <;> simpa [nOpened_snoc] using this


theorem usable_local {s : St} {t : Tp} {st : StreamSt} {sid : Nat} (hu : streamUsable s t st sid = .ok ())
    (hl : isLocal t.server sid = true) : sid / 4 + 1 ≤ s.maxStreams (isBidi sid) := by
  simp only [streamUsable, hl, if_true] at hu
  split at hu; · cases hu
  split at hu
  · assumption
  · cases hu


theorem txStreamData_ok {t : Tp} {st : StreamSt} {sid off len : Nat} {fin : Bool} {dg : Nat}
    (h : txStreamData t st sid off len fin dg = .ok ()) :
    off + len ≤ st.written ∧ (0 < len → ∃ k, st.key = some k ∧ dg = digest k off len) := by
  unfold txStreamData at h
  by_cases h1 : len = 0 ∧ fin = false ∧ ¬ (off = 0 ∧ isLocal t.server sid = true ∧ isBidi sid = true)
  · rw [if_pos h1] at h; cases h
  rw [if_neg h1] at h
  by_cases h2 : st.written < off + len
  · rw [if_pos h2] at h; cases h
  rw [if_neg h2] at h
  by_cases h3 : len > 0 ∧ digestMismatch st.key off len dg = true
  · rw [if_pos h3] at h; cases h
  refine ⟨by omega, ?_⟩
  intro hpos
  cases hkk : st.key with
  | none => simp [hkk, digestMismatch] at h3; omega
  | some k => simp [hkk, digestMismatch] at h3; exact ⟨k, rfl, h3 (by omega)⟩

theorem txLimits_ok {s : St} {t : Tp} {st : StreamSt} {sid e : Nat} (h : txLimits s t st sid e = .ok ()) :
    e ≤ streamLimit t st sid ∧ s.sumHighest - st.highest + max st.highest e ≤ s.maxData := by
  unfold txLimits at h
  split at h; · cases h
  split at h; · cases h
  omega

theorem txStreamFinal_ok {st : StreamSt} {e : Nat} {fin : Bool} (h : txStreamFinal st e fin = .ok ()) :
    (∀ f, st.final = some f → e ≤ f ∧ (fin = true → e = f)) ∧ (fin = true → st.highest ≤ e) := by
  unfold txStreamFinal at h
  split at h; · cases h
  rename_i hlt
  have h1 : ∀ f, st.final = some f → e ≤ f := by
    intro f hf; simp [optLt, hf] at hlt; omega
  split at h
  · split at h; · cases h
    split at h; · cases h
    split at h; · cases h
    rename_i hne
    split at h; · cases h
    refine ⟨fun f hf => ⟨h1 f hf, fun _ => ?_⟩, fun _ => by omega⟩
    simp [optNe, hf] at hne; omega
  · rename_i hfin
    refine ⟨fun f hf => ⟨h1 f hf, fun hc => absurd hc hfin⟩, fun hc => absurd hc hfin⟩

theorem txResetFinal_ok {st : StreamSt} {final : Nat} (h : txResetFinal st final = .ok ()) :
    (∀ f, st.final = some f → final = f) ∧ st.highest ≤ final := by
  unfold txResetFinal at h
  split at h; · cases h
  split at h; · cases h
  rename_i hne
  split at h; · cases h
  split at h; · cases h
  refine ⟨fun f hf => ?_, by omega⟩
  simp [optNe, hf] at hne; omega


theorem step_txReset {pre s s'} (pn sid final : Nat) (h : Inv pre s)
    (hs : step s (.txReset pn sid final) = .ok s') :
    C03At pre (.txReset pn sid final) ∧ C12At pre (.txReset pn sid final) ∧
      Inv (pre ++ [.txReset pn sid final]) s' := by
  simp only [step] at hs
  split at hs; · cases hs
  rename_i t htp
  have hrole : role pre = some t.server := by have := h.role; simpa [htp] using this.symm
  unfold stepTxReset at hs
  split at hs; · cases hs
  rename_i hcl
  split at hs; · cases hs
  rename_i hu
  split at hs; · cases hs
  rename_i hfinal
  split at hs; · cases hs
  rename_i hlimits
  simp only [Except.ok.injEq] at hs
  have ⟨hsl, hconn⟩ := txLimits_ok hlimits
  have ⟨hfs, hge⟩ := txResetFinal_ok hfinal
  have hcp : closePn pre = none := by
    rw [← h.closed]; cases hh : s.closed <;> simp_all
  have hL := h.limit sid
  have hlim : St.limit s sid = streamLimit t (sget s.streams sid) sid := by simp [St.limit, htp, streamLimit]
  have hF := h.final sid
  have hH := h.highest sid
  have hMS := h.maxStreams (isBidi sid)
  have hstreams : ∀ srv, role pre = some srv → isLocal srv sid = true → sid / 4 + 1 ≤ limStreams pre (isBidi sid) := by
    intro srv hsrv hloc
    rw [hrole] at hsrv; cases hsrv
    have := usable_local hu hloc; omega
  have hinv : Inv (pre ++ [.txReset pn sid final]) s' := by
    apply inv_tx (.txReset pn sid final) sid final
      { (sget s.streams sid) with highest := max (sget s.streams sid).highest final, final := some final, resetSent := true }
      h (Or.inr ⟨pn, rfl⟩)
      (hget := fun x => by rw [← hs]; simp [sget_sset]) <;> (try subst hs) <;> (try rfl)
    · simp only [finalOf_snoc, ← hF]
      cases hff : (sget s.streams sid).final with
      | none => simp
      | some f => simp; exact hfs f hff
    · simp [resetSent_snoc]
  have hsum : connSum (pre ++ [.txReset pn sid final]) ≤ limMaxData pre := by
    rw [← hinv.sum, ← h.maxData, ← hs]; exact hconn
  refine ⟨⟨by omega, hsum, hstreams⟩, ⟨hcp, ?_, ?_⟩, hinv⟩
  · rw [← hF]; exact hfs
  · rw [← hH]; exact hge

theorem step_txBlocked {pre s s'} (pn sid limit : Nat) (h : Inv pre s)
    (hs : step s (.txBlocked pn sid limit) = .ok s') :
    C12At pre (.txBlocked pn sid limit) ∧ s' = s := by
  simp only [step] at hs
  split at hs; · cases hs
  rename_i t htp
  unfold stepTxBlocked at hs
  split at hs; · cases hs
  rename_i hcl
  split at hs; · cases hs
  rename_i hrs
  split at hs; · cases hs
  split at hs; · cases hs
  split at hs; · cases hs
  simp only [Except.ok.injEq] at hs
  have hcp : closePn pre = none := by
    rw [← h.closed]; cases hh : s.closed <;> simp_all
  have hres : resetSent pre sid = false := by rw [← h.reset sid]; simpa using hrs
  exact ⟨⟨hcp, hres⟩, hs.symm⟩

theorem step_txOther {pre s s'} (pn : Nat) (h : Inv pre s) (hs : step s (.txOther pn) = .ok s') :
    C12At pre (.txOther pn) ∧ s' = s := by
  simp only [step] at hs
  split at hs; · cases hs
  rename_i hcl
  simp only [Except.ok.injEq] at hs
  have hcp : closePn pre = none := by
    rw [← h.closed]; cases hh : s.closed <;> simp_all
  exact ⟨hcp, hs.symm⟩


theorem step_txStream {pre s s'} (pn sid off len : Nat) (fin : Bool) (dg : Nat) (h : Inv pre s)
    (hs : step s (.txStream pn sid off len fin dg) = .ok s') :
    C03At pre (.txStream pn sid off len fin dg) ∧ C12At pre (.txStream pn sid off len fin dg) ∧
      Inv (pre ++ [.txStream pn sid off len fin dg]) s' := by
  simp only [step] at hs
  split at hs; · cases hs
  rename_i t htp
  have hrole : role pre = some t.server := by have := h.role; simpa [htp] using this.symm
  unfold stepTxStream at hs
  split at hs; · cases hs
  rename_i hcl
  split at hs; · split at hs <;> cases hs
  rename_i hrs
  split at hs; · cases hs
  rename_i hu
  split at hs; · cases hs
  rename_i hdata
  split at hs; · cases hs
  rename_i hlimits
  split at hs; · cases hs
  rename_i hfinal
  simp only [Except.ok.injEq] at hs
  have ⟨hwr, hkey⟩ := txStreamData_ok hdata
  have ⟨hsl, hconn⟩ := txLimits_ok hlimits
  have ⟨hfs, hge⟩ := txStreamFinal_ok hfinal
  have hcp : closePn pre = none := by
    rw [← h.closed]; cases hh : s.closed <;> simp_all
  have hres : resetSent pre sid = false := by rw [← h.reset sid]; simpa using hrs
  have hL := h.limit sid
  have hlim : St.limit s sid = streamLimit t (sget s.streams sid) sid := by simp [St.limit, htp, streamLimit]
  have hW := h.written sid
  have hK := h.key sid
  have hF := h.final sid
  have hH := h.highest sid
  have hMS := h.maxStreams (isBidi sid)
  have hstreams : ∀ srv, role pre = some srv → isLocal srv sid = true → sid / 4 + 1 ≤ limStreams pre (isBidi sid) := by
    intro srv hsrv hloc
    rw [hrole] at hsrv; cases hsrv
    have := usable_local hu hloc; omega
  have hinv : Inv (pre ++ [.txStream pn sid off len fin dg]) s' := by
    apply inv_tx (.txStream pn sid off len fin dg) sid (off + len)
      { (sget s.streams sid) with highest := max (sget s.streams sid).highest (off + len),
                                  final := if fin then some (off + len) else (sget s.streams sid).final }
      h (Or.inl ⟨pn, off, len, fin, dg, rfl, rfl⟩)
      (hget := fun x => by rw [← hs]; simp [sget_sset]) <;> (try subst hs) <;> (try rfl)
    · simp only [finalOf_snoc, ← hF]
      cases hff : (sget s.streams sid).final with
      | none => cases fin <;> simp
      | some f => cases fin <;> simp; exact ((hfs f hff).2 rfl).symm ▸ rfl
    · rw [resetSent_snoc]; simpa using h.reset sid
  have hsum : connSum (pre ++ [.txStream pn sid off len fin dg]) ≤ limMaxData pre := by
    rw [← hinv.sum, ← h.maxData, ← hs]; exact hconn
  refine ⟨⟨by omega, hsum, hstreams⟩, ⟨hcp, hres, by omega, ?_, ?_, ?_⟩, hinv⟩
  · rw [← hK]; exact hkey
  · rw [← hF]; exact hfs
  · rw [← hH]; exact hge


/-- one accepted step: the property predicates hold at this position and the invariant is kept -/
theorem step_sound {pre : List Op} {s s' : St} (op : Op) (h : Inv pre s) (hs : step s op = .ok s') :
    C03At pre op ∧ C12At pre op ∧ Inv (pre ++ [op]) s' := by
  cases op with
  | tp t => exact ⟨trivial, trivial, step_tp t h hs⟩
  | rxMaxData v => exact ⟨trivial, trivial, step_rxMaxData v h hs⟩
  | rxMaxStreamData k v => exact ⟨trivial, trivial, step_rxMaxStreamData k v h hs⟩
  | rxMaxStreams b v => exact ⟨trivial, trivial, step_rxMaxStreams b v h hs⟩
  | rxStopSending k =>
    simp only [step, Except.ok.injEq] at hs; subst hs
    exact ⟨trivial, trivial, inv_flag (.rxStopSending k) k _ h trivial rfl rfl rfl rfl rfl rfl⟩
  | appOpen k => exact step_appOpen k h hs
  | appWrite k len key => exact ⟨trivial, trivial, step_appWrite k len key h hs⟩
  | appFinish k =>
    simp only [step, Except.ok.injEq] at hs; subst hs
    exact ⟨trivial, trivial, inv_flag (.appFinish k) k _ h trivial rfl rfl rfl rfl rfl rfl⟩
  | appReset k =>
    simp only [step, Except.ok.injEq] at hs; subst hs
    exact ⟨trivial, trivial, inv_flag (.appReset k) k _ h trivial rfl rfl rfl rfl rfl rfl⟩
  | txStream pn sid off len fin dg => exact step_txStream pn sid off len fin dg h hs
  | txReset pn sid final => exact step_txReset pn sid final h hs
  | txBlocked pn sid limit =>
    have ⟨h12, he⟩ := step_txBlocked pn sid limit h hs
    subst he
    exact ⟨trivial, h12, inv_ignored (.txBlocked pn sid limit) h trivial⟩
  | txClose pn =>
    have ⟨h12, hi⟩ := step_txClose pn h hs
    exact ⟨trivial, h12, hi⟩
  | txOther pn =>
    have ⟨h12, he⟩ := step_txOther pn h hs
    subst he
    exact ⟨trivial, h12, inv_ignored (.txOther pn) h trivial⟩
  | rxPkt => exact ⟨trivial, trivial, step_rxPkt h hs⟩

/-- a whole accepted history: the predicates hold at every position -/
theorem run_sound {rest : List Op} : ∀ {pre : List Op} {s sf : St}, Inv pre s → run s rest = some sf →
    ∀ mid op post, rest = mid ++ op :: post → C03At (pre ++ mid) op ∧ C12At (pre ++ mid) op := by
  induction rest with
  | nil => intro pre s sf _ _ mid op post he; cases mid <;> cases he
  | cons o rest ih =>
    intro pre s sf h hr mid op post he
    simp only [run] at hr
    split at hr
    · rename_i s1 hs1
      have ⟨h3, h12, hi⟩ := step_sound o h hs1
      cases mid with
      | nil =>
        simp only [List.nil_append, List.cons.injEq] at he
        obtain ⟨rfl, _⟩ := he
        simpa using ⟨h3, h12⟩
      | cons m mid' =>
        simp only [List.cons_append, List.cons.injEq] at he
        obtain ⟨rfl, he'⟩ := he
        have := ih hi hr mid' op post he'
        simpa [List.append_assoc] using this
    · cases hr

end Quic.Proofs.SendTrace
