import QuicProofs.Lemmas.KeySet
import QuicModel.Conn.KeyUpdateSystem
/-
  Helper lemmas for C15 (two endpoints + channel): the system invariant and its preservation.
-/
namespace Quic.Proofs.KeySystemLemmas
open Quic.Conn.KeySet Quic.Conn.KeyUpdateSystem Quic.Proofs.KeySetLemmas

/-! ### get / set -/
@[simp] theorem get_set_same (y : Sys) (x : Who) (e : Endpoint) : (y.set x e).get x = e := by cases x <;> rfl
@[simp] theorem get_set_peer (y : Sys) (x : Who) (e : Endpoint) : (y.set x e).get x.peer = y.get x.peer := by cases x <;> rfl
@[simp] theorem peer_peer (x : Who) : x.peer.peer = x := by cases x <;> rfl
theorem who_cases (x z : Who) : z = x ∨ z = x.peer := by cases x <;> cases z <;> simp [Who.peer]

/-- the generations of the packets an endpoint has sealed, newest first -/
def gens (e : Endpoint) : List Nat := e.out.map (·.gen)

/-- packets are numbered in sealing order and carry the parity of their generation as phase bit -/
structure EInv (c : Nat) (e : Endpoint) : Prop where
  inv : Inv c e.ks (gens e)
  tagged : ∀ p ∈ e.out, p.phase = decide (p.gen % 2 = 1) ∧ p.pn < e.nextPn
  numbered : e.out.Pairwise (fun p q => p.pn > q.pn)

theorem slot_phase_parity {c : Nat} {s : State} (h : WF c s) (p : Bool) : p = decide ((s.slot p).keyGen % 2 = 1) := by
  have := h.slot_par p
  cases p <;> simp at this ⊢ <;> omega

theorem einv_encrypt (r : Repairs) {c : Nat} {e : Endpoint} (h : EInv c e) : EInv c (e.encrypt r).1 := by
  obtain ⟨hi, ht, hn⟩ := h
  have h1 := inv_encrypt r hi
  have hph : ∀ ph g, (encrypt r e.ks).2 = .sealed ph g → ph = decide (g % 2 = 1) := by
    intro ph g
    rw [encrypt_eq]
    by_cases hu : usesOther r e.ks = true <;> simp only [hu, if_true, if_false, Bool.false_eq_true]
    · by_cases hexp : e.ks.other.expired = true <;> simp only [hexp, if_true, if_false, Bool.false_eq_true]
      · intro h; cases h
      · intro h; cases h; exact slot_phase_parity hi.wf _
    · by_cases hexp : e.ks.active.expired = true <;> simp only [hexp, if_true, if_false, Bool.false_eq_true]
      · intro h; cases h
      · intro h; cases h; exact slot_phase_parity hi.wf _
  unfold Endpoint.encrypt
  cases hh : encrypt r e.ks with
  | mk ks' o =>
    rw [hh] at h1 hph
    cases o with
    | aeadLimit => exact ⟨h1, ht, hn⟩
    | «sealed» ph g =>
      refine ⟨h1, ?_, ?_⟩
      · intro p hp
        cases hp with
        | head => exact ⟨hph ph g rfl, Nat.lt_succ_self _⟩
        | tail _ hp => exact ⟨(ht p hp).1, Nat.lt_succ_of_lt (ht p hp).2⟩
      · exact List.Pairwise.cons (fun q hq => (ht q hq).2) hn


theorem einv_receive (r : Repairs) (hr : r.rotateOnlyIfNoUpdateInProgress = true) {c : Nat} {e : Endpoint} (h : EInv c e)
    (ph : Bool) (g : Option Nat) (pn la pto : Nat) : EInv c (e.receive r ph g pn la pto).1 :=
  ⟨inv_decrypt r hr h.inv ph g pn la pto, h.tagged, h.numbered⟩

theorem einv_timeout {c : Nat} {e : Endpoint} (h : EInv c e) (now : Nat) :
    EInv c { e with ks := timeout e.ks now } :=
  ⟨inv_timeout h.inv now, h.tagged, h.numbered⟩

theorem encrypt_active_gen (r : Repairs) (s : State) : (encrypt r s).1.active.keyGen = s.active.keyGen := by
  rw [encrypt_eq]
  repeat' split
  all_goals simp [bump]

theorem timeout_active_gen (s : State) (now : Nat) : (timeout s now).active.keyGen = s.active.keyGen := by
  rw [timeout_eq]
  repeat' split
  all_goals simp

theorem decrypt_active_gen (r : Repairs) (s : State) (ph : Bool) (g : Option Nat) (pn la pto : Nat) :
    (decrypt r s ph g pn la pto).1.active.keyGen = s.active.keyGen ∨
      g = some (decrypt r s ph g pn la pto).1.active.keyGen := by
  rw [decrypt_eq]
  by_cases ho : opens s ph g = true <;> simp only [ho, if_true, if_false, Bool.false_eq_true]
  · by_cases hrot : (ph != s.phase && !(r.rotateOnlyIfNoUpdateInProgress && s.updateInProgress)) = true <;>
      simp only [hrot, if_true, if_false, Bool.false_eq_true]
    · split
      · exact Or.inl rfl
      · right
        have hp : ph = !s.phase := by
          simp at hrot; cases ph <;> cases hh : s.phase <;> simp_all
        simp [opens, hp] at ho
        simp [ho, State.other]
    · left; first | rfl | trivial
  · split <;> (left; first | rfl | trivial)

theorem encrypt_out_subset (r : Repairs) (e : Endpoint) : ∀ p ∈ e.out, p ∈ (e.encrypt r).1.out := by
  intro p hp
  unfold Endpoint.encrypt
  cases hh : encrypt r e.ks with
  | mk ks' o =>
    cases o with
    | aeadLimit => exact hp
    | «sealed» ph g => exact List.mem_cons_of_mem _ hp

theorem encrypt_ks (r : Repairs) (e : Endpoint) : (e.encrypt r).1.ks = (encrypt r e.ks).1 := by
  unfold Endpoint.encrypt
  cases hh : encrypt r e.ks with
  | mk ks' o => cases o <;> rfl

/-- the receiver's active key is the handshake key or one the sender has already used -/
def Heard (sender receiver : Endpoint) : Prop :=
  receiver.ks.active.keyGen = 0 ∨ ∃ p ∈ sender.out, p.gen = receiver.ks.active.keyGen

structure SysInv (c : Nat) (y : Sys) : Prop where
  ep : ∀ x, EInv c (y.get x)
  heard : ∀ x, Heard (y.get x.peer) (y.get x)

theorem sysinv_init (c i w : Nat) : SysInv c (Quic.Conn.KeyUpdateSystem.init c i w) := by
  refine ⟨?_, ?_⟩
  · intro x
    cases x <;> exact ⟨inv_init c i w, by simp [Quic.Conn.KeyUpdateSystem.init, Sys.get], List.Pairwise.nil⟩
  · intro x
    cases x <;> left <;> rfl

/-- replacing endpoint `x` by `e'` keeps the system invariant if `e'` is fine, has not forgotten
    any packet, and its active key is still one the peer has used -/
theorem sysinv_set {c : Nat} {y : Sys} (h : SysInv c y) (x : Who) (e' : Endpoint) (he : EInv c e')
    (hout : ∀ p ∈ (y.get x).out, p ∈ e'.out) (hh : Heard (y.get x.peer) e') : SysInv c (y.set x e') := by
  refine ⟨?_, ?_⟩
  · intro z
    rcases who_cases x z with rfl | rfl
    · simpa using he
    · simpa using h.ep _
  · intro z
    rcases who_cases x z with rfl | rfl
    · simpa using hh
    · simp only [peer_peer, get_set_same, get_set_peer]
      rcases h.heard x.peer with h0 | ⟨p, hp, hg⟩
      · exact Or.inl h0
      · exact Or.inr ⟨p, hout p (by simpa using hp), hg⟩

theorem step_enc (r : Repairs) (y : Sys) (x : Who) : (step r y (.enc x)).1 = y.set x ((y.get x).encrypt r).1 := rfl
theorem step_timeout (r : Repairs) (y : Sys) (x : Who) (now : Nat) :
    (step r y (.timeout x now)).1 = y.set x { y.get x with ks := timeout (y.get x).ks now } := rfl
theorem step_forge (r : Repairs) (y : Sys) (x : Who) (ph : Bool) (pn la pto : Nat) :
    (step r y (.forge x ph pn la pto)).1 = y.set x ((y.get x).receive r ph none pn la pto).1 := rfl
theorem receive_fst (r : Repairs) (e : Endpoint) (ph : Bool) (g : Option Nat) (pn la pto : Nat) :
    (e.receive r ph g pn la pto).1 = { e with ks := (decrypt r e.ks ph g pn la pto).1 } := rfl

theorem heard_receive (r : Repairs) {snd e : Endpoint} (h : Heard snd e) (ph : Bool) (g : Option Nat) (pn la pto : Nat)
    (hg : ∀ g', g = some g' → ∃ p ∈ snd.out, p.gen = g') : Heard snd (e.receive r ph g pn la pto).1 := by
  rw [receive_fst]
  unfold Heard at h ⊢
  rcases decrypt_active_gen r e.ks ph g pn la pto with he | he
  · simp only [he]; exact h
  · right
    exact hg _ he

theorem sysinv_step (r : Repairs) (hr : r.rotateOnlyIfNoUpdateInProgress = true) {c : Nat} {y : Sys} (h : SysInv c y)
    (op : SysOp) : SysInv c (step r y op).1 := by
  cases op with
  | enc x =>
    rw [step_enc]
    refine sysinv_set h x _ (einv_encrypt r (h.ep x)) (encrypt_out_subset r _) ?_
    unfold Heard
    rw [encrypt_ks, encrypt_active_gen]
    exact h.heard x
  | timeout x now =>
    rw [step_timeout]
    refine sysinv_set h x _ (einv_timeout (h.ep x) now) (fun p hp => hp) ?_
    unfold Heard
    simp only [timeout_active_gen]
    exact h.heard x
  | forge x ph pn la pto =>
    rw [step_forge]
    refine sysinv_set h x _ (einv_receive r hr (h.ep x) ph none pn la pto) (fun p hp => hp) ?_
    exact heard_receive r (h.heard x) ph none pn la pto (fun g' hg => by cases hg)
  | deliver x pn la pto =>
    simp only [Quic.Conn.KeyUpdateSystem.step]
    cases hf : (y.get x.peer).findPn pn with
    | none => exact h
    | some p =>
      have hmem : p ∈ (y.get x.peer).out := List.mem_of_find?_eq_some hf
      show SysInv c (y.set x ((y.get x).receive r p.phase (some p.gen) p.pn la pto).1)
      refine sysinv_set h x _ (einv_receive r hr (h.ep x) p.phase (some p.gen) p.pn la pto) (fun p hp => hp) ?_
      exact heard_receive r (h.heard x) _ _ _ _ _ (fun g' hg => ⟨p, hmem, by simpa using hg⟩)

theorem sysinv_run (r : Repairs) (hr : r.rotateOnlyIfNoUpdateInProgress = true) {c : Nat} (ops : List SysOp) {y : Sys}
    (h : SysInv c y) : SysInv c (run r y ops) := by
  induction ops generalizing y with
  | nil => exact h
  | cons op ops ih => exact ih (sysinv_step r hr h op)


/-! ### consequences of the invariant -/

theorem mem_gens {e : Endpoint} {p : Packet} (hp : p ∈ e.out) : p.gen ∈ gens e :=
  List.mem_map.mpr ⟨p, hp, rfl⟩

/-- nothing an endpoint has sealed is more than one generation ahead of its active key -/
theorem gen_le_of_mem {c : Nat} {e : Endpoint} (h : EInv c e) {p : Packet} (hp : p ∈ e.out) :
    p.gen ≤ e.ks.active.keyGen + 1 := by
  have hc : 0 < (gens e).count p.gen := List.count_pos_iff.mpr (mem_gens hp)
  have hf := h.inv.fresh p.gen
  have hoth : e.ks.other.keyGen ≤ e.ks.active.keyGen + 1 := by
    cases ht : e.ks.timer with
    | none => have := h.inv.idle_gen ht; omega
    | some d => have := h.inv.armed_gen (by simp [ht]); omega
  by_cases h1 : e.ks.active.keyGen < p.gen
  · by_cases h2 : e.ks.other.keyGen < p.gen
    · have := hf h1 h2; omega
    · omega
  · omega

/-- neither endpoint is ever more than one generation ahead of the other -/
theorem sync_of_sysinv {c : Nat} {y : Sys} (h : SysInv c y) (x : Who) :
    (y.get x).ks.active.keyGen ≤ (y.get x.peer).ks.active.keyGen + 1 := by
  rcases h.heard x with h0 | ⟨p, hp, hg⟩
  · omega
  · have := gen_le_of_mem (h.ep x.peer) hp
    omega

theorem find_pn_of_mem {l : List Packet} (hn : l.Pairwise (fun p q => p.pn > q.pn)) {p : Packet} (hp : p ∈ l) :
    l.find? (fun q => q.pn == p.pn) = some p := by
  induction l with
  | nil => cases hp
  | cons a l ih =>
    rw [List.pairwise_cons] at hn
    rw [List.find?_cons]
    cases hp with
    | head => simp
    | tail _ hp =>
      have := hn.1 p hp
      have hne : (a.pn == p.pn) = false := by simp; omega
      rw [hne]
      exact ih hn.2 hp

theorem findPn_of_mem {e : Endpoint} (hn : e.out.Pairwise (fun p q => p.pn > q.pn)) {p : Packet} (hp : p ∈ e.out) :
    e.findPn p.pn = some p := find_pn_of_mem hn hp

/-- a genuine packet whose generation is one of the two the receiver holds opens -/
theorem opens_of_held {c : Nat} {s : State} (h : WF c s) (ph : Bool) (g : Nat) (hph : ph = decide (g % 2 = 1))
    (hg : g = s.active.keyGen ∨ g = s.other.keyGen) : opens s ph (some g) = true := by
  have ha := slot_phase_parity h s.phase
  have ho := slot_phase_parity h (!s.phase)
  unfold opens
  rcases hg with hg | hg
  · have : ph = s.phase := by rw [hph, hg]; exact ha.symm
    subst this; simp [hg, State.active]
  · have : ph = !s.phase := by rw [hph, hg]; exact ho.symm
    subst this; simp [hg, State.other]

theorem pairwise_mem {α : Type} {R : α → α → Prop} {l : List α} (h : l.Pairwise R) {a b : α} (ha : a ∈ l) (hb : b ∈ l) :
    a = b ∨ R a b ∨ R b a := by
  induction l with
  | nil => cases ha
  | cons x l ih =>
    rw [List.pairwise_cons] at h
    cases ha with
    | head =>
      cases hb with
      | head => exact Or.inl rfl
      | tail _ hb => exact Or.inr (Or.inl (h.1 b hb))
    | tail _ ha =>
      cases hb with
      | head => exact Or.inr (Or.inr (h.1 a ha))
      | tail _ hb => exact ih h.2 ha hb

/-! ### monotone generations at system level (both repairs) -/

def SysMono (y : Sys) : Prop := ∀ x, Mono (y.get x).ks (gens (y.get x))

theorem encrypt_gens (r : Repairs) (e : Endpoint) :
    gens (e.encrypt r).1 = (Out.enc (encrypt r e.ks).2).addTo (gens e) := by
  unfold Endpoint.encrypt
  cases hh : encrypt r e.ks with
  | mk ks' o => cases o <;> rfl

theorem sysmono_set {y : Sys} (h : SysMono y) (x : Who) (e' : Endpoint) (he : Mono e'.ks (gens e')) : SysMono (y.set x e') := by
  intro z
  rcases who_cases x z with rfl | rfl
  · simpa using he
  · simpa using h _

theorem sysmono_step {c : Nat} {y : Sys} (hi : SysInv c y) (h : SysMono y) (op : SysOp) :
    SysMono (step Repairs.full y op).1 := by
  cases op with
  | enc x =>
    rw [step_enc]
    refine sysmono_set h x _ ?_
    rw [encrypt_ks, encrypt_gens]
    exact mono_encrypt (hi.ep x).inv (h x)
  | timeout x now =>
    rw [step_timeout]
    exact sysmono_set h x _ (mono_timeout (h x) now)
  | forge x ph pn la pto =>
    rw [step_forge]
    exact sysmono_set h x _ (mono_decrypt (hi.ep x).inv (h x) ph none pn la pto)
  | deliver x pn la pto =>
    simp only [Quic.Conn.KeyUpdateSystem.step]
    cases hf : (y.get x.peer).findPn pn with
    | none => exact h
    | some p =>
      show SysMono (y.set x ((y.get x).receive Repairs.full p.phase (some p.gen) p.pn la pto).1)
      exact sysmono_set h x _ (mono_decrypt (hi.ep x).inv (h x) p.phase (some p.gen) p.pn la pto)

theorem sysmono_run {c : Nat} (ops : List SysOp) {y : Sys} (hi : SysInv c y) (h : SysMono y) :
    SysMono (run Repairs.full y ops) := by
  induction ops generalizing y with
  | nil => exact h
  | cons op ops ih => exact ih (sysinv_step Repairs.full rfl hi op) (sysmono_step hi h op)

theorem sysmono_init (c i w : Nat) : SysMono (Quic.Conn.KeyUpdateSystem.init c i w) := by
  intro x
  cases x <;> exact ⟨by simp [gens, Quic.Conn.KeyUpdateSystem.init, Sys.get], by simp [gens, Quic.Conn.KeyUpdateSystem.init, Sys.get]⟩

theorem receive_snd (r : Repairs) (e : Endpoint) (ph : Bool) (g : Option Nat) (pn la pto : Nat) :
    (e.receive r ph g pn la pto).2 = .dec (decrypt r e.ks ph g pn la pto).2 := rfl

/-! ### calm histories of the system -/

/-- the pinned code on calm histories of the system: every endpoint's own history is calm -/
def SysCalm (r : Repairs) : Sys → List SysOp → Prop
  | _, [] => True
  | y, op :: ops =>
    (match op with
      | .enc x => calmOp r (y.get x).ks .encrypt
      | .deliver x pn la pto =>
        match (y.get x.peer).findPn pn with
        | some p => calmOp r (y.get x).ks (.decrypt p.phase (some p.gen) p.pn la pto)
        | none => True
      | .forge _ _ _ _ _ => True
      | .timeout _ _ => True) ∧
    SysCalm r (Quic.Conn.KeyUpdateSystem.step r y op).1 ops

theorem sys_run_eq_full (r : Repairs) (ops : List SysOp) (y : Sys) (h : SysCalm r y ops) :
    Quic.Conn.KeyUpdateSystem.run r y ops = Quic.Conn.KeyUpdateSystem.run Repairs.full y ops := by
  induction ops generalizing y with
  | nil => rfl
  | cons op ops ih =>
    obtain ⟨h1, h2⟩ := h
    have hs : Quic.Conn.KeyUpdateSystem.step r y op = Quic.Conn.KeyUpdateSystem.step Repairs.full y op := by
      cases op with
      | enc x =>
        have := step_eq_full r (y.get x).ks .encrypt h1
        simp only [Quic.Conn.KeySet.step, Prod.mk.injEq, Out.enc.injEq] at this
        simp only [Quic.Conn.KeyUpdateSystem.step, Endpoint.encrypt]
        rw [Prod.ext this.1 this.2]
      | timeout x now => rfl
      | forge x ph pn la pto =>
        have := step_eq_full r (y.get x).ks (.decrypt ph none pn la pto) (by simp [calmOp, opens])
        simp only [Quic.Conn.KeySet.step, Prod.mk.injEq, Out.dec.injEq] at this
        simp only [Quic.Conn.KeyUpdateSystem.step, Endpoint.receive]
        rw [Prod.ext this.1 this.2]
      | deliver x pn la pto =>
        simp only [Quic.Conn.KeyUpdateSystem.step]
        cases hf : (y.get x.peer).findPn pn with
        | none => rfl
        | some p =>
          simp only [hf] at h1
          have := step_eq_full r (y.get x).ks (.decrypt p.phase (some p.gen) p.pn la pto) h1
          simp only [Quic.Conn.KeySet.step, Prod.mk.injEq, Out.dec.injEq] at this
          simp only [Endpoint.receive]
          rw [Prod.ext this.1 this.2]
    simp only [Quic.Conn.KeyUpdateSystem.run]
    rw [hs] at h2 ⊢
    exact ih _ h2


instance decSysCalm (r : Repairs) : (y : Sys) → (ops : List SysOp) → Decidable (SysCalm r y ops)
  | _, [] => isTrue trivial
  | y, op :: ops =>
    have := decSysCalm r (Quic.Conn.KeyUpdateSystem.step r y op).1 ops
    by
      unfold SysCalm
      cases op with
      | enc x => exact inferInstance
      | deliver x pn la pto =>
        simp only
        cases (y.get x.peer).findPn pn <;> exact inferInstance
      | forge x ph pn la pto => exact inferInstance
      | timeout x now => exact inferInstance

end Quic.Proofs.KeySystemLemmas
