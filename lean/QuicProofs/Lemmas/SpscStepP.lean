import QuicProofs.Lemmas.SpscInv
/-
  C17 helper lemmas: the invariant `Inv` is preserved by every SENDER step of the spsc system under
  the pinned orderings (or the step reports use-after-free of the shared header).
-/
namespace Quic.Sync.Spsc
open Quic.Sync.Ra

theorem inv_pLoadOpen {s s' : Sys} {ts : Nat} (inv : Inv s) (h : step pinned s (.pLoadOpen ts) = some s') :
    s' = { s with fail := some .useAfterFree } ∨ Inv s' := by
  have nf := inv.nofail
  simp only [step, nf, Option.isSome_none, Bool.false_eq_true, if_false, pinned] at h
  split at h
  · rename_i hpc
    split at h
    · left; simp only [failWith, Option.some.injEq] at h; exact h.symm
    split at h
    · simp at h
    rename_i m hr
    have i1 := inv.pLoad (o := .acquire) hr
    right
    split at h
    · simp only [Option.some.injEq] at h; subst h
      constructor
      inv_same i1
    · simp only [Option.some.injEq] at h; subst h
      constructor
      inv_same i1
      inv_pc i1
  · rename_i hpc
    split at h
    · left; simp only [failWith, Option.some.injEq] at h; exact h.symm
    split at h
    · simp at h
    rename_i m hr
    have i1 := inv.pLoad (o := .acquire) hr
    right
    split at h
    · simp only [Option.some.injEq] at h; subst h
      constructor
      inv_same i1
    · simp only [Option.some.injEq] at h; subst h
      constructor
      inv_same i1
      inv_pc i1
  · simp at h

set_option hygiene false in
macro "pLoadHead_block" : tactic => `(tactic| (
  constructor
  inv_same i1
  case ch1 => exact htag
  case ch7 => have := inv.ch7; dsimp only; omega
  case pA1 => intro _; exact ⟨htail, hval⟩
  case hHp =>
    intro h' hh' hle
    dsimp only at hle ⊢
    exact inv.hHmono m hm h' hh' (Nat.le_trans (afterLoad_atm_self _ _ _ _) hle)
  case v1 =>
    intro c
    dsimp only
    rcases i1.v1 c with ⟨j, h1, h2, h3⟩ | h
    · by_cases hj : m.tag ≤ j
      · exact .inl ⟨j, hj, h2, h3⟩
      · right
        dsimp only at h1 h2 h3
        have e := inv.mH m hm j (by omega) (by have := inv.ch7; omega)
        have l1 := afterLoad_acq_na_ge s.pv HEAD m c
        have l2 := i1.v0p c
        dsimp only at l2
        subst h3
        omega
    · exact .inr h
  case pS2 =>
    first
    | (have hf := i1.pS2; intros; simp_all; done)
    | (intro _; dsimp only; rw [htail, inv.pS1 (by rw [hpc]; rfl)])
  inv_pc i1))

theorem inv_pLoadHead {s s' : Sys} {ts : Nat} (inv : Inv s) (h : step pinned s (.pLoadHead ts) = some s') :
    s' = { s with fail := some .useAfterFree } ∨ Inv s' := by
  have nf := inv.nofail
  simp only [step, nf, Option.isSome_none, Bool.false_eq_true, if_false, pinned] at h
  split at h
  case h_2 => simp at h
  rename_i b hpc
  split at h
  · left; simp only [failWith, Option.some.injEq] at h; exact h.symm
  split at h
  · simp at h
  rename_i m hr
  have i1 := inv.pLoad (o := .acquire) hr
  obtain ⟨hm, hts⟩ := readable_some hr
  obtain ⟨hval, htag, _⟩ := inv.hH m hm
  have hge := inv.hHp m hm hts
  have hrun : s.p.pc.running = true := by rw [hpc]; rfl
  obtain ⟨htail, hhead⟩ := inv.pA1 hrun
  right
  simp only [Option.some.injEq, pAfterHead] at h
  cases b
  · by_cases hf : isFull m.val s.p.tail s.cap = true
    · simp only [hf, if_true, Bool.false_eq_true, if_false] at h; subst h
      pLoadHead_block
    · simp only [hf, Bool.false_eq_true, if_false] at h; subst h
      pLoadHead_block
  · simp only [if_true] at h; subst h
    pLoadHead_block

theorem inv_pPush {s s' : Sys} {v : Nat} (inv : Inv s) (h : step pinned s (.pPush v) = some s') :
    s' = { s with fail := some .useAfterFree } ∨ Inv s' := by
  have nf := inv.nofail
  simp only [step, nf, Option.isSome_none, Bool.false_eq_true, if_false] at h
  split at h
  case h_2 => simp at h
  case h_1 hpc =>
  split at h
  · simp at h
  rename_i hfull
  split at h
  · left; simp only [failWith, Option.some.injEq] at h; exact h.symm
  right
  have hrun : s.p.pc.running = true := by rw [hpc]; rfl
  obtain ⟨htail, hhead⟩ := inv.pA1 hrun
  have hnfull : s.pushed.length + 1 ≠ s.p.gPeer + s.cap := by
    intro e
    apply hfull
    rw [htail, hhead]
    exact (isFull_iff inv.cap2 (by have := inv.ch1; have := inv.ch2; have := inv.ch3; omega) inv.ch7).mpr e
  have hlt : s.pushed.length < s.p.gPeer + s.cap := by have := inv.ch7; omega
  have hle : s.p.gPeer ≤ s.popped.length + s.dropped.length := by
    have := inv.ch1; have := inv.ch2; omega
  have hne : ∀ j, s.p.gPeer ≤ j → j < s.pushed.length → j % s.cap ≠ s.pushed.length % s.cap :=
    fun j h1 h2 => mod_ne_of_lt h2 (by omega)
  split at h
  · -- race: impossible
    rename_i hna
    exfalso
    have := naAccess_none hna
    rcases inv.v1 s.p.tail with ⟨j, hj1, hj2, hj3⟩ | hv
    · rw [htail] at hj3
      have := inv.ch3
      exact absurd hj3 (hne j hj1 (by omega))
    · exact this hv
  · rename_i old mem pv hna
    obtain ⟨hv, hold, hmem, hpv⟩ := naAccess_some hna
    split at h
    · -- overwrite: impossible
      rename_i hsome
      exfalso
      rcases inv.cellE s.p.tail with ⟨j, hj1, hj2, hj3⟩ | hc
      · rw [htail] at hj3
        exact absurd hj3 (hne j (by omega) hj2)
      · rw [hold, hc] at hsome; simp at hsome
    · simp only [Option.some.injEq] at h
      subst h hmem hpv
      constructor
      inv_same inv
      case ch3 => have := inv.ch3; simp; omega
      case ch5 => have := inv.ch5; simp; omega
      case ch7 => have := inv.ch7; simp; omega
      case pA1 => intro _; simp [htail, hhead, wrapAdd_mod]
      case pA3 => intro h; simp [hpc] at h
      case pS1 => intro h; simp [hpc] at h
      case cellF =>
        intro j h1 h2
        dsimp only at h1 h2 ⊢
        rw [List.length_append, List.length_singleton] at h2
        by_cases hj : j = s.pushed.length
        · subst hj; simp [htail]
        · have e := inv.cellF j h1 (by omega)
          have n := hne j (by omega) (by omega)
          rw [List.getElem?_append_left (by omega), ← e, htail, if_neg n]
      case cellE =>
        intro c
        simp
        by_cases hc : c = s.p.tail
        · left; exact ⟨s.pushed.length, by have := inv.ch3; omega, by omega, by rw [hc, htail]⟩
        · rcases inv.cellE c with ⟨j, h1, h2, h3⟩ | h
          · left; exact ⟨j, h1, by omega, h3⟩
          · right; simp [hc, h]
      case fifo =>
        have := inv.fifo; have := inv.ch3
        simp
        rw [List.take_append_of_le_length (by omega)]; assumption
      case v0p => intro c; have := inv.v0p c; simp [View.setNa]; split <;> simp_all <;> omega
      case v0c => intro c; have := inv.v0c c; simp; split <;> simp_all <;> omega
      case v0m => intro l m hm c; have := inv.v0m l m hm c; simp; split <;> simp_all <;> omega
      case v1 =>
        intro c
        simp [View.setNa]
        by_cases hc : c = s.p.tail
        · right; simp [hc]
        · rcases inv.v1 c with h | h
          · left; exact h
          · right; simp [hc, h]
      case v2 =>
        intro hq c
        simp
        by_cases hc : c = s.p.tail
        · left; exact ⟨s.pushed.length, by have := inv.ch4; have := inv.ch5; omega, by omega, by rw [hc, htail]⟩
        · rcases inv.v2 hq c with ⟨j, h1, h2, h3⟩ | h
          · left; exact ⟨j, h1, by omega, h3⟩
          · right; simp [hc, h]
      case mT =>
        intro m hm j h1 h2
        dsimp only at h1 h2 hm ⊢
        have := inv.mT m hm j h1 h2
        have := (inv.hT m hm).2.1; have := inv.ch5
        have := hne j (by omega) (by omega)
        simp [*]
      case mH =>
        intro m hm j h1 h2
        dsimp only at h1 h2 hm ⊢
        simp at h2
        have := inv.mH m hm j h1 (by omega)
        have := (inv.hH m hm).2.1; have := inv.ch2; have := inv.ch3; have := inv.ch1
        have : j % s.cap ≠ s.pushed.length % s.cap := mod_ne_of_lt (by omega) (by omega)
        simp [htail, *]

theorem inv_pRelease {s s' : Sys} (inv : Inv s) (h : step pinned s .pRelease = some s') :
    s' = { s with fail := some .useAfterFree } ∨ Inv s' := by
  have nf := inv.nofail
  simp only [step, nf, Option.isSome_none, Bool.false_eq_true, if_false, pinned] at h
  split at h
  case h_2 => simp at h
  case h_1 hpc =>
  have hrun : s.p.pc.running = true := by rw [hpc]; rfl
  have hsl : s.p.pc.inSlice = true := by rw [hpc]; rfl
  obtain ⟨htail, hhead⟩ := inv.pA1 hrun
  have hprev := inv.pS2 hsl
  have c1 := inv.ch1; have c2 := inv.ch2; have c4 := inv.ch4; have c5 := inv.ch5
  have c7 := inv.ch7; have c8 := inv.ch8
  split at h
  · -- nothing changed
    rename_i heq
    right
    have hg : s.p.gPrev = s.pushed.length := by
      rw [hprev, htail] at heq
      exact mod_inj_of_lt heq (by omega) (by omega)
    simp only [Option.some.injEq] at h; subst h
    constructor
    inv_same inv
    case pS1 => intro _; exact hg
    inv_pc inv
  split at h
  · left; simp only [failWith, Option.some.injEq] at h; exact h.symm
  right
  simp only [store, Option.some.injEq, Ord.isRel, if_true] at h
  subst h
  have hlen : ∀ m ∈ s.mem.hist TAIL, m.ts < (s.mem.hist TAIL).length := fun m hm => (inv.hT m hm).2.2
  constructor
  inv_same inv
  case ch4 => dsimp only; omega
  case ch5 => dsimp only; omega
  case pS1 => intro _; rfl
  case hT =>
    intro m hm
    simp at hm ⊢
    rcases hm with rfl | hm
    · exact ⟨htail, Nat.le_refl _, by simp⟩
    · have := inv.hT m hm; exact ⟨this.1, by omega, by omega⟩
  case hTmono =>
    intro m1 h1 m2 h2 hle
    simp at h1 h2
    rcases h1 with rfl | h1 <;> rcases h2 with rfl | h2
    · exact Nat.le_refl _
    · have := hlen m2 h2; simp at hle; omega
    · have := (inv.hT m1 h1).2.1; dsimp only; omega
    · exact inv.hTmono m1 h1 m2 h2 hle
  case hTc =>
    intro m hm hle
    simp at hm
    rcases hm with rfl | hm
    · dsimp only; omega
    · exact inv.hTc m hm hle
  case hTp =>
    intro m hm hle
    simp [View.setAtm] at hm hle
    rcases hm with rfl | hm
    · rfl
    · have := hlen m hm; omega
  case v0m =>
    intro l m hm c
    simp at hm
    by_cases hl : l = TAIL
    · simp [hl] at hm
      rcases hm with rfl | hm
      · exact inv.v0p c
      · exact inv.v0m TAIL m hm c
    · simp [hl] at hm; exact inv.v0m l m hm c
  case mT =>
    intro m hm j h1 h2
    simp at hm
    rcases hm with rfl | hm
    · dsimp only at h1 h2 ⊢
      rcases inv.v1 (j % s.cap) with ⟨j', a1, a2, a3⟩ | hv
      · exact absurd a3 (mod_ne_of_lt (by omega) (by omega))
      · exact hv
    · exact inv.mT m hm j h1 h2
  inv_pc inv

end Quic.Sync.Spsc
