import QuicModel.Dc.ReplayWindow
import QuicModel.Dc.KeyIds
/-
  Helper lemmas for C19 (dc replay window / key ids). The property theorems are in
  QuicProofs/Props/C19Replay.lean.
-/
namespace Quic.Proofs.DcReplay
open Quic.Dc.ReplayWindow

/-! ### bit-list facts -/

theorem replicate_false_ne_true (n i : Nat) : (List.replicate n false)[i]? ≠ some true := by
  rw [List.getElem?_replicate]; split <;> simp

theorem shiftEnd_length (l : List Bool) (d : Nat) (h : d ≤ l.length) : (shiftEnd l d).length = l.length := by
  unfold shiftEnd
  split
  · rfl
  · split
    · simp
    · simp only [List.length_append, List.length_replicate, List.length_take]; omega

/-- bit i of the shifted set is bit i-d of the old one; the first d bits are clear -/
theorem shiftEnd_true (l : List Bool) (d i : Nat) (h : d ≤ l.length) :
    (shiftEnd l d)[i]? = some true ↔ d ≤ i ∧ i < l.length ∧ l[i - d]? = some true := by
  unfold shiftEnd
  split
  · next h0 =>
    subst h0
    constructor
    · intro hi
      have : i < l.length := by
        by_cases hlt : i < l.length
        · exact hlt
        · rw [List.getElem?_eq_none (by omega)] at hi; cases hi
      exact ⟨Nat.zero_le _, this, by simpa using hi⟩
    · intro ⟨_, _, hi⟩; simpa using hi
  · split
    · next h0 h1 =>
      constructor
      · intro hi; exact absurd hi (replicate_false_ne_true _ _)
      · intro ⟨h2, h3, _⟩; omega
    · next h0 h1 =>
      by_cases hid : i < d
      · rw [List.getElem?_append_left (by simpa using hid)]
        constructor
        · intro hi; exact absurd hi (replicate_false_ne_true _ _)
        · intro ⟨h2, _, _⟩; omega
      · rw [List.getElem?_append_right (by simpa using Nat.le_of_not_lt hid)]
        simp only [List.length_replicate]
        rw [List.getElem?_take]
        constructor
        · intro hi
          split at hi
          · exact ⟨by omega, by omega, hi⟩
          · cases hi
        · intro ⟨h2, h3, hi⟩
          rw [if_pos (by omega)]; exact hi

theorem set_true (l : List Bool) (j i : Nat) :
    (l.set j true)[i]? = some true ↔ (i = j ∧ j < l.length) ∨ l[i]? = some true := by
  rw [List.getElem?_set]
  split
  · next h =>
    subst h
    split
    · next hj => simp [hj]
    · next hj =>
      have : l[j]? = none := List.getElem?_eq_none (by omega)
      simp [this, hj]
  · next h =>
    constructor
    · intro hi; exact Or.inr hi
    · intro hi
      rcases hi with ⟨h1, _⟩ | hi
      · exact absurd h1.symm h
      · exact hi

/-! ### the simulation relation between the window and the set+max reference -/

/-- `Rel s sp`: the window state `s` represents the reference state `sp` (restricted to the
    ids the window can still remember). -/
structure Rel (s : State) (sp : Spec) : Prop where
  len : s.seen.length = WINDOW
  max_eq : s.maxSeen = sp.max
  le_max : ∀ k ∈ sp.accepted, ∃ m, sp.max = some m ∧ k ≤ m
  bits : ∀ i, i < WINDOW → (s.seen[i]? = some true ↔ ∃ m, sp.max = some m ∧ i ≤ m ∧ (m - i) ∈ sp.accepted)

theorem rel_init : Rel init Spec.init := by
  refine ⟨by simp [init], rfl, (fun k hk => by cases hk), ?_⟩
  intro i _
  constructor
  · intro h; exact absurd h (replicate_false_ne_true _ _)
  · intro ⟨m, hm, _⟩; cases hm


theorem accepts_iff (sp : Spec) (k : Nat) :
    sp.accepts k = true ↔
      k ≠ keyIdMax ∧ k ∉ sp.accepted ∧ (sp.max = none ∨ ∃ m, sp.max = some m ∧ (k > m ∨ m - k < WINDOW)) := by
  unfold Spec.accepts
  cases hm : sp.max with
  | none => simp
  | some m => simp [and_assoc]

theorem step_accept (sp : Spec) (k : Nat) (h : sp.accepts k = true) :
    sp.step k = (⟨k :: sp.accepted, some (sp.newMax k)⟩, true) := by
  unfold Spec.step; rw [if_pos h]

theorem step_reject (sp : Spec) (k : Nat) (h : ¬ sp.accepts k = true) : sp.step k = (sp, false) := by
  unfold Spec.step; rw [if_neg h]

/-- the reserved id: refused by the pre-check, nothing changes -/
theorem post_max (s : State) : postAuthentication s keyIdMax = (s, .error .unknown) := by
  simp [postAuthentication, preAuthentication]

/-- closed form of `post_authentication` past the pre-check -/
theorem post_eq (s : State) (k : Nat) (hk : k ≠ keyIdMax) (prev newMax : Nat)
    (hpm : prevNew s k = (prev, newMax)) :
    postAuthentication s k =
      testAndSet newMax (if newMax - prev > s.seen.length then List.replicate s.seen.length false
                         else shiftEnd s.seen (newMax - prev)) (newMax - k) := by
  unfold postAuthentication preAuthentication
  rw [if_neg hk]
  simp only [hpm]

/-- the window after the shift: which bits are set -/
theorem shifted_true (l : List Bool) (d i : Nat) :
    (if d > l.length then List.replicate l.length false else shiftEnd l d)[i]? = some true ↔
      d ≤ i ∧ i < l.length ∧ l[i - d]? = some true := by
  split
  · next h =>
    constructor
    · intro hi; exact absurd hi (replicate_false_ne_true _ _)
    · intro ⟨_, _, _⟩; omega
  · next h => exact shiftEnd_true l d i (by omega)

theorem shifted_length (l : List Bool) (d : Nat) :
    (if d > l.length then List.replicate l.length false else shiftEnd l d).length = l.length := by
  split
  · simp
  · exact shiftEnd_length l d (by omega)


theorem tas_true (nm : Nat) (l : List Bool) (i : Nat) (h : l[i]? = some true) :
    testAndSet nm l i = (⟨some nm, l⟩, .error .alreadyExists) := by
  unfold testAndSet; rw [h]

theorem tas_false (nm : Nat) (l : List Bool) (i : Nat) (h : l[i]? = some false) :
    testAndSet nm l i = (⟨some nm, l.set i true⟩, .ok ()) := by
  unfold testAndSet; rw [h]

theorem tas_none (nm : Nat) (l : List Bool) (i : Nat) (h : l[i]? = none) :
    testAndSet nm l i = (⟨some nm, l⟩, .error .unknown) := by
  unfold testAndSet; rw [h]

theorem get_false_of_not_true (l : List Bool) (i : Nat) (hi : i < l.length) (h : l[i]? ≠ some true) :
    l[i]? = some false := by
  rw [List.getElem?_eq_getElem hi] at *
  cases hb : l[i] with
  | true => rw [hb] at h; exact absurd rfl h
  | false => rfl

/-- nothing accepted yet: the first id is always taken and becomes the maximum -/
theorem rel_step_none (s : State) (sp : Spec) (k : Nat) (h : Rel s sp) (hk : k ≠ keyIdMax)
    (hm : sp.max = none) :
    Rel (postAuthentication s k).1 (sp.step k).1 ∧ isOk (postAuthentication s k).2 = (sp.step k).2 := by
  have hms : s.maxSeen = none := by rw [h.max_eq, hm]
  have hempty : ∀ x, x ∉ sp.accepted := by
    intro x hx
    obtain ⟨m, hm', _⟩ := h.le_max x hx
    rw [hm] at hm'; cases hm'
  have hnobit : ∀ i : Nat, s.seen[i]? ≠ some true := by
    intro i hi
    by_cases hlt : i < WINDOW
    · obtain ⟨m, hm', _⟩ := (h.bits i hlt).1 hi
      rw [hm] at hm'; cases hm'
    · rw [List.getElem?_eq_none (by rw [h.len]; omega)] at hi; cases hi
  have hacc : sp.accepts k = true := by
    rw [accepts_iff]; exact ⟨hk, hempty k, Or.inl hm⟩
  have hpn : prevNew s k = (0, k) := by unfold prevNew; rw [hms]
  rw [post_eq s k hk 0 k hpn, step_accept sp k hacc]
  generalize hseen : (if k - 0 > s.seen.length then List.replicate s.seen.length false
      else shiftEnd s.seen (k - 0)) = seen'
  have hlen' : seen'.length = WINDOW := by rw [← hseen, shifted_length, h.len]
  have hnobit' : ∀ i : Nat, seen'[i]? ≠ some true := by
    intro i hi
    rw [← hseen, shifted_true] at hi
    exact hnobit _ hi.2.2
  have h0 : seen'[k - k]? = some false :=
    get_false_of_not_true seen' (k - k) (by rw [hlen']; unfold WINDOW; omega) (hnobit' _)
  rw [tas_false _ _ _ h0]
  have hnm : sp.newMax k = k := by unfold Spec.newMax; rw [hm]
  refine ⟨⟨?_, ?_, ?_, ?_⟩, rfl⟩
  · simp only [List.length_set]; exact hlen'
  · simp only [hnm]
  · intro x hx
    simp only [List.mem_cons] at hx
    rcases hx with hx | hx
    · exact ⟨k, by simp only [hnm], by omega⟩
    · exact absurd hx (hempty x)
  · intro i hi
    simp only [hnm]
    rw [set_true]
    constructor
    · intro hb
      rcases hb with ⟨hb, _⟩ | hb
      · refine ⟨k, rfl, by omega, ?_⟩
        simp only [List.mem_cons]; left; omega
      · exact absurd hb (hnobit' i)
    · intro ⟨m, hm', hle, hmem⟩
      simp only [Option.some.injEq] at hm'
      subst hm'
      simp only [List.mem_cons] at hmem
      rcases hmem with hmem | hmem
      · left; exact ⟨by omega, by rw [hlen']; unfold WINDOW; omega⟩
      · exact absurd hmem (hempty _)


/-- an id above the current maximum: the window slides and the id is taken -/
theorem rel_step_above (s : State) (sp : Spec) (k m : Nat) (h : Rel s sp) (hk : k ≠ keyIdMax)
    (hm : sp.max = some m) (hlt : m < k) :
    Rel (postAuthentication s k).1 (sp.step k).1 ∧ isOk (postAuthentication s k).2 = (sp.step k).2 := by
  have hms : s.maxSeen = some m := by rw [h.max_eq, hm]
  have hle : ∀ x ∈ sp.accepted, x ≤ m := by
    intro x hx
    obtain ⟨m', hm', hx'⟩ := h.le_max x hx
    rw [hm] at hm'; simp only [Option.some.injEq] at hm'; omega
  have hfresh : k ∉ sp.accepted := by
    intro hx; have := hle k hx; omega
  have hacc : sp.accepts k = true := by
    rw [accepts_iff]; exact ⟨hk, hfresh, Or.inr ⟨m, hm, Or.inl hlt⟩⟩
  have hpn : prevNew s k = (m, k) := by
    unfold prevNew; rw [hms]; simp only [Nat.max_eq_right (Nat.le_of_lt hlt)]
  rw [post_eq s k hk m k hpn, step_accept sp k hacc]
  generalize hseen : (if k - m > s.seen.length then List.replicate s.seen.length false
      else shiftEnd s.seen (k - m)) = seen'
  have hlen' : seen'.length = WINDOW := by rw [← hseen, shifted_length, h.len]
  have hbit' : ∀ i : Nat, seen'[i]? = some true ↔ k - m ≤ i ∧ i < s.seen.length ∧ s.seen[i - (k - m)]? = some true := by
    intro i; rw [← hseen, shifted_true]
  have h0 : seen'[k - k]? = some false := by
    apply get_false_of_not_true seen' (k - k) (by rw [hlen']; unfold WINDOW; omega)
    intro hb; have := ((hbit' _).1 hb).1; omega
  rw [tas_false _ _ _ h0]
  have hnm : sp.newMax k = k := by
    unfold Spec.newMax; rw [hm]; exact Nat.max_eq_right (Nat.le_of_lt hlt)
  refine ⟨⟨?_, ?_, ?_, ?_⟩, rfl⟩
  · simp only [List.length_set]; exact hlen'
  · simp only [hnm]
  · intro x hx
    simp only [List.mem_cons] at hx
    refine ⟨k, by simp only [hnm], ?_⟩
    rcases hx with hx | hx
    · omega
    · have := hle x hx; omega
  · intro i hi
    simp only [hnm]
    rw [set_true, hbit']
    constructor
    · intro hb
      rcases hb with ⟨hb, _⟩ | ⟨hd, _, hb⟩
      · refine ⟨k, rfl, by omega, ?_⟩
        simp only [List.mem_cons]; left; omega
      · obtain ⟨m', hm', hle', hmem⟩ := (h.bits (i - (k - m)) (by omega)).1 hb
        rw [hm] at hm'; simp only [Option.some.injEq] at hm'; subst hm'
        refine ⟨k, rfl, by omega, ?_⟩
        simp only [List.mem_cons]; right
        have : k - i = m - (i - (k - m)) := by omega
        rw [this]; exact hmem
    · intro ⟨m', hm', hle', hmem⟩
      simp only [Option.some.injEq] at hm'
      subst hm'
      simp only [List.mem_cons] at hmem
      rcases hmem with hmem | hmem
      · left; exact ⟨by omega, by rw [hlen']; unfold WINDOW; omega⟩
      · right
        have hkm := hle _ hmem
        refine ⟨by omega, by rw [h.len]; exact hi, ?_⟩
        apply (h.bits (i - (k - m)) (by omega)).2
        refine ⟨m, hm, by omega, ?_⟩
        have : m - (i - (k - m)) = k - i := by omega
        rw [this]; exact hmem

theorem shifted_zero (l : List Bool) (n : Nat) :
    (if n - n > l.length then List.replicate l.length false else shiftEnd l (n - n)) = l := by
  simp [shiftEnd]

/-- an id at or below the current maximum: the window does not move; the bit decides -/
theorem rel_step_below (s : State) (sp : Spec) (k m : Nat) (h : Rel s sp) (hk : k ≠ keyIdMax)
    (hm : sp.max = some m) (hle : k ≤ m) :
    Rel (postAuthentication s k).1 (sp.step k).1 ∧ isOk (postAuthentication s k).2 = (sp.step k).2 := by
  have hms : s.maxSeen = some m := by rw [h.max_eq, hm]
  have hs : (⟨some m, s.seen⟩ : State) = s := by
    cases s with
    | mk a b => simp only at hms; rw [hms]
  have hpn : prevNew s k = (m, m) := by
    unfold prevNew; rw [hms]; simp only [Nat.max_eq_left hle]
  rw [post_eq s k hk m m hpn, shifted_zero]
  cases hb : s.seen[m - k]? with
  | none =>
    have hfar : ¬ (m - k < WINDOW) := by
      intro hlt
      rw [List.getElem?_eq_none_iff] at hb
      rw [h.len] at hb; omega
    have hrej : ¬ sp.accepts k = true := by
      rw [accepts_iff]
      intro ⟨_, _, hw⟩
      rcases hw with hw | ⟨m', hm', hw⟩
      · rw [hm] at hw; cases hw
      · rw [hm] at hm'; simp only [Option.some.injEq] at hm'; subst hm'; omega
    rw [tas_none _ _ _ hb, step_reject sp k hrej, hs]
    exact ⟨h, rfl⟩
  | some b =>
    have hidx : m - k < WINDOW := by
      have : m - k < s.seen.length := by
        by_cases hlt : m - k < s.seen.length
        · exact hlt
        · rw [List.getElem?_eq_none (by omega)] at hb; cases hb
      rw [h.len] at this; exact this
    cases b with
    | true =>
      have hmem : k ∈ sp.accepted := by
        obtain ⟨m', hm', _, hmem⟩ := (h.bits (m - k) hidx).1 hb
        rw [hm] at hm'; simp only [Option.some.injEq] at hm'; subst hm'
        have : m - (m - k) = k := by omega
        rw [this] at hmem; exact hmem
      have hrej : ¬ sp.accepts k = true := by
        rw [accepts_iff]; intro ⟨_, hn, _⟩; exact hn hmem
      rw [tas_true _ _ _ hb, step_reject sp k hrej, hs]
      exact ⟨h, rfl⟩
    | false =>
      have hfresh : k ∉ sp.accepted := by
        intro hmem
        have : s.seen[m - k]? = some true := by
          apply (h.bits (m - k) hidx).2
          refine ⟨m, hm, by omega, ?_⟩
          have : m - (m - k) = k := by omega
          rw [this]; exact hmem
        rw [hb] at this; cases this
      have hacc : sp.accepts k = true := by
        rw [accepts_iff]; exact ⟨hk, hfresh, Or.inr ⟨m, hm, Or.inr hidx⟩⟩
      have hnm : sp.newMax k = m := by
        unfold Spec.newMax; rw [hm]; exact Nat.max_eq_left hle
      rw [tas_false _ _ _ hb, step_accept sp k hacc]
      refine ⟨⟨?_, ?_, ?_, ?_⟩, rfl⟩
      · simp only [List.length_set]; exact h.len
      · simp only [hnm]
      · intro x hx
        simp only [List.mem_cons] at hx
        refine ⟨m, by simp only [hnm], ?_⟩
        rcases hx with hx | hx
        · omega
        · obtain ⟨m', hm', hx'⟩ := h.le_max x hx
          rw [hm] at hm'; simp only [Option.some.injEq] at hm'; omega
      · intro i hi
        simp only [hnm]
        rw [set_true]
        constructor
        · intro hbit
          rcases hbit with ⟨hbit, _⟩ | hbit
          · refine ⟨m, rfl, by omega, ?_⟩
            simp only [List.mem_cons]; left; omega
          · obtain ⟨m', hm', hle', hmem⟩ := (h.bits i hi).1 hbit
            rw [hm] at hm'; simp only [Option.some.injEq] at hm'; subst hm'
            exact ⟨m, rfl, hle', by simp only [List.mem_cons]; right; exact hmem⟩
        · intro ⟨m', hm', hle', hmem⟩
          simp only [Option.some.injEq] at hm'
          subst hm'
          simp only [List.mem_cons] at hmem
          rcases hmem with hmem | hmem
          · left; exact ⟨by omega, by rw [h.len]; exact hidx⟩
          · right; exact (h.bits i hi).2 ⟨m, hm, hle', hmem⟩

/-- forward simulation: one `post_authentication` step of the window is one step of the reference,
    with the same verdict -/
theorem rel_step (s : State) (sp : Spec) (k : Nat) (h : Rel s sp) :
    Rel (postAuthentication s k).1 (sp.step k).1 ∧ isOk (postAuthentication s k).2 = (sp.step k).2 := by
  by_cases hk : k = keyIdMax
  · subst hk
    have hrej : ¬ sp.accepts keyIdMax = true := by
      rw [accepts_iff]; intro ⟨h1, _⟩; exact h1 rfl
    rw [post_max, step_reject _ _ hrej]
    exact ⟨h, rfl⟩
  · cases hm : sp.max with
    | none => exact rel_step_none s sp k h hk hm
    | some m =>
      by_cases hlt : m < k
      · exact rel_step_above s sp k m h hk hm hlt
      · exact rel_step_below s sp k m h hk hm (by omega)


/-! ### whole histories -/

/-- invariant of the reference: `max` is the highest accepted id and no id is listed twice -/
structure SpecInv (sp : Spec) : Prop where
  max_eq : sp.max = highest sp.accepted
  nodup : sp.accepted.Nodup
  no_max : keyIdMax ∉ sp.accepted

theorem specInv_init : SpecInv Spec.init := ⟨rfl, List.nodup_nil, fun h => by cases h⟩

theorem specInv_step (sp : Spec) (k : Nat) (h : SpecInv sp) : SpecInv (sp.step k).1 := by
  by_cases hacc : sp.accepts k = true
  · rw [step_accept sp k hacc]
    have hk := (accepts_iff sp k).1 hacc
    refine ⟨?_, ?_, ?_⟩
    · show some (sp.newMax k) = highest (k :: sp.accepted)
      unfold highest Spec.newMax
      rw [← h.max_eq]
    · exact List.nodup_cons.2 ⟨hk.2.1, h.nodup⟩
    · intro hm
      simp only [List.mem_cons] at hm
      rcases hm with hm | hm
      · exact hk.1 hm.symm
      · exact h.no_max hm
  · rw [step_reject sp k hacc]; exact h

theorem specInv_run (sp : Spec) (ks : List Nat) (h : SpecInv sp) : SpecInv (sp.runState ks) := by
  induction ks generalizing sp with
  | nil => exact h
  | cons k ks ih => exact ih _ (specInv_step sp k h)

/-- the window follows the reference along every history, and the ids it answered `Ok` are
    exactly the reference's accepted set -/
theorem rel_run (s : State) (sp : Spec) (ks : List Nat) (h : Rel s sp) :
    Rel (runState s ks) (sp.runState ks) ∧ acceptedIds s sp.accepted ks = (sp.runState ks).accepted := by
  induction ks generalizing s sp with
  | nil => exact ⟨h, rfl⟩
  | cons k ks ih =>
    obtain ⟨hr, ho⟩ := rel_step s sp k h
    have := ih _ _ hr
    refine ⟨this.1, ?_⟩
    show acceptedIds (postAuthentication s k).1
        (if isOk (postAuthentication s k).2 then k :: sp.accepted else sp.accepted) ks
        = ((sp.step k).1.runState ks).accepted
    rw [← this.2, ho]
    by_cases hacc : sp.accepts k = true
    · rw [step_accept sp k hacc]; simp
    · rw [step_reject sp k hacc]; simp

/-- the accepted set only grows -/
theorem accepted_mono (sp : Spec) (ks : List Nat) (x : Nat) (hx : x ∈ sp.accepted) :
    x ∈ (sp.runState ks).accepted := by
  induction ks generalizing sp with
  | nil => exact hx
  | cons k ks ih =>
    apply ih
    by_cases hacc : sp.accepts k = true
    · rw [step_accept sp k hacc]; exact List.mem_cons_of_mem _ hx
    · rw [step_reject sp k hacc]; exact hx

theorem runState_append (s : State) (a b : List Nat) : runState s (a ++ b) = runState (runState s a) b := by
  induction a generalizing s with
  | nil => rfl
  | cons k ks ih => exact ih _

theorem spec_runState_append (sp : Spec) (a b : List Nat) :
    sp.runState (a ++ b) = (sp.runState a).runState b := by
  induction a generalizing sp with
  | nil => rfl
  | cons k ks ih => exact ih _

end Quic.Proofs.DcReplay

namespace Quic.Proofs.DcReplay
open Quic.Dc.ReplayWindow

theorem isOk_ne_error (r : Except Error Unit) (e : Error) (h : isOk r = true) : r ≠ .error e := by
  intro hr; rw [hr] at h; cases h

/-- which error: `AlreadyExists` exactly for ids that were accepted and are still inside the window
    ("definitely seen"); everything else that is refused is `Unknown` -/
theorem post_already_iff (s : State) (sp : Spec) (k : Nat) (h : Rel s sp) :
    (postAuthentication s k).2 = .error .alreadyExists ↔
      k ≠ keyIdMax ∧ k ∈ sp.accepted ∧ ∃ m, sp.max = some m ∧ m - k < WINDOW := by
  by_cases hk : k = keyIdMax
  · subst hk
    rw [post_max]
    constructor
    · intro hc; cases hc
    · intro ⟨h1, _⟩; exact absurd rfl h1
  · have hle : ∀ x ∈ sp.accepted, ∀ m, sp.max = some m → x ≤ m := by
      intro x hx m hm
      obtain ⟨m', hm', hx'⟩ := h.le_max x hx
      rw [hm] at hm'; simp only [Option.some.injEq] at hm'; omega
    cases hm : sp.max with
    | none =>
      have hs := (rel_step_none s sp k h hk hm).2
      have hacc : sp.accepts k = true := by
        rw [accepts_iff]
        refine ⟨hk, ?_, Or.inl hm⟩
        intro hx; obtain ⟨m, hm', _⟩ := h.le_max k hx; rw [hm] at hm'; cases hm'
      rw [step_accept sp k hacc] at hs
      constructor
      · intro hc; exact absurd hc (isOk_ne_error _ _ hs)
      · intro ⟨_, _, m, hm', _⟩; cases hm'
    | some m =>
      by_cases hlt : m < k
      · have hs := (rel_step_above s sp k m h hk hm hlt).2
        have hacc : sp.accepts k = true := by
          rw [accepts_iff]
          refine ⟨hk, ?_, Or.inr ⟨m, hm, Or.inl hlt⟩⟩
          intro hx; have := hle k hx m hm; omega
        rw [step_accept sp k hacc] at hs
        constructor
        · intro hc; exact absurd hc (isOk_ne_error _ _ hs)
        · intro ⟨_, hx, _⟩; have := hle k hx m hm; omega
      · have hkm : k ≤ m := by omega
        have hms : s.maxSeen = some m := by rw [h.max_eq, hm]
        have hpn : prevNew s k = (m, m) := by
          unfold prevNew; rw [hms]; simp only [Nat.max_eq_left hkm]
        rw [post_eq s k hk m m hpn, shifted_zero]
        cases hb : s.seen[m - k]? with
        | none =>
          rw [tas_none _ _ _ hb]
          constructor
          · intro hc; cases hc
          · intro ⟨_, _, m', hm', hw⟩
            simp only [Option.some.injEq] at hm'; subst hm'
            rw [List.getElem?_eq_none_iff, h.len] at hb; omega
        | some b =>
          have hidx : m - k < WINDOW := by
            have : m - k < s.seen.length := by
              by_cases hlt' : m - k < s.seen.length
              · exact hlt'
              · rw [List.getElem?_eq_none (by omega)] at hb; cases hb
            rw [h.len] at this; exact this
          cases b with
          | true =>
            rw [tas_true _ _ _ hb]
            simp only [true_iff]
            obtain ⟨m', hm', _, hmem⟩ := (h.bits (m - k) hidx).1 hb
            rw [hm] at hm'; simp only [Option.some.injEq] at hm'; subst hm'
            have : m - (m - k) = k := by omega
            rw [this] at hmem
            exact ⟨hk, hmem, m, rfl, hidx⟩
          | false =>
            rw [tas_false _ _ _ hb]
            constructor
            · intro hc; cases hc
            · intro ⟨_, hmem, _⟩
              have : s.seen[m - k]? = some true := by
                apply (h.bits (m - k) hidx).2
                refine ⟨m, hm, by omega, ?_⟩
                have : m - (m - k) = k := by omega
                rw [this]; exact hmem
              rw [hb] at this; cases this

end Quic.Proofs.DcReplay

namespace Quic.Proofs.DcReplay
open Quic.Dc.ReplayWindow

theorem highest_mem (l : List Nat) (m : Nat) (h : highest l = some m) : m ∈ l := by
  induction l generalizing m with
  | nil => cases h
  | cons k ks ih =>
    unfold highest at h
    cases hk : highest ks with
    | none =>
      rw [hk] at h; simp only [Option.some.injEq] at h
      rw [← h]; exact List.mem_cons_self
    | some m' =>
      rw [hk] at h; simp only [Option.some.injEq] at h
      have hm' := ih m' hk
      rcases Nat.le_total m' k with hle | hle
      · have : Nat.max m' k = k := Nat.max_eq_right hle
        rw [this] at h; rw [← h]; exact List.mem_cons_self
      · have : Nat.max m' k = m' := Nat.max_eq_left hle
        rw [this] at h; rw [← h]; exact List.mem_cons_of_mem _ hm'

/-- only offered ids are ever accepted -/
theorem accepted_subset (s : State) (acc ks : List Nat) :
    ∀ x ∈ acceptedIds s acc ks, x ∈ acc ∨ x ∈ ks := by
  induction ks generalizing s acc with
  | nil => intro x hx; exact Or.inl hx
  | cons k ks ih =>
    intro x hx
    have := ih _ _ x hx
    rcases this with h | h
    · by_cases hok : isOk (postAuthentication s k).2 = true
      · rw [if_pos hok] at h
        simp only [List.mem_cons] at h
        rcases h with h | h
        · right; rw [h]; exact List.mem_cons_self
        · left; exact h
      · rw [if_neg hok] at h; left; exact h
    · right; exact List.mem_cons_of_mem _ h

end Quic.Proofs.DcReplay

namespace Quic.Proofs.DcKeyIds
open Quic.Dc.KeyIds

/-- what a successful `next_key_id` does: hands out the old counter and stores counter + 1 < MAX -/
theorem next_cases (c : Nat) :
    (c + 1 < varIntMax ∧ next c = (c + 1, some c)) ∨ (varIntMax ≤ c + 1 ∧ next c = (c, none)) := by
  unfold next nextUpdate
  by_cases h1 : c + 1 ≤ varIntMax
  · by_cases h2 : c + 1 = varIntMax
    · right; rw [if_pos h1, if_neg (by simpa using h2)]; exact ⟨by omega, rfl⟩
    · left; rw [if_pos h1, if_pos h2]; exact ⟨by omega, rfl⟩
  · right; rw [if_neg h1]; exact ⟨by omega, rfl⟩

/-- the counter never decreases -/
theorem step_mono (c : Nat) (s : Step) : c ≤ (step c s).1 := by
  cases s with
  | next t =>
    show c ≤ (next c).1
    rcases next_cases c with ⟨_, h⟩ | ⟨_, h⟩ <;> rw [h] <;> simp
  | stale t v => show c ≤ max c v; exact Nat.le_max_left _ _

/-- an id handed out by a step is the counter before the step, and the counter moves past it -/
theorem step_some (c : Nat) (s : Step) (id : Nat) (h : (step c s).2 = some id) :
    id = c ∧ (step c s).1 = c + 1 ∧ c + 1 < varIntMax := by
  cases s with
  | next t =>
    change (next c).2 = some id at h
    show id = c ∧ (next c).1 = c + 1 ∧ c + 1 < varIntMax
    rcases next_cases c with ⟨h1, h2⟩ | ⟨_, h2⟩
    · rw [h2] at h ⊢; simp only [Option.some.injEq] at h; exact ⟨h.symm, rfl, h1⟩
    · rw [h2] at h; cases h
  | stale t v => cases h

theorem issued_cons (c : Nat) (s : Step) (ss : List Step) :
    issued c (s :: ss) = (match (step c s).2 with
      | some id => id :: issued (step c s).1 ss
      | none => issued (step c s).1 ss) := rfl

/-- every id issued from counter value c on is ≥ c -/
theorem issued_ge (c : Nat) (ss : List Step) : ∀ x ∈ issued c ss, c ≤ x := by
  induction ss generalizing c with
  | nil => intro x hx; cases hx
  | cons s ss ih =>
    intro x hx
    rw [issued_cons] at hx
    have hmono := step_mono c s
    cases hs : (step c s).2 with
    | none =>
      rw [hs] at hx
      have := ih _ x hx; omega
    | some id =>
      rw [hs] at hx
      obtain ⟨h1, h2, _⟩ := step_some c s id hs
      simp only [List.mem_cons] at hx
      rcases hx with hx | hx
      · omega
      · have := ih _ x hx; omega

end Quic.Proofs.DcKeyIds
