import QuicModel.Sync.Waker
import QuicProofs.Lemmas.SpscStepD
/-
  C17 helper lemmas: inductive invariant of the register → re-check → park / set → wake handshake
  over the RA machine (waiter program `[check, register, check]`, ANY notifier program, ANY ordering
  of the condition accesses; the waker register's RMWs are AcqRel by assumption).
-/
namespace Quic.Sync.Waker
open Quic.Sync.Ra Quic.Sync.Spsc

structure WInv (s : Sys) : Prop where
  condNe : 1 ≤ (s.mem.hist COND).length
  cond0 : ∀ m ∈ s.mem.hist COND, m.val = 0 → m.ts = 0 ∧ m.view.atm COND = 0
  setN : s.isSet = true → 1 ≤ s.nv.atm COND
  j3 : s.wakeAfterSet = true → ∀ top rest, s.mem.hist WAKER = top :: rest → 1 ≤ top.view.atm COND
  j2 : s.reg = true → s.woken = true ∨ ∀ top rest, s.mem.hist WAKER = top :: rest → top.val = 1
  j1 : s.reg = true → s.wakeAfterSet = true → s.woken = true ∨ 1 ≤ s.wv.atm COND
  j7 : s.wakeAfterSet = true ∨ pend s.isSet s.nprog = true
  j8 : s.wstat = .parked → s.reg = true ∧ s.wv.atm COND = 0
  j9 : (∃ a b, s.wprog = List.replicate a .check ++ .register :: List.replicate (b + 1) .check ∧ s.wstat = .running) ∨
       (∃ b, s.wprog = List.replicate (b + 1) .check ∧ s.reg = true ∧ s.wstat = .running) ∨
       (s.wprog = [] ∧ s.wstat ≠ .running)

/-- the waiter programs covered: `a` checks, one register, then at least one more check -/
def waiterShape (a b : Nat) : List WAct := List.replicate a .check ++ .register :: List.replicate (b + 1) .check

theorem waiterPinned_shape : waiterPinned = waiterShape 1 0 := rfl

theorem j9_check {s : Sys} {rest : List WAct} (inv : WInv s) (hprog : s.wprog = .check :: rest) :
    (∃ a b, rest = List.replicate a .check ++ .register :: List.replicate (b + 1) .check) ∨
    (s.reg = true ∧ ∃ b, rest = List.replicate b .check) := by
  rcases inv.j9 with ⟨a, b, h1, _⟩ | ⟨b, h1, h2, _⟩ | ⟨h1, _⟩
  · rw [hprog] at h1
    cases a with
    | zero => simp at h1
    | succ a => simp [List.replicate_succ] at h1; exact .inl ⟨a, b, h1⟩
  · rw [hprog] at h1
    simp [List.replicate_succ] at h1
    exact .inr ⟨h2, b, h1⟩
  · rw [hprog] at h1; simp at h1

theorem j9_register {s : Sys} {rest : List WAct} (inv : WInv s) (hprog : s.wprog = .register :: rest) :
    ∃ b, rest = List.replicate (b + 1) .check := by
  rcases inv.j9 with ⟨a, b, h1, _⟩ | ⟨b, h1, h2, _⟩ | ⟨h1, _⟩
  · rw [hprog] at h1
    cases a with
    | zero => simp at h1; exact ⟨b, h1⟩
    | succ a => simp [List.replicate_succ] at h1
  · rw [hprog] at h1; simp [List.replicate_succ] at h1
  · rw [hprog] at h1; simp at h1

theorem afterLoad_atm_self_eq (V : View) (o : Ord) (l : Nat) (x : Msg) :
    (afterLoad V o l x).atm l = if o.isAcq then max x.ts (x.view.atm l) else x.ts := by
  unfold afterLoad
  split <;> simp [View.join, View.setAtm]

theorem winv_init_shape {np : List NAct} (a b : Nat) (h : pend false np = true) : WInv (init (waiterShape a b) np) := by
  constructor <;> simp [init, waiterShape, Mem.init, View.bot, h]
  exact ⟨a, b, rfl⟩

theorem winv_init {np : List NAct} (h : pend false np = true) : WInv (init waiterPinned np) :=
  winv_init_shape 1 0 h

theorem pend_set (b : Bool) (r : List NAct) : pend b (.set :: r) = pend true r := by
  cases b <;> rfl

theorem winv_step {oS oL : Ord} {s s' : Sys} {a : Act} (inv : WInv s) (h : step oS oL s a = some s') :
    WInv s' := by
  cases a with
  | w ts =>
    simp only [step] at h
    split at h
    · -- check
      rename_i rest hst hprog
      split at h
      · simp at h
      rename_i m hr
      obtain ⟨hm, hts⟩ := readable_some hr
      split at h
      · -- ready
        simp only [Option.some.injEq] at h; subst h
        constructor
        · exact inv.condNe
        · exact inv.cond0
        · exact inv.setN
        · exact inv.j3
        · exact inv.j2
        · intro hr hw
          rcases inv.j1 hr hw with h | h
          · exact .inl h
          · right; have := afterLoad_atm_ge s.wv oL COND m hts COND; dsimp only; omega
        · exact inv.j7
        · intro hp; simp at hp
        · right; right; simp
      · -- not ready
        rename_i hv
        have hv0 : m.val = 0 := by simpa using hv
        obtain ⟨hts0, hview0⟩ := inv.cond0 m hm hv0
        have hwv0 : s.wv.atm COND = 0 := by omega
        have hnew : (afterLoad s.wv oL COND m).atm COND = 0 := by
          rw [afterLoad_atm_self_eq]; split <;> omega
        simp only [Option.some.injEq] at h; subst h
        constructor
        · exact inv.condNe
        · exact inv.cond0
        · exact inv.setN
        · exact inv.j3
        · exact inv.j2
        · intro hr hw
          rcases inv.j1 hr hw with h | h
          · exact .inl h
          · omega
        · exact inv.j7
        · intro hp
          dsimp only at hp ⊢
          rcases j9_check inv hprog with ⟨a, b, hr⟩ | ⟨hreg, b, hr⟩
          · subst hr; simp at hp
          · exact ⟨hreg, hnew⟩
        · dsimp only
          rcases j9_check inv hprog with ⟨a, b, hr⟩ | ⟨hreg, b, hr⟩
          · subst hr; left; exact ⟨a, b, rfl, by simp⟩
          · cases b with
            | zero => subst hr; right; right; simp
            | succ b => subst hr; right; left; exact ⟨b, rfl, hreg, by simp⟩
    · -- register
      rename_i rest hst hprog
      split at h
      · simp at h
      rename_i last mem V hrmw
      obtain ⟨⟨rst, hh⟩, hV, hmem⟩ := rmw_some hrmw
      simp only [Ord.isAcq, Ord.isRel, if_true] at hV hmem
      have hVc : V.atm COND = max (s.wv.atm COND) (last.view.atm COND) := by rw [hV]; rfl
      simp only [Option.some.injEq] at h; subst h hmem
      constructor
      · exact inv.condNe
      · exact inv.cond0
      · exact inv.setN
      · intro hw top r heq
        simp at heq
        have := inv.j3 hw last rst hh
        rw [← heq.1]; simp [View.join]; omega
      · intro _; right; intro top r heq; simp at heq; rw [← heq.1]
      · intro _ hw
        right
        have := inv.j3 hw last rst hh
        dsimp only; omega
      · exact inv.j7
      · intro hp
        dsimp only at hp
        obtain ⟨b, hr⟩ := j9_register inv hprog
        subst hr; simp at hp
      · dsimp only
        obtain ⟨b, hr⟩ := j9_register inv hprog
        subst hr; right; left; exact ⟨b, rfl, rfl, by simp⟩
    · simp at h
  | n =>
    simp only [step] at h
    split at h
    · simp at h
    · -- set
      rename_i rest hprog
      simp only [store, Option.some.injEq] at h; subst h
      constructor
      · simp
      · intro m hm hv
        simp at hm
        rcases hm with rfl | hm
        · simp at hv
        · exact inv.cond0 m hm hv
      · intro _; simp [View.setAtm]; exact inv.condNe
      · exact inv.j3
      · exact inv.j2
      · exact inv.j1
      · rcases inv.j7 with h | h
        · exact .inl h
        · right; rw [hprog, pend_set] at h; exact h
      · exact inv.j8
      · exact inv.j9
    · -- wake
      rename_i rest hprog
      split at h
      · simp at h
      rename_i last mem V hrmw
      obtain ⟨⟨rst, hh⟩, hV, hmem⟩ := rmw_some hrmw
      simp only [Ord.isAcq, Ord.isRel, if_true] at hV hmem
      have hVc : V.atm COND = max (s.nv.atm COND) (last.view.atm COND) := by rw [hV]; rfl
      simp only [Option.some.injEq] at h; subst h hmem
      constructor
      · exact inv.condNe
      · exact inv.cond0
      · intro hs; have := inv.setN hs; dsimp only; omega
      · intro hw top r heq
        simp at heq hw
        rw [← heq.1]; simp [View.join]
        rcases hw with hw | hw
        · have := inv.j3 hw last rst hh; omega
        · have := inv.setN hw; omega
      · intro hr
        left
        rcases inv.j2 hr with h | h
        · simp [h]
        · simp [h last rst hh]
      · intro hr _
        left
        rcases inv.j2 hr with h | h
        · simp [h]
        · simp [h last rst hh]
      · rcases inv.j7 with h | h
        · left; simp [h]
        · rw [hprog] at h
          cases hs : s.isSet
          · rw [hs] at h; right; exact h
          · left; simp
      · exact inv.j8
      · exact inv.j9

theorem winv_run {oS oL : Ord} {s0 s : Sys} (acts : List Act) (inv : WInv s0) (h : run oS oL s0 acts = some s) :
    WInv s := by
  induction acts generalizing s0 with
  | nil => simp [run] at h; subst h; exact inv
  | cons a as ih =>
    simp only [run] at h
    split at h
    · simp at h
    · rename_i s1 hs
      exact ih (winv_step inv hs) h

end Quic.Sync.Waker
