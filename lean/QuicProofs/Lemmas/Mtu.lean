import QuicModel.Path.Mtu
namespace Quic.Proofs.Lemmas.Mtu
open Quic.Path.Mtu

/-- states in which a probe is requested or in flight -/
def probing : St → Bool
  | .searchRequested => true
  | .searching _ _ => true
  | _ => false

/-- the invariant of `mtu::Controller` (every u16 subtraction of the code has ordered operands under it) -/
structure Inv (c : Ctl) : Prop where
  base_ge : 1200 ≤ c.base
  base_le : c.base ≤ c.plpmtu
  pl_le : c.plpmtu ≤ c.probed
  pr_le : c.probed ≤ c.maxProbe
  mp_le : c.maxProbe ≤ c.maxUdp
  gap : probing c.state = true → c.plpmtu + 20 ≤ c.probed
  early : c.state = .early → c.base < c.plpmtu
  pc : c.probeCount ≤ 3
  pcReq : c.state = .searchRequested → c.probeCount ≤ 2
  bh : c.bh ≤ 3
  timer : c.timer.isSome = true → c.state = .searchComplete

theorem inv_requestNewSearch {c : Ctl} (h : Inv c) (last : Option Nat) (ht : c.timer = none) :
    Inv (c.requestNewSearch last) := by
  obtain ⟨h1, h2, h3, h4, h5, h6, h7, h8, h9, h10, h11⟩ := h
  unfold Ctl.requestNewSearch Ctl.armTimer Ctl.updateProbed Ctl.setComplete Ctl.above nextProbeSize PROBE_THRESHOLD
  cases last <;> simp only [] <;> (repeat' split) <;>
    (constructor <;> simp_all [probing] <;> omega)

theorem inv_enable {c : Ctl} (h : Inv c) : Inv c.enable := by
  unfold Ctl.enable
  split
  · rename_i hs
    apply inv_requestNewSearch h
    have := h.timer
    cases ht : c.timer with
    | none => rfl
    | some t => simp [ht] at this; rcases hs with hs | hs <;> simp [this] at hs
  · exact h

theorem inv_onTimeout {c : Ctl} (h : Inv c) (now : Nat) : Inv (c.onTimeout now) := by
  unfold Ctl.onTimeout
  split
  · split
    · apply inv_requestNewSearch _ _ rfl
      obtain ⟨h1, h2, h3, h4, h5, h6, h7, h8, h9, h10, h11⟩ := h
      constructor <;> simp_all
    · exact h
  · exact h

theorem inv_onTx {c : Ctl} (h : Inv c) (pn now cap : Nat) (fail : Bool) : Inv (c.onTx pn now cap fail) := by
  obtain ⟨h1, h2, h3, h4, h5, h6, h7, h8, h9, h10, h11⟩ := h
  unfold Ctl.onTx Ctl.setComplete
  (repeat' split) <;> (constructor <;> simp_all [probing] <;> omega)

def earlyStage (c : Ctl) (bytes : Nat) : Ctl :=
  if c.state = .early ∧ bytes > c.base then
    (if c.above then { c with state := .disabled } else c.setComplete)
  else c

theorem inv_earlyStage {c : Ctl} (h : Inv c) (bytes : Nat) : Inv (earlyStage c bytes) := by
  obtain ⟨h1, h2, h3, h4, h5, h6, h7, h8, h9, h10, h11⟩ := h
  unfold earlyStage Ctl.setComplete
  (repeat' split) <;> (constructor <;> simp_all [probing])

def resetStage (c : Ctl) (pn bytes : Nat) : Ctl :=
  if decide (bytes ≥ c.plpmtu) && newerThanAcked c.largestAcked pn then
    { c with bh := 0, largestAcked := some pn } else c

theorem inv_resetStage {c : Ctl} (h : Inv c) (pn bytes : Nat) : Inv (resetStage c pn bytes) := by
  obtain ⟨h1, h2, h3, h4, h5, h6, h7, h8, h9, h10, h11⟩ := h
  unfold resetStage
  split <;> (constructor <;> simp_all)

theorem inv_probeAcked {c : Ctl} (h : Inv c) {ppn t : Nat} (hs : c.state = .searching ppn t) :
    Inv ((({ c with plpmtu := c.probed } : Ctl).updateProbed).requestNewSearch (some t)) := by
  obtain ⟨h1, h2, h3, h4, h5, h6, h7, h8, h9, h10, h11⟩ := h
  have ht : c.timer = none := by
    cases hh : c.timer with
    | none => rfl
    | some x => simp [hh, hs] at h11
  unfold Ctl.requestNewSearch Ctl.armTimer Ctl.updateProbed Ctl.setComplete Ctl.above nextProbeSize PROBE_THRESHOLD
  simp only []
  (repeat' split) <;> (constructor <;> simp_all [probing] <;> omega)

theorem onAck_eq (c : Ctl) (pn bytes : Nat) (app : Bool) :
    c.onAck pn bytes app =
      (let c1 := earlyStage c bytes
       if c1.state = .disabled then (c1, nc)
       else if !app then (c1, nc)
       else
         let c2 := resetStage c1 pn bytes
         match c2.state with
         | .searching ppn t =>
           if pn = ppn then
             let c3 := (({ c2 with plpmtu := c2.probed } : Ctl).updateProbed).requestNewSearch (some t)
             (c3, ⟨some c3.plpmtu, 1⟩)
           else (c2, nc)
         | _ => (c2, nc)) := rfl

theorem inv_onAck {c : Ctl} (h : Inv c) (pn bytes : Nat) (app : Bool) : Inv (c.onAck pn bytes app).1 := by
  rw [onAck_eq]
  have i1 := inv_earlyStage h bytes
  have i2 := inv_resetStage i1 pn bytes
  simp only []
  split
  · exact i1
  · split
    · exact i1
    · split
      · rename_i ppn t hs
        split
        · exact inv_probeAcked i2 hs
        · exact i2
      · exact i2

def countStage (c : Ctl) (pn bytes : Nat) (burst : Bool) : Ctl :=
  if c.lossCounts pn bytes burst then { c with bh := min 255 (c.bh + 1) } else c

theorem inv_lossOther {c : Ctl} (h : Inv c) (hs : c.state ≠ .early) (pn bytes : Nat) (burst : Bool) (now : Nat) :
    Inv (c.lossOther pn bytes burst now).1 := by
  obtain ⟨h1, h2, h3, h4, h5, h6, h7, h8, h9, h10, h11⟩ := h
  unfold Ctl.lossOther Ctl.onBlackHole Ctl.armTimer Ctl.updateProbed Ctl.setComplete Ctl.above nextProbeSize
    PROBE_THRESHOLD BLACK_HOLE_THRESHOLD nc
  simp only []
  (repeat' split) <;> (constructor <;> simp_all [probing] <;> omega)

theorem inv_probeLost {c : Ctl} (h : Inv c) {ppn t : Nat} (hs : c.state = .searching ppn t) :
    Inv ((({ c with maxProbe := c.probed } : Ctl).updateProbed).requestNewSearch none) := by
  obtain ⟨h1, h2, h3, h4, h5, h6, h7, h8, h9, h10, h11⟩ := h
  unfold Ctl.requestNewSearch Ctl.updateProbed Ctl.setComplete Ctl.above nextProbeSize PROBE_THRESHOLD
  simp only []
  (repeat' split) <;> (constructor <;> simp_all [probing] <;> omega)

theorem inv_earlyLost {c : Ctl} (h : Inv c) (hs : c.state = .early) :
    Inv (if ({ c with plpmtu := c.base } : Ctl).above then { c with plpmtu := c.base, state := .disabled }
         else ({ c with plpmtu := c.base } : Ctl).setComplete) := by
  obtain ⟨h1, h2, h3, h4, h5, h6, h7, h8, h9, h10, h11⟩ := h
  unfold Ctl.setComplete
  split <;> (constructor <;> simp_all [probing] <;> omega)

theorem inv_onLoss {c : Ctl} (h : Inv c) (pn bytes : Nat) (burst : Bool) (now : Nat) (app : Bool) :
    Inv (c.onLoss pn bytes burst now app).1 := by
  unfold Ctl.onLoss
  split
  · exact h
  · split
    · exact h
    · rename_i hs; exact inv_earlyLost h hs
    · rename_i ppn t hs
      split
      · split
        · exact inv_probeLost h hs
        · obtain ⟨h1, h2, h3, h4, h5, h6, h7, h8, h9, h10, h11⟩ := h
          have hp : c.probeCount ≠ 3 := by simpa [MAX_PROBES] using ‹¬c.probeCount = MAX_PROBES›
          constructor <;> simp_all [probing] <;> omega
      · exact inv_lossOther h (by simp [hs]) _ _ _ _
    · rename_i hs; exact inv_lossOther h (by simp [hs]) _ _ _ _
    · rename_i hs; exact inv_lossOther h (by simp [hs]) _ _ _ _

theorem inv_step {c : Ctl} (h : Inv c) (e : Ev) : Inv (c.step e) := by
  cases e with
  | enable => exact inv_enable h
  | tx pn now cap fail => exact inv_onTx h pn now cap fail
  | ack pn bytes app => exact inv_onAck h pn bytes app
  | loss pn bytes burst now app => exact inv_onLoss h pn bytes burst now app
  | timeout now => exact inv_onTimeout h now

end Quic.Proofs.Lemmas.Mtu
