import QuicModel.Dc.StreamRecv
import QuicProofs.Lemmas.RefBuf
import QuicProofs.Lemmas.Reassembly
import QuicProofs.Lemmas.SlidingWindow
/-
  Helper lemmas for C20 (receiver skeleton `Dc.StreamRecv`): which fields each step touches,
  the ghost history really is the reassembler's history, the duplicate filter represents the ghost
  set of accepted packet numbers, the idle timer is armed while data is expected.
-/
namespace Quic.Proofs.DcStreamRecvLemmas
open Quic.Data Quic.Data.RefBuf Quic.Dc.StreamRecv
open Quic.Recovery.Time (hasElapsed timerExpired)
open Quic.Proofs.RefBufLemmas
open Quic.Proofs.Lemmas.SlidingWindow (Rel step_sim rel_init classify_ok_not_mem ref_step_insert_ok ref_step_insert_ne)

/-! ### frame lemmas: what the small steps leave alone -/

/-- the fields of the receiver that the theorems talk about, except the state machine -/
def Same (a b : Recv) : Prop :=
  a.buf = b.buf ∧ a.streamFilter = b.streamFilter ∧ a.recoveryFilter = b.recoveryFilter ∧
  a.idleTimeout = b.idleTimeout

theorem Same.rfl' (a : Recv) : Same a a := ⟨rfl, rfl, rfl, rfl⟩

theorem Same.trans {a b c : Recv} (h1 : Same a b) (h2 : Same b c) : Same a c :=
  ⟨h1.1.trans h2.1, h1.2.1.trans h2.2.1, h1.2.2.1.trans h2.2.2.1, h1.2.2.2.trans h2.2.2.2⟩

theorem onError_same (r : Recv) (e : ErrKind) (l : Bool) : Same (onError r e l) r := by
  unfold onError Same
  cases r.error <;> cases l <;> simp [needsTransmission, silentShutdown]

theorem onError_not_expects (r : Recv) (e : ErrKind) (l : Bool) :
    (onError r e l).state.expectsData = false := by
  unfold onError
  cases hs : r.state <;> cases r.error <;> cases l <;>
    simp [needsTransmission, silentShutdown, RState.onReset, RState.onAppReadReset, RState.expectsData]

theorem orbMaxData_frame (r : Recv) :
    Same (orbMaxData r) r ∧ (orbMaxData r).state = r.state ∧ (orbMaxData r).idleTimer = r.idleTimer ∧
    (orbMaxData r).error = r.error := by
  by_cases h : min (r.buf.consumed + r.maxDataWindow) maxOffset > r.maxData <;>
    simp [orbMaxData, Same, h, needsTransmission]

theorem orbFin_frame (r : Recv) :
    Same (orbFin r) r ∧ (orbFin r).idleTimer = r.idleTimer ∧ (orbFin r).error = r.error ∧
    (orbFin r).state.expectsData = r.state.expectsData ∧ ((orbFin r).state = .dataRead → r.state = .dataRead) := by
  unfold orbFin Same
  split
  · cases hs : r.state <;> simp [RState.onReceiveFin, RState.expectsData, hs]
  · simp

theorem orbAllData_frame (r : Recv) :
    Same (orbAllData r) r ∧ (orbAllData r).idleTimer = r.idleTimer ∧ (orbAllData r).error = r.error ∧
    ((orbAllData r).state.expectsData = true → (orbAllData r).state = r.state) ∧
    ((orbAllData r).state = .dataRead → r.state = .dataRead) := by
  unfold orbAllData Same
  split
  · cases hs : r.state <;> simp [RState.onReceiveAllData, RState.expectsData, needsTransmission, hs]
  · simp

theorem orbRead_frame (r : Recv) :
    Same (orbRead r) r ∧ (orbRead r).idleTimer = r.idleTimer ∧ (orbRead r).error = r.error ∧
    ((orbRead r).state.expectsData = true → (orbRead r).state = r.state) ∧
    ((orbRead r).state = .dataRead → r.state = .dataRead ∨ isReadingComplete r.buf = true) := by
  by_cases hc : isReadingComplete r.buf = true
  · cases hs : r.state <;> simp [orbRead, Same, RState.onAppReadAllData, RState.expectsData, needsTransmission, hs, hc]
  · refine ⟨?_, ?_, ?_, ?_, ?_⟩ <;> simp [orbRead, Same, hc]

theorem onReadBuffer_frame (r : Recv) :
    Same (onReadBuffer r) r ∧ (onReadBuffer r).idleTimer = r.idleTimer ∧ (onReadBuffer r).error = r.error ∧
    ((onReadBuffer r).state.expectsData = true → r.state.expectsData = true) ∧
    ((onReadBuffer r).state = .dataRead → r.state = .dataRead ∨ isReadingComplete r.buf = true) := by
  unfold onReadBuffer
  have h1 := orbMaxData_frame r
  have h2 := orbFin_frame (orbMaxData r)
  have h3 := orbAllData_frame (orbFin (orbMaxData r))
  have h4 := orbRead_frame (orbAllData (orbFin (orbMaxData r)))
  refine ⟨h4.1.trans (h3.1.trans (h2.1.trans h1.1)), ?_, ?_, ?_, ?_⟩
  · rw [h4.2.1, h3.2.1, h2.2.1, h1.2.2.1]
  · rw [h4.2.2.1, h3.2.2.1, h2.2.2.1, h1.2.2.2]
  · intro h
    have e4 := h4.2.2.2.1 h
    rw [e4] at h
    have e3 := h3.2.2.2.1 h
    rw [e3] at h
    rw [h2.2.2.2.1, h1.2.1] at h
    exact h
  · intro h
    rcases h4.2.2.2.2 h with h' | h'
    · left
      have := h3.2.2.2.2 h'
      have := h2.2.2.2.2 this
      rw [h1.2.1] at this
      exact this
    · right
      rw [h3.1.1, h2.1.1, h1.1.1] at h'
      exact h'

/-! ### the duplicate filter -/

theorem dedupe_fields (r : Recv) (sp : Space) (pn : Nat) :
    (dedupe r sp pn).1.buf = r.buf ∧ (dedupe r sp pn).1.idleTimeout = r.idleTimeout ∧
    (dedupe r sp pn).1.state = r.state ∧ (dedupe r sp pn).1.idleTimer = r.idleTimer ∧
    (dedupe r sp pn).1.error = r.error ∧
    (dedupe r sp pn).2 = decide ((SlidingWindow.step (filterOf r sp) (.insert pn)).2 = .ok) ∧
    (dedupe r sp pn).1.streamFilter =
      (match sp with
        | .stream => (SlidingWindow.step r.streamFilter (.insert pn)).1
        | .recovery => r.streamFilter) ∧
    (dedupe r sp pn).1.recoveryFilter =
      (match sp with
        | .stream => r.recoveryFilter
        | .recovery => (SlidingWindow.step r.recoveryFilter (.insert pn)).1) := by
  unfold dedupe
  cases sp <;> simp [filterOf]

theorem armIdle_same (r : Recv) (now : Nat) (p : Packet) : Same (armIdle r now p) r := by
  unfold armIdle
  split <;> simp [Same, updateIdleTimer]

theorem afterDedupe_fields (r : Recv) (now : Nat) (p : Packet) : Same (afterDedupe r now p).1 r := by
  have h0 : Same (armIdle (needsTransmission r) now p) r :=
    (armIdle_same _ now p).trans (by simp [Same, needsTransmission])
  unfold afterDedupe
  cases hctl : p.control with
  | none => exact h0
  | undecodable => exact h0
  | close t c => exact (onError_same _ _ _).trans h0

/-- `on_cleartext_stream_packet` leaves buffer and timeout alone, moves the filters like `dedupe` -/
theorem onCleartext_fields (r : Recv) (now : Nat) (p : Packet) :
    (onCleartext r now p).1.buf = r.buf ∧ (onCleartext r now p).1.idleTimeout = r.idleTimeout ∧
    (onCleartext r now p).1.streamFilter = (dedupe r p.space p.pn).1.streamFilter ∧
    (onCleartext r now p).1.recoveryFilter = (dedupe r p.space p.pn).1.recoveryFilter := by
  have hd := dedupe_fields r p.space p.pn
  unfold onCleartext
  simp only
  cases hf : (dedupe r p.space p.pn).2
  · simp [hd.1, hd.2.1]
  · have ha := afterDedupe_fields (dedupe r p.space p.pn).1 now p
    simp only [Bool.not_true, Bool.false_eq_true, if_false]
    exact ⟨ha.1.trans hd.1, ha.2.2.2.trans hd.2.1, ha.2.1, ha.2.2.1⟩

theorem authenticate_fields (r : Recv) (now : Nat) (p : Packet) :
    (authenticate r now p).1.buf = r.buf ∧ (authenticate r now p).1.idleTimeout = r.idleTimeout ∧
    (authenticate r now p).1.streamFilter =
      (if p.authentic then (dedupe r p.space p.pn).1.streamFilter else r.streamFilter) ∧
    (authenticate r now p).1.recoveryFilter =
      (if p.authentic then (dedupe r p.space p.pn).1.recoveryFilter else r.recoveryFilter) := by
  unfold authenticate
  cases p.authentic
  · simp
  · have := onCleartext_fields r now p
    simpa using this

/-- result of `on_stream_packet_impl`, by what happens to the buffer and the filters -/
theorem impl_fields (r : Recv) (now : Nat) (p : Packet) :
    let res := onStreamPacketImpl r now p
    res.1.idleTimeout = r.idleTimeout ∧
    res.1.streamFilter = (authenticate r now p).1.streamFilter ∧
    res.1.recoveryFilter = (authenticate r now p).1.recoveryFilter ∧
    (res.2.2 = false → res.1.buf = r.buf) ∧
    (res.2.2 = true → p.authentic = true ∧ RefBuf.write r.buf p.off p.data p.fin = .ok res.1.buf ∧ res.2.1 = none) := by
  have ha := authenticate_fields r now p
  unfold onStreamPacketImpl
  generalize hau : authenticate r now p = a at ha ⊢
  obtain ⟨r', e⟩ := a
  simp only at ha
  have hauth : e = none → p.authentic = true := by
    intro he
    unfold authenticate at hau
    cases hp : p.authentic
    · simp [hp] at hau; rw [he] at hau; cases hau.2
    · rfl
  split
  · cases e with
    | some e => simp [ha.1, ha.2.1]
    | none =>
      have := onError_same r' .maxDataExceeded true
      simp [this.1, this.2.1, this.2.2.1, this.2.2.2, ha.1, ha.2.1]
  · cases hw : RefBuf.write r.buf p.off p.data p.fin with
    | error err => cases e <;> simp [ha.1, ha.2.1]
    | ok b =>
      cases e with
      | some e => simp [ha.1, ha.2.1]
      | none =>
        have := (onReadBuffer_frame { r' with buf := b }).1
        simp only
        refine ⟨this.2.2.2.trans ha.2.1, this.2.1, this.2.2.1, (fun h => by cases h), (fun _ => ⟨hauth rfl, ?_, trivial⟩)⟩
        rw [this.1]

theorem packet_fields (r : Recv) (now : Nat) (p : Packet) :
    let res := onStreamPacket r now p
    res.1.idleTimeout = r.idleTimeout ∧
    res.1.streamFilter = (authenticate r now p).1.streamFilter ∧
    res.1.recoveryFilter = (authenticate r now p).1.recoveryFilter ∧
    (res.2.2 = false → res.1.buf = r.buf) ∧
    (res.2.2 = true → p.authentic = true ∧ RefBuf.write r.buf p.off p.data p.fin = .ok res.1.buf) := by
  have hi := impl_fields r now p
  unfold onStreamPacket
  generalize onStreamPacketImpl r now p = res at hi ⊢
  obtain ⟨r', e, c⟩ := res
  simp only at hi ⊢
  cases e with
  | none => exact ⟨hi.1, hi.2.1, hi.2.2.1, hi.2.2.2.1, fun h => ⟨(hi.2.2.2.2 h).1, (hi.2.2.2.2 h).2.1⟩⟩
  | some e =>
    simp only
    split
    · have := onError_same r' e true
      refine ⟨this.2.2.2.trans hi.1, this.2.1.trans hi.2.1, this.2.2.1.trans hi.2.2.1, ?_, ?_⟩
      · intro h; rw [this.1]; exact hi.2.2.2.1 h
      · intro h; have := (hi.2.2.2.2 h).2.2; cases this
    · refine ⟨hi.1, hi.2.1, hi.2.2.1, hi.2.2.2.1, ?_⟩
      intro h; have := (hi.2.2.2.2 h).2.2; cases this

theorem onIdleExpired_same (r : Recv) : Same (onIdleExpired r) r := by
  unfold onIdleExpired
  simp only
  split
  · simp [Same, silentShutdown]
  · exact (show Same _ (onError _ _ _) from ⟨rfl, rfl, rfl, rfl⟩).trans
      ((onError_same _ _ _).trans (by simp [Same, silentShutdown]))

theorem onTimeout_same (r : Recv) (now last : Nat) : Same (onTimeout r now last) r := by
  unfold onTimeout
  by_cases h1 : timerExpired r.idleTimer now = true
  · by_cases h2 : timerExpired (some (last + r.idleTimeout)) now = true
    · simp only [h1, h2, Bool.not_true, Bool.false_eq_true, if_false]
      exact (onIdleExpired_same _).trans (by simp [Same])
    · simp [h1, h2, Same]
  · simp [h1, Same]

/-! ### ghost history = reassembler history -/

theorem trace_snoc (ops : List Op) (op : Op) : trace (ops ++ [op]) = (trace ops).step op := by
  simp [trace, List.foldl_append]

theorem bufOf_snoc (evs : List RefBuf.Ev) (e : RefBuf.Ev) :
    bufOf (evs ++ [e]) = ((trace (evs.map Ev.toOp)).step e.toOp).buf := by
  unfold bufOf
  rw [List.map_append, List.map_singleton, trace_snoc]

theorem readsOf_snoc (evs : List RefBuf.Ev) (e : RefBuf.Ev) :
    readsOf (evs ++ [e]) = ((trace (evs.map Ev.toOp)).step e.toOp).reads := by
  unfold readsOf
  rw [List.map_append, List.map_singleton, trace_snoc]

/-- the receiver's buffer and read stream are those of the ghost reassembler history -/
structure RInv (t : Dc.StreamRecv.Trace) : Prop where
  buf : t.recv.buf = bufOf t.bufEvs
  reads : t.reads = readsOf t.bufEvs

theorem rinv_init (now it md w : Nat) : RInv (Dc.StreamRecv.Trace.init now it md w) :=
  ⟨rfl, rfl⟩

theorem rinv_step {t : Dc.StreamRecv.Trace} (h : RInv t) (ev : Dc.StreamRecv.Ev) : RInv (t.step ev) := by
  cases ev with
  | packet now p =>
    have hp := packet_fields t.recv now p
    simp only at hp
    simp only [Dc.StreamRecv.Trace.step]
    cases hc : (onStreamPacket t.recv now p).2.2
    · simp only [Bool.false_eq_true, if_false]
      exact ⟨by rw [hp.2.2.2.1 hc]; exact h.buf, h.reads⟩
    · simp only [if_true]
      have hw := (hp.2.2.2.2 hc).2
      constructor
      · rw [bufOf_snoc]
        simp only [Ev.toOp, Packet.frame, RefBuf.Trace.step]
        have : (trace (List.map Ev.toOp t.bufEvs)).buf = t.recv.buf := h.buf.symm
        rw [this, hw]
      · rw [readsOf_snoc]
        simp only [Ev.toOp, Packet.frame, RefBuf.Trace.step]
        have : (trace (List.map Ev.toOp t.bufEvs)).buf = t.recv.buf := h.buf.symm
        rw [this, hw]
        exact h.reads
  | read w =>
    simp only [Dc.StreamRecv.Trace.step, Dc.StreamRecv.read]
    have hb : (trace (List.map Ev.toOp t.bufEvs)).buf = t.recv.buf := h.buf.symm
    have hr : (trace (List.map Ev.toOp t.bufEvs)).reads = t.reads := h.reads.symm
    constructor
    · rw [bufOf_snoc, (onReadBuffer_frame _).1.1]
      simp only [Ev.toOp, RefBuf.Trace.step, hb]
    · rw [readsOf_snoc]
      simp only [Ev.toOp, RefBuf.Trace.step, hb, hr]
  | timeout now last =>
    simp only [Dc.StreamRecv.Trace.step]
    refine ⟨?_, h.reads⟩
    have : (onTimeout t.recv now last).buf = t.recv.buf := (onTimeout_same _ _ _).1
    rw [this]; exact h.buf

theorem rinv_run {t : Dc.StreamRecv.Trace} (h : RInv t) (evs : List Dc.StreamRecv.Ev) : RInv (Dc.StreamRecv.run t evs) := by
  unfold Dc.StreamRecv.run
  induction evs generalizing t with
  | nil => exact h
  | cons e es ih => exact ih (rinv_step h e)

/-- every frame in the ghost history has property `P` if every authentic packet's frame has it -/
theorem frames_step {P : Frame → Prop} {t : Dc.StreamRecv.Trace} (h : ∀ f, RefBuf.Ev.frame f ∈ t.bufEvs → P f) (ev : Dc.StreamRecv.Ev)
    (hev : ∀ now p, ev = .packet now p → p.authentic = true → P p.frame) :
    ∀ f, RefBuf.Ev.frame f ∈ (t.step ev).bufEvs → P f := by
  cases ev with
  | packet now p =>
    simp only [Dc.StreamRecv.Trace.step]
    cases hc : (onStreamPacket t.recv now p).2.2
    · simpa using h
    · simp only [if_true]
      intro f hf
      rcases List.mem_append.mp hf with hf | hf
      · exact h f hf
      · simp only [List.mem_singleton, RefBuf.Ev.frame.injEq] at hf
        subst hf
        exact hev now p rfl ((packet_fields t.recv now p).2.2.2.2 hc).1
  | read w =>
    simp only [Dc.StreamRecv.Trace.step]
    intro f hf
    rcases List.mem_append.mp hf with hf | hf
    · exact h f hf
    · simp at hf
  | timeout now last => simpa [Dc.StreamRecv.Trace.step] using h

theorem frames_run {P : Frame → Prop} {t : Dc.StreamRecv.Trace} (h : ∀ f, RefBuf.Ev.frame f ∈ t.bufEvs → P f) (evs : List Dc.StreamRecv.Ev)
    (hev : ∀ now p, Dc.StreamRecv.Ev.packet now p ∈ evs → p.authentic = true → P p.frame) :
    ∀ f, RefBuf.Ev.frame f ∈ (Dc.StreamRecv.run t evs).bufEvs → P f := by
  unfold Dc.StreamRecv.run
  induction evs generalizing t with
  | nil => exact h
  | cons e es ih =>
    refine ih (frames_step h e ?_) ?_
    · intro now p he; subst he; exact hev now p List.mem_cons_self
    · intro now p hm; exact hev now p (List.mem_cons_of_mem _ hm)

/-! ### duplicate filter invariant -/

structure FInv (t : Dc.StreamRecv.Trace) : Prop where
  stream : Rel t.recv.streamFilter t.acceptedStream
  recovery : Rel t.recv.recoveryFilter t.acceptedRecovery
  nodupS : t.acceptedStream.Nodup
  nodupR : t.acceptedRecovery.Nodup

theorem finv_init (now it md w : Nat) : FInv (Dc.StreamRecv.Trace.init now it md w) :=
  ⟨rel_init, rel_init, List.nodup_nil, List.nodup_nil⟩

/-- one filter, one insert: the relation and no-duplication survive, and the ghost list grows exactly
    when the window said `Ok` -/
theorem filter_insert {s : SlidingWindow.State} {S : List Nat} (h : Rel s S) (hn : S.Nodup) (pn : Nat) :
    let r := SlidingWindow.step s (.insert pn)
    Rel r.1 (if decide (r.2 = .ok) = true then pn :: S else S) ∧
      (if decide (r.2 = .ok) = true then pn :: S else S).Nodup := by
  have ⟨h1, h2⟩ := step_sim h (.insert pn)
  by_cases hc : RefWindow.classify ⟨S⟩ pn = .ok
  · rw [ref_step_insert_ok hc] at h1 h2
    have hok : (SlidingWindow.step s (.insert pn)).2 = .ok := h1
    refine ⟨by simpa [hok] using h2, ?_⟩
    have : (pn :: S).Nodup := List.nodup_cons.mpr ⟨classify_ok_not_mem hc, hn⟩
    simpa [hok] using this
  · rw [ref_step_insert_ne hc] at h1 h2
    have hne : ¬ (SlidingWindow.step s (.insert pn)).2 = .ok := by rw [h1]; exact hc
    exact ⟨by simpa [hne] using h2, by simpa [hne] using hn⟩

theorem finv_step {t : Dc.StreamRecv.Trace} (h : FInv t) (ev : Dc.StreamRecv.Ev) : FInv (t.step ev) := by
  cases ev with
  | packet now p =>
    have hp := packet_fields t.recv now p
    have ha := authenticate_fields t.recv now p
    have hd := dedupe_fields t.recv p.space p.pn
    simp only at hp
    simp only [Dc.StreamRecv.Trace.step, passesFilter]
    by_cases hauth : p.authentic = true
    rotate_left
    · have hauth' : p.authentic = false := by simpa using hauth
      simp only [hauth', Bool.false_eq_true, if_false] at ha
      simp only [hauth', Bool.false_and, Bool.false_eq_true, if_false]
      exact ⟨by rw [hp.2.1, ha.2.2.1]; exact h.stream, by rw [hp.2.2.1, ha.2.2.2]; exact h.recovery, h.nodupS, h.nodupR⟩
    · simp only [hauth, if_true] at ha
      simp only [hauth, Bool.true_and]
      cases hsp : p.space
      · -- stream space
        simp only [hsp] at hd
        have hf := filter_insert h.stream h.nodupS p.pn
        simp only at hf
        refine ⟨?_, ?_, ?_, ?_⟩
        · rw [hp.2.1, ha.2.2.1, hsp, hd.2.2.2.2.2.2.1]
          simp only [hd.2.2.2.2.2.1, filterOf, decide_eq_true_eq, beq_self_eq_true, Bool.and_true]
          exact hf.1
        · rw [hp.2.2.1, ha.2.2.2, hsp, hd.2.2.2.2.2.2.2]
          simpa using h.recovery
        · simp only [hd.2.2.2.2.2.1, filterOf, decide_eq_true_eq, beq_self_eq_true, Bool.and_true]
          exact hf.2
        · simpa using h.nodupR
      · simp only [hsp] at hd
        have hf := filter_insert h.recovery h.nodupR p.pn
        simp only at hf
        refine ⟨?_, ?_, ?_, ?_⟩
        · rw [hp.2.1, ha.2.2.1, hsp, hd.2.2.2.2.2.2.1]
          simpa using h.stream
        · rw [hp.2.2.1, ha.2.2.2, hsp, hd.2.2.2.2.2.2.2]
          simp only [hd.2.2.2.2.2.1, filterOf, decide_eq_true_eq, beq_self_eq_true, Bool.and_true]
          exact hf.1
        · simpa using h.nodupS
        · simp only [hd.2.2.2.2.2.1, filterOf, decide_eq_true_eq, beq_self_eq_true, Bool.and_true]
          exact hf.2
  | read w =>
    simp only [Dc.StreamRecv.Trace.step, Dc.StreamRecv.read]
    have := (onReadBuffer_frame { t.recv with buf := (pop t.recv.buf w).1 }).1
    exact ⟨by rw [this.2.1]; exact h.stream, by rw [this.2.2.1]; exact h.recovery, h.nodupS, h.nodupR⟩
  | timeout now last =>
    simp only [Dc.StreamRecv.Trace.step]
    have : (onTimeout t.recv now last).streamFilter = t.recv.streamFilter ∧
        (onTimeout t.recv now last).recoveryFilter = t.recv.recoveryFilter :=
      ⟨(onTimeout_same _ _ _).2.1, (onTimeout_same _ _ _).2.2.1⟩
    exact ⟨by rw [this.1]; exact h.stream, by rw [this.2]; exact h.recovery, h.nodupS, h.nodupR⟩

theorem finv_run {t : Dc.StreamRecv.Trace} (h : FInv t) (evs : List Dc.StreamRecv.Ev) : FInv (Dc.StreamRecv.run t evs) := by
  unfold Dc.StreamRecv.run
  induction evs generalizing t with
  | nil => exact h
  | cons e es ih => exact ih (finv_step h e)

/-! ### idle timer invariant -/

/-- while data is still expected: the idle timer is armed at `lastArm + idle_timeout`, there is no
    error yet -/
def Armed (r : Recv) (lastArm : Nat) : Prop :=
  r.state.expectsData = true → r.idleTimer = some (lastArm + r.idleTimeout) ∧ r.error = none

theorem armed_of_not_expects {r : Recv} (h : r.state.expectsData = false) (l : Nat) : Armed r l := by
  intro h'; rw [h] at h'; cases h'

theorem onError_armed (r : Recv) (e : ErrKind) (b : Bool) (l : Nat) : Armed (onError r e b) l :=
  armed_of_not_expects (onError_not_expects r e b) l

theorem onReadBuffer_armed {r : Recv} {l : Nat} (h : Armed r l) : Armed (onReadBuffer r) l := by
  have hf := onReadBuffer_frame r
  intro hx
  have := h (hf.2.2.2.1 hx)
  rw [hf.2.1, hf.2.2.1, hf.1.2.2.2]
  exact this

theorem dedupe_armed {r : Recv} {l : Nat} (h : Armed r l) (sp : Space) (pn : Nat) : Armed (dedupe r sp pn).1 l := by
  have hd := dedupe_fields r sp pn
  intro hx
  rw [hd.2.2.1] at hx
  rw [hd.2.2.2.1, hd.2.2.2.2.1, hd.2.1]
  exact h hx

theorem afterDedupe_armed {r : Recv} {l : Nat} (h : Armed r l) (now : Nat) (p : Packet) :
    Armed (afterDedupe r now p).1 (if r.state.expectsData || p.off == 0 then now else l) := by
  have h0 : Armed (armIdle (needsTransmission r) now p) (if r.state.expectsData || p.off == 0 then now else l) := by
    unfold armIdle
    by_cases hc : (r.state.expectsData || p.off == 0) = true
    · have : ((needsTransmission r).state.expectsData || p.off == 0) = true := hc
      simp only [this, hc, if_true]
      intro hx
      have he : r.error = none := by
        cases hs : r.state.expectsData
        · have : (updateIdleTimer (needsTransmission r) now).state.expectsData = r.state.expectsData := rfl
          rw [this, hs] at hx; cases hx
        · exact (h hs).2
      exact ⟨rfl, he⟩
    · have : ¬ ((needsTransmission r).state.expectsData || p.off == 0) = true := hc
      simp only [this, hc, if_false]
      intro hx
      exact h hx
  unfold afterDedupe
  cases hctl : p.control with
  | none => exact h0
  | undecodable => exact h0
  | close t c => exact onError_armed _ _ _ _

theorem onIdleExpired_not_expects (r : Recv) : (onIdleExpired r).state.expectsData = false := by
  unfold onIdleExpired
  simp only
  split
  · rename_i h; simpa using h
  · exact onError_not_expects _ _ _

/-- the history invariant about the idle timer -/
structure IInv (t : Dc.StreamRecv.Trace) : Prop where
  armed : Armed t.recv t.lastArm

theorem iinv_init (now it md w : Nat) : IInv (Dc.StreamRecv.Trace.init now it md w) :=
  ⟨fun _ => ⟨rfl, rfl⟩⟩

theorem authenticate_armed {r : Recv} {l : Nat} (h : Armed r l) (now : Nat) (p : Packet) :
    Armed (authenticate r now p).1
      (if passesFilter r p && (r.state.expectsData || p.off == 0) then now else l) := by
  unfold authenticate passesFilter
  by_cases ha : p.authentic = true
  · simp only [ha, Bool.not_true, Bool.false_eq_true, if_false, Bool.true_and]
    unfold onCleartext
    simp only
    by_cases hf : (dedupe r p.space p.pn).2 = true
    · simp only [hf, Bool.not_true, Bool.false_eq_true, if_false, Bool.true_and]
      have := afterDedupe_armed (dedupe_armed h p.space p.pn) now p
      rw [(dedupe_fields r p.space p.pn).2.2.1] at this
      exact this
    · have hf' : (dedupe r p.space p.pn).2 = false := by simpa using hf
      simp only [hf', Bool.not_false, if_true, Bool.false_and, Bool.false_eq_true, if_false]
      exact dedupe_armed h p.space p.pn
  · have ha' : p.authentic = false := by simpa using ha
    simp only [ha', Bool.not_false, if_true, Bool.false_and, Bool.false_eq_true, if_false]
    exact h

theorem impl_armed {r : Recv} {l : Nat} (h : Armed r l) (now : Nat) (p : Packet) :
    Armed (onStreamPacketImpl r now p).1
      (if passesFilter r p && (r.state.expectsData || p.off == 0) then now else l) := by
  have ha := authenticate_armed h now p
  unfold onStreamPacketImpl
  generalize authenticate r now p = a at ha ⊢
  obtain ⟨r', e⟩ := a
  simp only at ha
  split
  · cases e with
    | some e => exact ha
    | none => exact onError_armed _ _ _ _
  · cases RefBuf.write r.buf p.off p.data p.fin with
    | error err => cases e <;> exact ha
    | ok b =>
      cases e with
      | some e => exact ha
      | none =>
        simp only
        apply onReadBuffer_armed
        intro hx
        exact ha hx

theorem packet_armed {r : Recv} {l : Nat} (h : Armed r l) (now : Nat) (p : Packet) :
    Armed (onStreamPacket r now p).1
      (if passesFilter r p && (r.state.expectsData || p.off == 0) then now else l) := by
  have hi := impl_armed h now p
  unfold onStreamPacket
  generalize onStreamPacketImpl r now p = res at hi ⊢
  obtain ⟨r', e, c⟩ := res
  simp only at hi ⊢
  cases e with
  | none => exact hi
  | some e =>
    simp only
    split
    · exact onError_armed _ _ _ _
    · exact hi

theorem iinv_step {t : Dc.StreamRecv.Trace} (h : IInv t) (ev : Dc.StreamRecv.Ev) : IInv (t.step ev) := by
  cases ev with
  | packet now p =>
    simp only [Dc.StreamRecv.Trace.step]
    exact ⟨packet_armed h.armed now p⟩
  | read w =>
    simp only [Dc.StreamRecv.Trace.step, Dc.StreamRecv.read]
    refine ⟨onReadBuffer_armed ?_⟩
    intro hx
    exact h.armed hx
  | timeout now last =>
    simp only [Dc.StreamRecv.Trace.step]
    refine ⟨?_⟩
    unfold onTimeout
    by_cases h1 : timerExpired t.recv.idleTimer now = true
    · by_cases h2 : timerExpired (some (last + t.recv.idleTimeout)) now = true
      · simp only [h1, h2, Bool.not_true, Bool.false_eq_true, if_false]
        exact armed_of_not_expects (onIdleExpired_not_expects _) _
      · have h2' : timerExpired (some (last + t.recv.idleTimeout)) now = false := by simpa using h2
        simp only [h1, h2', Bool.not_true, Bool.not_false, Bool.false_eq_true, if_false, if_true, Bool.and_self]
        intro hx
        exact ⟨rfl, (h.armed hx).2⟩
    · have h1' : timerExpired t.recv.idleTimer now = false := by simpa using h1
      simp only [h1', Bool.not_false, if_true, Bool.false_and, Bool.false_eq_true, if_false]
      exact h.armed

theorem iinv_run {t : Dc.StreamRecv.Trace} (h : IInv t) (evs : List Dc.StreamRecv.Ev) : IInv (Dc.StreamRecv.run t evs) := by
  unfold Dc.StreamRecv.run
  induction evs generalizing t with
  | nil => exact h
  | cons e es ih => exact ih (iinv_step h e)

/-- the configured idle timeout never changes -/
theorem idleTimeout_run (t : Dc.StreamRecv.Trace) (evs : List Dc.StreamRecv.Ev) :
    (Dc.StreamRecv.run t evs).recv.idleTimeout = t.recv.idleTimeout := by
  unfold Dc.StreamRecv.run
  induction evs generalizing t with
  | nil => rfl
  | cons e es ih =>
    rw [List.foldl_cons, ih]
    cases e with
    | packet now p => exact (packet_fields t.recv now p).1
    | read w => exact (onReadBuffer_frame _).1.2.2.2
    | timeout now last => exact (onTimeout_same _ _ _).2.2.2

/-! ### committed packets are accepted packets -/

theorem committed_passes (r : Recv) (now : Nat) (p : Packet) (h : (onStreamPacket r now p).2.2 = true) :
    passesFilter r p = true := by
  unfold onStreamPacket at h
  unfold passesFilter
  have : (onStreamPacketImpl r now p).2.2 = true := by
    generalize onStreamPacketImpl r now p = res at h ⊢
    obtain ⟨r', e, c⟩ := res
    cases e <;> simpa using h
  unfold onStreamPacketImpl at this
  split at this
  · generalize authenticate r now p = a at this
    obtain ⟨r', e⟩ := a
    cases e <;> simp at this
  · cases hw : RefBuf.write r.buf p.off p.data p.fin with
    | error err =>
      rw [hw] at this
      generalize authenticate r now p = a at this
      obtain ⟨r', e⟩ := a
      cases e <;> simp at this
    | ok b =>
      rw [hw] at this
      cases ha : authenticate r now p with
      | mk r' e =>
        rw [ha] at this
        cases e with
        | some e => simp at this
        | none =>
          unfold authenticate at ha
          by_cases hau : p.authentic = true
          · simp only [hau, Bool.not_true, Bool.false_eq_true, if_false] at ha
            unfold onCleartext at ha
            simp only at ha
            by_cases hf : (dedupe r p.space p.pn).2 = true
            · simp [hau, hf]
            · have hf' : (dedupe r p.space p.pn).2 = false := by simpa using hf
              simp only [hf', Bool.not_false, if_true] at ha
              cases ha
          · have hau' : p.authentic = false := by simpa using hau
            simp only [hau', Bool.not_false, if_true] at ha
            cases ha

/-! ### committed payloads: at most once -/

theorem passes_fresh {r : Recv} {S R : List Nat} (hs : Rel r.streamFilter S) (hr : Rel r.recoveryFilter R)
    (p : Packet) (h : passesFilter r p = true) :
    (p.space = .stream → p.pn ∉ S) ∧ (p.space = .recovery → p.pn ∉ R) := by
  unfold passesFilter at h
  have hd := (dedupe_fields r p.space p.pn).2.2.2.2.2.1
  rw [hd] at h
  simp only [Bool.and_eq_true, decide_eq_true_eq] at h
  constructor
  · intro hsp
    rw [hsp] at h
    have h1 := (step_sim hs (.insert p.pn)).1
    simp only [filterOf] at h
    rw [h.2] at h1
    by_cases hc : RefWindow.classify ⟨S⟩ p.pn = .ok
    · exact classify_ok_not_mem hc
    · rw [ref_step_insert_ne hc] at h1; exact absurd h1.symm hc
  · intro hsp
    rw [hsp] at h
    have h1 := (step_sim hr (.insert p.pn)).1
    simp only [filterOf] at h
    rw [h.2] at h1
    by_cases hc : RefWindow.classify ⟨R⟩ p.pn = .ok
    · exact classify_ok_not_mem hc
    · rw [ref_step_insert_ne hc] at h1; exact absurd h1.symm hc

def accOf (t : Dc.StreamRecv.Trace) : Space → List Nat
  | .stream => t.acceptedStream
  | .recovery => t.acceptedRecovery

structure CInv (t : Dc.StreamRecv.Trace) : Prop where
  sub : ∀ sp pn, (sp, pn) ∈ t.committed → pn ∈ accOf t sp
  nodup : t.committed.Nodup

theorem cinv_step {t : Dc.StreamRecv.Trace} (hf : FInv t) (h : CInv t) (ev : Dc.StreamRecv.Ev) : CInv (t.step ev) := by
  cases ev with
  | packet now p =>
    simp only [Dc.StreamRecv.Trace.step]
    by_cases hc : (onStreamPacket t.recv now p).2.2 = true
    · have hp := committed_passes t.recv now p hc
      have hfresh := passes_fresh hf.stream hf.recovery p hp
      simp only [hc, hp, if_true, Bool.true_and]
      constructor
      · intro sp pn hm
        rcases List.mem_cons.mp hm with hm | hm
        · cases hm
          cases hsp : p.space <;> simp [accOf, hsp]
        · have := h.sub sp pn hm
          cases sp <;> simp only [accOf] at this ⊢
          · split
            · exact List.mem_cons_of_mem _ this
            · exact this
          · split
            · exact List.mem_cons_of_mem _ this
            · exact this
      · refine List.nodup_cons.mpr ⟨?_, h.nodup⟩
        intro hm
        have := h.sub _ _ hm
        cases hsp : p.space
        · rw [hsp] at this; exact hfresh.1 hsp this
        · rw [hsp] at this; exact hfresh.2 hsp this
    · have hc' : (onStreamPacket t.recv now p).2.2 = false := by simpa using hc
      simp only [hc', Bool.false_eq_true, if_false]
      constructor
      · intro sp pn hm
        have := h.sub sp pn hm
        cases sp <;> simp only [accOf] at this ⊢
        · split
          · exact List.mem_cons_of_mem _ this
          · exact this
        · split
          · exact List.mem_cons_of_mem _ this
          · exact this
      · exact h.nodup
  | read w => exact ⟨h.sub, h.nodup⟩
  | timeout now last => exact ⟨h.sub, h.nodup⟩

theorem committed_nodup (now it md w : Nat) (evs : List Dc.StreamRecv.Ev) :
    (Dc.StreamRecv.run (Dc.StreamRecv.Trace.init now it md w) evs).committed.Nodup := by
  have : ∀ (t : Dc.StreamRecv.Trace), FInv t → CInv t → CInv (Dc.StreamRecv.run t evs) := by
    unfold Dc.StreamRecv.run
    induction evs with
    | nil => intro t _ h; exact h
    | cons e es ih => intro t hf h; exact ih _ (finv_step hf e) (cinv_step hf h e)
  exact (this _ (finv_init now it md w) ⟨(by intro sp pn hm; cases hm), List.nodup_nil⟩).nodup

/-! ### a packet that fails authentication is a no-op -/

theorem unauthentic_noop (r : Recv) (now : Nat) (p : Packet) (h : p.authentic = false) :
    onStreamPacket r now p = (r, some .crypto, false) := by
  have ha : authenticate r now p = (r, some .crypto) := by simp [authenticate, h]
  have hi : onStreamPacketImpl r now p = (r, some .crypto, false) := by
    unfold onStreamPacketImpl
    rw [ha]
    by_cases hm : (!decide (p.off + p.data.length ≤ r.maxData)) = true
    · simp only [hm, if_true]
    · simp only [hm, if_false]
      cases RefBuf.write r.buf p.off p.data p.fin <;> rfl
  unfold onStreamPacket
  rw [hi]
  simp [ErrKind.isFatal]

/-! ### `DataRead` means the buffer was read to its end -/

theorem onError_dataRead (r : Recv) (e : ErrKind) (l : Bool) (h : (onError r e l).state = .dataRead) :
    r.state = .dataRead := by
  unfold onError at h
  revert h
  cases hs : r.state <;> cases r.error <;> cases l <;>
    simp [needsTransmission, silentShutdown, RState.onReset, RState.onAppReadReset]

theorem afterDedupe_dataRead (r : Recv) (now : Nat) (p : Packet) (h : (afterDedupe r now p).1.state = .dataRead) :
    r.state = .dataRead := by
  have h0 : (armIdle (needsTransmission r) now p).state = r.state := by
    unfold armIdle; split <;> rfl
  unfold afterDedupe at h
  cases hctl : p.control with
  | none => rw [hctl] at h; exact h0 ▸ h
  | undecodable => rw [hctl] at h; exact h0 ▸ h
  | close t c => rw [hctl] at h; exact h0 ▸ (onError_dataRead _ _ _ h)

theorem authenticate_dataRead (r : Recv) (now : Nat) (p : Packet) (h : (authenticate r now p).1.state = .dataRead) :
    r.state = .dataRead := by
  unfold authenticate at h
  by_cases ha : p.authentic = true
  · simp only [ha, Bool.not_true, Bool.false_eq_true, if_false] at h
    unfold onCleartext at h
    simp only at h
    have hd := (dedupe_fields r p.space p.pn).2.2.1
    by_cases hf : (dedupe r p.space p.pn).2 = true
    · simp only [hf, Bool.not_true, Bool.false_eq_true, if_false] at h
      exact hd ▸ afterDedupe_dataRead _ _ _ h
    · have hf' : (dedupe r p.space p.pn).2 = false := by simpa using hf
      simp only [hf', Bool.not_false, if_true] at h
      exact hd ▸ h
  · have ha' : p.authentic = false := by simpa using ha
    simp only [ha', Bool.not_false, if_true] at h
    exact h

theorem write_complete {s s' : RefBuf} {off : Nat} {d : List Nat} {fin : Bool}
    (hw : RefBuf.write s off d fin = .ok s') (hc : isReadingComplete s = true) : isReadingComplete s' = true := by
  obtain ⟨_, hrej, hcons, hfs, _, _⟩ := write_ok_fields hw
  unfold isReadingComplete at hc ⊢
  have hf : s.finalSize = some s.consumed := by simpa using hc
  rw [hfs, hcons]
  cases fin with
  | false => simpa using hf
  | true =>
    unfold rejectsFin at hrej
    rw [hf] at hrej
    simp only [if_true, ne_eq, Decidable.not_not] at hrej
    simp [hrej]

theorem pop_complete {s : RefBuf} (hi : Inv s) (w : Option Nat) (hc : isReadingComplete s = true) :
    isReadingComplete (pop s w).1 = true := by
  have hf : s.finalSize = some s.consumed := by simpa [isReadingComplete] using hc
  have hlen : len s = 0 := by
    by_cases h0 : len s = 0
    · exact h0
    · exfalso
      have := len_spec_lt s s.consumed (Nat.le_refl _) (by omega)
      have h1 := (hi.stored_lt _ this).2
      have h2 := hi.final_ge _ hf
      omega
  rw [pop_eq]
  have : popCount s w = 0 := by have := popCount_le s w; omega
  rw [this]
  unfold take isReadingComplete
  simpa using hf

/-- `DataRead` can only be entered through `on_read_buffer` on a buffer that is read to its end -/
theorem impl_dataRead (r : Recv) (now : Nat) (p : Packet) (h : (onStreamPacketImpl r now p).1.state = .dataRead) :
    r.state = .dataRead ∨ isReadingComplete (onStreamPacketImpl r now p).1.buf = true := by
  unfold onStreamPacketImpl at h ⊢
  cases ha : authenticate r now p with
  | mk r' e =>
    have hst : r'.state = .dataRead → r.state = .dataRead := by
      intro hh; apply authenticate_dataRead r now p; rw [ha]; exact hh
    rw [ha] at h
    split
    · rename_i hmd
      simp only [hmd, if_true] at h
      cases e with
      | some e => exact Or.inl (hst h)
      | none => exact Or.inl (hst (onError_dataRead _ _ _ h))
    · rename_i hmd
      simp only [hmd, if_false] at h
      cases hw : RefBuf.write r.buf p.off p.data p.fin with
      | error err =>
        rw [hw] at h
        cases e <;> exact Or.inl (hst h)
      | ok b =>
        rw [hw] at h
        cases e with
        | some e => exact Or.inl (hst h)
        | none =>
          simp only at h ⊢
          have hf := onReadBuffer_frame { r' with buf := b }
          rcases hf.2.2.2.2 h with h' | h'
          · exact Or.inl (hst h')
          · right; rw [hf.1.1]; exact h'

theorem packet_dataRead (r : Recv) (now : Nat) (p : Packet) (h : (onStreamPacket r now p).1.state = .dataRead) :
    r.state = .dataRead ∨ isReadingComplete (onStreamPacket r now p).1.buf = true := by
  have hi := impl_dataRead r now p
  unfold onStreamPacket at h ⊢
  generalize onStreamPacketImpl r now p = res at hi h ⊢
  obtain ⟨r', e, c⟩ := res
  simp only at hi h ⊢
  cases e with
  | none => exact hi h
  | some e =>
    simp only at h ⊢
    split
    · rename_i hfat
      simp only [hfat, if_true] at h
      rw [(onError_same _ _ _).1]
      exact hi (onError_dataRead _ _ _ h)
    · rename_i hfat
      simp only [hfat] at h
      exact hi h

theorem onTimeout_dataRead (r : Recv) (now last : Nat) (h : (onTimeout r now last).state = .dataRead) :
    r.state = .dataRead := by
  unfold onTimeout at h
  by_cases h1 : timerExpired r.idleTimer now = true
  · by_cases h2 : timerExpired (some (last + r.idleTimeout)) now = true
    · simp only [h1, h2, Bool.not_true, Bool.false_eq_true, if_false] at h
      unfold onIdleExpired at h
      simp only at h
      split at h
      · exact h
      · have := onError_dataRead _ _ _ h
        revert this
        cases r.state <;> simp [silentShutdown, RState.onReset, RState.onAppReadReset]
    · have h2' : timerExpired (some (last + r.idleTimeout)) now = false := by simpa using h2
      simp only [h1, h2', Bool.not_true, Bool.not_false, Bool.false_eq_true, if_false, if_true] at h
      exact h
  · have h1' : timerExpired r.idleTimer now = false := by simpa using h1
    simp only [h1', Bool.not_false, if_true] at h
    exact h

theorem dinv_step {t : Dc.StreamRecv.Trace} (hr : RInv t)
    (h : t.recv.state = .dataRead → isReadingComplete t.recv.buf = true) (ev : Dc.StreamRecv.Ev) :
    (t.step ev).recv.state = .dataRead → isReadingComplete (t.step ev).recv.buf = true := by
  cases ev with
  | packet now p =>
    simp only [Dc.StreamRecv.Trace.step]
    intro hd
    rcases packet_dataRead t.recv now p hd with h' | h'
    · have hc := h h'
      have hp := packet_fields t.recv now p
      by_cases hcm : (onStreamPacket t.recv now p).2.2 = true
      · exact write_complete (hp.2.2.2.2 hcm).2 hc
      · have hcm' : (onStreamPacket t.recv now p).2.2 = false := by simpa using hcm
        rw [hp.2.2.2.1 hcm']; exact hc
    · exact h'
  | read w =>
    simp only [Dc.StreamRecv.Trace.step, Dc.StreamRecv.read]
    intro hd
    have hf := onReadBuffer_frame { t.recv with buf := (pop t.recv.buf w).1 }
    rw [hf.1.1]
    rcases hf.2.2.2.2 hd with h' | h'
    · have hc := h h'
      have hinv : Inv t.recv.buf := by rw [hr.buf]; exact (tinv_trace _).inv
      exact pop_complete hinv w hc
    · exact h'
  | timeout now last =>
    simp only [Dc.StreamRecv.Trace.step]
    intro hd
    rw [(onTimeout_same _ _ _).1]
    exact h (onTimeout_dataRead _ _ _ hd)

theorem dataRead_complete (now it md win : Nat) (evs : List Dc.StreamRecv.Ev)
    (hd : (Dc.StreamRecv.run (Dc.StreamRecv.Trace.init now it md win) evs).recv.state = .dataRead) :
    isReadingComplete (Dc.StreamRecv.run (Dc.StreamRecv.Trace.init now it md win) evs).recv.buf = true := by
  have : ∀ (t : Dc.StreamRecv.Trace), RInv t → (t.recv.state = .dataRead → isReadingComplete t.recv.buf = true) →
      ((Dc.StreamRecv.run t evs).recv.state = .dataRead → isReadingComplete (Dc.StreamRecv.run t evs).recv.buf = true) := by
    clear hd
    unfold Dc.StreamRecv.run
    induction evs with
    | nil => intro t _ h; exact h
    | cons e es ih => intro t hr h; exact ih _ (rinv_step hr e) (dinv_step hr h e)
  exact this _ (rinv_init now it md win) (by intro h; cases h) hd

/-! ### the idle timer expires -/

theorem idle_expires (r : Recv) (tnow last it : Nat) {lastArm : Nat} (ht : r.idleTimeout = it)
    (hx : r.state.expectsData = true) (ha : r.idleTimer = some (lastArm + it)) (he : r.error = none)
    (h1 : hasElapsed (lastArm + it) tnow = true) (h2 : hasElapsed (last + it) tnow = true) :
    (onTimeout r tnow last).state = .resetRead ∧ (onTimeout r tnow last).error = some (.idleTimeout, true) ∧
    checkError (onTimeout r tnow last) = some .idleTimeout ∧ (onTimeout r tnow last).idleTimer = none ∧
    (onTimeout r tnow last).shouldTransmit = false := by
  have e1 : timerExpired r.idleTimer tnow = true := by rw [ha]; exact h1
  have e2 : timerExpired (some (last + r.idleTimeout)) tnow = true := by rw [ht]; exact h2
  unfold onTimeout
  simp only [e1, e2, Bool.not_true, Bool.false_eq_true, if_false]
  unfold onIdleExpired
  revert hx
  cases hs : r.state <;>
    simp [RState.expectsData, silentShutdown, onError, needsTransmission, RState.onReset, RState.onAppReadReset,
      checkError, he, hs]

end Quic.Proofs.DcStreamRecvLemmas
