import QuicModel.Dc.StreamRecv
import QuicProofs.Lemmas.RefBuf
import QuicProofs.Lemmas.Reassembly
import QuicProofs.Lemmas.SlidingWindow
/-
  Helper lemmas for C20 (receiver skeleton `Dc.StreamRecv`): which fields each step touches,
  the ghost history really is the reassembler's history, the duplicate filter represents the ghost
  set of accepted packet numbers, the idle timer is armed while data is expected.
-/
namespace Quic.Proofs.DcStreamRecvLemmas
open Quic.Data Quic.Data.RefBuf Quic.Dc.StreamRecv
open Quic.Recovery.Time (hasElapsed timerExpired)
open Quic.Proofs.RefBufLemmas
open Quic.Proofs.Lemmas.SlidingWindow (Rel step_sim rel_init classify_ok_not_mem ref_step_insert_ok ref_step_insert_ne)

/-! ### frame lemmas: what the small steps leave alone -/

/-- the fields of the receiver that the theorems talk about, except the state machine -/
def Same (a b : Recv) : Prop :=
  a.buf = b.buf ∧ a.streamFilter = b.streamFilter ∧ a.recoveryFilter = b.recoveryFilter ∧
  a.idleTimeout = b.idleTimeout

theorem Same.rfl' (a : Recv) : Same a a := ⟨rfl, rfl, rfl, rfl⟩

theorem Same.trans {a b c : Recv} (h1 : Same a b) (h2 : Same b c) : Same a c :=
  ⟨h1.1.trans h2.1, h1.2.1.trans h2.2.1, h1.2.2.1.trans h2.2.2.1, h1.2.2.2.trans h2.2.2.2⟩

theorem onError_same (r : Recv) (e : ErrKind) (l : Bool) : Same (onError r e l) r := by
  unfold onError Same
  cases r.error <;> cases l <;> simp [needsTransmission, silentShutdown]

theorem onError_not_expects (r : Recv) (e : ErrKind) (l : Bool) :
    (onError r e l).state.expectsData = false := by
  unfold onError
  cases hs : r.state <;> cases r.error <;> cases l <;>
    simp [needsTransmission, silentShutdown, RState.onReset, RState.onAppReadReset, RState.expectsData]

theorem orbMaxData_frame (r : Recv) :
    Same (orbMaxData r) r ∧ (orbMaxData r).state = r.state ∧ (orbMaxData r).idleTimer = r.idleTimer ∧
    (orbMaxData r).error = r.error := by
  by_cases h : min (r.buf.consumed + r.maxDataWindow) maxOffset > r.maxData <;>
    simp [orbMaxData, Same, h, needsTransmission]

theorem orbFin_frame (r : Recv) :
    Same (orbFin r) r ∧ (orbFin r).idleTimer = r.idleTimer ∧ (orbFin r).error = r.error ∧
    (orbFin r).state.expectsData = r.state.expectsData ∧ ((orbFin r).state = .dataRead → r.state = .dataRead) := by
  unfold orbFin Same
  split
  · cases hs : r.state <;> simp [RState.onReceiveFin, RState.expectsData, hs]
  · simp

theorem orbAllData_frame (r : Recv) :
    Same (orbAllData r) r ∧ (orbAllData r).idleTimer = r.idleTimer ∧ (orbAllData r).error = r.error ∧
    ((orbAllData r).state.expectsData = true → (orbAllData r).state = r.state) ∧
    ((orbAllData r).state = .dataRead → r.state = .dataRead) := by
  unfold orbAllData Same
  split
  · cases hs : r.state <;> simp [RState.onReceiveAllData, RState.expectsData, needsTransmission, hs]
  · simp

theorem orbRead_frame (r : Recv) :
    Same (orbRead r) r ∧ (orbRead r).idleTimer = r.idleTimer ∧ (orbRead r).error = r.error ∧
    ((orbRead r).state.expectsData = true → (orbRead r).state = r.state) ∧
    ((orbRead r).state = .dataRead → r.state = .dataRead ∨ isReadingComplete r.buf = true) := by
  by_cases hc : isReadingComplete r.buf = true
  · cases hs : r.state <;> simp [orbRead, Same, RState.onAppReadAllData, RState.expectsData, needsTransmission, hs, hc]
  · refine ⟨?_, ?_, ?_, ?_, ?_⟩ <;> simp [orbRead, Same, hc]

theorem onReadBuffer_frame (r : Recv) :
    Same (onReadBuffer r) r ∧ (onReadBuffer r).idleTimer = r.idleTimer ∧ (onReadBuffer r).error = r.error ∧
    ((onReadBuffer r).state.expectsData = true → r.state.expectsData = true) ∧
    ((onReadBuffer r).state = .dataRead → r.state = .dataRead ∨ isReadingComplete r.buf = true) := by
  unfold onReadBuffer
  have h1 := orbMaxData_frame r
  have h2 := orbFin_frame (orbMaxData r)
  have h3 := orbAllData_frame (orbFin (orbMaxData r))
  have h4 := orbRead_frame (orbAllData (orbFin (orbMaxData r)))
  refine ⟨h4.1.trans (h3.1.trans (h2.1.trans h1.1)), ?_, ?_, ?_, ?_⟩
  · rw [h4.2.1, h3.2.1, h2.2.1, h1.2.2.1]
  · rw [h4.2.2.1, h3.2.2.1, h2.2.2.1, h1.2.2.2]
  · intro h
    have e4 := h4.2.2.2.1 h
    rw [e4] at h
    have e3 := h3.2.2.2.1 h
    rw [e3] at h
    rw [h2.2.2.2.1, h1.2.1] at h
    exact h
  · intro h
    rcases h4.2.2.2.2 h with h' | h'
    · left
      have := h3.2.2.2.2 h'
      have := h2.2.2.2.2 this
      rw [h1.2.1] at this
      exact this
    · right
      rw [h3.1.1, h2.1.1, h1.1.1] at h'
      exact h'

/-! ### the duplicate filter -/

theorem dedupe_fields (r : Recv) (sp : Space) (pn : Nat) :
    (dedupe r sp pn).1.buf = r.buf ∧ (dedupe r sp pn).1.idleTimeout = r.idleTimeout ∧
    (dedupe r sp pn).1.state = r.state ∧ (dedupe r sp pn).1.idleTimer = r.idleTimer ∧
    (dedupe r sp pn).1.error = r.error ∧
    (dedupe r sp pn).2 = decide ((SlidingWindow.step (filterOf r sp) (.insert pn)).2 = .ok) ∧
    (dedupe r sp pn).1.streamFilter =
      (match sp with
        | .stream => (SlidingWindow.step r.streamFilter (.insert pn)).1
        | .recovery => r.streamFilter) ∧
    (dedupe r sp pn).1.recoveryFilter =
      (match sp with
        | .stream => r.recoveryFilter
        | .recovery => (SlidingWindow.step r.recoveryFilter (.insert pn)).1) := by
  unfold dedupe
  cases sp <;> simp [filterOf]

theorem armIdle_same (r : Recv) (now : Nat) (p : Packet) : Same (armIdle r now p) r := by
  unfold armIdle
  split <;> simp [Same, updateIdleTimer]

theorem afterDedupe_fields (r : Recv) (now : Nat) (p : Packet) : Same (afterDedupe r now p).1 r := by
  have h0 : Same (armIdle (needsTransmission r) now p) r :=
    (armIdle_same _ now p).trans (by simp [Same, needsTransmission])
  unfold afterDedupe
  cases hctl : p.control with
  | none => exact h0
  | undecodable => exact h0
  | close t c => exact (onError_same _ _ _).trans h0

/-- `on_cleartext_stream_packet` leaves buffer and timeout alone, moves the filters like `dedupe` -/
theorem onCleartext_fields (r : Recv) (now : Nat) (p : Packet) :
    (onCleartext r now p).1.buf = r.buf ∧ (onCleartext r now p).1.idleTimeout = r.idleTimeout ∧
    (onCleartext r now p).1.streamFilter = (dedupe r p.space p.pn).1.streamFilter ∧
    (onCleartext r now p).1.recoveryFilter = (dedupe r p.space p.pn).1.recoveryFilter := by
  have hd := dedupe_fields r p.space p.pn
  unfold onCleartext
  simp only
  cases hf : (dedupe r p.space p.pn).2
  · simp [hd.1, hd.2.1]
  · have ha := afterDedupe_fields (dedupe r p.space p.pn).1 now p
    simp only [Bool.not_true, Bool.false_eq_true, if_false]
    exact ⟨ha.1.trans hd.1, ha.2.2.2.trans hd.2.1, ha.2.1, ha.2.2.1⟩

theorem authenticate_fields (r : Recv) (now : Nat) (p : Packet) :
    (authenticate r now p).1.buf = r.buf ∧ (authenticate r now p).1.idleTimeout = r.idleTimeout ∧
    (authenticate r now p).1.streamFilter =
      (if p.authentic then (dedupe r p.space p.pn).1.streamFilter else r.streamFilter) ∧
    (authenticate r now p).1.recoveryFilter =
      (if p.authentic then (dedupe r p.space p.pn).1.recoveryFilter else r.recoveryFilter) := by
  unfold authenticate
  cases p.authentic
  · simp
  · have := onCleartext_fields r now p
    simpa using this

/-- result of `on_stream_packet_impl`, by what happens to the buffer and the filters -/
theorem impl_fields (r : Recv) (now : Nat) (p : Packet) :
    let res := onStreamPacketImpl r now p
    res.1.idleTimeout = r.idleTimeout ∧
    res.1.streamFilter = (authenticate r now p).1.streamFilter ∧
    res.1.recoveryFilter = (authenticate r now p).1.recoveryFilter ∧
    (res.2.2 = false → res.1.buf = r.buf) ∧
    (res.2.2 = true → p.authentic = true ∧ RefBuf.write r.buf p.off p.data p.fin = .ok res.1.buf ∧ res.2.1 = none) := by
  have ha := authenticate_fields r now p
  unfold onStreamPacketImpl
  generalize hau : authenticate r now p = a at ha ⊢
  obtain ⟨r', e⟩ := a
  simp only at ha
  have hauth : e = none → p.authentic = true := by
    intro he
    unfold authenticate at hau
    cases hp : p.authentic
    · simp [hp] at hau; rw [he] at hau; cases hau.2
    · rfl
  split
  · cases e with
    | some e => simp [ha.1, ha.2.1]
    | none =>
      have := onError_same r' .maxDataExceeded true
      simp [this.1, this.2.1, this.2.2.1, this.2.2.2, ha.1, ha.2.1]
  · cases hw : RefBuf.write r.buf p.off p.data p.fin with
    | error err => cases e <;> simp [ha.1, ha.2.1]
    | ok b =>
      cases e with
      | some e => simp [ha.1, ha.2.1]
      | none =>
        have := (onReadBuffer_frame { r' with buf := b }).1
        simp only
        refine ⟨this.2.2.2.trans ha.2.1, this.2.1, this.2.2.1, (fun h => by cases h), (fun _ => ⟨hauth rfl, ?_, trivial⟩)⟩
        rw [this.1]

theorem packet_fields (r : Recv) (now : Nat) (p : Packet) :
    let res := onStreamPacket r now p
    res.1.idleTimeout = r.idleTimeout ∧
    res.1.streamFilter = (authenticate r now p).1.streamFilter ∧
    res.1.recoveryFilter = (authenticate r now p).1.recoveryFilter ∧
    (res.2.2 = false → res.1.buf = r.buf) ∧
    (res.2.2 = true → p.authentic = true ∧ RefBuf.write r.buf p.off p.data p.fin = .ok res.1.buf) := by
  have hi := impl_fields r now p
  unfold onStreamPacket
  generalize onStreamPacketImpl r now p = res at hi ⊢
  obtain ⟨r', e, c⟩ := res
  simp only at hi ⊢
  cases e with
  | none => exact ⟨hi.1, hi.2.1, hi.2.2.1, hi.2.2.2.1, fun h => ⟨(hi.2.2.2.2 h).1, (hi.2.2.2.2 h).2.1⟩⟩
  | some e =>
    simp only
    split
    · have := onError_same r' e true
      refine ⟨this.2.2.2.trans hi.1, this.2.1.trans hi.2.1, this.2.2.1.trans hi.2.2.1, ?_, ?_⟩
      · intro h; rw [this.1]; exact hi.2.2.2.1 h
      · intro h; have := (hi.2.2.2.2 h).2.2; cases this
    · refine ⟨hi.1, hi.2.1, hi.2.2.1, hi.2.2.2.1, ?_⟩
      intro h; have := (hi.2.2.2.2 h).2.2; cases this

theorem onIdleExpired_same (r : Recv) : Same (onIdleExpired r) r := by
  unfold onIdleExpired
  simp only
  split
  · simp [Same, silentShutdown]
  · exact (show Same _ (onError _ _ _) from ⟨rfl, rfl, rfl, rfl⟩).trans
      ((onError_same _ _ _).trans (by simp [Same, silentShutdown]))

theorem onTimeout_same (r : Recv) (now last : Nat) : Same (onTimeout r now last) r := by
  unfold onTimeout
  by_cases h1 : timerExpired r.idleTimer now = true
  · by_cases h2 : timerExpired (some (last + r.idleTimeout)) now = true
    · simp only [h1, h2, Bool.not_true, Bool.false_eq_true, if_false]
      exact (onIdleExpired_same _).trans (by simp [Same])
    · simp [h1, h2, Same]
  · simp [h1, Same]

/-! ### ghost history = reassembler history -/

theorem trace_snoc (ops : List Op) (op : Op) : trace (ops ++ [op]) = (trace ops).step op := by
  simp [trace, List.foldl_append]

theorem bufOf_snoc (evs : List RefBuf.Ev) (e : RefBuf.Ev) :
    bufOf (evs ++ [e]) = ((trace (evs.map Ev.toOp)).step e.toOp).buf := by
  unfold bufOf
  rw [List.map_append, List.map_singleton, trace_snoc]

theorem readsOf_snoc (evs : List RefBuf.Ev) (e : RefBuf.Ev) :
    readsOf (evs ++ [e]) = ((trace (evs.map Ev.toOp)).step e.toOp).reads := by
  unfold readsOf
  rw [List.map_append, List.map_singleton, trace_snoc]

/-- the receiver's buffer and read stream are those of the ghost reassembler history -/
structure RInv (t : Dc.StreamRecv.Trace) : Prop where
  buf : t.recv.buf = bufOf t.bufEvs
  reads : t.reads = readsOf t.bufEvs

theorem rinv_init (now it md w : Nat) : RInv (Dc.StreamRecv.Trace.init now it md w) :=
  ⟨rfl, rfl⟩

theorem rinv_step {t : Dc.StreamRecv.Trace} (h : RInv t) (ev : Dc.StreamRecv.Ev) : RInv (t.step ev) := by
  cases ev with
  | packet now p =>
    have hp := packet_fields t.recv now p
    simp only at hp
    simp only [Dc.StreamRecv.Trace.step]
    cases hc : (onStreamPacket t.recv now p).2.2
    · simp only [Bool.false_eq_true, if_false]
      exact ⟨by rw [hp.2.2.2.1 hc]; exact h.buf, h.reads⟩
    · simp only [if_true]
      have hw := (hp.2.2.2.2 hc).2
      constructor
      · rw [bufOf_snoc]
        simp only [Ev.toOp, Packet.frame, RefBuf.Trace.step]
        have : (trace (List.map Ev.toOp t.bufEvs)).buf = t.recv.buf := h.buf.symm
        rw [this, hw]
      · rw [readsOf_snoc]
        simp only [Ev.toOp, Packet.frame, RefBuf.Trace.step]
        have : (trace (List.map Ev.toOp t.bufEvs)).buf = t.recv.buf := h.buf.symm
        rw [this, hw]
        exact h.reads
  | read w =>
    simp only [Dc.StreamRecv.Trace.step, Dc.StreamRecv.read]
    have hb : (trace (List.map Ev.toOp t.bufEvs)).buf = t.recv.buf := h.buf.symm
    have hr : (trace (List.map Ev.toOp t.bufEvs)).reads = t.reads := h.reads.symm
    constructor
    · rw [bufOf_snoc, (onReadBuffer_frame _).1.1]
      simp only [Ev.toOp, RefBuf.Trace.step, hb]
    · rw [readsOf_snoc]
      simp only [Ev.toOp, RefBuf.Trace.step, hb, hr]
  | timeout now last =>
    simp only [Dc.StreamRecv.Trace.step]
    refine ⟨?_, h.reads⟩
    have : (onTimeout t.recv now last).buf = t.recv.buf := (onTimeout_same _ _ _).1
    rw [this]; exact h.buf

theorem rinv_run {t : Dc.StreamRecv.Trace} (h : RInv t) (evs : List Dc.StreamRecv.Ev) : RInv (Dc.StreamRecv.run t evs) := by
  unfold Dc.StreamRecv.run
  induction evs generalizing t with
  | nil => exact h
  | cons e es ih => exact ih (rinv_step h e)

/-- every frame in the ghost history has property `P` if every authentic packet's frame has it -/
theorem frames_step {P : Frame → Prop} {t : Dc.StreamRecv.Trace} (h : ∀ f, RefBuf.Ev.frame f ∈ t.bufEvs → P f) (ev : Dc.StreamRecv.Ev)
    (hev : ∀ now p, ev = .packet now p → p.authentic = true → P p.frame) :
    ∀ f, RefBuf.Ev.frame f ∈ (t.step ev).bufEvs → P f := by
  cases ev with
  | packet now p =>
    simp only [Dc.StreamRecv.Trace.step]
    cases hc : (onStreamPacket t.recv now p).2.2
    · simpa using h
    · simp only [if_true]
      intro f hf
      rcases List.mem_append.mp hf with hf | hf
      · exact h f hf
      · simp only [List.mem_singleton, RefBuf.Ev.frame.injEq] at hf
        subst hf
        exact hev now p rfl ((packet_fields t.recv now p).2.2.2.2 hc).1
  | read w =>
    simp only [Dc.StreamRecv.Trace.step]
    intro f hf
    rcases List.mem_append.mp hf with hf | hf
    · exact h f hf
    · simp at hf
  | timeout now last => simpa [Dc.StreamRecv.Trace.step] using h

theorem frames_run {P : Frame → Prop} {t : Dc.StreamRecv.Trace} (h : ∀ f, RefBuf.Ev.frame f ∈ t.bufEvs → P f) (evs : List Dc.StreamRecv.Ev)
    (hev : ∀ now p, Dc.StreamRecv.Ev.packet now p ∈ evs → p.authentic = true → P p.frame) :
    ∀ f, RefBuf.Ev.frame f ∈ (Dc.StreamRecv.run t evs).bufEvs → P f := by
  unfold Dc.StreamRecv.run
  induction evs generalizing t with
  | nil => exact h
  | cons e es ih =>
    refine ih (frames_step h e ?_) ?_
    · intro now p he; subst he; exact hev now p List.mem_cons_self
    · intro now p hm; exact hev now p (List.mem_cons_of_mem _ hm)

/-! ### duplicate filter invariant -/

structure FInv (t : Dc.StreamRecv.Trace) : Prop where
  stream : Rel t.recv.streamFilter t.acceptedStream
  recovery : Rel t.recv.recoveryFilter t.acceptedRecovery
  nodupS : t.acceptedStream.Nodup
  nodupR : t.acceptedRecovery.Nodup

theorem finv_init (now it md w : Nat) : FInv (Dc.StreamRecv.Trace.init now it md w) :=
  ⟨rel_init, rel_init, List.nodup_nil, List.nodup_nil⟩

/-- one filter, one insert: the relation and no-duplication survive, and the ghost list grows exactly
    when the window said `Ok` -/
theorem filter_insert {s : SlidingWindow.State} {S : List Nat} (h : Rel s S) (hn : S.Nodup) (pn : Nat) :
    let r := SlidingWindow.step s (.insert pn)
    Rel r.1 (if decide (r.2 = .ok) = true then pn :: S else S) ∧
      (if decide (r.2 = .ok) = true then pn :: S else S).Nodup := by
  have ⟨h1, h2⟩ := step_sim h (.insert pn)
  by_cases hc : RefWindow.classify ⟨S⟩ pn = .ok
  · rw [ref_step_insert_ok hc] at h1 h2
    have hok : (SlidingWindow.step s (.insert pn)).2 = .ok := h1
    refine ⟨by simpa [hok] using h2, ?_⟩
    have : (pn :: S).Nodup := List.nodup_cons.mpr ⟨classify_ok_not_mem hc, hn⟩
    simpa [hok] using this
  · rw [ref_step_insert_ne hc] at h1 h2
    have hne : ¬ (SlidingWindow.step s (.insert pn)).2 = .ok := by rw [h1]; exact hc
    exact ⟨by simpa [hne] using h2, by simpa [hne] using hn⟩

theorem finv_step {t : Dc.StreamRecv.Trace} (h : FInv t) (ev : Dc.StreamRecv.Ev) : FInv (t.step ev) := by
  cases ev with
  | packet now p =>
    have hp := packet_fields t.recv now p
    have ha := authenticate_fields t.recv now p
    have hd := dedupe_fields t.recv p.space p.pn
    simp only at hp
    simp only [Dc.StreamRecv.Trace.step, passesFilter]
    by_cases hauth : p.authentic = true
    rotate_left
    · have hauth' : p.authentic = false := by simpa using hauth
      simp only [hauth', Bool.false_eq_true, if_false] at ha
      simp only [hauth', Bool.false_and, Bool.false_eq_true, if_false]
      exact ⟨by rw [hp.2.1, ha.2.2.1]; exact h.stream, by rw [hp.2.2.1, ha.2.2.2]; exact h.recovery, h.nodupS, h.nodupR⟩
    · simp only [hauth, if_true] at ha
      simp only [hauth, Bool.true_and]
      cases hsp : p.space
      · -- stream space
        simp only [hsp] at hd
        have hf := filter_insert h.stream h.nodupS p.pn
        simp only at hf
        refine ⟨?_, ?_, ?_, ?_⟩
        · rw [hp.2.1, ha.2.2.1, hsp, hd.2.2.2.2.2.2.1]
          simp only [hd.2.2.2.2.2.1, filterOf, decide_eq_true_eq, beq_self_eq_true, Bool.and_true]
          exact hf.1
        · rw [hp.2.2.1, ha.2.2.2, hsp, hd.2.2.2.2.2.2.2]
          simpa using h.recovery
        · simp only [hd.2.2.2.2.2.1, filterOf, decide_eq_true_eq, beq_self_eq_true, Bool.and_true]
          exact hf.2
        · simpa using h.nodupR
      · simp only [hsp] at hd
        have hf := filter_insert h.recovery h.nodupR p.pn
        simp only at hf
        refine ⟨?_, ?_, ?_, ?_⟩
        · rw [hp.2.1, ha.2.2.1, hsp, hd.2.2.2.2.2.2.1]
          simpa using h.stream
        · rw [hp.2.2.1, ha.2.2.2, hsp, hd.2.2.2.2.2.2.2]
          simp only [hd.2.2.2.2.2.1, filterOf, decide_eq_true_eq, beq_self_eq_true, Bool.and_true]
          exact hf.1
        · simpa using h.nodupS
        · simp only [hd.2.2.2.2.2.1, filterOf, decide_eq_true_eq, beq_self_eq_true, Bool.and_true]
          exact hf.2
  | read w =>
    simp only [Dc.StreamRecv.Trace.step, Dc.StreamRecv.read]
    have := (onReadBuffer_frame { t.recv with buf := (pop t.recv.buf w).1 }).1
    exact ⟨by rw [this.2.1]; exact h.stream, by rw [this.2.2.1]; exact h.recovery, h.nodupS, h.nodupR⟩
  | timeout now last =>
    simp only [Dc.StreamRecv.Trace.step]
    have : (onTimeout t.recv now last).streamFilter = t.recv.streamFilter ∧
        (onTimeout t.recv now last).recoveryFilter = t.recv.recoveryFilter :=
      ⟨(onTimeout_same _ _ _).2.1, (onTimeout_same _ _ _).2.2.1⟩
    exact ⟨by rw [this.1]; exact h.stream, by rw [this.2]; exact h.recovery, h.nodupS, h.nodupR⟩

theorem finv_run {t : Dc.StreamRecv.Trace} (h : FInv t) (evs : List Dc.StreamRecv.Ev) : FInv (Dc.StreamRecv.run t evs) := by
  unfold Dc.StreamRecv.run
  induction evs generalizing t with
  | nil => exact h
  | cons e es ih => exact ih (finv_step h e)

end Quic.Proofs.DcStreamRecvLemmas
