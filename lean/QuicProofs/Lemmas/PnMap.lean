import QuicModel.Data.PnMap
/-
  Helper lemmas for C16 (packet-number map ring buffer).
-/
namespace Quic.Proofs.Lemmas.PnMap
open Quic.Data.PnMap
open Quic.Data

/-! ### ring arithmetic -/

theorem ring_lt {i d L : Nat} (hL : 0 < L) : (i + d) % L < L := Nat.mod_lt _ hL

theorem ring_cases {i d L : Nat} (hi : i < L) (hd : d < L) :
    (i + d) % L = if i + d < L then i + d else i + d - L := by
  by_cases h : i + d < L
  · rw [if_pos h, Nat.mod_eq_of_lt h]
  · rw [if_neg h, Nat.mod_eq_sub_mod (by omega), Nat.mod_eq_of_lt (by omega)]

theorem ring_inj {i d1 d2 L : Nat} (hi : i < L) (h1 : d1 < L) (h2 : d2 < L)
    (h : (i + d1) % L = (i + d2) % L) : d1 = d2 := by
  rw [ring_cases hi h1, ring_cases hi h2] at h
  split at h <;> split at h <;> omega

theorem ring_rebase (i a b L : Nat) : ((i + a) % L + b) % L = (i + (a + b)) % L := by
  rw [Nat.mod_add_mod, Nat.add_assoc]

theorem ring_surj {i j L : Nat} (hi : i < L) (hj : j < L) : ∃ d, d < L ∧ (i + d) % L = j := by
  by_cases h : i ≤ j
  · exact ⟨j - i, by omega, by rw [ring_cases hi (by omega)]; split <;> omega⟩
  · exact ⟨j + L - i, by omega, by rw [ring_cases hi (by omega)]; split <;> omega⟩

theorem ring_succ (i d L : Nat) : ((i + d) % L + 1) % L = (i + (d + 1)) % L :=
  ring_rebase i d 1 L

/-! ### slots -/

theorem slot_set {s : State} {i j : Nat} {x : Option Nat} (hi : i < s.values.length) :
    slot { s with values := s.values.set i x } j = if i = j then x else slot s j := by
  unfold slot
  simp only [List.getD_eq_getElem?_getD, List.getElem?_set, hi, if_true]
  by_cases h : i = j <;> simp [h]

/-- logical slot `d`: the slot `d` places after `index` in the ring -/
def lslot (s : State) (d : Nat) : Option Nat := slot s ((s.index + d) % s.values.length)

/-- non-empty and well-formed (the occupied-ends part of the invariant is separate) -/
structure WF (s : State) : Prop where
  idx : s.index < s.values.length
  ord : s.start ≤ s.endPn
  span : s.endPn - s.start < s.values.length
  outside : ∀ d, s.endPn - s.start < d → d < s.values.length → lslot s d = none

theorem WF.notEmpty {s : State} (h : WF s) : isEmpty s = false := by
  unfold isEmpty
  have := h.idx
  simp; omega

theorem get_eq {s : State} (h : WF s) (k : Nat) :
    PnMap.get s k = if s.start ≤ k ∧ k ≤ s.endPn then lslot s (k - s.start) else none := by
  unfold PnMap.get pnIndex
  rw [h.notEmpty]
  by_cases h1 : k > s.endPn
  · have : ¬ (s.start ≤ k ∧ k ≤ s.endPn) := by omega
    simp [h1, this]
  · by_cases h2 : k < s.start
    · have : ¬ (s.start ≤ k ∧ k ≤ s.endPn) := by omega
      simp [h1, h2, this]
    · have : s.start ≤ k ∧ k ≤ s.endPn := by omega
      simp [h1, h2, this, lslot]

/-- the full invariant -/
inductive Inv (s : State) : Prop where
  | empty (hidx : s.index = s.values.length) (hlen : 0 < s.values.length)
      (hnone : ∀ i, i < s.values.length → slot s i = none) : Inv s
  | full (wf : WF s) (hs : (lslot s 0).isSome) (he : (lslot s (s.endPn - s.start)).isSome) : Inv s

theorem inv_init : Inv init := by
  apply Inv.empty
  · rfl
  · decide
  · intro i hi
    simp only [slot, init, List.getD_eq_getElem?_getD, List.getElem?_replicate]
    split <;> rfl

theorem get_empty {s : State} (h : isEmpty s = true) (k : Nat) : PnMap.get s k = none := by
  simp [PnMap.get, pnIndex, h]

/-! ### the reference map -/

theorem lookup_cons (m : RefMap.State) (k v k' : Nat) :
    RefMap.lookup ((k, v) :: m) k' = if k = k' then some v else RefMap.lookup m k' := rfl

theorem lookup_erase (m : RefMap.State) (k k' : Nat) :
    RefMap.lookup (RefMap.erase m k) k' = if k' = k then none else RefMap.lookup m k' := by
  induction m with
  | nil => simp [RefMap.erase, RefMap.lookup]
  | cons e m ih =>
    obtain ⟨a, b⟩ := e
    unfold RefMap.erase at ih ⊢
    simp only [List.filter_cons]
    by_cases h : a = k
    · subst h
      simp only [bne_self_eq_false, Bool.false_eq_true, if_false]
      rw [ih, lookup_cons]
      by_cases h2 : k' = a
      · simp [h2]
      · have : ¬ a = k' := fun e => h2 e.symm
        simp [h2, this]
    · have : (a != k) = true := by simp [h]
      simp only [this, if_true]
      rw [lookup_cons, lookup_cons, ih]
      by_cases h2 : a = k'
      · subst h2; simp [h]
      · simp [h2]

theorem lookup_eraseRange (m : RefMap.State) (lo hi k : Nat) :
    RefMap.lookup (RefMap.eraseRange m lo hi) k = if lo ≤ k ∧ k ≤ hi then none else RefMap.lookup m k := by
  induction m with
  | nil => simp [RefMap.eraseRange, RefMap.lookup]
  | cons e m ih =>
    obtain ⟨a, b⟩ := e
    unfold RefMap.eraseRange at ih ⊢
    simp only [List.filter_cons]
    by_cases h : lo ≤ a ∧ a ≤ hi
    · have : (!(decide (lo ≤ a) && decide (a ≤ hi))) = false := by simp [h.1, h.2]
      simp only [this, Bool.false_eq_true, if_false]
      rw [ih, lookup_cons]
      by_cases h2 : a = k
      · subst h2; simp [h]
      · simp [h2]
    · have : (!(decide (lo ≤ a) && decide (a ≤ hi))) = true := by
        simp only [Bool.not_eq_true', Bool.and_eq_false_imp, decide_eq_true_eq, decide_eq_false_iff_not]
        intro h1 h2; exact h ⟨h1, h2⟩
      simp only [this, if_true]
      rw [lookup_cons, lookup_cons, ih]
      by_cases h2 : a = k
      · subst h2; simp [h]
      · simp [h2]

/-- the ring buffer holds exactly the bindings of the association list -/
def Sim (s : State) (m : RefMap.State) : Prop := ∀ k, RefMap.lookup m k = PnMap.get s k

theorem sim_init : Sim init RefMap.init := by
  intro k
  rw [get_empty (by decide)]
  rfl

/-! ### writing one logical slot -/

theorem lslot_set {s s' : State} {d d' : Nat} {x : Option Nat} (hi : s.index < s.values.length)
    (hd : d < s.values.length) (hd' : d' < s.values.length)
    (hv : s'.values = s.values.set ((s.index + d) % s.values.length) x) (hx : s'.index = s.index) :
    lslot s' d' = if d = d' then x else lslot s d' := by
  unfold lslot slot
  rw [hv, hx, List.length_set]
  simp only [List.getD_eq_getElem?_getD, List.getElem?_set]
  have hlt : (s.index + d) % s.values.length < s.values.length := Nat.mod_lt _ (by omega)
  by_cases h : d = d'
  · subst h; simp [hlt]
  · have : ¬ (s.index + d) % s.values.length = (s.index + d') % s.values.length :=
      fun e => h (ring_inj hi hd hd' e)
    simp [h, this]

/-! ### insert into the empty map -/

theorem insert_empty {s : State} (h : Inv s) (he : isEmpty s = true) (pn v : Nat) :
    let s' : State := { values := s.values.set 0 (some v), start := pn, endPn := pn, index := 0 }
    Inv s' ∧ ∀ k, PnMap.get s' k = if k = pn then some v else none := by
  intro s'
  cases h with
  | full wf _ _ => rw [wf.notEmpty] at he; cases he
  | empty hidx hlen hnone =>
    have hl : s'.values.length = s.values.length := by simp [s']
    have hls : ∀ d, d < s.values.length → lslot s' d = if d = 0 then some v else none := by
      intro d hd
      unfold lslot slot
      rw [hl]
      simp only [s', Nat.zero_add, Nat.mod_eq_of_lt hd, List.getD_eq_getElem?_getD, List.getElem?_set, hlen, if_true]
      by_cases h0 : d = 0
      · subst h0; simp
      · have : ¬ 0 = d := fun e => h0 e.symm
        simp only [this, h0, if_false]
        have := hnone d hd
        simpa [slot, List.getD_eq_getElem?_getD] using this
    have wf : WF s' := by
      refine ⟨by rw [hl]; exact hlen, Nat.le_refl _, by rw [hl]; simpa [s'] using hlen, ?_⟩
      intro d h1 h2
      rw [hl] at h2
      rw [hls d h2]
      have : ¬ d = 0 := by simp [s'] at h1; omega
      simp [this]
    refine ⟨Inv.full wf (by rw [hls 0 hlen]; rfl) (by simp only [s', Nat.sub_self]; rw [hls 0 hlen]; rfl), ?_⟩
    intro k
    rw [get_eq wf]
    by_cases hk : k = pn
    · subst hk; simp only [s', Nat.le_refl, and_self, if_true, Nat.sub_self]; rw [hls 0 hlen]; rfl
    · have : ¬ (s'.start ≤ k ∧ k ≤ s'.endPn) := by simp only [s']; omega
      simp [this, hk]

/-! ### resize -/

theorem growLen_spec (len : Nat) : ∀ (fuel n : Nat), 0 < n → 1 ≤ fuel → len < n * 2 ^ fuel →
    len < growLen n len fuel ∧ 2 * n ≤ growLen n len fuel := by
  intro fuel
  induction fuel with
  | zero => intro n _ h; omega
  | succ k ih =>
    intro n hn _ hlt
    show len < (if len < n * 2 then n * 2 else growLen (n * 2) len k) ∧
      2 * n ≤ (if len < n * 2 then n * 2 else growLen (n * 2) len k)
    by_cases h : len < n * 2
    · rw [if_pos h]; omega
    · rw [if_neg h]
      have hk : 1 ≤ k := by
        cases k with
        | zero => rw [show (0 : Nat) + 1 = 1 from rfl, Nat.pow_one] at hlt; omega
        | succ k' => omega
      have h2 : len < n * 2 * 2 ^ k := by
        rw [Nat.pow_succ] at hlt
        rw [Nat.mul_assoc, Nat.mul_comm 2 (2 ^ k)]; exact hlt
      have := ih (n * 2) (by omega) hk h2
      omega

theorem growLen_ok {L len : Nat} (hL : 0 < L) :
    len < growLen L len (len + 1) ∧ 2 * L ≤ growLen L len (len + 1) := by
  apply growLen_spec len (len + 1) L hL (by omega)
  have h1 : len < 2 ^ len := Nat.lt_two_pow_self
  have h2 : 2 ^ len < 2 ^ (len + 1) := Nat.pow_lt_pow_right (by decide) (by omega)
  have h3 : 2 ^ (len + 1) ≤ L * 2 ^ (len + 1) := Nat.le_mul_of_pos_left _ hL
  omega

theorem ring_getElem? {vs : List (Option Nat)} {i d : Nat} (hi : i < vs.length) (hd : d < vs.length) :
    (vs.drop i ++ vs.take i)[d]? = vs[(i + d) % vs.length]? := by
  rw [List.getElem?_append, List.length_drop, ring_cases hi hd]
  by_cases h : d < vs.length - i
  · have : i + d < vs.length := by omega
    simp only [h, this, if_true, List.getElem?_drop]
  · have h2 : ¬ i + d < vs.length := by omega
    simp only [h, h2, if_false, List.getElem?_take]
    have h3 : d - (vs.length - i) < i := by omega
    simp only [h3, if_true]
    congr 1; omega

theorem resize_spec {s : State} (h : WF s) (n : Nat) :
    WF (resize s n) ∧ (resize s n).start = s.start ∧ (resize s n).endPn = s.endPn ∧
    (resize s n).index = 0 ∧ n < (resize s n).values.length ∧
    s.values.length ≤ (resize s n).values.length ∧
    ∀ d, d < s.values.length → lslot (resize s n) d = lslot s d := by
  have hL : 0 < s.values.length := by have := h.idx; omega
  have ⟨g1, g2⟩ := @growLen_ok s.values.length n hL
  have hvl : (s.values.drop s.index ++ s.values.take s.index).length = s.values.length := by
    have := h.idx
    simp only [List.length_append, List.length_drop, List.length_take]; omega
  have hlen : (resize s n).values.length = growLen s.values.length n (n + 1) := by
    unfold resize
    simp only [List.length_append, List.length_replicate, hvl]; omega
  have hls : ∀ d, d < (resize s n).values.length →
      lslot (resize s n) d = if d < s.values.length then lslot s d else none := by
    intro d hd
    unfold lslot slot
    rw [Nat.mod_eq_of_lt (by simpa [resize] using hd)]
    simp only [resize, Nat.zero_add, List.getD_eq_getElem?_getD]
    rw [List.getElem?_append, hvl]
    by_cases hdl : d < s.values.length
    · simp only [hdl, if_true]
      rw [ring_getElem? h.idx hdl]
    · simp only [hdl, if_false, List.getElem?_replicate]
      split <;> rfl
  refine ⟨⟨?_, h.ord, ?_, ?_⟩, rfl, rfl, rfl, by rw [hlen]; exact g1, by rw [hlen]; omega, ?_⟩
  · rw [hlen]; show 0 < _; omega
  · rw [hlen]; have := h.span; show s.endPn - s.start < _; omega
  · intro d h1 h2
    rw [hls d h2]
    by_cases hdl : d < s.values.length
    · simp only [hdl, if_true]; exact h.outside d h1 hdl
    · simp [hdl]
  · intro d hd
    rw [hls d (by rw [hlen]; omega)]
    simp [hd]

/-- what `placeFor` hands to `insert`/`insert_or_update` -/
theorem placeFor_spec {s : State} (h : WF s) (pn : Nat) :
    WF (placeFor s pn).1 ∧ (placeFor s pn).1.start = s.start ∧ (placeFor s pn).1.endPn = s.endPn ∧
    pn - s.start < (placeFor s pn).1.values.length ∧
    s.values.length ≤ (placeFor s pn).1.values.length ∧
    (placeFor s pn).2 = ((placeFor s pn).1.index + (pn - s.start)) % (placeFor s pn).1.values.length ∧
    ∀ d, d < s.values.length → lslot (placeFor s pn).1 d = lslot s d := by
  by_cases hd : pn - s.start ≥ s.values.length
  · have e : placeFor s pn = (resize s (pn - s.start), pn - s.start) := by
      unfold placeFor; simp only [hd, if_true]
    rw [e]
    obtain ⟨r1, r2, r3, r4, r5, r6, r7⟩ := resize_spec h (pn - s.start)
    refine ⟨r1, r2, r3, r5, r6, ?_, r7⟩
    show pn - s.start = _
    rw [r4, Nat.zero_add, Nat.mod_eq_of_lt r5]
  · have e : placeFor s pn = (s, (s.index + (pn - s.start)) % s.values.length) := by
      unfold placeFor; simp only [hd, if_false]
    rw [e]
    exact ⟨h, rfl, rfl, (by show pn - s.start < s.values.length; omega), Nat.le_refl _, rfl, fun _ _ => rfl⟩

/-- writing `x` at `pn ≥ start` through `placeFor` (shared by `insert` and `insert_or_update`) -/
theorem write_spec {s : State} (h : WF s) (hs : (lslot s 0).isSome)
    (he : (lslot s (s.endPn - s.start)).isSome) {pn : Nat} (hp : s.start ≤ pn) {x : Option Nat}
    (hx : x.isSome) (p : State × Nat) (hpf : placeFor s pn = p) (s' : State)
    (hs' : s' = { p.1 with values := p.1.values.set p.2 x, endPn := max s.endPn pn }) :
    Inv s' ∧ ∀ k, PnMap.get s' k = if k = pn then x else PnMap.get s k := by
  have pf := placeFor_spec h pn
  rw [hpf] at pf
  obtain ⟨qwf, qs, qe, qd, ql, qi, qls⟩ := pf
  have hspan := h.span
  have hord := h.ord
  have hlen : s'.values.length = p.1.values.length := by rw [hs']; simp
  have hstart : s'.start = s.start := by rw [hs']; exact qs
  have hend : s'.endPn = max s.endPn pn := by rw [hs']
  have hidx : s'.index = p.1.index := by rw [hs']
  have hmax : max s.endPn pn = if s.endPn ≤ pn then pn else s.endPn := by
    by_cases hc : s.endPn ≤ pn
    · rw [if_pos hc, Nat.max_eq_right hc]
    · rw [if_neg hc, Nat.max_eq_left (by omega)]
  have hls : ∀ d, d < p.1.values.length → lslot s' d = if pn - s.start = d then x else lslot p.1 d := by
    intro d hd
    exact lslot_set (s := p.1) (s' := s') qwf.idx qd hd (by rw [hs', qi]) hidx
  have wf : WF s' := by
    refine ⟨by rw [hlen, hidx]; exact qwf.idx, ?_, ?_, ?_⟩
    · rw [hstart, hend]; split at hmax <;> omega
    · rw [hstart, hend, hlen]; split at hmax <;> omega
    · intro d h1 h2
      rw [hlen] at h2
      rw [hstart, hend] at h1
      rw [hls d h2]
      have : ¬ pn - s.start = d := by split at hmax <;> omega
      simp only [this, if_false]
      exact qwf.outside d (by rw [qs, qe]; split at hmax <;> omega) h2
  refine ⟨Inv.full wf ?_ ?_, ?_⟩
  · rw [hls 0 (by omega)]
    by_cases h0 : pn - s.start = 0
    · simp [h0, hx]
    · simp only [h0, if_false]; rw [qls 0 (by omega)]; exact hs
  · rw [hstart, hend, hls _ (by split at hmax <;> omega)]
    by_cases h0 : pn - s.start = max s.endPn pn - s.start
    · simp [h0, hx]
    · simp only [h0, if_false]
      have : max s.endPn pn - s.start = s.endPn - s.start := by split at hmax <;> omega
      rw [this, qls _ (by omega)]; exact he
  · intro k
    rw [get_eq wf, get_eq h, hstart, hend]
    by_cases hk : k = pn
    · subst hk
      have : s.start ≤ k ∧ k ≤ max s.endPn k := by split at hmax <;> omega
      simp only [this, and_self, if_true]
      rw [hls _ qd]; simp
    · simp only [hk, if_false]
      by_cases h1 : s.start ≤ k ∧ k ≤ s.endPn
      · have : s.start ≤ k ∧ k ≤ max s.endPn pn := by split at hmax <;> omega
        simp only [this, h1, and_self, if_true]
        rw [hls _ (by omega)]
        have : ¬ pn - s.start = k - s.start := by omega
        simp only [this, if_false]
        exact qls _ (by omega)
      · simp only [h1, if_false]
        by_cases h2 : s.start ≤ k ∧ k ≤ max s.endPn pn
        · simp only [h2, and_self, if_true]
          have h3 : k < pn := by split at hmax <;> omega
          rw [hls _ (by omega)]
          have : ¬ pn - s.start = k - s.start := by omega
          simp only [this, if_false]
          exact qwf.outside _ (by rw [qs, qe]; omega) (by omega)
        · simp [h2]

/-- `insert` under its precondition -/
theorem insert_spec {s : State} (h : Inv s) {pn : Nat} (v : Nat)
    (hpre : isEmpty s = true ∨ (pn > s.start ∧ pn > s.endPn)) :
    ∃ s', PnMap.insert s pn v = some s' ∧ Inv s' ∧
      ∀ k, PnMap.get s' k = if k = pn then some v else PnMap.get s k := by
  by_cases hemp : isEmpty s = true
  · have ⟨i1, i2⟩ := insert_empty h hemp pn v
    refine ⟨_, by unfold PnMap.insert; simp only [hemp, if_true], i1, ?_⟩
    intro k; rw [i2 k, get_empty hemp]
  · cases h with
    | empty hidx _ _ => exact absurd (by simp [isEmpty, hidx]) hemp
    | full wf hs he =>
      have hp : pn > s.start ∧ pn > s.endPn := by
        rcases hpre with h1 | h1
        · exact absurd h1 hemp
        · exact h1
      have ⟨w1, w2⟩ := write_spec wf hs he (pn := pn) (by omega) (x := some v) rfl _ rfl _ rfl
      refine ⟨_, ?_, w1, w2⟩
      unfold PnMap.insert
      have hg : (!(decide (pn > s.start) && decide (pn > s.endPn))) = false := by simp [hp.1, hp.2]
      simp only [hemp, hg, Bool.false_eq_true, if_false]
      have : max s.endPn pn = pn := Nat.max_eq_right (by omega)
      rw [this]

/-- `insert_or_update` under its precondition -/
theorem insertOrUpdate_spec {s : State} (h : Inv s) {pn : Nat} (v : Nat) (f : Nat → Nat)
    (hpre : isEmpty s = true ∨ pn ≥ s.start) :
    ∃ s', insertOrUpdate s pn v f = some s' ∧ Inv s' ∧
      ∀ k, PnMap.get s' k =
        if k = pn then (match PnMap.get s pn with | some prev => some (f prev) | none => some v)
        else PnMap.get s k := by
  by_cases hemp : isEmpty s = true
  · have ⟨i1, i2⟩ := insert_empty h hemp pn v
    refine ⟨_, by unfold insertOrUpdate; simp only [hemp, if_true], i1, ?_⟩
    intro k; rw [i2 k, get_empty hemp, get_empty hemp]
  · cases h with
    | empty hidx _ _ => exact absurd (by simp [isEmpty, hidx]) hemp
    | full wf hs he =>
      have hp : pn ≥ s.start := by
        rcases hpre with h1 | h1
        · exact absurd h1 hemp
        · exact h1
      obtain ⟨qwf, qs, qe, qd, ql, qi, qls⟩ := placeFor_spec wf pn
      -- the entry found at the target slot is `get s pn`
      have hord := wf.ord
      have hslot : slot (placeFor s pn).1 (placeFor s pn).2 = PnMap.get s pn := by
        rw [qi]
        show lslot (placeFor s pn).1 (pn - s.start) = _
        rw [get_eq wf]
        by_cases hin : pn ≤ s.endPn
        · have : s.start ≤ pn ∧ pn ≤ s.endPn := ⟨hp, hin⟩
          simp only [this, and_self, if_true]
          have := wf.span
          exact qls _ (by omega)
        · have : ¬ (s.start ≤ pn ∧ pn ≤ s.endPn) := by omega
          simp only [this, if_false]
          exact qwf.outside _ (by rw [qs, qe]; omega) qd
      have hx : (match PnMap.get s pn with | some prev => some (f prev) | none => some v).isSome := by
        cases PnMap.get s pn <;> rfl
      have ⟨w1, w2⟩ := write_spec wf hs he hp hx _ rfl _ rfl
      refine ⟨_, ?_, w1, w2⟩
      unfold insertOrUpdate
      have hg : (!(decide (pn ≥ s.start))) = false := by simp [hp]
      simp only [hemp, hg, Bool.false_eq_true, if_false, hslot]
      rfl

/-! ### the bound searches of `set_start` / `set_end` -/

theorem findUp_spec (s : State) : ∀ (fuel pn : Nat),
    (∃ q, pn ≤ q ∧ q < pn + fuel ∧ (PnMap.get s q).isSome) →
    ∃ p, findUp s pn fuel = some p ∧ pn ≤ p ∧ p < pn + fuel ∧ (PnMap.get s p).isSome ∧
      ∀ r, pn ≤ r → r < p → PnMap.get s r = none := by
  intro fuel
  induction fuel with
  | zero => rintro pn ⟨q, h1, h2, _⟩; omega
  | succ n ih =>
    rintro pn ⟨q, h1, h2, h3⟩
    unfold findUp
    by_cases hc : (PnMap.get s pn).isSome = true
    · simp only [hc, if_true]
      exact ⟨pn, rfl, Nat.le_refl _, by omega, hc, fun r a b => by omega⟩
    · simp only [hc]
      have hq : q ≠ pn := by intro e; subst e; exact hc h3
      obtain ⟨p, e1, e2, e3, e4, e5⟩ := ih (pn + 1) ⟨q, by omega, by omega, h3⟩
      refine ⟨p, e1, by omega, by omega, e4, ?_⟩
      intro r a b
      by_cases hr : r = pn
      · subst hr
        cases hg : PnMap.get s r with
        | none => rfl
        | some x => rw [hg] at hc; exact absurd rfl hc
      · exact e5 r (by omega) b

theorem findDown_spec (s : State) : ∀ (fuel pn : Nat),
    (∃ q, q ≤ pn ∧ pn < q + fuel ∧ (PnMap.get s q).isSome) →
    ∃ p, findDown s pn fuel = some p ∧ p ≤ pn ∧ pn < p + fuel ∧ (PnMap.get s p).isSome ∧
      ∀ r, p < r → r ≤ pn → PnMap.get s r = none := by
  intro fuel
  induction fuel with
  | zero => rintro pn ⟨q, h1, h2, _⟩; omega
  | succ n ih =>
    rintro pn ⟨q, h1, h2, h3⟩
    unfold findDown
    by_cases hc : (PnMap.get s pn).isSome = true
    · simp only [hc, if_true]
      exact ⟨pn, rfl, Nat.le_refl _, by omega, hc, fun r a b => by omega⟩
    · simp only [hc]
      have hq : q ≠ pn := by intro e; subst e; exact hc h3
      have hpn : ¬ pn = 0 := by omega
      simp only [hpn, if_false]
      obtain ⟨p, e1, e2, e3, e4, e5⟩ := ih (pn - 1) ⟨q, by omega, by omega, h3⟩
      refine ⟨p, e1, by omega, by omega, e4, ?_⟩
      intro r a b
      by_cases hr : r = pn
      · subst hr
        cases hg : PnMap.get s r with
        | none => rfl
        | some x => rw [hg] at hc; exact absurd rfl hc
      · exact e5 r a (by omega)

theorem pnIndex_eq {s : State} (h : WF s) {k : Nat} (h1 : s.start ≤ k) (h2 : k ≤ s.endPn) :
    pnIndex s k = some ((s.index + (k - s.start)) % s.values.length) := by
  unfold pnIndex
  rw [h.notEmpty]
  have a : ¬ k > s.endPn := by omega
  have b : ¬ k < s.start := by omega
  simp [a, b]

theorem setStart_spec {s : State} (h : WF s) {pn : Nat} (h1 : s.start ≤ pn)
    (hq : ∃ q, pn ≤ q ∧ q ≤ s.endPn ∧ (PnMap.get s q).isSome) :
    ∃ p, setStart s pn = some { s with index := (s.index + (p - s.start)) % s.values.length, start := p } ∧
      pn ≤ p ∧ p ≤ s.endPn ∧ (PnMap.get s p).isSome ∧ ∀ r, pn ≤ r → r < p → PnMap.get s r = none := by
  obtain ⟨q, q1, q2, q3⟩ := hq
  obtain ⟨p, e1, e2, e3, e4, e5⟩ := findUp_spec s (s.endPn + 1 - pn) pn ⟨q, q1, by omega, q3⟩
  refine ⟨p, ?_, e2, by omega, e4, e5⟩
  unfold setStart
  have a : ¬ pn < s.start := by omega
  have b : ¬ pn > s.endPn := by omega
  simp only [h.notEmpty, Bool.false_eq_true, if_false, a, b, e1]
  rw [pnIndex_eq h (by omega) (by omega)]

theorem setEnd_spec {s : State} (h : WF s) {pn : Nat} (h2 : pn ≤ s.endPn)
    (hq : ∃ q, s.start ≤ q ∧ q ≤ pn ∧ (PnMap.get s q).isSome) :
    ∃ p, setEnd s pn = some { s with endPn := p } ∧
      s.start ≤ p ∧ p ≤ pn ∧ (PnMap.get s p).isSome ∧ ∀ r, p < r → r ≤ pn → PnMap.get s r = none := by
  obtain ⟨q, q1, q2, q3⟩ := hq
  obtain ⟨p, e1, e2, e3, e4, e5⟩ := findDown_spec s (pn + 1 - s.start) pn ⟨q, q2, by omega, q3⟩
  refine ⟨p, ?_, by omega, e2, e4, e5⟩
  unfold setEnd
  have a : ¬ pn < s.start := by omega
  have b : ¬ pn > s.endPn := by omega
  simp only [h.notEmpty, Bool.false_eq_true, if_false, a, b, e1]

/-! ### moving the bounds over empty positions -/

theorem ring_wrap {i x L : Nat} (hx : L ≤ x) : (i + x) % L = (i + (x - L)) % L := by
  have : i + x = (i + (x - L)) + L := by omega
  rw [this, Nat.add_mod_right]

/-- advancing `start` (and `index`) to `p` over positions that hold nothing -/
theorem rebase_spec {s : State} (h : WF s) {p : Nat} (h1 : s.start ≤ p) (h2 : p ≤ s.endPn)
    (hnone : ∀ r, s.start ≤ r → r < p → PnMap.get s r = none) (s' : State)
    (hvals : s'.values = s.values) (hidx : s'.index = (s.index + (p - s.start)) % s.values.length)
    (hstart : s'.start = p) (hend : s'.endPn = s.endPn) :
    WF s' ∧ (∀ k, PnMap.get s' k = PnMap.get s k) ∧
    lslot s' 0 = lslot s (p - s.start) ∧ lslot s' (s'.endPn - s'.start) = lslot s (s.endPn - s.start) := by
  have hL : 0 < s.values.length := by have := h.idx; omega
  have hspan := h.span
  have hls : ∀ d, lslot s' d = lslot s (p - s.start + d) := by
    intro d
    unfold lslot slot
    rw [hvals, hidx, ring_rebase]
  have hlow : ∀ x, x < p - s.start → lslot s x = none := by
    intro x hx
    have := hnone (s.start + x) (by omega) (by omega)
    rw [get_eq h] at this
    have hin : s.start ≤ s.start + x ∧ s.start + x ≤ s.endPn := by omega
    simp only [hin, and_self, if_true] at this
    have e : s.start + x - s.start = x := by omega
    rw [e] at this; exact this
  have hwrap : ∀ x, s.values.length ≤ x → x < s.values.length + (p - s.start) → lslot s x = none := by
    intro x a b
    have : lslot s x = lslot s (x - s.values.length) := by
      unfold lslot; rw [ring_wrap a]
    rw [this]; exact hlow _ (by omega)
  have wf : WF s' := by
    refine ⟨by rw [hvals, hidx]; exact Nat.mod_lt _ hL, by rw [hstart, hend]; exact h2,
      by rw [hstart, hend, hvals]; omega, ?_⟩
    intro d a b
    rw [hstart, hend] at a
    rw [hvals] at b
    rw [hls]
    by_cases hc : p - s.start + d < s.values.length
    · exact h.outside _ (by omega) hc
    · exact hwrap _ (by omega) (by omega)
  refine ⟨wf, ?_, by rw [hls]; rfl, ?_⟩
  · intro k
    rw [get_eq wf, get_eq h, hstart, hend]
    by_cases hk : p ≤ k ∧ k ≤ s.endPn
    · have : s.start ≤ k ∧ k ≤ s.endPn := by omega
      simp only [hk, this, and_self, if_true]
      rw [hls]; congr 1; omega
    · simp only [hk, if_false]
      by_cases hk2 : s.start ≤ k ∧ k ≤ s.endPn
      · have := hnone k hk2.1 (by omega)
        rw [get_eq h] at this
        exact this.symm
      · simp [hk2]
  · rw [hstart, hend, hls]; congr 1; omega

/-- lowering `end` to `p` over positions that hold nothing -/
theorem shrink_spec {s : State} (h : WF s) {p : Nat} (h1 : s.start ≤ p) (h2 : p ≤ s.endPn)
    (hnone : ∀ r, p < r → r ≤ s.endPn → PnMap.get s r = none) (s' : State)
    (hvals : s'.values = s.values) (hidx : s'.index = s.index)
    (hstart : s'.start = s.start) (hend : s'.endPn = p) :
    WF s' ∧ (∀ k, PnMap.get s' k = PnMap.get s k) ∧ (∀ d, lslot s' d = lslot s d) := by
  have hspan := h.span
  have hls : ∀ d, lslot s' d = lslot s d := by intro d; unfold lslot slot; rw [hvals, hidx]
  have wf : WF s' := by
    refine ⟨by rw [hvals, hidx]; exact h.idx, by rw [hstart, hend]; exact h1,
      by rw [hstart, hend, hvals]; omega, ?_⟩
    intro d a b
    rw [hstart, hend] at a
    rw [hvals] at b
    rw [hls]
    by_cases hc : s.endPn - s.start < d
    · exact h.outside d hc b
    · have := hnone (s.start + d) (by omega) (by omega)
      rw [get_eq h] at this
      have hin : s.start ≤ s.start + d ∧ s.start + d ≤ s.endPn := by omega
      simp only [hin, and_self, if_true] at this
      have e : s.start + d - s.start = d := by omega
      rw [e] at this; exact this
  refine ⟨wf, ?_, hls⟩
  intro k
  rw [get_eq wf, get_eq h, hstart, hend]
  by_cases hk : s.start ≤ k ∧ k ≤ p
  · have : s.start ≤ k ∧ k ≤ s.endPn := by omega
    simp only [hk, this, and_self, if_true]
    exact hls _
  · simp only [hk, if_false]
    by_cases hk2 : s.start ≤ k ∧ k ≤ s.endPn
    · have := hnone k (by omega) hk2.2
      rw [get_eq h] at this
      exact this.symm
    · simp [hk2]

/-- marking a map empty whose slots are all vacant -/
theorem vacate_spec {s : State} (h : WF s) (hnone : ∀ k, PnMap.get s k = none) :
    Inv (logicalClear s) ∧ ∀ k, PnMap.get (logicalClear s) k = none := by
  have hL : 0 < s.values.length := by have := h.idx; omega
  have hspan := h.span
  have hord := h.ord
  refine ⟨Inv.empty rfl hL ?_, fun k => get_empty (by simp [isEmpty, logicalClear]) k⟩
  intro j hj
  show slot s j = none
  have hj' : j < s.values.length := hj
  obtain ⟨d, hd, e⟩ := ring_surj h.idx hj'
  have : slot s j = lslot s d := by unfold lslot; rw [e]
  rw [this]
  by_cases hc : s.endPn - s.start < d
  · exact h.outside d hc hd
  · have := hnone (s.start + d)
    rw [get_eq h] at this
    have hin : s.start ≤ s.start + d ∧ s.start + d ≤ s.endPn := by omega
    simp only [hin, and_self, if_true] at this
    have e : s.start + d - s.start = d := by omega
    rw [e] at this; exact this

/-! ### remove -/

theorem clear_one {s : State} (wf : WF s) {pn : Nat} (h1 : s.start ≤ pn) (h2 : pn ≤ s.endPn) (s1 : State)
    (hs1 : s1 = { s with values := s.values.set ((s.index + (pn - s.start)) % s.values.length) none }) :
    WF s1 ∧ s1.values.length = s.values.length ∧
    (∀ d', d' < s.values.length → lslot s1 d' = if pn - s.start = d' then none else lslot s d') ∧
    ∀ k, PnMap.get s1 k = if k = pn then none else PnMap.get s k := by
  have hspan := wf.span
  have hlen : s1.values.length = s.values.length := by rw [hs1]; simp
  have hstart : s1.start = s.start := by rw [hs1]
  have hend : s1.endPn = s.endPn := by rw [hs1]
  have hidx : s1.index = s.index := by rw [hs1]
  have hls : ∀ d', d' < s.values.length → lslot s1 d' = if pn - s.start = d' then none else lslot s d' := by
    intro d' hd'
    exact lslot_set (s := s) (s' := s1) wf.idx (by omega) hd' (by rw [hs1]) hidx
  have wf1 : WF s1 := by
    refine ⟨by rw [hlen, hidx]; exact wf.idx, by rw [hstart, hend]; exact wf.ord,
      by rw [hstart, hend, hlen]; exact wf.span, ?_⟩
    intro d a b
    rw [hstart, hend] at a
    rw [hlen] at b
    rw [hls d b]
    split
    · rfl
    · exact wf.outside d a b
  refine ⟨wf1, hlen, hls, ?_⟩
  intro k
  rw [get_eq wf1, get_eq wf, hstart, hend]
  by_cases hk : s.start ≤ k ∧ k ≤ s.endPn
  · simp only [hk, and_self, if_true]
    rw [hls _ (by omega)]
    by_cases hkp : k = pn
    · subst hkp; simp
    · have : ¬ pn - s.start = k - s.start := by omega
      simp [this, hkp]
  · simp [hk]

theorem get_isSome_of_lslot {s : State} (wf : WF s) {k : Nat} (h1 : s.start ≤ k) (h2 : k ≤ s.endPn)
    (h : (lslot s (k - s.start)).isSome) : (PnMap.get s k).isSome := by
  rw [get_eq wf]; simp only [h1, h2, and_self, if_true]; exact h

theorem lslot_of_get {s : State} (wf : WF s) {k : Nat} (h1 : s.start ≤ k) (h2 : k ≤ s.endPn) :
    lslot s (k - s.start) = PnMap.get s k := by
  rw [get_eq wf]; simp only [h1, h2, and_self, if_true]

theorem remove_spec {s : State} (h : Inv s) (pn : Nat) :
    ∃ s', remove s pn = some (s', PnMap.get s pn) ∧ Inv s' ∧
      ∀ k, PnMap.get s' k = if k = pn then none else PnMap.get s k := by
  cases h with
  | empty hidx hlen hnone =>
    have hemp : isEmpty s = true := by simp [isEmpty, hidx]
    refine ⟨s, ?_, Inv.empty hidx hlen hnone, ?_⟩
    · unfold remove; simp [pnIndex, hemp, get_empty hemp]
    · intro k; rw [get_empty hemp]; simp
  | full wf hs he =>
    have hord := wf.ord
    have hspan := wf.span
    by_cases hin : s.start ≤ pn ∧ pn ≤ s.endPn
    · have hpi := pnIndex_eq wf hin.1 hin.2
      have hslot : slot s ((s.index + (pn - s.start)) % s.values.length) = PnMap.get s pn :=
        lslot_of_get wf hin.1 hin.2
      cases hg : PnMap.get s pn with
      | none =>
        refine ⟨s, ?_, Inv.full wf hs he, ?_⟩
        · unfold remove; simp only [hpi, hslot, hg]
        · intro k
          by_cases hk : k = pn
          · subst hk; simp [hg]
          · simp [hk]
      | some info =>
        obtain ⟨wf1, hlen1, hls1, hget1⟩ := clear_one wf hin.1 hin.2 _ rfl
        generalize hs1 : ({ s with values := s.values.set ((s.index + (pn - s.start)) % s.values.length) none } : State) = s1 at wf1 hlen1 hls1 hget1
        have hstart1 : s1.start = s.start := by rw [← hs1]
        have hend1 : s1.endPn = s.endPn := by rw [← hs1]
        have hidx1 : s1.index = s.index := by rw [← hs1]
        have hrem : remove s pn =
            match (match s.start == pn, s.endPn == pn with
              | true, true => some (logicalClear s1)
              | true, false => setStart s1 (pn + 1)
              | false, true => if pn = 0 then none else setEnd s1 (pn - 1)
              | false, false => some s1) with
            | none => none
            | some s2 => some (s2, some info) := by
          unfold remove; simp only [hpi, hslot, hg, hs1]
          rfl
        rw [hrem]
        by_cases e1 : s.start = pn
        · by_cases e2 : s.endPn = pn
          · -- last entry removed
            have b1 : (s.start == pn) = true := by simp [e1]
            have b2 : (s.endPn == pn) = true := by simp [e2]
            simp only [b1, b2]
            have hall : ∀ k, PnMap.get s1 k = none := by
              intro k; rw [hget1]
              by_cases hk : k = pn
              · simp [hk]
              · simp only [hk, if_false]; rw [get_eq wf]
                have : ¬ (s.start ≤ k ∧ k ≤ s.endPn) := by omega
                simp [this]
            have ⟨v1, v2⟩ := vacate_spec wf1 hall
            refine ⟨_, rfl, v1, ?_⟩
            intro k; rw [v2, ← hget1, hall]
          · -- removed from the front
            have b1 : (s.start == pn) = true := by simp [e1]
            have b2 : (s.endPn == pn) = false := by simp [e2]
            simp only [b1, b2]
            have hq : ∃ q, pn + 1 ≤ q ∧ q ≤ s1.endPn ∧ (PnMap.get s1 q).isSome := by
              refine ⟨s.endPn, by omega, by omega, ?_⟩
              rw [hget1]
              have : ¬ s.endPn = pn := e2
              simp only [this, if_false]
              exact get_isSome_of_lslot wf hord (Nat.le_refl _) he
            obtain ⟨p, sp1, sp2, sp3, sp4, sp5⟩ := setStart_spec wf1 (pn := pn + 1) (by omega) hq
            have hnone : ∀ r, s1.start ≤ r → r < p → PnMap.get s1 r = none := by
              intro r a b
              by_cases hr : r = pn
              · rw [hget1]; simp [hr]
              · exact sp5 r (by omega) b
            obtain ⟨wf2, g2, l0, le⟩ := rebase_spec wf1 (p := p) (by omega) sp3 hnone
              { s1 with index := (s1.index + (p - s1.start)) % s1.values.length, start := p } rfl rfl rfl rfl
            rw [sp1]
            refine ⟨_, rfl, Inv.full wf2 ?_ ?_, ?_⟩
            · rw [l0, lslot_of_get wf1 (by omega) sp3]; exact sp4
            · rw [le, hstart1, hend1, hls1 _ (by omega)]
              have : ¬ pn - s.start = s.endPn - s.start := by omega
              simp only [this, if_false]; exact he
            · intro k; rw [g2, hget1]
        · by_cases e2 : s.endPn = pn
          · -- removed from the back
            have b1 : (s.start == pn) = false := by simp [e1]
            have b2 : (s.endPn == pn) = true := by simp [e2]
            have hpn0 : ¬ pn = 0 := by omega
            simp only [b1, b2, hpn0, if_false]
            have hq : ∃ q, s1.start ≤ q ∧ q ≤ pn - 1 ∧ (PnMap.get s1 q).isSome := by
              refine ⟨s.start, by omega, by omega, ?_⟩
              rw [hget1]
              simp only [e1, if_false]
              exact get_isSome_of_lslot wf (Nat.le_refl _) hord (by simpa using hs)
            obtain ⟨p, sp1, sp2, sp3, sp4, sp5⟩ := setEnd_spec wf1 (pn := pn - 1) (by omega) hq
            have hnone : ∀ r, p < r → r ≤ s1.endPn → PnMap.get s1 r = none := by
              intro r a b
              by_cases hr : r = pn
              · rw [hget1]; simp [hr]
              · exact sp5 r a (by omega)
            obtain ⟨wf2, g2, l2⟩ := shrink_spec wf1 (p := p) sp2 (by omega) hnone { s1 with endPn := p } rfl rfl rfl rfl
            rw [sp1]
            refine ⟨_, rfl, Inv.full wf2 ?_ ?_, ?_⟩
            · rw [l2, hls1 _ (by omega)]
              have : ¬ pn - s.start = 0 := by omega
              simp only [this, if_false]; exact hs
            · rw [l2]
              show (lslot s1 (p - s1.start)).isSome = true
              rw [lslot_of_get wf1 sp2 (by omega)]; exact sp4
            · intro k; rw [g2, hget1]
          · -- removed from the middle
            have b1 : (s.start == pn) = false := by simp [e1]
            have b2 : (s.endPn == pn) = false := by simp [e2]
            simp only [b1, b2]
            refine ⟨_, rfl, Inv.full wf1 ?_ ?_, hget1⟩
            · rw [hls1 _ (by omega)]
              have : ¬ pn - s.start = 0 := by omega
              simp only [this, if_false]; exact hs
            · rw [hstart1, hend1, hls1 _ (by omega)]
              have : ¬ pn - s.start = s.endPn - s.start := by omega
              simp only [this, if_false]; exact he
    · have hpi : pnIndex s pn = none := by
        unfold pnIndex
        rw [wf.notEmpty]
        by_cases a : pn > s.endPn
        · simp [a]
        · have b : pn < s.start := by omega
          simp [a, b]
      have hg : PnMap.get s pn = none := by rw [get_eq wf]; simp [hin]
      refine ⟨s, ?_, Inv.full wf hs he, ?_⟩
      · unfold remove; simp only [hpi, hg]
      · intro k
        by_cases hk : k = pn
        · subst hk; simp [hg]
        · simp [hk]

/-! ### draining a run of slots (`RemoveIter`) -/

/-- what a drain starting at logical slot `d0` yields, read from the untouched buffer -/
def lreads (vals : List (Option Nat)) (i : Nat) : Nat → Nat → Nat → List (Nat × Nat)
  | _, _, 0 => []
  | d0, pn, n + 1 =>
    match vals.getD ((i + d0) % vals.length) none with
    | some v => (pn, v) :: lreads vals i (d0 + 1) (pn + 1) n
    | none => lreads vals i (d0 + 1) (pn + 1) n

theorem lreads_congr {vals vals' : List (Option Nat)} {i : Nat} (hl : vals'.length = vals.length) :
    ∀ (n d0 pn : Nat),
    (∀ d, d0 ≤ d → d < d0 + n → vals'.getD ((i + d) % vals.length) none = vals.getD ((i + d) % vals.length) none) →
    lreads vals' i d0 pn n = lreads vals i d0 pn n := by
  intro n
  induction n with
  | zero => intros; rfl
  | succ n ih =>
    intro d0 pn h
    unfold lreads
    rw [hl, h d0 (Nat.le_refl _) (by omega)]
    rw [ih (d0 + 1) (pn + 1) (fun d a b => h d (by omega) (by omega))]

theorem getD_set_none (vals : List (Option Nat)) (a j : Nat) :
    (vals.set a none).getD j none = if a = j then none else vals.getD j none := by
  simp only [List.getD_eq_getElem?_getD, List.getElem?_set]
  by_cases h : a = j
  · subst h; by_cases h2 : a < vals.length <;> simp [h2]
  · simp [h]

theorem drain_spec {i L : Nat} (hi : i < L) : ∀ (n d0 pn : Nat) (vals : List (Option Nat)),
    vals.length = L → d0 + n ≤ L →
    (drain vals ((i + d0) % L) pn n).1.length = L ∧
    (∀ d, d < L → (drain vals ((i + d0) % L) pn n).1.getD ((i + d) % L) none =
      if d0 ≤ d ∧ d < d0 + n then none else vals.getD ((i + d) % L) none) ∧
    (drain vals ((i + d0) % L) pn n).2 = lreads vals i d0 pn n := by
  intro n
  induction n with
  | zero =>
    intro d0 pn vals hl _
    refine ⟨hl, ?_, rfl⟩
    intro d _
    have : ¬ (d0 ≤ d ∧ d < d0 + 0) := by omega
    rw [if_neg this]; rfl
  | succ n ih =>
    intro d0 pn vals hl hn
    have hidx' : ((i + d0) % L + 1) % vals.length = (i + (d0 + 1)) % L := by
      rw [hl]; exact ring_succ i d0 L
    cases hv : vals.getD ((i + d0) % L) none with
    | none =>
      have e : drain vals ((i + d0) % L) pn (n + 1) = drain vals ((i + (d0 + 1)) % L) (pn + 1) n := by
        rw [drain]; simp only [hv, hidx']
      have e2 : lreads vals i d0 pn (n + 1) = lreads vals i (d0 + 1) (pn + 1) n := by
        rw [lreads]; simp only [hl, hv]
      rw [e, e2]
      obtain ⟨a1, a2, a3⟩ := ih (d0 + 1) (pn + 1) vals hl (by omega)
      refine ⟨a1, ?_, a3⟩
      intro d hd
      rw [a2 d hd]
      by_cases hc : d0 + 1 ≤ d ∧ d < d0 + 1 + n
      · have : d0 ≤ d ∧ d < d0 + (n + 1) := by omega
        simp [hc, this]
      · simp only [hc, if_false]
        by_cases hd0 : d = d0
        · have : d0 ≤ d0 ∧ d0 < d0 + (n + 1) := by omega
          rw [hd0, if_pos this]; exact hv
        · have : ¬ (d0 ≤ d ∧ d < d0 + (n + 1)) := by omega
          rw [if_neg this]
    | some v =>
      have e : drain vals ((i + d0) % L) pn (n + 1) =
          ((drain (vals.set ((i + d0) % L) none) ((i + (d0 + 1)) % L) (pn + 1) n).1,
            (pn, v) :: (drain (vals.set ((i + d0) % L) none) ((i + (d0 + 1)) % L) (pn + 1) n).2) := by
        rw [drain]; simp only [hv, hidx']
      have e2 : lreads vals i d0 pn (n + 1) = (pn, v) :: lreads vals i (d0 + 1) (pn + 1) n := by
        rw [lreads]; simp only [hl, hv]
      rw [e, e2]
      have hl' : (vals.set ((i + d0) % L) none).length = L := by rw [List.length_set]; exact hl
      obtain ⟨a1, a2, a3⟩ := ih (d0 + 1) (pn + 1) (vals.set ((i + d0) % L) none) hl' (by omega)
      refine ⟨a1, ?_, ?_⟩
      · intro d hd
        show (drain (vals.set ((i + d0) % L) none) ((i + (d0 + 1)) % L) (pn + 1) n).1.getD ((i + d) % L) none = _
        rw [a2 d hd, getD_set_none]
        by_cases hc : d0 + 1 ≤ d ∧ d < d0 + 1 + n
        · have : d0 ≤ d ∧ d < d0 + (n + 1) := by omega
          simp [hc, this]
        · simp only [hc, if_false]
          by_cases hd0 : d = d0
          · subst hd0
            have : d ≤ d ∧ d < d + (n + 1) := by omega
            simp [this]
          · have h1 : ¬ (d0 ≤ d ∧ d < d0 + (n + 1)) := by omega
            have h2 : ¬ (i + d0) % L = (i + d) % L := fun e => hd0 (ring_inj hi (by omega) hd e).symm
            simp [h1, h2]
      · show (pn, v) :: (drain (vals.set ((i + d0) % L) none) ((i + (d0 + 1)) % L) (pn + 1) n).2 = _
        rw [a3]
        congr 1
        apply lreads_congr (by rw [List.length_set])
        intro d a b
        rw [hl, getD_set_none]
        have : ¬ (i + d0) % L = (i + d) % L := fun e => by
          have := ring_inj hi (by omega) (by omega) e; omega
        simp [this]

/-- the drained entries are the bindings of the reference map over the same keys -/
theorem lreads_eq_slice {s : State} {m : RefMap.State} : ∀ (n d0 pn : Nat),
    (∀ t, t < n → RefMap.lookup m (pn + t) = lslot s (d0 + t)) →
    lreads s.values s.index d0 pn n = RefMap.slice m pn n := by
  intro n
  induction n with
  | zero => intros; rfl
  | succ n ih =>
    intro d0 pn h
    have h0 := h 0 (by omega)
    simp only [Nat.add_zero] at h0
    have ih' := ih (d0 + 1) (pn + 1) (fun t ht => by
      have := h (t + 1) (by omega)
      rw [show pn + 1 + t = pn + (t + 1) by omega, show d0 + 1 + t = d0 + (t + 1) by omega]; exact this)
    rw [lreads, RefMap.slice, h0]
    show (match lslot s d0 with
      | some v => (pn, v) :: lreads s.values s.index (d0 + 1) (pn + 1) n
      | none => lreads s.values s.index (d0 + 1) (pn + 1) n) = _
    rw [ih']
    rfl

theorem slice_none (m : RefMap.State) : ∀ (n lo : Nat),
    (∀ t, t < n → RefMap.lookup m (lo + t) = none) → RefMap.slice m lo n = [] := by
  intro n
  induction n with
  | zero => intros; rfl
  | succ n ih =>
    intro lo h
    have h0 := h 0 (by omega)
    simp only [Nat.add_zero] at h0
    rw [RefMap.slice, h0]
    exact ih (lo + 1) (fun t ht => by
      have := h (t + 1) (by omega)
      rw [show lo + 1 + t = lo + (t + 1) by omega]; exact this)

theorem slice_append (m : RefMap.State) : ∀ (a b lo : Nat),
    RefMap.slice m lo (a + b) = RefMap.slice m lo a ++ RefMap.slice m (lo + a) b := by
  intro a
  induction a with
  | zero => intro b lo; simp [RefMap.slice]
  | succ a ih =>
    intro b lo
    rw [show a + 1 + b = (a + b) + 1 by omega, RefMap.slice, RefMap.slice, ih b (lo + 1)]
    rw [show lo + 1 + a = lo + (a + 1) by omega]
    cases RefMap.lookup m lo <;> simp

/-! ### remove_range -/

/-- the buffer after draining the logical slots `d0 .. d0+n-1` -/
theorem cleared_spec {s : State} (wf : WF s) {d0 n pn : Nat} (hn : d0 + n ≤ s.endPn - s.start + 1)
    (sc : State) (hv : sc.values = (drain s.values ((s.index + d0) % s.values.length) pn n).1)
    (hidx : sc.index = s.index) (hstart : sc.start = s.start) (hend : sc.endPn = s.endPn) :
    WF sc ∧ sc.values.length = s.values.length ∧
    (∀ d, d < s.values.length → lslot sc d = if d0 ≤ d ∧ d < d0 + n then none else lslot s d) ∧
    (∀ k, PnMap.get sc k =
      if s.start + d0 ≤ k ∧ k < s.start + d0 + n then none else PnMap.get s k) := by
  have hspan := wf.span
  have hord := wf.ord
  obtain ⟨a1, a2, _⟩ := drain_spec wf.idx n d0 pn s.values rfl (by omega)
  have hlen : sc.values.length = s.values.length := by rw [hv]; exact a1
  have hls : ∀ d, d < s.values.length → lslot sc d = if d0 ≤ d ∧ d < d0 + n then none else lslot s d := by
    intro d hd
    unfold lslot slot
    rw [hlen, hidx, hv]
    exact a2 d hd
  have wfc : WF sc := by
    refine ⟨by rw [hlen, hidx]; exact wf.idx, by rw [hstart, hend]; exact hord,
      by rw [hstart, hend, hlen]; exact hspan, ?_⟩
    intro d a b
    rw [hstart, hend] at a
    rw [hlen] at b
    rw [hls d b]
    split
    · rfl
    · exact wf.outside d a b
  refine ⟨wfc, hlen, hls, ?_⟩
  intro k
  rw [get_eq wfc, get_eq wf, hstart, hend]
  by_cases hk : s.start ≤ k ∧ k ≤ s.endPn
  · simp only [hk, and_self, if_true]
    rw [hls _ (by omega)]
    by_cases hc : d0 ≤ k - s.start ∧ k - s.start < d0 + n
    · have : s.start + d0 ≤ k ∧ k < s.start + d0 + n := by omega
      simp [hc, this]
    · have : ¬ (s.start + d0 ≤ k ∧ k < s.start + d0 + n) := by omega
      simp [hc, this]
  · simp [hk]

theorem slice_trim (m : RefMap.State) {lo hi a b : Nat} (h1 : lo ≤ a) (h2 : a ≤ b) (h3 : b ≤ hi)
    (hl : ∀ k, lo ≤ k → k < a → RefMap.lookup m k = none)
    (hr : ∀ k, b < k → k ≤ hi → RefMap.lookup m k = none) :
    RefMap.slice m lo (hi + 1 - lo) = RefMap.slice m a (b + 1 - a) := by
  have e : hi + 1 - lo = (a - lo) + ((b + 1 - a) + (hi - b)) := by omega
  rw [e, slice_append, slice_append]
  rw [slice_none m (a - lo) lo (fun t ht => hl _ (by omega) (by omega))]
  rw [show lo + (a - lo) = a by omega]
  rw [slice_none m (hi - b) (a + (b + 1 - a)) (fun t ht => hr _ (by omega) (by omega))]
  simp

theorem get_outside {s : State} (wf : WF s) {k : Nat} (h : k < s.start ∨ s.endPn < k) :
    PnMap.get s k = none := by
  rw [get_eq wf]
  have : ¬ (s.start ≤ k ∧ k ≤ s.endPn) := by omega
  simp [this]

theorem plan_all {s : State} {lo hi : Nat} (c1 : lo ≤ s.start) (c2 : s.endPn ≤ hi) :
    removePlan s lo hi = some (logicalClear s, s.start, s.endPn, s.index) := by
  unfold removePlan
  rcases Nat.lt_or_eq_of_le c1 with l1 | l1 <;> rcases Nat.lt_or_eq_of_le c2 with l2 | l2
  · rw [Nat.compare_eq_lt.mpr l1, Nat.compare_eq_gt.mpr l2]
  · rw [Nat.compare_eq_lt.mpr l1, Nat.compare_eq_eq.mpr l2.symm]
  · rw [Nat.compare_eq_eq.mpr l1, Nat.compare_eq_gt.mpr l2]
  · rw [Nat.compare_eq_eq.mpr l1, Nat.compare_eq_eq.mpr l2.symm]

theorem plan_front {s : State} {lo hi : Nat} (c1 : lo ≤ s.start) (c2 : hi < s.endPn) :
    removePlan s lo hi =
      match setStart s (hi + 1) with
      | none => none
      | some s1 => some (s1, s.start, hi, s.index) := by
  unfold removePlan
  rcases Nat.lt_or_eq_of_le c1 with l1 | l1
  · rw [Nat.compare_eq_lt.mpr l1, Nat.compare_eq_lt.mpr c2]; rfl
  · rw [Nat.compare_eq_eq.mpr l1, Nat.compare_eq_lt.mpr c2]; rfl

theorem plan_back {s : State} {lo hi : Nat} (c1 : s.start < lo) (c2 : s.endPn ≤ hi) :
    removePlan s lo hi =
      match pnIndex s lo with
      | none => none
      | some i =>
        if lo = 0 then none
        else
          match setEnd s (lo - 1) with
          | none => none
          | some s1 => some (s1, lo, s.endPn, i) := by
  unfold removePlan
  rcases Nat.lt_or_eq_of_le c2 with l2 | l2
  · rw [Nat.compare_eq_gt.mpr c1, Nat.compare_eq_gt.mpr l2]; rfl
  · rw [Nat.compare_eq_gt.mpr c1, Nat.compare_eq_eq.mpr l2.symm]; rfl

theorem plan_mid {s : State} {lo hi : Nat} (c1 : s.start < lo) (c2 : hi < s.endPn) :
    removePlan s lo hi =
      match pnIndex s lo with
      | none => none
      | some i => some (s, lo, hi, i) := by
  unfold removePlan
  rw [Nat.compare_eq_gt.mpr c1, Nat.compare_eq_lt.mpr c2]; rfl

theorem removeRange_unfold {s : State} {lo hi : Nat} (hne : isEmpty s = false)
    (hov : (decide (hi < s.start) || decide (lo > s.endPn)) = false)
    {s1 : State} {a b i : Nat} (hp : removePlan s lo hi = some (s1, a, b, i)) :
    removeRange s lo hi =
      some ({ s1 with values := (drain s1.values i a (b - a + 1)).1 }, (drain s1.values i a (b - a + 1)).2) := by
  unfold removeRange
  simp only [hne, Bool.false_eq_true, if_false, hov, hp]

theorem removeRange_spec {s : State} {m : RefMap.State} (h : Inv s) (hsim : Sim s m) {lo hi : Nat}
    (hle : lo ≤ hi) :
    ∃ s', removeRange s lo hi = some (s', RefMap.slice m lo (hi + 1 - lo)) ∧ Inv s' ∧
      ∀ k, PnMap.get s' k = if lo ≤ k ∧ k ≤ hi then none else PnMap.get s k := by
  cases h with
  | empty hidx hlen hnone =>
    have hemp : isEmpty s = true := by simp [isEmpty, hidx]
    have hsl : RefMap.slice m lo (hi + 1 - lo) = [] :=
      slice_none m _ lo (fun t _ => by rw [hsim, get_empty hemp])
    refine ⟨s, ?_, Inv.empty hidx hlen hnone, ?_⟩
    · unfold removeRange; simp only [hemp, if_true, hsl]
    · intro k; rw [get_empty hemp]; simp
  | full wf hs he =>
    have hord := wf.ord
    have hspan := wf.span
    have hne := wf.notEmpty
    by_cases hout : hi < s.start ∨ lo > s.endPn
    · have hsl : RefMap.slice m lo (hi + 1 - lo) = [] :=
        slice_none m _ lo (fun t ht => by rw [hsim]; exact get_outside wf (by omega))
      refine ⟨s, ?_, Inv.full wf hs he, ?_⟩
      · unfold removeRange
        have : (decide (hi < s.start) || decide (lo > s.endPn)) = true := by
          rcases hout with h1 | h1 <;> simp [h1]
        simp only [hne, Bool.false_eq_true, if_false, this, if_true, hsl]
      · intro k
        by_cases hk : lo ≤ k ∧ k ≤ hi
        · simp only [hk, and_self, if_true]; exact get_outside wf (by omega)
        · simp [hk]
    · have hov : (decide (hi < s.start) || decide (lo > s.endPn)) = false := by
        have h1 : ¬ hi < s.start := by omega
        have h2 : ¬ lo > s.endPn := by omega
        simp [h1, h2]
      -- the drained run: keys a..b, logical slots d0 .. d0+n-1
      generalize ha : max lo s.start = a
      generalize hb : min hi s.endPn = b
      have ha' : a = if lo ≤ s.start then s.start else lo := by
        rw [← ha]; split <;> omega
      have hb' : b = if hi ≤ s.endPn then hi else s.endPn := by
        rw [← hb]; split <;> omega
      have hab : a ≤ b := by split at ha' <;> split at hb' <;> omega
      have hsl : RefMap.slice m lo (hi + 1 - lo) = RefMap.slice m a (b + 1 - a) :=
        slice_trim m (by split at ha' <;> omega) hab (by split at hb' <;> omega)
          (fun k k1 k2 => by rw [hsim]; exact get_outside wf (by split at ha' <;> omega))
          (fun k k1 k2 => by rw [hsim]; exact get_outside wf (by split at hb' <;> omega))
      obtain ⟨_, _, d3⟩ := drain_spec wf.idx (b - a + 1) (a - s.start) a s.values rfl
        (by split at ha' <;> split at hb' <;> omega)
      have hreads : (drain s.values ((s.index + (a - s.start)) % s.values.length) a (b - a + 1)).2
          = RefMap.slice m lo (hi + 1 - lo) := by
        rw [hsl, d3, show b + 1 - a = b - a + 1 by omega]
        apply lreads_eq_slice
        intro t ht
        rw [hsim, ← lslot_of_get wf (by split at ha' <;> omega) (by split at hb' <;> omega)]
        congr 1
        split at ha' <;> omega
      generalize hsc : ({ s with values := (drain s.values ((s.index + (a - s.start)) % s.values.length) a (b - a + 1)).1 } : State) = sc
      obtain ⟨wfc, hlenc, hlsc, hgetc⟩ := cleared_spec wf (d0 := a - s.start) (n := b - a + 1) (pn := a)
        (by split at ha' <;> split at hb' <;> omega) sc (by rw [← hsc]) (by rw [← hsc]) (by rw [← hsc]) (by rw [← hsc])
      have hstartc : sc.start = s.start := by rw [← hsc]
      have hendc : sc.endPn = s.endPn := by rw [← hsc]
      have hidxc : sc.index = s.index := by rw [← hsc]
      have hvalc : sc.values = (drain s.values ((s.index + (a - s.start)) % s.values.length) a (b - a + 1)).1 := by
        rw [← hsc]
      have hgetc' : ∀ k, PnMap.get sc k = if lo ≤ k ∧ k ≤ hi then none else PnMap.get s k := by
        intro k
        rw [hgetc]
        by_cases hk : lo ≤ k ∧ k ≤ hi
        · simp only [hk, and_self, if_true]
          by_cases hk2 : s.start + (a - s.start) ≤ k ∧ k < s.start + (a - s.start) + (b - a + 1)
          · simp [hk2]
          · simp only [hk2, if_false]
            exact get_outside wf (by split at ha' <;> split at hb' <;> omega)
        · have : ¬ (s.start + (a - s.start) ≤ k ∧ k < s.start + (a - s.start) + (b - a + 1)) := by
            split at ha' <;> split at hb' <;> omega
          simp [hk, this]
      by_cases c1 : lo ≤ s.start
      · have a_eq : a = s.start := by rw [ha', if_pos c1]
        have hi0 : (s.index + (a - s.start)) % s.values.length = s.index := by
          rw [a_eq, Nat.sub_self, Nat.add_zero, Nat.mod_eq_of_lt wf.idx]
        by_cases c2 : s.endPn ≤ hi
        · -- everything goes
          have b_eq : b = s.endPn := by rw [hb']; split <;> omega
          have hall : ∀ k, PnMap.get sc k = none := by
            intro k; rw [hgetc']
            by_cases hk : lo ≤ k ∧ k ≤ hi
            · simp [hk]
            · simp only [hk, if_false]; exact get_outside wf (by omega)
          have ⟨v1, v2⟩ := vacate_spec wfc hall
          have hlc : logicalClear sc = { sc with index := s.values.length } := by
            unfold logicalClear; rw [hlenc]
          rw [hlc] at v1 v2
          refine ⟨{ sc with index := s.values.length }, ?_, v1, ?_⟩
          · rw [removeRange_unfold hne hov (plan_all c1 c2), ← hreads, ← hsc, hi0, a_eq, b_eq]
            rfl
          · intro k; rw [v2, ← hgetc', hall]
        · -- the front goes: `set_start` finds the first survivor
          have c2' : hi < s.endPn := by omega
          have b_eq : b = hi := by rw [hb']; split <;> omega
          obtain ⟨p, sp1, sp2, sp3, sp4, sp5⟩ := setStart_spec wf (pn := hi + 1) (by omega)
            ⟨s.endPn, by omega, Nat.le_refl _, get_isSome_of_lslot wf hord (Nat.le_refl _) he⟩
          have hnone : ∀ r, sc.start ≤ r → r < p → PnMap.get sc r = none := by
            intro r r1 r2
            rw [hgetc']
            by_cases hk : lo ≤ r ∧ r ≤ hi
            · simp [hk]
            · simp only [hk, if_false]; exact sp5 r (by omega) r2
          obtain ⟨wf2, g2, l0, le2⟩ := rebase_spec wfc (p := p) (by omega) (by omega) hnone
            { sc with index := (s.index + (p - s.start)) % s.values.length, start := p }
            rfl (by rw [hidxc, hstartc, hlenc]) rfl rfl
          refine ⟨_, ?_, Inv.full wf2 ?_ ?_, ?_⟩
          · have hp := plan_front (s := s) (lo := lo) (hi := hi) c1 c2'
            rw [sp1] at hp
            rw [removeRange_unfold hne hov hp, ← hreads, ← hsc, hi0, a_eq, b_eq]
          · rw [l0, hstartc, hlsc _ (by omega)]
            have : ¬ (a - s.start ≤ p - s.start ∧ p - s.start < a - s.start + (b - a + 1)) := by omega
            simp only [this, if_false]
            rw [lslot_of_get wf (by omega) sp3]; exact sp4
          · rw [le2, hstartc, hendc, hlsc _ (by omega)]
            have : ¬ (a - s.start ≤ s.endPn - s.start ∧ s.endPn - s.start < a - s.start + (b - a + 1)) := by omega
            simp only [this, if_false]; exact he
          · intro k; rw [g2, hgetc']
      · have c1' : s.start < lo := by omega
        have a_eq : a = lo := by rw [ha', if_neg c1]
        have hpi : pnIndex s lo = some ((s.index + (a - s.start)) % s.values.length) := by
          rw [a_eq]; exact pnIndex_eq wf (by omega) (by omega)
        have hlo0 : ¬ lo = 0 := by omega
        by_cases c2 : s.endPn ≤ hi
        · -- the back goes: `set_end` finds the last survivor
          have b_eq : b = s.endPn := by rw [hb']; split <;> omega
          obtain ⟨p, sp1, sp2, sp3, sp4, sp5⟩ := setEnd_spec wf (pn := lo - 1) (by omega)
            ⟨s.start, Nat.le_refl _, by omega, get_isSome_of_lslot wf (Nat.le_refl _) hord (by simpa using hs)⟩
          have hnone : ∀ r, p < r → r ≤ sc.endPn → PnMap.get sc r = none := by
            intro r r1 r2
            rw [hgetc']
            by_cases hk : lo ≤ r ∧ r ≤ hi
            · simp [hk]
            · simp only [hk, if_false]; exact sp5 r r1 (by omega)
          obtain ⟨wf2, g2, l2⟩ := shrink_spec wfc (p := p) (by omega) (by omega) hnone
            { sc with endPn := p } rfl rfl rfl rfl
          refine ⟨_, ?_, Inv.full wf2 ?_ ?_, ?_⟩
          · have hp := plan_back (s := s) (lo := lo) (hi := hi) c1' c2
            rw [hpi] at hp
            simp only [hlo0, if_false, sp1] at hp
            rw [removeRange_unfold hne hov hp, ← hreads, ← hsc, a_eq, b_eq]
          · rw [l2, hlsc _ (by omega)]
            have : ¬ (a - s.start ≤ 0 ∧ 0 < a - s.start + (b - a + 1)) := by omega
            simp only [this, if_false]; exact hs
          · rw [l2]
            show (lslot sc (p - sc.start)).isSome = true
            rw [hstartc, hlsc _ (by omega)]
            have : ¬ (a - s.start ≤ p - s.start ∧ p - s.start < a - s.start + (b - a + 1)) := by omega
            simp only [this, if_false]
            rw [lslot_of_get wf sp2 (by omega)]; exact sp4
          · intro k; rw [g2, hgetc']
        · -- a middle part goes: bounds stay
          have c2' : hi < s.endPn := by omega
          have b_eq : b = hi := by rw [hb']; split <;> omega
          refine ⟨sc, ?_, Inv.full wfc ?_ ?_, hgetc'⟩
          · have hp := plan_mid (s := s) (lo := lo) (hi := hi) c1' c2'
            rw [hpi] at hp
            rw [removeRange_unfold hne hov hp, ← hreads, ← hsc, a_eq, b_eq]
          · rw [hlsc _ (by omega)]
            have : ¬ (a - s.start ≤ 0 ∧ 0 < a - s.start + (b - a + 1)) := by omega
            simp only [this, if_false]; exact hs
          · rw [hstartc, hendc, hlsc _ (by omega)]
            have : ¬ (a - s.start ≤ s.endPn - s.start ∧ s.endPn - s.start < a - s.start + (b - a + 1)) := by omega
            simp only [this, if_false]; exact he

/-! ### clear -/

theorem clearSlots_spec {s : State} (wf : WF s) : ∀ (fuel pn : Nat) (vals : List (Option Nat)),
    vals.length = s.values.length → s.start ≤ pn → pn + fuel ≤ s.endPn + 1 →
    (clearSlots s vals pn fuel).length = s.values.length ∧
    ∀ d, d < s.values.length →
      (clearSlots s vals pn fuel).getD ((s.index + d) % s.values.length) none =
        if pn - s.start ≤ d ∧ d < pn - s.start + fuel then none
        else vals.getD ((s.index + d) % s.values.length) none := by
  have hspan := wf.span
  intro fuel
  induction fuel with
  | zero =>
    intro pn vals hl _ _
    refine ⟨hl, ?_⟩
    intro d _
    have : ¬ (pn - s.start ≤ d ∧ d < pn - s.start + 0) := by omega
    rw [if_neg this]; rfl
  | succ n ih =>
    intro pn vals hl h1 h2
    have hpi := pnIndex_eq wf h1 (by omega)
    have e : clearSlots s vals pn (n + 1) =
        clearSlots s (vals.set ((s.index + (pn - s.start)) % s.values.length) none) (pn + 1) n := by
      rw [clearSlots]; simp only [hpi]
    rw [e]
    obtain ⟨a1, a2⟩ := ih (pn + 1) (vals.set ((s.index + (pn - s.start)) % s.values.length) none)
      (by rw [List.length_set]; exact hl) (by omega) (by omega)
    refine ⟨a1, ?_⟩
    intro d hd
    rw [a2 d hd, getD_set_none]
    by_cases hc : pn + 1 - s.start ≤ d ∧ d < pn + 1 - s.start + n
    · have : pn - s.start ≤ d ∧ d < pn - s.start + (n + 1) := by omega
      rw [if_pos hc, if_pos this]
    · rw [if_neg hc]
      by_cases hd0 : d = pn - s.start
      · have : pn - s.start ≤ d ∧ d < pn - s.start + (n + 1) := by omega
        rw [if_pos this, hd0, if_pos rfl]
      · have h3 : ¬ (pn - s.start ≤ d ∧ d < pn - s.start + (n + 1)) := by omega
        have h4 : ¬ (s.index + (pn - s.start)) % s.values.length = (s.index + d) % s.values.length :=
          fun e => hd0 (ring_inj wf.idx (by omega) hd e).symm
        rw [if_neg h3, if_neg h4]

theorem clear_spec {s : State} (h : Inv s) :
    ∃ s', clear s = some s' ∧ Inv s' ∧ ∀ k, PnMap.get s' k = none := by
  cases h with
  | empty hidx hlen hnone =>
    have hemp : isEmpty s = true := by simp [isEmpty, hidx]
    exact ⟨s, by unfold clear; simp only [hemp, if_true], Inv.empty hidx hlen hnone, get_empty hemp⟩
  | full wf hs he =>
    have hord := wf.ord
    have hspan := wf.span
    obtain ⟨c1, c2⟩ := clearSlots_spec wf (s.endPn - s.start + 1) s.start s.values rfl (Nat.le_refl _) (by omega)
    generalize hsc : ({ s with values := clearSlots s s.values s.start (s.endPn - s.start + 1) } : State) = sc
    have hvals : sc.values = clearSlots s s.values s.start (s.endPn - s.start + 1) := by rw [← hsc]
    have hidx : sc.index = s.index := by rw [← hsc]
    have hstart : sc.start = s.start := by rw [← hsc]
    have hend : sc.endPn = s.endPn := by rw [← hsc]
    have hlen : sc.values.length = s.values.length := by rw [hvals]; exact c1
    have hls : ∀ d, d < s.values.length → lslot sc d = none := by
      intro d hd
      unfold lslot slot
      rw [hlen, hidx, hvals, c2 d hd]
      by_cases hc : s.start - s.start ≤ d ∧ d < s.start - s.start + (s.endPn - s.start + 1)
      · rw [if_pos hc]
      · rw [if_neg hc]
        exact wf.outside d (by omega) hd
    have wfc : WF sc := by
      refine ⟨by rw [hlen, hidx]; exact wf.idx, by rw [hstart, hend]; exact hord,
        by rw [hstart, hend, hlen]; exact hspan, ?_⟩
      intro d _ b
      rw [hlen] at b
      exact hls d b
    have hall : ∀ k, PnMap.get sc k = none := by
      intro k
      rw [get_eq wfc, hstart, hend]
      split
      · exact hls _ (by omega)
      · rfl
    have ⟨v1, v2⟩ := vacate_spec wfc hall
    refine ⟨logicalClear sc, ?_, v1, v2⟩
    unfold clear
    have : ¬ s.start > s.endPn := by omega
    simp only [wf.notEmpty, Bool.false_eq_true, if_false, this, hsc]

/-! ### iteration -/

/-- the bindings of a partial function over the keys `lo, lo+1, …` (`n` of them), ascending -/
def sliceF (f : Nat → Option Nat) (lo : Nat) : Nat → List (Nat × Nat)
  | 0 => []
  | n + 1 =>
    match f lo with
    | some v => (lo, v) :: sliceF f (lo + 1) n
    | none => sliceF f (lo + 1) n

theorem slice_eq_sliceF (m : RefMap.State) : ∀ (n lo : Nat),
    RefMap.slice m lo n = sliceF (RefMap.lookup m) lo n := by
  intro n
  induction n with
  | zero => intro lo; rfl
  | succ n ih => intro lo; rw [RefMap.slice, sliceF, ih]; rfl

theorem sliceF_congr {f g : Nat → Option Nat} (h : ∀ k, f k = g k) (lo n : Nat) :
    sliceF f lo n = sliceF g lo n := by
  have : f = g := funext h
  rw [this]

theorem collect_eq_sliceF (f : Nat → Option Nat) : ∀ (rem : Nat) (l : List (Option Nat)) (pn : Nat),
    rem ≤ l.length → (∀ t, t < rem → l.getD t none = f (pn + t)) →
    collect l pn rem = sliceF f pn rem := by
  intro rem
  induction rem with
  | zero => intro l pn _ _; cases l <;> rfl
  | succ n ih =>
    intro l pn hl h
    cases l with
    | nil => simp at hl
    | cons x r =>
      have h0 := h 0 (by omega)
      simp only [List.getD_cons_zero, Nat.add_zero] at h0
      have ih' := ih r (pn + 1) (by simpa using hl) (fun t ht => by
        have := h (t + 1) (by omega)
        simp only [List.getD_cons_succ] at this
        rw [show pn + 1 + t = pn + (t + 1) by omega]; exact this)
      rw [sliceF, ← h0]
      cases x with
      | none => rw [collect]; exact ih'
      | some v => rw [collect, ih']

/-- `iter()` is the ascending list of the bindings between `start` and `end` -/
theorem iter_eq_sliceF {s : State} (h : Inv s) :
    iter s = if isEmpty s then [] else sliceF (PnMap.get s) s.start (s.endPn + 1 - s.start) := by
  cases h with
  | empty hidx _ _ =>
    have hemp : isEmpty s = true := by simp [isEmpty, hidx]
    simp [iter, hemp]
  | full wf hs he =>
    have hord := wf.ord
    have hspan := wf.span
    unfold iter
    simp only [wf.notEmpty, Bool.false_eq_true, if_false]
    rw [show s.endPn + 1 - s.start = s.endPn - s.start + 1 by omega]
    have hrl : (ring s).length = s.values.length := by
      have := wf.idx
      simp only [ring, List.length_append, List.length_drop, List.length_take]; omega
    apply collect_eq_sliceF (PnMap.get s) _ _ _ (by rw [hrl]; omega)
    intro t ht
    rw [← lslot_of_get wf (by omega) (by omega)]
    unfold lslot slot ring
    simp only [List.getD_eq_getElem?_getD]
    rw [ring_getElem? wf.idx (by omega)]
    congr 3; omega

theorem mem_sliceF (f : Nat → Option Nat) : ∀ (n lo k v : Nat),
    (k, v) ∈ sliceF f lo n ↔ lo ≤ k ∧ k < lo + n ∧ f k = some v := by
  intro n
  induction n with
  | zero =>
    intro lo k v
    simp only [sliceF, List.not_mem_nil, false_iff]
    omega
  | succ n ih =>
    intro lo k v
    rw [sliceF]
    cases hl : f lo with
    | none =>
      simp only []
      rw [ih]
      constructor
      · rintro ⟨a, b, c⟩; exact ⟨by omega, by omega, c⟩
      · rintro ⟨a, b, c⟩
        refine ⟨?_, by omega, c⟩
        by_cases hk : k = lo
        · subst hk; rw [hl] at c; cases c
        · omega
    | some x =>
      simp only [List.mem_cons, Prod.mk.injEq]
      rw [ih]
      constructor
      · rintro (⟨a, b⟩ | ⟨a, b, c⟩)
        · subst a; subst b; exact ⟨Nat.le_refl _, by omega, hl⟩
        · exact ⟨by omega, by omega, c⟩
      · rintro ⟨a, b, c⟩
        by_cases hk : k = lo
        · subst hk; rw [hl] at c; simp only [Option.some.injEq] at c; left; exact ⟨rfl, c.symm⟩
        · right; exact ⟨by omega, by omega, c⟩

theorem sliceF_sorted (f : Nat → Option Nat) : ∀ (n lo : Nat),
    (sliceF f lo n).Pairwise (fun a b => a.1 < b.1) := by
  intro n
  induction n with
  | zero => intro lo; simp [sliceF]
  | succ n ih =>
    intro lo
    rw [sliceF]
    cases hl : f lo with
    | none => exact ih (lo + 1)
    | some x =>
      simp only [List.pairwise_cons]
      refine ⟨?_, ih (lo + 1)⟩
      rintro ⟨k, v⟩ hm
      have := (mem_sliceF f n (lo + 1) k v).mp hm
      show lo < k
      omega

/-! ### one step and whole histories against the association list -/

theorem step_refines (upd : Nat → Nat → Nat) {s : State} {m : RefMap.State} (h : Inv s) (hsim : Sim s m)
    (op : Op) (hpre : pre s op = true) :
    ∃ s', step upd s op = some (s', (RefMap.step upd m op).2) ∧ Inv s' ∧
      Sim s' (RefMap.step upd m op).1 := by
  cases op with
  | insert pn v =>
    have hp : isEmpty s = true ∨ (pn > s.start ∧ pn > s.endPn) := by
      simp only [pre, Bool.or_eq_true, Bool.and_eq_true, decide_eq_true_eq] at hpre; exact hpre
    obtain ⟨s', e1, e2, e3⟩ := insert_spec h v hp
    refine ⟨s', by simp only [step, e1, RefMap.step], e2, ?_⟩
    intro k
    simp only [RefMap.step]
    rw [lookup_cons, e3, hsim]
    by_cases hk : pn = k
    · subst hk; simp
    · have : ¬ k = pn := fun e => hk e.symm
      simp [hk, this]
  | insertOrUpdate pn v =>
    have hp : isEmpty s = true ∨ pn ≥ s.start := by
      simp only [pre, Bool.or_eq_true, decide_eq_true_eq] at hpre; exact hpre
    obtain ⟨s', e1, e2, e3⟩ := insertOrUpdate_spec h v (fun p => upd p v) hp
    have hout : (RefMap.step upd m (.insertOrUpdate pn v)).2 = .unit := by
      simp only [RefMap.step]; cases RefMap.lookup m pn <;> rfl
    refine ⟨s', by simp only [step, e1, hout], e2, ?_⟩
    intro k
    rw [e3, ← hsim pn]
    simp only [RefMap.step]
    cases hl : RefMap.lookup m pn with
    | none =>
      simp only []
      rw [lookup_cons, hsim]
      by_cases hk : pn = k
      · subst hk; simp
      · have : ¬ k = pn := fun e => hk e.symm
        simp [hk, this]
    | some prev =>
      simp only []
      rw [lookup_cons, hsim]
      by_cases hk : pn = k
      · subst hk; simp
      · have : ¬ k = pn := fun e => hk e.symm
        simp [hk, this]
  | remove pn =>
    obtain ⟨s', e1, e2, e3⟩ := remove_spec h pn
    refine ⟨s', by simp only [step, e1, RefMap.step, hsim pn], e2, ?_⟩
    intro k
    simp only [RefMap.step]
    rw [lookup_erase, e3, hsim]
  | removeRange lo hi =>
    have hle : lo ≤ hi := by simpa [pre] using hpre
    obtain ⟨s', e1, e2, e3⟩ := removeRange_spec h hsim hle
    refine ⟨s', by simp only [step, e1, RefMap.step], e2, ?_⟩
    intro k
    simp only [RefMap.step]
    rw [lookup_eraseRange, e3, hsim]
  | clear =>
    obtain ⟨s', e1, e2, e3⟩ := clear_spec h
    refine ⟨s', by simp only [step, e1, RefMap.step], e2, ?_⟩
    intro k
    simp only [RefMap.step]
    rw [e3]; rfl

theorem run_refines (upd : Nat → Nat → Nat) (ops : List Op) : ∀ {s : State} {m : RefMap.State},
    Inv s → Sim s m → preAll upd s ops = true →
    ∃ s', run upd s ops = some (s', (RefMap.run upd m ops).2) ∧ Inv s' ∧ Sim s' (RefMap.run upd m ops).1 := by
  induction ops with
  | nil => intro s m h hsim _; exact ⟨s, rfl, h, hsim⟩
  | cons op ops ih =>
    intro s m h hsim hpre
    simp only [preAll, Bool.and_eq_true] at hpre
    obtain ⟨hp1, hp2⟩ := hpre
    obtain ⟨s1, e1, e2, e3⟩ := step_refines upd h hsim op hp1
    rw [e1] at hp2
    obtain ⟨s2, f1, f2, f3⟩ := ih e2 e3 hp2
    refine ⟨s2, ?_, f2, f3⟩
    simp only [run, e1, f1, RefMap.run]

/-- the caller-side (reference-level) form of the insert precondition implies the one the code asserts -/
theorem pre_insert_of_ref {s : State} {m : RefMap.State} (h : Inv s) (hsim : Sim s m) {pn : Nat} (v : Nat)
    (habove : ∀ k x, RefMap.lookup m k = some x → k < pn) : pre s (.insert pn v) = true := by
  cases h with
  | empty hidx _ _ => simp [pre, isEmpty, hidx]
  | full wf hs he =>
    have hord := wf.ord
    have h1 : (PnMap.get s s.start).isSome := get_isSome_of_lslot wf (Nat.le_refl _) hord (by simpa using hs)
    have h2 : (PnMap.get s s.endPn).isSome := get_isSome_of_lslot wf hord (Nat.le_refl _) he
    rw [← hsim] at h1 h2
    obtain ⟨x, hx⟩ := Option.isSome_iff_exists.mp h1
    obtain ⟨y, hy⟩ := Option.isSome_iff_exists.mp h2
    have := habove _ _ hx
    have := habove _ _ hy
    simp only [pre, Bool.or_eq_true, Bool.and_eq_true, decide_eq_true_eq]
    right; omega

/-- `start`/`end` are exactly the smallest / largest key when the map is not empty -/
theorem bounds_exact {s : State} (h : Inv s) (hne : isEmpty s = false) :
    (PnMap.get s s.start).isSome ∧ (PnMap.get s s.endPn).isSome ∧
    ∀ k, (PnMap.get s k).isSome → s.start ≤ k ∧ k ≤ s.endPn := by
  cases h with
  | empty hidx _ _ => simp [isEmpty, hidx] at hne
  | full wf hs he =>
    have hord := wf.ord
    refine ⟨get_isSome_of_lslot wf (Nat.le_refl _) hord (by simpa using hs),
      get_isSome_of_lslot wf hord (Nat.le_refl _) he, ?_⟩
    intro k hk
    rw [get_eq wf] at hk
    by_cases hin : s.start ≤ k ∧ k ≤ s.endPn
    · exact hin
    · simp [hin] at hk

theorem empty_iff {s : State} (h : Inv s) : isEmpty s = true ↔ ∀ k, PnMap.get s k = none := by
  constructor
  · intro he k; exact get_empty he k
  · intro hall
    cases hemp : isEmpty s with
    | true => rfl
    | false =>
      have := (bounds_exact h hemp).1
      rw [hall] at this; cases this

theorem lookup_sliceF (f : Nat → Option Nat) : ∀ (n lo k : Nat),
    RefMap.lookup (sliceF f lo n) k = if lo ≤ k ∧ k < lo + n then f k else none := by
  intro n
  induction n with
  | zero =>
    intro lo k
    have : ¬ (lo ≤ k ∧ k < lo + 0) := by omega
    rw [if_neg this]; rfl
  | succ n ih =>
    intro lo k
    rw [sliceF]
    cases hl : f lo with
    | none =>
      show RefMap.lookup (sliceF f (lo + 1) n) k = _
      rw [ih]
      by_cases hk : k = lo
      · have h1 : ¬ (lo + 1 ≤ k ∧ k < lo + 1 + n) := by omega
        have h2 : lo ≤ k ∧ k < lo + (n + 1) := by omega
        rw [if_neg h1, if_pos h2, hk, hl]
      · by_cases hc : lo + 1 ≤ k ∧ k < lo + 1 + n
        · have : lo ≤ k ∧ k < lo + (n + 1) := by omega
          rw [if_pos hc, if_pos this]
        · have : ¬ (lo ≤ k ∧ k < lo + (n + 1)) := by omega
          rw [if_neg hc, if_neg this]
    | some x =>
      show RefMap.lookup ((lo, x) :: sliceF f (lo + 1) n) k = _
      rw [lookup_cons, ih]
      by_cases hk : lo = k
      · have h2 : lo ≤ k ∧ k < lo + (n + 1) := by omega
        rw [if_pos hk, if_pos h2, ← hk, hl]
      · rw [if_neg hk]
        by_cases hc : lo + 1 ≤ k ∧ k < lo + 1 + n
        · have : lo ≤ k ∧ k < lo + (n + 1) := by omega
          rw [if_pos hc, if_pos this]
        · have : ¬ (lo ≤ k ∧ k < lo + (n + 1)) := by omega
          rw [if_neg hc, if_neg this]

/-- every state that satisfies the invariant represents some association list (that of its own bindings) -/
theorem exists_sim {s : State} (h : Inv s) : ∃ m : RefMap.State, Sim s m := by
  refine ⟨sliceF (PnMap.get s) 0 (s.endPn + 1), ?_⟩
  intro k
  rw [lookup_sliceF]
  by_cases hc : 0 ≤ k ∧ k < 0 + (s.endPn + 1)
  · rw [if_pos hc]
  · rw [if_neg hc]
    cases hemp : isEmpty s with
    | true => exact (get_empty hemp k).symm
    | false =>
      cases hg : PnMap.get s k with
      | none => rfl
      | some x =>
        have := (bounds_exact h hemp).2.2 k (by rw [hg]; rfl)
        omega

/-! ### iter_mut -/

theorem mapRing_spec (f : Nat → Nat → Nat) : ∀ (rem : Nat) (l : List (Option Nat)) (pn : Nat),
    (mapRing f l pn rem).length = l.length ∧
    ∀ t, (mapRing f l pn rem).getD t none =
      if t < rem then (l.getD t none).map (f (pn + t)) else l.getD t none := by
  intro rem
  induction rem with
  | zero =>
    intro l pn
    have e : mapRing f l pn 0 = l := by cases l <;> rfl
    rw [e]
    exact ⟨rfl, fun t => by simp⟩
  | succ n ih =>
    intro l pn
    cases l with
    | nil =>
      have e : mapRing f [] pn (n + 1) = [] := rfl
      rw [e]
      refine ⟨rfl, fun t => ?_⟩
      split <;> rfl
    | cons x r =>
      obtain ⟨i1, i2⟩ := ih r (pn + 1)
      cases x with
      | none =>
        have e : mapRing f (none :: r) pn (n + 1) = none :: mapRing f r (pn + 1) n := rfl
        rw [e]
        refine ⟨by simp [i1], fun t => ?_⟩
        cases t with
        | zero => simp
        | succ t =>
          simp only [List.getD_cons_succ]
          rw [i2 t, show pn + 1 + t = pn + (t + 1) by omega]
          by_cases ht : t < n
          · have : t + 1 < n + 1 := by omega
            rw [if_pos ht, if_pos this]
          · have : ¬ t + 1 < n + 1 := by omega
            rw [if_neg ht, if_neg this]
      | some v =>
        have e : mapRing f (some v :: r) pn (n + 1) = some (f pn v) :: mapRing f r (pn + 1) n := rfl
        rw [e]
        refine ⟨by simp [i1], fun t => ?_⟩
        cases t with
        | zero => simp
        | succ t =>
          simp only [List.getD_cons_succ]
          rw [i2 t, show pn + 1 + t = pn + (t + 1) by omega]
          by_cases ht : t < n
          · have : t + 1 < n + 1 := by omega
            rw [if_pos ht, if_pos this]
          · have : ¬ t + 1 < n + 1 := by omega
            rw [if_neg ht, if_neg this]

theorem unrotate_getD {r : List (Option Nat)} {i d : Nat} (hi : i < r.length) (hd : d < r.length) :
    (r.drop (r.length - i) ++ r.take (r.length - i)).getD ((i + d) % r.length) none = r.getD d none := by
  simp only [List.getD_eq_getElem?_getD]
  rw [List.getElem?_append, List.length_drop, ring_cases hi hd]
  by_cases h : i + d < r.length
  · rw [if_pos h]
    have h2 : ¬ i + d < r.length - (r.length - i) := by omega
    rw [if_neg h2, List.getElem?_take]
    have h3 : i + d - (r.length - (r.length - i)) < r.length - i := by omega
    rw [if_pos h3]
    congr 2; omega
  · rw [if_neg h]
    have h2 : i + d - r.length < r.length - (r.length - i) := by omega
    rw [if_pos h2, List.getElem?_drop]
    congr 2; omega

theorem iterMut_spec {s : State} (h : Inv s) (f : Nat → Nat → Nat) :
    Inv (iterMut s f) ∧ ∀ k, PnMap.get (iterMut s f) k = (PnMap.get s k).map (f k) := by
  cases h with
  | empty hidx hlen hnone =>
    have hemp : isEmpty s = true := by simp [isEmpty, hidx]
    have e : iterMut s f = s := by unfold iterMut; simp only [hemp, if_true]
    rw [e]
    exact ⟨Inv.empty hidx hlen hnone, fun k => by rw [get_empty hemp]; rfl⟩
  | full wf hs he =>
    have hord := wf.ord
    have hspan := wf.span
    have hidx := wf.idx
    have hrl : (ring s).length = s.values.length := by
      simp only [ring, List.length_append, List.length_drop, List.length_take]; omega
    obtain ⟨m1, m2⟩ := mapRing_spec f (s.endPn - s.start + 1) (ring s) s.start
    generalize hr : mapRing f (ring s) s.start (s.endPn - s.start + 1) = r at m1 m2
    have hrlen : r.length = s.values.length := by rw [m1, hrl]
    have e : iterMut s f = { s with values := r.drop (s.values.length - s.index) ++ r.take (s.values.length - s.index) } := by
      unfold iterMut; simp only [wf.notEmpty, Bool.false_eq_true, if_false, hr]
    rw [e]
    generalize hs' : ({ s with values := r.drop (s.values.length - s.index) ++ r.take (s.values.length - s.index) } : State) = s'
    have hvals : s'.values = r.drop (s.values.length - s.index) ++ r.take (s.values.length - s.index) := by rw [← hs']
    have hidx' : s'.index = s.index := by rw [← hs']
    have hstart : s'.start = s.start := by rw [← hs']
    have hend : s'.endPn = s.endPn := by rw [← hs']
    have hlen : s'.values.length = s.values.length := by
      rw [hvals]; simp only [List.length_append, List.length_drop, List.length_take]; omega
    have hring : ∀ d, d < s.values.length → (ring s).getD d none = lslot s d := by
      intro d hd
      unfold lslot slot ring
      simp only [List.getD_eq_getElem?_getD]
      rw [ring_getElem? hidx hd]
    have hls : ∀ d, d < s.values.length →
        lslot s' d = if d < s.endPn - s.start + 1 then (lslot s d).map (f (s.start + d)) else lslot s d := by
      intro d hd
      unfold lslot slot
      rw [hlen, hidx', hvals]
      have := unrotate_getD (r := r) (i := s.index) (d := d) (by omega) (by omega)
      rw [hrlen] at this
      rw [this, m2 d, hring d hd]
      rfl
    have wf' : WF s' := by
      refine ⟨by rw [hlen, hidx']; exact hidx, by rw [hstart, hend]; exact hord,
        by rw [hstart, hend, hlen]; exact hspan, ?_⟩
      intro d a b
      rw [hstart, hend] at a
      rw [hlen] at b
      rw [hls d b]
      have : ¬ d < s.endPn - s.start + 1 := by omega
      rw [if_neg this]
      exact wf.outside d a b
    refine ⟨Inv.full wf' ?_ ?_, ?_⟩
    · rw [hls 0 (by omega), if_pos (by omega)]
      cases hx : lslot s 0 with
      | none => rw [hx] at hs; cases hs
      | some v => rfl
    · rw [hstart, hend, hls _ (by omega), if_pos (by omega)]
      cases hx : lslot s (s.endPn - s.start) with
      | none => rw [hx] at he; cases he
      | some v => rfl
    · intro k
      rw [get_eq wf', get_eq wf, hstart, hend]
      by_cases hk : s.start ≤ k ∧ k ≤ s.endPn
      · rw [if_pos hk, if_pos hk, hls _ (by omega), if_pos (by omega)]
        rw [show s.start + (k - s.start) = k by omega]
      · rw [if_neg hk, if_neg hk]; rfl

end Quic.Proofs.Lemmas.PnMap
