import QuicModel.Dc.SendQueue
/-
  Helper lemmas for QuicProofs.Props.C20SendQueue: the batch handed to the socket is the slices of a
  prefix of the queue; `consume_segments n` removes exactly the first `n` pending bytes; one
  `poll_flush_segments_stream` splits the pending bytes into "accepted by the socket" ++ "still pending".
-/
namespace Quic.Proofs.DcSendQueueLemmas
open Quic.Dc.SendQueue

theorem pendingOf_nil : pendingOf [] = [] := rfl

theorem pendingOf_cons (s : Segment) (r : List Segment) : pendingOf (s :: r) = s.asSlice ++ pendingOf r := by
  simp [pendingOf]

theorem pendingOf_append (a b : List Segment) : pendingOf (a ++ b) = pendingOf a ++ pendingOf b := by
  simp [pendingOf]

theorem pendingOf_mkSegments (segs : List (Nat × List Nat)) : pendingOf (mkSegments segs) = (segs.map (·.2)).flatten := by
  induction segs with
  | nil => rfl
  | cons p r ih =>
    have : mkSegments (p :: r) = { ecn := p.1, buffer := p.2, offset := 0 } :: mkSegments r := rfl
    rw [this, pendingOf_cons, ih]
    simp [Segment.asSlice]

/-! ### Batch::new -/

/-- whatever the GSO rules cut off, the iovecs are the remaining slices of a PREFIX of the queue, in order -/
theorem batchGo_take (stream : Bool) (cap : Nat) (segs : List Segment) :
    ∀ (first : Option Nat) (ecn total count : Nat),
      ∃ k, batchGo stream cap first ecn total count segs = (segs.take k).map Segment.asSlice := by
  induction segs with
  | nil => intro first ecn total count; exact ⟨0, rfl⟩
  | cons seg rest ih =>
    intro first ecn total count
    unfold batchGo
    simp only []
    split
    · exact ⟨0, rfl⟩
    · split
      · split
        · exact ⟨0, rfl⟩
        · split
          · exact ⟨0, rfl⟩
          · split
            · exact ⟨1, by simp⟩
            · split
              · exact ⟨1, by simp⟩
              · rename_i f _ _ _ _
                obtain ⟨k, hk⟩ := ih (some f) ecn (total + seg.asSlice.length) (count + 1)
                exact ⟨k + 1, by simp [hk]⟩
      · split
        · exact ⟨1, by simp⟩
        · obtain ⟨k, hk⟩ := ih (some seg.asSlice.length) seg.ecn (total + seg.asSlice.length) (count + 1)
          exact ⟨k + 1, by simp [hk]⟩

theorem buildBatch_take (stream : Bool) (cap : Nat) (segs : List Segment) :
    ∃ k, buildBatch stream cap segs = (segs.take k).map Segment.asSlice :=
  batchGo_take stream cap segs none 2 0 0

/-- the bytes offered in one call are a prefix of the pending bytes -/
theorem buildBatch_prefix (stream : Bool) (cap : Nat) (segs : List Segment) :
    ∃ rest, pendingOf segs = (buildBatch stream cap segs).flatten ++ rest := by
  obtain ⟨k, hk⟩ := buildBatch_take stream cap segs
  refine ⟨pendingOf (segs.drop k), ?_⟩
  rw [hk]
  have : pendingOf segs = pendingOf (segs.take k ++ segs.drop k) := by rw [List.take_append_drop]
  rw [this, pendingOf_append]
  rfl

/-- on a stream socket a non-empty queue always offers at least its first segment -/
theorem buildBatch_stream_head (cap : Nat) (seg : Segment) (rest : List Segment) :
    ∃ more, buildBatch true cap (seg :: rest) = seg.asSlice :: more := by
  unfold buildBatch batchGo
  simp only []
  split
  · rename_i h; simp at h
  · split
    · exact ⟨[], rfl⟩
    · exact ⟨_, rfl⟩

/-! ### consume_segments -/

theorem consumeLoop_pending (segs : List Segment) :
    ∀ rem, rem ≤ (pendingOf segs).length →
      pendingOf (consumeLoop rem segs).1 = (pendingOf segs).drop rem ∧ (consumeLoop rem segs).2 = 0 := by
  induction segs with
  | nil =>
    intro rem h
    simp [pendingOf] at h
    subst h
    exact ⟨rfl, rfl⟩
  | cons seg rest ih =>
    intro rem h
    rw [pendingOf_cons] at h ⊢
    simp only [List.length_append] at h
    unfold consumeLoop
    simp only [popFits, decide_eq_true_eq]
    split
    · rename_i hle
      split
      · rename_i hpos
        have h2 : rem - seg.asSlice.length ≤ (pendingOf rest).length := by omega
        obtain ⟨a, b⟩ := ih _ h2
        refine ⟨?_, b⟩
        rw [a, List.drop_append]
        have : List.drop rem seg.asSlice = [] := List.drop_eq_nil_of_le hle
        rw [this]; rfl
      · rename_i hpos
        have : rem = seg.asSlice.length := by omega
        subst this
        simp
    · rename_i hlt
      have hlt' : rem < seg.asSlice.length := by omega
      refine ⟨?_, rfl⟩
      rw [pendingOf_cons]
      have h1 : ({ seg with offset := advanceOffset seg.offset rem } : Segment).asSlice = seg.asSlice.drop rem := by
        simp [Segment.asSlice, advanceOffset, List.drop_drop]
      rw [h1, List.drop_append]
      have : rem - seg.asSlice.length = 0 := by omega
      rw [this]; rfl

theorem consumeSegments_pending (segs : List Segment) (n : Nat) (h : n ≤ (pendingOf segs).length) :
    pendingOf (consumeSegments segs n) = (pendingOf segs).drop n := by
  unfold consumeSegments
  split
  · rename_i h0; subst h0; rfl
  · exact (consumeLoop_pending segs n h).1

/-! ### well-formedness: no empty slice is left behind, the u16 offset never wraps -/

def SegWF (s : Segment) : Prop := s.offset < s.buffer.length ∧ s.buffer.length ≤ u16Max

def WF (segs : List Segment) : Prop := ∀ s ∈ segs, SegWF s

theorem consumeLoop_wf (segs : List Segment) : ∀ rem, WF segs → WF (consumeLoop rem segs).1 := by
  induction segs with
  | nil => intro rem h; exact h
  | cons seg rest ih =>
    intro rem h
    have hrest : WF rest := fun s hs => h s (List.mem_cons_of_mem _ hs)
    unfold consumeLoop
    simp only [popFits, decide_eq_true_eq]
    split
    · split
      · exact ih _ hrest
      · exact hrest
    · rename_i hlt
      intro s hs
      rcases List.mem_cons.mp hs with rfl | hs
      · have hw := h seg (List.mem_cons_self ..)
        simp only [Segment.asSlice, List.length_drop] at hlt
        exact ⟨by simp only [advanceOffset]; omega, hw.2⟩
      · exact hrest s hs

theorem consumeSegments_wf (segs : List Segment) (n : Nat) (h : WF segs) : WF (consumeSegments segs n) := by
  unfold consumeSegments
  split
  · exact h
  · exact consumeLoop_wf segs n h

/-! ### one poll_flush_segments_stream -/

theorem sentOf_cons (c : Call) (cs : List Call) : sentOf (c :: cs) = c.sent ++ sentOf cs := by
  simp [sentOf]

theorem take_prefix_of_append {α} (a rest : List α) (w : Nat) (hw : w ≤ a.length) :
    (a ++ rest).take w = a.take w ∧ (a ++ rest).drop w = a.drop w ++ rest := by
  constructor
  · rw [List.take_append_of_le_length hw]
  · rw [List.drop_append_of_le_length hw]

/-- splitting lemma: what the socket accepted during one flush, followed by what is still queued, is what was
    queued before — unless the socket reported an error (then the queue is cleared and the accepted bytes are
    still a prefix of what was queued) -/
theorem flushStream_split (cap : Nat) (script : List Answer) :
    ∀ q : Queue,
      let r := flushStream cap q script
      (∃ rest, q.pending = sentOf r.2.2 ++ rest ∧ (r.2.1 ≠ .err → rest = r.1.pending)) ∧
      (r.2.1 ≠ .err → r.1.acceptedLen = q.acceptedLen) ∧
      (r.2.1 = .ready → r.1.segments = []) ∧
      (r.2.1 = .err → r.1 = { segments := [], acceptedLen := 0 }) ∧
      (r.2.1 = .err ↔ ∃ c ∈ r.2.2, c.answer.isError = true) ∧
      (r.2.1 = .pending → ∃ c ∈ r.2.2, c.answer = .pending) := by
  induction script with
  | nil =>
    intro q
    simp only [flushStream]
    split
    · rename_i he
      refine ⟨⟨q.pending, by simp [sentOf], fun _ => rfl⟩, fun _ => rfl, fun _ => by simpa using he, by simp, by simp, by simp⟩
    · refine ⟨⟨q.pending, by simp [sentOf, Call.sent], fun _ => rfl⟩, fun _ => rfl, by simp, by simp, by simp [Answer.isError], by simp⟩
  | cons a script ih =>
    intro q
    simp only [flushStream]
    split
    · rename_i he
      refine ⟨⟨q.pending, by simp [sentOf], fun _ => rfl⟩, fun _ => rfl, fun _ => by simpa using he, by simp, by simp, by simp⟩
    · cases a with
      | pending =>
        refine ⟨⟨q.pending, by simp [sentOf, Call.sent], fun _ => rfl⟩, fun _ => rfl, by simp, by simp, by simp [Answer.isError], by simp⟩
      | error e =>
        refine ⟨⟨q.pending, by simp [sentOf, Call.sent], by simp⟩, by simp, by simp, by simp, by simp [Answer.isError], by simp⟩
      | accept n =>
        simp only []
        obtain ⟨rest0, hrest0⟩ := buildBatch_prefix true cap q.segments
        have hw : min n (offeredLen (buildBatch true cap q.segments)) ≤ (buildBatch true cap q.segments).flatten.length :=
          Nat.min_le_right _ _
        have hwp : min n (offeredLen (buildBatch true cap q.segments)) ≤ (pendingOf q.segments).length := by
          rw [hrest0, List.length_append]; omega
        have hq' := consumeSegments_pending q.segments _ hwp
        have ih' := ih { q with segments := consumeSegments q.segments (min n (offeredLen (buildBatch true cap q.segments))) }
        simp only [] at ih'
        obtain ⟨⟨rest, hsplit, hrest⟩, hacc, hready, herr, herrc, hpend⟩ := ih'
        refine ⟨⟨rest, ?_, hrest⟩, hacc, hready, herr, ?_, ?_⟩
        · rw [sentOf_cons, List.append_assoc, ← hsplit]
          simp only [Queue.pending, Call.sent] at hq' ⊢
          rw [hq', hrest0]
          have := take_prefix_of_append (buildBatch true cap q.segments).flatten rest0 _ hw
          rw [← this.1, List.take_append_drop]
        · rw [herrc]
          constructor
          · rintro ⟨c, hc, he⟩; exact ⟨c, List.mem_cons_of_mem _ hc, he⟩
          · rintro ⟨c, hc, he⟩
            rcases List.mem_cons.mp hc with rfl | hc
            · simp [Answer.isError] at he
            · exact ⟨c, hc, he⟩
        · intro hp
          obtain ⟨c, hc, he⟩ := hpend hp
          exact ⟨c, List.mem_cons_of_mem _ hc, he⟩

/-! ### the credit tail of poll_flush -/

theorem finish_segments (q : Queue) (limit : Nat) (o : Outcome) : (finish q limit o).1.segments = q.segments := by
  cases o <;> rfl

theorem finish_credit (q : Queue) (limit : Nat) (o : Outcome) (out : Nat) :
    creditAfter out (finish q limit o).2 + (finish q limit o).1.acceptedLen = out + q.acceptedLen := by
  cases o <;> simp [finish, creditAfter] <;> omega

theorem finish_ready (q : Queue) (limit : Nat) (o : Outcome) (k : Nat) (h : (finish q limit o).2 = .ready k) :
    o = .ready ∧ k = min limit q.acceptedLen ∧ (finish q limit o).1.acceptedLen = q.acceptedLen - k := by
  cases o <;> simp [finish] at h ⊢
  exact ⟨h.symm, by rw [h]⟩

theorem finish_pending (q : Queue) (limit : Nat) (o : Outcome) : (finish q limit o).2 = .pending ↔ o = .pending := by
  cases o <;> simp [finish]

theorem finish_err (q : Queue) (limit : Nat) (o : Outcome) :
    ((finish q limit o).2 = .err ↔ o = .err) ∧ (o = .err → (finish q limit o).1 = q) := by
  cases o <;> simp [finish]

theorem flushStream_wf (cap : Nat) (script : List Answer) :
    ∀ q : Queue, WF q.segments → WF (flushStream cap q script).1.segments := by
  induction script with
  | nil => intro q h; simp only [flushStream]; split <;> exact h
  | cons a script ih =>
    intro q h
    simp only [flushStream]
    split
    · exact h
    · cases a with
      | pending => exact h
      | error e => intro s hs; cases hs
      | accept n => exact ih _ (consumeSegments_wf _ _ h)

/-- a script of error-free answers never produces an error outcome -/
theorem flushStream_no_err (cap : Nat) (q : Queue) (script : List Answer)
    (h : script.all (fun a => !a.isError) = true) : (flushStream cap q script).2.1 ≠ .err := by
  intro he
  obtain ⟨_, _, _, _, herrc, _⟩ := flushStream_split cap script q
  obtain ⟨c, hc, hce⟩ := herrc.mp he
  -- every recorded answer is either from the script or the synthetic `pending`
  have key : ∀ (script : List Answer) (q : Queue), script.all (fun a => !a.isError) = true →
      ∀ c ∈ (flushStream cap q script).2.2, c.answer.isError = false := by
    intro script
    induction script with
    | nil =>
      intro q _ c hc
      simp only [flushStream] at hc
      split at hc
      · cases hc
      · simp at hc; subst hc; rfl
    | cons a script ih =>
      intro q hall c hc
      simp only [List.all_cons, Bool.and_eq_true, Bool.not_eq_true'] at hall
      simp only [flushStream] at hc
      split at hc
      · cases hc
      · cases a with
        | pending => simp at hc; subst hc; rfl
        | error e => simp [Answer.isError] at hall
        | accept n =>
          simp only [] at hc
          rcases List.mem_cons.mp hc with rfl | hc
          · rfl
          · exact ih _ hall.2 c hc
  have := key script q h c hc
  rw [this] at hce
  cases hce

/-! ### histories -/

/-- the invariant of error-free histories -/
structure SendqInv (t : Trace) : Prop where
  exact : t.pushed = t.sent ++ t.q.pending
  credit : t.creditIn = t.creditOut + t.q.acceptedLen

theorem sendq_inv_init : SendqInv {} := ⟨rfl, rfl⟩

theorem sendq_inv_step (cap : Nat) (t : Trace) (op : Op) (h : SendqInv t) (he : op.errorFree = true) :
    SendqInv (step cap t op) := by
  cases op with
  | push segs consumed ok =>
    constructor
    · simp only [step, pushBuffer, Queue.pending, pendingOf_append, pendingOf_mkSegments]
      rw [h.exact, List.append_assoc]; rfl
    · simp only [step, pushBuffer]
      have := h.credit
      split <;> omega
  | flush limit script =>
    have hne := flushStream_no_err cap t.q script he
    obtain ⟨⟨rest, hsplit, hrest⟩, hacc, _, _, _, _⟩ := flushStream_split cap script t.q
    constructor
    · simp only [step, pollFlushStream, Queue.pending, finish_segments]
      simp only [Queue.pending] at hsplit hrest
      rw [h.exact, List.append_assoc]
      congr 1
      rw [Queue.pending, hsplit, hrest hne]
    · simp only [step, pollFlushStream]
      have := finish_credit (flushStream cap t.q script).1 limit (flushStream cap t.q script).2.1 t.creditOut
      rw [hacc hne] at this
      have hc := h.credit
      omega

theorem sendq_inv_run (cap : Nat) (ops : List Op) :
    ∀ t, SendqInv t → (∀ op ∈ ops, op.errorFree = true) → SendqInv (run cap t ops) := by
  induction ops with
  | nil => intro t h _; exact h
  | cons op ops ih =>
    intro t h he
    exact ih _ (sendq_inv_step cap t op h (he op (List.mem_cons_self ..))) (fun o ho => he o (List.mem_cons_of_mem _ ho))

end Quic.Proofs.DcSendQueueLemmas
