import QuicModel.Recovery.Loss
import QuicModel.Recovery.Rtt
import QuicModel.Recovery.Pto
import QuicModel.Rfc.Recovery
/-
  Helper lemmas for C09 (loss detection / RTT estimator / PTO).
-/
namespace Quic.Proofs.Lemmas.Recovery
open Quic.Recovery Quic.Recovery.Rtt

/-! ### `loss::detect` in closed form -/

theorem detect_spec (thr sent k pn la now : Nat) :
    Loss.detect thr sent k pn la now =
      if la ≤ pn then none
      else if sent + thr / 1000 < now + 1000 ∨ la - pn ≥ k then some Loss.Outcome.lost
      else some (Loss.Outcome.notLostYet (sent + thr / 1000)) := by
  unfold Loss.detect Time.hasElapsed Time.tsAdd Time.K_GRANULARITY_US
  by_cases h1 : la ≤ pn
  · have : decide (la > pn) = false := by simp; omega
    simp [this, h1]
  · have : decide (la > pn) = true := by simp; omega
    simp only [this, h1, Bool.not_true, Bool.false_eq_true, if_false]
    by_cases h2 : sent + thr / 1000 < now + 1000 ∨ la - pn ≥ k
    · simp only [h2, if_true]
      rcases h2 with h2 | h2 <;> simp [h2]
    · simp only [h2, if_false]
      have h3 : ¬ (sent + thr / 1000 < now + 1000) := fun h => h2 (Or.inl h)
      have h4 : ¬ (la - pn ≥ k) := fun h => h2 (Or.inr h)
      simp [h3, h4]

theorem lostCond_iff (d ts pn la now : Nat) :
    Quic.Rfc.Recovery.lostCond d ts pn la now = true ↔ pn ≤ la ∧ (ts + d ≤ now ∨ la ≥ pn + 3) := by
  simp [Quic.Rfc.Recovery.lostCond, Quic.Rfc.Recovery.kPacketThreshold]

/-- example estimator states used by non-vacuity examples -/
def exRtt (latest smoothed rttvar : Nat) : RttEstimator :=
  { latestRtt := latest, minRtt := min latest smoothed, smoothedRtt := smoothed, rttvar := rttvar, maxAckDelay := 0, firstRttSample := none }

/-! ### RTT histories -/

/-- operations on one `RttEstimator` after it was created -/
inductive RttOp where
  | update (ackDelay rttSample timestamp : Nat) (handshakeConfirmed : Bool) (space : Space)
  | persistentCongestion
  | maxAckDelay (ms : Nat)
deriving Repr

def RttOp.apply (r : RttEstimator) : RttOp → RttEstimator
  | .update ad s ts c sp => updateRtt r ad s ts c sp
  | .persistentCongestion => onPersistentCongestion r
  | .maxAckDelay ms => onMaxAckDelay r ms

/-- the samples (as the estimator can track them: at least `MIN_RTT`) since the estimator was
    created or last reset by persistent congestion -/
def RttOp.window (w : List Nat) : RttOp → List Nat
  | .update _ s _ _ _ => w ++ [max s MIN_RTT]
  | .persistentCongestion => []
  | .maxAckDelay _ => w

def run (r : RttEstimator) (ops : List RttOp) : RttEstimator := ops.foldl RttOp.apply r
def window (ops : List RttOp) : List Nat := ops.foldl RttOp.window []

/-- what the history invariant says about a non-empty window -/
structure Good (r : RttEstimator) (w : List Nat) : Prop where
  latest_mem : r.latestRtt ∈ w
  min_mem : r.minRtt ∈ w
  min_le : ∀ s ∈ w, r.minRtt ≤ s
  smoothed_le : ∀ hi, (∀ s ∈ w, s ≤ hi) → r.smoothedRtt ≤ hi
  smoothed_ge : ∀ lo hi, 8 ∣ lo → hi < 18446744073709551616 → (∀ s ∈ w, lo ≤ s ∧ s ≤ hi) → lo ≤ r.smoothedRtt

def Inv (r : RttEstimator) (w : List Nat) : Prop :=
  (r.firstRttSample = none ↔ w = []) ∧ (w ≠ [] → Good r w)

theorem wa8_le (a b hi : Nat) (ha : a ≤ hi) (hb : b ≤ hi) : weightedAverage a b 8 ≤ hi := by
  simp only [weightedAverage, u64]
  omega

theorem wa8_ge (a b lo : Nat) (h8 : 8 ∣ lo) (ha : lo ≤ a) (hb : lo ≤ b)
    (ha' : a < 18446744073709551616) (hb' : b < 18446744073709551616) : lo ≤ weightedAverage a b 8 := by
  simp only [weightedAverage, u64]
  omega

theorem good_applyAdjusted {r : RttEstimator} {w : List Nat} (adj : Nat)
    (hl : r.latestRtt ∈ w) (hm : r.minRtt ∈ w) (hmin : ∀ s ∈ w, r.minRtt ≤ s)
    (hle : ∀ hi, (∀ s ∈ w, s ≤ hi) → r.smoothedRtt ≤ hi)
    (hge : ∀ lo hi, 8 ∣ lo → hi < 18446744073709551616 → (∀ s ∈ w, lo ≤ s ∧ s ≤ hi) → lo ≤ r.smoothedRtt)
    (hadj1 : r.minRtt ≤ adj) (hadj2 : adj ≤ r.latestRtt) : Good (applyAdjusted r adj) w := by
  refine ⟨hl, hm, hmin, ?_, ?_⟩
  · intro hi h
    simp only [applyAdjusted]
    exact wa8_le _ _ _ (hle hi h) (Nat.le_trans hadj2 (h _ hl))
  · intro lo hi h8 hhi h
    simp only [applyAdjusted]
    have h1 := hge lo hi h8 hhi h
    have h2 := hle hi (fun s hs => (h s hs).2)
    have h3 := (h _ hm).1
    have h4 := (h _ hl).2
    exact wa8_ge _ _ _ h8 h1 (by omega) (by omega) (by omega)

theorem finishUpdate_first (r : RttEstimator) (d : Nat) (c : Bool) :
    (finishUpdate r d c).firstRttSample = r.firstRttSample := by
  simp only [finishUpdate, applyAdjusted]
  repeat' split
  all_goals rfl

theorem inv_step (r : RttEstimator) (w : List Nat) (op : RttOp) (h : Inv r w) :
    Inv (op.apply r) (op.window w) := by
  obtain ⟨hiff, hgood⟩ := h
  cases op with
  | persistentCongestion =>
    simp [RttOp.apply, RttOp.window, onPersistentCongestion, Inv]
  | maxAckDelay ms =>
    simp only [RttOp.apply, RttOp.window, onMaxAckDelay, Inv]
    refine ⟨hiff, fun hw => ?_⟩
    have g := hgood hw
    exact ⟨g.latest_mem, g.min_mem, g.min_le, g.smoothed_le, g.smoothed_ge⟩
  | update ad s ts c sp =>
    simp only [RttOp.apply, RttOp.window]
    by_cases hf : r.firstRttSample = none
    · -- first sample: everything is (re)initialised from it
      have hw : w = [] := hiff.mp hf
      subst hw
      simp only [updateRtt, hf, Option.isNone_none, if_true, Inv, List.nil_append]
      refine ⟨by simp, fun _ => ?_⟩
      refine ⟨by simp, by simp, by simp, ?_, ?_⟩
      · intro hi h; exact h _ (by simp)
      · intro lo hi _ _ h; exact (h _ (by simp)).1
    · have hw : w ≠ [] := fun e => hf (hiff.mpr e)
      have g := hgood hw
      have hsome : r.firstRttSample.isNone = false := by
        cases hfs : r.firstRttSample with
        | none => exact absurd hfs hf
        | some _ => rfl
      refine ⟨?_, fun _ => ?_⟩
      · constructor
        · intro h
          exfalso
          revert h
          simp only [updateRtt, hsome, Bool.false_eq_true, if_false, finishUpdate_first]
          exact hf
        · intro h; simp at h
      · -- the three outcomes of a non-first sample
        have hlat : max s MIN_RTT ∈ w ++ [max s MIN_RTT] := by simp
        have hminmem : min r.minRtt (max s MIN_RTT) ∈ w ++ [max s MIN_RTT] := by
          rcases Nat.le_total r.minRtt (max s MIN_RTT) with h | h
          · rw [Nat.min_eq_left h]; exact List.mem_append_left _ g.min_mem
          · rw [Nat.min_eq_right h]; simp
        have hminle : ∀ x ∈ w ++ [max s MIN_RTT], min r.minRtt (max s MIN_RTT) ≤ x := by
          intro x hx
          rcases List.mem_append.mp hx with h | h
          · exact Nat.le_trans (Nat.min_le_left _ _) (g.min_le x h)
          · simp at h; subst h; exact Nat.min_le_right _ _
        have hle : ∀ hi, (∀ x ∈ w ++ [max s MIN_RTT], x ≤ hi) → r.smoothedRtt ≤ hi :=
          fun hi h => g.smoothed_le hi (fun x hx => h x (List.mem_append_left _ hx))
        have hge : ∀ lo hi, 8 ∣ lo → hi < 18446744073709551616 →
            (∀ x ∈ w ++ [max s MIN_RTT], lo ≤ x ∧ x ≤ hi) → lo ≤ r.smoothedRtt :=
          fun lo hi h8 hhi h => g.smoothed_ge lo hi h8 hhi (fun x hx => h x (List.mem_append_left _ hx))
        simp only [updateRtt, hsome]
        simp only [Bool.false_eq_true, if_false]
        generalize (if c = true then min (if sp.isInitial = true then ZERO_DURATION else ad) r.maxAckDelay
          else if sp.isInitial = true then ZERO_DURATION else ad) = d
        simp only [finishUpdate]
        split
        · apply good_applyAdjusted <;> first | assumption | (simp only []; omega)
        · split
          · exact ⟨hlat, hminmem, hminle, hle, hge⟩
          · apply good_applyAdjusted <;> first | assumption | (simp only []; omega) | exact Nat.min_le_right _ _

theorem inv_run (r : RttEstimator) (w : List Nat) (ops : List RttOp) (h : Inv r w) :
    Inv (ops.foldl RttOp.apply r) (ops.foldl RttOp.window w) := by
  induction ops generalizing r w with
  | nil => exact h
  | cons op ops ih => exact ih _ _ (inv_step r w op h)

theorem inv_init (r : RttEstimator) (h : r.firstRttSample = none) : Inv r [] := by
  simp [Inv, h]

theorem new_first_none (i : Nat) (r : RttEstimator) (h : Rtt.new i = some r) : r.firstRttSample = none := by
  simp only [Rtt.new, newWithMaxAckDelay] at h
  split at h
  · cases h
  · cases h; rfl

/-! ### PTO period -/

theorem gran_us : u64 (K_GRANULARITY / 1000) = 1000 := by decide

theorem basePto_ge (r : RttEstimator) (sp : Space) :
    ∃ base, 1000 ≤ base ∧ ∀ b, calculateBasePtoMicros r b sp = base * b := by
  simp only [calculateBasePtoMicros, gran_us]
  split
  · exact ⟨_, by omega, fun _ => rfl⟩
  · exact ⟨_, by omega, fun _ => rfl⟩

theorem basePto_exact (r : RttEstimator) (sp : Space)
    (hs : r.smoothedRtt % 1000 = 0) (hv : r.rttvar % 1000 = 0) (hm : r.maxAckDelay % 1000 = 0)
    (hd1 : r.smoothedRtt < 18446744073709551616) (hd2 : r.rttvar < 4611686018427387904)
    (hd3 : r.maxAckDelay < 18446744073709551616) :
    calculateBasePtoMicros r 1 sp * 1000 =
      r.smoothedRtt + max (4 * r.rttvar) 1000000 + (if sp.isApplicationData = true then r.maxAckDelay else 0) := by
  have e1 : u64 (r.smoothedRtt / 1000) = r.smoothedRtt / 1000 := by unfold u64; omega
  have e2 : u64 (r.rttvar / 1000) = r.rttvar / 1000 := by unfold u64; omega
  have e3 : u64 (r.maxAckDelay / 1000) = r.maxAckDelay / 1000 := by unfold u64; omega
  have e4 : u64 (4 * (r.rttvar / 1000) * 1000 / 1000) = 4 * (r.rttvar / 1000) := by unfold u64; omega
  simp only [calculateBasePtoMicros, rttvar4x, e1, e2, e3, e4, gran_us, Nat.mul_one]
  split
  · rcases Nat.le_total (4 * (r.rttvar / 1000)) 1000 with h | h
    · rw [Nat.max_eq_right h, Nat.max_eq_right (by omega)]; omega
    · rw [Nat.max_eq_left h, Nat.max_eq_left (by omega)]; omega
  · rcases Nat.le_total (4 * (r.rttvar / 1000)) 1000 with h | h
    · rw [Nat.max_eq_right h, Nat.max_eq_right (by omega)]; omega
    · rw [Nat.max_eq_left h, Nat.max_eq_left (by omega)]; omega

end Quic.Proofs.Lemmas.Recovery
