import QuicModel.Conn.PathIds
import QuicProofs.Lemmas.PeerIds
/- helper lemmas for Props/C13PathIds.lean: the path model acts on the registry through registry steps; invariant -/
namespace Quic.Proofs.PathIds
open Quic.Conn Quic.Conn.PathIds
open Quic.Proofs.PeerIds (PInv HasActive pinv_step pinv_init)

theorem hasActive_isActive {r : PeerIds.State} (h : HasActive r) : PeerIds.isActive r r.activeCid = true := by
  obtain ⟨j, hj, hid, hact⟩ := h
  simp only [PeerIds.isActive, List.any_eq_true]
  exact ⟨j, hj, by simp [hid, hact]⟩

/-- every step of the path model acts on the registry like zero or one step of the registry model -/
theorem reg_step (s : State) (op : Op) :
    (step true s op).reg = s.reg ∨ ∃ rop, (step true s op).reg = PeerIds.step s.reg rop := by
  cases op with
  | newPath b =>
    cases b with
    | false => left; simp [step, newPath]
    | true =>
      right
      refine ⟨.consumeForNewPath, ?_⟩
      simp only [step, newPath, PeerIds.step, PeerIds.consumeForNewPath]
      cases h : PeerIds.consumeNew s.reg.ids with
      | none => simp
      | some x => obtain ⟨c, ids⟩ := x; simp
  | switchTo p =>
    simp only [step, switchTo]
    by_cases hp : p = s.active
    · left; simp [hp]
    · simp only [hp, if_false]
      cases hf : (s.others.find? (fun e => e.1 == p)).map (·.2) with
      | none => left; rfl
      | some cid =>
        right
        refine ⟨.updateActivePath cid, ?_⟩
        simp only [PeerIds.step, PeerIds.updateActivePath]
        by_cases ha : PeerIds.isActive s.reg cid = true
        · simp [ha]
        · simp only [ha]
          cases hc : PeerIds.consumeNew s.reg.ids with
          | none => simp
          | some x => obtain ⟨c, ids⟩ := x; simp
  | onNewConnectionId id seq rpt tok =>
    right
    refine ⟨.onNewConnectionId id seq rpt tok, ?_⟩
    simp only [step, PeerIds.step]
    cases h : PeerIds.onNewConnectionId s.reg id seq rpt tok <;> simp
  | send p =>
    left
    simp only [step]
    cases h : pathCid s p <;> simp

structure PathInv (s : State) : Prop where
  reg : PInv s.reg
  sentOk : ∀ x ∈ s.sent, x.onActive = true → x.unretired = true

theorem sent_step (s : State) (op : Op) :
    (step true s op).sent = s.sent ∨
      ∃ p c, pathCid s p = some c ∧ (step true s op).sent = s.sent ++ [{ path := p, cid := c, onActive := decide (p = s.active), unretired := PeerIds.isActive s.reg c }] := by
  cases op with
  | newPath b =>
    left
    simp only [step, newPath]
    cases b with
    | false => simp
    | true => cases h : PeerIds.consumeNew s.reg.ids <;> simp
  | switchTo p =>
    left
    simp only [step, switchTo]
    split
    · rfl
    · split
      · rfl
      · split
        · rfl
        · split <;> rfl
  | onNewConnectionId id seq rpt tok =>
    left
    simp only [step]
    cases h : PeerIds.onNewConnectionId s.reg id seq rpt tok <;> simp
  | send p =>
    simp only [step]
    cases h : pathCid s p with
    | none => left; rfl
    | some c => right; exact ⟨p, c, h, rfl⟩

theorem pathInv_step {s : State} (h : PathInv s) (op : Op) : PathInv (step true s op) := by
  constructor
  · rcases reg_step s op with hr | ⟨rop, hr⟩
    · rw [hr]; exact h.reg
    · rw [hr]; exact pinv_step h.reg rop
  · rcases sent_step s op with hs | ⟨p, c, hpc, hs⟩
    · rw [hs]; exact h.sentOk
    · rw [hs]
      intro x hx hon
      rcases List.mem_append.mp hx with hx | hx
      · exact h.sentOk x hx hon
      · simp only [List.mem_singleton] at hx
        subst hx
        simp only [decide_eq_true_eq] at hon
        simp only [pathCid, hon, if_true, Option.some.injEq] at hpc
        subst hpc
        exact hasActive_isActive h.reg.act

theorem pathInv_run {s : State} (h : PathInv s) (ops : List Op) : PathInv (run true s ops) := by
  induction ops generalizing s with
  | nil => exact h
  | cons op ops ih => exact ih (pathInv_step h op)

theorem pathInv_init (peerId : PeerIds.Cid) (rot : Bool) : PathInv (init peerId rot) :=
  ⟨pinv_init peerId rot, by simp [init]⟩

end Quic.Proofs.PathIds
