import QuicModel.Data.RefBufSpec
/-
  Helper lemmas about the run-length representation of `Data.RefBuf` (`get`/`ins`/`contig`/
  `front`/`advance`) and about `trim`/`handleFin`/`write`/`skip`/`pop`.
-/
namespace Quic.Proofs.RefBufLemmas
open Quic.Data.RefBuf

/-- byte of a write `(r, d)` at index `i` -/
def cover (r : Nat) (d : List Nat) (i : Nat) : Option Nat :=
  if r ≤ i then d[i - r]? else none

theorem cover_nil (r i : Nat) : cover r [] i = none := by
  unfold cover; split <;> simp

theorem get_nil (i : Nat) : get [] i = none := rfl

theorem get_cons (g : Nat) (b : List Nat) (rest : Segs) (i : Nat) :
    get ((g, b) :: rest) i =
      if i < g then none else if i - g < b.length then b[i - g]? else get rest (i - g - b.length) := rfl

/-- `ins` stores exactly the bytes that were missing: already stored bytes win -/
theorem get_ins (segs : Segs) (r : Nat) (d : List Nat) (i : Nat) :
    get (ins segs r d) i = (get segs i).or (cover r d i) := by
  induction segs generalizing r d i with
  | nil =>
    unfold ins
    split
    · rename_i h
      have : d = [] := by simpa using h
      subst this
      simp [get_nil, cover_nil]
    · simp only [get_cons, get_nil, cover]
      grind
  | cons hd rest ih =>
    obtain ⟨g, b⟩ := hd
    unfold ins
    split
    · rename_i h
      have : d = [] := by simpa using h
      subst this
      simp [cover_nil]
    · rename_i hne
      have hd : d ≠ [] := by simpa using hne
      have hlen : 0 < d.length := List.length_pos_iff.mpr hd
      split
      · simp only [get_cons, cover]
        grind
      · split
        · simp only [get_cons, cover, ih, List.length_take]
          grind
        · split
          · simp only [get_cons, cover, ih]
            grind
          · simp only [get_cons, cover, ih]
            grind

/-- `advance` shifts the index space -/
theorem get_advance (segs : Segs) (n i : Nat) : get (advance segs n) i = get segs (i + n) := by
  induction segs generalizing n i with
  | nil => simp [advance, get_nil]
  | cons hd rest ih =>
    obtain ⟨g, b⟩ := hd
    unfold advance
    split
    · simp only [get_cons]; grind
    · split
      · simp only [get_cons]; grind
      · simp only [get_cons, ih]; grind

/-- everything below `contig` is stored -/
theorem get_lt_contig (segs : Segs) (i : Nat) (h : i < contig segs) : (get segs i).isSome := by
  induction segs generalizing i with
  | nil => simp [contig] at h
  | cons hd rest ih =>
    obtain ⟨g, b⟩ := hd
    unfold contig at h
    split at h
    · rename_i hg
      subst hg
      simp only [get_cons]
      by_cases hb : i < b.length
      · simp [hb]
      · have := ih (i - b.length) (by omega)
        simp [hb, this]
    · omega

/-- the byte at `contig` is missing -/
theorem get_contig (segs : Segs) : get segs (contig segs) = none := by
  induction segs with
  | nil => rfl
  | cons hd rest ih =>
    obtain ⟨g, b⟩ := hd
    unfold contig
    split
    · rename_i hg
      subst hg
      simp only [get_cons]
      simp [ih]
    · simp only [get_cons]
      have : 0 < g := by omega
      simp [this]

theorem length_front (segs : Segs) (n : Nat) (h : n ≤ contig segs) : (front segs n).length = n := by
  induction segs generalizing n with
  | nil => simp [contig] at h; simp [front, h]
  | cons hd rest ih =>
    obtain ⟨g, b⟩ := hd
    unfold contig at h
    unfold front
    split at h
    · rename_i hg
      simp only [hg, if_true]
      split
      · simp; omega
      · have := ih (n - b.length) (by omega)
        simp [this]; omega
    · rename_i hg
      simp [hg]; omega

theorem getElem?_front (segs : Segs) (n i : Nat) (h : n ≤ contig segs) (hi : i < n) :
    (front segs n)[i]? = get segs i := by
  induction segs generalizing n i with
  | nil => simp [contig] at h; omega
  | cons hd rest ih =>
    obtain ⟨g, b⟩ := hd
    unfold contig at h
    unfold front
    split at h
    · rename_i hg
      subst hg
      simp only [if_true, get_cons]
      split
      · grind
      · by_cases hib : i < b.length
        · simp [hib, List.getElem?_append_left hib]
        · have := ih (n - b.length) (i - b.length) (by omega) (by omega)
          simp [hib, List.getElem?_append_right (Nat.le_of_not_lt hib), this]
    · omega

/-! ### state level -/

theorem trim_end (c off : Nat) (d : List Nat) :
    (trim c off d).1 + (trim c off d).2.length = off + d.length := by
  unfold trim
  split
  · simp only [List.length_drop]; omega
  · rfl

/-- what `trim` + `ins` store, in absolute offsets -/
theorem cover_trim (c off : Nat) (d : List Nat) (i : Nat) (hi : c ≤ i) :
    cover ((trim c off d).1 - c) (trim c off d).2 (i - c) = cover off d i := by
  unfold trim
  split
  · simp only [cover, List.getElem?_drop]
    grind
  · simp only [cover]
    grind

/-- the final-size rule of `handle_reader_fin`, as a predicate on the end offset of the write -/
def rejectsFin (s : RefBuf) (e : Nat) (fin : Bool) : Prop :=
  match s.finalSize with
  | some f => if fin then e ≠ f else f < e
  | none => fin = true ∧ e < s.maxRecv

instance (s : RefBuf) (e : Nat) (fin : Bool) : Decidable (rejectsFin s e fin) := by
  unfold rejectsFin; split <;> infer_instance

/-- closed form of `write` -/
theorem write_eq (s : RefBuf) (off : Nat) (d : List Nat) (fin : Bool) :
    write s off d fin =
      if off + d.length > maxOffset then .error .outOfRange
      else if rejectsFin s (off + d.length) fin then .error .invalidFin
      else .ok { s with
        finalSize := if fin then some (off + d.length) else s.finalSize
        maxRecv := max s.maxRecv (off + d.length)
        segs := ins s.segs ((trim s.consumed off d).1 - s.consumed) (trim s.consumed off d).2 } := by
  obtain ⟨c, sg, fs, mr⟩ := s
  unfold write
  split
  · rfl
  · rename_i hmax
    have he := trim_end c off d
    simp only at he ⊢
    generalize trim c off d = p at *
    obtain ⟨cur, rest⟩ := p
    simp only at he ⊢
    unfold handleFin rejectsFin
    simp only [he]
    simp only [hmax, if_false]
    cases fin <;> cases fs <;> simp <;> grind

theorem write_ok_fields {s s' : RefBuf} {off : Nat} {d : List Nat} {fin : Bool}
    (h : write s off d fin = .ok s') :
    off + d.length ≤ maxOffset ∧ ¬ rejectsFin s (off + d.length) fin ∧
    s'.consumed = s.consumed ∧
    s'.finalSize = (if fin then some (off + d.length) else s.finalSize) ∧
    s'.maxRecv = max s.maxRecv (off + d.length) ∧
    s'.segs = ins s.segs ((trim s.consumed off d).1 - s.consumed) (trim s.consumed off d).2 := by
  rw [write_eq] at h
  split at h
  · cases h
  · split at h
    · cases h
    · cases h
      refine ⟨by omega, by assumption, rfl, rfl, rfl, rfl⟩

theorem byteAt_write {s s' : RefBuf} {off : Nat} {d : List Nat} {fin : Bool}
    (h : write s off d fin = .ok s') (i : Nat) :
    byteAt s' i = if i < s.consumed then none else (byteAt s i).or (cover off d i) := by
  obtain ⟨_, _, hc, _, _, hs⟩ := write_ok_fields h
  unfold byteAt
  rw [hc, hs]
  split
  · rfl
  · rename_i hi
    rw [get_ins, cover_trim _ _ _ _ (by omega)]

theorem byteAt_take (s : RefBuf) (n i : Nat) :
    byteAt (take s n).1 i = if i < s.consumed + n then none else byteAt s i := by
  unfold byteAt take
  simp only [get_advance]
  grind

theorem len_spec_lt (s : RefBuf) (i : Nat) (h1 : s.consumed ≤ i) (h2 : i < s.consumed + len s) :
    (byteAt s i).isSome := by
  unfold byteAt
  have : ¬ i < s.consumed := by omega
  simp only [this, if_false]
  exact get_lt_contig _ _ (by unfold len at h2; omega)

theorem len_spec_end (s : RefBuf) : byteAt s (s.consumed + len s) = none := by
  unfold byteAt len
  have : ¬ s.consumed + contig s.segs < s.consumed := by omega
  simp only [this, if_false]
  rw [show s.consumed + contig s.segs - s.consumed = contig s.segs by omega]
  exact get_contig _

theorem take_out_length (s : RefBuf) (n : Nat) (h : n ≤ len s) : (take s n).2.length = n :=
  length_front _ _ h

theorem take_out_get (s : RefBuf) (n j : Nat) (h : n ≤ len s) (hj : j < n) :
    (take s n).2[j]? = byteAt s (s.consumed + j) := by
  unfold take byteAt
  simp only
  rw [getElem?_front _ _ _ h hj]
  have : ¬ s.consumed + j < s.consumed := by omega
  simp [this]

/-- number of bytes a `pop` hands out -/
def popCount (s : RefBuf) (w : Option Nat) : Nat :=
  match w with
  | some w => min w (len s)
  | none => len s

theorem popCount_le (s : RefBuf) (w : Option Nat) : popCount s w ≤ len s := by
  unfold popCount; split <;> omega

theorem pop_eq (s : RefBuf) (w : Option Nat) : pop s w = take s (popCount s w) := by
  unfold pop popCount; cases w <;> rfl

/-- the final-size rule of `skip` -/
def skipPastFinal (s : RefBuf) (n : Nat) : Prop :=
  match s.finalSize with
  | some f => f < s.consumed + n
  | none => False

instance (s : RefBuf) (n : Nat) : Decidable (skipPastFinal s n) := by
  unfold skipPastFinal; split <;> infer_instance

/-- closed form of `skip` -/
theorem skip_eq (s : RefBuf) (n : Nat) :
    skip s n =
      if n = 0 then .ok s
      else if s.consumed + n > maxOffset then .error .outOfRange
      else if skipPastFinal s n then .error .invalidFin
      else .ok { (take s n).1 with maxRecv := max s.maxRecv (s.consumed + n) } := by
  obtain ⟨c, sg, fs, mr⟩ := s
  unfold skip skipPastFinal take
  cases fs <;> simp <;> grind

theorem skip_ok_fields {s s' : RefBuf} {n : Nat} (h : skip s n = .ok s') (hn : n ≠ 0) :
    s.consumed + n ≤ maxOffset ∧ ¬ skipPastFinal s n ∧
    s' = { (take s n).1 with maxRecv := max s.maxRecv (s.consumed + n) } := by
  rw [skip_eq] at h
  simp only [hn, if_false] at h
  split at h
  · cases h
  · split at h
    · cases h
    · cases h
      exact ⟨by omega, by assumption, rfl⟩

theorem skip_zero (s : RefBuf) : skip s 0 = .ok s := by
  rw [skip_eq]; simp

/-! ### the state invariant -/

theorem inv_init : Inv init := by
  refine ⟨by simp [init], ?_, by simp [init], by simp [init, maxOffset]⟩
  intro i h
  simp [byteAt, init, get_nil] at h

theorem byteAt_lt_consumed (s : RefBuf) (i : Nat) (h : i < s.consumed) : byteAt s i = none := by
  simp [byteAt, h]

theorem cover_isSome {r : Nat} {d : List Nat} {i : Nat} (h : (cover r d i).isSome) :
    r ≤ i ∧ i < r + d.length := by
  unfold cover at h
  split at h
  · rename_i hr
    have := (List.getElem?_eq_some_iff.mp (Option.eq_some_of_isSome h)).1
    omega
  · simp at h

theorem inv_write {s s' : RefBuf} {off : Nat} {d : List Nat} {fin : Bool}
    (hi : Inv s) (h : write s off d fin = .ok s') : Inv s' := by
  obtain ⟨hmax, hrej, hc, hf, hm, _⟩ := write_ok_fields h
  refine ⟨by rw [hc, hm]; have := hi.consumed_le; omega, ?_, ?_, by rw [hm]; have := hi.max_le; omega⟩
  · intro i hsome
    rw [byteAt_write h] at hsome
    split at hsome
    · simp at hsome
    · rename_i hge
      rw [hc, hm]
      refine ⟨by omega, ?_⟩
      cases hb : byteAt s i with
      | some x =>
        have := (hi.stored_lt i (by simp [hb])).2
        omega
      | none =>
        rw [hb, Option.none_or] at hsome
        have := cover_isSome hsome
        omega
  · intro f hf'
    rw [hf] at hf'
    rw [hm]
    unfold rejectsFin at hrej
    have hfin := hi.final_ge
    cases fin with
    | true =>
      simp only [if_true, Option.some.injEq] at hf'
      subst hf'
      cases hfs : s.finalSize with
      | some f0 =>
        simp only [hfs, if_true] at hrej
        have := hfin f0 hfs
        omega
      | none =>
        simp only [hfs, true_and] at hrej
        omega
    | false =>
      simp only [Bool.false_eq_true, if_false] at hf'
      simp only [hf', Bool.false_eq_true, if_false] at hrej
      have := hfin f hf'
      omega

theorem inv_take {s : RefBuf} (hi : Inv s) (n : Nat) (h : n ≤ len s) : Inv (take s n).1 := by
  have hcons : (take s n).1.consumed = s.consumed + n := rfl
  have hmr : (take s n).1.maxRecv = s.maxRecv := rfl
  have hfs : (take s n).1.finalSize = s.finalSize := rfl
  refine ⟨?_, ?_, by rw [hfs, hmr]; exact hi.final_ge, by rw [hmr]; exact hi.max_le⟩
  · rw [hcons, hmr]
    by_cases hn : n = 0
    · have := hi.consumed_le; omega
    · have := (hi.stored_lt (s.consumed + n - 1) (len_spec_lt s _ (by omega) (by omega))).2
      omega
  · intro i hsome
    rw [byteAt_take] at hsome
    split at hsome
    · simp at hsome
    · rw [hcons, hmr]
      have := hi.stored_lt i hsome
      omega

theorem inv_pop {s : RefBuf} (hi : Inv s) (w : Option Nat) : Inv (pop s w).1 := by
  rw [pop_eq]; exact inv_take hi _ (popCount_le s w)

theorem inv_skip {s s' : RefBuf} {n : Nat} (hi : Inv s) (h : skip s n = .ok s') : Inv s' := by
  by_cases hn : n = 0
  · subst hn; rw [skip_zero] at h; cases h; exact hi
  · obtain ⟨hmax, hrej, rfl⟩ := skip_ok_fields h hn
    refine ⟨by simp [take]; omega, ?_, ?_, by simp only; have := hi.max_le; omega⟩
    · intro i hsome
      have hb : byteAt { (take s n).1 with maxRecv := max s.maxRecv (s.consumed + n) } i = byteAt (take s n).1 i := rfl
      rw [hb, byteAt_take] at hsome
      split at hsome
      · simp at hsome
      · have := hi.stored_lt i hsome
        simp only [take]
        omega
    · intro f hf
      have hf' : s.finalSize = some f := hf
      unfold skipPastFinal at hrej
      simp only [hf'] at hrej
      have := hi.final_ge f hf'
      simp only
      omega

theorem inv_step {s : RefBuf} (hi : Inv s) (op : Op) : Inv (step s op).1 := by
  cases op with
  | write off d fin =>
    simp only [step]
    cases h : write s off d fin with
    | ok s' => exact inv_write hi h
    | error e => exact hi
  | pop w => exact inv_pop hi w
  | skip n =>
    simp only [step]
    cases h : skip s n with
    | ok s' => exact inv_skip hi h
    | error e => exact hi
  | reset => exact inv_init

theorem inv_run {s : RefBuf} (hi : Inv s) (ops : List Op) : Inv (run s ops) := by
  induction ops generalizing s with
  | nil => exact hi
  | cons op ops ih => exact ih (inv_step hi op)

/-! ### the history invariant -/

theorem frame_byteAt_eq (f : Frame) (i : Nat) : f.byteAt i = cover f.off f.data i := rfl

theorem firstWriter_append (fs : List Frame) (f : Frame) (i : Nat) :
    firstWriter (fs ++ [f]) i = (firstWriter fs i).or (f.byteAt i) := by
  unfold firstWriter
  rw [List.findSome?_append]
  simp [List.findSome?_cons]
  cases f.byteAt i <;> simp

theorem isSome_of_map_eq_map_some {α β : Type} {l : List α} {r : List β} {f : α → Option β}
    (h : l.map f = r.map some) : ∀ x ∈ l, (f x).isSome := by
  intro x hx
  have : f x ∈ r.map some := by rw [← h]; exact List.mem_map_of_mem hx
  obtain ⟨y, _, hy⟩ := List.mem_map.mp this
  simp [← hy]

theorem tinv_init : TInv Trace.init := by
  refine ⟨inv_init, ?_, ?_, ?_, ?_, ?_⟩
  · intro i _; simp [Trace.init, byteAt, get_nil, firstWriter]
  · simp [Trace.init, Trace.readOffsets]
  · intro r hr; simp [Trace.init] at hr
  · simp [Trace.init, Trace.highest]
  · simp [Trace.init, Trace.established]

theorem foldl_max_append_singleton (l : List Nat) (x : Nat) :
    (l ++ [x]).foldl max 0 = max (l.foldl max 0) x := by
  simp [List.foldl_append]

theorem tinv_write {t : Trace} {b : RefBuf} {off : Nat} {d : List Nat} {fin : Bool}
    (ht : TInv t) (h : write t.buf off d fin = .ok b) :
    TInv { t with buf := b, accepted := t.accepted ++ [⟨off, d, fin⟩] } := by
  obtain ⟨hmax, hrej, hc, hf, hm, _⟩ := write_ok_fields h
  refine ⟨inv_write ht.inv h, ?_, ?_, ?_, ?_, ?_⟩
  · intro i hi
    simp only at hi ⊢
    rw [hc] at hi
    rw [byteAt_write h, firstWriter_append, ← ht.stored i hi]
    have : ¬ i < t.buf.consumed := by omega
    simp only [this, if_false]
    rfl
  · have hro : Trace.readOffsets { t with buf := b, accepted := t.accepted ++ [⟨off, d, fin⟩] } = t.readOffsets := by
      simp only [Trace.readOffsets, hc]
    simp only [hro]
    rw [ht.reads]
    apply List.map_congr_left
    intro x hx
    have := isSome_of_map_eq_map_some ht.reads.symm x hx
    rw [firstWriter_append]
    obtain ⟨y, hy⟩ := Option.isSome_iff_exists.mp this
    simp [hy]
  · intro r hr
    simp only at hr ⊢
    rw [hc]; exact ht.skips_below r hr
  · simp only [Trace.highest, List.map_append, List.map_cons, List.map_nil, foldl_max_append_singleton]
    rw [hm, ht.maxRecv_eq]
    simp only [Trace.highest, Frame.end_]
    omega
  · simp only [Trace.established, List.find?_append, List.find?_cons, List.find?_nil]
    rw [hf, ht.final_eq]
    simp only [Trace.established]
    cases hfin : fin with
    | false => simp
    | true =>
      simp only [if_true]
      cases hfound : t.accepted.find? (·.fin) with
      | none => simp [Frame.end_]
      | some f0 =>
        simp only [Option.some_or, Option.map_some]
        have h1 : t.buf.finalSize = some f0.end_ := by rw [ht.final_eq, Trace.established, hfound]; rfl
        unfold rejectsFin at hrej
        simp only [h1, hfin, if_true] at hrej
        simp only [Option.some.injEq]
        omega

theorem inRanges_append (rs : List (Nat × Nat)) (r : Nat × Nat) (i : Nat) :
    inRanges (rs ++ [r]) i = (inRanges rs i || (decide (r.1 ≤ i) && decide (i < r.2))) := by
  simp [inRanges, List.any_append]

theorem not_inRanges_of_below {rs : List (Nat × Nat)} {c i : Nat} (h : ∀ r ∈ rs, r.2 ≤ c) (hi : c ≤ i) :
    inRanges rs i = false := by
  unfold inRanges
  rw [List.any_eq_false]
  intro r hr
  have := h r hr
  simp
  intro _
  omega

/-- the offsets read so far, after `n` more offsets starting at `c` have been handed out -/
theorem range_filter_extend (rs : List (Nat × Nat)) (c n : Nat) (h : ∀ r ∈ rs, r.2 ≤ c) :
    (List.range (c + n)).filter (fun i => !inRanges rs i)
      = (List.range c).filter (fun i => !inRanges rs i) ++ (List.range n).map (c + ·) := by
  rw [List.range_add, List.filter_append]
  congr 1
  rw [List.filter_eq_self]
  intro x hx
  obtain ⟨j, _, rfl⟩ := List.mem_map.mp hx
  simp [not_inRanges_of_below h (Nat.le_add_right c j)]

theorem take_out_map (s : RefBuf) (n : Nat) (h : n ≤ len s) :
    (take s n).2.map some = (List.range n).map (fun j => byteAt s (s.consumed + j)) := by
  apply List.ext_getElem?
  intro j
  by_cases hj : j < n
  · rw [List.getElem?_map, take_out_get s n j h hj]
    have hs := len_spec_lt s (s.consumed + j) (by omega) (by omega)
    obtain ⟨x, hx⟩ := Option.isSome_iff_exists.mp hs
    simp [hx, hj]
  · have h1 : (take s n).2.length = n := take_out_length s n h
    rw [List.getElem?_eq_none (by simp; omega), List.getElem?_eq_none (by simp; omega)]

theorem tinv_take {t : Trace} (ht : TInv t) (n : Nat) (h : n ≤ len t.buf) :
    TInv { t with buf := (take t.buf n).1, reads := t.reads ++ (take t.buf n).2 } := by
  have hcons : (take t.buf n).1.consumed = t.buf.consumed + n := rfl
  refine ⟨inv_take ht.inv n h, ?_, ?_, ?_, ?_, ?_⟩
  · intro i hi
    simp only at hi ⊢
    rw [hcons] at hi
    rw [byteAt_take]
    have : ¬ i < t.buf.consumed + n := by omega
    simp only [this, if_false]
    exact ht.stored i (by omega)
  · simp only [Trace.readOffsets, hcons]
    rw [range_filter_extend _ _ _ ht.skips_below, List.map_append, List.map_append, ht.reads, take_out_map _ _ h]
    simp only [Trace.readOffsets, List.map_map]
    congr 1
    apply List.map_congr_left
    intro j _
    exact ht.stored _ (by omega)
  · intro r hr
    simp only at hr ⊢
    rw [hcons]
    have := ht.skips_below r hr
    omega
  · exact ht.maxRecv_eq
  · exact ht.final_eq

theorem tinv_pop {t : Trace} (ht : TInv t) (w : Option Nat) :
    TInv { t with buf := (pop t.buf w).1, reads := t.reads ++ (pop t.buf w).2 } := by
  rw [pop_eq]; exact tinv_take ht _ (popCount_le _ _)

theorem foldl_max_ge (l : List Nat) (a : Nat) : a ≤ l.foldl max a := by
  induction l generalizing a with
  | nil => exact Nat.le_refl _
  | cons x xs ih => exact Nat.le_trans (Nat.le_max_left a x) (ih _)

theorem tinv_skip {t : Trace} {b : RefBuf} {n : Nat} (ht : TInv t) (h : skip t.buf n = .ok b) :
    TInv { t with buf := b, skips := t.skips ++ [(t.buf.consumed, t.buf.consumed + n)] } := by
  have hmr0 := ht.maxRecv_eq
  have hc0 := ht.inv.consumed_le
  by_cases hn : n = 0
  · subst hn
    rw [skip_zero] at h
    cases h
    refine ⟨ht.inv, ht.stored, ?_, ?_, ?_, ht.final_eq⟩
    · rw [ht.reads]
      congr 1
      simp only [Trace.readOffsets]
      apply List.filter_congr
      intro x _
      rw [inRanges_append]
      simp
      intro _; omega
    · intro r hr
      simp only [List.mem_append, List.mem_singleton] at hr
      rcases hr with hr | rfl
      · exact ht.skips_below r hr
      · simp
    · simp only [Trace.highest, List.map_append, List.map_cons, List.map_nil, foldl_max_append_singleton]
      rw [hmr0]
      simp only [Trace.highest] at hmr0 ⊢
      omega
  · obtain ⟨hmax, hrej, rfl⟩ := skip_ok_fields h hn
    have hcons : (take t.buf n).1.consumed = t.buf.consumed + n := rfl
    refine ⟨inv_skip ht.inv h, ?_, ?_, ?_, ?_, ?_⟩
    · intro i hi
      simp only at hi ⊢
      rw [hcons] at hi
      have hb : byteAt { (take t.buf n).1 with maxRecv := max t.buf.maxRecv (t.buf.consumed + n) } i
          = byteAt (take t.buf n).1 i := rfl
      rw [hb, byteAt_take]
      have : ¬ i < t.buf.consumed + n := by omega
      simp only [this, if_false]
      exact ht.stored i (by omega)
    · simp only [Trace.readOffsets, hcons]
      rw [List.range_add, List.filter_append]
      have h2 : ((List.range n).map (t.buf.consumed + ·)).filter
          (fun i => !inRanges (t.skips ++ [(t.buf.consumed, t.buf.consumed + n)]) i) = [] := by
        rw [List.filter_eq_nil_iff]
        intro x hx
        obtain ⟨j, hj, rfl⟩ := List.mem_map.mp hx
        rw [inRanges_append]
        have := List.mem_range.mp hj
        simp
        intro _; omega
      rw [h2, List.append_nil, ht.reads]
      congr 1
      simp only [Trace.readOffsets]
      apply List.filter_congr
      intro x hx
      have := List.mem_range.mp hx
      rw [inRanges_append]
      simp
      intro _; omega
    · intro r hr
      simp only [List.mem_append, List.mem_singleton] at hr
      simp only [hcons]
      rcases hr with hr | rfl
      · have := ht.skips_below r hr
        omega
      · simp
    · simp only [Trace.highest, List.map_append, List.map_cons, List.map_nil, foldl_max_append_singleton]
      rw [hmr0]
      simp only [Trace.highest]
      omega
    · exact ht.final_eq

theorem tinv_step {t : Trace} (ht : TInv t) (op : Op) : TInv (t.step op) := by
  cases op with
  | write off d fin =>
    simp only [Trace.step]
    cases h : write t.buf off d fin with
    | ok b => exact tinv_write ht h
    | error e => exact ht
  | pop w => exact tinv_pop ht w
  | skip n =>
    simp only [Trace.step]
    cases h : skip t.buf n with
    | ok b => exact tinv_skip ht h
    | error e => exact ht
  | reset => exact tinv_init

theorem tinv_foldl {t : Trace} (ht : TInv t) (ops : List Op) : TInv (ops.foldl Trace.step t) := by
  induction ops generalizing t with
  | nil => exact ht
  | cons op ops ih => exact ih (tinv_step ht op)

theorem tinv_trace (ops : List Op) : TInv (trace ops) := tinv_foldl tinv_init ops

/-- the ghost run and the plain run agree on the buffer -/
theorem trace_step_buf (t : Trace) (op : Op) : (t.step op).buf = (step t.buf op).1 := by
  cases op with
  | write off d fin =>
    simp only [Trace.step, step]
    cases write t.buf off d fin <;> rfl
  | pop w => rfl
  | skip n =>
    simp only [Trace.step, step]
    cases skip t.buf n <;> rfl
  | reset => rfl

theorem foldl_trace_buf (t : Trace) (ops : List Op) : (ops.foldl Trace.step t).buf = run t.buf ops := by
  induction ops generalizing t with
  | nil => rfl
  | cons op ops ih =>
    simp only [List.foldl_cons, run]
    rw [ih, trace_step_buf]

theorem trace_buf (ops : List Op) : (trace ops).buf = run init ops := foldl_trace_buf Trace.init ops

end Quic.Proofs.RefBufLemmas
