import QuicModel.Data.SlidingWindow
/-
  Helper lemmas for C16 (sliding window): bit-level facts about the `u128` bitfield, the
  simulation relation between the transcribed window and the plain reference set, and its
  preservation by every operation.
-/
namespace Quic.Proofs.Lemmas.SlidingWindow
open Quic.Data.SlidingWindow
open Quic.Data

/-! ### bits -/

theorem and_bit_ne_zero (w k : Nat) : ((w &&& (1 <<< k)) != 0) = w.testBit k := by
  rw [Nat.one_shiftLeft]
  cases h : w.testBit k
  · have h0 : w &&& 2 ^ k = 0 := by
      apply Nat.eq_of_testBit_eq
      intro i
      rw [Nat.testBit_and, Nat.testBit_two_pow, Nat.zero_testBit]
      by_cases hi : k = i
      · subst hi; simp [h]
      · simp [hi]
    simp [h0]
  · have h1 : (w &&& 2 ^ k).testBit k = true := by
      rw [Nat.testBit_and, Nat.testBit_two_pow_self, h]; rfl
    have : w &&& 2 ^ k ≠ 0 := by
      intro h0
      rw [h0, Nat.zero_testBit] at h1
      exact Bool.noConfusion h1
    simp [this]

theorem testBit_bitOf (delta j : Nat) : (bitOf delta).testBit j = decide (delta - 1 = j) := by
  unfold bitOf
  rw [Nat.one_shiftLeft, Nat.testBit_two_pow]

theorem bitOf_lt (delta : Nat) (h : delta ≤ 128) : bitOf delta < 2 ^ 128 := by
  unfold bitOf
  rw [Nat.one_shiftLeft]
  exact Nat.pow_lt_pow_right (by decide) (by omega)

/-! ### the reference maximum -/

theorem maxOf_eq_none {l : List Nat} : RefWindow.maxOf l = none ↔ l = [] := by
  cases l with
  | nil => simp [RefWindow.maxOf]
  | cons x xs =>
    simp only [RefWindow.maxOf]
    cases RefWindow.maxOf xs <;> simp

theorem maxOf_some {l : List Nat} {m : Nat} (h : RefWindow.maxOf l = some m) :
    m ∈ l ∧ ∀ x ∈ l, x ≤ m := by
  induction l generalizing m with
  | nil => simp [RefWindow.maxOf] at h
  | cons x xs ih =>
    simp only [RefWindow.maxOf] at h
    cases hx : RefWindow.maxOf xs with
    | none =>
      rw [hx] at h
      have : xs = [] := maxOf_eq_none.mp hx
      subst this
      simp only [Option.some.injEq] at h
      subst h
      simp
    | some m' =>
      rw [hx] at h
      simp only [Option.some.injEq] at h
      have ⟨hm, hle⟩ := ih hx
      subst h
      constructor
      · by_cases hc : x ≤ m'
        · rw [Nat.max_eq_right hc]; exact List.mem_cons_of_mem _ hm
        · rw [Nat.max_eq_left (by omega)]; exact List.mem_cons_self
      · intro y hy
        cases hy with
        | head => exact Nat.le_max_left _ _
        | tail _ hy' => exact Nat.le_trans (hle y hy') (Nat.le_max_right _ _)

theorem maxOf_cons_le {l : List Nat} {m x : Nat} (h : RefWindow.maxOf l = some m) (hx : x ≤ m) :
    RefWindow.maxOf (x :: l) = some m := by
  simp only [RefWindow.maxOf, h, Nat.max_eq_right hx]

theorem maxOf_cons_gt {l : List Nat} {m x : Nat} (h : RefWindow.maxOf l = some m) (hx : m < x) :
    RefWindow.maxOf (x :: l) = some x := by
  simp only [RefWindow.maxOf, h, Nat.max_eq_left (Nat.le_of_lt hx)]

/-! ### the simulation relation -/

/-- `s` represents the accepted set `S`: same right edge, and bit `d-1` is set exactly when
    `right_edge - d` was accepted (for the 128 positions the bitfield has) -/
structure Rel (s : State) (S : List Nat) : Prop where
  edge : s.rightEdge = RefWindow.maxOf S
  bound : s.window < 2 ^ 128
  bits : ∀ d, 1 ≤ d → d ≤ 128 →
    (s.window.testBit (d - 1) = true ↔ ∃ re, s.rightEdge = some re ∧ d ≤ re ∧ re - d ∈ S)

theorem rel_init : Rel init [] := by
  refine ⟨rfl, by decide, ?_⟩
  intro d _ _
  simp [init]

/-! ### `window_position` by cases -/

theorem pos_empty {s : State} (h : s.rightEdge = none) (pn : Nat) : windowPosition s pn = .empty := by
  simp [windowPosition, h]

theorem pos_right {s : State} {re : Nat} (h : s.rightEdge = some re) {pn : Nat} (hp : re < pn) :
    windowPosition s pn = .right (pn - re) := by
  have : ¬ pn ≤ re := by omega
  simp [windowPosition, h, this]

theorem pos_rightEdge {s : State} {re : Nat} (h : s.rightEdge = some re) :
    windowPosition s re = .rightEdge := by
  simp [windowPosition, h]

theorem pos_left {s : State} {re : Nat} (h : s.rightEdge = some re) {pn : Nat} (hp : pn + 129 ≤ re) :
    windowPosition s pn = .left := by
  have h1 : pn ≤ re := by omega
  have h2 : ¬ re - pn = 0 := by omega
  have h3 : re - pn ≥ windowWidth := by unfold windowWidth; omega
  simp [windowPosition, h, h1, h2, leftGuard, h3]

theorem pos_within {s : State} {re : Nat} (h : s.rightEdge = some re) {pn : Nat} (hp : pn < re)
    (hw : re ≤ pn + 128) : windowPosition s pn = .within (re - pn) := by
  have h1 : pn ≤ re := by omega
  have h2 : ¬ re - pn = 0 := by omega
  have h3 : ¬ re - pn ≥ windowWidth := by unfold windowWidth; omega
  simp [windowPosition, h, h1, h2, leftGuard, h3]

/-- inside the window the bit tells membership -/
theorem bit_iff_mem {s : State} {S : List Nat} (h : Rel s S) {re pn : Nat} (hre : s.rightEdge = some re)
    (hp : pn < re) (hw : re ≤ pn + 128) : s.window.testBit (re - pn - 1) = true ↔ pn ∈ S := by
  have hb := h.bits (re - pn) (by omega) (by omega)
  rw [hb, hre]
  have e : re - (re - pn) = pn := by omega
  constructor
  · rintro ⟨re', hr, _, hm⟩
    simp only [Option.some.injEq] at hr
    subst hr
    rw [e] at hm; exact hm
  · intro hm
    exact ⟨re, rfl, by omega, by rw [e]; exact hm⟩

/-- `check` answers what the plain set answers -/
theorem check_eq_classify {s : State} {S : List Nat} (h : Rel s S) (pn : Nat) :
    Res.ofExcept (check s pn) = RefWindow.classify ⟨S⟩ pn := by
  unfold check RefWindow.classify RefWindow.rightEdge
  cases hre : s.rightEdge with
  | none =>
    have := h.edge; rw [hre] at this
    simp only [← this, pos_empty hre]
    rfl
  | some re =>
    have he := h.edge; rw [hre] at he
    have ⟨hmem, hle⟩ := maxOf_some he.symm
    simp only [← he]
    by_cases h1 : re < pn
    · simp [pos_right hre h1, h1, Res.ofExcept]
    · by_cases h2 : pn = re
      · subst h2
        simp [pos_rightEdge hre, Res.ofExcept, RefWindow.reach, hmem]
      · by_cases h3 : pn + 129 ≤ re
        · have : RefWindow.reach < re - pn := by unfold RefWindow.reach; omega
          simp [pos_left hre h3, Res.ofExcept, h1, this]
        · have h4 : ¬ RefWindow.reach < re - pn := by unfold RefWindow.reach; omega
          have hb := bit_iff_mem h hre (show pn < re by omega) (by omega)
          simp only [pos_within hre (show pn < re by omega) (by omega), h1, h4, if_false]
          unfold bitOf
          rw [and_bit_ne_zero]
          by_cases hm : pn ∈ S
          · rw [hb.mpr hm]; simp [Res.ofExcept, hm]
          · have : s.window.testBit (re - pn - 1) = false := by
              cases hc : s.window.testBit (re - pn - 1) with
              | false => rfl
              | true => exact absurd (hb.mp hc) hm
            rw [this]; simp [Res.ofExcept, hm]

/-! ### `insert` -/

/-- the bitfield after sliding right by `delta` (the `Right(delta)` arm) -/
def newWindow (w delta : Nat) : Nat :=
  if shiftGuard delta then
    (if delta < windowBits then (w <<< delta) % 2 ^ windowBits else 0) ||| bitOf delta
  else 0

theorem insertInner_right {s : State} {re pn : Nat} (hre : s.rightEdge = some re) (hp : re < pn) :
    (insertInner s pn).1 = { window := newWindow s.window (pn - re), rightEdge := some pn } ∧
    ∃ ev, (insertInner s pn).2 = .ok ev := by
  unfold insertInner
  rw [pos_right hre hp]
  simp only [hre, newWindow]
  by_cases hg : shiftGuard (pn - re) = true
  · simp [hg]
  · simp [hg]

theorem newWindow_lt (w : Nat) (delta : Nat) : newWindow w delta < 2 ^ 128 := by
  unfold newWindow
  by_cases hg : delta < windowWidth
  · have hg' : shiftGuard delta = true := by simp [shiftGuard, hg]
    simp only [hg', if_true]
    have hd : delta ≤ 128 := by unfold windowWidth at hg; omega
    apply Nat.or_lt_two_pow
    · by_cases hb : delta < windowBits
      · simp only [hb, if_true]; exact Nat.mod_lt _ (by decide)
      · simp only [hb, if_false]; decide
    · exact bitOf_lt delta hd
  · have hg' : shiftGuard delta = false := by simp [shiftGuard, hg]
    simp [hg']

theorem newWindow_testBit (w : Nat) {delta j : Nat} (_h1 : 1 ≤ delta) (hj : j < 128) :
    (newWindow w delta).testBit j = (decide (delta - 1 = j) || (decide (delta ≤ j) && w.testBit (j - delta))) := by
  unfold newWindow
  by_cases hg : delta < windowWidth
  · have hg' : shiftGuard delta = true := by simp [shiftGuard, hg]
    simp only [hg', if_true]
    rw [Nat.testBit_or, testBit_bitOf]
    by_cases hb : delta < windowBits
    · simp only [hb, if_true]
      rw [Nat.testBit_mod_two_pow, Nat.testBit_shiftLeft]
      have : decide (j < windowBits) = true := by simp [windowBits, hj]
      rw [this]
      simp only [Bool.true_and, ge_iff_le]
      rw [Bool.or_comm]
    · simp only [hb, if_false, Nat.zero_testBit, Bool.false_or]
      have : ¬ delta ≤ j := by unfold windowBits at hb; omega
      simp [this]
  · have hg' : shiftGuard delta = false := by simp [shiftGuard, hg]
    simp only [hg']
    unfold windowWidth at hg
    have h2 : ¬ delta - 1 = j := by omega
    have h3 : ¬ delta ≤ j := by omega
    simp [h2, h3]

theorem insertInner_within {s : State} {re pn : Nat} (hre : s.rightEdge = some re) (hp : pn < re)
    (hw : re ≤ pn + 128) :
    insertInner s pn =
      if s.window.testBit (re - pn - 1) then
        ({ s with window := s.window ||| bitOf (re - pn) }, .err .duplicate)
      else ({ s with window := s.window ||| bitOf (re - pn) }, .ok Evicted.empty) := by
  unfold insertInner
  rw [pos_within hre hp hw]
  simp only [bitOf, and_bit_ne_zero]

/-- `insert` answers what the plain set answers and keeps representing the accepted set -/
theorem insert_rel {s : State} {S : List Nat} (h : Rel s S) (pn : Nat) :
    Res.ofInsertOut (insertInner s pn).2 = RefWindow.classify ⟨S⟩ pn ∧
    Rel (insertInner s pn).1 (if RefWindow.classify ⟨S⟩ pn = .ok then pn :: S else S) := by
  cases hre : s.rightEdge with
  | none =>
    have he := h.edge; rw [hre] at he
    have hS : S = [] := maxOf_eq_none.mp he.symm
    subst hS
    have hc : RefWindow.classify ⟨[]⟩ pn = .ok := rfl
    have hi : insertInner s pn = ({ s with rightEdge := some pn }, .ok Evicted.empty) := by
      unfold insertInner; rw [pos_empty hre]
    rw [hi, hc]
    refine ⟨rfl, ⟨rfl, h.bound, ?_⟩⟩
    intro d hd1 hd2
    have hb := h.bits d hd1 hd2
    rw [hre] at hb
    have hf : s.window.testBit (d - 1) = false := by
      cases hc : s.window.testBit (d - 1) with
      | false => rfl
      | true => obtain ⟨_, hx, _⟩ := hb.mp hc; cases hx
    simp only [hf, Bool.false_eq_true, false_iff]
    rintro ⟨re', hr, hle, hm⟩
    simp only [Option.some.injEq] at hr
    subst hr
    simp at hm
    omega
  | some re =>
    have he := h.edge; rw [hre] at he
    have ⟨hmem, hle⟩ := maxOf_some he.symm
    have hcl : ∀ q, RefWindow.classify ⟨S⟩ q =
        if re < q then .ok else if RefWindow.reach < re - q then .tooOld
        else if q ∈ S then .duplicate else .ok := by
      intro q; unfold RefWindow.classify RefWindow.rightEdge; simp only [← he]
    by_cases h1 : re < pn
    · -- slide to the right
      obtain ⟨hs', ev, hout⟩ := insertInner_right hre h1
      have hc : RefWindow.classify ⟨S⟩ pn = .ok := by rw [hcl]; simp [h1]
      rw [hout, hs', hc]
      refine ⟨rfl, ?_⟩
      simp only [if_true]
      have hd1 : 1 ≤ pn - re := by omega
      refine ⟨?_, newWindow_lt _ _, ?_⟩
      · exact (maxOf_cons_gt he.symm h1).symm
      · intro d hd hd'
        have hj : d - 1 < 128 := by omega
        rw [newWindow_testBit _ hd1 hj]
        constructor
        · intro ht
          simp only [Bool.or_eq_true, decide_eq_true_eq, Bool.and_eq_true] at ht
          refine ⟨pn, rfl, ?_⟩
          rcases ht with ht | ⟨ht1, ht2⟩
          · have hdd : d = pn - re := by omega
            refine ⟨by omega, ?_⟩
            have : pn - d = re := by omega
            rw [this]; exact List.mem_cons_of_mem _ hmem
          · have e0 : d - 1 - (pn - re) = (d - (pn - re)) - 1 := by omega
            rw [e0] at ht2
            obtain ⟨re', hr, hle', hm⟩ := (h.bits (d - (pn - re)) (by omega) (by omega)).mp ht2
            rw [hre] at hr
            simp only [Option.some.injEq] at hr
            subst hr
            refine ⟨by omega, ?_⟩
            have : pn - d = re - (d - (pn - re)) := by omega
            rw [this]; exact List.mem_cons_of_mem _ hm
        · rintro ⟨re', hr, hle', hm⟩
          simp only [Option.some.injEq] at hr
          subst hr
          simp only [Bool.or_eq_true, decide_eq_true_eq, Bool.and_eq_true]
          rcases List.mem_cons.mp hm with hm' | hm'
          · omega
          · have hx := hle _ hm'
            by_cases hdd : d = pn - re
            · left; omega
            · right
              refine ⟨by omega, ?_⟩
              have e0 : d - 1 - (pn - re) = (d - (pn - re)) - 1 := by omega
              rw [e0]
              apply (h.bits (d - (pn - re)) (by omega) (by omega)).mpr
              refine ⟨re, hre, by omega, ?_⟩
              have : re - (d - (pn - re)) = pn - d := by omega
              rw [this]; exact hm'
    · by_cases h2 : pn = re
      · subst h2
        have hi : insertInner s pn = (s, .err .duplicate) := by
          unfold insertInner; rw [pos_rightEdge hre]
        have hc : RefWindow.classify ⟨S⟩ pn = .duplicate := by
          rw [hcl]; simp [RefWindow.reach, hmem]
        rw [hi, hc]
        exact ⟨rfl, by simpa using h⟩
      · by_cases h3 : pn + 129 ≤ re
        · have hi : insertInner s pn = (s, .err .tooOld) := by
            unfold insertInner; rw [pos_left hre h3]
          have hc : RefWindow.classify ⟨S⟩ pn = .tooOld := by
            rw [hcl]
            have : RefWindow.reach < re - pn := by unfold RefWindow.reach; omega
            simp [h1, this]
          rw [hi, hc]
          exact ⟨rfl, by simpa using h⟩
        · have hlt : pn < re := by omega
          have hw : re ≤ pn + 128 := by omega
          have h4 : ¬ RefWindow.reach < re - pn := by unfold RefWindow.reach; omega
          have hb := bit_iff_mem h hre hlt hw
          rw [insertInner_within hre hlt hw]
          by_cases hm : pn ∈ S
          · have hc : RefWindow.classify ⟨S⟩ pn = .duplicate := by rw [hcl]; simp [h1, h4, hm]
            rw [hb.mpr hm, hc]
            refine ⟨rfl, ?_⟩
            simp only [if_true]
            have hsame : s.window ||| bitOf (re - pn) = s.window := by
              apply Nat.eq_of_testBit_eq
              intro i
              rw [Nat.testBit_or, testBit_bitOf]
              by_cases hi : re - pn - 1 = i
              · subst hi; rw [hb.mpr hm]; rfl
              · simp [hi]
            rw [hsame]
            simpa using h
          · have hc : RefWindow.classify ⟨S⟩ pn = .ok := by rw [hcl]; simp [h1, h4, hm]
            have hf : s.window.testBit (re - pn - 1) = false := by
              cases hc' : s.window.testBit (re - pn - 1) with
              | false => rfl
              | true => exact absurd (hb.mp hc') hm
            rw [hf, hc]
            refine ⟨rfl, ?_⟩
            simp only [Bool.false_eq_true, if_false, if_true]
            refine ⟨?_, Nat.or_lt_two_pow h.bound (bitOf_lt _ (by omega)), ?_⟩
            · simp only [hre]; exact (maxOf_cons_le he.symm (by omega)).symm
            · intro d hd hd'
              simp only [hre]
              rw [Nat.testBit_or, testBit_bitOf]
              constructor
              · intro ht
                simp only [Bool.or_eq_true, decide_eq_true_eq] at ht
                refine ⟨re, rfl, ?_⟩
                rcases ht with ht | ht
                · obtain ⟨re', hr, hle', hm'⟩ := (h.bits d hd hd').mp ht
                  rw [hre] at hr
                  simp only [Option.some.injEq] at hr
                  subst hr
                  exact ⟨hle', List.mem_cons_of_mem _ hm'⟩
                · have hdd : d = re - pn := by omega
                  refine ⟨by omega, ?_⟩
                  have : re - d = pn := by omega
                  rw [this]; exact List.mem_cons_self
              · rintro ⟨re', hr, hle', hm'⟩
                simp only [Option.some.injEq] at hr
                subst hr
                simp only [Bool.or_eq_true, decide_eq_true_eq]
                rcases List.mem_cons.mp hm' with hm'' | hm''
                · right; omega
                · left; exact (h.bits d hd hd').mpr ⟨re, hre, hle', hm''⟩

/-! ### histories -/

theorem classify_ok_not_mem {S : List Nat} {pn : Nat} (h : RefWindow.classify ⟨S⟩ pn = .ok) : pn ∉ S := by
  intro hm
  unfold RefWindow.classify RefWindow.rightEdge at h
  cases hmax : RefWindow.maxOf S with
  | none => rw [maxOf_eq_none.mp hmax] at hm; cases hm
  | some re =>
    have ⟨_, hle⟩ := maxOf_some hmax
    have := hle _ hm
    simp only [hmax] at h
    have h1 : ¬ re < pn := by omega
    simp only [h1, if_false, hm, if_true] at h
    split at h <;> cases h

theorem ref_step_insert_ok {S : List Nat} {pn : Nat} (hc : RefWindow.classify ⟨S⟩ pn = .ok) :
    RefWindow.step ⟨S⟩ (.insert pn) = (⟨pn :: S⟩, .ok) := by
  simp only [RefWindow.step, hc]

theorem ref_step_insert_ne {S : List Nat} {pn : Nat} (hc : RefWindow.classify ⟨S⟩ pn ≠ .ok) :
    RefWindow.step ⟨S⟩ (.insert pn) = (⟨S⟩, RefWindow.classify ⟨S⟩ pn) := by
  simp only [RefWindow.step]

/-- one step of the window against one step of the plain set -/
theorem step_sim {s : State} {S : List Nat} (h : Rel s S) (op : Op) :
    (step s op).2 = (RefWindow.step ⟨S⟩ op).2 ∧ Rel (step s op).1 (RefWindow.step ⟨S⟩ op).1.seen := by
  cases op with
  | check pn =>
    exact ⟨check_eq_classify h pn, h⟩
  | insert pn =>
    have ⟨h1, h2⟩ := insert_rel h pn
    by_cases hc : RefWindow.classify ⟨S⟩ pn = .ok
    · rw [ref_step_insert_ok hc]
      rw [hc] at h1
      simp only [hc, if_true] at h2
      exact ⟨h1, h2⟩
    · rw [ref_step_insert_ne hc]
      simp only [hc, if_false] at h2
      exact ⟨h1, h2⟩

/-- whole histories: same answers, and the window keeps representing the reference set -/
theorem run_sim {s : State} {S : List Nat} (h : Rel s S) (ops : List Op) :
    (run s ops).2 = (RefWindow.run ⟨S⟩ ops).2 ∧ Rel (run s ops).1 (RefWindow.run ⟨S⟩ ops).1.seen := by
  induction ops generalizing s S with
  | nil => exact ⟨rfl, h⟩
  | cons op ops ih =>
    have ⟨h1, h2⟩ := step_sim h op
    have ⟨h3, h4⟩ := ih h2
    simp only [run, RefWindow.run]
    exact ⟨by rw [h1, h3], h4⟩

/-- the reference set after a history = what it held before + what the window itself accepted -/
theorem ref_seen_eq {s : State} {S : List Nat} (h : Rel s S) (ops : List Op) :
    (RefWindow.run ⟨S⟩ ops).1.seen = (accepted s ops).reverse ++ S := by
  induction ops generalizing s S with
  | nil => simp [RefWindow.run, accepted]
  | cons op ops ih =>
    have ⟨h1, h2⟩ := step_sim h op
    cases op with
    | check pn =>
      have ih' := ih h2
      simp only [RefWindow.run, accepted]
      rw [ih']
      simp [RefWindow.step]
    | insert pn =>
      by_cases hc : RefWindow.classify ⟨S⟩ pn = .ok
      · rw [ref_step_insert_ok hc] at h1 h2
        have ih' := ih h2
        simp only [RefWindow.run, accepted, ref_step_insert_ok hc, h1, if_true]
        rw [ih']
        simp
      · rw [ref_step_insert_ne hc] at h1 h2
        have ih' := ih h2
        have h1' : ¬ (step s (.insert pn)).2 = .ok := by rw [h1]; exact hc
        simp only [RefWindow.run, accepted, ref_step_insert_ne hc, h1', if_false]
        rw [ih']

/-- the window represents exactly the numbers it accepted -/
theorem rel_accepted (ops : List Op) : Rel (run init ops).1 (accepted init ops).reverse := by
  have h := (run_sim rel_init ops).2
  rw [ref_seen_eq rel_init ops] at h
  simpa using h

theorem accepted_nodup {s : State} {S : List Nat} (h : Rel s S) (ops : List Op) :
    (accepted s ops).Nodup ∧ ∀ x ∈ accepted s ops, x ∉ S := by
  induction ops generalizing s S with
  | nil => simp [accepted]
  | cons op ops ih =>
    have ⟨h1, h2⟩ := step_sim h op
    cases op with
    | check pn =>
      have ⟨ih1, ih2⟩ := ih h2
      simp only [accepted]
      refine ⟨ih1, ?_⟩
      intro x hx
      have := ih2 x hx
      simpa [RefWindow.step] using this
    | insert pn =>
      by_cases hc : RefWindow.classify ⟨S⟩ pn = .ok
      · rw [ref_step_insert_ok hc] at h1 h2
        have ⟨ih1, ih2⟩ := ih h2
        simp only [accepted, h1, if_true]
        refine ⟨List.nodup_cons.mpr ⟨?_, ih1⟩, ?_⟩
        · intro hm
          exact ih2 pn hm List.mem_cons_self
        · intro x hx
          rcases List.mem_cons.mp hx with hx | hx
          · subst hx; exact classify_ok_not_mem hc
          · intro hxs; exact ih2 x hx (List.mem_cons_of_mem _ hxs)
      · rw [ref_step_insert_ne hc] at h1 h2
        have h1' : ¬ (step s (.insert pn)).2 = .ok := by rw [h1]; exact hc
        simp only [accepted, h1', if_false]
        exact ih h2

end Quic.Proofs.Lemmas.SlidingWindow
