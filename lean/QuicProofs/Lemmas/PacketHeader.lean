import QuicModel.Codec.PacketHeader
import QuicModel.Codec.PacketHeaderAbs
import QuicModel.Rfc.PacketHeader
import QuicProofs.Props.C05VarInt
/-
  Helper lemmas for `QuicProofs.Props.C05PacketHeader`: each reader of the code's `HeaderDecoder`
  expressed through the field readers of the RFC transcription, suffix bookkeeping
  (`peek = b.drop k`), and the per-type characterisations of the typed decoders.
-/
namespace Quic.Proofs.PacketHeader
open Quic Quic.Codec.PacketHeader
open Quic.Rfc.PacketHeader (take? u8? u32? cid? versions? lengthAndProtected invariants parsePacket parseV1 parseVn)

theorem bytesOk_drop {b : List Nat} (hb : BytesOk b) (k : Nat) : BytesOk (b.drop k) :=
  fun x hx => hb x (List.mem_of_mem_drop hx)

theorem bytesOk_tail {x : Nat} {b : List Nat} (hb : BytesOk (x :: b)) : BytesOk b :=
  fun y hy => hb y (List.mem_cons_of_mem _ hy)

/-! ### readers -/

theorem skipIntoRange_eq (n : Nat) (p : List Nat) :
    skipIntoRange n p = match take? n p with
      | some (c, r) => .ok (c, r)
      | none => .error .eof := by
  unfold skipIntoRange take?
  by_cases h : p.length < n
  · rw [if_pos h, if_neg (by omega)]
  · rw [if_neg h, if_pos (by omega)]

theorem checkedRangeU8_eq (p : List Nat) :
    checkedRangeU8 p = match cid? p with
      | some (c, r) => .ok (c, r)
      | none => .error .eof := by
  cases p with
  | nil => rfl
  | cons len r =>
    simp only [checkedRangeU8, cid?, u8?]
    exact skipIntoRange_eq len r

theorem take?_some {n : Nat} {p c r : List Nat} (h : take? n p = some (c, r)) :
    n ≤ p.length ∧ c = p.take n ∧ r = p.drop n := by
  unfold take? at h
  split at h
  · simp only [Option.some.injEq, Prod.mk.injEq] at h
    exact ⟨by assumption, h.1.symm, h.2.symm⟩
  · simp at h

theorem take?_none {n : Nat} {p : List Nat} (h : take? n p = none) : p.length < n := by
  unfold take? at h
  split at h
  · simp at h
  · omega

theorem cid?_some {p c r : List Nat} (h : cid? p = some (c, r)) :
    ∃ len t, p = len :: t ∧ len ≤ t.length ∧ c = t.take len ∧ r = t.drop len ∧ c.length = len
      ∧ r = p.drop (1 + len) ∧ 1 + len ≤ p.length := by
  cases p with
  | nil => simp [cid?, u8?] at h
  | cons len t =>
    simp only [cid?, u8?] at h
    obtain ⟨h1, h2, h3⟩ := take?_some h
    refine ⟨len, t, rfl, h1, h2, h3, ?_, ?_, ?_⟩
    · rw [h2, List.length_take]; omega
    · rw [h3, Nat.add_comm]; rfl
    · simp only [List.length_cons]; omega

theorem decU32_cons4 (a b c d : Nat) (r : List Nat) :
    decU32 (a :: b :: c :: d :: r) = .ok (((a * 256 + b) * 256 + c) * 256 + d, r) := by
  have : beVal [a, b, c, d] = ((a * 256 + b) * 256 + c) * 256 + d := by
    simp only [beVal, List.length_cons, List.length_nil]; omega
  simp [decU32, this]

theorem decU32_short (t : List Nat) (h : t.length < 4) : decU32 t = .error .eof := by
  simp [decU32, h]

theorem u32?_short (t : List Nat) (h : t.length < 4) : u32? t = none := by
  match t, h with
  | [], _ => rfl
  | [_], _ => rfl
  | [_, _], _ => rfl
  | [_, _, _], _ => rfl
  | _ :: _ :: _ :: _ :: _, h => simp at h; omega

/-- the code's varint decoder is the RFC's on wire bytes -/
theorem varint_eq (p : List Nat) (hp : BytesOk p) : Codec.VarInt.decode p = Rfc.VarInt.parse p :=
  Quic.Proofs.C05.decode_eq_rfc_parse p hp

theorem varint_suffix {p r : List Nat} {v : Nat} (h : Codec.VarInt.decode p = some (v, r)) :
    ∃ k, 1 ≤ k ∧ k ≤ p.length ∧ r = p.drop k := by
  obtain ⟨_, n, hn, hle, hr⟩ := Quic.Proofs.C05.decode_consumes p r v h
  exact ⟨n, by omega, hle, hr⟩

theorem checkedRangeVar_eq (p : List Nat) (hp : BytesOk p) :
    checkedRangeVar p = match Rfc.VarInt.parse p with
      | none => .error .eof
      | some (len, r) => match take? len r with
        | some (c, r') => .ok (c, r')
        | none => .error .eof := by
  unfold checkedRangeVar
  rw [varint_eq p hp]
  cases Rfc.VarInt.parse p with
  | none => rfl
  | some x => exact skipIntoRange_eq x.1 x.2

/-- `finish_long().split_off_packet(buffer)` when the peek buffer is the suffix `b.drop k` -/
theorem finishLong_eq (b : List Nat) (k : Nat) (hk : k ≤ b.length) (hb : BytesOk b) :
    finishLong b (b.drop k) = match lengthAndProtected b.length (b.drop k) with
      | none => .error .eof
      | some ((off, len), next) => .ok ((off, off + len), next) := by
  unfold finishLong lengthAndProtected
  rw [varint_eq _ (bytesOk_drop hb k)]
  cases hv : Rfc.VarInt.parse (b.drop k) with
  | none => rfl
  | some x =>
    obtain ⟨len, r⟩ := x
    have hv' : Codec.VarInt.decode (b.drop k) = some (len, r) := by rw [varint_eq _ (bytesOk_drop hb k)]; exact hv
    obtain ⟨j, hj1, hj2, hr⟩ := varint_suffix hv'
    rw [List.length_drop] at hj2
    have hr' : r = b.drop (k + j) := by rw [hr, List.drop_drop]
    have hrl : r.length = b.length - (k + j) := by rw [hr', List.length_drop]
    simp only []
    by_cases hlt : r.length < len
    · rw [if_pos hlt]
      have : take? len r = none := by unfold take?; rw [if_neg (by omega)]
      rw [this]
    · rw [if_neg hlt]
      have ht : take? len r = some (r.take len, r.drop len) := by unfold take?; rw [if_pos (by omega)]
      rw [ht]
      simp only [List.length_drop]
      rw [if_neg (by omega), if_neg (by omega)]
      have e1 : b.length - (r.length - len) = b.length - r.length + len := by omega
      rw [e1]
      congr 2
      rw [hr', List.drop_drop, List.length_drop]
      congr 1
      omega

/-! ### the typed decoders through the RFC field readers -/

theorem newLong_cons5 (first v0 v1 v2 v3 : Nat) (r1 : List Nat) :
    newLong (first :: v0 :: v1 :: v2 :: v3 :: r1) = .ok r1 := by
  simp [newLong, tagSize, versionSize]

theorem beVal4 (a b c d : Nat) : beVal [a, b, c, d] = ((a * 256 + b) * 256 + c) * 256 + d := by
  simp only [beVal, List.length_cons, List.length_nil]; omega

/-- bookkeeping: after the two connection IDs the peek buffer is `b.drop k` -/
theorem cids_suffix {b r1 r2 r3 d s : List Nat} {first v0 v1 v2 v3 : Nat}
    (hbdef : b = first :: v0 :: v1 :: v2 :: v3 :: r1)
    (h1 : cid? r1 = some (d, r2)) (h2 : cid? r2 = some (s, r3)) :
    ∃ k, k ≤ b.length ∧ r3 = b.drop k ∧ k = 5 + (1 + d.length) + (1 + s.length) := by
  obtain ⟨l1, t1, _, _, _, _, hd, hr2, hle1⟩ := cid?_some h1
  obtain ⟨l2, t2, _, _, _, _, hs, hr3, hle2⟩ := cid?_some h2
  refine ⟨5 + (1 + d.length) + (1 + s.length), ?_, ?_, rfl⟩
  · rw [hr2, List.length_drop] at hle2
    rw [hbdef]; simp only [List.length_cons]; omega
  · rw [hr3, hr2, hbdef, hd, hs]
    simp only [List.drop_drop]
    rw [show 5 + (1 + l1) + (1 + l2) = (1 + l1 + (1 + l2)) + 5 by omega]
    rfl

theorem decodeDcid_eq (p : List Nat) :
    decodeDcid p = match cid? p with
      | none => .error .eof
      | some (c, r) => if c.length ≤ 20 then .ok (c, r) else .error .dcidLen := by
  unfold decodeDcid
  rw [checkedRangeU8_eq]
  cases cid? p with
  | none => rfl
  | some x =>
    obtain ⟨c, r⟩ := x
    by_cases h : c.length ≤ 20 <;> simp [validateDcidLen, maxDcidLen, h]

theorem decodeScid_eq (p : List Nat) :
    decodeScid p = match cid? p with
      | none => .error .eof
      | some (c, r) => if c.length ≤ 20 then .ok (c, r) else .error .scidLen := by
  unfold decodeScid
  rw [checkedRangeU8_eq]
  cases cid? p with
  | none => rfl
  | some x =>
    obtain ⟨c, r⟩ := x
    by_cases h : c.length ≤ 20 <;> simp [validateScidLen, maxScidLen, h]

theorem decodeLongPlain_eq (mk : List Nat → List Nat → Nat → Nat → Packet) {b : List Nat}
    (first v0 v1 v2 v3 : Nat) (r1 : List Nat) (hb : BytesOk b)
    (hbdef : b = first :: v0 :: v1 :: v2 :: v3 :: r1) :
    decodeLongPlain mk b =
      match cid? r1 with
      | none => .error .eof
      | some (dcid, r2) =>
        if dcid.length ≤ 20 then
          match cid? r2 with
          | none => .error .eof
          | some (scid, r3) =>
            if scid.length ≤ 20 then
              match lengthAndProtected b.length r3 with
              | none => .error .eof
              | some ((off, len), next) => .ok (mk dcid scid off (off + len), next)
            else .error .scidLen
        else .error .dcidLen := by
  unfold decodeLongPlain
  rw [hbdef, newLong_cons5, ← hbdef]
  simp only []
  rw [decodeDcid_eq]
  cases h1 : cid? r1 with
  | none => rfl
  | some x1 =>
    obtain ⟨d, r2⟩ := x1
    simp only []
    by_cases hd : d.length ≤ 20
    · rw [if_pos hd, if_pos hd]
      simp only []
      rw [decodeScid_eq]
      cases h2 : cid? r2 with
      | none => rfl
      | some x2 =>
        obtain ⟨s, r3⟩ := x2
        simp only []
        by_cases hs : s.length ≤ 20
        · rw [if_pos hs, if_pos hs]
          simp only []
          obtain ⟨k, hk, hr3, _⟩ := cids_suffix hbdef h1 h2
          rw [hr3, finishLong_eq b k hk hb]
          cases lengthAndProtected b.length (b.drop k) with
          | none => rfl
          | some y => rfl
        · rw [if_neg hs, if_neg hs]
    · rw [if_neg hd, if_neg hd]

theorem decodeInitial_eq (version : Nat) {b : List Nat}
    (first v0 v1 v2 v3 : Nat) (r1 : List Nat) (hb : BytesOk b)
    (hbdef : b = first :: v0 :: v1 :: v2 :: v3 :: r1) :
    decodeInitial version b =
      match cid? r1 with
      | none => .error .eof
      | some (dcid, r2) =>
        match cid? r2 with
        | none => .error .eof
        | some (scid, r3) =>
          match Rfc.VarInt.parse r3 with
          | none => .error .eof
          | some (tokenLength, r4) =>
            match take? tokenLength r4 with
            | none => .error .eof
            | some (token, r5) =>
              match lengthAndProtected b.length r5 with
              | none => .error .eof
              | some ((off, len), next) => .ok (.initial version dcid scid token off (off + len), next) := by
  unfold decodeInitial
  rw [hbdef, newLong_cons5, ← hbdef]
  simp only []
  rw [checkedRangeU8_eq]
  cases h1 : cid? r1 with
  | none => rfl
  | some x1 =>
    obtain ⟨d, r2⟩ := x1
    simp only []
    rw [checkedRangeU8_eq]
    cases h2 : cid? r2 with
    | none => rfl
    | some x2 =>
      obtain ⟨s, r3⟩ := x2
      simp only []
      obtain ⟨k, hk, hr3, _⟩ := cids_suffix hbdef h1 h2
      have hb3 : BytesOk r3 := by rw [hr3]; exact bytesOk_drop hb k
      rw [checkedRangeVar_eq r3 hb3]
      cases h3 : Rfc.VarInt.parse r3 with
      | none => rfl
      | some x3 =>
        obtain ⟨tl, r4⟩ := x3
        simp only []
        cases h4 : take? tl r4 with
        | none => rfl
        | some x4 =>
          obtain ⟨tok, r5⟩ := x4
          simp only []
          have h3' : Codec.VarInt.decode r3 = some (tl, r4) := by rw [varint_eq r3 hb3]; exact h3
          obtain ⟨j, _, hj, hr4⟩ := varint_suffix h3'
          obtain ⟨hle, _, hr5⟩ := take?_some h4
          have hr5' : r5 = b.drop (k + j + tl) := by
            rw [hr5, hr4, hr3, List.drop_drop, List.drop_drop, Nat.add_assoc]
          have hk5 : k + j + tl ≤ b.length := by
            rw [hr4, hr3, List.length_drop, List.length_drop] at hle
            rw [hr3, List.length_drop] at hj
            omega
          rw [hr5', finishLong_eq b _ hk5 hb]
          cases lengthAndProtected b.length (b.drop (k + j + tl)) with
          | none => rfl
          | some y => rfl

theorem decodeRetry_eq (tag version : Nat) {b : List Nat}
    (first v0 v1 v2 v3 : Nat) (r1 : List Nat)
    (hbdef : b = first :: v0 :: v1 :: v2 :: v3 :: r1) :
    decodeRetry tag version b =
      match cid? r1 with
      | none => .error .eof
      | some (dcid, r2) =>
        if dcid.length ≤ 20 then
          match cid? r2 with
          | none => .error .eof
          | some (scid, r3) =>
            if scid.length ≤ 20 then
              if r3.length > 16 then
                .ok (.retry tag version dcid scid (r3.take (r3.length - 16)) (r3.drop (r3.length - 16)), [])
              else .error .retryTokenEmpty
            else .error .scidLen
        else .error .dcidLen := by
  unfold decodeRetry
  rw [hbdef, newLong_cons5, ← hbdef]
  simp only []
  rw [decodeDcid_eq]
  cases h1 : cid? r1 with
  | none => rfl
  | some x1 =>
    obtain ⟨d, r2⟩ := x1
    simp only []
    by_cases hd : d.length ≤ 20
    · rw [if_pos hd, if_pos hd]
      simp only []
      rw [decodeScid_eq]
      cases h2 : cid? r2 with
      | none => rfl
      | some x2 =>
        obtain ⟨s, r3⟩ := x2
        simp only []
        by_cases hs : s.length ≤ 20
        · rw [if_pos hs, if_pos hs]
          simp only []
          obtain ⟨k, hk, hr3, _⟩ := cids_suffix hbdef h1 h2
          have hl3 : r3.length = b.length - k := by rw [hr3, List.length_drop]
          have hdrop : b.drop (b.length - r3.length) = r3 := by
            rw [hl3, show b.length - (b.length - k) = k by omega, hr3]
          rw [if_neg (by omega), hdrop]
          simp only [integrityTagLen]
          by_cases h16 : r3.length > 16
          · have e1 : ¬ (r3.length - 16 = 0) := by omega
            have e2 : ¬ (r3.length < r3.length - 16) := by omega
            have hl : (r3.drop (r3.length - 16)).length = 16 := by rw [List.length_drop]; omega
            have e3 : ¬ ((r3.drop (r3.length - 16)).length < 16) := by omega
            have e4 : (r3.drop (r3.length - 16)).take 16 = r3.drop (r3.length - 16) :=
              List.take_of_length_le (by omega)
            have e5 : (r3.drop (r3.length - 16)).drop 16 = [] := List.drop_eq_nil_of_le (by omega)
            simp [e1, e2, e4, e5, h16, hl]
          · have e1 : r3.length - 16 = 0 := by omega
            simp [e1, h16]
        · rw [if_neg hs, if_neg hs]
    · rw [if_neg hd, if_neg hd]

/-- `VersionNegotiationIterator` against the RFC's list of 32-bit values -/
theorem versions?_eq (l : List Nat) :
    versions? l = if l.length % 4 = 0 then some (vnVersions l) else none := by
  fun_induction versions? l with
  | case1 => rfl
  | case2 a b c d r vs hvs ih =>
    rw [hvs] at ih
    simp only [List.length_cons, vnVersions, beVal4]
    by_cases h : r.length % 4 = 0
    · rw [if_pos h] at ih
      rw [if_pos (by omega)]
      simp only [Option.some.injEq] at ih
      rw [ih]
    · rw [if_neg h] at ih; simp at ih
  | case3 a b c d r hvs ih =>
    rw [hvs] at ih
    simp only [List.length_cons]
    by_cases h : r.length % 4 = 0
    · rw [if_pos h] at ih; simp at ih
    · rw [if_neg (by omega)]
  | case4 l h1 h2 =>
    match l, h1, h2 with
    | [], h1, _ => exact absurd rfl h1
    | [_], _, _ => rfl
    | [_, _], _, _ => rfl
    | [_, _, _], _, _ => rfl
    | a :: b :: c :: d :: r, _, h2 => exact absurd rfl (h2 a b c d r)

theorem vnVersions_nil_iff (l : List Nat) : vnVersions l = [] ↔ l.length < 4 := by
  match l with
  | [] => simp [vnVersions]
  | [_] => simp [vnVersions]
  | [_, _] => simp [vnVersions]
  | [_, _, _] => simp [vnVersions]
  | _ :: _ :: _ :: _ :: _ => simp [vnVersions]

theorem decodeVn_eq (tag : Nat) {b : List Nat}
    (first v0 v1 v2 v3 : Nat) (r1 : List Nat)
    (hbdef : b = first :: v0 :: v1 :: v2 :: v3 :: r1) :
    decodeVn tag b =
      match cid? r1 with
      | none => .error .eof
      | some (dcid, r2) =>
        if dcid.length ≤ 20 then
          match cid? r2 with
          | none => .error .eof
          | some (scid, r3) =>
            if scid.length ≤ 20 then
              if r3.length < 4 then .error .vnNoVersion
              else if r3.length % 4 ≠ 0 then .error .vnPayloadLen
              else .ok (.versionNegotiation tag dcid scid r3, [])
            else .error .scidLen
        else .error .dcidLen := by
  unfold decodeVn
  have hlen : ¬ b.length < tagSize + versionSize := by
    rw [hbdef]; simp [tagSize, versionSize]
  rw [if_neg hlen]
  have hdrop : b.drop (tagSize + versionSize) = r1 := by rw [hbdef]; rfl
  simp only [hdrop, sliceU8]
  rw [checkedRangeU8_eq]
  cases h1 : cid? r1 with
  | none => rfl
  | some x1 =>
    obtain ⟨d, r2⟩ := x1
    by_cases hd : d.length ≤ 20
    · simp only [validateDcidLen, maxDcidLen, hd, if_true]
      rw [checkedRangeU8_eq]
      cases h2 : cid? r2 with
      | none => rfl
      | some x2 =>
        obtain ⟨s, r3⟩ := x2
        by_cases hs : s.length ≤ 20
        · simp [validateScidLen, maxScidLen, hs]
        · simp [validateScidLen, maxScidLen, hs]
    · simp [validateDcidLen, maxDcidLen, hd]

/-! ### the reference parser on a long header with at least five bytes -/

theorem invariants_cons5 (first v0 v1 v2 v3 : Nat) (r1 : List Nat) (h : first / 128 % 2 = 1) :
    invariants (first :: v0 :: v1 :: v2 :: v3 :: r1) =
      match cid? r1 with
      | none => none
      | some (d, r2) =>
        match cid? r2 with
        | none => none
        | some (s, r3) => some (first, ((v0 * 256 + v1) * 256 + v2) * 256 + v3, d, s, r3) := by
  simp only [invariants, u32?, h, if_true]
  cases cid? r1 with
  | none => rfl
  | some x =>
    obtain ⟨d, r2⟩ := x
    simp only []
    cases cid? r2 <;> rfl

theorem parsePacket_long (n first v0 v1 v2 v3 : Nat) (r1 : List Nat) (h : first / 128 % 2 = 1) :
    parsePacket n (first :: v0 :: v1 :: v2 :: v3 :: r1) =
      match cid? r1 with
      | none => none
      | some (d, r2) =>
        match cid? r2 with
        | none => none
        | some (s, r3) =>
          if ((v0 * 256 + v1) * 256 + v2) * 256 + v3 = 0 then parseVn first d s r3
          else if ((v0 * 256 + v1) * 256 + v2) * 256 + v3 = 1 then
            parseV1 (first :: v0 :: v1 :: v2 :: v3 :: r1).length first d s r3
          else some (.unsupportedVersion (((v0 * 256 + v1) * 256 + v2) * 256 + v3) d s, []) := by
  unfold parsePacket
  have h0 : ¬ first / 128 % 2 = 0 := by omega
  simp only [h0, if_false]
  rw [invariants_cons5 _ _ _ _ _ _ h]
  cases cid? r1 with
  | none => rfl
  | some x =>
    obtain ⟨d, r2⟩ := x
    simp only []
    cases cid? r2 <;> rfl

theorem parsePacket_long_short (n first : Nat) (t : List Nat) (h : first / 128 % 2 = 1) (ht : t.length < 4) :
    parsePacket n (first :: t) = none := by
  unfold parsePacket
  have h0 : ¬ first / 128 % 2 = 0 := by omega
  simp only []
  rw [if_neg h0]
  simp only [invariants, h, if_true, u32?_short t ht]

/-- Figure 14 through the iterator of the code -/
theorem parseVn_eq (first : Nat) (d s body : List Nat) :
    parseVn first d s body =
      if body.length < 4 then none
      else if body.length % 4 ≠ 0 then none
      else some (.versionNegotiation (first % 128) d s (vnVersions body), []) := by
  unfold parseVn
  rw [versions?_eq]
  by_cases h4 : body.length % 4 = 0
  · rw [if_pos h4]
    by_cases hl : body.length < 4
    · rw [if_pos hl, (vnVersions_nil_iff body).mpr hl]
    · rw [if_neg hl, if_neg (by omega)]
      have hne : vnVersions body ≠ [] := fun h => hl ((vnVersions_nil_iff body).mp h)
      cases hv : vnVersions body with
      | nil => exact absurd hv hne
      | cons v vs => rfl
  · rw [if_neg h4]
    by_cases hl : body.length < 4
    · rw [if_pos hl]
    · rw [if_neg hl, if_pos h4]

theorem decodeShort_spec (n first : Nat) (t : List Nat) :
    decodeShort n first (first :: t) =
      if t.length < n then .error .invalidCid
      else if 20 < n then .error .dcidLen
      else .ok (.short (spinOf first) (t.take n) (1 + n) (t.length + 1), []) := by
  unfold decodeShort
  have e1 : newShort (first :: t) = .ok t := by simp [newShort, tagSize]
  rw [e1]
  simp only []
  by_cases h : t.length < n
  · have e2 : validateUsize n t = none := by
      unfold validateUsize; rw [if_neg (by omega)]
    rw [e2, if_pos h]
  · have e2 : validateUsize n t = some n := by
      unfold validateUsize; rw [if_pos (by omega)]
    have e3 : skipIntoRange n t = .ok (t.take n, t.drop n) := by
      unfold skipIntoRange; rw [if_neg h]
    rw [e2, if_neg h]
    simp only []
    rw [e3]
    simp only []
    have e4 : (t.take n).length = n := by rw [List.length_take]; omega
    by_cases h20 : 20 < n
    · have e5 : validateDcidLen (t.take n).length = .error .dcidLen := by
        unfold validateDcidLen maxDcidLen; rw [e4, if_neg (by omega)]
      rw [e5, if_pos h20]
    · have e5 : validateDcidLen (t.take n).length = .ok () := by
        unfold validateDcidLen maxDcidLen; rw [e4, if_pos (by omega)]
      have e6 : finishShort (first :: t) (t.drop n) = .ok ((1 + n, t.length + 1), []) := by
        unfold finishShort
        simp only [List.length_cons, List.length_drop, Nat.lt_irrefl, if_false]
        rw [if_neg (by omega)]
        have : List.drop (t.length + 1) (first :: t) = [] := by simp
        rw [this]
        congr 3
        omega
      rw [e5, if_neg h20]
      simp only []
      rw [e6]

/-! ### the first-byte dispatch of `decode_packet` -/

/-- the conditions of the dispatch chain for a given high nibble -/
theorem dispatch_conds (first : Nat) :
    ((shortTagLo ≤ first / 16 ∧ first / 16 ≤ shortTagHi) ↔ (4 ≤ first / 16 ∧ first / 16 ≤ 7)) ∧
    ((vnTagLo ≤ first / 16 ∧ first / 16 ≤ vnTagHi) ↔ (8 ≤ first / 16 ∧ first / 16 ≤ 11)) ∧
    (first / 16 = initialTag ↔ first / 16 = 12) ∧ (first / 16 = zeroRttTag ↔ first / 16 = 13) ∧
    (first / 16 = handshakeTag ↔ first / 16 = 14) ∧ (first / 16 = retryTag ↔ first / 16 = 15) := by
  unfold shortTagLo shortTagHi vnTagLo vnTagHi initialTag zeroRttTag handshakeTag retryTag
  exact ⟨Iff.rfl, Iff.rfl, Iff.rfl, Iff.rfl, Iff.rfl, Iff.rfl⟩

theorem decodePacket_shortForm (n first : Nat) (t : List Nat) (hf : first < 256) (h : first / 128 % 2 = 0) :
    decodePacket n (first :: t) =
      if first / 64 % 2 = 1 then decodeShort n first (first :: t) else .error .invalidPacket := by
  obtain ⟨c1, c2, c3, c4, c5, c6⟩ := dispatch_conds first
  simp only [decodePacket]
  by_cases hfix : first / 64 % 2 = 1
  · rw [if_pos (c1.mpr (by omega)), if_pos hfix]
  · rw [if_neg (fun x => absurd (c1.mp x) (by omega)), if_neg (fun x => absurd (c2.mp x) (by omega)),
      if_neg (fun x => absurd (c3.mp x) (by omega)), if_neg (fun x => absurd (c4.mp x) (by omega)),
      if_neg (fun x => absurd (c5.mp x) (by omega)), if_neg (fun x => absurd (c6.mp x) (by omega)), if_neg hfix]

theorem decodePacket_longTrunc (n first : Nat) (t : List Nat) (hf : first < 256) (h : first / 128 % 2 = 1)
    (ht : t.length < 4) : decodePacket n (first :: t) = .error .eof := by
  obtain ⟨c1, c2, c3, c4, c5, c6⟩ := dispatch_conds first
  simp only [decodePacket, longPacket, decU32_short t ht]
  rw [if_neg (fun x => absurd (c1.mp x) (by omega))]
  have hhi : (8 ≤ first / 16 ∧ first / 16 ≤ 11) ∨ first / 16 = 12 ∨ first / 16 = 13 ∨ first / 16 = 14 ∨ first / 16 = 15 := by
    omega
  rcases hhi with h8 | h12 | h13 | h14 | h15
  · rw [if_pos (c2.mpr h8)]
  · rw [if_neg (fun x => absurd (c2.mp x) (by omega)), if_pos (c3.mpr h12)]
  · rw [if_neg (fun x => absurd (c2.mp x) (by omega)), if_neg (fun x => absurd (c3.mp x) (by omega)), if_pos (c4.mpr h13)]
  · rw [if_neg (fun x => absurd (c2.mp x) (by omega)), if_neg (fun x => absurd (c3.mp x) (by omega)),
      if_neg (fun x => absurd (c4.mp x) (by omega)), if_pos (c5.mpr h14)]
  · rw [if_neg (fun x => absurd (c2.mp x) (by omega)), if_neg (fun x => absurd (c3.mp x) (by omega)),
      if_neg (fun x => absurd (c4.mp x) (by omega)), if_neg (fun x => absurd (c5.mp x) (by omega)), if_pos (c6.mpr h15)]

/-- the long-header dispatch after a successful version peek -/
theorem decodePacket_long (n first v0 v1 v2 v3 : Nat) (r1 : List Nat) (hf : first < 256)
    (h : first / 128 % 2 = 1) :
    decodePacket n (first :: v0 :: v1 :: v2 :: v3 :: r1) =
      if ((v0 * 256 + v1) * 256 + v2) * 256 + v3 = 0 then decodeVn first (first :: v0 :: v1 :: v2 :: v3 :: r1)
      else if first / 16 ≤ 11 then .error .invalidVn
      else if first / 16 = 12 then
        decodeInitial (((v0 * 256 + v1) * 256 + v2) * 256 + v3) (first :: v0 :: v1 :: v2 :: v3 :: r1)
      else if first / 16 = 13 then
        decodeZeroRtt (((v0 * 256 + v1) * 256 + v2) * 256 + v3) (first :: v0 :: v1 :: v2 :: v3 :: r1)
      else if first / 16 = 14 then
        decodeHandshake (((v0 * 256 + v1) * 256 + v2) * 256 + v3) (first :: v0 :: v1 :: v2 :: v3 :: r1)
      else decodeRetry first (((v0 * 256 + v1) * 256 + v2) * 256 + v3) (first :: v0 :: v1 :: v2 :: v3 :: r1) := by
  obtain ⟨c1, c2, c3, c4, c5, c6⟩ := dispatch_conds first
  simp only [decodePacket, longPacket, decU32_cons4]
  rw [if_neg (fun x => absurd (c1.mp x) (by omega))]
  have hhi : (8 ≤ first / 16 ∧ first / 16 ≤ 11) ∨ first / 16 = 12 ∨ first / 16 = 13 ∨ first / 16 = 14 ∨ first / 16 = 15 := by
    omega
  by_cases hv : ((v0 * 256 + v1) * 256 + v2) * 256 + v3 = 0
  · have hv1 : ((v0 * 256 + v1) * 256 + v2) * 256 + v3 = vnVersion := hv
    have hv2 : vnVersion = ((v0 * 256 + v1) * 256 + v2) * 256 + v3 := hv.symm
    rw [if_pos hv]
    rcases hhi with h8 | h12 | h13 | h14 | h15
    · rw [if_pos (c2.mpr h8), if_pos hv2]
    · rw [if_neg (fun x => absurd (c2.mp x) (by omega)), if_pos (c3.mpr h12), if_pos hv1]
    · rw [if_neg (fun x => absurd (c2.mp x) (by omega)), if_neg (fun x => absurd (c3.mp x) (by omega)),
        if_pos (c4.mpr h13), if_pos hv1]
    · rw [if_neg (fun x => absurd (c2.mp x) (by omega)), if_neg (fun x => absurd (c3.mp x) (by omega)),
        if_neg (fun x => absurd (c4.mp x) (by omega)), if_pos (c5.mpr h14), if_pos hv1]
    · rw [if_neg (fun x => absurd (c2.mp x) (by omega)), if_neg (fun x => absurd (c3.mp x) (by omega)),
        if_neg (fun x => absurd (c4.mp x) (by omega)), if_neg (fun x => absurd (c5.mp x) (by omega)),
        if_pos (c6.mpr h15), if_pos hv1]
  · have hv1 : ¬ ((v0 * 256 + v1) * 256 + v2) * 256 + v3 = vnVersion := hv
    have hv2 : ¬ vnVersion = ((v0 * 256 + v1) * 256 + v2) * 256 + v3 := fun e => hv e.symm
    rw [if_neg hv]
    rcases hhi with h8 | h12 | h13 | h14 | h15
    · rw [if_pos (c2.mpr h8), if_neg hv2, if_pos (show first / 16 ≤ 11 by omega)]
    · rw [if_neg (fun x => absurd (c2.mp x) (by omega)), if_pos (c3.mpr h12), if_neg hv1,
        if_neg (show ¬ first / 16 ≤ 11 by omega), if_pos h12]
    · rw [if_neg (fun x => absurd (c2.mp x) (by omega)), if_neg (fun x => absurd (c3.mp x) (by omega)),
        if_pos (c4.mpr h13), if_neg hv1, if_neg (show ¬ first / 16 ≤ 11 by omega),
        if_neg (show ¬ first / 16 = 12 by omega), if_pos h13]
    · rw [if_neg (fun x => absurd (c2.mp x) (by omega)), if_neg (fun x => absurd (c3.mp x) (by omega)),
        if_neg (fun x => absurd (c4.mp x) (by omega)), if_pos (c5.mpr h14), if_neg hv1,
        if_neg (show ¬ first / 16 ≤ 11 by omega), if_neg (show ¬ first / 16 = 12 by omega),
        if_neg (show ¬ first / 16 = 13 by omega), if_pos h14]
    · rw [if_neg (fun x => absurd (c2.mp x) (by omega)), if_neg (fun x => absurd (c3.mp x) (by omega)),
        if_neg (fun x => absurd (c4.mp x) (by omega)), if_neg (fun x => absurd (c5.mp x) (by omega)),
        if_pos (c6.mpr h15), if_neg hv1, if_neg (show ¬ first / 16 ≤ 11 by omega),
        if_neg (show ¬ first / 16 = 12 by omega), if_neg (show ¬ first / 16 = 13 by omega),
        if_neg (show ¬ first / 16 = 14 by omega)]

/-! ### inversion: what an accepted packet looks like -/

/-- an accepted long-header packet, after both connection IDs (`d`, `s`) have been read and `r3` is
    what follows them; `V` is the Version field, `blen` the length of the whole input -/
inductive LongOk (first V blen : Nat) (d s r3 : List Nat) : Packet → List Nat → Prop
  | vn : V = 0 → d.length ≤ 20 → s.length ≤ 20 → 4 ≤ r3.length → r3.length % 4 = 0 →
      LongOk first V blen d s r3 (.versionNegotiation first d s r3) []
  | initial (tl : Nat) (r4 tok r5 : List Nat) (off len : Nat) (next : List Nat) :
      V ≠ 0 → first / 16 = 12 → Rfc.VarInt.parse r3 = some (tl, r4) → take? tl r4 = some (tok, r5) →
      lengthAndProtected blen r5 = some ((off, len), next) →
      LongOk first V blen d s r3 (.initial V d s tok off (off + len)) next
  | zeroRtt (off len : Nat) (next : List Nat) :
      V ≠ 0 → first / 16 = 13 → d.length ≤ 20 → s.length ≤ 20 →
      lengthAndProtected blen r3 = some ((off, len), next) →
      LongOk first V blen d s r3 (.zeroRtt V d s off (off + len)) next
  | handshake (off len : Nat) (next : List Nat) :
      V ≠ 0 → first / 16 = 14 → d.length ≤ 20 → s.length ≤ 20 →
      lengthAndProtected blen r3 = some ((off, len), next) →
      LongOk first V blen d s r3 (.handshake V d s off (off + len)) next
  | retry : V ≠ 0 → first / 16 = 15 → d.length ≤ 20 → s.length ≤ 20 → 16 < r3.length →
      LongOk first V blen d s r3 (.retry first V d s (r3.take (r3.length - 16)) (r3.drop (r3.length - 16))) []

theorem decodeLongPlain_ok_inv {mk : List Nat → List Nat → Nat → Nat → Packet} {b : List Nat}
    {first v0 v1 v2 v3 : Nat} {r1 : List Nat} (hb : BytesOk b)
    (hbdef : b = first :: v0 :: v1 :: v2 :: v3 :: r1) {p : Packet} {rest : List Nat}
    (h : decodeLongPlain mk b = .ok (p, rest)) :
    ∃ d r2 s r3 off len, cid? r1 = some (d, r2) ∧ cid? r2 = some (s, r3) ∧ d.length ≤ 20 ∧ s.length ≤ 20 ∧
      lengthAndProtected b.length r3 = some ((off, len), rest) ∧ p = mk d s off (off + len) := by
  rw [decodeLongPlain_eq mk first v0 v1 v2 v3 r1 hb hbdef] at h
  cases h1 : cid? r1 with
  | none => rw [h1] at h; simp at h
  | some x1 =>
    obtain ⟨d, r2⟩ := x1
    rw [h1] at h
    simp only [] at h
    by_cases hd : d.length ≤ 20
    · rw [if_pos hd] at h
      cases h2 : cid? r2 with
      | none => rw [h2] at h; simp at h
      | some x2 =>
        obtain ⟨s, r3⟩ := x2
        rw [h2] at h
        simp only [] at h
        by_cases hs : s.length ≤ 20
        · rw [if_pos hs] at h
          cases h3 : lengthAndProtected b.length r3 with
          | none => rw [h3] at h; simp at h
          | some x3 =>
            obtain ⟨⟨off, len⟩, next⟩ := x3
            rw [h3] at h
            simp only [Except.ok.injEq, Prod.mk.injEq] at h
            exact ⟨d, r2, s, r3, off, len, rfl, h2, hd, hs, by rw [← h.2]; exact h3, h.1.symm⟩
        · rw [if_neg hs] at h; simp at h
    · rw [if_neg hd] at h; simp at h

theorem decodePacket_ok_inv (n : Nat) (b : List Nat) (p : Packet) (rest : List Nat) (hb : BytesOk b)
    (h : decodePacket n b = .ok (p, rest)) :
    (∃ first t, b = first :: t ∧ first / 128 % 2 = 0 ∧ first / 64 % 2 = 1 ∧ n ≤ t.length ∧ n ≤ 20 ∧
        p = .short (spinOf first) (t.take n) (1 + n) (t.length + 1) ∧ rest = []) ∨
    (∃ first v0 v1 v2 v3 r1 d r2 s r3, b = first :: v0 :: v1 :: v2 :: v3 :: r1 ∧ first / 128 % 2 = 1 ∧
        first < 256 ∧ cid? r1 = some (d, r2) ∧ cid? r2 = some (s, r3) ∧
        LongOk first (((v0 * 256 + v1) * 256 + v2) * 256 + v3) b.length d s r3 p rest) := by
  match b, hb, h with
  | [], _, h => simp [decodePacket] at h
  | first :: t, hb, h =>
    have hf : first < 256 := hb first (List.mem_cons_self ..)
    by_cases hform : first / 128 % 2 = 0
    · left
      rw [decodePacket_shortForm n first t hf hform] at h
      by_cases hfix : first / 64 % 2 = 1
      · rw [if_pos hfix, decodeShort_spec] at h
        by_cases h1 : t.length < n
        · rw [if_pos h1] at h; simp at h
        · rw [if_neg h1] at h
          by_cases h2 : 20 < n
          · rw [if_pos h2] at h; simp at h
          · rw [if_neg h2] at h
            simp only [Except.ok.injEq, Prod.mk.injEq] at h
            exact ⟨first, t, rfl, hform, hfix, by omega, by omega, h.1.symm, h.2.symm⟩
      · rw [if_neg hfix] at h; simp at h
    · right
      have hform1 : first / 128 % 2 = 1 := by omega
      by_cases ht : t.length < 4
      · rw [decodePacket_longTrunc n first t hf hform1 ht] at h; simp at h
      · match t, ht, hb, h with
        | [], ht, _, _ => exact absurd (by simp) ht
        | [_], ht, _, _ => exact absurd (by simp) ht
        | [_, _], ht, _, _ => exact absurd (by simp) ht
        | [_, _, _], ht, _, _ => exact absurd (by simp) ht
        | v0 :: v1 :: v2 :: v3 :: r1, _, hb, h =>
          rw [decodePacket_long n first v0 v1 v2 v3 r1 hf hform1] at h
          refine ⟨first, v0, v1, v2, v3, r1, ?_⟩
          by_cases hv : ((v0 * 256 + v1) * 256 + v2) * 256 + v3 = 0
          · rw [if_pos hv, decodeVn_eq first first v0 v1 v2 v3 r1 rfl] at h
            cases h1 : cid? r1 with
            | none => rw [h1] at h; simp at h
            | some x1 =>
              obtain ⟨d, r2⟩ := x1
              rw [h1] at h
              simp only [] at h
              by_cases hd : d.length ≤ 20
              · rw [if_pos hd] at h
                cases h2 : cid? r2 with
                | none => rw [h2] at h; simp at h
                | some x2 =>
                  obtain ⟨s, r3⟩ := x2
                  rw [h2] at h
                  simp only [] at h
                  by_cases hs : s.length ≤ 20
                  · rw [if_pos hs] at h
                    by_cases hl : r3.length < 4
                    · rw [if_pos hl] at h; simp at h
                    · rw [if_neg hl] at h
                      by_cases h4 : r3.length % 4 ≠ 0
                      · rw [if_pos h4] at h; simp at h
                      · rw [if_neg h4] at h
                        simp only [Except.ok.injEq, Prod.mk.injEq] at h
                        refine ⟨d, r2, s, r3, rfl, hform1, hf, rfl, h2, ?_⟩
                        rw [← h.1, ← h.2]
                        exact LongOk.vn hv hd hs (by omega) (by omega)
                  · rw [if_neg hs] at h; simp at h
              · rw [if_neg hd] at h; simp at h
          · rw [if_neg hv] at h
            by_cases h11 : first / 16 ≤ 11
            · rw [if_pos h11] at h; simp at h
            · rw [if_neg h11] at h
              by_cases h12 : first / 16 = 12
              · rw [if_pos h12, decodeInitial_eq _ first v0 v1 v2 v3 r1 hb rfl] at h
                cases h1 : cid? r1 with
                | none => rw [h1] at h; simp at h
                | some x1 =>
                  obtain ⟨d, r2⟩ := x1
                  rw [h1] at h
                  simp only [] at h
                  cases h2 : cid? r2 with
                  | none => rw [h2] at h; simp at h
                  | some x2 =>
                    obtain ⟨s, r3⟩ := x2
                    rw [h2] at h
                    simp only [] at h
                    cases h3 : Rfc.VarInt.parse r3 with
                    | none => rw [h3] at h; simp at h
                    | some x3 =>
                      obtain ⟨tl, r4⟩ := x3
                      rw [h3] at h
                      simp only [] at h
                      cases h4 : take? tl r4 with
                      | none => rw [h4] at h; simp at h
                      | some x4 =>
                        obtain ⟨tok, r5⟩ := x4
                        rw [h4] at h
                        simp only [] at h
                        cases h5 : lengthAndProtected (first :: v0 :: v1 :: v2 :: v3 :: r1).length r5 with
                        | none => rw [h5] at h; simp at h
                        | some x5 =>
                          obtain ⟨⟨off, len⟩, next⟩ := x5
                          rw [h5] at h
                          simp only [Except.ok.injEq, Prod.mk.injEq] at h
                          refine ⟨d, r2, s, r3, rfl, hform1, hf, rfl, h2, ?_⟩
                          rw [← h.1, ← h.2]
                          exact LongOk.initial tl r4 tok r5 off len next hv h12 h3 h4 h5
              · rw [if_neg h12] at h
                by_cases h13 : first / 16 = 13
                · rw [if_pos h13] at h
                  obtain ⟨d, r2, s, r3, off, len, h1, h2, hd, hs, h3, hp⟩ := decodeLongPlain_ok_inv hb rfl h
                  refine ⟨d, r2, s, r3, rfl, hform1, hf, h1, h2, ?_⟩
                  rw [hp]
                  exact LongOk.zeroRtt off len rest hv h13 hd hs h3
                · rw [if_neg h13] at h
                  by_cases h14 : first / 16 = 14
                  · rw [if_pos h14] at h
                    obtain ⟨d, r2, s, r3, off, len, h1, h2, hd, hs, h3, hp⟩ := decodeLongPlain_ok_inv hb rfl h
                    refine ⟨d, r2, s, r3, rfl, hform1, hf, h1, h2, ?_⟩
                    rw [hp]
                    exact LongOk.handshake off len rest hv h14 hd hs h3
                  · rw [if_neg h14, decodeRetry_eq first _ first v0 v1 v2 v3 r1 rfl] at h
                    have h15 : first / 16 = 15 := by omega
                    cases h1 : cid? r1 with
                    | none => rw [h1] at h; simp at h
                    | some x1 =>
                      obtain ⟨d, r2⟩ := x1
                      rw [h1] at h
                      simp only [] at h
                      by_cases hd : d.length ≤ 20
                      · rw [if_pos hd] at h
                        cases h2 : cid? r2 with
                        | none => rw [h2] at h; simp at h
                        | some x2 =>
                          obtain ⟨s, r3⟩ := x2
                          rw [h2] at h
                          simp only [] at h
                          by_cases hs : s.length ≤ 20
                          · rw [if_pos hs] at h
                            by_cases h16 : r3.length > 16
                            · rw [if_pos h16] at h
                              simp only [Except.ok.injEq, Prod.mk.injEq] at h
                              refine ⟨d, r2, s, r3, rfl, hform1, hf, rfl, h2, ?_⟩
                              rw [← h.1, ← h.2]
                              exact LongOk.retry hv h15 hd hs h16
                            · rw [if_neg h16] at h; simp at h
                          · rw [if_neg hs] at h; simp at h
                      · rw [if_neg hd] at h; simp at h

/-- `Length (i)` and the bytes it covers, when the field starts at offset `k` of `b` -/
theorem lap_suffix {b : List Nat} {k off len : Nat} {next : List Nat} (hb : BytesOk b) (hk : k ≤ b.length)
    (h : lengthAndProtected b.length (b.drop k) = some ((off, len), next)) :
    ∃ j, 1 ≤ j ∧ off = k + j ∧ off + len ≤ b.length ∧ next = b.drop (off + len) ∧
      Codec.VarInt.decode (b.drop k) = some (len, b.drop off) := by
  unfold lengthAndProtected at h
  cases hv : Rfc.VarInt.parse (b.drop k) with
  | none => rw [hv] at h; simp at h
  | some x =>
    obtain ⟨l, r⟩ := x
    rw [hv] at h
    simp only [] at h
    have hv' : Codec.VarInt.decode (b.drop k) = some (l, r) := by rw [varint_eq _ (bytesOk_drop hb k)]; exact hv
    obtain ⟨j, hj1, hj2, hr⟩ := varint_suffix hv'
    rw [List.length_drop] at hj2
    have hr' : r = b.drop (k + j) := by rw [hr, List.drop_drop]
    cases ht : take? l r with
    | none => rw [ht] at h; simp at h
    | some y =>
      obtain ⟨c, nx⟩ := y
      rw [ht] at h
      simp only [Option.some.injEq, Prod.mk.injEq] at h
      obtain ⟨⟨hoff, hlen⟩, hnext⟩ := h
      obtain ⟨hle, _, hnx⟩ := take?_some ht
      have hrl : r.length = b.length - (k + j) := by rw [hr', List.length_drop]
      have hoff' : off = k + j := by rw [← hoff, hrl]; omega
      refine ⟨j, hj1, hoff', ?_, ?_, ?_⟩
      · rw [← hlen]; omega
      · rw [← hnext, hnx, hr', List.drop_drop, hoff', hlen]
      · rw [hv', hoff', ← hr', hlen]

/-- the Initial token field: where the Length field starts -/
theorem token_suffix {b : List Nat} {k tl : Nat} {r4 tok r5 : List Nat} (hb : BytesOk b) (hk : k ≤ b.length)
    (h3 : Rfc.VarInt.parse (b.drop k) = some (tl, r4)) (h4 : take? tl r4 = some (tok, r5)) :
    ∃ k5, k < k5 ∧ k5 ≤ b.length ∧ r5 = b.drop k5 := by
  have h3' : Codec.VarInt.decode (b.drop k) = some (tl, r4) := by rw [varint_eq _ (bytesOk_drop hb k)]; exact h3
  obtain ⟨j, hj1, hj2, hr4⟩ := varint_suffix h3'
  rw [List.length_drop] at hj2
  obtain ⟨hle, _, hr5⟩ := take?_some h4
  rw [hr4, List.length_drop, List.length_drop] at hle
  exact ⟨k + j + tl, by omega, by omega, by rw [hr5, hr4, List.drop_drop, List.drop_drop, Nat.add_assoc]⟩

/-- the protected region of an accepted long-header packet that carries a Length field:
    `lenOff` is where the Length varint starts -/
theorem longOk_length {b : List Nat} {first V : Nat} {d s r3 : List Nat} {k : Nat} {p : Packet} {rest : List Nat}
    (hb : BytesOk b) (hk : k ≤ b.length) (hk7 : 7 ≤ k) (hr3 : r3 = b.drop k)
    (h : LongOk first V b.length d s r3 p rest) :
    (rest = [] ∧ ((∃ tag dd ss sup, p = .versionNegotiation tag dd ss sup) ∨ (∃ tag v dd ss tok it, p = .retry tag v dd ss tok it))) ∨
    (∃ lenOff hl pl, 7 ≤ lenOff ∧ lenOff < hl ∧ hl ≤ pl ∧ pl ≤ b.length ∧ rest = b.drop pl ∧
      Codec.VarInt.decode (b.drop lenOff) = some (pl - hl, b.drop hl) ∧
      ((∃ tok, p = .initial V d s tok hl pl) ∨ p = .zeroRtt V d s hl pl ∨ p = .handshake V d s hl pl)) := by
  cases h with
  | vn => exact Or.inl ⟨rfl, Or.inl ⟨_, _, _, _, rfl⟩⟩
  | retry => exact Or.inl ⟨rfl, Or.inr ⟨_, _, _, _, _, _, rfl⟩⟩
  | initial tl r4 tok r5 off len next hv h12 h3 h4 h5 =>
    right
    rw [hr3] at h3
    obtain ⟨k5, hk5a, hk5b, hr5⟩ := token_suffix hb hk h3 h4
    rw [hr5] at h5
    obtain ⟨j, hj1, hoff, hle, hnext, hdec⟩ := lap_suffix hb hk5b h5
    refine ⟨k5, off, off + len, by omega, by omega, by omega, hle, hnext, ?_, Or.inl ⟨tok, rfl⟩⟩
    rw [Nat.add_sub_cancel_left]; exact hdec
  | zeroRtt off len next hv h13 hd hs h5 =>
    right
    rw [hr3] at h5
    obtain ⟨j, hj1, hoff, hle, hnext, hdec⟩ := lap_suffix hb hk h5
    refine ⟨k, off, off + len, hk7, by omega, by omega, hle, hnext, ?_, Or.inr (Or.inl rfl)⟩
    rw [Nat.add_sub_cancel_left]; exact hdec
  | handshake off len next hv h14 hd hs h5 =>
    right
    rw [hr3] at h5
    obtain ⟨j, hj1, hoff, hle, hnext, hdec⟩ := lap_suffix hb hk h5
    refine ⟨k, off, off + len, hk7, by omega, by omega, hle, hnext, ?_, Or.inr (Or.inr rfl)⟩
    rw [Nat.add_sub_cancel_left]; exact hdec

theorem bytesOk_of_all (b : List Nat) (h : b.all (· < 256) = true) : BytesOk b := by
  intro x hx
  have := List.all_eq_true.mp h x hx
  simpa using this

/-- the shape of an input on which the RFC 8999 invariants parse -/
theorem invariants_some_inv {b : List Nat} {first V : Nat} {d s body : List Nat}
    (h : invariants b = some (first, V, d, s, body)) :
    ∃ v0 v1 v2 v3 r1 r2, b = first :: v0 :: v1 :: v2 :: v3 :: r1 ∧ first / 128 % 2 = 1 ∧
      V = ((v0 * 256 + v1) * 256 + v2) * 256 + v3 ∧ cid? r1 = some (d, r2) ∧ cid? r2 = some (s, body) := by
  match b, h with
  | [], h => simp [invariants] at h
  | f :: t, h =>
    by_cases hform : f / 128 % 2 = 1
    · by_cases ht : t.length < 4
      · simp only [invariants, hform, if_true, u32?_short t ht] at h
        simp at h
      · match t, ht, h with
        | [], ht, _ => exact absurd (by simp) ht
        | [_], ht, _ => exact absurd (by simp) ht
        | [_, _], ht, _ => exact absurd (by simp) ht
        | [_, _, _], ht, _ => exact absurd (by simp) ht
        | v0 :: v1 :: v2 :: v3 :: r1, _, h =>
          rw [invariants_cons5 _ _ _ _ _ _ hform] at h
          cases h1 : cid? r1 with
          | none => rw [h1] at h; simp at h
          | some x1 =>
            obtain ⟨d', r2⟩ := x1
            rw [h1] at h
            simp only [] at h
            cases h2 : cid? r2 with
            | none => rw [h2] at h; simp at h
            | some x2 =>
              obtain ⟨s', r3⟩ := x2
              rw [h2] at h
              simp only [Option.some.injEq, Prod.mk.injEq] at h
              obtain ⟨e1, e2, e3, e4, e5⟩ := h
              subst e1; subst e3; subst e4; subst e5
              exact ⟨v0, v1, v2, v3, r1, r2, rfl, hform, e2.symm, h1, h2⟩
    · simp only [invariants, hform, if_false] at h
      simp at h

/-- `ProtectedInitial::decode` can only fail with `UnexpectedEof` -/
theorem decodeInitial_error_eof {version : Nat} {b : List Nat} {first v0 v1 v2 v3 : Nat} {r1 : List Nat}
    (hb : BytesOk b) (hbdef : b = first :: v0 :: v1 :: v2 :: v3 :: r1) {e : Err}
    (h : decodeInitial version b = .error e) : e = .eof := by
  rw [decodeInitial_eq version first v0 v1 v2 v3 r1 hb hbdef] at h
  cases h1 : cid? r1 with
  | none => rw [h1] at h; simp at h; exact h.symm
  | some x1 =>
    obtain ⟨d, r2⟩ := x1
    rw [h1] at h
    simp only [] at h
    cases h2 : cid? r2 with
    | none => rw [h2] at h; simp at h; exact h.symm
    | some x2 =>
      obtain ⟨s, r3⟩ := x2
      rw [h2] at h
      simp only [] at h
      cases h3 : Rfc.VarInt.parse r3 with
      | none => rw [h3] at h; simp at h; exact h.symm
      | some x3 =>
        obtain ⟨tl, r4⟩ := x3
        rw [h3] at h
        simp only [] at h
        cases h4 : take? tl r4 with
        | none => rw [h4] at h; simp at h; exact h.symm
        | some x4 =>
          obtain ⟨tok, r5⟩ := x4
          rw [h4] at h
          simp only [] at h
          cases h5 : lengthAndProtected b.length r5 with
          | none => rw [h5] at h; simp at h; exact h.symm
          | some x5 =>
            obtain ⟨⟨off, len⟩, next⟩ := x5
            rw [h5] at h
            simp at h

/-! ### encoder side -/

open Quic.Codec.VarInt in
/-- `VarInt::encode_updated`: the replacement value in the placeholder's width -/
theorem encodeUpdated_eq (mx v : Nat) (hv : v ≤ mx) (hm : mx ≤ maxValue) :
    encodeUpdated mx v =
      if mx ≤ 63 then [v]
      else if mx ≤ 16383 then [64 + v / 256, v % 256]
      else if mx ≤ 1073741823 then [128 + v / 2 ^ 24, v / 2 ^ 16 % 256, v / 2 ^ 8 % 256, v % 256]
      else [192 + v / 2 ^ 56, v / 2 ^ 48 % 256, v / 2 ^ 40 % 256, v / 2 ^ 32 % 256,
            v / 2 ^ 24 % 256, v / 2 ^ 16 % 256, v / 2 ^ 8 % 256, v % 256] := by
  unfold encodeUpdated maxValue at *
  rw [Quic.Proofs.C05.lookup_cases]
  repeat' split
  all_goals simp [beBytes]
  all_goals omega

open Quic.Codec.VarInt Quic.Proofs.C05 in
/-- the (possibly non-minimal) Length field decodes back to the value written into it -/
theorem encodeUpdated_roundtrip (mx v : Nat) (rest : List Nat) (hv : v ≤ mx) (hm : mx ≤ maxValue) :
    decode (encodeUpdated mx v ++ rest) = some (v, rest) := by
  rw [encodeUpdated_eq mx v hv hm]
  unfold maxValue at hm
  repeat' split
  · rw [List.cons_append, List.nil_append, decode_tag0 _ _ (by omega)]
    simp; omega
  · simp only [List.cons_append, List.nil_append]
    rw [decode_tag1 _ _ _ (by omega)]
    simp; omega
  · simp only [List.cons_append, List.nil_append]
    rw [decode_tag2 _ _ _ _ _ (by omega)]
    simp; omega
  · simp only [List.cons_append, List.nil_append]
    rw [decode_tag3 _ _ _ _ _ _ _ _ _ (by omega)]
    simp; omega

theorem checkedRangeU8_append (c r : List Nat) : checkedRangeU8 (c.length :: (c ++ r)) = .ok (c, r) := by
  simp [checkedRangeU8, skipIntoRange]

theorem checkedRangeVar_append (c r : List Nat) (hc : c.length ≤ Codec.VarInt.maxValue) :
    checkedRangeVar (Codec.VarInt.encode c.length ++ (c ++ r)) = .ok (c, r) := by
  unfold checkedRangeVar
  rw [Quic.Proofs.C05.varint_roundtrip _ _ hc]
  simp [skipIntoRange]

theorem be32_eq (v : Nat) : be32 v = [v / 16777216 % 256, v / 65536 % 256, v / 256 % 256, v % 256] := by
  simp [be32, beBytes]

theorem be32_val (v : Nat) (hv : v < 4294967296) :
    ((v / 16777216 % 256 * 256 + v / 65536 % 256) * 256 + v / 256 % 256) * 256 + v % 256 = v := by omega

/-- `finish_long` when the Length field announces exactly the bytes that follow it -/
theorem finishLong_exact (b lenField body : List Nat)
    (h : Codec.VarInt.decode (lenField ++ body) = some (body.length, body)) :
    finishLong b (lenField ++ body) = .ok ((b.length - body.length, b.length), []) := by
  unfold finishLong
  rw [h]
  simp only [Nat.lt_irrefl, if_false, List.drop_length, List.length_nil, Nat.sub_zero]
  rw [if_neg (by omega)]

/-! ### the canonical byte layout and what the decoders do on it -/

open Quic.Codec

/-- the canonical long-header byte layout -/
def longLayout (first v : Nat) (d s tail : List Nat) : List Nat :=
  first :: (v / 16777216 % 256) :: (v / 65536 % 256) :: (v / 256 % 256) :: (v % 256) ::
    (d.length :: (d ++ (s.length :: (s ++ tail))))

theorem decodeInitial_layout (ver first v : Nat) (d s tok lenField body : List Nat)
    (htok : tok.length ≤ Codec.VarInt.maxValue)
    (h : Codec.VarInt.decode (lenField ++ body) = some (body.length, body)) :
    decodeInitial ver (longLayout first v d s (Codec.VarInt.encode tok.length ++ (tok ++ (lenField ++ body)))) =
      .ok (.initial ver d s tok
        ((longLayout first v d s (Codec.VarInt.encode tok.length ++ (tok ++ (lenField ++ body)))).length - body.length)
        (longLayout first v d s (Codec.VarInt.encode tok.length ++ (tok ++ (lenField ++ body)))).length, []) := by
  unfold decodeInitial
  rw [show newLong (longLayout first v d s (Codec.VarInt.encode tok.length ++ (tok ++ (lenField ++ body)))) =
    .ok (d.length :: (d ++ (s.length :: (s ++ (Codec.VarInt.encode tok.length ++ (tok ++ (lenField ++ body))))))) from
      newLong_cons5 _ _ _ _ _ _]
  simp only []
  rw [checkedRangeU8_append]
  simp only []
  rw [checkedRangeU8_append]
  simp only []
  rw [checkedRangeVar_append _ _ htok]
  simp only []
  rw [finishLong_exact _ _ _ h]

theorem decodeDcid_append (d r : List Nat) (hd : d.length ≤ 20) : decodeDcid (d.length :: (d ++ r)) = .ok (d, r) := by
  unfold decodeDcid
  rw [checkedRangeU8_append]
  simp [validateDcidLen, maxDcidLen, hd]

theorem decodeScid_append (d r : List Nat) (hd : d.length ≤ 20) : decodeScid (d.length :: (d ++ r)) = .ok (d, r) := by
  unfold decodeScid
  rw [checkedRangeU8_append]
  simp [validateScidLen, maxScidLen, hd]

theorem decodeLongPlain_layout (mk : List Nat → List Nat → Nat → Nat → Packet) (first v : Nat)
    (d s lenField body : List Nat) (hd : d.length ≤ 20) (hs : s.length ≤ 20)
    (h : Codec.VarInt.decode (lenField ++ body) = some (body.length, body)) :
    decodeLongPlain mk (longLayout first v d s (lenField ++ body)) =
      .ok (mk d s ((longLayout first v d s (lenField ++ body)).length - body.length)
        (longLayout first v d s (lenField ++ body)).length, []) := by
  unfold decodeLongPlain
  rw [show newLong (longLayout first v d s (lenField ++ body)) =
    .ok (d.length :: (d ++ (s.length :: (s ++ (lenField ++ body))))) from newLong_cons5 _ _ _ _ _ _]
  simp only []
  rw [decodeDcid_append _ _ hd]
  simp only []
  rw [decodeScid_append _ _ hs]
  simp only []
  rw [finishLong_exact _ _ _ h]

theorem decodePacket_layout (n first v : Nat) (d s tail : List Nat) (hf : first < 256)
    (hform : first / 128 % 2 = 1) (hv : v < 4294967296) :
    decodePacket n (longLayout first v d s tail) =
      if v = 0 then decodeVn first (longLayout first v d s tail)
      else if first / 16 ≤ 11 then .error .invalidVn
      else if first / 16 = 12 then decodeInitial v (longLayout first v d s tail)
      else if first / 16 = 13 then decodeZeroRtt v (longLayout first v d s tail)
      else if first / 16 = 14 then decodeHandshake v (longLayout first v d s tail)
      else decodeRetry first v (longLayout first v d s tail) := by
  unfold longLayout
  rw [decodePacket_long n first _ _ _ _ _ hf hform, be32_val v hv]

theorem beBytes_length (n v : Nat) : (beBytes n v).length = n := by
  induction n with
  | zero => rfl
  | succ n ih => simp [beBytes, ih]

theorem encodeTruncated_length (t : PacketNumber.Truncated) :
    (PacketNumber.encodeTruncated t).length = PacketNumber.bytesize t.len := by
  simp [PacketNumber.encodeTruncated, beBytes_length]

theorem truncate_len_le (pn la : Nat) (t : PacketNumber.Truncated) (h : PacketNumber.truncate pn la = some t) :
    t.len ≤ 3 := by
  unfold PacketNumber.truncate at h
  split at h
  · simp at h
  · rename_i len _
    simp only [Option.some.injEq] at h
    rw [← h]
    unfold PacketNumber.truncatePacketNumber
    split <;> simp

theorem enc_tail_inv {α : Type} (pl M est cap : Nat) (x bytes : α)
    (h : (if (if pl < M then 0 else pl) = 0 then (Except.error EncErr.empty : Except EncErr α)
          else if est + (if pl < M then 0 else pl) > cap then .error .space else .ok x) = .ok bytes) :
    0 < pl ∧ est + pl ≤ cap ∧ x = bytes := by
  by_cases h1 : pl < M
  · rw [if_pos h1] at h; simp at h
  · rw [if_neg h1] at h
    by_cases h2 : pl = 0
    · rw [if_pos h2] at h; simp at h
    · rw [if_neg h2] at h
      by_cases h3 : est + pl > cap
      · rw [if_pos h3] at h; simp at h
      · rw [if_neg h3] at h
        simp only [Except.ok.injEq] at h
        exact ⟨by omega, by omega, h⟩

/-- what a successful `encode_packet` produced -/
theorem encodePacket_ok_inv {h : Hdr} {cap pn la : Nat} {payload bytes : List Nat}
    (he : encodePacket h cap 0 0 pn la payload = .ok bytes) :
    ∃ t hdr, PacketNumber.truncate pn la = some t ∧ encodeHeader h t.len = some hdr ∧ 0 < payload.length ∧
      hdr.length + (if h.isLong then VarInt.encodingSize (placeholderValue (cap - hdr.length)) else 0)
        + PacketNumber.bytesize t.len + payload.length ≤ cap ∧
      bytes = hdr ++ ((if h.isLong then
          encodeUpdated (placeholderValue (cap - hdr.length)) (PacketNumber.bytesize t.len + payload.length) else [])
        ++ (PacketNumber.encodeTruncated t ++ payload)) := by
  unfold encodePacket at he
  cases ht : PacketNumber.truncate pn la with
  | none => rw [ht] at he; simp at he
  | some t =>
    rw [ht] at he
    simp only [] at he
    cases hh : encodeHeader h t.len with
    | none => rw [hh] at he; simp at he
    | some hdr =>
      rw [hh] at he
      simp only [] at he
      obtain ⟨hp0, hfit, hb⟩ := enc_tail_inv _ _ _ _ _ _ he
      refine ⟨t, hdr, rfl, hh, hp0, by omega, ?_⟩
      rw [← hb]
      simp only [Nat.add_zero, List.replicate_zero, List.append_nil, List.append_assoc]

theorem encodeUpdated_length (mx v : Nat) : (encodeUpdated mx v).length = VarInt.encodingSize mx := by
  unfold encodeUpdated VarInt.encodingSize
  rw [Quic.Proofs.C05.lookup_cases]
  repeat' split
  all_goals simp [beBytes_length]

theorem drop_suffix_len (pre body : List Nat) : (pre ++ body).drop ((pre ++ body).length - body.length) = body := by
  rw [List.length_append, Nat.add_sub_cancel, List.drop_left]

theorem cid?_append (c r : List Nat) : Rfc.PacketHeader.cid? (c.length :: (c ++ r)) = some (c, r) := by
  simp [Rfc.PacketHeader.cid?, Rfc.PacketHeader.u8?, Rfc.PacketHeader.take?]

theorem or_c0 : ∀ t, t < 256 → (t ||| 192) = 192 + t % 64 := by decide +kernel

end Quic.Proofs.PacketHeader
