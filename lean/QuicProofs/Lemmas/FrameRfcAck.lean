import QuicProofs.Lemmas.FrameRfc
/- ACK frames: the implementation's range iterator against the RFC's (count, first, pairs) layout -/
namespace Quic.Proofs.Frame
open Quic Quic.Codec Quic.Codec.Frame
open Quic.Rfc.Frame (parseFrameWith parseFieldsWith parseFieldWith parsePairsWith layout interp Field Val rangesSem ackSem)

/-- RFC-shaped reading of `n` (Gap, ACK Range Length) pairs below the previous smallest `s` -/
def rfcTail (n s : Nat) (buf : List Nat) : Option (List (Nat × Nat) × List Nat) :=
  match parsePairsWith D n buf with
  | none => none
  | some (ps, r) =>
    match rangesSem s ps with
    | none => none
    | some l => some (l, r)

theorem obind_D_congr {β : Type} (b : List Nat) (k1 k2 : Nat → List Nat → Option β)
    (h : ∀ v r, D b = some (v, r) → k1 v r = k2 v r) : obind (D b) k1 = obind (D b) k2 := by
  cases hd : D b with
  | none => rfl
  | some p => exact h p.1 p.2 (by rw [hd])

theorem rfcTail_zero (s : Nat) (buf : List Nat) : rfcTail 0 s buf = some ([], buf) := by
  simp [rfcTail, parsePairsWith, rangesSem]

theorem rfcTail_succ (n s : Nat) (buf : List Nat) :
    rfcTail (n + 1) s buf = obind (D buf) fun gap r => obind (D r) fun len r =>
      if s < gap + 2 then none else if s - gap - 2 < len then none else
        match rfcTail n (s - gap - 2 - len) r with
        | none => none
        | some (l, r') => some ((s - gap - 2 - len, s - gap - 2) :: l, r') := by
  unfold rfcTail obind
  simp only [parsePairsWith]
  cases D buf with
  | none => rfl
  | some p =>
    obtain ⟨gap, r⟩ := p
    simp only []
    cases D r with
    | none => rfl
    | some q =>
      obtain ⟨len, r2⟩ := q
      simp only []
      cases parsePairsWith D n r2 with
      | none => simp
      | some w =>
        obtain ⟨ps, r3⟩ := w
        simp only [rangesSem]
        by_cases h1 : s < gap + 2
        · simp [h1]
        · by_cases h2 : s - gap - 2 < len
          · simp [h1, h2]
          · simp only [h1, h2, if_false]
            cases rangesSem (s - gap - 2 - len) ps with
            | none => rfl
            | some l => rfl

/-- the implementation's range iterator reads exactly the RFC's First ACK Range + pairs -/
theorem ackIter_eq_rfc (n : Nat) : ∀ (L : Nat) (buf : List Nat),
    ackIter (n + 1) L buf = obind (D buf) fun len r =>
      if L < len then none else
        match rfcTail n (L - len) r with
        | none => none
        | some (l, r') => some ((L - len, L) :: l, r') := by
  induction n with
  | zero =>
    intro L buf
    rw [ackIter]
    unfold obind D
    cases VarInt.decode buf with
    | none => rfl
    | some p =>
      obtain ⟨len, r⟩ := p
      simp only [rfcTail_zero]
      by_cases h : L < len <;> simp [h]
  | succ n ih =>
    intro L buf
    rw [ackIter]
    unfold obind D
    cases VarInt.decode buf with
    | none => rfl
    | some p =>
      obtain ⟨len, r⟩ := p
      simp only []
      by_cases h : L < len
      · simp [h]
      · simp only [h, if_false, Nat.add_one_ne_zero]
        rw [rfcTail_succ]
        unfold obind D
        cases VarInt.decode r with
        | none => rfl
        | some q =>
          obtain ⟨gap, r2⟩ := q
          simp only []
          by_cases h1 : L - len < gap
          · have : L - len < gap + 2 := by omega
            simp [h1, this]
            cases VarInt.decode r2 with
            | none => rfl
            | some _ => rfl
          · by_cases h2 : L - len - gap < 2
            · have : L - len < gap + 2 := by omega
              simp [h1, h2, this]
              cases VarInt.decode r2 with
              | none => rfl
              | some _ => rfl
            · have : ¬ L - len < gap + 2 := by omega
              simp only [h1, h2, this, if_false]
              rw [ih]
              unfold obind D
              cases VarInt.decode r2 with
              | none => rfl
              | some w =>
                obtain ⟨len', r3⟩ := w
                simp only []
                by_cases h3 : L - len - gap - 2 < len'
                · simp [h3]
                · simp only [h3, if_false]
                  cases rfcTail n (L - len - gap - 2 - len') r3 with
                  | none => rfl
                  | some z => rfl

theorem parsePairs_len (n : Nat) : ∀ (buf : List Nat) {ps : List (Nat × Nat)} {r : List Nat},
    parsePairsWith D n buf = some (ps, r) → r.length + 2 * n ≤ buf.length := by
  induction n with
  | zero => intro buf ps r h; simp [parsePairsWith] at h; obtain ⟨_, rfl⟩ := h; simp
  | succ n ih =>
    intro buf ps r h
    rw [parsePairsWith] at h
    cases h1 : D buf with
    | none => simp [h1] at h
    | some p =>
      obtain ⟨gap, b1⟩ := p
      simp only [h1] at h
      cases h2 : D b1 with
      | none => simp [h2] at h
      | some q =>
        obtain ⟨len, b2⟩ := q
        simp only [h2] at h
        cases h3 : parsePairsWith D n b2 with
        | none => simp [h3] at h
        | some w =>
          obtain ⟨ps', r'⟩ := w
          simp [h3] at h
          obtain ⟨_, rfl⟩ := h
          have l1 := (vdecode_len h1).1
          have l2 := (vdecode_len h2).1
          have l3 := ih b2 h3
          omega

theorem obind_none {α β : Type} (o : Option (α × List Nat)) : obind o (fun _ _ => (none : Option β)) = none := by
  cases o <;> rfl

/-- ranges part, generic in what the decoder does with the ranges afterwards -/
theorem ackRanges_agree {β : Type} (L : Nat) (b : List Nat) (hb : b.length < 2 ^ 62)
    (kC : List (Nat × Nat) → List Nat → Option β) :
    (obind (D b) fun count r =>
        if count + 1 > VarInt.maxValue then none
        else
          match ackIter (count + 1) L r with
          | none => none
          | some (rs, rest) => kC rs rest)
      = obind (D b) fun count r => obind (D r) fun first r =>
          match parsePairsWith D count r with
          | none => none
          | some (ps, r') =>
            if L < first then none
            else
              match rangesSem (L - first) ps with
              | none => none
              | some l => kC ((L - first, L) :: l) r' := by
  apply obind_D_congr; intro count r hd
  have hr := (vdecode_len hd).1
  by_cases hc : count + 1 > VarInt.maxValue
  · simp only [hc, if_true]
    symm
    unfold obind
    cases hf : D r with
    | none => rfl
    | some p =>
      obtain ⟨first, r1⟩ := p
      simp only []
      have hr1 := (vdecode_len hf).1
      cases hp : parsePairsWith D count r1 with
      | none => rfl
      | some q =>
        obtain ⟨ps, r'⟩ := q
        have := parsePairs_len count r1 hp
        simp only [VarInt.maxValue] at hc
        omega
  · simp only [hc, if_false]
    rw [ackIter_eq_rfc]
    unfold obind
    cases hf : D r with
    | none => rfl
    | some p =>
      obtain ⟨first, r1⟩ := p
      simp only []
      unfold rfcTail
      cases hp : parsePairsWith D count r1 with
      | none => by_cases h : L < first <;> simp [h]
      | some q =>
        obtain ⟨ps, r'⟩ := q
        simp only []
        by_cases h : L < first
        · simp [h]
        · simp only [h, if_false]
          cases rangesSem (L - first) ps with
          | none => rfl
          | some l => rfl

theorem decAck_eq (tag : Nat) (b : List Nat) :
    decAck tag b = andThen (decVar b) fun largest r => andThen (decVar r) fun delay r =>
      andThen (decAckRanges largest r) fun ranges r =>
        if tag = 3 then andThen (decEcn r) fun ecn r => .ok (.ack delay ranges (some ecn), r)
        else .ok (.ack delay ranges none, r) := by
  unfold decAck; and_then_eq

theorem decEcn_eq (b : List Nat) :
    decEcn b = andThen (decVar b) fun e0 r => andThen (decVar r) fun e1 r => andThen (decVar r) fun ce r =>
      .ok ((e0, e1, ce), r) := by
  unfold decEcn; and_then_eq

theorem absRes_andThen_decAckRanges (L : Nat) (b : List Nat) (k : List (Nat × Nat) → List Nat → Res Frame) :
    absRes (andThen (decAckRanges L b) k) = obind (D b) fun count r =>
      if count + 1 > VarInt.maxValue then none
      else
        match ackIter (count + 1) L r with
        | none => none
        | some (rs, rest) => absRes (k rs rest) := by
  unfold decAckRanges decVar andThen obind D
  cases VarInt.decode b with
  | none => simp [absRes]
  | some p =>
    obtain ⟨count, r⟩ := p
    simp only []
    by_cases hc : count + 1 > VarInt.maxValue
    · simp [hc, absRes]
    · simp only [hc, if_false]
      cases ackIter (count + 1) L r with
      | none => simp [absRes]
      | some q => rfl

theorem rfcRest_ackRanges (ty : Nat) (acc : List Val) (fs : List Field) (b : List Nat) :
    rfcRest ty acc (.ackRanges :: fs) b = obind (D b) fun count r => obind (D r) fun first r =>
      match parsePairsWith D count r with
      | none => none
      | some (ps, r') => rfcRest ty (acc ++ [.ranges first ps]) fs r' := by
  unfold rfcRest obind
  simp only [parseFieldsWith, parseFieldWith]
  cases D b with
  | none => rfl
  | some p =>
    obtain ⟨count, r⟩ := p
    simp only []
    cases D r with
    | none => rfl
    | some q =>
      obtain ⟨first, r1⟩ := q
      simp only []
      cases parsePairsWith D count r1 with
      | none => rfl
      | some w =>
        obtain ⟨ps, r'⟩ := w
        simp only []
        cases parseFieldsWith D fs r' with
        | none => rfl
        | some z => obtain ⟨vs, rest⟩ := z; simp

theorem agree_tag2 (t : List Nat) (hl : t.length < 2 ^ 62) :
    absRes (decodeFrame (2 :: t)) = parseFrameWith D (2 :: t) := by
  rw [parseFrameWith_small 2 t (by decide)]
  simp only [decodeFrame, decAck_eq, layout]
  simp [absRes_andThen_decVar, rfcRest_int]
  apply obind_D_congr; intro L r1 h1
  apply obind_D_congr; intro delay r2 h2
  have l1 := (vdecode_len h1).1
  have l2 := (vdecode_len h2).1
  rw [absRes_andThen_decAckRanges, rfcRest_ackRanges]
  simp only [absRes_ok, toRfc]
  rw [ackRanges_agree L r2 (by omega)]
  apply obind_congr; intro count r3
  apply obind_congr; intro first r4
  simp [rfcRest_nil, interp, ackSem]
  cases parsePairsWith D count r4 with
  | none => rfl
  | some q =>
    obtain ⟨ps, r'⟩ := q
    simp only []
    by_cases h : L < first
    · simp [h]
    · simp only [h, if_false]
      cases rangesSem (L - first) ps with
      | none => rfl
      | some l => rfl

theorem agree_tag3 (t : List Nat) (hl : t.length < 2 ^ 62) :
    absRes (decodeFrame (3 :: t)) = parseFrameWith D (3 :: t) := by
  rw [parseFrameWith_small 3 t (by decide)]
  simp only [decodeFrame, decAck_eq, layout]
  simp [absRes_andThen_decVar, rfcRest_int]
  apply obind_D_congr; intro L r1 h1
  apply obind_D_congr; intro delay r2 h2
  have l1 := (vdecode_len h1).1
  have l2 := (vdecode_len h2).1
  rw [absRes_andThen_decAckRanges, rfcRest_ackRanges]
  simp only [decEcn_eq, andThen_assoc, andThen_ok, absRes_andThen_decVar, absRes_ok, toRfc]
  rw [ackRanges_agree L r2 (by omega)]
  apply obind_congr; intro count r3
  apply obind_congr; intro first r4
  cases parsePairsWith D count r4 with
  | none => rfl
  | some q =>
    obtain ⟨ps, r'⟩ := q
    simp only [rfcRest_int, rfcRest_nil, List.cons_append, List.nil_append]
    simp [interp, ackSem]
    by_cases h : L < first
    · simp [h, obind_none]
    · simp only [h, if_false]
      cases rangesSem (L - first) ps with
      | none => simp [obind_none]
      | some l => rfl

end Quic.Proofs.Frame
