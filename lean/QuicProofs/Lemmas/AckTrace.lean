import QuicModel.Drivers.AckTrace
import QuicProofs.Lemmas.AckManager
/-
  Helper lemmas for the `ack-trace` acceptor (tie T of C08's ACK half): every model state the acceptor
  tracks (`Acc.branches`) is reachable by model operations whose `processed` arguments are the packet
  numbers of the `rx` ops seen so far — so its `ack_ranges` only hold such packet numbers.
-/
namespace Quic.Proofs.AckTraceLemmas
open Quic.Conn.AckManager Quic.Data.IvSet Quic.Data.IvSpec Quic.Data Quic.Proofs.IvLemmas Quic.Proofs.AckLemmas
open Quic.Proofs Quic.Proofs.AckMgr Quic.Drivers.AckTrace

/-- a tracked state is fine w.r.t. the set `seen` of packet numbers received so far -/
def BrOK (seen : Nat → Prop) (s : State) : Prop :=
  (∃ L, Inv L s.ackRanges) ∧ ∀ x, Mem s.ackRanges.ivs x → seen x

theorem brOK_mono {seen seen' : Nat → Prop} {s : State} (h : ∀ x, seen x → seen' x) (hs : BrOK seen s) : BrOK seen' s :=
  ⟨hs.1, fun x hx => h x (hs.2 x hx)⟩

theorem brOK_of_ranges_eq {seen : Nat → Prop} {s s' : State} (h : s'.ackRanges = s.ackRanges) (hs : BrOK seen s) : BrOK seen s' := by
  unfold BrOK; rw [h]; exact hs

/-- any model operation keeps a tracked state fine; a `processed` adds its packet number -/
theorem brOK_step {seen : Nat → Prop} {s : State} (op : Op) (r : State × Out) (h : step s op = some r) (hs : BrOK seen s) :
    BrOK (fun x => seen x ∨ ∃ p, op = .processed p ∧ p.pn = x) r.1 := by
  obtain ⟨⟨L, hinv⟩, hsound⟩ := hs
  have hrun : run s [op] = some (r.1, [r.2]) := by simp [run, h]
  refine ⟨⟨L, (run_ranges L [op] s _ hinv hrun).2.1⟩, ?_⟩
  intro x hx
  rcases sound_from L s hinv [op] _ hrun x hx with h1 | ⟨p, hp, hpx⟩
  · exact Or.inl (hsound x h1)
  · exact Or.inr ⟨p, (List.mem_singleton.1 hp).symm, hpx⟩

theorem dedup_subset : ∀ (l : List State) (s : State), s ∈ dedup l → s ∈ l := by
  intro l
  induction l with
  | nil => intro s h; simp [dedup] at h
  | cons a rest ih =>
    intro s h
    simp only [dedup] at h
    split at h
    · exact List.mem_cons_of_mem _ (ih s h)
    · rcases List.mem_cons.1 h with rfl | h
      · exact List.mem_cons_self ..
      · exact List.mem_cons_of_mem _ (ih s h)

theorem advance_mem (s : State) (t : Nat) (s' : State) (h : s' ∈ advance s t) : s'.ackRanges = s.ackRanges := by
  unfold advance at h
  split at h
  · simp only [List.mem_singleton] at h; rw [h]
  · split at h
    · split at h
      · simp only [List.mem_singleton] at h; rw [h]; simp
      · simp only [List.mem_cons, List.not_mem_nil, or_false] at h
        rcases h with h | h <;> rw [h]
        simp
    · simp only [List.mem_singleton] at h; rw [h]

theorem brOK_advanceAll {seen : Nat → Prop} (bs : List State) (t : Nat) (h : ∀ s ∈ bs, BrOK seen s) :
    ∀ s ∈ advanceAll bs t, BrOK seen s := by
  intro s hs
  unfold advanceAll at hs
  obtain ⟨s0, hs0, hmem⟩ := List.mem_flatMap.1 hs
  exact brOK_of_ranges_eq (advance_mem s0 t s hmem) (h s0 hs0)

theorem mapOpt_mem (f : State → Option State) : ∀ (l l' : List State), mapOpt f l = some l' →
    ∀ s' ∈ l', ∃ s ∈ l, f s = some s' := by
  intro l
  induction l with
  | nil => intro l' h s' hs'; simp only [mapOpt, Option.some.injEq] at h; subst h; cases hs'
  | cons a rest ih =>
    intro l' h s' hs'
    simp only [mapOpt] at h
    cases hf : f a with
    | none => rw [hf] at h; cases h
    | some a' =>
      cases hr : mapOpt f rest with
      | none => rw [hf, hr] at h; cases h
      | some l2 =>
        rw [hf, hr] at h
        simp only [Option.some.injEq] at h
        subst h
        rcases List.mem_cons.1 hs' with rfl | hs'
        · exact ⟨a, List.mem_cons_self .., hf⟩
        · obtain ⟨s, hs, hfs⟩ := ih l2 hr s' hs'
          exact ⟨s, List.mem_cons_of_mem _ hs, hfs⟩

theorem foldOpt_inv (P : State → Prop) (f : State → Interval → Option State)
    (hf : ∀ s r s', f s r = some s' → P s → P s') : ∀ (rs : List Interval) (s s' : State),
    foldOpt f rs s = some s' → P s → P s' := by
  intro rs
  induction rs with
  | nil => intro s s' h hp; simp only [foldOpt, Option.some.injEq] at h; subst h; exact hp
  | cons r rest ih =>
    intro s s' h hp
    simp only [foldOpt] at h
    cases hfs : f s r with
    | none => rw [hfs] at h; cases h
    | some s1 => rw [hfs] at h; exact ih s1 s' h (hf s r s1 hfs hp)

theorem brOK_complete {seen : Nat → Prop} (s s' : State) (own : Nat) (ae : Bool) (h : complete s own ae = some s')
    (hs : BrOK seen s) : BrOK seen s' := by
  unfold complete at h
  cases hc : onTransmitComplete s .congestionLimited own ae false with
  | none => rw [hc] at h; cases h
  | some r =>
    rw [hc] at h
    simp only [Option.some.injEq] at h
    subst h
    exact brOK_of_ranges_eq (onTransmitComplete_fields _ _ _ _ _ r hc).1 hs

theorem brOK_packetAck {seen : Nat → Prop} (s s' : State) (a : AckSet) (h : onPacketAck s a = some s')
    (hs : BrOK seen s) : BrOK seen s' := by
  have hstep : Quic.Conn.AckManager.step s (.packetAck a) = some (s', .none) := by simp [Quic.Conn.AckManager.step, h]
  refine brOK_mono ?_ (brOK_step (.packetAck a) _ hstep hs)
  rintro x (hx | ⟨p, hp, _⟩)
  · exact hx
  · cases hp

theorem brOK_lostState {seen : Nat → Prop} (pns : List Nat) (s : State) (hs : BrOK seen s) : BrOK seen (lostState pns s) := by
  unfold lostState
  induction pns generalizing s with
  | nil => exact hs
  | cons pn rest ih =>
    simp only [List.foldl_cons]
    exact ih _ (brOK_of_ranges_eq (onPacketLoss_ranges s _) hs)

theorem subsetOf_mem (obs model : List Interval) (h : subsetOf obs model = true) (x : Nat) (hx : Mem obs x) : Mem model x := by
  obtain ⟨r, hr, hrx⟩ := hx
  unfold subsetOf at h
  rw [List.all_eq_true] at h
  have := h r hr
  rw [List.any_eq_true] at this
  obtain ⟨iv, hiv, hc⟩ := this
  simp only [Bool.and_eq_true, decide_eq_true_eq] at hc
  exact ⟨iv, hiv, by unfold inIv at *; omega⟩

theorem ackReject_none (s : State) (obs : List Interval) (m : Mode) (h : ackReject s obs m = none) :
    subsetOf obs s.ackRanges.ivs = true := by
  unfold ackReject at h
  split at h
  · cases h
  · split at h
    · cases h
    · rename_i hsub
      simpa using hsub

/-- the packet numbers received so far -/
def RxIn (ops : List TOp) (x : Nat) : Prop := ∃ t ae ce pc, TOp.rx t x ae ce pc ∈ ops

def seenAfter (seen : Nat → Prop) (op : TOp) (x : Nat) : Prop := seen x ∨ ∃ t ae ce pc, op = TOp.rx t x ae ce pc

/-- whatever the answer, every tracked state stays fine -/
theorem acceptCore_inv {seen : Nat → Prop} (a : Acc) (op : TOp) (h : ∀ s ∈ a.branches, BrOK seen s) :
    ∀ s ∈ (acceptCore a op).1.branches, BrOK (seenAfter seen op) s := by
  have hmono : ∀ s, BrOK seen s → BrOK (seenAfter seen op) s := fun s hs => brOK_mono (fun x hx => Or.inl hx) hs
  cases op with
  | cfg mad limit =>
    simp only [acceptCore, acceptCfg]
    split
    · intro s hs; exact hmono s (h s hs)
    · rename_i hl
      intro s hs
      simp only [List.mem_singleton] at hs
      subst hs
      exact ⟨⟨limit, Inv.new limit (by omega)⟩, fun x hx => absurd hx (mem_nil x)⟩
  | rx t pn ae ce pc =>
    simp only [acceptCore, acceptRx, rxStates]
    intro s hs
    have hs := dedup_subset _ _ hs
    obtain ⟨s0, hs0, rfl⟩ := List.mem_map.1 hs
    have h0 := brOK_advanceAll a.branches t h s0 hs0
    have := brOK_step (seen := seen) (.processed ⟨pn, ae, if ce then .ce else .notEct, pc, t⟩) _ rfl h0
    refine brOK_mono ?_ this
    rintro x (hx | ⟨p, hp, hpx⟩)
    · exact Or.inl hx
    · simp only [Op.processed.injEq] at hp
      subst hp
      exact Or.inr ⟨t, ae, ce, pc, by rw [← hpx]⟩
  | tx t own ae obs m =>
    cases obs with
    | some obs =>
      simp only [acceptCore, acceptTxAck]
      split
      · intro s hs; exact hmono s (h s hs)
      · split
        · intro s hs
          simp only [contAck] at hs
          split at hs
          · exact hmono s (brOK_advanceAll a.branches t h s hs)
          · have hs := dedup_subset _ _ hs
            obtain ⟨s0, hs0, hc⟩ := List.mem_filterMap.1 hs
            exact hmono s (brOK_complete s0 s own ae hc (brOK_advanceAll a.branches t h s0 hs0))
        · split
          · rename_i next hnext
            intro s hs
            have hs := dedup_subset _ _ hs
            obtain ⟨s0, hs0, hc⟩ := mapOpt_mem _ _ _ hnext s hs
            have hs0' : s0 ∈ advanceAll a.branches t := (List.mem_filter.1 hs0).1
            exact hmono s (brOK_complete s0 s own ae hc (brOK_advanceAll a.branches t h s0 hs0'))
          · intro s hs; exact hmono s (h s hs)
    | none =>
      simp only [acceptCore, acceptTxNoAck]
      split
      · intro s hs; exact hmono s (h s hs)
      · split
        · split
          · intro s hs; exact hmono s (h s hs)
          · intro s hs
            exact hmono s (brOK_advanceAll a.branches t h s (dedup_subset _ _ hs))
        · intro s hs
          simp only [goodNoAck] at hs
          exact hmono s (brOK_advanceAll a.branches t h s (dedup_subset _ _ (List.mem_filter.1 hs).1))
  | acked rs tm =>
    simp only [acceptCore, acceptAcked]
    split
    · rename_i next hnext
      intro s hs
      have hs := dedup_subset _ _ hs
      obtain ⟨s0, hs0, hc⟩ := mapOpt_mem _ _ _ hnext s hs
      unfold ackedState at hc
      exact hmono s (foldOpt_inv (BrOK seen) _ (fun s r s' hf hp => brOK_packetAck s s' [r] hf hp) rs s0 s hc (h s0 hs0))
    · intro s hs; exact hmono s (h s hs)
  | lost pns tm =>
    simp only [acceptCore, acceptLost]
    intro s hs
    have hs := dedup_subset _ _ hs
    obtain ⟨s0, hs0, rfl⟩ := List.mem_map.1 hs
    exact hmono _ (brOK_lostState pns s0 (h s0 hs0))

theorem accept_branches (a : Acc) (op : TOp) : (accept a op).1.branches = (acceptCore a op).1.branches := rfl

theorem accept_isOk (a : Acc) (op : TOp) : (accept a op).2.isOk = (acceptCore a op).2.isOk := by
  simp only [accept]
  cases (acceptCore a op).2 <;> rfl

theorem accept_inv {seen : Nat → Prop} (a : Acc) (op : TOp) (h : ∀ s ∈ a.branches, BrOK seen s) :
    ∀ s ∈ (accept a op).1.branches, BrOK (seenAfter seen op) s := by
  rw [accept_branches]; exact acceptCore_inv a op h

/-- an ACCEPTED transmission only acknowledges packet numbers some tracked state holds -/
theorem accept_tx_ok {seen : Nat → Prop} (a : Acc) (t own : Nat) (ae : Bool) (obs : List Interval) (m : Mode)
    (h : ∀ s ∈ a.branches, BrOK seen s) (hok : (accept a (.tx t own ae (some obs) m)).2.isOk = true) :
    ∀ x, Mem obs x → seen x := by
  rw [accept_isOk] at hok
  simp only [acceptCore, acceptTxAck] at hok
  split at hok
  · cases hok
  · split at hok
    · cases hok
    · rename_i hne
      cases hg : goodAck a.branches t obs m with
      | nil => rw [hg] at hne; exact absurd rfl hne
      | cons s0 rest =>
        have hs0 : s0 ∈ goodAck a.branches t obs m := by rw [hg]; exact List.mem_cons_self ..
        unfold goodAck at hs0
        obtain ⟨hmem, hrej⟩ := List.mem_filter.1 hs0
        have hsub := ackReject_none s0 obs m (by simpa using hrej)
        intro x hx
        exact (brOK_advanceAll a.branches t h s0 hmem).2 x (subsetOf_mem _ _ hsub x hx)

def accRun (a : Acc) : List TOp → Acc
  | [] => a
  | op :: rest => accRun (accept a op).1 rest

theorem accRun_inv (ops : List TOp) (a : Acc) (seen : Nat → Prop) (h : ∀ s ∈ a.branches, BrOK seen s) :
    ∀ s ∈ (accRun a ops).branches, BrOK (fun x => seen x ∨ RxIn ops x) s := by
  induction ops generalizing a seen with
  | nil => intro s hs; exact brOK_mono (fun x hx => Or.inl hx) (h s hs)
  | cons op rest ih =>
    intro s hs
    simp only [accRun] at hs
    refine brOK_mono ?_ (ih (accept a op).1 (seenAfter seen op) (accept_inv a op h) s hs)
    rintro x ((hx | ⟨t, ae, ce, pc, hop⟩) | ⟨t, ae, ce, pc, hin⟩)
    · exact Or.inl hx
    · exact Or.inr ⟨t, ae, ce, pc, by rw [hop]; exact List.mem_cons_self ..⟩
    · exact Or.inr ⟨t, ae, ce, pc, List.mem_cons_of_mem _ hin⟩

theorem acceptAll_mem (pre : List TOp) (op : TOp) (post : List TOp) (a : Acc) :
    (accept (accRun a pre) op).2 ∈ acceptAll a (pre ++ op :: post) := by
  induction pre generalizing a with
  | nil => simp [accRun, acceptAll]
  | cons p rest ih =>
    simp only [List.cons_append, acceptAll, accRun]
    exact List.mem_cons_of_mem _ (ih _)

end Quic.Proofs.AckTraceLemmas
