import QuicModel.Compose.PacketLayout
import QuicProofs.Lemmas.PacketNumber
/-
  Helper lemmas for the coverage statement of C06 (`every_byte_authenticated`): the receiver's map
  wire bytes ↦ (AAD, ciphertext‖tag) of `QuicModel/Compose/PacketLayout.lean` is injective.
-/
namespace Quic.Proofs.Lemmas.PacketLayout
open Quic.Compose.PacketLayout

/-! ### XOR facts -/

theorem xor_cancel_right {a b k : Nat} (h : a ^^^ k = b ^^^ k) : a = b := by
  have := congrArg (· ^^^ k) h
  simpa [Nat.xor_assoc] using this

/-- XOR with a value below 32 does not touch bit 7 -/
theorem and_128_xor_small (a k : Nat) (hk : k < 32) : (a ^^^ k) &&& 128 = a &&& 128 := by
  apply Nat.eq_of_testBit_eq
  intro i
  simp only [Nat.testBit_and, Nat.testBit_xor]
  by_cases hi : i = 7
  · subst hi
    have : k.testBit 7 = false := Nat.testBit_lt_two_pow (by omega)
    simp [this]
  · have : (128 : Nat).testBit i = false := by
      have h128 : (128 : Nat) = 2 ^ 7 := rfl
      rw [h128, Nat.testBit_two_pow]
      simp; omega
    simp [this]

theorem hpMask_lt (m b0 : Nat) : m &&& hpMaskOf b0 < 32 := by
  unfold hpMaskOf longHeaderMask shortHeaderMask
  split
  · exact Nat.lt_of_le_of_lt Nat.and_le_right (by decide)
  · exact Nat.lt_of_le_of_lt Nat.and_le_right (by decide)

/-- unmasking the first byte is injective (the header-form bit that selects the mask is clear) -/
theorem first_byte_inj (m a b : Nat) (h : a ^^^ (m &&& hpMaskOf a) = b ^^^ (m &&& hpMaskOf b)) : a = b := by
  have ha := and_128_xor_small a _ (hpMask_lt m a)
  have hb := and_128_xor_small b _ (hpMask_lt m b)
  have hab : a &&& 128 = b &&& 128 := by rw [← ha, ← hb, h]
  have hm : hpMaskOf a = hpMaskOf b := by unfold hpMaskOf longHeaderTag; rw [hab]
  rw [hm] at h
  exact xor_cancel_right h

theorem xorMask_length (bs ms : List Nat) : (xorMask bs ms).length = bs.length := by
  induction bs generalizing ms with
  | nil => cases ms <;> rfl
  | cons b bs ih =>
    cases ms with
    | nil => rfl
    | cons m ms => simp [xorMask, ih]

theorem xorMask_inj (ms as bs : List Nat) (hl : as.length = bs.length)
    (h : xorMask as ms = xorMask bs ms) : as = bs := by
  induction as generalizing bs ms with
  | nil => cases bs with
    | nil => rfl
    | cons b bs => simp at hl
  | cons a as ih =>
    cases bs with
    | nil => simp at hl
    | cons b bs =>
      cases ms with
      | nil => simpa [xorMask] using h
      | cons m ms =>
        simp only [xorMask, List.cons.injEq] at h
        simp only [List.length_cons, Nat.add_right_cancel_iff] at hl
        rw [xor_cancel_right h.1, ih ms bs hl h.2]

/-! ### the split is injective -/

/-- a list is its first byte, the rest of the header, the pn bytes and what follows -/
theorem split4 (p : List Nat) (b0 : Nat) (t : List Nat) (hp : p = b0 :: t) (h n : Nat) (h1 : 1 ≤ h) :
    p = b0 :: ((p.drop 1).take (h - 1) ++ ((p.drop h).take n ++ p.drop (h + n))) := by
  subst hp
  simp only [List.drop_succ_cons, List.drop_zero]
  congr 1
  obtain ⟨k, rfl⟩ : ∃ k, h = k + 1 := ⟨h - 1, by omega⟩
  simp only [Nat.add_sub_cancel, List.drop_succ_cons]
  have e1 : k + 1 + n = (k + n) + 1 := by omega
  rw [e1, List.drop_succ_cons]
  rw [← List.drop_drop]
  rw [List.take_append_drop, List.take_append_drop]

/-- the unmasked first byte -/
def firstOf (mask : List Nat) (a : Nat) : Nat := a ^^^ (mask.getD 0 0 &&& hpMaskOf a)
/-- the packet-number length read from it -/
def pnLenOf (mask : List Nat) (a : Nat) : Nat := (firstOf mask a &&& 3) + 1

theorem pnLenOf_le (mask : List Nat) (a : Nat) : 1 ≤ pnLenOf mask a ∧ pnLenOf mask a ≤ 4 := by
  unfold pnLenOf
  have : firstOf mask a &&& 3 ≤ 3 := Nat.and_le_right
  omega

/-- what a successful `unprotect` returns -/
theorem unprotect_some (mask : List Nat) (hp : Nat) (p : List Nat) (x : List Nat × List Nat)
    (h : unprotect mask hp p = some x) :
    ∃ a ta, p = a :: ta ∧ hp + pnLenOf mask a ≤ p.length ∧
      x.1 = firstOf mask a :: ((p.drop 1).take (hp - 1) ++
              xorMask ((p.drop hp).take (pnLenOf mask a)) ((mask.drop 1).take 4)) ∧
      x.2 = p.drop (hp + pnLenOf mask a) := by
  unfold unprotect at h
  cases p with
  | nil => cases h
  | cons a ta =>
    simp only [] at h
    split at h
    · cases h
    · rename_i hl
      have hx := Option.some.inj h
      refine ⟨a, ta, rfl, ?_, ?_, ?_⟩
      · unfold pnLenOf firstOf; omega
      · rw [← hx]; rfl
      · rw [← hx]; rfl

/-- two datagrams with the same AEAD input (masks may differ) have the same header length, the
    same pn length, the same total length and the same ciphertext‖tag -/
theorem unprotect_shape (m1 m2 : List Nat) (hp hq : Nat) (p q : List Nat) (x : List Nat × List Nat)
    (h1 : 1 ≤ hp) (h2 : 1 ≤ hq)
    (ep : unprotect m1 hp p = some x) (eq : unprotect m2 hq q = some x) :
    ∃ a ta b tb, p = a :: ta ∧ q = b :: tb ∧ hp = hq ∧ p.length = q.length ∧
      firstOf m1 a = firstOf m2 b ∧ pnLenOf m1 a = pnLenOf m2 b ∧
      hp + pnLenOf m1 a ≤ p.length ∧
      p.drop (hp + pnLenOf m1 a) = q.drop (hp + pnLenOf m1 a) := by
  obtain ⟨a, ta, rfl, hlp, hx1, hx2⟩ := unprotect_some m1 hp _ x ep
  obtain ⟨b, tb, rfl, hlq, hy1, hy2⟩ := unprotect_some m2 hq _ x eq
  have hhead : firstOf m1 a = firstOf m2 b := by
    have := hx1.symm.trans hy1
    exact (List.cons.inj this).1
  have hn : pnLenOf m1 a = pnLenOf m2 b := by unfold pnLenOf; rw [hhead]
  have hl1 := congrArg List.length hx1
  have hl2 := congrArg List.length hy1
  simp only [List.length_cons, List.length_append, List.length_take, List.length_drop, xorMask_length] at hl1 hl2 hlp hlq
  have hpq : hp = hq := by omega
  subst hpq
  have hc : (a :: ta).drop (hp + pnLenOf m1 a) = (b :: tb).drop (hp + pnLenOf m1 a) := by
    rw [← hx2, hy2, hn]
  have hlen := congrArg List.length hc
  simp only [List.length_drop, List.length_cons] at hlen
  refine ⟨a, ta, b, tb, rfl, rfl, rfl, ?_, hhead, hn, ?_, hc⟩
  · simp only [List.length_cons]; omega
  · simp only [List.length_cons]; omega

theorem unprotect_injective (mask : List Nat) (hp hq : Nat) (p q : List Nat) (x : List Nat × List Nat)
    (h1 : 1 ≤ hp) (h2 : 1 ≤ hq)
    (ep : unprotect mask hp p = some x) (eq : unprotect mask hq q = some x) : p = q := by
  obtain ⟨a, ta, b, tb, rfl, rfl, rfl, hlen, hhead, hn, hle, hc⟩ := unprotect_shape mask mask hp hq p q x h1 h2 ep eq
  obtain ⟨a1, ta1, e1, _, hx1, _⟩ := unprotect_some mask hp _ x ep
  obtain ⟨b1, tb1, e2, _, hy1, _⟩ := unprotect_some mask hp _ x eq
  cases e1; cases e2
  have hab : a = b := first_byte_inj (mask.getD 0 0) a b hhead
  subst hab
  have htail := (List.cons.inj (hx1.symm.trans hy1)).2
  simp only [List.length_cons] at hlen hle
  have hsplit := List.append_inj htail (by
    simp only [List.length_take, List.length_drop, List.length_cons]; omega)
  have hpn := xorMask_inj _ _ _ (by
    simp only [List.length_take, List.length_drop, List.length_cons]; omega) hsplit.2
  rw [split4 (a :: ta) a ta rfl hp (pnLenOf mask a) h1, split4 (a :: tb) a tb rfl hp (pnLenOf mask a) h1,
    hsplit.1, hpn, hc]

theorem sample_eq_of_tail (hp n : Nat) (p q : List Nat) (hn : n ≤ 4)
    (hl : p.length = q.length) (h : p.drop (hp + n) = q.drop (hp + n)) : sample hp p = sample hp q := by
  unfold sample maxPnLen
  rw [hl]
  have e : ∀ l : List Nat, l.drop (hp + 4) = (l.drop (hp + n)).drop (4 - n) := by
    intro l; rw [List.drop_drop]; congr 1; omega
  rw [e p, e q, h]

/-- wire bytes ↦ (AAD, ciphertext‖tag) is injective, whatever the header-protection cipher -/
theorem aeadInput_injective (maskOf : List Nat → List Nat) (hp hq : Nat) (p q : List Nat)
    (x : List Nat × List Nat) (h1 : 1 ≤ hp) (h2 : 1 ≤ hq)
    (ep : aeadInput maskOf hp p = some x) (eq : aeadInput maskOf hq q = some x) : p = q := by
  unfold aeadInput at ep eq
  cases hsp : sample hp p with
  | none => rw [hsp] at ep; cases ep
  | some sp =>
    cases hsq : sample hq q with
    | none => rw [hsq] at eq; cases eq
    | some sq =>
      rw [hsp] at ep; rw [hsq] at eq
      simp only [] at ep eq
      obtain ⟨a, ta, b, tb, hpe, hqe, hpq, hlen, _, _, _, hc⟩ :=
        unprotect_shape (maskOf sp) (maskOf sq) hp hq p q x h1 h2 ep eq
      subst hpq
      have hs := sample_eq_of_tail hp (pnLenOf (maskOf sp) a) p q (pnLenOf_le _ _).2 hlen hc
      rw [hsp, hsq] at hs
      have key : sp = sq := Option.some.inj hs
      subst key
      exact unprotect_injective (maskOf sp) hp hp p q x h1 h2 ep eq

/-! ### the nonce depends on the packet number -/

theorem nonce_injective (iv : List Nat) (pn1 pn2 : Nat) (h1 : pn1 < 2 ^ 64) (h2 : pn2 < 2 ^ 64)
    (h : nonce iv pn1 = nonce iv pn2) : pn1 = pn2 := by
  unfold nonce at h
  have hl : (Quic.beBytes 4 0 ++ Quic.beBytes 8 pn1).length = (Quic.beBytes 4 0 ++ Quic.beBytes 8 pn2).length := by
    simp [Quic.Proofs.PacketNumber.beBytes_length]
  have h' := xorMask_inj iv _ _ hl h
  have h8 : Quic.beBytes 8 pn1 = Quic.beBytes 8 pn2 := List.append_cancel_left h'
  have hv := congrArg Quic.beVal h8
  rw [Quic.Proofs.PacketNumber.beVal_beBytes, Quic.Proofs.PacketNumber.beVal_beBytes] at hv
  have e : (256 : Nat) ^ 8 = 2 ^ 64 := by decide
  rw [e, Nat.mod_eq_of_lt h1, Nat.mod_eq_of_lt h2] at hv
  exact hv

/-! ### the region list has no gaps -/

theorem regionAt_covers (l : List Region) (i : Nat) (hi : i < total l) :
    ∃ r off, regionAt l i = some (r, off) ∧ off < r.len := by
  induction l generalizing i with
  | nil => simp [total] at hi
  | cons r rs ih =>
    unfold regionAt
    by_cases h : i < r.len
    · exact ⟨r, i, by simp [h], h⟩
    · simp only [h, if_false]
      apply ih
      simp only [total, List.map_cons, List.sum_cons] at hi ⊢
      omega

end Quic.Proofs.Lemmas.PacketLayout
