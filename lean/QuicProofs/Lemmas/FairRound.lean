import QuicModel.Compose.FairRound
/-
  Lemmas for `progress_fair_round` (Props/C02Timers.lean).
-/
namespace Quic.Proofs.Lemmas.FairRound
open Quic.Sync Quic.Compose.FairRound

theorem syncFire_props (y : IncrementalValueSync.State) :
    syncInFlight (syncFire y) = false ∧ syncPending (syncFire y) = syncPending y := by
  obtain ⟨latest, ackd, thr, d⟩ := y
  cases d <;> simp [syncFire, syncInFlight, syncPending, IncrementalValueSync.onPacketLoss]

theorem syncRound_props (pn : Nat) (y : IncrementalValueSync.State) (h : syncInFlight y = false) :
    syncPending (syncAck pn (syncTx pn y)) = false := by
  obtain ⟨latest, ackd, thr, d⟩ := y
  cases d <;> simp_all [syncAck, syncTx, syncInFlight, syncPending, IncrementalValueSync.onPacketAck,
    IncrementalValueSync.onTransmit, IncrementalValueSync.Delivery.tryTransmit, IncrementalValueSync.Constraint.canTransmit,
    IncrementalValueSync.Constraint.canRetransmit]

theorem pending_map_congr (l : List IncrementalValueSync.State) (f : IncrementalValueSync.State → IncrementalValueSync.State)
    (h : ∀ y, syncPending (f y) = syncPending y) : pendingSyncs (l.map f) = pendingSyncs l := by
  induction l with
  | nil => rfl
  | cons y l ih =>
    simp only [pendingSyncs, List.map_cons, List.filter_cons, h y] at ih ⊢
    split <;> simp [ih]

theorem pending_zero (l : List IncrementalValueSync.State) (h : ∀ y ∈ l, syncPending y = false) : pendingSyncs l = 0 := by
  induction l with
  | nil => rfl
  | cons y l ih =>
    simp only [pendingSyncs, List.filter_cons, h y List.mem_cons_self] at ih ⊢
    simpa using ih (fun z hz => h z (List.mem_cons_of_mem _ hz))

/-- nothing ack-eliciting in flight -/
structure Quiesced (s : Sys) : Prop where
  bytes : s.inFlight = 0
  fin : ∀ pn, s.fin ≠ .inFlight pn
  syncs : ∀ y ∈ s.syncs, syncInFlight y = false

theorem not_anyInFlight (s : Sys) (h : anyInFlight s = false) : Quiesced s := by
  simp only [anyInFlight, Bool.or_eq_false_iff, decide_eq_false_iff_not, Nat.not_lt, Nat.le_zero_eq] at h
  refine ⟨h.1.1, ?_, ?_⟩
  · intro pn hp; have := h.1.2; simp [hp] at this
  · intro y hy
    have := h.2
    cases hs : syncInFlight y with
    | false => rfl
    | true =>
      have : s.syncs.any syncInFlight = true := List.any_eq_true.mpr ⟨y, hy, hs⟩
      simp_all

theorem quiesced_not_any (s : Sys) (h : Quiesced s) : anyInFlight s = false := by
  simp only [anyInFlight, Bool.or_eq_false_iff, decide_eq_false_iff_not, Nat.not_lt, Nat.le_zero_eq]
  refine ⟨⟨h.bytes, ?_⟩, ?_⟩
  · cases hf : s.fin with
    | inFlight pn => exact absurd hf (h.fin pn)
    | _ => rfl
  · cases ha : s.syncs.any syncInFlight with
    | false => rfl
    | true =>
      obtain ⟨y, hy, hs⟩ := List.any_eq_true.mp ha
      rw [h.syncs y hy] at hs; cases hs

theorem fire_props (s : Sys) (h : WF s) :
    Quiesced (fire s) ∧ (fire s).toSend = s.toSend + s.inFlight ∧ finCost (fire s).fin = finCost s.fin ∧
    pendingSyncs (fire s).syncs = pendingSyncs s.syncs ∧ (fire s).window = s.window ∧ (fire s).nextPn = s.nextPn := by
  unfold fire
  cases ht : s.timerArmed with
  | true =>
    rw [if_pos rfl]
    refine ⟨⟨rfl, ?_, ?_⟩, rfl, ?_, ?_, rfl, rfl⟩
    · intro pn; cases s.fin <;> simp
    · intro y hy
      simp only [List.mem_map] at hy
      obtain ⟨z, _, rfl⟩ := hy
      exact (syncFire_props z).1
    · cases s.fin <;> rfl
    · exact pending_map_congr _ _ (fun y => (syncFire_props y).2)
  | false =>
    rw [if_neg (by simp)]
    have hq : Quiesced s := by
      apply not_anyInFlight
      cases ha : anyInFlight s with
      | false => rfl
      | true => have := h.armed ha; rw [ht] at this; cases this
    exact ⟨hq, by rw [hq.bytes]; rfl, rfl, rfl, rfl, rfl⟩

/-- transmit + deliver from a quiesced state -/
theorem txDeliver_props (s : Sys) (hq : Quiesced s) :
    let r := deliver (transmit s)
    Quiesced r ∧ r.toSend = s.toSend - min s.toSend s.window ∧ r.inFlight = 0 ∧ pendingSyncs r.syncs = 0 ∧
    finCost r.fin = (if s.fin = .pending ∧ s.toSend - min s.toSend s.window ≠ 0 then 1 else 0) ∧
    r.window = s.window ∧ r.nextPn = s.nextPn + 1 ∧ r.timerArmed = false := by
  have hsync : ∀ y ∈ (deliver (transmit s)).syncs, syncPending y = false := by
    intro y hy
    simp only [deliver, transmit, List.map_map, List.mem_map, Function.comp] at hy
    obtain ⟨z, hz, rfl⟩ := hy
    exact syncRound_props _ z (hq.syncs z hz)
  have hb : (deliver (transmit s)).inFlight = 0 := by
    simp only [deliver, transmit, hq.bytes]; omega
  have hfin : finCost (deliver (transmit s)).fin = (if s.fin = .pending ∧ s.toSend - min s.toSend s.window ≠ 0 then 1 else 0) ∧
      ∀ pn, (deliver (transmit s)).fin ≠ .inFlight pn := by
    simp only [deliver, transmit]
    cases hf : s.fin with
    | inFlight pn => exact absurd hf (hq.fin pn)
    | none => simp [finCost]
    | acked => simp [finCost]
    | pending =>
      by_cases hz : s.toSend - min s.toSend s.window = 0
      · simp [hz, finCost]
      · simp [hz, finCost]
  have hq' : Quiesced (deliver (transmit s)) := by
    refine ⟨hb, hfin.2, ?_⟩
    intro y hy
    have := hsync y hy
    cases hd : y.delivery <;> simp_all [syncPending, syncInFlight]
  refine ⟨hq', ?_, hb, pending_zero _ hsync, hfin.1, ?_, ?_, ?_⟩
  · simp [deliver, transmit]
  · simp [deliver, transmit]
  · simp [deliver, transmit]
  · have hx := quiesced_not_any _ hq'
    unfold deliver at hx ⊢
    exact hx

theorem round_props (s : Sys) (h : WF s) :
    WF (round s) ∧ (cost (round s) < cost s ∨ (cost s = 0 ∧ cost (round s) = 0)) := by
  obtain ⟨hq, hts, hfc, hps, hw, hn⟩ := fire_props s h
  have ht := txDeliver_props (fire s) hq
  simp only at ht
  obtain ⟨hq', h1, h2, h3, h4, h5, h6, h7⟩ := ht
  have hwin := h.window
  constructor
  · refine ⟨?_, ?_, ?_, ?_⟩
    · intro ha; rw [show round s = deliver (transmit (fire s)) from rfl, quiesced_not_any _ hq'] at ha; cases ha
    · intro pn hp; exact absurd hp (hq'.fin pn)
    · intro y hy v pn hd
      have := hq'.syncs y hy
      simp [syncInFlight, hd] at this
    · show 1 ≤ (deliver (transmit (fire s))).window
      rw [h5, hw]; exact hwin
  · show cost (deliver (transmit (fire s))) < cost s ∨ _
    simp only [cost, show round s = deliver (transmit (fire s)) from rfl, h1, h2, h3, h4, hts, hw]
    rw [← hfc, ← hps]
    have hc : finCost (fire s).fin ≤ 1 := by cases (fire s).fin <;> simp [finCost]
    by_cases hp : (fire s).fin = .pending
    · have hc1 : finCost (fire s).fin = 1 := by rw [hp]; rfl
      rw [hc1]
      simp only [hp, true_and]
      split <;> omega
    · simp only [hp, false_and, if_false]
      omega

theorem rounds_complete (n : Nat) (s : Sys) (h : WF s) (hm : cost s ≤ n) : cost (rounds n s) = 0 ∧ WF (rounds n s) := by
  induction n generalizing s with
  | zero => exact ⟨by simp only [rounds]; omega, h⟩
  | succ n ih =>
    simp only [rounds]
    have := round_props s h
    apply ih _ this.1
    rcases this.2 with h1 | h1 <;> omega

end Quic.Proofs.Lemmas.FairRound
