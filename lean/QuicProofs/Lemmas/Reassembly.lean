import QuicModel.Data.RefBufSpec
import QuicProofs.Lemmas.RefBuf
/-
  Helper lemmas for C01 (receiver side): histories made of arriving frames and application
  reads only, with every frame cut from one sender byte string `w`.
-/
namespace Quic.Proofs.ReassemblyLemmas
open Quic.Data.RefBuf Quic.Proofs.RefBufLemmas

/-- frames and reads never skip or reset -/
theorem skips_foldl_evs (t : Trace) (evs : List Ev) (h : t.skips = []) :
    ((evs.map Ev.toOp).foldl Trace.step t).skips = [] := by
  induction evs generalizing t with
  | nil => exact h
  | cons ev evs ih =>
    simp only [List.map_cons, List.foldl_cons]
    apply ih
    cases ev with
    | frame f =>
      simp only [Ev.toOp, Trace.step]
      cases write t.buf f.off f.data f.fin <;> exact h
    | pop w => exact h

theorem skips_evs (evs : List Ev) : (trace (evs.map Ev.toOp)).skips = [] :=
  skips_foldl_evs Trace.init evs rfl

/-- every accepted write is one of the frames that arrived -/
theorem accepted_foldl_evs (t : Trace) (evs : List Ev) :
    ∀ f ∈ ((evs.map Ev.toOp).foldl Trace.step t).accepted, f ∈ t.accepted ∨ Ev.frame f ∈ evs := by
  induction evs generalizing t with
  | nil => intro f hf; exact Or.inl hf
  | cons ev evs ih =>
    intro f hf
    simp only [List.map_cons, List.foldl_cons] at hf
    rcases ih _ f hf with h | h
    · cases ev with
      | frame g =>
        simp only [Ev.toOp, Trace.step] at h
        cases hw : write t.buf g.off g.data g.fin with
        | ok b =>
          rw [hw] at h
          simp only [List.mem_append, List.mem_singleton] at h
          rcases h with h | h
          · exact Or.inl h
          · right
            have : f = g := by rw [h]
            rw [this]; exact List.mem_cons_self
        | error e =>
          rw [hw] at h
          exact Or.inl h
      | pop w => exact Or.inl h
    · exact Or.inr (List.mem_cons_of_mem _ h)

theorem accepted_evs (evs : List Ev) :
    ∀ f ∈ (trace (evs.map Ev.toOp)).accepted, Ev.frame f ∈ evs := by
  intro f hf
  rcases accepted_foldl_evs Trace.init evs f hf with h | h
  · simp [Trace.init] at h
  · exact h

theorem accepted_consistent {w : List Nat} {evs : List Ev}
    (h : ∀ f, Ev.frame f ∈ evs → Consistent w f) :
    ∀ f ∈ (trace (evs.map Ev.toOp)).accepted, Consistent w f :=
  fun f hf => h f (accepted_evs evs f hf)

/-- a consistent frame only carries the sender's bytes -/
theorem consistent_byteAt {w : List Nat} {f : Frame} (hc : Consistent w f) {i x : Nat}
    (h : f.byteAt i = some x) : w[i]? = some x := by
  unfold Frame.byteAt at h
  split at h
  · rename_i hle
    rw [hc.1] at h
    rw [List.getElem?_take] at h
    split at h
    · rw [List.getElem?_drop] at h
      rw [← h]
      congr 1
      omega
    · cases h
  · cases h

/-- so does the first-writer-wins map of consistent frames -/
theorem firstWriter_consistent {w : List Nat} {fs : List Frame} (hc : ∀ f ∈ fs, Consistent w f) {i x : Nat}
    (h : firstWriter fs i = some x) : w[i]? = some x := by
  unfold firstWriter at h
  obtain ⟨f, hf, hx⟩ := List.exists_of_findSome?_eq_some h
  exact consistent_byteAt (hc f hf) hx

theorem established_consistent {w : List Nat} {t : Trace} (hc : ∀ f ∈ t.accepted, Consistent w f) {e : Nat}
    (h : t.established = some e) : e = w.length := by
  unfold Trace.established at h
  cases hf : t.accepted.find? (·.fin) with
  | none => rw [hf] at h; cases h
  | some f =>
    rw [hf] at h
    simp only [Option.map_some, Option.some.injEq] at h
    have hmem := List.mem_of_find?_eq_some hf
    have hfin : f.fin = true := by simpa using List.find?_some hf
    rw [← h]
    exact (hc f hmem).2.2 hfin

theorem foldl_max_le {l : List Nat} {a B : Nat} (ha : a ≤ B) (h : ∀ x ∈ l, x ≤ B) : l.foldl max a ≤ B := by
  induction l generalizing a with
  | nil => exact ha
  | cons x xs ih =>
    simp only [List.foldl_cons]
    apply ih
    · have := h x List.mem_cons_self; omega
    · intro y hy; exact h y (List.mem_cons_of_mem _ hy)

theorem highest_consistent {w : List Nat} {t : Trace} (hc : ∀ f ∈ t.accepted, Consistent w f)
    (hs : t.skips = []) : t.highest ≤ w.length := by
  unfold Trace.highest
  rw [hs]
  simp only [List.map_nil, List.foldl_nil]
  have : (t.accepted.map Frame.end_).foldl max 0 ≤ w.length := by
    apply foldl_max_le (Nat.zero_le _)
    intro x hx
    obtain ⟨f, hf, rfl⟩ := List.mem_map.mp hx
    exact (hc f hf).2.1
  omega

/-- the bytes read are the first `consumed` bytes of `w` -/
theorem reads_eq_take {w : List Nat} {t : Trace} (ht : TInv t) (hs : t.skips = [])
    (hc : ∀ f ∈ t.accepted, Consistent w f) : t.reads = w.take t.buf.consumed ∧ t.buf.consumed ≤ w.length := by
  have hr := ht.reads
  have hro : t.readOffsets = List.range t.buf.consumed := by
    unfold Trace.readOffsets
    rw [hs]
    exact List.filter_eq_self.mpr (by simp [inRanges])
  rw [hro] at hr
  have hlen : t.reads.length = t.buf.consumed := by
    have := congrArg List.length hr
    simpa using this
  have hget : ∀ j, j < t.buf.consumed → t.reads[j]? = w[j]? := by
    intro j hj
    have h1 := congrArg (fun l => l[j]?) hr
    simp only [List.getElem?_map, List.getElem?_range hj, Option.map_some] at h1
    have hsome : (t.reads[j]?).isSome := by simp; omega
    obtain ⟨x, hx⟩ := Option.isSome_iff_exists.mp hsome
    rw [hx] at h1
    simp only [Option.map_some, Option.some.injEq] at h1
    rw [hx, firstWriter_consistent hc h1.symm]
  have hcw : t.buf.consumed ≤ w.length := by
    by_cases h0 : t.buf.consumed = 0
    · omega
    · have h1 := hget (t.buf.consumed - 1) (by omega)
      have hsome : (t.reads[t.buf.consumed - 1]?).isSome := by simp; omega
      rw [h1] at hsome
      have := (List.getElem?_eq_some_iff.mp (Option.eq_some_of_isSome hsome)).1
      omega
  refine ⟨?_, hcw⟩
  apply List.ext_getElem?
  intro j
  by_cases hj : j < t.buf.consumed
  · rw [hget j hj, List.getElem?_take]
    simp [hj]
  · rw [List.getElem?_eq_none (by omega), List.getElem?_eq_none (by simp; omega)]

end Quic.Proofs.ReassemblyLemmas
