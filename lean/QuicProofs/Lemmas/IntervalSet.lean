import QuicModel.Data.IntervalSet
/-
  Helper lemmas for C16 (interval set). Strategy: `insSpec` / `remSpec` are plain structural
  recursions over a sorted interval list (no indices, no bookkeeping); they are shown to preserve
  `WF` and to denote set union / set difference. The scan+apply transcriptions of insert.rs /
  remove.rs are then shown to compute exactly these functions on well-formed sets.
-/
namespace Quic.Proofs.IvLemmas
open Quic.Data.IvSet Quic.Data.IvSpec

theorem cmp_lt {x y : Nat} : cmp x y = .lt ↔ x < y := by
  unfold cmp; split <;> (try split) <;> simp <;> omega
theorem cmp_eq {x y : Nat} : cmp x y = .eq ↔ x = y := by
  unfold cmp; split <;> (try split) <;> simp <;> omega
theorem cmp_gt {x y : Nat} : cmp x y = .gt ↔ y < x := by
  unfold cmp; split <;> (try split) <;> simp <;> omega

-- ---------------------------------------------------------------------------------------------
-- WF basics

theorem _root_.Quic.Data.IvSpec.WF.nil : WF [] := ⟨by simp, List.Pairwise.nil⟩

theorem _root_.Quic.Data.IvSpec.WF.tail {b : Interval} {l : List Interval} (h : WF (b :: l)) : WF l :=
  ⟨fun c hc => h.1 c (List.mem_cons_of_mem _ hc), (List.pairwise_cons.1 h.2).2⟩

theorem _root_.Quic.Data.IvSpec.WF.head_valid {b : Interval} {l : List Interval} (h : WF (b :: l)) : b.lo ≤ b.hi :=
  h.1 b (List.mem_cons_self ..)

theorem _root_.Quic.Data.IvSpec.WF.head_lt {b : Interval} {l : List Interval} (h : WF (b :: l)) : ∀ c ∈ l, b.hi + 1 < c.lo :=
  (List.pairwise_cons.1 h.2).1

theorem _root_.Quic.Data.IvSpec.WF.cons {b : Interval} {l : List Interval} (hb : b.lo ≤ b.hi) (hl : WF l)
    (hlt : ∀ c ∈ l, b.hi + 1 < c.lo) : WF (b :: l) :=
  ⟨by intro c hc; rcases List.mem_cons.1 hc with rfl | hc; exact hb; exact hl.1 c hc,
   List.pairwise_cons.2 ⟨hlt, hl.2⟩⟩

theorem _root_.Quic.Data.IvSpec.WF.drop {l : List Interval} (h : WF l) (k : Nat) : WF (l.drop k) :=
  ⟨fun c hc => h.1 c (List.mem_of_mem_drop hc), h.2.sublist (List.drop_sublist k l)⟩

theorem _root_.Quic.Data.IvSpec.WF.take {l : List Interval} (h : WF l) (k : Nat) : WF (l.take k) :=
  ⟨fun c hc => h.1 c (List.mem_of_mem_take hc), h.2.sublist (List.take_sublist k l)⟩

theorem _root_.Quic.Data.IvSpec.WF.append {p s : List Interval} (hp : WF p) (hs : WF s)
    (hps : ∀ b ∈ p, ∀ c ∈ s, b.hi + 1 < c.lo) : WF (p ++ s) :=
  ⟨by intro c hc; rcases List.mem_append.1 hc with h | h; exact hp.1 c h; exact hs.1 c h,
   List.pairwise_append.2 ⟨hp.2, hs.2, hps⟩⟩

theorem _root_.Quic.Data.IvSpec.WF.of_append {p s : List Interval} (h : WF (p ++ s)) :
    WF p ∧ WF s ∧ ∀ b ∈ p, ∀ c ∈ s, b.hi + 1 < c.lo := by
  have := List.pairwise_append.1 h.2
  exact ⟨⟨fun c hc => h.1 c (List.mem_append_left _ hc), this.1⟩,
         ⟨fun c hc => h.1 c (List.mem_append_right _ hc), this.2.1⟩, this.2.2⟩

theorem mem_nil (x : Nat) : ¬ Mem [] x := by simp [Mem]

theorem mem_cons (b : Interval) (l : List Interval) (x : Nat) : Mem (b :: l) x ↔ inIv b x ∨ Mem l x := by
  simp [Mem]

theorem mem_append (p s : List Interval) (x : Nat) : Mem (p ++ s) x ↔ Mem p x ∨ Mem s x := by
  simp only [Mem, List.mem_append]
  constructor
  · rintro ⟨i, hi | hi, hx⟩
    · exact Or.inl ⟨i, hi, hx⟩
    · exact Or.inr ⟨i, hi, hx⟩
  · rintro (⟨i, hi, hx⟩ | ⟨i, hi, hx⟩)
    · exact ⟨i, Or.inl hi, hx⟩
    · exact ⟨i, Or.inr hi, hx⟩

/-- nothing in a well-formed list lies below the first interval's start -/
theorem _root_.Quic.Data.IvSpec.WF.mem_ge_head {b : Interval} {l : List Interval} (h : WF (b :: l)) {x : Nat}
    (hx : Mem (b :: l) x) : b.lo ≤ x := by
  rcases (mem_cons ..).1 hx with hx | ⟨c, hc, hx⟩
  · exact hx.1
  · have := h.head_lt c hc; have := h.head_valid; unfold inIv at hx; omega

-- ---------------------------------------------------------------------------------------------
-- insSpec : insertion as a plain recursion

/-- insert `a` into a sorted interval list: walk past the intervals that end more than one below
    `a`, swallow everything `a` touches (overlap or adjacency), stop at the first interval that
    starts more than one above `a` -/
def insSpec : List Interval → Interval → List Interval
  | [], a => [a]
  | b :: rest, a =>
    if a.hi + 1 < b.lo then a :: b :: rest
    else if b.hi + 1 < a.lo then b :: insSpec rest a
    else insSpec rest ⟨min a.lo b.lo, max a.hi b.hi⟩

theorem insSpec_lo_bound (k : Nat) : ∀ (l : List Interval) (a : Interval),
    (∀ c ∈ l, k < c.lo) → k < a.lo → ∀ c ∈ insSpec l a, k < c.lo := by
  intro l
  induction l with
  | nil => intro a _ ha c hc; simp [insSpec] at hc; subst hc; exact ha
  | cons b rest ih =>
    intro a hl ha c hc
    have hb := hl b (List.mem_cons_self ..)
    have hrest : ∀ c ∈ rest, k < c.lo := fun c hc => hl c (List.mem_cons_of_mem _ hc)
    unfold insSpec at hc
    split at hc
    · rcases List.mem_cons.1 hc with rfl | hc
      · exact ha
      · exact hl c hc
    · split at hc
      · rcases List.mem_cons.1 hc with rfl | hc
        · exact hb
        · exact ih a hrest ha c hc
      · exact ih _ hrest (by simp only [Nat.lt_min]; omega) c hc

theorem insSpec_wf : ∀ (l : List Interval) (a : Interval), WF l → a.lo ≤ a.hi → WF (insSpec l a) := by
  intro l
  induction l with
  | nil => intro a _ ha; exact WF.cons ha WF.nil (by simp)
  | cons b rest ih =>
    intro a hl ha
    have hb := hl.head_valid
    unfold insSpec
    split
    · rename_i h1
      refine WF.cons ha hl ?_
      intro c hc
      rcases List.mem_cons.1 hc with rfl | hc
      · exact h1
      · have := hl.head_lt c hc; omega
    · split
      · rename_i h1 h2
        refine WF.cons hb (ih a hl.tail ha) ?_
        exact insSpec_lo_bound _ rest a hl.head_lt h2
      · exact ih _ hl.tail (by simp only [Nat.min_def, Nat.max_def]; split <;> split <;> omega)

theorem insSpec_mem : ∀ (l : List Interval) (a : Interval) (x : Nat), WF l → a.lo ≤ a.hi →
    (Mem (insSpec l a) x ↔ Mem l x ∨ inIv a x) := by
  intro l
  induction l with
  | nil => intro a x _ _; simp [insSpec, Mem]
  | cons b rest ih =>
    intro a x hl ha
    have hb := hl.head_valid
    unfold insSpec
    split
    · simp only [mem_cons]; grind
    · split
      · rw [mem_cons, ih a x hl.tail ha, mem_cons]; grind
      · rename_i h1 h2
        rw [ih _ x hl.tail (by simp only [Nat.min_def, Nat.max_def]; split <;> split <;> omega), mem_cons]
        have : inIv ⟨min a.lo b.lo, max a.hi b.hi⟩ x ↔ inIv b x ∨ inIv a x := by
          unfold inIv; simp only [Nat.min_def, Nat.max_def]; split <;> split <;> omega
        rw [this]; grind

/-- the length grows by one exactly when nothing is touched -/
def Touches (a b : Interval) : Prop := ¬ (a.hi + 1 < b.lo) ∧ ¬ (b.hi + 1 < a.lo)

theorem insSpec_length_le : ∀ (l : List Interval) (a : Interval), (insSpec l a).length ≤ l.length + 1 := by
  intro l
  induction l with
  | nil => intro a; simp [insSpec]
  | cons b rest ih =>
    intro a; unfold insSpec
    split
    · simp
    · split
      · have := ih a; simp; omega
      · have := ih ⟨min a.lo b.lo, max a.hi b.hi⟩; simp; omega

-- ---------------------------------------------------------------------------------------------
-- insert.rs scan + apply computes insSpec

theorem take_len_append (p q : List Interval) : (p ++ q).take p.length = p := by simp
theorem drop_len_append (p q : List Interval) : (p ++ q).drop p.length = q := by simp

theorem vecSet_mid (p q : List Interval) (x a : Interval) :
    vecSet (p ++ x :: q) p.length a = .ok (p ++ a :: q) := by
  simp [vecSet]

theorem vecRemove_mid (p q : List Interval) (x : Interval) :
    vecRemove (p ++ x :: q) p.length = p ++ q := by
  simp [vecRemove]

theorem vecInsert_mid (p q : List Interval) (a : Interval) :
    vecInsert (p ++ q) p.length a = .ok (p ++ a :: q) := by
  simp [vecInsert]

theorem vecDrain_mid (p m q : List Interval) :
    vecDrain (p ++ m ++ q) p.length (p.length + m.length) = .ok (p ++ q) := by
  simp [vecDrain]

theorem insertApply_replace (p m q : List Interval) (a : Interval) (limit : Option Nat) (hm : m ≠ []) :
    insertApply (p ++ m ++ q) ⟨some p.length, p.length + m.length⟩ a limit = .ok (p ++ a :: q, p.length) := by
  rcases m with _ | ⟨x, _ | ⟨y, _ | ⟨z, m'⟩⟩⟩
  · exact absurd rfl hm
  · simp [insertApply, Replace.count, vecSet_mid]
  · simp [insertApply, Replace.count]
    rw [vecSet_mid]
    simp
    have := vecRemove_mid (p ++ [a]) q y
    simpa using this
  · simp [insertApply, Replace.count]
    rw [vecSet_mid]
    have := vecDrain_mid (p ++ [a]) (y :: z :: m') q
    simp only [List.append_assoc, List.cons_append, List.nil_append, List.length_append, List.length_cons, List.length_nil] at this
    simp only []
    rw [show p.length + (m'.length + 1 + 1 + 1) = p.length + (0 + 1) + (m'.length + 1 + 1) by omega, this]

/-- the swallowing phase of `insSpec` once `a.lo` is below everything that follows -/
def absorb : List Interval → Interval → List Interval
  | [], a => [a]
  | b :: rest, a => if a.hi + 1 < b.lo then a :: b :: rest else absorb rest ⟨a.lo, max a.hi b.hi⟩

theorem absorb_of_lt (l : List Interval) (a : Interval) (h : ∀ c ∈ l, a.hi + 1 < c.lo) : absorb l a = a :: l := by
  cases l with
  | nil => rfl
  | cons c r => simp [absorb, h c (List.mem_cons_self ..)]

theorem insSpec_eq_absorb : ∀ (l : List Interval) (a : Interval), (∀ c ∈ l, c.lo ≤ c.hi) → (∀ c ∈ l, a.lo ≤ c.lo) →
    insSpec l a = absorb l a := by
  intro l
  induction l with
  | nil => intro a _ _; rfl
  | cons b rest ih =>
    intro a hv hlo
    have h1 := hv b (List.mem_cons_self ..)
    have h2 := hlo b (List.mem_cons_self ..)
    unfold insSpec absorb
    split
    · rfl
    · rw [if_neg (by omega), show min a.lo b.lo = a.lo by omega]
      exact ih _ (fun c hc => hv c (List.mem_cons_of_mem _ hc)) (fun c hc => hlo c (List.mem_cons_of_mem _ hc))

theorem cmp_cases (x y : Nat) : (cmp x y = .lt ∧ x < y) ∨ (cmp x y = .eq ∧ x = y) ∨ (cmp x y = .gt ∧ y < x) := by
  rcases Nat.lt_trichotomy x y with h | h | h
  · exact Or.inl ⟨cmp_lt.2 h, h⟩
  · exact Or.inr (Or.inl ⟨cmp_eq.2 h, h⟩)
  · exact Or.inr (Or.inr ⟨cmp_gt.2 h, h⟩)

theorem scan_absorbing : ∀ (suf p m : List Interval) (a : Interval),
    m ≠ [] → WF suf → (∀ c ∈ suf, a.lo < c.lo) →
    ∃ rep a', insertScan suf (p.length + m.length) ⟨some p.length, p.length + m.length⟩ a = .done rep a' ∧
      ∀ limit, insertApply (p ++ m ++ suf) rep a' limit = .ok (p ++ absorb suf a, p.length) := by
  intro suf
  induction suf with
  | nil =>
    intro p m a hm _ _
    refine ⟨_, _, rfl, fun limit => ?_⟩
    have := insertApply_replace p m [] a limit hm
    simpa [absorb] using this
  | cons b rest ih =>
    intro p m a hm hwf hlo
    have hb := hwf.head_valid
    have hab := hlo b (List.mem_cons_self ..)
    have hm' : m ++ [b] ≠ [] := by simp
    have hlist : p ++ m ++ b :: rest = p ++ (m ++ [b]) ++ rest := by simp
    have hlen : p.length + (m ++ [b]).length = p.length + m.length + 1 := by simp; omega
    have hrep : ((Replace.mk (some p.length) (p.length + m.length)).setStart (p.length + m.length)).setEnd (p.length + m.length + 1)
        = ⟨some p.length, p.length + (m ++ [b]).length⟩ := by
      simp [Replace.setStart, Replace.setEnd]; omega
    rcases cmp_cases a.hi b.hi with ⟨hc, hh⟩ | ⟨hc, hh⟩ | ⟨hc, hh⟩
    · -- a.hi < b.hi
      by_cases hco : b.lo ≤ a.hi + 1
      · refine ⟨_, _, by simp only [insertScan, cmp_lt.2 hab, hc, Interval.shouldCoalesce, hco, decide_true, if_true]; rfl, fun limit => ?_⟩
        rw [hrep, hlist, insertApply_replace p (m ++ [b]) rest _ limit hm']
        simp only [absorb, if_neg (show ¬ a.hi + 1 < b.lo by omega)]
        rw [absorb_of_lt]
        · simp [show max a.hi b.hi = b.hi by omega]
        · intro c hc'; have := hwf.head_lt c hc'; simp; omega
      · refine ⟨_, _, by simp only [insertScan, cmp_lt.2 hab, hc, Interval.shouldCoalesce, hco, decide_false]; rfl, fun limit => ?_⟩
        have : ((Replace.mk (some p.length) (p.length + m.length)).setStart (p.length + m.length)).setEnd (p.length + m.length)
            = ⟨some p.length, p.length + m.length⟩ := by simp [Replace.setStart, Replace.setEnd]
        rw [this, insertApply_replace p m (b :: rest) a limit hm]
        simp only [absorb, if_pos (show a.hi + 1 < b.lo by omega)]
    · -- a.hi = b.hi
      refine ⟨_, _, by simp only [insertScan, cmp_lt.2 hab, hc]; rfl, fun limit => ?_⟩
      rw [hrep, hlist, insertApply_replace p (m ++ [b]) rest _ limit hm']
      simp only [absorb, if_neg (show ¬ a.hi + 1 < b.lo by omega)]
      rw [absorb_of_lt]
      · simp [show max a.hi b.hi = a.hi by omega]
      · intro c hc'; have := hwf.head_lt c hc'; simp; omega
    · -- b.hi < a.hi : swallowed, continue
      have := ih p (m ++ [b]) a hm' hwf.tail (fun c hc' => by have := hwf.head_lt c hc'; omega)
      obtain ⟨rep, a', hs, hap⟩ := this
      refine ⟨rep, a', ?_, fun limit => ?_⟩
      · simp only [insertScan, cmp_lt.2 hab, hc]
        rw [hrep, ← hlen]; exact hs
      · rw [hlist, hap limit]
        simp only [absorb, if_neg (show ¬ a.hi + 1 < b.lo by omega)]
        rw [show max a.hi b.hi = a.hi by omega]


theorem absorb_length_le : ∀ (l : List Interval) (a : Interval), (absorb l a).length ≤ l.length + 1 := by
  intro l
  induction l with
  | nil => intro a; simp [absorb]
  | cons b rest ih =>
    intro a; unfold absorb; split
    · simp
    · have := ih ⟨a.lo, max a.hi b.hi⟩; simp; omega

theorem insSpec_of_lt (l : List Interval) (a : Interval) (h : ∀ c ∈ l, a.hi + 1 < c.lo) : insSpec l a = a :: l := by
  cases l with
  | nil => rfl
  | cons c r => simp [insSpec, h c (List.mem_cons_self ..)]

/-- the index `insert::insert` returns is a sound scan hint for any later range that starts more than
    one above `a.hi` (this is how `set_operation` threads it): every slot before it ends at or below `a.hi` -/
def IdxOk (l' : List Interval) (a : Interval) (idx : Nat) : Prop := idx ≤ l'.length ∧ ∀ b ∈ l'.take idx, b.hi ≤ a.hi

theorem IdxOk.pre (pre x : List Interval) (a : Interval) (h : ∀ c ∈ pre, c.hi ≤ a.hi) : IdxOk (pre ++ x) a pre.length := by
  refine ⟨by simp, ?_⟩
  intro b hb; simp at hb; exact h b hb

theorem IdxOk.pre_succ (pre x : List Interval) (b a : Interval) (h : ∀ c ∈ pre, c.hi ≤ a.hi) (hb : b.hi ≤ a.hi) :
    IdxOk (pre ++ b :: x) a (pre.length + 1) := by
  have := IdxOk.pre (pre ++ [b]) x a (by
    intro c hc; rcases List.mem_append.1 hc with hc | hc
    · exact h c hc
    · rw [List.mem_singleton.1 hc]; exact hb)
  simpa using this

/-- what `insert::insert` must return for the list `l`, given the reference result `l'` -/
def InsOutcome (l l' : List Interval) (a : Interval) (limit : Option Nat) (r : Except Error (List Interval × Nat)) : Prop :=
  if l'.length = l.length + 1 ∧ underLimit limit l.length = false then r = .error .limitExceeded
  else ∃ idx, IdxOk l' a idx ∧ r = .ok (l', idx)

theorem InsOutcome.of_ok {l l' : List Interval} {a : Interval} {limit : Option Nat} {r : Except Error (List Interval × Nat)} {idx : Nat}
    (hlen : l'.length ≤ l.length) (hidx : IdxOk l' a idx) (hr : r = .ok (l', idx)) : InsOutcome l l' a limit r := by
  unfold InsOutcome; rw [if_neg (by omega)]; exact ⟨idx, hidx, hr⟩

theorem scan_fresh : ∀ (suf pre : List Interval) (a : Interval), WF suf → a.lo ≤ a.hi → (∀ c ∈ pre, c.hi ≤ a.hi) →
    match insertScan suf pre.length Replace.init a with
    | .found idx => insSpec suf a = suf ∧ IdxOk (pre ++ suf) a idx
    | .done rep a' => ∀ limit, InsOutcome (pre ++ suf) (pre ++ insSpec suf a) a limit (insertApply (pre ++ suf) rep a' limit) := by
  intro suf
  induction suf with
  | nil =>
    intro pre a _ _ hpre
    simp only [insertScan]
    intro limit
    simp only [insSpec, insertApply, Replace.init, Replace.count, List.append_nil]
    unfold InsOutcome
    cases h : underLimit limit pre.length
    · rw [if_pos ⟨by simp, rfl⟩]; simp
    · rw [if_neg (by simp)]
      exact ⟨pre.length, IdxOk.pre pre [a] a hpre, by simp⟩
  | cons b rest ih =>
    intro pre a hwf ha hpre
    have hb := hwf.head_valid
    have hrest := hwf.head_lt
    have hlist : pre ++ b :: rest = pre ++ [b] ++ rest := by simp
    have hrep : ((Replace.init).setStart pre.length).setEnd (pre.length + 1) = ⟨some pre.length, pre.length + [b].length⟩ := by
      simp [Replace.init, Replace.setStart, Replace.setEnd]
    -- the absorbing continuation shared by three arms
    have habs : ∀ a' : Interval, (∀ c ∈ rest, a'.lo < c.lo) → insSpec (b :: rest) a = absorb rest a' →
        match insertScan rest (pre.length + 1) ((Replace.init.setStart pre.length).setEnd (pre.length + 1)) a' with
        | .found idx => insSpec (b :: rest) a = b :: rest ∧ IdxOk (pre ++ b :: rest) a idx
        | .done rep a'' => ∀ limit, InsOutcome (pre ++ b :: rest) (pre ++ insSpec (b :: rest) a) a limit (insertApply (pre ++ b :: rest) rep a'' limit) := by
      intro a' hlo hspec
      obtain ⟨rep, a'', hs, hap⟩ := scan_absorbing rest pre [b] a' (by simp) hwf.tail hlo
      rw [hrep, show pre.length + 1 = pre.length + [b].length by simp, hs]
      intro limit
      refine InsOutcome.of_ok (idx := pre.length) ?_ (IdxOk.pre pre _ a hpre) ?_
      · rw [hspec]; have := absorb_length_le rest a'; simp; omega
      · rw [hlist, hap limit, hspec]
    rcases cmp_cases a.lo b.lo with ⟨hcl, hl⟩ | ⟨hcl, hl⟩ | ⟨hcl, hl⟩ <;>
    rcases cmp_cases a.hi b.hi with ⟨hch, hh⟩ | ⟨hch, hh⟩ | ⟨hch, hh⟩
    · -- (lt, lt)
      by_cases hco : b.lo ≤ a.hi + 1
      · simp only [insertScan, hcl, hch, Interval.shouldCoalesce, hco, decide_true, if_true]
        intro limit
        have hspec : insSpec (b :: rest) a = ⟨a.lo, b.hi⟩ :: rest := by
          simp only [insSpec, if_neg (show ¬ a.hi + 1 < b.lo by omega), if_neg (show ¬ b.hi + 1 < a.lo by omega)]
          rw [show min a.lo b.lo = a.lo by omega, show max a.hi b.hi = b.hi by omega]
          exact insSpec_of_lt _ _ (fun c hc => hrest c hc)
        refine InsOutcome.of_ok (idx := pre.length) (by rw [hspec]; simp) (IdxOk.pre pre _ a hpre) ?_
        rw [hrep, hlist, insertApply_replace pre [b] rest _ limit (by simp), hspec]
      · simp only [insertScan, hcl, hch, Interval.shouldCoalesce, hco, decide_false]
        intro limit
        have hspec : insSpec (b :: rest) a = a :: b :: rest := by
          simp only [insSpec, if_pos (show a.hi + 1 < b.lo by omega)]
        rw [hspec]
        simp only [insertApply, Replace.init, Replace.setStart, Replace.setEnd, Replace.count, Nat.zero_max,
          Nat.le_refl, if_true, Nat.sub_self, Option.getD_some, vecInsert_mid]
        unfold InsOutcome
        cases h : underLimit limit (pre ++ b :: rest).length
        · rw [if_pos ⟨by simp; omega, rfl⟩]; simp
        · rw [if_neg (by simp)]
          exact ⟨pre.length, IdxOk.pre pre _ a hpre, by simp⟩
    · -- (lt, eq)
      simp only [insertScan, hcl, hch]
      intro limit
      have hspec : insSpec (b :: rest) a = a :: rest := by
        simp only [insSpec, if_neg (show ¬ a.hi + 1 < b.lo by omega), if_neg (show ¬ b.hi + 1 < a.lo by omega)]
        rw [show min a.lo b.lo = a.lo by omega, show max a.hi b.hi = a.hi by omega]
        exact insSpec_of_lt _ _ (fun c hc => by have := hrest c hc; show a.hi + 1 < c.lo; omega)
      refine InsOutcome.of_ok (idx := pre.length) (by rw [hspec]; simp) (IdxOk.pre pre _ a hpre) ?_
      rw [hrep, hlist, insertApply_replace pre [b] rest _ limit (by simp), hspec]
    · -- (lt, gt): a contains b
      simp only [insertScan, hcl, hch]
      refine habs a (fun c hc => by have := hrest c hc; omega) ?_
      simp only [insSpec, if_neg (show ¬ a.hi + 1 < b.lo by omega), if_neg (show ¬ b.hi + 1 < a.lo by omega)]
      rw [show min a.lo b.lo = a.lo by omega, show max a.hi b.hi = a.hi by omega]
      exact insSpec_eq_absorb rest a (fun c hc => hwf.1 c (List.mem_cons_of_mem _ hc)) (fun c hc => by have := hrest c hc; omega)
    · -- (eq, lt): subset
      simp only [insertScan, hcl, hch]
      refine ⟨?_, IdxOk.pre pre _ a hpre⟩
      simp only [insSpec, if_neg (show ¬ a.hi + 1 < b.lo by omega), if_neg (show ¬ b.hi + 1 < a.lo by omega)]
      rw [show min a.lo b.lo = b.lo by omega, show max a.hi b.hi = b.hi by omega]
      exact insSpec_of_lt _ _ hrest
    · -- (eq, eq)
      simp only [insertScan, hcl, hch]
      refine ⟨?_, IdxOk.pre_succ pre rest b a hpre (by omega)⟩
      simp only [insSpec, if_neg (show ¬ a.hi + 1 < b.lo by omega), if_neg (show ¬ b.hi + 1 < a.lo by omega)]
      rw [show min a.lo b.lo = b.lo by omega, show max a.hi b.hi = b.hi by omega]
      exact insSpec_of_lt _ _ hrest
    · -- (eq, gt)
      simp only [insertScan, hcl, hch]
      refine habs a (fun c hc => by have := hrest c hc; omega) ?_
      simp only [insSpec, if_neg (show ¬ a.hi + 1 < b.lo by omega), if_neg (show ¬ b.hi + 1 < a.lo by omega)]
      rw [show min a.lo b.lo = a.lo by omega, show max a.hi b.hi = a.hi by omega]
      exact insSpec_eq_absorb rest a (fun c hc => hwf.1 c (List.mem_cons_of_mem _ hc)) (fun c hc => by have := hrest c hc; omega)
    · -- (gt, lt): subset
      simp only [insertScan, hcl, hch]
      refine ⟨?_, IdxOk.pre pre _ a hpre⟩
      simp only [insSpec, if_neg (show ¬ a.hi + 1 < b.lo by omega), if_neg (show ¬ b.hi + 1 < a.lo by omega)]
      rw [show min a.lo b.lo = b.lo by omega, show max a.hi b.hi = b.hi by omega]
      exact insSpec_of_lt _ _ hrest
    · -- (gt, eq): subset
      simp only [insertScan, hcl, hch]
      refine ⟨?_, IdxOk.pre_succ pre rest b a hpre (by omega)⟩
      simp only [insSpec, if_neg (show ¬ a.hi + 1 < b.lo by omega), if_neg (show ¬ b.hi + 1 < a.lo by omega)]
      rw [show min a.lo b.lo = b.lo by omega, show max a.hi b.hi = b.hi by omega]
      exact insSpec_of_lt _ _ hrest
    · -- (gt, gt)
      by_cases hco : a.lo ≤ b.hi + 1
      · simp only [insertScan, hcl, hch, Interval.shouldCoalesce, hco, decide_true, if_true]
        refine habs ⟨b.lo, a.hi⟩ (fun c hc => by have := hrest c hc; simp; omega) ?_
        simp only [insSpec, if_neg (show ¬ a.hi + 1 < b.lo by omega), if_neg (show ¬ b.hi + 1 < a.lo by omega)]
        rw [show min a.lo b.lo = b.lo by omega, show max a.hi b.hi = a.hi by omega]
        exact insSpec_eq_absorb rest _ (fun c hc => hwf.1 c (List.mem_cons_of_mem _ hc)) (fun c hc => by have := hrest c hc; simp; omega)
      · simp only [insertScan, hcl, hch, Interval.shouldCoalesce, hco, decide_false, Bool.false_eq_true, if_false]
        have := ih (pre ++ [b]) a hwf.tail ha (by
          intro c hc; rcases List.mem_append.1 hc with hc | hc
          · exact hpre c hc
          · rw [List.mem_singleton.1 hc]; omega)
        rw [show (pre ++ [b]).length = pre.length + 1 by simp] at this
        have hspec : insSpec (b :: rest) a = b :: insSpec rest a := by
          simp only [insSpec, if_neg (show ¬ a.hi + 1 < b.lo by omega), if_pos (show b.hi + 1 < a.lo by omega)]
        rw [hspec]
        split
        · rename_i heq; rw [heq] at this; simp only at this; rw [this.1]; exact ⟨rfl, by simpa using this.2⟩
        · rename_i heq; rw [heq] at this; simp only at this
          intro limit
          have := this limit
          simpa using this


theorem insSpec_append_of_lt : ∀ (p s : List Interval) (a : Interval), a.lo ≤ a.hi → (∀ b ∈ p, b.lo ≤ b.hi) →
    (∀ b ∈ p, b.hi + 1 < a.lo) → insSpec (p ++ s) a = p ++ insSpec s a := by
  intro p
  induction p with
  | nil => intro s a _ _ _; rfl
  | cons b rest ih =>
    intro s a ha hv hlt
    have h1 := hv b (List.mem_cons_self ..)
    have h2 := hlt b (List.mem_cons_self ..)
    simp only [List.cons_append, insSpec, if_neg (show ¬ a.hi + 1 < b.lo by omega), if_pos h2]
    rw [ih s a ha (fun c hc => hv c (List.mem_cons_of_mem _ hc)) (fun c hc => hlt c (List.mem_cons_of_mem _ hc))]

/-- `insert::insert` on a well-formed list with a sound scan hint computes `insSpec`, or reports
    `LimitExceeded` exactly when a new interval is needed and the limit does not allow it -/
theorem insertAt_eq_insSpec (l : List Interval) (a : Interval) (k : Nat) (limit : Option Nat)
    (hwf : WF l) (ha : a.lo ≤ a.hi) (hk : k ≤ l.length) (hint : ∀ b ∈ l.take k, b.hi + 1 < a.lo) :
    InsOutcome l (insSpec l a) a limit (insertAt l a k limit) := by
  have hspec : insSpec l a = l.take k ++ insSpec (l.drop k) a := by
    conv => lhs; rw [← List.take_append_drop k l]
    exact insSpec_append_of_lt _ _ a ha (hwf.take k).1 hint
  have hlen : (l.take k).length = k := by simp; omega
  have := scan_fresh (l.drop k) (l.take k) a (hwf.drop k) ha (fun c hc => by have := hint c hc; omega)
  rw [hlen] at this
  unfold insertAt
  split
  · rename_i idx heq
    rw [heq] at this; simp only at this
    have hl' : insSpec l a = l := by rw [hspec, this.1, List.take_append_drop]
    refine InsOutcome.of_ok (idx := idx) ?_ ?_ ?_
    · rw [hl']; omega
    · rw [hl']; have := this.2; rwa [List.take_append_drop] at this
    · rw [hl']
  · rename_i rep a' heq
    rw [heq] at this; simp only at this
    have := this limit
    rw [List.take_append_drop] at this
    rw [hspec]; exact this


theorem getD_eq (l : List Interval) (j : Nat) (h : j < l.length) : l.getD j default = l[j] := by
  simp [List.getD, List.getElem?_eq_getElem h]

theorem cmpVal_spec (i : Interval) (v : Nat) (h : i.lo ≤ i.hi) :
    (i.cmpVal v = .eq ↔ (i.lo ≤ v ∧ v ≤ i.hi)) ∧ (i.cmpVal v = .lt ↔ i.hi < v) ∧ (i.cmpVal v = .gt ↔ v < i.lo) := by
  unfold Interval.cmpVal
  rcases cmp_cases i.lo v with ⟨h1, h1'⟩ | ⟨h1, h1'⟩ | ⟨h1, h1'⟩ <;>
  rcases cmp_cases i.hi v with ⟨h2, h2'⟩ | ⟨h2, h2'⟩ | ⟨h2, h2'⟩ <;>
  simp [h1, h2] <;> omega

theorem wf_getElem_lt (l : List Interval) (hwf : WF l) (i j : Nat) (hj : j < l.length) (hij : i < j) :
    (l[i]'(by omega)).hi + 1 < l[j].lo :=
  (List.pairwise_iff_getElem.1 hwf.2) i j (by omega) hj hij

theorem wf_getElem_valid (l : List Interval) (hwf : WF l) (j : Nat) (hj : j < l.length) : l[j].lo ≤ l[j].hi :=
  hwf.1 _ (List.getElem_mem hj)


theorem bsearchLoop_spec (l : List Interval) (v : Nat) (hwf : WF l) :
    ∀ (fuel size base : Nat), base + size ≤ l.length → 1 ≤ size → size ≤ fuel + 1 →
    (∀ j (hj : j < l.length), j < base → l[j].hi < v) →
    (∀ j (hj : j < l.length), base + size ≤ j → v < l[j].lo) →
    (base = 0 ∨ ∃ h : base < l.length, l[base].hi < v) →
    match bsearchLoop l v fuel size base with
    | .inl mid => ∃ h : mid < l.length, l[mid].lo ≤ v ∧ v ≤ l[mid].hi
    | .inr b => ∃ h : b < l.length, (b = 0 ∨ l[b].hi < v) ∧
        (∀ j (hj : j < l.length), j ≠ b → ¬ (l[j].lo ≤ v ∧ v ≤ l[j].hi)) := by
  have hstop : ∀ size base : Nat, base + size ≤ l.length → 1 ≤ size → size ≤ 1 →
      (∀ j (hj : j < l.length), j < base → l[j].hi < v) →
      (∀ j (hj : j < l.length), base + size ≤ j → v < l[j].lo) →
      (base = 0 ∨ ∃ h : base < l.length, l[base].hi < v) →
      ∃ h : base < l.length, (base = 0 ∨ l[base].hi < v) ∧
        (∀ j (hj : j < l.length), j ≠ base → ¬ (l[j].lo ≤ v ∧ v ≤ l[j].hi)) := by
    intro size base h1 h2 h3 hlo hhi hb
    refine ⟨by omega, ?_, ?_⟩
    · rcases hb with hb | ⟨_, hb⟩
      · exact Or.inl hb
      · exact Or.inr hb
    · intro j hj hne
      by_cases hjb : j < base
      · have := hlo j hj hjb; omega
      · have := hhi j hj (by omega); omega
  intro fuel
  induction fuel with
  | zero =>
    intro size base h1 h2 h3 hlo hhi hb
    simp only [bsearchLoop]
    exact hstop size base h1 h2 (by omega) hlo hhi hb
  | succ fuel ih =>
    intro size base h1 h2 h3 hlo hhi hb
    simp only [bsearchLoop]
    by_cases hgt : size > 1
    · rw [if_pos hgt]
      have hmid : base + size / 2 < l.length := by omega
      rw [getD_eq l _ hmid]
      have hv := wf_getElem_valid l hwf _ hmid
      have hsp := cmpVal_spec l[base + size / 2] v hv
      cases heq : l[base + size / 2].cmpVal v
      · -- lt
        simp only []
        have hvlt := hsp.2.1.1 heq
        refine ih (size - size / 2) (base + size / 2) (by omega) (by omega) (by omega) ?_ ?_ (Or.inr ⟨hmid, hvlt⟩)
        · intro j hj hjlt
          have := wf_getElem_lt l hwf j (base + size / 2) hmid hjlt; omega
        · intro j hj hjge
          exact hhi j hj (by omega)
      · -- eq
        simp only []
        exact ⟨hmid, hsp.1.1 heq⟩
      · -- gt
        simp only []
        have hvlt := hsp.2.2.1 heq
        refine ih (size - size / 2) base (by omega) (by omega) (by omega) hlo ?_ hb
        intro j hj hjge
        by_cases hjm : j = base + size / 2
        · subst hjm; exact hvlt
        · have := wf_getElem_lt l hwf (base + size / 2) j hj (by omega); omega
    · rw [if_neg hgt]
      exact hstop size base h1 h2 (by omega) hlo hhi hb

/-- `contains` (binary search) decides membership on well-formed sets -/
theorem contains_iff (lim : Option Nat) (l : List Interval) (v : Nat) (hwf : WF l) :
    IvSet.contains ⟨lim, l⟩ v = true ↔ Mem l v := by
  unfold IvSet.contains bsearch
  by_cases hl : l.length = 0
  · have : l = [] := List.length_eq_zero_iff.1 hl
    subst this; simp [Mem]
  · simp only [hl, if_false]
    have := bsearchLoop_spec l v hwf l.length l.length 0 (by omega) (by omega) (by omega)
      (by intro j _ h; omega) (by intro j hj h; omega) (Or.inl rfl)
    split
    · rename_i mid heq
      rw [heq] at this; simp only at this
      obtain ⟨h, hm⟩ := this
      simp only [beq_self_eq_true, true_iff]
      exact ⟨l[mid], List.getElem_mem h, hm⟩
    · rename_i b heq
      rw [heq] at this; simp only at this
      obtain ⟨h, _, hne⟩ := this
      rw [getD_eq l b h]
      have hsp := cmpVal_spec l[b] v (wf_getElem_valid l hwf b h)
      constructor
      · intro hc
        exact ⟨l[b], List.getElem_mem h, hsp.1.1 (by simpa using hc)⟩
      · rintro ⟨i, hi, hx⟩
        obtain ⟨j, hj, rfl⟩ := List.getElem_of_mem hi
        by_cases hjb : j = b
        · subst hjb; simpa using hsp.1.2 hx
        · exact absurd hx (hne j hj hjb)

/-- `index_for` returns a sound scan hint: everything before it ends more than one below `r.lo` -/
theorem indexFor_hint (l : List Interval) (r : Interval) (hwf : WF l) :
    indexFor l r ≤ l.length ∧ ∀ b ∈ l.take (indexFor l r), b.hi + 1 < r.lo := by
  unfold indexFor
  split
  · simp
  · rename_i hlen
    unfold bsearch
    have hl : ¬ l.length = 0 := by unfold linearScanBelow at hlen; omega
    simp only [hl, if_false]
    have := bsearchLoop_spec l r.lo hwf l.length l.length 0 (by omega) (by omega) (by omega)
      (by intro j _ h; omega) (by intro j hj h; omega) (Or.inl rfl)
    have key : ∀ idx (h : idx < l.length), (idx = 0 ∨ l[idx].lo ≤ r.lo) → idx ≤ l.length ∧ ∀ b ∈ l.take idx, b.hi + 1 < r.lo := by
      intro idx h hidx
      refine ⟨by omega, ?_⟩
      intro b hb
      obtain ⟨j, hj, rfl⟩ := List.mem_take_iff_getElem.1 hb
      have hj' : j < idx := by omega
      rcases hidx with h0 | hle
      · omega
      · have := wf_getElem_lt l hwf j idx h hj'; omega
    split
    · rename_i mid heq
      rw [heq] at this; simp only at this
      obtain ⟨h, hm⟩ := this
      exact key mid h (Or.inr hm.1)
    · rename_i b heq
      rw [heq] at this; simp only at this
      obtain ⟨h, hb, _⟩ := this
      refine key b h ?_
      rcases hb with hb | hb
      · exact Or.inl hb
      · have := wf_getElem_valid l hwf b h; exact Or.inr (by omega)


theorem insSpec_length_succ_iff : ∀ (l : List Interval) (a : Interval), WF l → a.lo ≤ a.hi →
    ((insSpec l a).length = l.length + 1 ↔ ∀ b ∈ l, ¬ Touches a b) := by
  intro l
  induction l with
  | nil => intro a _ _; simp [insSpec]
  | cons b rest ih =>
    intro a hwf ha
    have hb := hwf.head_valid
    have hrest := hwf.head_lt
    unfold insSpec
    split
    · rename_i h1
      simp only [List.length_cons, true_iff]
      intro c hc
      rcases List.mem_cons.1 hc with rfl | hc
      · unfold Touches; omega
      · have := hrest c hc; unfold Touches; omega
    · split
      · rename_i h1 h2
        simp only [List.length_cons, Nat.add_right_cancel_iff, List.mem_cons, forall_eq_or_imp]
        rw [ih a hwf.tail ha]
        constructor
        · intro h; exact ⟨by unfold Touches; omega, h⟩
        · intro h; exact h.2
      · rename_i h1 h2
        have := insSpec_length_le rest ⟨min a.lo b.lo, max a.hi b.hi⟩
        constructor
        · intro h; simp at h; omega
        · intro h; exact absurd ⟨h1, h2⟩ (h b (List.mem_cons_self ..))


-- ---------------------------------------------------------------------------------------------
-- remSpec : removal as a plain recursion

/-- what is left of `b` below `a` -/
def leftPiece (b a : Interval) : List Interval := if b.lo < a.lo then [⟨b.lo, a.lo - 1⟩] else []

/-- remove `a` from a sorted interval list -/
def remSpec : List Interval → Interval → List Interval
  | [], _ => []
  | b :: rest, a =>
    if a.hi < b.lo then b :: rest
    else if b.hi < a.lo then b :: remSpec rest a
    else leftPiece b a ++ (if a.hi < b.hi then ⟨a.hi + 1, b.hi⟩ :: rest else remSpec rest a)

/-- the removal needs one more interval: `a` lies strictly inside some interval -/
def Splits (l : List Interval) (a : Interval) : Prop := ∃ b ∈ l, b.lo < a.lo ∧ a.hi < b.hi

theorem remSpec_of_lt (l : List Interval) (a : Interval) (h : ∀ c ∈ l, a.hi < c.lo) : remSpec l a = l := by
  cases l with
  | nil => rfl
  | cons c r => simp [remSpec, h c (List.mem_cons_self ..)]

theorem remSpec_lo_bound (k : Nat) : ∀ (l : List Interval) (a : Interval),
    (∀ c ∈ l, k < c.lo) → ∀ c ∈ remSpec l a, k < c.lo := by
  intro l
  induction l with
  | nil => intro a _ c hc; simp [remSpec] at hc
  | cons b rest ih =>
    intro a hl c hc
    have hb := hl b (List.mem_cons_self ..)
    have hrest : ∀ c ∈ rest, k < c.lo := fun c hc => hl c (List.mem_cons_of_mem _ hc)
    unfold remSpec at hc
    split at hc
    · exact hl c hc
    · split at hc
      · rcases List.mem_cons.1 hc with rfl | hc
        · exact hb
        · exact ih a hrest c hc
      · rename_i h1 h2
        rcases List.mem_append.1 hc with hc | hc
        · unfold leftPiece at hc; split at hc
          · simp at hc; subst hc; exact hb
          · simp at hc
        · split at hc
          · rcases List.mem_cons.1 hc with rfl | hc
            · show k < a.hi + 1; omega
            · exact hrest c hc
          · exact ih a hrest c hc

theorem remSpec_wf : ∀ (l : List Interval) (a : Interval), WF l → a.lo ≤ a.hi → WF (remSpec l a) := by
  intro l
  induction l with
  | nil => intro a _ _; exact WF.nil
  | cons b rest ih =>
    intro a hl ha
    have hb := hl.head_valid
    have hrest := hl.head_lt
    unfold remSpec
    split
    · exact hl
    · split
      · exact WF.cons hb (ih a hl.tail ha) (remSpec_lo_bound _ rest a hrest)
      · rename_i h1 h2
        have htail : WF (if a.hi < b.hi then (⟨a.hi + 1, b.hi⟩ : Interval) :: rest else remSpec rest a) := by
          split
          · exact WF.cons (by show a.hi + 1 ≤ b.hi; omega) hl.tail (fun c hc => by have := hrest c hc; show b.hi + 1 < c.lo; omega)
          · exact ih a hl.tail ha
        unfold leftPiece
        split
        · rename_i h3
          refine WF.cons (by show b.lo ≤ a.lo - 1; omega) htail ?_
          intro c hc
          show a.lo - 1 + 1 < c.lo
          split at hc
          · rcases List.mem_cons.1 hc with rfl | hc
            · show a.lo - 1 + 1 < a.hi + 1; omega
            · have := hrest c hc; omega
          · have := remSpec_lo_bound (b.hi + 1) rest a hrest c hc; omega
        · simpa using htail

theorem remSpec_mem : ∀ (l : List Interval) (a : Interval) (x : Nat), WF l → a.lo ≤ a.hi →
    (Mem (remSpec l a) x ↔ Mem l x ∧ ¬ inIv a x) := by
  intro l
  induction l with
  | nil => intro a x _ _; simp [remSpec, Mem]
  | cons b rest ih =>
    intro a x hl ha
    have hb := hl.head_valid
    have hrest := hl.head_lt
    have hge : Mem rest x → b.hi + 1 < x := by
      rintro ⟨c, hc, hx⟩; have := hrest c hc; unfold inIv at hx; omega
    unfold remSpec
    split
    · rename_i h1
      constructor
      · intro h
        refine ⟨h, ?_⟩
        have := hl.mem_ge_head h
        unfold inIv; omega
      · exact fun h => h.1
    · split
      · rename_i h1 h2
        rw [mem_cons, ih a x hl.tail ha, mem_cons]
        unfold inIv; constructor
        · rintro (h | h)
          · exact ⟨Or.inl h, by omega⟩
          · exact ⟨Or.inr h.1, h.2⟩
        · rintro ⟨h | h, h'⟩
          · exact Or.inl h
          · exact Or.inr ⟨h, h'⟩
      · rename_i h1 h2
        rw [mem_append, mem_cons]
        have hleft : Mem (leftPiece b a) x ↔ (b.lo ≤ x ∧ x < a.lo) := by
          unfold leftPiece; split
          · simp only [Mem, List.mem_singleton, exists_eq_left, inIv]; omega
          · simp only [Mem, List.not_mem_nil, false_and, exists_false, false_iff]; omega
        have hright : Mem (if a.hi < b.hi then (⟨a.hi + 1, b.hi⟩ : Interval) :: rest else remSpec rest a) x ↔
            ((a.hi < x ∧ x ≤ b.hi) ∨ (Mem rest x ∧ ¬ inIv a x)) := by
          split
          · rw [mem_cons]; unfold inIv
            constructor
            · rintro (h | h)
              · exact Or.inl (by simp only at h; omega)
              · exact Or.inr ⟨h, by have := hge h; omega⟩
            · rintro (h | h)
              · exact Or.inl (by simp only; omega)
              · exact Or.inr h.1
          · rw [ih a x hl.tail ha]
            constructor
            · exact fun h => Or.inr h
            · rintro (h | h)
              · omega
              · exact h
        rw [hleft, hright]
        unfold inIv
        constructor
        · rintro (h | h | h)
          · exact ⟨Or.inl (by omega), by omega⟩
          · exact ⟨Or.inl (by omega), by omega⟩
          · exact ⟨Or.inr h.1, h.2⟩
        · rintro ⟨h | h, h'⟩
          · by_cases hx : x < a.lo
            · exact Or.inl (by omega)
            · exact Or.inr (Or.inl (by omega))
          · exact Or.inr (Or.inr ⟨h, h'⟩)


-- ---------------------------------------------------------------------------------------------
-- remove.rs scan + apply computes remSpec

/-- `remSpec` once `a.lo` is below everything that follows -/
def remTail : List Interval → Interval → List Interval
  | [], _ => []
  | b :: rest, a =>
    if a.hi < b.lo then b :: rest
    else if a.hi < b.hi then ⟨a.hi + 1, b.hi⟩ :: rest
    else remTail rest a

theorem remTail_of_lt (l : List Interval) (a : Interval) (h : ∀ c ∈ l, a.hi < c.lo) : remTail l a = l := by
  cases l with
  | nil => rfl
  | cons c r => simp [remTail, h c (List.mem_cons_self ..)]

theorem remSpec_eq_remTail : ∀ (l : List Interval) (a : Interval), (∀ c ∈ l, c.lo ≤ c.hi) → (∀ c ∈ l, a.lo ≤ c.lo) →
    remSpec l a = remTail l a := by
  intro l
  induction l with
  | nil => intro a _ _; rfl
  | cons b rest ih =>
    intro a hv hlo
    have h1 := hv b (List.mem_cons_self ..)
    have h2 := hlo b (List.mem_cons_self ..)
    unfold remSpec remTail
    split
    · rfl
    · rw [if_neg (by omega)]
      simp only [leftPiece, if_neg (show ¬ b.lo < a.lo by omega), List.nil_append]
      split
      · rfl
      · exact ih a (fun c hc => hv c (List.mem_cons_of_mem _ hc)) (fun c hc => hlo c (List.mem_cons_of_mem _ hc))

/-- the replace range describes: nothing to delete (`m = []`) or delete the block `m` after `p` -/
def RepFor (p m : List Interval) (rep : Replace) : Prop :=
  (m = [] ∧ (rep.count = none ∨ rep.count = some 0)) ∨ (m ≠ [] ∧ rep = ⟨some p.length, p.length + m.length⟩)

theorem IdxOk.zero_or_pre (pre x : List Interval) (a : Interval) (idx : Nat) (h : ∀ c ∈ pre, c.hi ≤ a.hi)
    (hidx : idx = 0 ∨ idx = pre.length) : IdxOk (pre ++ x) a idx := by
  rcases hidx with rfl | rfl
  · exact ⟨Nat.zero_le _, by simp⟩
  · exact IdxOk.pre pre x a h

theorem removeApply_of_repFor (p m q : List Interval) (rep : Replace) (cp : Bool) (h : RepFor p m rep) :
    ∃ idx, (idx = 0 ∨ rep.rs = some idx) ∧ removeApply (p ++ m ++ q) ⟨rep, none, cp⟩ = (p ++ q, .ok idx) := by
  rcases h with ⟨rfl, h | h⟩ | ⟨hm, rfl⟩
  · exact ⟨0, Or.inl rfl, by simp [removeApply, h]⟩
  · refine ⟨rep.rs.getD 0, ?_, by simp [removeApply, h]⟩
    cases rep.rs <;> simp
  · refine ⟨p.length, Or.inr rfl, ?_⟩
    rcases m with _ | ⟨x, _ | ⟨y, m'⟩⟩
    · exact absurd rfl hm
    · simp [removeApply, Replace.count, vecRemove_mid]
    · have := vecDrain_mid p (x :: y :: m') q
      simp only [List.append_assoc, List.cons_append, List.length_cons] at this
      simp [removeApply, Replace.count, this]

theorem RemScan.cons_done (b : Interval) (r : RemScan) (rm : Removal) (slots : List Interval)
    (h : r = .done rm slots) : r.cons b = .done rm (b :: slots) := by subst h; rfl

/-- scanning mode after the first touched slot: either nothing is marked for deletion yet
    (`rs` was set by `set_start(next_slot)` only) or the block `m` is -/
def Mode (p m : List Interval) (rep : Replace) : Prop :=
  (m = [] ∧ rep = ⟨some p.length, 0⟩ ∧ 1 ≤ p.length) ∨ (m ≠ [] ∧ rep = ⟨some p.length, p.length + m.length⟩)

theorem Mode.repFor {p m : List Interval} {rep : Replace} (h : Mode p m rep) : RepFor p m rep := by
  rcases h with ⟨rfl, rfl, h1⟩ | ⟨hm, rfl⟩
  · exact Or.inl ⟨rfl, Or.inl (by show (if p.length ≤ 0 then some (0 - p.length) else none) = none; rw [if_neg (by omega)])⟩
  · exact Or.inr ⟨hm, rfl⟩

theorem Mode.rs {p m : List Interval} {rep : Replace} (h : Mode p m rep) : rep.rs = some p.length := by
  rcases h with ⟨_, rfl, _⟩ | ⟨_, rfl⟩ <;> rfl

theorem idx_of_rs {n idx : Nat} {rep : Replace} (hrs : rep.rs = some n) (h : idx = 0 ∨ rep.rs = some idx) :
    idx = 0 ∨ idx = n := by
  rcases h with h | h
  · exact Or.inl h
  · rw [hrs] at h; exact Or.inr (Option.some.inj h).symm

theorem Mode.step {p m : List Interval} {rep : Replace} (h : Mode p m rep) (b : Interval) :
    (rep.setStart (p.length + m.length)).setEnd (p.length + m.length + 1) = ⟨some p.length, p.length + (m ++ [b]).length⟩ := by
  rcases h with ⟨rfl, rfl, h1⟩ | ⟨hm, rfl⟩
  · simp [Replace.setStart, Replace.setEnd]
  · simp [Replace.setStart, Replace.setEnd]; omega

theorem Mode.setEnd {p m : List Interval} {rep : Replace} (h : Mode p m rep) :
    RepFor p m (rep.setEnd (p.length + m.length)) := by
  rcases h with ⟨rfl, rfl, h1⟩ | ⟨hm, rfl⟩
  · exact Or.inl ⟨rfl, Or.inr (by simp [Replace.count, Replace.setEnd])⟩
  · exact Or.inr ⟨hm, by simp [Replace.setEnd]⟩

theorem rscan_tail : ∀ (suf p m : List Interval) (a : Interval) (cp : Bool) (rep : Replace),
    WF suf → (∀ c ∈ suf, a.lo < c.lo) → Mode p m rep →
    ∃ rm' slots idx, (idx = 0 ∨ idx = p.length) ∧ removeScan suf (p.length + m.length) ⟨rep, none, cp⟩ a = .done rm' slots ∧
      removeApply (p ++ m ++ slots) rm' = (p ++ remTail suf a, .ok idx) := by
  intro suf
  induction suf with
  | nil =>
    intro p m a cp rep _ _ hmode
    obtain ⟨idx, hi, h⟩ := removeApply_of_repFor p m [] rep cp hmode.repFor
    exact ⟨_, _, idx, idx_of_rs hmode.rs hi, rfl, by simpa [remTail] using h⟩
  | cons b rest ih =>
    intro p m a cp rep hwf hlo hmode
    have hb := hwf.head_valid
    have hrest := hwf.head_lt
    have hab := hlo b (List.mem_cons_self ..)
    have hlist : ∀ sl : List Interval, p ++ m ++ b :: sl = p ++ (m ++ [b]) ++ sl := by intro sl; simp
    have hm' : m ++ [b] ≠ [] := by simp
    rcases cmp_cases a.hi b.hi with ⟨hc, hh⟩ | ⟨hc, hh⟩ | ⟨hc, hh⟩
    · -- a.hi < b.hi : stop here
      by_cases hco : b.lo ≤ a.hi + 1
      · obtain ⟨idx, hi, h⟩ := removeApply_of_repFor p m (⟨a.hi + 1, b.hi⟩ :: rest) _ cp hmode.setEnd
        refine ⟨_, _, idx, idx_of_rs (rep := rep.setEnd (p.length + m.length)) hmode.rs hi, by simp only [removeScan, cmp_lt.2 hab, hc, Interval.shouldCoalesce, hco, decide_true, if_true]; rfl, ?_⟩
        rw [h]
        simp only [remTail]
        by_cases hadj : a.hi < b.lo
        · rw [if_pos hadj]
          have : (⟨a.hi + 1, b.hi⟩ : Interval) = b := by
            have : b.lo = a.hi + 1 := by omega
            rw [← this]
          rw [this]
        · rw [if_neg hadj, if_pos hh]
      · obtain ⟨idx, hi, h⟩ := removeApply_of_repFor p m (b :: rest) rep cp hmode.repFor
        refine ⟨_, _, idx, idx_of_rs hmode.rs hi, by simp only [removeScan, cmp_lt.2 hab, hc, Interval.shouldCoalesce, hco, decide_false, Bool.false_eq_true, if_false]; rfl, ?_⟩
        rw [h]
        simp only [remTail, if_pos (show a.hi < b.lo by omega)]
    · -- a.hi = b.hi : delete b, stop
      have hrf : RepFor p (m ++ [b]) ((rep.setStart (p.length + m.length)).setEnd (p.length + m.length + 1)) :=
        Or.inr ⟨hm', hmode.step b⟩
      obtain ⟨idx, hi, h⟩ := removeApply_of_repFor p (m ++ [b]) rest _ cp hrf
      refine ⟨_, _, idx, idx_of_rs (by rw [hmode.step b]) hi, by simp only [removeScan, cmp_lt.2 hab, hc]; rfl, ?_⟩
      rw [hlist, h]
      simp only [remTail, if_neg (show ¬ a.hi < b.lo by omega), if_neg (show ¬ a.hi < b.hi by omega)]
      rw [remTail_of_lt rest a (fun c hc' => by have := hrest c hc'; omega)]
    · -- b.hi < a.hi : delete b, continue
      have hmode' : Mode p (m ++ [b]) ((rep.setStart (p.length + m.length)).setEnd (p.length + m.length + 1)) :=
        Or.inr ⟨hm', hmode.step b⟩
      obtain ⟨rm', slots, idx, hidx, hs, hap⟩ := ih p (m ++ [b]) a cp _ hwf.tail (fun c hc' => by have := hrest c hc'; omega) hmode'
      refine ⟨rm', b :: slots, idx, hidx, ?_, ?_⟩
      · simp only [removeScan, cmp_lt.2 hab, hc]
        apply RemScan.cons_done
        rw [show p.length + (m ++ [b]).length = p.length + m.length + 1 by simp; omega] at hs
        exact hs
      · rw [hlist, hap]
        simp only [remTail, if_neg (show ¬ a.hi < b.lo by omega), if_neg (show ¬ a.hi < b.hi by omega)]


theorem not_splits_of_lo_le (l : List Interval) (a : Interval) (h : ∀ c ∈ l, a.lo ≤ c.lo) : ¬ Splits l a := by
  rintro ⟨c, hc, h1, _⟩; have := h c hc; omega

theorem splits_cons (b : Interval) (rest : List Interval) (a : Interval) :
    Splits (b :: rest) a ↔ (b.lo < a.lo ∧ a.hi < b.hi) ∨ Splits rest a := by
  simp [Splits]

/-- what `remove::remove` must return (slots and result) for `pre ++ suf` when scanning `suf` -/
def RemOutcome (pre suf : List Interval) (a : Interval) (cp : Bool) (r : List Interval × Except Error Nat) : Prop :=
  (Splits suf a ∧ cp = false ∧ r = (pre ++ suf, .error .limitExceeded)) ∨
  ((cp = true ∨ ¬ Splits suf a) ∧ ∃ idx, IdxOk (pre ++ remSpec suf a) a idx ∧ r = (pre ++ remSpec suf a, .ok idx))

theorem rscan_fresh : ∀ (suf pre : List Interval) (a : Interval) (cp : Bool), WF suf → a.lo ≤ a.hi → (∀ c ∈ pre, c.hi ≤ a.hi) →
    match removeScan suf pre.length ⟨Replace.init, none, cp⟩ a with
    | .found idx slots => RemOutcome pre suf a cp (pre ++ slots, .ok idx)
    | .done rm slots => RemOutcome pre suf a cp (removeApply (pre ++ slots) rm) := by
  intro suf
  induction suf with
  | nil =>
    intro pre a cp _ _ hpre
    simp only [removeScan]
    refine Or.inr ⟨Or.inr (by simp [Splits]), 0, ⟨Nat.zero_le _, by simp⟩, ?_⟩
    simp [removeApply, Replace.init, Replace.count, remSpec]
  | cons b rest ih =>
    intro pre a cp hwf ha hpre
    have hb := hwf.head_valid
    have hrest := hwf.head_lt
    have hvalid : ∀ c ∈ rest, c.lo ≤ c.hi := fun c hc => hwf.1 c (List.mem_cons_of_mem _ hc)
    -- common: result equals the reference and no split is possible
    have ok_of : ∀ (r : List Interval × Except Error Nat) (idx : Nat), ¬ Splits (b :: rest) a →
        IdxOk (pre ++ remSpec (b :: rest) a) a idx →
        r = (pre ++ remSpec (b :: rest) a, .ok idx) → RemOutcome pre (b :: rest) a cp r :=
      fun r idx hns hi hr => Or.inr ⟨Or.inr hns, idx, hi, hr⟩
    have hzero : ∀ x : List Interval, IdxOk (pre ++ x) a 0 := fun x => ⟨Nat.zero_le _, by simp⟩
    have hrs1 : ((Replace.init.setStart pre.length).setEnd (pre.length + 1)).rs = some pre.length := by
      simp [Replace.init, Replace.setStart, Replace.setEnd]
    rcases cmp_cases a.lo b.lo with ⟨hcl, hl⟩ | ⟨hcl, hl⟩ | ⟨hcl, hl⟩ <;>
    rcases cmp_cases a.hi b.hi with ⟨hch, hh⟩ | ⟨hch, hh⟩ | ⟨hch, hh⟩
    · -- (lt, lt)
      have hns : ¬ Splits (b :: rest) a := not_splits_of_lo_le _ _ (by
        intro c hc; rcases List.mem_cons.1 hc with rfl | hc
        · omega
        · have := hrest c hc; omega)
      by_cases hco : b.lo ≤ a.hi + 1
      · simp only [removeScan, hcl, hch, Interval.shouldCoalesce, hco, decide_true, if_true]
        refine ok_of _ 0 hns (hzero _) ?_
        have : remSpec (b :: rest) a = ⟨a.hi + 1, b.hi⟩ :: rest := by
          simp only [remSpec]
          by_cases hadj : a.hi < b.lo
          · rw [if_pos hadj]
            have : b.lo = a.hi + 1 := by omega
            rw [← this]
          · rw [if_neg hadj, if_neg (show ¬ b.hi < a.lo by omega), if_pos hh]
            simp [leftPiece, show ¬ b.lo < a.lo by omega]
        rw [this]
        simp [removeApply, Replace.init, Replace.setEnd, Replace.count]
      · simp only [removeScan, hcl, hch, Interval.shouldCoalesce, hco, decide_false, Bool.false_eq_true, if_false]
        refine ok_of _ 0 hns (hzero _) ?_
        simp [removeApply, Replace.init, Replace.count, remSpec, show a.hi < b.lo by omega]
    · -- (lt, eq)
      have hns : ¬ Splits (b :: rest) a := not_splits_of_lo_le _ _ (by
        intro c hc; rcases List.mem_cons.1 hc with rfl | hc
        · omega
        · have := hrest c hc; omega)
      simp only [removeScan, hcl, hch]
      have hrf : RepFor pre [b] ((Replace.init.setStart pre.length).setEnd (pre.length + 1)) :=
        Or.inr ⟨by simp, by simp [Replace.init, Replace.setStart, Replace.setEnd]⟩
      obtain ⟨idx, hi, h⟩ := removeApply_of_repFor pre [b] rest _ cp hrf
      refine ok_of _ idx hns (IdxOk.zero_or_pre pre _ a idx hpre (idx_of_rs hrs1 hi)) ?_
      rw [show pre ++ b :: rest = pre ++ [b] ++ rest by simp, h]
      simp only [remSpec, if_neg (show ¬ a.hi < b.lo by omega), if_neg (show ¬ b.hi < a.lo by omega),
        if_neg (show ¬ a.hi < b.hi by omega), leftPiece, if_neg (show ¬ b.lo < a.lo by omega), List.nil_append]
      rw [remSpec_of_lt rest a (fun c hc => by have := hrest c hc; omega)]
    · -- (lt, gt)
      have hns : ¬ Splits (b :: rest) a := not_splits_of_lo_le _ _ (by
        intro c hc; rcases List.mem_cons.1 hc with rfl | hc
        · omega
        · have := hrest c hc; omega)
      simp only [removeScan, hcl, hch]
      have hmode : Mode pre [b] ((Replace.init.setStart pre.length).setEnd (pre.length + 1)) :=
        Or.inr ⟨by simp, by simp [Replace.init, Replace.setStart, Replace.setEnd]⟩
      obtain ⟨rm', slots, idx, hidx, hs, hap⟩ := rscan_tail rest pre [b] a cp _ hwf.tail (fun c hc => by have := hrest c hc; omega) hmode
      rw [show pre.length + [b].length = pre.length + 1 by simp] at hs
      rw [RemScan.cons_done b _ rm' slots hs]
      refine ok_of _ idx hns (IdxOk.zero_or_pre pre _ a idx hpre hidx) ?_
      rw [show pre ++ b :: slots = pre ++ [b] ++ slots by simp, hap]
      simp only [remSpec, if_neg (show ¬ a.hi < b.lo by omega), if_neg (show ¬ b.hi < a.lo by omega),
        if_neg (show ¬ a.hi < b.hi by omega), leftPiece, if_neg (show ¬ b.lo < a.lo by omega), List.nil_append]
      rw [remSpec_eq_remTail rest a hvalid (fun c hc => by have := hrest c hc; omega)]
    · -- (eq, lt)
      have hns : ¬ Splits (b :: rest) a := not_splits_of_lo_le _ _ (by
        intro c hc; rcases List.mem_cons.1 hc with rfl | hc
        · omega
        · have := hrest c hc; omega)
      simp only [removeScan, hcl, hch]
      refine ok_of _ pre.length hns (IdxOk.pre pre _ a hpre) ?_
      simp only [remSpec, if_neg (show ¬ a.hi < b.lo by omega), if_neg (show ¬ b.hi < a.lo by omega),
        if_pos hh, leftPiece, if_neg (show ¬ b.lo < a.lo by omega), List.nil_append]
    · -- (eq, eq)
      have hns : ¬ Splits (b :: rest) a := not_splits_of_lo_le _ _ (by
        intro c hc; rcases List.mem_cons.1 hc with rfl | hc
        · omega
        · have := hrest c hc; omega)
      simp only [removeScan, hcl, hch]
      have hrf : RepFor pre [b] ((Replace.init.setStart pre.length).setEnd (pre.length + 1)) :=
        Or.inr ⟨by simp, by simp [Replace.init, Replace.setStart, Replace.setEnd]⟩
      obtain ⟨idx, hi, h⟩ := removeApply_of_repFor pre [b] rest _ cp hrf
      refine ok_of _ idx hns (IdxOk.zero_or_pre pre _ a idx hpre (idx_of_rs hrs1 hi)) ?_
      rw [show pre ++ b :: rest = pre ++ [b] ++ rest by simp, h]
      simp only [remSpec, if_neg (show ¬ a.hi < b.lo by omega), if_neg (show ¬ b.hi < a.lo by omega),
        if_neg (show ¬ a.hi < b.hi by omega), leftPiece, if_neg (show ¬ b.lo < a.lo by omega), List.nil_append]
      rw [remSpec_of_lt rest a (fun c hc => by have := hrest c hc; omega)]
    · -- (eq, gt)
      have hns : ¬ Splits (b :: rest) a := not_splits_of_lo_le _ _ (by
        intro c hc; rcases List.mem_cons.1 hc with rfl | hc
        · omega
        · have := hrest c hc; omega)
      simp only [removeScan, hcl, hch]
      have hmode : Mode pre [b] ((Replace.init.setStart pre.length).setEnd (pre.length + 1)) :=
        Or.inr ⟨by simp, by simp [Replace.init, Replace.setStart, Replace.setEnd]⟩
      obtain ⟨rm', slots, idx, hidx, hs, hap⟩ := rscan_tail rest pre [b] a cp _ hwf.tail (fun c hc => by have := hrest c hc; omega) hmode
      rw [show pre.length + [b].length = pre.length + 1 by simp] at hs
      rw [RemScan.cons_done b _ rm' slots hs]
      refine ok_of _ idx hns (IdxOk.zero_or_pre pre _ a idx hpre hidx) ?_
      rw [show pre ++ b :: slots = pre ++ [b] ++ slots by simp, hap]
      simp only [remSpec, if_neg (show ¬ a.hi < b.lo by omega), if_neg (show ¬ b.hi < a.lo by omega),
        if_neg (show ¬ a.hi < b.hi by omega), leftPiece, if_neg (show ¬ b.lo < a.lo by omega), List.nil_append]
      rw [remSpec_eq_remTail rest a hvalid (fun c hc => by have := hrest c hc; omega)]
    · -- (gt, lt): a strictly inside b: split
      have hsp : Splits (b :: rest) a := ⟨b, List.mem_cons_self .., hl, hh⟩
      cases cp with
      | false =>
        simp only [removeScan, hcl, hch, Bool.false_eq_true, if_false]
        exact Or.inl ⟨hsp, rfl, by simp [removeApply]⟩
      | true =>
        simp only [removeScan, hcl, hch, if_true]
        have hspec : remSpec (b :: rest) a = ⟨b.lo, a.lo - 1⟩ :: ⟨a.hi + 1, b.hi⟩ :: rest := by
          simp only [remSpec, if_neg (show ¬ a.hi < b.lo by omega), if_neg (show ¬ b.hi < a.lo by omega),
            if_pos hh, leftPiece, if_pos hl, List.cons_append, List.nil_append]
        refine Or.inr ⟨Or.inl rfl, pre.length + 1, ?_, ?_⟩
        · rw [hspec]; exact IdxOk.pre_succ pre _ _ a hpre (by show a.lo - 1 ≤ a.hi; omega)
        have hv := vecInsert_mid (pre ++ [⟨b.lo, a.lo - 1⟩]) rest ⟨a.hi + 1, b.hi⟩
        simp only [List.length_append, List.length_cons, List.length_nil, List.append_assoc, List.cons_append, List.nil_append] at hv
        simp only [removeApply, Replace.init, Replace.setStart, Replace.setEnd, if_true, hv]
        simp only [remSpec, if_neg (show ¬ a.hi < b.lo by omega), if_neg (show ¬ b.hi < a.lo by omega),
          if_pos hh, leftPiece, if_pos hl, List.cons_append, List.nil_append]
    · -- (gt, eq): suffix of b
      have hns : ¬ Splits (b :: rest) a := by
        rw [splits_cons]; rintro (h | ⟨c, hc, h1, h2⟩)
        · omega
        · have := hrest c hc; omega
      simp only [removeScan, hcl, hch]
      have hspec : remSpec (b :: rest) a = ⟨b.lo, a.lo - 1⟩ :: rest := by
        simp only [remSpec, if_neg (show ¬ a.hi < b.lo by omega), if_neg (show ¬ b.hi < a.lo by omega),
          if_neg (show ¬ a.hi < b.hi by omega), leftPiece, if_pos hl, List.cons_append, List.nil_append]
        rw [remSpec_of_lt rest a (fun c hc => by have := hrest c hc; omega)]
      refine ok_of _ (pre.length + 1) hns ?_ ?_
      · rw [hspec]; exact IdxOk.pre_succ pre _ _ a hpre (by show a.lo - 1 ≤ a.hi; omega)
      · rw [hspec]
    · -- (gt, gt)
      by_cases hco : a.lo ≤ b.hi + 1
      · have hns : ¬ Splits (b :: rest) a := by
          rw [splits_cons]; rintro (h | ⟨c, hc, h1, h2⟩)
          · omega
          · have := hrest c hc; omega
        simp only [removeScan, hcl, hch, Interval.shouldCoalesce, hco, decide_true, if_true]
        have hmode : Mode (pre ++ [⟨b.lo, a.lo - 1⟩]) [] (Replace.init.setStart (pre.length + 1)) :=
          Or.inl ⟨rfl, by simp [Replace.init, Replace.setStart], by simp⟩
        obtain ⟨rm', slots, idx, hidx, hs, hap⟩ := rscan_tail rest (pre ++ [⟨b.lo, a.lo - 1⟩]) [] a cp _ hwf.tail
          (fun c hc => by have := hrest c hc; omega) hmode
        rw [show (pre ++ [(⟨b.lo, a.lo - 1⟩ : Interval)]).length + ([] : List Interval).length = pre.length + 1 by simp] at hs
        rw [RemScan.cons_done _ _ rm' slots hs]
        have hspec : pre ++ remSpec (b :: rest) a = (pre ++ [⟨b.lo, a.lo - 1⟩]) ++ remTail rest a := by
          rw [← remSpec_eq_remTail rest a hvalid (fun c hc => by have := hrest c hc; omega)]
          simp only [remSpec, if_neg (show ¬ a.hi < b.lo by omega)]
          by_cases hadj : b.hi < a.lo
          · rw [if_pos hadj]
            have : (⟨b.lo, a.lo - 1⟩ : Interval) = b := by
              have : b.hi = a.lo - 1 := by omega
              rw [← this]
            rw [this]; simp
          · rw [if_neg hadj, if_neg (show ¬ a.hi < b.hi by omega)]
            simp [leftPiece, hl]
        refine ok_of _ idx hns ?_ ?_
        · rw [hspec]
          refine IdxOk.zero_or_pre _ _ a idx ?_ hidx
          intro c hc; rcases List.mem_append.1 hc with hc | hc
          · exact hpre c hc
          · rw [List.mem_singleton.1 hc]; show a.lo - 1 ≤ a.hi; omega
        · rw [show pre ++ (⟨b.lo, a.lo - 1⟩ : Interval) :: slots = pre ++ [⟨b.lo, a.lo - 1⟩] ++ [] ++ slots by simp, hap, hspec]
      · simp only [removeScan, hcl, hch, Interval.shouldCoalesce, hco, decide_false, Bool.false_eq_true, if_false]
        have := ih (pre ++ [b]) a cp hwf.tail ha (by
          intro c hc; rcases List.mem_append.1 hc with hc | hc
          · exact hpre c hc
          · rw [List.mem_singleton.1 hc]; omega)
        rw [show (pre ++ [b]).length = pre.length + 1 by simp] at this
        have hspec : remSpec (b :: rest) a = b :: remSpec rest a := by
          simp only [remSpec, if_neg (show ¬ a.hi < b.lo by omega), if_pos (show b.hi < a.lo by omega)]
        have hsplit : Splits (b :: rest) a ↔ Splits rest a := by
          rw [splits_cons]; constructor
          · rintro (h | h); omega; exact h
          · exact Or.inr
        have conv : ∀ r, RemOutcome (pre ++ [b]) rest a cp r → RemOutcome pre (b :: rest) a cp r := by
          intro r hr
          unfold RemOutcome at hr ⊢
          rw [hsplit, hspec]
          simpa using hr
        cases hsc : removeScan rest (pre.length + 1) ⟨Replace.init, none, cp⟩ a with
        | found idx slots =>
          rw [hsc] at this
          simp only [RemScan.cons]
          have := conv _ this
          simpa using this
        | done rm slots =>
          rw [hsc] at this
          simp only [RemScan.cons]
          have := conv _ this
          simpa using this

/-- `can_push_range` -/
def canPushOf (limit : Option Nat) (len : Nat) : Bool :=
  match limit with
  | some lim => decide (lim > len + 1)
  | none => true

theorem removeAt_unfold (l : List Interval) (a : Interval) (k : Nat) (limit : Option Nat) :
    removeAt l a k limit =
      match removeScan (l.drop k) k ⟨Replace.init, none, canPushOf limit l.length⟩ a with
      | .found index slots => (l.take k ++ slots, .ok index)
      | .done rm slots => removeApply (l.take k ++ slots) rm := rfl

/-- `remove::remove` on a well-formed list with a sound scan hint computes `remSpec`, or reports
    `LimitExceeded` (list untouched) exactly when a split is needed and `limit ≤ len + 1` -/
theorem removeAt_eq_remSpec (l : List Interval) (a : Interval) (k : Nat) (limit : Option Nat)
    (hwf : WF l) (ha : a.lo ≤ a.hi) (hk : k ≤ l.length) (hint : ∀ b ∈ l.take k, b.hi + 1 < a.lo) :
    (Splits l a ∧ canPushOf limit l.length = false ∧ removeAt l a k limit = (l, .error .limitExceeded)) ∨
    ((canPushOf limit l.length = true ∨ ¬ Splits l a) ∧
      ∃ idx, IdxOk (remSpec l a) a idx ∧ removeAt l a k limit = (remSpec l a, .ok idx)) := by
  have hspecP : ∀ (p s : List Interval), (∀ b ∈ p, b.lo ≤ b.hi) → (∀ b ∈ p, b.hi + 1 < a.lo) →
      remSpec (p ++ s) a = p ++ remSpec s a ∧ (Splits (p ++ s) a ↔ Splits s a) := by
    intro p
    induction p with
    | nil => intro s _ _; exact ⟨rfl, Iff.rfl⟩
    | cons b rest ih =>
      intro s hv hlt
      have h1 := hv b (List.mem_cons_self ..)
      have h2 := hlt b (List.mem_cons_self ..)
      have := ih s (fun c hc => hv c (List.mem_cons_of_mem _ hc)) (fun c hc => hlt c (List.mem_cons_of_mem _ hc))
      constructor
      · simp only [List.cons_append, remSpec, if_neg (show ¬ a.hi < b.lo by omega), if_pos (show b.hi < a.lo by omega), this.1]
      · rw [List.cons_append, splits_cons, this.2]
        constructor
        · rintro (h | h); omega; exact h
        · exact Or.inr
  have hsp := hspecP (l.take k) (l.drop k) (hwf.take k).1 hint
  rw [List.take_append_drop] at hsp
  have hlen : (l.take k).length = k := by simp; omega
  have := rscan_fresh (l.drop k) (l.take k) a (canPushOf limit l.length) (hwf.drop k) ha
    (fun c hc => by have := hint c hc; omega)
  rw [hlen] at this
  have conv : ∀ r, RemOutcome (l.take k) (l.drop k) a (canPushOf limit l.length) r →
      (Splits l a ∧ canPushOf limit l.length = false ∧ r = (l, .error .limitExceeded)) ∨
      ((canPushOf limit l.length = true ∨ ¬ Splits l a) ∧ ∃ idx, IdxOk (remSpec l a) a idx ∧ r = (remSpec l a, .ok idx)) := by
    intro r hr
    unfold RemOutcome at hr
    rw [List.take_append_drop, ← hsp.1, ← hsp.2] at hr
    exact hr
  rw [removeAt_unfold]
  cases hsc : removeScan (l.drop k) k ⟨Replace.init, none, canPushOf limit l.length⟩ a with
  | found idx slots =>
    rw [hsc] at this
    exact conv _ this
  | done rm slots =>
    rw [hsc] at this
    exact conv _ this


theorem leftPiece_length_le (b a : Interval) : (leftPiece b a).length ≤ 1 := by
  unfold leftPiece; split <;> simp

theorem remSpec_length_le : ∀ (l : List Interval) (a : Interval), (remSpec l a).length ≤ l.length + 1 := by
  intro l
  induction l with
  | nil => intro a; simp [remSpec]
  | cons b rest ih =>
    intro a; unfold remSpec
    split
    · simp
    · split
      · have := ih a; simp; omega
      · have h1 := leftPiece_length_le b a
        split
        · simp; omega
        · have := ih a; simp; omega

theorem remSpec_length_le_of_not_splits : ∀ (l : List Interval) (a : Interval), ¬ Splits l a →
    (remSpec l a).length ≤ l.length := by
  intro l
  induction l with
  | nil => intro a _; simp [remSpec]
  | cons b rest ih =>
    intro a hns
    rw [splits_cons] at hns
    have hns1 : ¬ (b.lo < a.lo ∧ a.hi < b.hi) := fun h => hns (Or.inl h)
    have hns2 : ¬ Splits rest a := fun h => hns (Or.inr h)
    unfold remSpec
    split
    · simp
    · split
      · have := ih a hns2; simp; omega
      · unfold leftPiece
        split
        · rename_i hlt
          rw [if_neg (by omega)]
          have := ih a hns2; simp; omega
        · split
          · simp
          · have := ih a hns2; simp; omega


-- ---------------------------------------------------------------------------------------------
-- IvSet-level characterisations

theorem underLimit_false_iff (limit : Option Nat) (len : Nat) :
    underLimit limit len = false ↔ ∃ L, limit = some L ∧ L ≤ len := by
  cases limit with
  | none => simp [underLimit]
  | some L => simp [underLimit]

theorem canPushOf_false_iff (limit : Option Nat) (len : Nat) :
    canPushOf limit len = false ↔ ∃ L, limit = some L ∧ L ≤ len + 1 := by
  cases limit with
  | none => simp [canPushOf]
  | some L => simp [canPushOf]

/-- the exact `LimitExceeded` condition of `insert`: the set is non-empty, the new interval neither
    overlaps nor is adjacent to any stored interval, and the set already holds `limit` or more intervals -/
def InsertLimitHit (s : IvSet) (r : Interval) : Prop :=
  s.ivs ≠ [] ∧ (∀ b ∈ s.ivs, ¬ Touches r b) ∧ ∃ L, s.limit = some L ∧ L ≤ s.ivs.length

/-- the exact `LimitExceeded` condition of `remove`: `r` lies strictly inside one stored interval
    (a split is needed) and `limit ≤ interval_len + 1` -/
def RemoveLimitHit (s : IvSet) (r : Interval) : Prop :=
  Splits s.ivs r ∧ ∃ L, s.limit = some L ∧ L ≤ s.ivs.length + 1

theorem insertAt_char (s : IvSet) (r : Interval) (k : Nat) (hwf : WF s.ivs) (hr : r.lo ≤ r.hi) (hne : s.ivs ≠ [])
    (hk : k ≤ s.ivs.length) (hint : ∀ b ∈ s.ivs.take k, b.hi + 1 < r.lo) :
    ((∃ idx, IdxOk (insSpec s.ivs r) r idx ∧ insertAt s.ivs r k s.limit = .ok (insSpec s.ivs r, idx)) ∧ ¬ InsertLimitHit s r) ∨
    (insertAt s.ivs r k s.limit = .error .limitExceeded ∧ InsertLimitHit s r) := by
  have h := insertAt_eq_insSpec s.ivs r k s.limit hwf hr hk hint
  unfold InsOutcome at h
  have hlen := insSpec_length_succ_iff s.ivs r hwf hr
  by_cases hc : (insSpec s.ivs r).length = s.ivs.length + 1 ∧ underLimit s.limit s.ivs.length = false
  · rw [if_pos hc] at h
    exact Or.inr ⟨h, hne, hlen.1 hc.1, (underLimit_false_iff _ _).1 hc.2⟩
  · rw [if_neg hc] at h
    refine Or.inl ⟨h, ?_⟩
    rintro ⟨_, h1, h2⟩
    exact hc ⟨hlen.2 h1, (underLimit_false_iff _ _).2 h2⟩

theorem isEmpty_iff (l : List Interval) : l.isEmpty = true ↔ l = [] := by cases l <;> simp

theorem insert_char (s : IvSet) (r : Interval) (hwf : WF s.ivs) (hr : r.lo ≤ r.hi) :
    (s.insert r = .ok ⟨s.limit, insSpec s.ivs r⟩ ∧ ¬ InsertLimitHit s r) ∨
    (s.insert r = .error .limitExceeded ∧ InsertLimitHit s r) := by
  unfold IvSet.insert
  by_cases he : s.ivs = []
  · refine Or.inl ⟨by simp [he, insSpec], fun h => h.1 he⟩
  · rw [if_neg (by rw [isEmpty_iff]; exact he)]
    have hh := indexFor_hint s.ivs r hwf
    rcases insertAt_char s r _ hwf hr he hh.1 hh.2 with ⟨⟨idx, _, h⟩, hn⟩ | ⟨h, hy⟩
    · exact Or.inl ⟨by rw [h], hn⟩
    · exact Or.inr ⟨by rw [h], hy⟩

theorem insertFront_char (s : IvSet) (r : Interval) (hwf : WF s.ivs) (hr : r.lo ≤ r.hi) :
    (s.insertFront r = .ok ⟨s.limit, insSpec s.ivs r⟩ ∧ ¬ InsertLimitHit s r) ∨
    (s.insertFront r = .error .limitExceeded ∧ InsertLimitHit s r) := by
  unfold IvSet.insertFront
  by_cases he : s.ivs = []
  · refine Or.inl ⟨by simp [he, insSpec], fun h => h.1 he⟩
  · rw [if_neg (by rw [isEmpty_iff]; exact he)]
    rcases insertAt_char s r 0 hwf hr he (by omega) (by simp) with ⟨⟨idx, _, h⟩, hn⟩ | ⟨h, hy⟩
    · exact Or.inl ⟨by rw [h], hn⟩
    · exact Or.inr ⟨by rw [h], hy⟩

theorem remove_char (s : IvSet) (r : Interval) (hwf : WF s.ivs) (hr : r.lo ≤ r.hi) :
    (s.remove r = (⟨s.limit, remSpec s.ivs r⟩, .ok ()) ∧ ¬ RemoveLimitHit s r) ∨
    (s.remove r = (s, .error .limitExceeded) ∧ RemoveLimitHit s r) := by
  unfold IvSet.remove
  by_cases he : s.ivs = []
  · refine Or.inl ⟨?_, fun h => ?_⟩
    · cases s; simp_all [remSpec]
    · obtain ⟨⟨b, hb, _⟩, _⟩ := h; rw [he] at hb; simp at hb
  · rw [if_neg (by rw [isEmpty_iff]; exact he)]
    have hh := indexFor_hint s.ivs r hwf
    rcases removeAt_eq_remSpec s.ivs r _ s.limit hwf hr hh.1 hh.2 with ⟨hs, hcp, h⟩ | ⟨hc, idx, _, h⟩
    · refine Or.inr ⟨by rw [h], hs, (canPushOf_false_iff _ _).1 hcp⟩
    · refine Or.inl ⟨by rw [h], ?_⟩
      rintro ⟨hs, hl⟩
      rcases hc with hc | hc
      · have := (canPushOf_false_iff _ _).2 hl; rw [hc] at this; cases this
      · exact hc hs


-- ---------------------------------------------------------------------------------------------
-- union (`set_operation` with `insert`, threading the returned index as the next scan hint)

theorem unionLoop_spec (limit : Option Nat) : ∀ (rs l : List Interval) (idx : Nat), WF rs → WF l →
    idx ≤ l.length → (∀ r ∈ rs, ∀ b ∈ l.take idx, b.hi + 1 < r.lo) →
    WF (unionLoop limit rs l idx).1 ∧
    (∀ x, Mem l x → Mem (unionLoop limit rs l idx).1 x) ∧
    (∀ x, Mem (unionLoop limit rs l idx).1 x → Mem l x ∨ Mem rs x) ∧
    ((unionLoop limit rs l idx).2 = .ok () → ∀ x, Mem rs x → Mem (unionLoop limit rs l idx).1 x) ∧
    ((unionLoop limit rs l idx).2 = .ok () ∨ (unionLoop limit rs l idx).2 = .error .limitExceeded) := by
  intro rs
  induction rs with
  | nil =>
    intro l idx _ hl _ _
    simp only [unionLoop]
    exact ⟨hl, fun x h => h, fun x h => Or.inl h, fun _ x h => absurd h (mem_nil x), Or.inl (by first | rfl | trivial)⟩
  | cons r rest ih =>
    intro l idx hrs hl hidx hhint
    have hr := hrs.head_valid
    have hio := insertAt_eq_insSpec l r idx limit hl hr hidx (hhint r (List.mem_cons_self ..))
    unfold InsOutcome at hio
    simp only [unionLoop]
    split at hio
    · rw [hio]; simp only
      exact ⟨hl, fun x h => h, fun x h => Or.inl h, fun h => by simp at h, Or.inr (by first | rfl | trivial)⟩
    · obtain ⟨idx', hidx', he⟩ := hio
      rw [he]; simp only
      have hwf1 := insSpec_wf l r hl hr
      have hmem1 := fun x => insSpec_mem l r x hl hr
      have := ih (insSpec l r) idx' hrs.tail hwf1 hidx'.1 (by
        intro r' hr' b hb
        have h1 := hidx'.2 b hb
        have h2 := hrs.head_lt r' hr'
        omega)
      obtain ⟨h1, h2, h3, h4, h5⟩ := this
      refine ⟨h1, ?_, ?_, ?_, h5⟩
      · intro x hx; exact h2 x ((hmem1 x).2 (Or.inl hx))
      · intro x hx
        rcases h3 x hx with h | h
        · rcases (hmem1 x).1 h with h | h
          · exact Or.inl h
          · exact Or.inr ((mem_cons ..).2 (Or.inl h))
        · exact Or.inr ((mem_cons ..).2 (Or.inr h))
      · intro hok x hx
        rcases (mem_cons ..).1 hx with h | h
        · exact h2 x ((hmem1 x).2 (Or.inr h))
        · exact h4 hok x h

theorem union_spec (s other : IvSet) (hs : WF s.ivs) (ho : WF other.ivs) :
    WF (s.union other).1.ivs ∧ (s.union other).1.limit = s.limit ∧
    (∀ x, Mem s.ivs x → Mem (s.union other).1.ivs x) ∧
    (∀ x, Mem (s.union other).1.ivs x → Mem s.ivs x ∨ Mem other.ivs x) ∧
    ((s.union other).2 = .ok () → ∀ x, Mem other.ivs x → Mem (s.union other).1.ivs x) ∧
    ((s.union other).2 = .ok () ∨ (s.union other).2 = .error .limitExceeded) := by
  unfold IvSet.union
  by_cases he : s.ivs = []
  · rw [if_pos (by rw [isEmpty_iff]; exact he)]
    simp only [he]
    exact ⟨ho, (by first | rfl | trivial), fun x h => absurd h (mem_nil x), fun x h => Or.inr h, fun _ x h => h, Or.inl (by first | rfl | trivial)⟩
  · rw [if_neg (by rw [isEmpty_iff]; exact he)]
    cases hoi : other.ivs with
    | nil =>
      simp only
      exact ⟨hs, (by first | rfl | trivial), fun x h => h, fun x h => Or.inl h, fun _ x h => absurd h (mem_nil x), Or.inl (by first | rfl | trivial)⟩
    | cons r rest =>
      simp only
      rw [hoi] at ho
      have hh := indexFor_hint s.ivs r hs
      have := unionLoop_spec s.limit (r :: rest) s.ivs (indexFor s.ivs r) ho hs hh.1 (by
        intro r' hr' b hb
        have h1 := hh.2 b hb
        rcases List.mem_cons.1 hr' with rfl | hr'
        · exact h1
        · have := ho.head_lt r' hr'; have := ho.head_valid; omega)
      exact ⟨this.1, (by first | rfl | trivial), this.2.1, this.2.2.1, this.2.2.2.1, this.2.2.2.2⟩


-- ---------------------------------------------------------------------------------------------
-- difference (`set_operation` with `remove`)

theorem differenceLoop_spec (limit : Option Nat) : ∀ (rs l : List Interval) (idx : Nat), WF rs → WF l →
    idx ≤ l.length → (∀ r ∈ rs, ∀ b ∈ l.take idx, b.hi + 1 < r.lo) →
    WF (differenceLoop limit rs l idx).1 ∧
    (∀ x, Mem (differenceLoop limit rs l idx).1 x → Mem l x) ∧
    (∀ x, Mem l x → ¬ Mem rs x → Mem (differenceLoop limit rs l idx).1 x) ∧
    ((differenceLoop limit rs l idx).2 = .ok () → ∀ x, Mem (differenceLoop limit rs l idx).1 x → ¬ Mem rs x) ∧
    ((differenceLoop limit rs l idx).2 = .ok () ∨ (differenceLoop limit rs l idx).2 = .error .limitExceeded) := by
  intro rs
  induction rs with
  | nil =>
    intro l idx _ hl _ _
    simp only [differenceLoop]
    exact ⟨hl, fun x h => h, fun x h _ => h, fun _ x _ h => absurd h (mem_nil x), Or.inl (by first | rfl | trivial)⟩
  | cons r rest ih =>
    intro l idx hrs hl hidx hhint
    have hr := hrs.head_valid
    simp only [differenceLoop]
    rcases removeAt_eq_remSpec l r idx limit hl hr hidx (hhint r (List.mem_cons_self ..)) with ⟨_, _, he⟩ | ⟨_, idx', hidx', he⟩
    · rw [he]; simp only
      exact ⟨hl, fun x h => h, fun x h _ => h, fun h => by simp at h, Or.inr (by first | rfl | trivial)⟩
    · rw [he]; simp only
      have hwf1 := remSpec_wf l r hl hr
      have hmem1 := fun x => remSpec_mem l r x hl hr
      have := ih (remSpec l r) idx' hrs.tail hwf1 hidx'.1 (by
        intro r' hr' b hb
        have h1 := hidx'.2 b hb
        have h2 := hrs.head_lt r' hr'
        omega)
      obtain ⟨h1, h2, h3, h4, h5⟩ := this
      refine ⟨h1, ?_, ?_, ?_, h5⟩
      · intro x hx; exact ((hmem1 x).1 (h2 x hx)).1
      · intro x hx hn
        rw [mem_cons] at hn
        exact h3 x ((hmem1 x).2 ⟨hx, fun h => hn (Or.inl h)⟩) (fun h => hn (Or.inr h))
      · intro hok x hx hn
        rcases (mem_cons ..).1 hn with h | h
        · exact ((hmem1 x).1 (h2 x hx)).2 h
        · exact h4 hok x hx h

theorem difference_spec (s other : IvSet) (hs : WF s.ivs) (ho : WF other.ivs) :
    WF (s.difference other).1.ivs ∧ (s.difference other).1.limit = s.limit ∧
    (∀ x, Mem (s.difference other).1.ivs x → Mem s.ivs x) ∧
    (∀ x, Mem s.ivs x → ¬ Mem other.ivs x → Mem (s.difference other).1.ivs x) ∧
    ((s.difference other).2 = .ok () → ∀ x, Mem (s.difference other).1.ivs x → ¬ Mem other.ivs x) ∧
    ((s.difference other).2 = .ok () ∨ (s.difference other).2 = .error .limitExceeded) := by
  unfold IvSet.difference
  by_cases he : s.ivs = []
  · rw [if_pos (by rw [isEmpty_iff]; exact he)]
    simp only
    exact ⟨hs, by first | rfl | trivial, fun x h => h, fun x h _ => h, fun _ x h => by rw [he] at h; exact absurd h (mem_nil x),
      Or.inl (by first | rfl | trivial)⟩
  · rw [if_neg (by rw [isEmpty_iff]; exact he)]
    cases hoi : other.ivs with
    | nil =>
      simp only
      exact ⟨hs, by first | rfl | trivial, fun x h => h, fun x h _ => h, fun _ x _ h => absurd h (mem_nil x), Or.inl (by first | rfl | trivial)⟩
    | cons r rest =>
      simp only
      rw [hoi] at ho
      have hh := indexFor_hint s.ivs r hs
      have := differenceLoop_spec s.limit (r :: rest) s.ivs (indexFor s.ivs r) ho hs hh.1 (by
        intro r' hr' b hb
        have h1 := hh.2 b hb
        rcases List.mem_cons.1 hr' with rfl | hr'
        · exact h1
        · have := ho.head_lt r' hr'; have := ho.head_valid; omega)
      exact ⟨this.1, by first | rfl | trivial, this.2.1, this.2.2.1, this.2.2.2.1, this.2.2.2.2⟩


-- ---------------------------------------------------------------------------------------------
-- intersection::apply

theorem wf_cons_of_mem (o : Interval) (R : List Interval) (hR : WF R) (ho : o.lo ≤ o.hi)
    (h : ∀ x, Mem R x → o.hi + 1 < x) : WF (o :: R) :=
  WF.cons ho hR (fun c hc => h c.lo ⟨c, hc, ⟨Nat.le_refl _, hR.1 c hc⟩⟩)

theorem mem_tail_gt {b : Interval} {l : List Interval} (h : WF (b :: l)) : ∀ x, Mem l x → b.hi + 1 < x := by
  rintro x ⟨c, hc, hx⟩; have := h.head_lt c hc; unfold inIv at hx; omega

theorem splitOffA_spec (mx : Nat) (a b : Interval) (as : List Interval) (hwf : WF (a :: as)) (hmxs : ∀ c ∈ a :: as, c.hi ≤ mx)
    (hb : b.hi < a.hi) (hlo : a.lo ≤ b.hi + 1) :
    WF (splitOffA mx a b ++ as) ∧ (∀ c ∈ splitOffA mx a b ++ as, c.hi ≤ mx) ∧
    (splitOffA mx a b ++ as).length ≤ as.length + 1 ∧
    (∀ x, Mem (splitOffA mx a b ++ as) x → b.hi + 1 < x → (Mem (a :: as) x)) ∧
    (∀ x, Mem (a :: as) x → b.hi + 1 < x → Mem (splitOffA mx a b ++ as) x) ∧
    (∀ x, Mem (splitOffA mx a b ++ as) x → b.hi < x) := by
  have hgt := mem_tail_gt hwf
  have hmx : a.hi ≤ mx := hmxs a (List.mem_cons_self ..)
  have hmxt : ∀ c ∈ as, c.hi ≤ mx := fun c hc => hmxs c (List.mem_cons_of_mem _ hc)
  have hmxc : ∀ n : Interval, n.hi = a.hi → ∀ c ∈ n :: as, c.hi ≤ mx := by
    intro n hn c hc; rcases List.mem_cons.1 hc with rfl | hc
    · omega
    · exact hmxt c hc
  unfold splitOffA stepUpSat
  simp only [Interval.isValid]
  rw [if_pos (show b.hi < mx by omega)]
  by_cases hsat : b.hi + 1 < mx
  · rw [if_pos hsat]
    by_cases hv : b.hi + 1 + 1 ≤ a.hi
    · simp only [hv, decide_true, if_true]
      refine ⟨?_, hmxc _ rfl, by simp, ?_, ?_, ?_⟩
      · exact WF.cons hv hwf.tail hwf.head_lt
      · intro x hx _
        rcases (mem_cons ..).1 hx with h | h
        · exact (mem_cons ..).2 (Or.inl (by unfold inIv at h ⊢; simp only at h; omega))
        · exact (mem_cons ..).2 (Or.inr h)
      · intro x hx hlt
        rcases (mem_cons ..).1 hx with h | h
        · exact (mem_cons ..).2 (Or.inl (by unfold inIv at h ⊢; simp only; omega))
        · exact (mem_cons ..).2 (Or.inr h)
      · intro x hx
        rcases (mem_cons ..).1 hx with h | h
        · unfold inIv at h; simp only at h; omega
        · have := hgt x h; omega
    · simp only [hv, decide_false, Bool.false_eq_true, if_false, List.nil_append]
      refine ⟨hwf.tail, hmxt, by simp, ?_, ?_, ?_⟩
      · intro x hx _; exact (mem_cons ..).2 (Or.inr hx)
      · intro x hx hlt
        rcases (mem_cons ..).1 hx with h | h
        · unfold inIv at h; omega
        · exact h
      · intro x hx; have := hgt x hx; omega
  · rw [if_neg hsat]
    have : b.hi + 1 = a.hi := by omega
    simp only [show b.hi + 1 ≤ a.hi by omega, decide_true, if_true]
    refine ⟨?_, hmxc _ rfl, by simp, ?_, ?_, ?_⟩
    · exact WF.cons (by show b.hi + 1 ≤ a.hi; omega) hwf.tail hwf.head_lt
    · intro x hx hlt
      rcases (mem_cons ..).1 hx with h | h
      · unfold inIv at h; simp only at h; omega
      · exact (mem_cons ..).2 (Or.inr h)
    · intro x hx hlt
      rcases (mem_cons ..).1 hx with h | h
      · unfold inIv at h; omega
      · exact (mem_cons ..).2 (Or.inr h)
    · intro x hx
      rcases (mem_cons ..).1 hx with h | h
      · unfold inIv at h; simp only at h; omega
      · have := hgt x h; omega


/-- `advance_set_b!` of `intersection::apply` followed by the rest of the loop -/
def advB (mx fuel : Nat) (bs done' as' : List Interval) : List Interval :=
  match bs with
  | b' :: bs' => intersectLoop mx fuel done' as' b' bs'
  | [] => done'.reverse

/-- result of one run of the loop: `R` is what the loop appends to the already finished slots -/
theorem intersectLoop_spec (mx : Nat) : ∀ (fuel : Nat) (done as : List Interval) (b : Interval) (bs : List Interval),
    WF as → WF (b :: bs) → (∀ c ∈ as, c.hi ≤ mx) → 2 * as.length + bs.length + 1 ≤ fuel →
    ∃ R, intersectLoop mx fuel done as b bs = done.reverse ++ R ∧ WF R ∧
      (∀ x, Mem R x ↔ Mem as x ∧ Mem (b :: bs) x) := by
  intro fuel
  induction fuel with
  | zero => intro done as b bs _ _ _ h; omega
  | succ fuel ih =>
    intro done as b bs hA hB hmx hfuel
    cases as with
    | nil =>
      exact ⟨[], by simp [intersectLoop], WF.nil, fun x => by simp [Mem]⟩
    | cons a as =>
      have hav := hA.head_valid
      have hbv := hB.head_valid
      have hgA := mem_tail_gt hA
      have hgB := mem_tail_gt hB
      have hmxt : ∀ c ∈ as, c.hi ≤ mx := fun c hc => hmx c (List.mem_cons_of_mem _ hc)
      simp only [List.length_cons] at hfuel
      -- emit `o`, then continue with `as'` against the same `b :: bs`
      have stepA : ∀ (o : Interval), o.lo ≤ o.hi →
          (∀ x, inIv o x ↔ inIv a x ∧ Mem (b :: bs) x) → (∀ x, inIv o x → x ≤ a.hi) →
          ∃ R, intersectLoop mx fuel (o :: done) as b bs = done.reverse ++ R ∧ WF R ∧
            (∀ x, Mem R x ↔ Mem (a :: as) x ∧ Mem (b :: bs) x) := by
        intro o ho hmem hle
        obtain ⟨R1, h1, h2, h3⟩ := ih (o :: done) as b bs hA.tail hB hmxt (by omega)
        refine ⟨o :: R1, by rw [h1]; simp, ?_, ?_⟩
        · refine wf_cons_of_mem o R1 h2 ho ?_
          intro x hx; have := hgA x ((h3 x).1 hx).1; have := hle o.hi ⟨ho, Nat.le_refl _⟩; omega
        · intro x; rw [mem_cons o R1 x, mem_cons a as x, h3 x, hmem x]
          constructor
          · rintro (h | h)
            · exact ⟨Or.inl h.1, h.2⟩
            · exact ⟨Or.inr h.1, h.2⟩
          · rintro ⟨h | h, h'⟩
            · exact Or.inl ⟨h, h'⟩
            · exact Or.inr ⟨h, h'⟩
      -- drop `a` silently
      have dropA : (∀ x, ¬ (inIv a x ∧ Mem (b :: bs) x)) →
          ∃ R, intersectLoop mx fuel done as b bs = done.reverse ++ R ∧ WF R ∧
            (∀ x, Mem R x ↔ Mem (a :: as) x ∧ Mem (b :: bs) x) := by
        intro hno
        obtain ⟨R1, h1, h2, h3⟩ := ih done as b bs hA.tail hB hmxt (by omega)
        refine ⟨R1, h1, h2, ?_⟩
        intro x; rw [h3 x, mem_cons a as x]
        constructor
        · rintro ⟨h, h'⟩; exact ⟨Or.inr h, h'⟩
        · rintro ⟨h | h, h'⟩
          · exact absurd ⟨h, h'⟩ (hno x)
          · exact ⟨h, h'⟩
      -- `advance_set_b!` after emitting the slots `os` (0 or 1), continuing with `as'`
      have stepB : ∀ (os as' : List Interval), WF as' → (∀ c ∈ as', c.hi ≤ mx) → as'.length ≤ as.length + 1 →
          os.length ≤ 1 → (∀ o ∈ os, o.lo ≤ o.hi) →
          (∀ x, Mem os x ↔ Mem (a :: as) x ∧ inIv b x) → (∀ x, Mem os x → x ≤ b.hi) →
          (∀ x, b.hi + 1 < x → (Mem as' x ↔ Mem (a :: as) x)) → (∀ x, Mem as' x → b.hi < x) →
          ∃ R, advB mx fuel bs (os ++ done) as' = done.reverse ++ R ∧ WF R ∧
            (∀ x, Mem R x ↔ Mem (a :: as) x ∧ Mem (b :: bs) x) := by
        intro os as' hwf' hmx' hlen' hos hov hmem hle hrest hgt
        have hosR : os.reverse = os := by
          rcases os with _ | ⟨o, _ | ⟨o2, r⟩⟩ <;> simp at hos ⊢
        cases bs with
        | nil =>
          refine ⟨os, by simp [advB, hosR], ?_, ?_⟩
          · rcases os with _ | ⟨o, _ | ⟨o2, r⟩⟩
            · exact WF.nil
            · exact WF.cons (hov o (by simp)) WF.nil (by simp)
            · simp at hos
          · intro x; rw [hmem x, mem_cons b [] x]
            constructor
            · rintro ⟨h, h'⟩; exact ⟨h, Or.inl h'⟩
            · rintro ⟨h, h' | h'⟩
              · exact ⟨h, h'⟩
              · exact absurd h' (mem_nil x)
        | cons b' bs' =>
          simp only [advB]
          have hB' := hB.tail
          have hb'gt : ∀ x, Mem (b' :: bs') x → b.hi + 1 < x := hgB
          obtain ⟨R1, h1, h2, h3⟩ := ih (os ++ done) as' b' bs' hwf' hB' hmx' (by simp only [List.length_cons] at hfuel ⊢; omega)
          refine ⟨os ++ R1, by rw [h1]; simp [hosR], ?_, ?_⟩
          · rcases os with _ | ⟨o, _ | ⟨o2, r⟩⟩
            · simpa using h2
            · refine wf_cons_of_mem o R1 h2 (hov o (by simp)) ?_
              intro x hx
              have := hb'gt x ((h3 x).1 hx).2
              have := hle o.hi ⟨o, by simp, ⟨hov o (by simp), Nat.le_refl _⟩⟩
              omega
            · simp at hos
          · intro x
            rw [mem_append, hmem x, h3 x, mem_cons b (b' :: bs') x]
            constructor
            · rintro (⟨h, h'⟩ | ⟨h, h'⟩)
              · exact ⟨h, Or.inl h'⟩
              · exact ⟨(hrest x (hb'gt x h')).1 h, Or.inr h'⟩
            · rintro ⟨h, h' | h'⟩
              · exact Or.inl ⟨h, h'⟩
              · exact Or.inr ⟨(hrest x (hb'gt x h')).2 h, h'⟩
      have hsing : ∀ (o : Interval) (x : Nat), Mem [o] x ↔ inIv o x := by intro o x; simp [Mem]
      have hBge : ∀ x, Mem (b :: bs) x → b.lo ≤ x := fun x hx => hB.mem_ge_head hx
      have hBcases : ∀ x, Mem (b :: bs) x → inIv b x ∨ b.hi + 1 < x := by
        intro x hx; rcases (mem_cons ..).1 hx with h | h
        · exact Or.inl h
        · exact Or.inr (hgB x h)
      have hAcases : ∀ x, Mem (a :: as) x → inIv a x ∨ a.hi + 1 < x := by
        intro x hx; rcases (mem_cons ..).1 hx with h | h
        · exact Or.inl h
        · exact Or.inr (hgA x h)
      -- the two ways `stepB` is used: `as' = as` and `as' = splitOffA .. ++ as`
      have stepB_same : ∀ (os : List Interval), os.length ≤ 1 → (∀ o ∈ os, o.lo ≤ o.hi) → a.hi = b.hi →
          (∀ x, Mem os x ↔ Mem (a :: as) x ∧ inIv b x) → (∀ x, Mem os x → x ≤ b.hi) →
          ∃ R, advB mx fuel bs (os ++ done) as = done.reverse ++ R ∧ WF R ∧
            (∀ x, Mem R x ↔ Mem (a :: as) x ∧ Mem (b :: bs) x) := by
        intro os hos hov hle hmem hle'
        refine stepB os as hA.tail hmxt (by omega) hos hov hmem hle' ?_ ?_
        · intro x hx; rw [mem_cons a as x]
          constructor
          · exact Or.inr
          · rintro (h | h)
            · unfold inIv at h; omega
            · exact h
        · intro x hx; have := hgA x hx; omega
      have stepB_split : ∀ (os : List Interval), os.length ≤ 1 → (∀ o ∈ os, o.lo ≤ o.hi) → b.hi < a.hi → a.lo ≤ b.hi + 1 →
          (∀ x, Mem os x ↔ Mem (a :: as) x ∧ inIv b x) → (∀ x, Mem os x → x ≤ b.hi) →
          ∃ R, advB mx fuel bs (os ++ done) (splitOffA mx a b ++ as) = done.reverse ++ R ∧ WF R ∧
            (∀ x, Mem R x ↔ Mem (a :: as) x ∧ Mem (b :: bs) x) := by
        intro os hos hov hlt hlo hmem hle'
        obtain ⟨s1, s2, s3, s4, s5, s6⟩ := splitOffA_spec mx a b as hA hmx hlt hlo
        exact stepB os _ s1 s2 s3 hos hov hmem hle' (fun x hx => ⟨fun h => s4 x h hx, fun h => s5 x h hx⟩) s6
      rcases cmp_cases a.lo b.lo with ⟨hcl, hl⟩ | ⟨hcl, hl⟩ | ⟨hcl, hl⟩ <;>
      rcases cmp_cases a.hi b.hi with ⟨hch, hh⟩ | ⟨hch, hh⟩ | ⟨hch, hh⟩
      · -- (lt, lt)
        by_cases hov : a.hi ≥ b.lo
        · simp only [intersectLoop, hcl, hch, hov, if_true]
          refine stepA ⟨b.lo, a.hi⟩ hov ?_ (fun x hx => hx.2)
          intro x; constructor
          · intro hx; unfold inIv at hx; simp only at hx
            exact ⟨⟨by omega, hx.2⟩, (mem_cons ..).2 (Or.inl ⟨hx.1, by omega⟩)⟩
          · rintro ⟨hx, hxb⟩
            rcases hBcases x hxb with h | h
            · exact ⟨h.1, hx.2⟩
            · unfold inIv at hx; omega
        · simp only [intersectLoop, hcl, hch, hov, if_false]
          refine dropA ?_
          rintro x ⟨hx, hxb⟩
          have := hBge x hxb; unfold inIv at hx; omega
      · -- (lt, eq)
        simp only [intersectLoop, hcl, hch]
        refine stepB_same [⟨b.lo, a.hi⟩] (by simp) (by intro o ho; simp at ho; subst ho; show b.lo ≤ a.hi; omega) (by omega) ?_ ?_
        · intro x; rw [hsing, mem_cons a as x]
          unfold inIv; simp only
          constructor
          · intro hx; exact ⟨Or.inl (by omega), by omega⟩
          · rintro ⟨_, hx⟩; omega
        · intro x hx; rw [hsing] at hx; unfold inIv at hx; simp only at hx; omega
      · -- (lt, gt)
        simp only [intersectLoop, hcl, hch]
        refine stepB_split [b] (by simp) (by intro o ho; simp at ho; subst ho; exact hbv) hh (by omega) ?_ ?_
        · intro x; rw [hsing, mem_cons a as x]
          unfold inIv
          constructor
          · intro hx; exact ⟨Or.inl (by omega), hx⟩
          · rintro ⟨_, hx⟩; exact hx
        · intro x hx; rw [hsing] at hx; exact hx.2
      · -- (eq, lt)
        simp only [intersectLoop, hcl, hch]
        refine stepA a hav ?_ (fun x hx => hx.2)
        intro x; constructor
        · intro hx; exact ⟨hx, (mem_cons ..).2 (Or.inl (by unfold inIv at hx ⊢; omega))⟩
        · exact fun h => h.1
      · -- (eq, eq)
        simp only [intersectLoop, hcl, hch]
        refine stepB_same [a] (by simp) (by intro o ho; simp at ho; subst ho; exact hav) (by omega) ?_ ?_
        · intro x; rw [hsing]
          constructor
          · intro hx; exact ⟨(mem_cons ..).2 (Or.inl hx), by unfold inIv at hx ⊢; omega⟩
          · rintro ⟨hx, hxb⟩
            rcases hAcases x hx with h | h
            · exact h
            · unfold inIv at hxb; omega
        · intro x hx; rw [hsing] at hx; unfold inIv at hx; omega
      · -- (eq, gt)
        simp only [intersectLoop, hcl, hch]
        refine stepB_split [b] (by simp) (by intro o ho; simp at ho; subst ho; exact hbv) hh (by omega) ?_ ?_
        · intro x; rw [hsing, mem_cons a as x]
          unfold inIv
          constructor
          · intro hx; exact ⟨Or.inl (by omega), hx⟩
          · rintro ⟨_, hx⟩; exact hx
        · intro x hx; rw [hsing] at hx; exact hx.2
      · -- (gt, lt)
        simp only [intersectLoop, hcl, hch]
        refine stepA a hav ?_ (fun x hx => hx.2)
        intro x; constructor
        · intro hx; exact ⟨hx, (mem_cons ..).2 (Or.inl (by unfold inIv at hx ⊢; omega))⟩
        · exact fun h => h.1
      · -- (gt, eq)
        simp only [intersectLoop, hcl, hch]
        refine stepB_same [a] (by simp) (by intro o ho; simp at ho; subst ho; exact hav) (by omega) ?_ ?_
        · intro x; rw [hsing]
          constructor
          · intro hx; exact ⟨(mem_cons ..).2 (Or.inl hx), by unfold inIv at hx ⊢; omega⟩
          · rintro ⟨hx, hxb⟩
            rcases hAcases x hx with h | h
            · exact h
            · unfold inIv at hxb; omega
        · intro x hx; rw [hsing] at hx; unfold inIv at hx; omega
      · -- (gt, gt)
        by_cases hov : a.lo ≤ b.hi
        · simp only [intersectLoop, hcl, hch, hov, if_true]
          refine stepB_split [⟨a.lo, b.hi⟩] (by simp) (by intro o ho; simp at ho; subst ho; exact hov) hh (by omega) ?_ ?_
          · intro x; rw [hsing, mem_cons a as x]
            unfold inIv; simp only
            constructor
            · intro hx; exact ⟨Or.inl (by omega), by omega⟩
            · rintro ⟨hx | hx, hxb⟩
              · omega
              · have := hgA x hx; omega
          · intro x hx; rw [hsing] at hx; exact hx.2
        · simp only [intersectLoop, hcl, hch, hov, if_false]
          refine stepB [] (a :: as) hA hmx (by simp) (by simp) (by simp) ?_ (by intro x hx; exact absurd hx (mem_nil x)) (fun x _ => Iff.rfl) ?_
          · intro x; constructor
            · intro hx; exact absurd hx (mem_nil x)
            · rintro ⟨hx, hxb⟩
              rcases hAcases x hx with h | h <;> (unfold inIv at *; omega)
          · intro x hx
            rcases hAcases x hx with h | h <;> (unfold inIv at *; omega)


/-- `intersection::apply` computes the intersection and keeps the normal form (`mx` = the integer
    type's maximum; every stored bound is ≤ `mx`) -/
theorem intersectApply_spec (mx : Nat) (sa sb : List Interval) (hA : WF sa) (hB : WF sb) (hmx : ∀ c ∈ sa, c.hi ≤ mx) :
    WF (intersectApply mx sa sb) ∧ ∀ x, Mem (intersectApply mx sa sb) x ↔ Mem sa x ∧ Mem sb x := by
  unfold intersectApply
  cases sa with
  | nil => exact ⟨WF.nil, fun x => by simp [Mem]⟩
  | cons a as =>
    cases sb with
    | nil => exact ⟨WF.nil, fun x => by simp [Mem]⟩
    | cons b bs =>
      simp only
      obtain ⟨R, h1, h2, h3⟩ := intersectLoop_spec mx (2 * ((a :: as).length + (b :: bs).length) + 2) [] (a :: as) b bs hA hB hmx
        (by simp only [List.length_cons]; omega)
      rw [h1]
      simpa using ⟨h2, h3⟩


-- ---------------------------------------------------------------------------------------------
-- iteration / count

theorem interval_values_mem (i : Interval) (x : Nat) : x ∈ i.values ↔ inIv i x := by
  unfold Interval.values inIv
  simp only [List.mem_map, List.mem_range]
  constructor
  · rintro ⟨k, hk, rfl⟩; omega
  · intro h; exact ⟨x - i.lo, by omega, by omega⟩

theorem interval_values_sorted (i : Interval) : i.values.Pairwise (· < ·) := by
  unfold Interval.values
  rw [List.pairwise_map]
  exact List.Pairwise.imp (fun h => by omega) List.pairwise_lt_range

theorem values_mem (l : List Interval) (x : Nat) : x ∈ (IvSet.mk none l).values ↔ Mem l x := by
  unfold IvSet.values Mem
  simp only [List.mem_flatMap, interval_values_mem]

theorem values_sorted : ∀ (l : List Interval), WF l → (l.flatMap Interval.values).Pairwise (· < ·) := by
  intro l
  induction l with
  | nil => intro _; simp
  | cons b rest ih =>
    intro h
    simp only [List.flatMap_cons]
    rw [List.pairwise_append]
    refine ⟨interval_values_sorted b, ih h.tail, ?_⟩
    intro x hx y hy
    rw [interval_values_mem] at hx
    simp only [List.mem_flatMap, interval_values_mem] at hy
    obtain ⟨c, hc, hy⟩ := hy
    have := h.head_lt c hc
    unfold inIv at hx hy; omega

theorem count_eq_length : ∀ (l : List Interval), (∀ b ∈ l, b.lo ≤ b.hi) →
    (l.map Interval.len).sum = (l.flatMap Interval.values).length := by
  intro l
  induction l with
  | nil => intro _; simp
  | cons b rest ih =>
    intro h
    have hb := h b (List.mem_cons_self ..)
    simp only [List.map_cons, List.sum_cons, List.flatMap_cons, List.length_append]
    rw [ih (fun c hc => h c (List.mem_cons_of_mem _ hc))]
    simp only [Interval.len, Interval.values, List.length_map, List.length_range]
    omega


-- ---------------------------------------------------------------------------------------------
-- the plain sorted duplicate-free element list reference

theorem sorted_ext : ∀ (l1 l2 : List Nat), l1.Pairwise (· < ·) → l2.Pairwise (· < ·) →
    (∀ x, x ∈ l1 ↔ x ∈ l2) → l1 = l2 := by
  intro l1
  induction l1 with
  | nil =>
    intro l2 _ _ h
    cases l2 with
    | nil => rfl
    | cons y ys => exact absurd ((h y).2 (List.mem_cons_self ..)) (by simp)
  | cons x xs ih =>
    intro l2 h1 h2 h
    cases l2 with
    | nil => exact absurd ((h x).1 (List.mem_cons_self ..)) (by simp)
    | cons y ys =>
      have hx := List.pairwise_cons.1 h1
      have hy := List.pairwise_cons.1 h2
      have hxy : x = y := by
        have a1 := (h x).1 (List.mem_cons_self ..)
        have a2 := (h y).2 (List.mem_cons_self ..)
        rcases List.mem_cons.1 a1 with e | m1
        · exact e
        · rcases List.mem_cons.1 a2 with e | m2
          · exact e.symm
          · have := hy.1 x m1; have := hx.1 y m2; omega
      subst hxy
      congr 1
      refine ih ys hx.2 hy.2 ?_
      intro z
      constructor
      · intro hz
        rcases List.mem_cons.1 ((h z).1 (List.mem_cons_of_mem _ hz)) with e | m
        · have := hx.1 z hz; omega
        · exact m
      · intro hz
        rcases List.mem_cons.1 ((h z).2 (List.mem_cons_of_mem _ hz)) with e | m
        · have := hy.1 z hz; omega
        · exact m

theorem insertElem_mem (x : Nat) : ∀ (l : List Nat) (y : Nat), y ∈ insertElem x l ↔ y = x ∨ y ∈ l := by
  intro l
  induction l with
  | nil => intro y; simp [insertElem]
  | cons z zs ih =>
    intro y
    unfold insertElem
    split
    · simp
    · split
      · rename_i h; subst h; simp
      · simp only [List.mem_cons, ih y]
        constructor
        · rintro (h | h | h)
          · exact Or.inr (Or.inl h)
          · exact Or.inl h
          · exact Or.inr (Or.inr h)
        · rintro (h | h | h)
          · exact Or.inr (Or.inl h)
          · exact Or.inl h
          · exact Or.inr (Or.inr h)

theorem insertElem_sorted (x : Nat) : ∀ (l : List Nat), l.Pairwise (· < ·) → (insertElem x l).Pairwise (· < ·) := by
  intro l
  induction l with
  | nil => intro _; simp [insertElem]
  | cons z zs ih =>
    intro h
    have hz := List.pairwise_cons.1 h
    unfold insertElem
    split
    · rename_i hlt
      refine List.pairwise_cons.2 ⟨?_, h⟩
      intro y hy
      rcases List.mem_cons.1 hy with e | m
      · omega
      · have := hz.1 y m; omega
    · split
      · exact h
      · rename_i h1 h2
        refine List.pairwise_cons.2 ⟨?_, ih hz.2⟩
        intro y hy
        rcases (insertElem_mem x zs y).1 hy with e | m
        · omega
        · exact hz.1 y m

theorem foldl_insertElem (f : Nat → Nat) : ∀ (ks : List Nat) (acc : List Nat), acc.Pairwise (· < ·) →
    (ks.foldl (fun acc k => insertElem (f k) acc) acc).Pairwise (· < ·) ∧
    ∀ y, y ∈ ks.foldl (fun acc k => insertElem (f k) acc) acc ↔ y ∈ acc ∨ ∃ k ∈ ks, y = f k := by
  intro ks
  induction ks with
  | nil => intro acc h; simp [h]
  | cons k ks ih =>
    intro acc h
    simp only [List.foldl_cons]
    obtain ⟨h1, h2⟩ := ih (insertElem (f k) acc) (insertElem_sorted _ acc h)
    refine ⟨h1, ?_⟩
    intro y
    rw [h2 y, insertElem_mem]
    simp only [List.mem_cons, exists_eq_or_imp]
    constructor
    · rintro ((h | h) | h)
      · exact Or.inr (Or.inl h)
      · exact Or.inl h
      · exact Or.inr (Or.inr h)
    · rintro (h | h | h)
      · exact Or.inl (Or.inr h)
      · exact Or.inl (Or.inl h)
      · exact Or.inr h

theorem refInsert_spec (l : List Nat) (lo hi : Nat) (h : l.Pairwise (· < ·)) :
    (refInsert l lo hi).Pairwise (· < ·) ∧ ∀ y, y ∈ refInsert l lo hi ↔ y ∈ l ∨ (lo ≤ y ∧ y ≤ hi) := by
  unfold refInsert
  obtain ⟨h1, h2⟩ := foldl_insertElem (fun k => lo + k) (List.range (hi + 1 - lo)) l h
  refine ⟨h1, ?_⟩
  intro y
  rw [h2 y]
  simp only [List.mem_range]
  constructor
  · rintro (h | ⟨k, hk, rfl⟩)
    · exact Or.inl h
    · exact Or.inr (by omega)
  · rintro (h | h)
    · exact Or.inl h
    · exact Or.inr ⟨y - lo, by omega, by omega⟩

theorem refRemove_spec (l : List Nat) (lo hi : Nat) (h : l.Pairwise (· < ·)) :
    (refRemove l lo hi).Pairwise (· < ·) ∧ ∀ y, y ∈ refRemove l lo hi ↔ y ∈ l ∧ ¬ (lo ≤ y ∧ y ≤ hi) := by
  unfold refRemove
  refine ⟨h.filter _, ?_⟩
  intro y
  simp only [List.mem_filter, decide_eq_true_eq]

end Quic.Proofs.IvLemmas
