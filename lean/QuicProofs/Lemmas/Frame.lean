import QuicModel.Codec.Frame
import QuicModel.Rfc.Frame
import QuicProofs.Props.C05VarInt
/-
  Helper definitions and lemmas for the C05 frame theorems (`Props/C05Frame.lean`):
  the well-formedness predicate `WF`, the `RestOk` convention for last-frame forms, and the
  behaviour of the `DecoderBuffer` primitives on encoder output.
-/
namespace Quic.Proofs.Frame
open Quic Quic.Codec Quic.Codec.Frame

/-- the `VarInt` type invariant -/
abbrev V (x : Nat) : Prop := x ≤ VarInt.maxValue

/-- descending, disjoint, non-adjacent inclusive ranges below `prevStart` (what the ACK encoder needs
    so that no `VarInt` subtraction underflows) -/
def RangesBelow : Nat → List (Nat × Nat) → Prop
  | _, [] => True
  | prevStart, (s, e) :: rs => s ≤ e ∧ e + 2 ≤ prevStart ∧ RangesBelow s rs

instance : ∀ p rs, Decidable (RangesBelow p rs)
  | _, [] => isTrue trivial
  | p, (s, e) :: rs =>
    have := instDecidableRangesBelow s rs
    by unfold RangesBelow; exact inferInstance

def AckRangesWF : List (Nat × Nat) → Prop
  | [] => False
  | (s, e) :: rs => s ≤ e ∧ V e ∧ RangesBelow s rs ∧ rs.length + 1 ≤ VarInt.maxValue

instance : ∀ rs, Decidable (AckRangesWF rs)
  | [] => isFalse id
  | (_, _) :: _ => by unfold AckRangesWF; exact inferInstance

/-- a property of the content of an `Option` -/
def OptAll {α : Type} (p : α → Prop) : Option α → Prop
  | some x => p x
  | none => True

instance {α : Type} (p : α → Prop) [DecidablePred p] : DecidablePred (OptAll p)
  | some x => by unfold OptAll; exact inferInstance
  | none => isTrue trivial

/-- The values for which `decode ∘ encode = id`. Conditions of the form `V x`, `tok.length = 16`,
    `data.length = 8`, `mtu < 2^16`, `tokens.length % 16 = 0` are Rust *type* invariants (`VarInt`,
    `&[u8; 16]`, `&[u8; 8]`, `u16`, `&[Token]`); the others are genuine excluded points, each with
    a `…_rejected` / `…_normalised` theorem in `Props/C05Frame.lean`. -/
def WF : Frame → Prop
  | .padding n => 1 ≤ n
  | .ping => True
  | .ack delay ranges ecn =>
    V delay ∧ AckRangesWF ranges ∧ OptAll (fun e => V e.1 ∧ V e.2.1 ∧ V e.2.2) ecn
  | .resetStream a b c => V a ∧ V b ∧ V c
  | .stopSending a b => V a ∧ V b
  | .crypto off d => V off ∧ V d.length
  | .newToken t => t ≠ [] ∧ V t.length
  | .stream sid off _ _ d => V sid ∧ V off ∧ V d.length
  | .maxData v => V v
  | .maxStreamData a b => V a ∧ V b
  | .maxStreams _ v => v ≤ maxStreamsBound
  | .dataBlocked v => V v
  | .streamDataBlocked a b => V a ∧ V b
  | .streamsBlocked _ v => v ≤ maxStreamsBound
  | .newConnectionId seq rpt cid tok =>
    V seq ∧ rpt ≤ seq ∧ cidLenMin ≤ cid.length ∧ cid.length ≤ cidLenMax ∧ tok.length = resetTokenLen
  | .retireConnectionId v => V v
  | .pathChallenge d => d.length = pathDataLen
  | .pathResponse d => d.length = pathDataLen
  | .connectionClose code ft reason =>
    V code ∧ OptAll V ft ∧ OptAll (fun r => r ≠ [] ∧ V r.length) reason
  | .handshakeDone => True
  | .datagram _ d => V d.length
  | .dcStatelessResetTokens toks =>
    toks.length % resetTokenLen = 0 ∧ resetTokenLen ≤ toks.length ∧ toks.length ≤ dcMaxCount * resetTokenLen
  | .mtuProbingComplete m => m < 65536

instance : DecidablePred WF := by
  intro f
  cases f <;> unfold WF <;> exact inferInstance

/-- what may follow an encoded frame so that the decoder returns exactly this frame: the
    last-frame forms (no Length field) extend to the end of the packet, and a PADDING run is
    maximal. -/
def RestOk : Frame → List Nat → Prop
  | .padding _, rest => rest.head? ≠ some 0
  | .stream _ _ true _ _, rest => rest = []
  | .datagram true _, rest => rest = []
  | _, _ => True

/-! ### primitives on encoder output -/

theorem decVar_enc (x : Nat) (r : List Nat) (h : V x) : decVar (encVar x ++ r) = .ok (x, r) := by
  unfold decVar encVar
  rw [Proofs.C05.varint_roundtrip x r h]

theorem encVar_length (x : Nat) : (encVar x).length = varSize x := Proofs.C05.varint_size x

theorem decSlice_append (d r : List Nat) : decSlice d.length (d ++ r) = .ok (d, r) := by
  simp [decSlice]

theorem decSlice_append' (n : Nat) (d r : List Nat) (h : d.length = n) : decSlice n (d ++ r) = .ok (d, r) := by
  subst h; exact decSlice_append d r

theorem decSliceVar_enc (d r : List Nat) (h : V d.length) : decSliceVar (encLenVar d ++ r) = .ok (d, r) := by
  unfold decSliceVar encLenVar
  rw [List.append_assoc, decVar_enc _ _ h]
  simp [decSlice_append]

/-- a one-byte varint -/
theorem decVar_small (x : Nat) (r : List Nat) (h : x < 64) : decVar (x :: r) = .ok (x, r) := by
  unfold decVar
  rw [Proofs.C05.decode_tag0 x r (by omega)]
  have : x % 64 = x := Nat.mod_eq_of_lt h
  simp [this]

theorem decSliceVar_zero (r : List Nat) : decSliceVar (0 :: r) = .ok ([], r) := by
  unfold decSliceVar
  rw [decVar_small 0 r (by decide)]
  simp [decSlice]

theorem decU8_cons (x : Nat) (r : List Nat) : decU8 (x :: r) = .ok (x, r) := rfl

theorem encVar_mtuTag : encVar mtuTag = [128, 220, 0, 2] := by decide
theorem encVar_dcTag : encVar dcTag = [128, 220, 0, 0] := by decide

theorem decodeFrame_mtuTag (r : List Nat) :
    decodeFrame (encVar mtuTag ++ r) = handleExtension (encVar mtuTag ++ r) := by
  rw [encVar_mtuTag]; simp [decodeFrame]

theorem decodeFrame_dcTag (r : List Nat) :
    decodeFrame (encVar dcTag ++ r) = handleExtension (encVar dcTag ++ r) := by
  rw [encVar_dcTag]; simp [decodeFrame]

theorem zeroRun_replicate (k : Nat) (rest : List Nat) :
    zeroRun (List.replicate k 0 ++ rest) = k + zeroRun rest := by
  induction k with
  | zero => simp
  | succ k ih => simp [List.replicate_succ, zeroRun, ih]; omega

theorem zeroRun_of_head (rest : List Nat) (h : rest.head? ≠ some 0) : zeroRun rest = 0 := by
  match rest, h with
  | [], _ => rfl
  | x :: t, h =>
    have : x ≠ 0 := by intro hx; simp [hx] at h
    unfold zeroRun
    split
    · rename_i heq; simp at heq; omega
    · rfl

theorem zeroRun_le (b : List Nat) : zeroRun b ≤ b.length := by
  fun_induction zeroRun b <;> simp <;> omega

theorem beVal_beBytes2 (m : Nat) (h : m < 65536) : beVal (beBytes 2 m) = m := by
  simp [beBytes, beVal]; omega

end Quic.Proofs.Frame
