import QuicModel.Codec.Frame
import QuicModel.Rfc.Frame
import QuicProofs.Props.C05VarInt
/-
  Helper definitions and lemmas for the C05 frame theorems (`Props/C05Frame.lean`):
  the well-formedness predicate `WF`, the `RestOk` convention for last-frame forms, and the
  behaviour of the `DecoderBuffer` primitives on encoder output.
-/
namespace Quic.Proofs.Frame
open Quic Quic.Codec Quic.Codec.Frame

/-- the `VarInt` type invariant -/
abbrev V (x : Nat) : Prop := x ≤ VarInt.maxValue

/-- descending, disjoint, non-adjacent inclusive ranges below `prevStart` (what the ACK encoder needs
    so that no `VarInt` subtraction underflows) -/
def RangesBelow : Nat → List (Nat × Nat) → Prop
  | _, [] => True
  | prevStart, (s, e) :: rs => s ≤ e ∧ e + 2 ≤ prevStart ∧ RangesBelow s rs

instance : ∀ p rs, Decidable (RangesBelow p rs)
  | _, [] => isTrue trivial
  | p, (s, e) :: rs =>
    have := instDecidableRangesBelow s rs
    by unfold RangesBelow; exact inferInstance

def AckRangesWF : List (Nat × Nat) → Prop
  | [] => False
  | (s, e) :: rs => s ≤ e ∧ V e ∧ RangesBelow s rs ∧ rs.length + 1 ≤ VarInt.maxValue

instance : ∀ rs, Decidable (AckRangesWF rs)
  | [] => isFalse id
  | (_, _) :: _ => by unfold AckRangesWF; exact inferInstance

/-- a property of the content of an `Option` -/
def OptAll {α : Type} (p : α → Prop) : Option α → Prop
  | some x => p x
  | none => True

instance {α : Type} (p : α → Prop) [DecidablePred p] : DecidablePred (OptAll p)
  | some x => by unfold OptAll; exact inferInstance
  | none => isTrue trivial

/-- The values for which `decode ∘ encode = id`. Conditions of the form `V x`, `tok.length = 16`,
    `data.length = 8`, `mtu < 2^16`, `tokens.length % 16 = 0` are Rust *type* invariants (`VarInt`,
    `&[u8; 16]`, `&[u8; 8]`, `u16`, `&[Token]`); the others are genuine excluded points, each with
    a `…_rejected` / `…_normalised` theorem in `Props/C05Frame.lean`. -/
def WF : Frame → Prop
  | .padding n => 1 ≤ n
  | .ping => True
  | .ack delay ranges ecn =>
    V delay ∧ AckRangesWF ranges ∧ OptAll (fun e => V e.1 ∧ V e.2.1 ∧ V e.2.2) ecn
  | .resetStream a b c => V a ∧ V b ∧ V c
  | .stopSending a b => V a ∧ V b
  | .crypto off d => V off ∧ V d.length
  | .newToken t => t ≠ [] ∧ V t.length
  | .stream sid off _ _ d => V sid ∧ V off ∧ V d.length
  | .maxData v => V v
  | .maxStreamData a b => V a ∧ V b
  | .maxStreams _ v => v ≤ maxStreamsBound
  | .dataBlocked v => V v
  | .streamDataBlocked a b => V a ∧ V b
  | .streamsBlocked _ v => v ≤ maxStreamsBound
  | .newConnectionId seq rpt cid tok =>
    V seq ∧ rpt ≤ seq ∧ cidLenMin ≤ cid.length ∧ cid.length ≤ cidLenMax ∧ tok.length = resetTokenLen
  | .retireConnectionId v => V v
  | .pathChallenge d => d.length = pathDataLen
  | .pathResponse d => d.length = pathDataLen
  | .connectionClose code ft reason =>
    V code ∧ OptAll V ft ∧ OptAll (fun r => r ≠ [] ∧ V r.length) reason
  | .handshakeDone => True
  | .datagram _ d => V d.length
  | .dcStatelessResetTokens toks =>
    toks.length % resetTokenLen = 0 ∧ resetTokenLen ≤ toks.length ∧ toks.length ≤ dcMaxCount * resetTokenLen
  | .mtuProbingComplete m => m < 65536

instance : DecidablePred WF := by
  intro f
  cases f <;> unfold WF <;> exact inferInstance

/-- what may follow an encoded frame so that the decoder returns exactly this frame: the
    last-frame forms (no Length field) extend to the end of the packet, and a PADDING run is
    maximal. -/
def RestOk : Frame → List Nat → Prop
  | .padding _, rest => rest.head? ≠ some 0
  | .stream _ _ true _ _, rest => rest = []
  | .datagram true _, rest => rest = []
  | _, _ => True

instance : ∀ f rest, Decidable (RestOk f rest) := by
  intro f rest
  unfold RestOk
  split <;> exact inferInstance

/-! ### primitives on encoder output -/

theorem encVar_zero : encVar 0 = [0] := by decide


theorem decVar_enc (x : Nat) (r : List Nat) (h : V x) : decVar (encVar x ++ r) = .ok (x, r) := by
  unfold decVar encVar
  rw [Proofs.C05.varint_roundtrip x r h]

theorem encVar_length (x : Nat) : (encVar x).length = varSize x := Proofs.C05.varint_size x

theorem decSlice_append (d r : List Nat) : decSlice d.length (d ++ r) = .ok (d, r) := by
  simp [decSlice]

theorem decSlice_append' (n : Nat) (d r : List Nat) (h : d.length = n) : decSlice n (d ++ r) = .ok (d, r) := by
  subst h; exact decSlice_append d r

theorem decSliceVar_enc (d r : List Nat) (h : V d.length) : decSliceVar (encLenVar d ++ r) = .ok (d, r) := by
  unfold decSliceVar encLenVar
  rw [List.append_assoc, decVar_enc _ _ h]
  simp [decSlice_append]

/-- a one-byte varint -/
theorem decVar_small (x : Nat) (r : List Nat) (h : x < 64) : decVar (x :: r) = .ok (x, r) := by
  unfold decVar
  rw [Proofs.C05.decode_tag0 x r (by omega)]
  have : x % 64 = x := Nat.mod_eq_of_lt h
  simp [this]

theorem decSliceVar_zero (r : List Nat) : decSliceVar (0 :: r) = .ok ([], r) := by
  unfold decSliceVar
  rw [decVar_small 0 r (by decide)]
  simp [decSlice]

theorem decU8_cons (x : Nat) (r : List Nat) : decU8 (x :: r) = .ok (x, r) := rfl

theorem encVar_mtuTag : encVar mtuTag = [128, 220, 0, 2] := by decide
theorem encVar_dcTag : encVar dcTag = [128, 220, 0, 0] := by decide

theorem decodeFrame_mtuTag (r : List Nat) :
    decodeFrame (encVar mtuTag ++ r) = handleExtension (encVar mtuTag ++ r) := by
  rw [encVar_mtuTag]; simp [decodeFrame]

theorem decodeFrame_dcTag (r : List Nat) :
    decodeFrame (encVar dcTag ++ r) = handleExtension (encVar dcTag ++ r) := by
  rw [encVar_dcTag]; simp [decodeFrame]

theorem zeroRun_replicate (k : Nat) (rest : List Nat) :
    zeroRun (List.replicate k 0 ++ rest) = k + zeroRun rest := by
  induction k with
  | zero => simp
  | succ k ih => simp [List.replicate_succ, zeroRun, ih]; omega

theorem zeroRun_of_head (rest : List Nat) (h : rest.head? ≠ some 0) : zeroRun rest = 0 := by
  match rest, h with
  | [], _ => rfl
  | x :: t, h =>
    have : x ≠ 0 := by intro hx; simp [hx] at h
    unfold zeroRun
    split
    · rename_i heq; simp at heq; omega
    · rfl

theorem zeroRun_le (b : List Nat) : zeroRun b ≤ b.length := by
  fun_induction zeroRun b <;> simp <;> omega

theorem beVal_beBytes2 (m : Nat) (h : m < 65536) : beVal (beBytes 2 m) = m := by
  simp [beBytes, beVal]; omega

/-! ### ACK ranges -/

theorem vdecode_enc (x : Nat) (r : List Nat) (h : V x) : VarInt.decode (encVar x ++ r) = some (x, r) :=
  Proofs.C05.varint_roundtrip x r h

theorem ackIter_enc (rs : List (Nat × Nat)) : ∀ (s e : Nat) (tail : List Nat), s ≤ e → V e → RangesBelow s rs →
    ackIter (rs.length + 1) e (encVar (e - s) ++ (encAckTail s rs ++ tail)) = some ((s, e) :: rs, tail) := by
  induction rs with
  | nil =>
    intro s e tail hse he _
    have hv : V (e - s) := by unfold V at *; omega
    simp only [List.length_nil, ackIter, encAckTail, List.nil_append]
    rw [vdecode_enc _ _ hv]
    simp
    omega
  | cons p rs' ih =>
    intro s e tail hse he hb
    obtain ⟨s', e'⟩ := p
    simp only [RangesBelow] at hb
    obtain ⟨h1, h2, h3⟩ := hb
    have hv : V (e - s) := by unfold V at *; omega
    have hg : V (s - e' - 2) := by unfold V at *; omega
    have he' : V e' := by unfold V at *; omega
    simp only [List.length_cons, encAckTail, List.append_assoc]
    rw [ackIter]
    rw [vdecode_enc _ _ hv]
    simp only []
    rw [if_neg (by omega), if_neg (by omega)]
    rw [vdecode_enc _ _ hg]
    simp only []
    rw [if_neg (by omega), if_neg (by omega)]
    have : e - (e - s) - (s - e' - 2) - 2 = e' := by omega
    rw [this, ih s' e' tail h1 he' h3]
    have : e - (e - s) = s := by omega
    simp [this]

theorem encAckTail_length (s : Nat) (rs : List (Nat × Nat)) :
    (encAckTail s rs).length = ackTailSize s rs := by
  induction rs generalizing s with
  | nil => rfl
  | cons p rs ih => obtain ⟨s', e'⟩ := p; simp [encAckTail, ackTailSize, ih, encVar_length]; omega


/-! ### every decoder returns a suffix of its input (lengths) -/

theorem decVar_len {b r : List Nat} {v : Nat} (h : decVar b = .ok (v, r)) : r.length < b.length ∧ V v := by
  unfold decVar at h
  split at h
  · rename_i v' r' h'
    simp at h
    obtain ⟨rfl, rfl⟩ := h
    obtain ⟨hv, n, hn, hl, hr⟩ := Proofs.C05.decode_consumes b r' v' h'
    subst hr
    simp
    exact ⟨by omega, hv⟩
  · simp at h

theorem decSlice_len {n : Nat} {b d r : List Nat} (h : decSlice n b = .ok (d, r)) :
    r.length + n = b.length ∧ d.length = n := by
  unfold decSlice at h
  split at h
  · simp at h
  · simp at h; obtain ⟨rfl, rfl⟩ := h; simp; omega

theorem decSliceVar_len {b d r : List Nat} (h : decSliceVar b = .ok (d, r)) :
    r.length + d.length < b.length ∧ V d.length := by
  unfold decSliceVar at h
  split at h
  · simp at h
  · rename_i len r1 h1
    have h2 := decVar_len h1
    have h3 := decSlice_len h
    refine ⟨by omega, ?_⟩
    rw [h3.2]; exact h2.2

theorem decU8_len {b r : List Nat} {v : Nat} (h : decU8 b = .ok (v, r)) : r.length + 1 = b.length := by
  unfold decU8 at h
  split at h
  · simp at h
  · simp at h; obtain ⟨rfl, rfl⟩ := h; simp

macro "res_split" h:ident : tactic =>
  `(tactic| (split at $h:ident <;> try (simp at $h:ident; done)))


theorem vdecode_len {b r : List Nat} {v : Nat} (h : VarInt.decode b = some (v, r)) : r.length < b.length ∧ V v := by
  obtain ⟨hv, n, hn, hl, hr⟩ := Proofs.C05.decode_consumes b r v h
  subst hr
  simp
  exact ⟨by omega, hv⟩

theorem decU16_len {b r : List Nat} {v : Nat} (h : decU16 b = .ok (v, r)) : r.length + 2 = b.length := by
  unfold decU16 at h
  res_split h
  grind [→ decSlice_len]

theorem dec1_len (mk : Nat → Frame) {b r : List Nat} {f : Frame} (h : dec1 mk b = .ok (f, r)) : r.length ≤ b.length := by
  unfold dec1 at h
  repeat (res_split h)
  grind [→ decVar_len]

theorem dec2_len (mk : Nat → Nat → Frame) {b r : List Nat} {f : Frame} (h : dec2 mk b = .ok (f, r)) : r.length ≤ b.length := by
  unfold dec2 at h
  repeat (res_split h)
  grind [→ decVar_len]

theorem dec3_len (mk : Nat → Nat → Nat → Frame) {b r : List Nat} {f : Frame} (h : dec3 mk b = .ok (f, r)) : r.length ≤ b.length := by
  unfold dec3 at h
  repeat (res_split h)
  grind [→ decVar_len]

theorem decStreamLimit_len (mk : Nat → Frame) {b r : List Nat} {f : Frame} (h : decStreamLimit mk b = .ok (f, r)) : r.length ≤ b.length := by
  unfold decStreamLimit at h
  repeat (res_split h)
  grind [→ decVar_len]

theorem decCrypto_len {b r : List Nat} {f : Frame} (h : decCrypto b = .ok (f, r)) : r.length ≤ b.length := by
  unfold decCrypto at h
  repeat (res_split h)
  grind [→ decVar_len, → decSliceVar_len]

theorem decNewToken_len {b r : List Nat} {f : Frame} (h : decNewToken b = .ok (f, r)) : r.length ≤ b.length := by
  unfold decNewToken at h
  repeat (res_split h)
  grind [→ decVar_len, → decSliceVar_len]

theorem decStream_len (tag : Nat) {b r : List Nat} {f : Frame} (h : decStream tag b = .ok (f, r)) : r.length ≤ b.length := by
  unfold decStream at h
  repeat (res_split h)
  all_goals grind [→ decVar_len, → decSliceVar_len]

theorem decDatagram_len (tag : Nat) {b r : List Nat} {f : Frame} (h : decDatagram tag b = .ok (f, r)) : r.length ≤ b.length := by
  unfold decDatagram at h
  repeat (res_split h)
  all_goals grind [→ decVar_len, → decSliceVar_len]

theorem decNewConnectionId_len {b r : List Nat} {f : Frame} (h : decNewConnectionId b = .ok (f, r)) : r.length ≤ b.length := by
  unfold decNewConnectionId at h
  repeat (res_split h)
  grind [→ decVar_len, → decSlice_len, → decU8_len]

theorem decPath_len (mk : List Nat → Frame) {b r : List Nat} {f : Frame} (h : decPath mk b = .ok (f, r)) : r.length ≤ b.length := by
  unfold decPath at h
  repeat (res_split h)
  grind [→ decSlice_len]

theorem decConnectionClose_len (tag : Nat) {b r : List Nat} {f : Frame} (h : decConnectionClose tag b = .ok (f, r)) : r.length ≤ b.length := by
  unfold decConnectionClose at h
  repeat (res_split h)
  all_goals grind [→ decVar_len, → decSliceVar_len]

theorem decDcTokens_len {b r : List Nat} {f : Frame} (h : decDcTokens b = .ok (f, r)) : r.length ≤ b.length := by
  unfold decDcTokens at h
  repeat (res_split h)
  simp at h
  obtain ⟨_, rfl⟩ := h
  have := decVar_len ‹_›
  simp; omega

theorem decMtu_len {b r : List Nat} {f : Frame} (h : decMtu b = .ok (f, r)) : r.length ≤ b.length := by
  unfold decMtu at h
  repeat (res_split h)
  grind [→ decU16_len]

theorem handleExtension_len {b r : List Nat} {f : Frame} (h : handleExtension b = .ok (f, r)) : r.length < b.length := by
  unfold handleExtension at h
  repeat (res_split h)
  all_goals grind [→ decVar_len, → decDcTokens_len, → decMtu_len]

/-- every call of `AckRangesIter::next` consumes at least one byte or fails -/
theorem ackIter_len : ∀ (n largest : Nat) (buf : List Nat) {rs : List (Nat × Nat)} {r : List Nat},
    ackIter n largest buf = some (rs, r) → r.length + n ≤ buf.length ∧ rs.length = n := by
  intro n
  induction n with
  | zero => intro largest buf rs r h; simp [ackIter] at h; obtain ⟨rfl, rfl⟩ := h; simp
  | succ n ih =>
    intro largest buf rs r h
    rw [ackIter] at h
    split at h
    · simp at h
    · rename_i ackRange buf1 h1
      have l1 := vdecode_len h1
      split at h
      · simp at h
      · simp only [] at h
        split at h
        · simp at h; obtain ⟨rfl, rfl⟩ := h; subst_vars; simp; omega
        · split at h
          · simp at h
          · rename_i gap buf2 h2
            have l2 := vdecode_len h2
            split at h
            · simp at h
            · split at h
              · simp at h
              · split at h
                · simp at h
                · rename_i rs' r' h3
                  have l3 := ih _ _ h3
                  simp at h; obtain ⟨rfl, rfl⟩ := h
                  simp; omega

theorem decAckRanges_len {largest : Nat} {b r : List Nat} {rs : List (Nat × Nat)}
    (h : decAckRanges largest b = .ok (rs, r)) : r.length + rs.length < b.length := by
  unfold decAckRanges at h
  repeat (res_split h)
  rename_i count r1 h1 _ _ rs' rest h2
  have l1 := decVar_len h1
  have l2 := ackIter_len _ _ _ h2
  simp at h; obtain ⟨rfl, rfl⟩ := h
  omega

theorem decEcn_len {b r : List Nat} {x : Nat × Nat × Nat} (h : decEcn b = .ok (x, r)) : r.length ≤ b.length := by
  unfold decEcn at h
  repeat (res_split h)
  grind [→ decVar_len]

theorem decAck_len (tag : Nat) {b r : List Nat} {f : Frame} (h : decAck tag b = .ok (f, r)) : r.length ≤ b.length := by
  unfold decAck at h
  repeat (res_split h)
  all_goals grind [→ decVar_len, → decAckRanges_len, → decEcn_len]

theorem decPadding_len {b r : List Nat} {f : Frame} (h : decPadding b = .ok (f, r)) : r.length ≤ b.length := by
  unfold decPadding at h
  simp at h
  obtain ⟨_, rfl⟩ := h
  simp


theorem decodeFrame_progress {b r : List Nat} {f : Frame} (h : decodeFrame b = .ok (f, r)) :
    r.length < b.length := by
  unfold decodeFrame at h
  split at h
  · simp at h
  · rename_i tag t
    by_cases c0 : 64 ≤ tag
    · rw [if_pos c0] at h; exact handleExtension_len h
    rw [if_neg c0] at h
    by_cases c1 : tag = 0
    · rw [if_pos c1] at h; have := decPadding_len h; simp; omega
    rw [if_neg c1] at h
    by_cases c2 : tag = 1
    · rw [if_pos c2] at h; simp at h; obtain ⟨_, rfl⟩ := h; simp
    rw [if_neg c2] at h
    by_cases c3 : tag = 2 ∨ tag = 3
    · rw [if_pos c3] at h; have := decAck_len _ h; simp; omega
    rw [if_neg c3] at h
    by_cases c4 : tag = 4
    · rw [if_pos c4] at h; have := dec3_len _ h; simp; omega
    rw [if_neg c4] at h
    by_cases c5 : tag = 5
    · rw [if_pos c5] at h; have := dec2_len _ h; simp; omega
    rw [if_neg c5] at h
    by_cases c6 : tag = 6
    · rw [if_pos c6] at h; have := decCrypto_len h; simp; omega
    rw [if_neg c6] at h
    by_cases c7 : tag = 7
    · rw [if_pos c7] at h; have := decNewToken_len h; simp; omega
    rw [if_neg c7] at h
    by_cases c8 : 8 ≤ tag ∧ tag ≤ 15
    · rw [if_pos c8] at h; have := decStream_len _ h; simp; omega
    rw [if_neg c8] at h
    by_cases c9 : tag = 16
    · rw [if_pos c9] at h; have := dec1_len _ h; simp; omega
    rw [if_neg c9] at h
    by_cases c10 : tag = 17
    · rw [if_pos c10] at h; have := dec2_len _ h; simp; omega
    rw [if_neg c10] at h
    by_cases c11 : tag = 18 ∨ tag = 19
    · rw [if_pos c11] at h; have := decStreamLimit_len _ h; simp; omega
    rw [if_neg c11] at h
    by_cases c12 : tag = 20
    · rw [if_pos c12] at h; have := dec1_len _ h; simp; omega
    rw [if_neg c12] at h
    by_cases c13 : tag = 21
    · rw [if_pos c13] at h; have := dec2_len _ h; simp; omega
    rw [if_neg c13] at h
    by_cases c14 : tag = 22 ∨ tag = 23
    · rw [if_pos c14] at h; have := decStreamLimit_len _ h; simp; omega
    rw [if_neg c14] at h
    by_cases c15 : tag = 24
    · rw [if_pos c15] at h; have := decNewConnectionId_len h; simp; omega
    rw [if_neg c15] at h
    by_cases c16 : tag = 25
    · rw [if_pos c16] at h; have := dec1_len _ h; simp; omega
    rw [if_neg c16] at h
    by_cases c17 : tag = 26
    · rw [if_pos c17] at h; have := decPath_len _ h; simp; omega
    rw [if_neg c17] at h
    by_cases c18 : tag = 27
    · rw [if_pos c18] at h; have := decPath_len _ h; simp; omega
    rw [if_neg c18] at h
    by_cases c19 : tag = 28 ∨ tag = 29
    · rw [if_pos c19] at h; have := decConnectionClose_len _ h; simp; omega
    rw [if_neg c19] at h
    by_cases c20 : tag = 30
    · rw [if_pos c20] at h; simp at h; obtain ⟨_, rfl⟩ := h; simp
    rw [if_neg c20] at h
    by_cases c21 : tag = 48 ∨ tag = 49
    · rw [if_pos c21] at h; have := decDatagram_len _ h; simp; omega
    rw [if_neg c21] at h
    exact handleExtension_len h

/-- The same loop by well-founded recursion: Lean's termination checker accepts it *only* because
    of `decodeFrame_progress` - "no endless loop" is a theorem, not an assumption. -/
def decodeFramesWF (b : List Nat) : Except (Err × Nat) (List Frame) :=
  match b with
  | [] => .ok []
  | x :: t =>
    match h : decodeFrame (x :: t) with
    | .error e => .error (e, 0)
    | .ok (f, r) =>
      match decodeFramesWF r with
      | .error (e, k) => .error (e, k + 1)
      | .ok fs => .ok (f :: fs)
termination_by b.length
decreasing_by exact decodeFrame_progress h

theorem decodeFramesWF_nil : decodeFramesWF [] = .ok [] := by
  rw [decodeFramesWF]

theorem decodeFramesWF_cons (x : Nat) (t : List Nat) :
    decodeFramesWF (x :: t) =
      match decodeFrame (x :: t) with
      | .error e => .error (e, 0)
      | .ok (f, r) =>
        match decodeFramesWF r with
        | .error (e, k) => .error (e, k + 1)
        | .ok fs => .ok (f :: fs) := by
  rw [decodeFramesWF]
  split
  · rename_i e he; simp [he]
  · rename_i f r hf; simp [hf]

theorem decodeFramesFuel_eq_wf : ∀ (fuel : Nat) (b : List Nat), b.length ≤ fuel →
    decodeFramesFuel fuel b = some (decodeFramesWF b) := by
  intro fuel
  induction fuel with
  | zero =>
    intro b hb
    match b, hb with
    | [], _ => simp [decodeFramesFuel, decodeFramesWF_nil]
  | succ k ih =>
    intro b hb
    match b, hb with
    | [], _ => simp [decodeFramesFuel, decodeFramesWF_nil]
    | x :: t, hb =>
      rw [decodeFramesFuel, decodeFramesWF_cons]
      cases hf : decodeFrame (x :: t) with
      | error e => simp
      | ok p =>
        obtain ⟨f, r⟩ := p
        have hp := decodeFrame_progress hf
        have hr : r.length ≤ k := by simp at hb hp; omega
        simp only [ih r hr]
        cases decodeFramesWF r with
        | error q => rfl
        | ok fs => rfl


/-- `Segments b fs`: `b` splits exactly into the encodings of `fs` as seen by `decodeFrame` -/
inductive Segments : List Nat → List Frame → Prop where
  | nil : Segments [] []
  | cons {b r : List Nat} {f : Frame} {fs : List Frame} :
      decodeFrame b = .ok (f, r) → Segments r fs → Segments b (f :: fs)

theorem decodeFramesWF_ok_iff (b : List Nat) (fs : List Frame) :
    decodeFramesWF b = .ok fs ↔ Segments b fs := by
  constructor
  · intro h
    induction fs generalizing b with
    | nil =>
      match b with
      | [] => exact .nil
      | x :: t =>
        rw [decodeFramesWF_cons] at h
        cases hf : decodeFrame (x :: t) with
        | error e => simp [hf] at h
        | ok p =>
          obtain ⟨f, r⟩ := p
          simp only [hf] at h
          cases hr : decodeFramesWF r with
          | error q => simp [hr] at h
          | ok fs' => simp [hr] at h
    | cons f0 fs0 ih =>
      match b with
      | [] => simp [decodeFramesWF_nil] at h
      | x :: t =>
        rw [decodeFramesWF_cons] at h
        cases hf : decodeFrame (x :: t) with
        | error e => simp [hf] at h
        | ok p =>
          obtain ⟨f, r⟩ := p
          simp only [hf] at h
          cases hr : decodeFramesWF r with
          | error q => simp [hr] at h
          | ok fs' =>
            simp [hr] at h
            obtain ⟨rfl, rfl⟩ := h
            exact .cons hf (ih r hr)
  · intro h
    induction h with
    | nil => exact decodeFramesWF_nil
    | @cons b r f fs hf _ ih =>
      match b, hf with
      | [], hf => simp [decodeFrame] at hf
      | x :: t, hf =>
        rw [decodeFramesWF_cons, hf]
        simp [ih]

end Quic.Proofs.Frame
