import QuicModel.Codec.TransportParams
import QuicModel.Rfc.TransportParams
import QuicProofs.Props.C05VarInt
/-
  Helper lemmas for C14 / C05 (transport parameters).

  Layering:
    (A) the `decode_parameters` loop over bytes  =  the RFC item parser (§18 Fig. 20/21) followed by an
        item-by-item run (`itemsRun`)                                    — `loop_of_parse`, `loop_no_parse`
    (B) ok-ness of the item run = per-item acceptance + no repeated known id   — `itemsRun_isOk`
    (C) per-field acceptance (CodecValue::decode + ensure_empty + validate) = the RFC kind's validity,
        field by field                                                     — `fieldOk_*`
    (D) lift: tables that match row by row give equal acceptance of blocks   — `accepts_eq_acceptsWith`
-/
namespace Quic.Proofs.TransportParams
open Quic Quic.Codec Quic.Codec.TransportParams
open Quic.Rfc.TransportParams (Row Kind parseItems lookupIn valueOk itemOk noRepeat nodupB acceptsWith maxInt allZero table)

/-! ### bytes -/

theorem bytesOk_take {b : List Nat} (n : Nat) (h : BytesOk b) : BytesOk (b.take n) :=
  fun x hx => h x (List.mem_of_mem_take hx)

theorem bytesOk_drop {b : List Nat} (n : Nat) (h : BytesOk b) : BytesOk (b.drop n) :=
  fun x hx => h x (List.mem_of_mem_drop hx)

theorem bytesOk_nil : BytesOk [] := fun _ h => nomatch h

@[simp] theorem isOk_error {ε α : Type} (e : ε) : isOk (Except.error e : Except ε α) = false := rfl
@[simp] theorem isOk_ok {ε α : Type} (a : α) : isOk (Except.ok a : Except ε α) = true := rfl

/-- `VarInt::decode` is the RFC §16 parser; the rest is a strict suffix -/
theorem decode_eq_parse (b : List Nat) (hb : BytesOk b) : VarInt.decode b = Rfc.VarInt.parse b :=
  Quic.Proofs.C05.decode_eq_rfc_parse b hb

theorem parse_rest {b r : List Nat} {v : Nat} (hb : BytesOk b) (h : Rfc.VarInt.parse b = some (v, r)) :
    v ≤ VarInt.maxValue ∧ r.length < b.length ∧ BytesOk r := by
  rw [← decode_eq_parse b hb] at h
  obtain ⟨hv, n, hn, hle, hr⟩ := Quic.Proofs.C05.decode_consumes b r v h
  refine ⟨hv, ?_, ?_⟩
  · subst hr; rw [List.length_drop]; omega
  · subst hr; exact bytesOk_drop n hb

/-- `decode_slice_with_len_prefix::<VarInt>` in terms of the RFC parser -/
theorem lenPrefixed_eq (inner : List Nat) (hb : BytesOk inner) :
    lenPrefixed inner =
      match Rfc.VarInt.parse inner with
      | none => .error .eof
      | some (len, r2) => if r2.length < len then .error .eof else .ok (r2.take len, r2.drop len) := by
  unfold lenPrefixed
  rw [decode_eq_parse inner hb]
  cases Rfc.VarInt.parse inner with
  | none => rfl
  | some p => rfl

/-! ### (A)/(B) item view of the loop -/

/-- steps 1, 2, 3b, 4 of a known-tag arm, on an already delimited value -/
def stepItem (role : Role) (f : Field) (val : List Nat) (st : State) : Except Err State :=
  if f.serverOnly && role == .client then .error .disabled
  else if st.used.contains f.id then .error .duplicate
  else
    match decodeValue f.codec val with
    | .error e => .error e
    | .ok v => if validate f v then .ok ⟨st.params ++ [(f.id, v)], st.used ++ [f.id]⟩ else .error .invalid

def itemsRun (fs : List Field) (role : Role) : State → List (Nat × List Nat) → Except Err Params
  | st, [] => .ok st.params
  | st, (id, val) :: rest =>
    match findField fs id with
    | none => itemsRun fs role st rest
    | some f =>
      match stepItem role f val st with
      | .error e => .error e
      | .ok st' => itemsRun fs role st' rest

/-- a field accepts a value: `CodecValue::decode`, `ensure_empty`, `validate` all succeed -/
def fieldOk (f : Field) (val : List Nat) : Bool :=
  match decodeValue f.codec val with
  | .ok v => validate f v
  | .error _ => false

def itemsOk (fs : List Field) (role : Role) : List Nat → List (Nat × List Nat) → Bool
  | _, [] => true
  | used, (id, val) :: rest =>
    match findField fs id with
    | none => itemsOk fs role used rest
    | some f =>
      !(f.serverOnly && role == .client) && !used.contains f.id && fieldOk f val
        && itemsOk fs role (used ++ [f.id]) rest

theorem stepKnown_eq (role : Role) (f : Field) (inner : List Nat) (st : State) (len : Nat) (r2 : List Nat)
    (hb : BytesOk inner) (hp : Rfc.VarInt.parse inner = some (len, r2)) (hl : ¬ r2.length < len) :
    stepKnown role f inner st =
      match stepItem role f (r2.take len) st with
      | .error e => .error e
      | .ok st' => .ok (st', r2.drop len) := by
  unfold stepKnown stepItem
  rw [lenPrefixed_eq inner hb, hp]
  simp only [hl, if_false]
  split
  · rfl
  · split
    · rfl
    · cases decodeValue f.codec (List.take len r2) with
      | error e => rfl
      | ok v =>
        simp only
        split <;> rfl

theorem stepKnown_noparse (role : Role) (f : Field) (inner : List Nat) (st : State)
    (hb : BytesOk inner)
    (hp : Rfc.VarInt.parse inner = none ∨ ∃ len r2, Rfc.VarInt.parse inner = some (len, r2) ∧ r2.length < len) :
    isOk (stepKnown role f inner st) = false := by
  unfold stepKnown
  rw [lenPrefixed_eq inner hb]
  split
  · rfl
  · split
    · rfl
    · rcases hp with hp | ⟨len, r2, hp, hl⟩
      · rw [hp]; rfl
      · rw [hp]; simp only [hl, if_true]; rfl

/-- when the block does not parse as a sequence of (id, len, value) the loop fails -/
theorem loop_no_parse (fs : List Field) (role : Role) :
    ∀ (n : Nat) (buf : List Nat) (st : State), BytesOk buf → parseItems n buf = none →
      isOk (loop fs role n buf st) = false := by
  intro n
  induction n with
  | zero =>
    intro buf st _ hp
    cases buf with
    | nil => simp [parseItems] at hp
    | cons b bs => rfl
  | succ n ih =>
    intro buf st hb hp
    cases buf with
    | nil => simp [parseItems] at hp
    | cons b bs =>
      unfold loop
      rw [decode_eq_parse _ hb]
      unfold parseItems at hp
      cases h1 : Rfc.VarInt.parse (b :: bs) with
      | none => rfl
      | some p1 =>
        obtain ⟨tag, inner⟩ := p1
        obtain ⟨_, _, hbi⟩ := parse_rest hb h1
        rw [h1] at hp
        simp only at hp ⊢
        cases h2 : Rfc.VarInt.parse inner with
        | none =>
          cases hf : findField fs tag with
          | none =>
            simp only [lenPrefixed_eq inner hbi, h2]; rfl
          | some f =>
            simp only
            have := stepKnown_noparse role f inner st hbi (Or.inl h2)
            cases hs : stepKnown role f inner st with
            | error e => rfl
            | ok p => rw [hs] at this; simp [isOk] at this
        | some p2 =>
          obtain ⟨len, r2⟩ := p2
          obtain ⟨_, _, hb2⟩ := parse_rest hbi h2
          rw [h2] at hp
          simp only at hp
          by_cases hl : r2.length < len
          · cases hf : findField fs tag with
            | none =>
              simp only [lenPrefixed_eq inner hbi, h2, hl, if_true]; rfl
            | some f =>
              simp only
              have := stepKnown_noparse role f inner st hbi (Or.inr ⟨len, r2, h2, hl⟩)
              cases hs : stepKnown role f inner st with
              | error e => rfl
              | ok p => rw [hs] at this; simp [isOk] at this
          · simp only [hl, if_false] at hp
            have hrest : parseItems n (r2.drop len) = none := by
              cases h3 : parseItems n (r2.drop len) with
              | none => rfl
              | some its => rw [h3] at hp; simp at hp
            cases hf : findField fs tag with
            | none =>
              simp only [lenPrefixed_eq inner hbi, h2, hl, if_false]
              exact ih _ st (bytesOk_drop _ hb2) hrest
            | some f =>
              simp only [stepKnown_eq role f inner st len r2 hbi h2 hl]
              cases stepItem role f (r2.take len) st with
              | error e => rfl
              | ok st' => exact ih _ st' (bytesOk_drop _ hb2) hrest

/-- when it does, the loop is exactly the item-by-item run (same result, same error) -/
theorem loop_of_parse (fs : List Field) (role : Role) :
    ∀ (n : Nat) (buf : List Nat) (st : State) (its : List (Nat × List Nat)), BytesOk buf →
      parseItems n buf = some its → loop fs role n buf st = itemsRun fs role st its := by
  intro n
  induction n with
  | zero =>
    intro buf st its _ hp
    cases buf with
    | nil => simp [parseItems] at hp; subst hp; rfl
    | cons b bs => simp [parseItems] at hp
  | succ n ih =>
    intro buf st its hb hp
    cases buf with
    | nil => simp [parseItems] at hp; subst hp; rfl
    | cons b bs =>
      unfold loop
      rw [decode_eq_parse _ hb]
      unfold parseItems at hp
      cases h1 : Rfc.VarInt.parse (b :: bs) with
      | none => rw [h1] at hp; simp at hp
      | some p1 =>
        obtain ⟨tag, inner⟩ := p1
        obtain ⟨_, _, hbi⟩ := parse_rest hb h1
        rw [h1] at hp
        simp only at hp ⊢
        cases h2 : Rfc.VarInt.parse inner with
        | none => rw [h2] at hp; simp at hp
        | some p2 =>
          obtain ⟨len, r2⟩ := p2
          obtain ⟨_, _, hb2⟩ := parse_rest hbi h2
          rw [h2] at hp
          simp only at hp
          by_cases hl : r2.length < len
          · simp [hl] at hp
          · simp only [hl, if_false] at hp
            cases h3 : parseItems n (r2.drop len) with
            | none => rw [h3] at hp; simp at hp
            | some rest =>
              rw [h3] at hp
              simp only [Option.some.injEq] at hp
              subst hp
              unfold itemsRun
              cases hf : findField fs tag with
              | none =>
                simp only [lenPrefixed_eq inner hbi, h2, hl, if_false]
                exact ih _ st rest (bytesOk_drop _ hb2) h3
              | some f =>
                simp only [stepKnown_eq role f inner st len r2 hbi h2 hl]
                cases stepItem role f (r2.take len) st with
                | error e => rfl
                | ok st' => exact ih _ st' rest (bytesOk_drop _ hb2) h3

theorem itemsRun_isOk (fs : List Field) (role : Role) :
    ∀ (its : List (Nat × List Nat)) (st : State),
      isOk (itemsRun fs role st its) = itemsOk fs role st.used its := by
  intro its
  induction its with
  | nil => intro st; rfl
  | cons it rest ih =>
    intro st
    obtain ⟨id, val⟩ := it
    unfold itemsRun itemsOk
    cases hf : findField fs id with
    | none => exact ih st
    | some f =>
      simp only
      unfold stepItem fieldOk
      cases h2 : st.used.contains f.id
      · cases hd : decodeValue f.codec val with
        | error e => cases f.serverOnly <;> cases role <;> simp
        | ok v =>
          cases hv : validate f v
          · cases f.serverOnly <;> cases role <;> simp [hv]
          · cases f.serverOnly <;> cases role <;> simp [hv, ih]
      · cases f.serverOnly <;> cases role <;> simp

theorem parseItems_bytesOk : ∀ (n : Nat) (buf : List Nat) (its : List (Nat × List Nat)), BytesOk buf →
    parseItems n buf = some its → ∀ it ∈ its, BytesOk it.2 := by
  intro n
  induction n with
  | zero =>
    intro buf its _ hp
    cases buf with
    | nil => simp [parseItems] at hp; subst hp; intro it h; cases h
    | cons b bs => simp [parseItems] at hp
  | succ n ih =>
    intro buf its hb hp
    cases buf with
    | nil => simp [parseItems] at hp; subst hp; intro it h; cases h
    | cons b bs =>
      unfold parseItems at hp
      cases h1 : Rfc.VarInt.parse (b :: bs) with
      | none => rw [h1] at hp; simp at hp
      | some p1 =>
        obtain ⟨tag, inner⟩ := p1
        obtain ⟨_, _, hbi⟩ := parse_rest hb h1
        rw [h1] at hp
        simp only at hp
        cases h2 : Rfc.VarInt.parse inner with
        | none => rw [h2] at hp; simp at hp
        | some p2 =>
          obtain ⟨len, r2⟩ := p2
          obtain ⟨_, _, hb2⟩ := parse_rest hbi h2
          rw [h2] at hp
          simp only at hp
          by_cases hl : r2.length < len
          · simp [hl] at hp
          · simp only [hl, if_false] at hp
            cases h3 : parseItems n (r2.drop len) with
            | none => rw [h3] at hp; simp at hp
            | some rest =>
              rw [h3] at hp
              simp only [Option.some.injEq] at hp
              subst hp
              intro it hit
              rcases List.mem_cons.mp hit with rfl | hit
              · exact bytesOk_take _ hb2
              · exact ih _ rest (bytesOk_drop _ hb2) h3 it hit

/-- the loop accepts a block iff it parses and its items are acceptable -/
theorem accepts_eq_items (fs : List Field) (role : Role) (blk : List Nat) (hb : BytesOk blk) :
    accepts fs role blk =
      match parseItems blk.length blk with
      | none => false
      | some its => itemsOk fs role [] its := by
  unfold accepts decodeParameters
  cases hp : parseItems blk.length blk with
  | none => exact loop_no_parse fs role _ _ _ hb hp
  | some its =>
    rw [loop_of_parse fs role _ _ _ its hb hp, itemsRun_isOk]

/-! ### (D) lift: row-wise matching tables accept the same blocks -/

theorem findField_some {fs : List Field} {id : Nat} {f : Field} (h : findField fs id = some f) :
    f ∈ fs ∧ f.id = id := by
  unfold findField at h
  refine ⟨List.mem_of_find?_eq_some h, ?_⟩
  have := List.find?_some h
  simpa using this

/-- `P id val` restricts the values on which the two sides are compared (`True` for the conformant table) -/
def RowMatches (P : Nat → List Nat → Prop) (f : Field) (r : Row) : Prop :=
  r.serverOnly = f.serverOnly ∧ ∀ val, BytesOk val → P f.id val → fieldOk f val = valueOk r.kind val

structure TablesMatch (P : Nat → List Nat → Prop) (fs : List Field) (tbl : List Row) : Prop where
  unknown : ∀ id, findField fs id = none → lookupIn tbl id = none
  rows : ∀ f ∈ fs, ∃ r, lookupIn tbl f.id = some r ∧ RowMatches P f r

/-- ids must be new w.r.t. `used` and pairwise distinct -/
def disjointNodup : List Nat → List Nat → Bool
  | _, [] => true
  | used, x :: xs => !used.contains x && disjointNodup (used ++ [x]) xs

theorem all_ne_eq_not_contains (x : Nat) (xs : List Nat) :
    xs.all (fun y => !(y == x)) = !xs.contains x := by
  induction xs with
  | nil => rfl
  | cons y ys ih =>
    simp only [List.all_cons, List.contains_cons, ih, Bool.not_or]
    cases hxy : (y == x) <;> cases hyx : (x == y) <;> simp_all [beq_iff_eq]

theorem all_and_split (p q : Nat → Bool) (xs : List Nat) :
    xs.all (fun y => p y && q y) = (xs.all p && xs.all q) := by
  induction xs with
  | nil => rfl
  | cons y ys ih =>
    simp only [List.all_cons, ih]
    cases p y <;> cases q y <;> simp

theorem disjointNodup_eq (used l : List Nat) :
    disjointNodup used l = (l.all (fun x => !used.contains x) && nodupB l) := by
  induction l generalizing used with
  | nil => rfl
  | cons x xs ih =>
    unfold disjointNodup nodupB
    rw [ih]
    simp only [List.all_cons, List.contains_append, List.contains_cons, List.contains_nil, Bool.or_false,
      Bool.not_or]
    rw [← all_ne_eq_not_contains x xs]
    have := all_and_split (fun y => !used.contains y) (fun y => !(y == x)) xs
    rw [this]
    cases (!used.contains x) <;> cases (xs.all fun y => !used.contains y) <;> cases (xs.all fun y => !(y == x)) <;> simp

theorem disjointNodup_nil (l : List Nat) : disjointNodup [] l = nodupB l := by
  rw [disjointNodup_eq]
  simp

theorem itemsOk_eq_rfc (P : Nat → List Nat → Prop) (fs : List Field) (tbl : List Row) (role : Role)
    (hm : TablesMatch P fs tbl) :
    ∀ (its : List (Nat × List Nat)) (used : List Nat), (∀ it ∈ its, BytesOk it.2 ∧ P it.1 it.2) →
      itemsOk fs role used its =
        (its.all (itemOk tbl role) &&
          disjointNodup used ((its.map (fun it => it.1)).filter (fun id => (lookupIn tbl id).isSome))) := by
  intro its
  induction its with
  | nil => intro used _; rfl
  | cons it rest ih =>
    intro used hall
    obtain ⟨id, val⟩ := it
    have hrest : ∀ it ∈ rest, BytesOk it.2 ∧ P it.1 it.2 := fun it h => hall it (List.mem_cons_of_mem _ h)
    obtain ⟨hbv, hpv⟩ := hall (id, val) (List.mem_cons_self ..)
    unfold itemsOk
    cases hf : findField fs id with
    | none =>
      have hl := hm.unknown id hf
      simp only [List.all_cons, itemOk, hl, List.map_cons, List.filter_cons, Option.isSome_none, Bool.false_eq_true,
        if_false, Bool.true_and]
      exact ih used hrest
    | some f =>
      obtain ⟨hmem, hid⟩ := findField_some hf
      obtain ⟨r, hl, hso, hval⟩ := hm.rows f hmem
      rw [hid] at hl
      simp only [List.all_cons, itemOk, hl, List.map_cons, List.filter_cons, Option.isSome_some, if_true]
      unfold disjointNodup
      rw [ih (used ++ [f.id]) hrest, hid, hval val hbv (hid ▸ hpv), hso]
      cases f.serverOnly <;> cases role <;> cases (used.contains id) <;> cases (valueOk r.kind val) <;> simp

/-- (D) -/
theorem accepts_eq_acceptsWith (P : Nat → List Nat → Prop) (fs : List Field) (tbl : List Row)
    (hm : TablesMatch P fs tbl) (role : Role) (blk : List Nat) (hb : BytesOk blk)
    (hP : ∀ its, parseItems blk.length blk = some its → ∀ it ∈ its, P it.1 it.2) :
    accepts fs role blk = acceptsWith tbl role blk := by
  rw [accepts_eq_items fs role blk hb]
  unfold acceptsWith noRepeat
  cases hp : parseItems blk.length blk with
  | none => rfl
  | some its =>
    simp only
    rw [itemsOk_eq_rfc P fs tbl role hm its [] (fun it h =>
      ⟨parseItems_bytesOk _ _ its hb hp it h, hP its hp it h⟩), disjointNodup_nil]

/-! ### (C) per-field acceptance = RFC kind validity -/

theorem fieldOk_varint (name : String) (id : Nat) (so : Bool) (checks : List (Cmp × Nat)) (d : Option Value)
    (lo hi : Nat)
    (hc : ∀ v, v ≤ VarInt.maxValue →
      checks.all (fun c => c.1.eval v c.2) = (decide (lo ≤ v) && decide (v ≤ hi)))
    (val : List Nat) (hb : BytesOk val) :
    fieldOk ⟨name, id, so, .varint, checks, d⟩ val = valueOk (.integer lo hi) val := by
  unfold fieldOk decodeValue valueOk
  simp only
  rw [decode_eq_parse val hb]
  cases hp : Rfc.VarInt.parse val with
  | none => rfl
  | some p =>
    obtain ⟨v, rest⟩ := p
    obtain ⟨hv, _, _⟩ := parse_rest hb hp
    cases rest with
    | nil => simp [validate, hc v hv]
    | cons x xs => simp

theorem fieldOk_unit (name : String) (id : Nat) (so : Bool) (checks : List (Cmp × Nat)) (d : Option Value)
    (val : List Nat) :
    fieldOk ⟨name, id, so, .unit, checks, d⟩ val = valueOk .zeroLength val := by
  unfold fieldOk decodeValue valueOk
  cases val <;> simp [validate]

theorem fieldOk_token (name : String) (id : Nat) (so : Bool) (checks : List (Cmp × Nat)) (d : Option Value)
    (val : List Nat) :
    fieldOk ⟨name, id, so, .token, checks, d⟩ val = valueOk (.bytes 16) val := by
  unfold fieldOk decodeValue valueOk
  simp only
  by_cases h1 : val.length < 16
  · simp [h1]; omega
  · by_cases h2 : val.length > 16
    · simp [h1, h2]; omega
    · simp [h1, h2, validate]; omega

theorem fieldOk_cid (name : String) (id : Nat) (so : Bool) (checks : List (Cmp × Nat)) (d : Option Value)
    (lo : Nat) (val : List Nat) :
    fieldOk ⟨name, id, so, .cid lo, checks, d⟩ val = valueOk (.connectionId lo 20) val := by
  unfold fieldOk decodeValue valueOk
  simp only
  by_cases h : lo ≤ val.length ∧ val.length ≤ 20
  · simp [h, validate]
  · have hf : (decide (lo ≤ val.length) && decide (val.length ≤ 20)) = false := by
      simp only [Bool.and_eq_false_iff, decide_eq_false_iff_not]
      omega
    simp [h, hf]

theorem decodeVersions_ok (n : Nat) : ∀ (val acc : List Nat), BytesOk val →
    isOk (decodeVersions n val acc) = Rfc.TransportParams.dcVersionsOk n val := by
  induction n with
  | zero => intro val acc _; cases val <;> rfl
  | succ n ih =>
    intro val acc hb
    cases val with
    | nil => rfl
    | cons b bs =>
      unfold decodeVersions Rfc.TransportParams.dcVersionsOk
      rw [decode_eq_parse _ hb]
      cases hp : Rfc.VarInt.parse (b :: bs) with
      | none => rfl
      | some p =>
        obtain ⟨v, r⟩ := p
        obtain ⟨_, _, hbr⟩ := parse_rest hb hp
        by_cases hv : v ≤ 4294967295
        · simp [hv, ih r _ hbr]
        · simp [hv]

theorem fieldOk_dcVersions (name : String) (id : Nat) (so : Bool) (checks : List (Cmp × Nat)) (d : Option Value)
    (val : List Nat) (hb : BytesOk val) :
    fieldOk ⟨name, id, so, .dcVersions, checks, d⟩ val = valueOk .s2nDcVersions val := by
  unfold fieldOk decodeValue valueOk
  simp only
  rw [← decodeVersions_ok 4 val [] hb]
  cases decodeVersions 4 val [] <;> simp [validate]


theorem filterUnspecified_isSome (b : List Nat) : (filterUnspecified b).isSome = !allZero b := by
  unfold filterUnspecified allZero
  cases h : b.all (fun x => x == 0) <;> simp

/-- Figure 22 with a parametric lower bound on the connection-id length -/
def paOk (cm : Nat) (val : List Nat) : Bool :=
  match val.drop 24 with
  | [] => false
  | n :: rest =>
    decide (cm ≤ n) && decide (n ≤ 20) && (rest.length == n + 16)
      && !(allZero (val.take 6) && allZero ((val.drop 6).take 18))

theorem fieldOk_pa (name : String) (id : Nat) (so : Bool) (checks : List (Cmp × Nat)) (d : Option Value)
    (cm : Nat) (val : List Nat) :
    fieldOk ⟨name, id, so, .preferredAddress cm, checks, d⟩ val = paOk cm val := by
  unfold fieldOk decodeValue decodePreferredAddress paOk
  simp only [List.drop_drop]
  by_cases h6 : val.length < 6
  · have : val.drop 24 = [] := List.drop_eq_nil_of_le (by omega)
    simp [h6, this]
  · by_cases h18 : (val.drop 6).length < 18
    · have : val.drop 24 = [] := List.drop_eq_nil_of_le (by rw [List.length_drop] at h18; omega)
      simp [h6, this]
    · simp only [h6, h18, if_false]
      cases hd : val.drop (6 + 18) with
      | nil =>
        have : val.drop 24 = [] := hd
        simp
      | cons n b3 =>
        have h24 : val.drop 24 = n :: b3 := hd
        simp only
        by_cases hl : b3.length < n
        · simp [hl]; omega
        · by_cases hc : cm ≤ n ∧ n ≤ 20
          · simp only [hl, hc, if_false, not_true_eq_false, and_self, List.length_drop]
            by_cases h16 : b3.length - n < 16
            · have : (b3.length == n + 16) = false := by simp; omega
              simp [h16, this]
            · by_cases h17 : b3.length - n > 16
              · have : (b3.length == n + 16) = false := by simp; omega
                simp [h16, h17, this]
              · have : b3.length = n + 16 := by omega
                simp [validate, filterUnspecified_isSome, this, Bool.not_and]
          · have hf : (decide (cm ≤ n) && decide (n ≤ 20)) = false := by
              simp only [Bool.and_eq_false_iff, decide_eq_false_iff_not]; omega
            simp [hl, hc, hf]


theorem fieldOk_u8 (name : String) (id : Nat) (so : Bool) (d : Option Value)
    (val : List Nat) (hb : BytesOk val) (hl : val.length = 1) :
    fieldOk ⟨name, id, so, .u8, [(.le, 20)], d⟩ val = valueOk (.integer 0 20) val := by
  match val, hl with
  | [b], _ =>
    have hb' : b < 256 := hb b (by simp)
    unfold fieldOk decodeValue valueOk
    simp only [validate, List.all_cons, List.all_nil, Cmp.eval, Bool.and_true]
    have htag : b / 64 % 4 = 0 ∨ b / 64 % 4 = 1 ∨ b / 64 % 4 = 2 ∨ b / 64 % 4 = 3 := by omega
    rcases htag with h | h | h | h
    · simp [Rfc.VarInt.parse, h]; omega
    · simp [Rfc.VarInt.parse, h]; omega
    · simp [Rfc.VarInt.parse, h]; omega
    · simp [Rfc.VarInt.parse, h]; omega

/-- the value classes on which a table built with knobs `k` can differ from RFC 9000 are excluded;
    for `rfcKnobs` every clause is vacuous -/
def Avoids (k : Knobs) (id : Nat) (val : List Nat) : Prop :=
  (id = 0x0a → k.adeAsByte = true → val.length = 1) ∧
  (id = 0x0b → k.madInclusive = true → Rfc.VarInt.parse val ≠ some (16384, [])) ∧
  (id = 0x10 → k.rscidMin ≤ val.length ∨ 20 < val.length) ∧
  (id = 0x0d → ∀ n rest, val.drop 24 = n :: rest → (k.paCidMin ≤ n ↔ 1 ≤ n))

theorem avoids_rfcKnobs (id : Nat) (val : List Nat) : Avoids rfcKnobs id val := by
  refine ⟨?_, ?_, ?_, ?_⟩
  · intro _ h; simp [rfcKnobs] at h
  · intro _ h; simp [rfcKnobs] at h
  · intro _; left; simp [rfcKnobs]
  · intro _ n rest _; simp [rfcKnobs]

theorem paOk_one (val : List Nat) : paOk 1 val = valueOk .preferredAddress val := by
  simp only [paOk, valueOk]
  cases val.drop 24 <;> rfl

theorem paOk_congr (cm : Nat) (val : List Nat) (h : ∀ n rest, val.drop 24 = n :: rest → (cm ≤ n ↔ 1 ≤ n)) :
    paOk cm val = paOk 1 val := by
  unfold paOk
  cases hd : val.drop 24 with
  | nil => rfl
  | cons n rest =>
    have := h n rest hd
    simp only
    congr 3
    exact decide_eq_decide.mpr this

macro "int_checks" : tactic =>
  `(tactic| (intro v hv; rw [Bool.eq_iff_iff]; (try simp [Cmp.eval, maxInt, VarInt.maxValue] at hv ⊢);
             all_goals (try intros); all_goals (try apply decide_eq_true); all_goals (try omega)))

theorem tablesMatch_knobs (k : Knobs) : TablesMatch (Avoids k) (fieldsWith k) table := by
  constructor
  · intro id h
    unfold findField at h
    rw [List.find?_eq_none] at h
    simp only [fieldsWith, List.mem_cons, forall_eq_or_imp, beq_iff_eq, List.not_mem_nil, false_imp_iff,
      implies_true, and_true] at h
    unfold lookupIn
    rw [List.find?_eq_none]
    simp only [table, Rfc.TransportParams.rfc9000, Rfc.TransportParams.rfc9221, Rfc.TransportParams.s2nExtensions,
      List.cons_append, List.nil_append, List.mem_cons, forall_eq_or_imp, beq_iff_eq, List.not_mem_nil, false_imp_iff,
      implies_true, and_true]
    omega
  · simp only [fieldsWith, List.forall_mem_cons]
    refine ⟨?_, ?_, ?_, ?_, ?_, ?_, ?_, ?_, ?_, ?_, ?_, ?_, ?_, ?_, ?_, ?_, ?_, ?_, ?_, ?_, ?_⟩
    · exact ⟨_, rfl, rfl, fun val hb _ => fieldOk_varint _ _ _ _ _ _ _ (by int_checks) val hb⟩
    · exact ⟨_, rfl, rfl, fun val hb _ => fieldOk_varint _ _ _ _ _ _ _ (by int_checks) val hb⟩
    · exact ⟨_, rfl, rfl, fun val hb _ => fieldOk_varint _ _ _ _ _ _ _ (by int_checks) val hb⟩
    · exact ⟨_, rfl, rfl, fun val hb _ => fieldOk_varint _ _ _ _ _ _ _ (by int_checks) val hb⟩
    · exact ⟨_, rfl, rfl, fun val hb _ => fieldOk_varint _ _ _ _ _ _ _ (by int_checks) val hb⟩
    · exact ⟨_, rfl, rfl, fun val hb _ => fieldOk_varint _ _ _ _ _ _ _ (by int_checks) val hb⟩
    · exact ⟨_, rfl, rfl, fun val hb _ => fieldOk_varint _ _ _ _ _ _ _ (by int_checks) val hb⟩
    · exact ⟨_, rfl, rfl, fun val hb _ => fieldOk_varint _ _ _ _ _ _ _ (by int_checks) val hb⟩
    · exact ⟨_, rfl, rfl, fun val hb _ => fieldOk_varint _ _ _ _ _ _ _ (by int_checks) val hb⟩
    · -- ack_delay_exponent
      refine ⟨_, rfl, rfl, fun val hb hp => ?_⟩
      cases hk : k.adeAsByte
      · simp only [Bool.false_eq_true, if_false]
        exact fieldOk_varint _ _ _ _ _ _ _ (by int_checks) val hb
      · simp only [if_true]
        exact fieldOk_u8 _ _ _ _ val hb (hp.1 rfl hk)
    · -- max_ack_delay
      refine ⟨_, rfl, rfl, fun val hb hp => ?_⟩
      cases hk : k.madInclusive
      · simp only [Bool.false_eq_true, if_false]
        exact fieldOk_varint _ _ _ _ _ _ _ (by int_checks) val hb
      · simp only [if_true]
        have hne := hp.2.1 rfl hk
        -- `<= 16384` and `<= 16383` agree on every value except 16384
        unfold fieldOk decodeValue valueOk
        simp only
        rw [decode_eq_parse val hb]
        cases hpv : Rfc.VarInt.parse val with
        | none => rfl
        | some p =>
          obtain ⟨v, rest⟩ := p
          cases rest with
          | nil =>
            have : v ≠ 16384 := fun h => hne (by rw [hpv, h])
            simp [validate, Cmp.eval]; omega
          | cons x xs => simp
    · exact ⟨_, rfl, rfl, fun val _ _ => fieldOk_unit _ _ _ _ _ val⟩
    · exact ⟨_, rfl, rfl, fun val hb _ => fieldOk_varint _ _ _ _ _ _ _ (by int_checks) val hb⟩
    · exact ⟨_, rfl, rfl, fun val _ _ => fieldOk_cid _ _ _ _ _ _ val⟩
    · exact ⟨_, rfl, rfl, fun val _ _ => fieldOk_token _ _ _ _ _ val⟩
    · -- preferred_address
      refine ⟨_, rfl, rfl, fun val _ hp => ?_⟩
      rw [fieldOk_pa, paOk_congr _ _ (hp.2.2.2 rfl), paOk_one]
    · exact ⟨_, rfl, rfl, fun val _ _ => fieldOk_cid _ _ _ _ _ _ val⟩
    · -- retry_source_connection_id
      refine ⟨_, rfl, rfl, fun val _ hp => ?_⟩
      rw [fieldOk_cid]
      have := hp.2.2.1 rfl
      unfold valueOk
      simp only [Nat.zero_le, decide_true, Bool.true_and]
      rcases this with h | h
      · simp [h]
      · have h1 : decide (val.length ≤ 20) = false := by simp; omega
        simp [h1]
    · exact ⟨_, rfl, rfl, fun val hb _ => fieldOk_dcVersions _ _ _ _ _ val hb⟩
    · exact ⟨_, rfl, rfl, fun val _ _ => fieldOk_unit _ _ _ _ _ val⟩
    · intro x hx; cases hx


/-! ### (F) consequences at item level -/

theorem decode_of_parse (fs : List Field) (role : Role) (blk : List Nat) (its : List (Nat × List Nat))
    (hb : BytesOk blk) (hp : parseItems blk.length blk = some its) :
    decodeParameters fs role blk = itemsRun fs role ⟨[], []⟩ its :=
  loop_of_parse fs role _ _ _ its hb hp

theorem itemsRun_unknown (fs : List Field) (role : Role) (id : Nat) (val : List Nat)
    (hunk : findField fs id = none) :
    ∀ (pre post : List (Nat × List Nat)) (st : State),
      itemsRun fs role st (pre ++ (id, val) :: post) = itemsRun fs role st (pre ++ post) := by
  intro pre
  induction pre with
  | nil => intro post st; simp only [List.nil_append]; rw [itemsRun, hunk]
  | cons it pre ih =>
    intro post st
    obtain ⟨i, v⟩ := it
    simp only [List.cons_append]
    unfold itemsRun
    cases findField fs i with
    | none => exact ih post st
    | some f =>
      simp only
      cases stepItem role f v st with
      | error e => rfl
      | ok st' => exact ih post st'

theorem itemsOk_used (fs : List Field) (role : Role) (id : Nat) (f : Field) (hf : findField fs id = some f) :
    ∀ (pre post : List (Nat × List Nat)) (val : List Nat) (used : List Nat), used.contains f.id = true →
      itemsOk fs role used (pre ++ (id, val) :: post) = false := by
  intro pre
  induction pre with
  | nil =>
    intro post val used hu
    simp only [List.nil_append]
    rw [itemsOk, hf]
    have hu' : f.id ∈ used := by simpa using hu
    simp [hu']
  | cons it pre ih =>
    intro post val used hu
    obtain ⟨i, v⟩ := it
    simp only [List.cons_append]
    unfold itemsOk
    cases findField fs i with
    | none => exact ih post val used hu
    | some g =>
      simp only
      have hu' : f.id ∈ used := by simpa using hu
      rw [ih post val (used ++ [g.id]) (by simp [hu'])]
      simp

theorem itemsOk_duplicate (fs : List Field) (role : Role) (id : Nat) (hf : (findField fs id).isSome = true) :
    ∀ (a b c : List (Nat × List Nat)) (v1 v2 : List Nat) (used : List Nat),
      itemsOk fs role used (a ++ (id, v1) :: (b ++ (id, v2) :: c)) = false := by
  obtain ⟨f, hf⟩ := Option.isSome_iff_exists.mp hf
  have hid := (findField_some hf).2
  intro a
  induction a with
  | nil =>
    intro b c v1 v2 used
    simp only [List.nil_append]
    rw [itemsOk, hf]
    simp only
    rw [itemsOk_used fs role id f hf b c v2 (used ++ [f.id]) (by simp)]
    simp
  | cons it a ih =>
    intro b c v1 v2 used
    obtain ⟨i, v⟩ := it
    simp only [List.cons_append]
    unfold itemsOk
    cases findField fs i with
    | none => exact ih b c v1 v2 used
    | some g =>
      simp only
      rw [ih b c v1 v2 (used ++ [g.id])]
      simp

theorem itemsOk_server_only (fs : List Field) (id : Nat) (f : Field) (hf : findField fs id = some f)
    (hso : f.serverOnly = true) :
    ∀ (its : List (Nat × List Nat)) (val : List Nat) (used : List Nat), (id, val) ∈ its →
      itemsOk fs .client used its = false := by
  intro its
  induction its with
  | nil => intro val used h; cases h
  | cons it rest ih =>
    intro val used h
    obtain ⟨i, v⟩ := it
    unfold itemsOk
    rcases List.mem_cons.mp h with heq | hmem
    · have : i = id := by injection heq with h1 _; exact h1.symm
      subst this
      rw [hf]
      simp [hso]
    · cases findField fs i with
      | none => exact ih val used hmem
      | some g =>
        simp only
        rw [ih val (used ++ [g.id]) hmem]
        simp

theorem lookupId_append_ne (ps : Params) (id i : Nat) (v : Value) (h : i ≠ id) :
    lookupId (ps ++ [(i, v)]) id = lookupId ps id := by
  unfold lookupId
  rw [List.find?_append]
  cases hfd : ps.find? (fun p => p.1 == id) with
  | some p => rfl
  | none =>
    have : ((i, v).1 == id) = false := by simpa using h
    simp [this]

theorem lookupId_append_new (ps : Params) (id : Nat) (v : Value)
    (h : (ps.map (fun p => p.1)).contains id = false) :
    lookupId (ps ++ [(id, v)]) id = some v := by
  unfold lookupId
  rw [List.find?_append]
  have : ps.find? (fun p => p.1 == id) = none := by
    rw [List.find?_eq_none]
    intro p hp hpe
    have : (ps.map (fun p => p.1)).contains id = true := by
      rw [List.contains_iff_mem]
      exact List.mem_map.mpr ⟨p, hp, by simpa using hpe⟩
    rw [h] at this; cases this
  simp [this]

theorem lookupId_append_old (ps : Params) (id i : Nat) (v w : Value) (h : lookupId ps id = some w) :
    lookupId (ps ++ [(i, v)]) id = some w := by
  unfold lookupId at h ⊢
  rw [List.find?_append]
  cases hfd : ps.find? (fun p => p.1 == id) with
  | some p => rw [hfd] at h; simpa using h
  | none => rw [hfd] at h; cases h

/-- a parameter that does not occur in the block keeps its previous value (initially: none ⇒ default) -/
theorem itemsRun_absent (fs : List Field) (role : Role) (id : Nat) :
    ∀ (its : List (Nat × List Nat)) (st : State) (ps : Params), (∀ it ∈ its, it.1 ≠ id) →
      itemsRun fs role st its = .ok ps → lookupId ps id = lookupId st.params id := by
  intro its
  induction its with
  | nil => intro st ps _ h; simp only [itemsRun] at h; injection h with h; rw [h]
  | cons it rest ih =>
    intro st ps hne h
    obtain ⟨i, v⟩ := it
    have hi : i ≠ id := hne (i, v) (List.mem_cons_self ..)
    have hrest : ∀ it ∈ rest, it.1 ≠ id := fun it hm => hne it (List.mem_cons_of_mem _ hm)
    unfold itemsRun at h
    cases hf : findField fs i with
    | none => rw [hf] at h; exact ih st ps hrest h
    | some f =>
      rw [hf] at h
      simp only at h
      have hfi := (findField_some hf).2
      cases hs : stepItem role f v st with
      | error e => rw [hs] at h; cases h
      | ok st' =>
        rw [hs] at h
        simp only at h
        rw [ih st' ps hrest h]
        unfold stepItem at hs
        split at hs
        · cases hs
        · split at hs
          · cases hs
          · cases hd : decodeValue f.codec v with
            | error e => rw [hd] at hs; cases hs
            | ok w =>
              rw [hd] at hs
              simp only at hs
              split at hs
              · injection hs with hs
                subst hs
                exact lookupId_append_ne _ _ _ _ (by rw [hfi]; exact hi)
              · cases hs

/-- a parameter that occurs in an accepted block is stored with exactly its decoded, validated value -/
theorem itemsRun_present (fs : List Field) (role : Role) (id : Nat) (f : Field) (hf : findField fs id = some f) :
    ∀ (its : List (Nat × List Nat)) (st : State) (ps : Params) (val : List Nat),
      st.used = st.params.map (fun p => p.1) → (id, val) ∈ its → lookupId st.params id = none →
      itemsRun fs role st its = .ok ps →
      ∃ v, decodeValue f.codec val = .ok v ∧ validate f v = true ∧ lookupId ps id = some v := by
  have hfid := (findField_some hf).2
  -- once stored, later items cannot change it
  have keep : ∀ (its : List (Nat × List Nat)) (st : State) (ps : Params) (w : Value),
      lookupId st.params id = some w → itemsRun fs role st its = .ok ps → lookupId ps id = some w := by
    intro its
    induction its with
    | nil => intro st ps w hw h; simp only [itemsRun] at h; injection h with h; rw [← h]; exact hw
    | cons it rest ih =>
      intro st ps w hw h
      obtain ⟨i, v⟩ := it
      unfold itemsRun at h
      cases hg : findField fs i with
      | none => rw [hg] at h; exact ih st ps w hw h
      | some g =>
        rw [hg] at h
        simp only at h
        cases hs : stepItem role g v st with
        | error e => rw [hs] at h; cases h
        | ok st' =>
          rw [hs] at h
          simp only at h
          refine ih st' ps w ?_ h
          unfold stepItem at hs
          split at hs
          · cases hs
          · split at hs
            · cases hs
            · cases hd : decodeValue g.codec v with
              | error e => rw [hd] at hs; cases hs
              | ok x =>
                rw [hd] at hs
                simp only at hs
                split at hs
                · injection hs with hs
                  subst hs
                  exact lookupId_append_old _ _ _ _ _ hw
                · cases hs
  intro its
  induction its with
  | nil => intro st ps val _ h; cases h
  | cons it rest ih =>
    intro st ps val hinv hmem hnone h
    obtain ⟨i, v⟩ := it
    unfold itemsRun at h
    by_cases hi : i = id
    · subst hi
      rw [hf] at h
      simp only at h
      cases hs : stepItem role f v st with
      | error e => rw [hs] at h; cases h
      | ok st' =>
        rw [hs] at h
        simp only at h
        unfold stepItem at hs
        split at hs
        · cases hs
        · rename_i hnd
          split at hs
          · cases hs
          · rename_i hnu
            cases hd : decodeValue f.codec v with
            | error e => rw [hd] at hs; cases hs
            | ok x =>
              rw [hd] at hs
              simp only at hs
              split at hs
              · rename_i hv
                injection hs with hs
                subst hs
                have hnew : lookupId (st.params ++ [(f.id, x)]) i = some x := by
                  rw [hfid]
                  apply lookupId_append_new
                  rw [← hinv, ← hfid]
                  simpa using hnu
                have hfin := keep rest _ ps x hnew h
                -- is the item we were asked about this very item, or a later one (then it is a duplicate)?
                rcases List.mem_cons.mp hmem with heq | hlater
                · have : val = v := by injection heq
                  subst this
                  exact ⟨x, hd, hv, hfin⟩
                · -- a later item with the same id is rejected as a duplicate: contradiction with `h`
                  exfalso
                  obtain ⟨pre, post, hsplit⟩ := List.append_of_mem hlater
                  have hok : isOk (itemsRun fs role ⟨st.params ++ [(f.id, x)], st.used ++ [f.id]⟩ rest) = true := by
                    rw [h]; rfl
                  rw [itemsRun_isOk, hsplit, itemsOk_used fs role i f hf pre post val _ (by simp)] at hok
                  cases hok
              · cases hs
    · have hmem' : (id, val) ∈ rest := by
        rcases List.mem_cons.mp hmem with heq | hm
        · exact absurd (by injection heq with h1 _; exact h1.symm) hi
        · exact hm
      cases hg : findField fs i with
      | none => rw [hg] at h; exact ih st ps val hinv hmem' hnone h
      | some g =>
        rw [hg] at h
        simp only at h
        have hgi := (findField_some hg).2
        cases hs : stepItem role g v st with
        | error e => rw [hs] at h; cases h
        | ok st' =>
          rw [hs] at h
          simp only at h
          unfold stepItem at hs
          split at hs
          · cases hs
          · split at hs
            · cases hs
            · cases hd : decodeValue g.codec v with
              | error e => rw [hd] at hs; cases hs
              | ok x =>
                rw [hd] at hs
                simp only at hs
                split at hs
                · injection hs with hs
                  subst hs
                  refine ih _ ps val ?_ hmem' ?_ h
                  · simp [hinv]
                  · rw [lookupId_append_ne _ _ _ _ (by rw [hgi]; exact hi)]; exact hnone
                · cases hs


/-! ### (G) fuel, encoder, round trip -/

theorem decode_shorter {b r : List Nat} {v : Nat} (h : VarInt.decode b = some (v, r)) : r.length < b.length := by
  obtain ⟨_, n, hn, hle, hr⟩ := Quic.Proofs.C05.decode_consumes b r v h
  subst hr; rw [List.length_drop]; omega

theorem lenPrefixed_shorter {b val r : List Nat} (h : lenPrefixed b = .ok (val, r)) : r.length < b.length := by
  unfold lenPrefixed at h
  cases hd : VarInt.decode b with
  | none => rw [hd] at h; cases h
  | some p =>
    obtain ⟨len, rest⟩ := p
    rw [hd] at h
    simp only at h
    have := decode_shorter hd
    split at h
    · cases h
    · injection h with h
      injection h with _ h2
      subst h2
      rw [List.length_drop]; omega

theorem stepKnown_shorter {role : Role} {f : Field} {b r : List Nat} {st st' : State}
    (h : stepKnown role f b st = .ok (st', r)) : r.length < b.length := by
  unfold stepKnown at h
  split at h
  · cases h
  · split at h
    · cases h
    · cases hl : lenPrefixed b with
      | error e => rw [hl] at h; cases h
      | ok p =>
        obtain ⟨val, rest⟩ := p
        rw [hl] at h
        simp only at h
        have := lenPrefixed_shorter hl
        cases hd : decodeValue f.codec val with
        | error e => rw [hd] at h; cases h
        | ok v =>
          rw [hd] at h
          simp only at h
          split at h
          · injection h with h
            injection h with _ h2
            subst h2; exact this
          · cases h

/-- the fuel (initial buffer length) is never the reason for a result -/
theorem loop_fuel (fs : List Field) (role : Role) :
    ∀ (n m : Nat) (buf : List Nat) (st : State), buf.length ≤ n → buf.length ≤ m →
      loop fs role n buf st = loop fs role m buf st := by
  intro n
  induction n with
  | zero =>
    intro m buf st hn _
    have : buf = [] := List.eq_nil_of_length_eq_zero (by omega)
    subst this
    cases m <;> rfl
  | succ n ih =>
    intro m buf st hn hm
    cases buf with
    | nil => cases m <;> rfl
    | cons b bs =>
      cases m with
      | zero => simp at hm
      | succ m =>
        unfold loop
        cases hd : VarInt.decode (b :: bs) with
        | none => rfl
        | some p =>
          obtain ⟨tag, inner⟩ := p
          have h1 := decode_shorter hd
          simp only
          cases findField fs tag with
          | some f =>
            simp only
            cases hs : stepKnown role f inner st with
            | error e => rfl
            | ok q =>
              obtain ⟨st', rest⟩ := q
              have h2 := stepKnown_shorter hs
              simp only [List.length_cons] at hn hm h1
              exact ih m rest st' (by omega) (by omega)
          | none =>
            simp only
            cases hl : lenPrefixed inner with
            | error e => rfl
            | ok q =>
              obtain ⟨val, rest⟩ := q
              have h2 := lenPrefixed_shorter hl
              simp only [List.length_cons] at hn hm h1
              exact ih m rest st (by omega) (by omega)

theorem lenPrefixed_tlv (val rest : List Nat) (hl : val.length ≤ VarInt.maxValue) :
    lenPrefixed (VarInt.encode val.length ++ (val ++ rest)) = .ok (val, rest) := by
  unfold lenPrefixed
  rw [Quic.Proofs.C05.varint_roundtrip _ _ hl]
  simp

theorem loop_succ_cons (fs : List Field) (role : Role) (n b : Nat) (bs : List Nat) (st : State) :
    loop fs role (n + 1) (b :: bs) st =
      match VarInt.decode (b :: bs) with
      | none => .error .eof
      | some (tag, inner) =>
        match findField fs tag with
        | some f =>
          match stepKnown role f inner st with
          | .error e => .error e
          | .ok (st', rest) => loop fs role n rest st'
        | none =>
          match lenPrefixed inner with
          | .error e => .error e
          | .ok (_, rest) => loop fs role n rest st := by
  rw [loop]
  rfl

theorem tlv_decode (id : Nat) (val rest : List Nat) (hid : id ≤ VarInt.maxValue) :
    VarInt.decode (tlv id val ++ rest) = some (id, VarInt.encode val.length ++ (val ++ rest)) := by
  unfold tlv
  rw [List.append_assoc, List.append_assoc, Quic.Proofs.C05.varint_roundtrip _ _ hid]

/-- an unknown parameter in front of a block changes nothing (`skip_with_len_prefix`) -/
theorem loop_skip_unknown (fs : List Field) (role : Role) (id : Nat) (val rest : List Nat) (st : State) (n m : Nat)
    (hid : id ≤ VarInt.maxValue) (hl : val.length ≤ VarInt.maxValue) (hunk : findField fs id = none)
    (hn : (tlv id val ++ rest).length ≤ n) (hm : rest.length ≤ m) :
    loop fs role n (tlv id val ++ rest) st = loop fs role m rest st := by
  have hdec := tlv_decode id val rest hid
  have hsh := decode_shorter hdec
  have h3 : rest.length ≤ (VarInt.encode val.length ++ (val ++ rest)).length := by simp; omega
  cases n with
  | zero => exfalso; omega
  | succ n =>
    cases hb : tlv id val ++ rest with
    | nil => rw [hb] at hsh; simp at hsh
    | cons b bs =>
      rw [loop_succ_cons, ← hb, hdec]
      simp only [hunk, lenPrefixed_tlv val rest hl]
      apply loop_fuel
      · rw [hb] at hsh hn
        simp only [List.length_cons] at hsh hn
        omega
      · exact hm

/-- a known, enabled, not yet seen parameter with an acceptable value in front of a block -/
theorem loop_step_known (fs : List Field) (role : Role) (f : Field) (val rest : List Nat) (v : Value) (st : State)
    (n m : Nat)
    (hid : f.id ≤ VarInt.maxValue) (hl : val.length ≤ VarInt.maxValue) (hf : findField fs f.id = some f)
    (hen : (f.serverOnly && role == .client) = false) (hnew : f.id ∉ st.used)
    (hdv : decodeValue f.codec val = .ok v) (hv : validate f v = true)
    (hn : (tlv f.id val ++ rest).length ≤ n) (hm : rest.length ≤ m) :
    loop fs role n (tlv f.id val ++ rest) st
      = loop fs role m rest ⟨st.params ++ [(f.id, v)], st.used ++ [f.id]⟩ := by
  have hdec := tlv_decode f.id val rest hid
  have hsh := decode_shorter hdec
  have h3 : rest.length ≤ (VarInt.encode val.length ++ (val ++ rest)).length := by simp; omega
  cases n with
  | zero => exfalso; omega
  | succ n =>
    cases hb : tlv f.id val ++ rest with
    | nil => rw [hb] at hsh; simp at hsh
    | cons b bs =>
      rw [loop_succ_cons, ← hb, hdec]
      simp only [hf]
      have hstep : stepKnown role f (VarInt.encode val.length ++ (val ++ rest)) st
          = .ok (⟨st.params ++ [(f.id, v)], st.used ++ [f.id]⟩, rest) := by
        unfold stepKnown
        simp [hen, hnew, lenPrefixed_tlv val rest hl, hdv, hv]
      rw [hstep]
      simp only
      apply loop_fuel
      · rw [hb] at hsh hn
        simp only [List.length_cons] at hsh hn
        omega
      · exact hm


/-! ### (H) values survive encode → decode -/

/-- the values a well-typed `TransportParameters` struct can hold for a field with this CodecValue -/
def ValueWF : ValueCodec → Value → Prop
  | .varint, .int n => n ≤ VarInt.maxValue
  | .u8, .int n => n < 256
  | .unit, .unit => True
  | .token, .bytes b => b.length = 16
  | .cid lo, .bytes b => lo ≤ b.length ∧ b.length ≤ 20
  | .preferredAddress cm, .pa v4 v6 cid tok =>
    (∀ a, v4 = some a → a.length = 6 ∧ allZero a = false) ∧ (∀ a, v6 = some a → a.length = 18 ∧ allZero a = false)
      ∧ cm ≤ cid.length ∧ cid.length ≤ 20 ∧ tok.length = 16
  | .dcVersions, .versions l => l.length ≤ 4 ∧ ∀ v ∈ l, v ≤ 4294967295
  | _, _ => False

theorem encode_ne_nil (x : Nat) : VarInt.encode x ≠ [] := by
  intro h
  have h1 := Quic.Proofs.C05.varint_size x
  rw [h] at h1
  unfold VarInt.encodingSize at h1
  rw [Quic.Proofs.C05.lookup_cases] at h1
  repeat' split at h1
  all_goals simp at h1

theorem encode_len_le (x : Nat) : (VarInt.encode x).length ≤ 8 := by
  rw [Quic.Proofs.C05.varint_size]
  unfold VarInt.encodingSize
  rw [Quic.Proofs.C05.lookup_cases]
  repeat' split
  all_goals simp

theorem decodeVersions_encode : ∀ (l : List Nat) (n : Nat) (acc : List Nat), l.length ≤ n →
    (∀ v ∈ l, v ≤ 4294967295) → decodeVersions n (l.flatMap VarInt.encode) acc = .ok (acc ++ l) := by
  intro l
  induction l with
  | nil => intro n acc _ _; cases n <;> simp [decodeVersions]
  | cons x xs ih =>
    intro n acc hn hall
    cases n with
    | zero => simp at hn
    | succ n =>
      have hx : x ≤ 4294967295 := hall x (List.mem_cons_self ..)
      simp only [List.flatMap_cons]
      cases hb : VarInt.encode x ++ xs.flatMap VarInt.encode with
      | nil => exact absurd (List.append_eq_nil_iff.mp hb).1 (encode_ne_nil x)
      | cons b bs =>
        unfold decodeVersions
        rw [← hb, Quic.Proofs.C05.varint_roundtrip _ _ (by unfold VarInt.maxValue; omega)]
        simp only [hx, if_true]
        rw [ih n (acc ++ [x]) (by simpa using hn) (fun v hv => hall v (List.mem_cons_of_mem _ hv))]
        simp

theorem filterUnspecified_getD (o : Option (List Nat)) (k : Nat)
    (h : ∀ a, o = some a → a.length = k ∧ allZero a = false) :
    filterUnspecified (o.getD (List.replicate k 0)) = o ∧ (o.getD (List.replicate k 0)).length = k := by
  cases o with
  | none =>
    simp [filterUnspecified]
  | some a =>
    obtain ⟨hl, hz⟩ := h a rfl
    unfold allZero at hz
    simp [filterUnspecified, hz, hl]

theorem decodeValue_encodeValue (c : ValueCodec) (v : Value) (h : ValueWF c v) :
    decodeValue c (encodeValue c v) = .ok v := by
  cases c with
  | varint =>
    cases v <;> simp only [ValueWF] at h
    rename_i n
    simp only [decodeValue, encodeValue]
    have := Quic.Proofs.C05.varint_roundtrip n [] h
    rw [List.append_nil] at this
    rw [this]; rfl
  | u8 => cases v <;> simp only [ValueWF] at h; rfl
  | unit => cases v <;> simp only [ValueWF] at h; rfl
  | token =>
    cases v <;> simp only [ValueWF] at h
    simp [decodeValue, encodeValue, h]
  | cid lo =>
    cases v <;> simp only [ValueWF] at h
    simp [decodeValue, encodeValue, h]
  | dcVersions =>
    cases v <;> simp only [ValueWF] at h
    rename_i l
    simp only [decodeValue, encodeValue]
    rw [decodeVersions_encode l 4 [] h.1 h.2]
    simp
  | preferredAddress cm =>
    cases v <;> simp only [ValueWF] at h
    rename_i v4 v6 cid tok
    obtain ⟨h4, h6, hc1, hc2, ht⟩ := h
    obtain ⟨f4, l4⟩ := filterUnspecified_getD v4 6 h4
    obtain ⟨f6, l6⟩ := filterUnspecified_getD v6 18 h6
    have key : ∀ a4 a6 : List Nat, filterUnspecified a4 = v4 → a4.length = 6 → filterUnspecified a6 = v6 →
        a6.length = 18 →
        decodePreferredAddress cm (a4 ++ a6 ++ [cid.length] ++ cid ++ tok) = .ok (.pa v4 v6 cid tok) := by
      intro a4 a6 f4 l4 f6 l6
      have e1 : (a4 ++ a6 ++ [cid.length] ++ cid ++ tok) = a4 ++ (a6 ++ (cid.length :: (cid ++ tok))) := by simp
      rw [e1]
      have t1 : (a4 ++ (a6 ++ (cid.length :: (cid ++ tok)))).take 6 = a4 := List.take_left' l4
      have d1 : (a4 ++ (a6 ++ (cid.length :: (cid ++ tok)))).drop 6 = a6 ++ (cid.length :: (cid ++ tok)) :=
        List.drop_left' l4
      have t2 : (a6 ++ (cid.length :: (cid ++ tok))).take 18 = a6 := List.take_left' l6
      have d2 : (a6 ++ (cid.length :: (cid ++ tok))).drop 18 = cid.length :: (cid ++ tok) := List.drop_left' l6
      have t3 : (cid ++ tok).take cid.length = cid := List.take_left' rfl
      have d3 : (cid ++ tok).drop cid.length = tok := List.drop_left' rfl
      unfold decodePreferredAddress
      simp only [t1, d1, t2, d2, t3, d3, f4, f6]
      simp [l4, l6, ht, hc1, hc2]
      rw [if_neg (by omega), if_neg (by omega), if_neg (by omega)]
    simp only [decodeValue, encodeValue]
    exact key _ _ f4 l4 f6 l6

theorem encodeValue_len (c : ValueCodec) (v : Value) (h : ValueWF c v) :
    (encodeValue c v).length ≤ VarInt.maxValue := by
  have h8 := encode_len_le
  unfold VarInt.maxValue
  cases c with
  | varint => cases v <;> simp only [ValueWF] at h; simp only [encodeValue]; have := h8 ‹Nat›; omega
  | u8 => cases v <;> simp only [ValueWF] at h; simp [encodeValue]
  | unit => cases v <;> simp [encodeValue]
  | token => cases v <;> simp only [ValueWF] at h; simp [encodeValue, h]
  | cid lo => cases v <;> simp only [ValueWF] at h; simp only [encodeValue]; omega
  | dcVersions =>
    cases v <;> simp only [ValueWF] at h
    rename_i l
    simp only [encodeValue]
    have : ∀ (l : List Nat), (l.flatMap VarInt.encode).length ≤ 8 * l.length := by
      intro l
      induction l with
      | nil => simp
      | cons x xs ih => simp only [List.flatMap_cons, List.length_append, List.length_cons]; have := h8 x; omega
    have := this l
    omega
  | preferredAddress cm =>
    cases v <;> simp only [ValueWF] at h
    rename_i v4 v6 cid tok
    obtain ⟨h4, h6, hc1, hc2, ht⟩ := h
    obtain ⟨_, l4⟩ := filterUnspecified_getD v4 6 h4
    obtain ⟨_, l6⟩ := filterUnspecified_getD v6 18 h6
    simp only [encodeValue, List.length_append, l4, l6, List.length_cons, List.length_nil]
    omega


/-! ### (I) decode ∘ encode -/

structure FieldsWF (fs : List Field) : Prop where
  nodup : (fs.map (fun f => f.id)).Nodup
  small : ∀ f ∈ fs, f.id ≤ VarInt.maxValue

/-- every value the struct would put on the wire is one its field type can hold, passes the field's own
    validator, and server-only fields are only set in server parameters -/
def ParamsWF (fs : List Field) (role : Role) (ps : Params) : Prop :=
  ∀ f ∈ fs, ∀ v, wireValue ps f = some v →
    ValueWF f.codec v ∧ validate f v = true ∧ (f.serverOnly && role == .client) = false

theorem findField_of_mem : ∀ (fs : List Field) (f : Field), (fs.map (fun f => f.id)).Nodup → f ∈ fs →
    findField fs f.id = some f := by
  intro fs
  induction fs with
  | nil => intro f _ h; cases h
  | cons g gs ih =>
    intro f hnd hmem
    simp only [List.map_cons, List.nodup_cons] at hnd
    unfold findField
    rw [List.find?_cons]
    rcases List.mem_cons.mp hmem with rfl | hm
    · simp
    · have hne : g.id ≠ f.id := by
        intro h
        exact hnd.1 (h ▸ List.mem_map.mpr ⟨f, hm, rfl⟩)
      have : (g.id == f.id) = false := by simpa using hne
      simp only [this]
      exact ih f hnd.2 hm

def canonOf (ps : Params) (gs : List Field) : Params :=
  gs.filterMap (fun f => (wireValue ps f).map (fun v => (f.id, v)))

theorem loop_nil (fs : List Field) (role : Role) (n : Nat) (st : State) : loop fs role n [] st = .ok st.params := by
  cases n <;> rfl

theorem loop_encode (fs : List Field) (role : Role) (ps : Params) (hfs : FieldsWF fs) (hwf : ParamsWF fs role ps) :
    ∀ (gs : List Field) (st : State) (n : Nat), (∀ g ∈ gs, g ∈ fs) → (gs.map (fun f => f.id)).Nodup →
      (∀ g ∈ gs, g.id ∉ st.used) → (gs.flatMap (encodeField ps)).length ≤ n →
      loop fs role n (gs.flatMap (encodeField ps)) st = .ok (st.params ++ canonOf ps gs) := by
  intro gs
  induction gs with
  | nil => intro st n _ _ _ _; simp [canonOf, loop_nil]
  | cons g gs ih =>
    intro st n hsub hnd hnew hn
    simp only [List.map_cons, List.nodup_cons] at hnd
    have hg : g ∈ fs := hsub g (List.mem_cons_self ..)
    have hsub' : ∀ g' ∈ gs, g' ∈ fs := fun g' h => hsub g' (List.mem_cons_of_mem _ h)
    simp only [List.flatMap_cons] at hn ⊢
    unfold canonOf
    simp only [List.filterMap_cons]
    cases hw : wireValue ps g with
    | none =>
      have he : encodeField ps g = [] := by unfold encodeField; rw [hw]
      rw [he] at hn ⊢
      simp only [List.nil_append, Option.map_none] at hn ⊢
      exact ih st n hsub' hnd.2 (fun g' h => hnew g' (List.mem_cons_of_mem _ h)) hn
    | some v =>
      obtain ⟨hvw, hval, hen⟩ := hwf g hg v hw
      have he : encodeField ps g = tlv g.id (encodeValue g.codec v) := by unfold encodeField; rw [hw]
      rw [he] at hn ⊢
      simp only [Option.map_some]
      rw [loop_step_known fs role g (encodeValue g.codec v) _ v st n n (hfs.small g hg) (encodeValue_len _ _ hvw)
        (findField_of_mem fs g hfs.nodup hg) hen (hnew g (List.mem_cons_self ..))
        (decodeValue_encodeValue _ _ hvw) hval hn (by simp only [List.length_append] at hn; omega)]
      rw [ih _ n hsub' hnd.2 ?_ (by simp only [List.length_append] at hn; omega)]
      · simp [canonOf]
      · intro g' hg' hmem
        simp only [List.mem_append, List.mem_singleton] at hmem
        rcases hmem with h | h
        · exact hnew g' (List.mem_cons_of_mem _ hg') h
        · exact hnd.1 (h ▸ List.mem_map.mpr ⟨g', hg', rfl⟩)

theorem canon_eq (fs : List Field) (ps : Params) : canon fs ps = canonOf ps fs := rfl

/-- decoding what the encoder wrote yields exactly the non-default fields, in declaration order -/
theorem decode_encode (fs : List Field) (role : Role) (ps : Params) (hfs : FieldsWF fs)
    (hwf : ParamsWF fs role ps) :
    decodeParameters fs role (encode fs ps) = .ok (canon fs ps) := by
  unfold decodeParameters encode
  rw [loop_encode fs role ps hfs hwf fs ⟨[], []⟩ _ (fun _ h => h) hfs.nodup (fun _ _ h => by cases h) (Nat.le_refl _)]
  simp [canon_eq]

theorem lookupId_canonOf_absent (ps : Params) : ∀ (gs : List Field) (id : Nat),
    id ∉ gs.map (fun f => f.id) → lookupId (canonOf ps gs) id = none := by
  intro gs
  induction gs with
  | nil => intro id _; rfl
  | cons g gs ih =>
    intro id hid
    simp only [List.map_cons, List.mem_cons, not_or] at hid
    unfold canonOf
    simp only [List.filterMap_cons]
    cases hw : wireValue ps g with
    | none => simp only [Option.map_none]; exact ih id hid.2
    | some v =>
      simp only [Option.map_some]
      unfold lookupId
      rw [List.find?_cons]
      have : ((g.id, v).1 == id) = false := by simpa using fun h => hid.1 h.symm
      simp only [this]
      exact ih id hid.2

theorem lookupId_canonOf (ps : Params) : ∀ (gs : List Field) (f : Field), (gs.map (fun f => f.id)).Nodup → f ∈ gs →
    lookupId (canonOf ps gs) f.id = wireValue ps f := by
  intro gs
  induction gs with
  | nil => intro f _ h; cases h
  | cons g gs ih =>
    intro f hnd hmem
    simp only [List.map_cons, List.nodup_cons] at hnd
    unfold canonOf
    simp only [List.filterMap_cons]
    rcases List.mem_cons.mp hmem with rfl | hm
    · cases hw : wireValue ps f with
      | none =>
        simp only [Option.map_none]
        exact lookupId_canonOf_absent ps gs f.id hnd.1
      | some v =>
        simp [lookupId]
    · have hne : g.id ≠ f.id := fun h => hnd.1 (h ▸ List.mem_map.mpr ⟨f, hm, rfl⟩)
      cases hw : wireValue ps g with
      | none => simp only [Option.map_none]; exact ih f hnd.2 hm
      | some v =>
        simp only [Option.map_some]
        unfold lookupId
        rw [List.find?_cons]
        have : ((g.id, v).1 == f.id) = false := by simpa using hne
        simp only [this]
        exact ih f hnd.2 hm

/-- … and, read back as a struct (absent ⇒ default), that is the struct that was encoded -/
theorem get_canon (fs : List Field) (ps : Params) (hfs : FieldsWF fs) (f : Field) (hf : f ∈ fs) :
    TransportParams.get (canon fs ps) f = TransportParams.get ps f := by
  unfold TransportParams.get
  rw [canon_eq, lookupId_canonOf ps fs f hfs.nodup hf]
  unfold wireValue TransportParams.get
  cases hl : lookupId ps f.id with
  | some v =>
    simp only
    by_cases hd : some v = f.default
    · simp [hd]
    · simp [hd]
  | none =>
    simp only
    cases hdef : f.default with
    | none => rfl
    | some d => simp

theorem fieldsWF_knobs (k : Knobs) : FieldsWF (fieldsWith k) := by
  constructor
  · simp only [fieldsWith, List.map_cons, List.map_nil]
    decide
  · simp only [fieldsWith, List.forall_mem_cons]
    unfold VarInt.maxValue
    refine ⟨?_, ?_, ?_, ?_, ?_, ?_, ?_, ?_, ?_, ?_, ?_, ?_, ?_, ?_, ?_, ?_, ?_, ?_, ?_, ?_, ?_⟩
    all_goals first | (intro x hx; cases hx) | decide


/-! ### (J) executable well-formedness check (for concrete, non-vacuity instances) -/

def optAddrOk (o : Option (List Nat)) (k : Nat) : Bool :=
  match o with
  | none => true
  | some a => (a.length == k) && !allZero a

def valueWFb : ValueCodec → Value → Bool
  | .varint, .int n => decide (n ≤ VarInt.maxValue)
  | .u8, .int n => decide (n < 256)
  | .unit, .unit => true
  | .token, .bytes b => b.length == 16
  | .cid lo, .bytes b => decide (lo ≤ b.length) && decide (b.length ≤ 20)
  | .preferredAddress cm, .pa v4 v6 cid tok =>
    optAddrOk v4 6 && optAddrOk v6 18 && decide (cm ≤ cid.length) && decide (cid.length ≤ 20) && (tok.length == 16)
  | .dcVersions, .versions l => decide (l.length ≤ 4) && l.all (fun v => decide (v ≤ 4294967295))
  | _, _ => false

theorem optAddrOk_sound (o : Option (List Nat)) (k : Nat) (h : optAddrOk o k = true) :
    ∀ a, o = some a → a.length = k ∧ allZero a = false := by
  intro a ha
  subst ha
  simp only [optAddrOk, Bool.and_eq_true, beq_iff_eq, Bool.not_eq_true'] at h
  exact h

theorem valueWFb_sound (c : ValueCodec) (v : Value) (h : valueWFb c v = true) : ValueWF c v := by
  cases c <;> cases v <;> simp only [valueWFb, Bool.false_eq_true] at h <;> simp only [ValueWF]
  · simpa using h
  · simpa using h
  · simpa using h
  · simpa using h
  · simp only [Bool.and_eq_true, decide_eq_true_eq, beq_iff_eq] at h
    exact ⟨optAddrOk_sound _ _ h.1.1.1.1, optAddrOk_sound _ _ h.1.1.1.2, h.1.1.2, h.1.2, h.2⟩
  · simp only [Bool.and_eq_true, decide_eq_true_eq, List.all_eq_true] at h
    exact h

def paramsWFb (fs : List Field) (role : Role) (ps : Params) : Bool :=
  fs.all (fun f =>
    match wireValue ps f with
    | none => true
    | some v => valueWFb f.codec v && validate f v && !(f.serverOnly && role == .client))

theorem paramsWFb_sound (fs : List Field) (role : Role) (ps : Params) (h : paramsWFb fs role ps = true) :
    ParamsWF fs role ps := by
  intro f hf v hw
  unfold paramsWFb at h
  rw [List.all_eq_true] at h
  have := h f hf
  rw [hw] at this
  simp only [Bool.and_eq_true, Bool.not_eq_true'] at this
  exact ⟨valueWFb_sound _ _ this.1.1, this.1.2, this.2⟩


end Quic.Proofs.TransportParams
