import QuicProofs.Lemmas.SpscInv
/-
  C17 helper lemmas: the invariant `Inv` is preserved by every RECEIVER step of the spsc system under
  the pinned orderings (or the step reports use-after-free of the shared header).
-/
namespace Quic.Sync.Spsc
open Quic.Sync.Ra

set_option hygiene false in
/-- after a `tail` load by the receiver: message `m`, new view in `i1`, the receiver now knows `m.tag` -/
macro "cLoadTail_block" : tactic => `(tactic| (
  constructor
  inv_same i1
  case ch4 => exact htag
  case ch6 => intro hq; have := inv.ch6 (by rw [hpc]; rfl); dsimp only; omega
  case ch8 => have := inv.ch8; dsimp only; omega
  case cA1 => intro _; exact ⟨hhead, hval⟩
  case hTc =>
    intro h' hh' hle
    dsimp only at hle ⊢
    exact inv.hTmono m hm h' hh' (Nat.le_trans (afterLoad_atm_self _ _ _ _) hle)
  case v2 =>
    intro hq c
    dsimp only
    rcases i1.v2 (by dsimp only; rw [hpc]; rfl) c with ⟨j, h1, h2, h3⟩ | h
    · by_cases hj : m.tag ≤ j
      · exact .inl ⟨j, hj, h2, h3⟩
      · right
        dsimp only at h1 h2 h3
        have e := inv.mT m hm j (by have := inv.ch6 (by rw [hpc]; rfl); omega) (by omega)
        have l1 := afterLoad_acq_na_ge s.cv TAIL m c
        have l2 := i1.v0c c
        dsimp only at l2
        subst h3
        omega
    · exact .inr h
  case cS2 =>
    first
    | (have hf := i1.cS2; intros; simp_all; done)
    | (intro _; simp [hhead, inv.cS1 (by rw [hpc]; rfl)])
  inv_pc i1))

theorem inv_cLoadTail {s s' : Sys} {ts : Nat} (inv : Inv s) (h : step pinned s (.cLoadTail ts) = some s') :
    s' = { s with fail := some .useAfterFree } ∨ Inv s' := by
  have nf := inv.nofail
  simp only [step, nf, Option.isSome_none, Bool.false_eq_true, if_false, pinned] at h
  split at h
  · rename_i hpc
    split at h
    · left; simp only [failWith, Option.some.injEq] at h; exact h.symm
    split at h
    · simp at h
    rename_i m hr
    have i1 := inv.cLoad (o := .acquire) hr
    obtain ⟨hm, hts⟩ := readable_some hr
    obtain ⟨hval, htag, _⟩ := inv.hT m hm
    have hge := inv.hTc m hm hts
    have hrun : s.c.pc.running = true := by rw [hpc]; rfl
    obtain ⟨hhead, htail⟩ := inv.cA1 hrun
    right
    simp only [hpc, cGotItems] at h
    split at h
    · simp only [Option.some.injEq] at h; subst h
      cLoadTail_block
    · simp only [Option.some.injEq] at h; subst h
      cLoadTail_block
  · rename_i hpc
    split at h
    · left; simp only [failWith, Option.some.injEq] at h; exact h.symm
    split at h
    · simp at h
    rename_i m hr
    have i1 := inv.cLoad (o := .acquire) hr
    obtain ⟨hm, hts⟩ := readable_some hr
    obtain ⟨hval, htag, _⟩ := inv.hT m hm
    have hge := inv.hTc m hm hts
    have hrun : s.c.pc.running = true := by rw [hpc]; rfl
    obtain ⟨hhead, htail⟩ := inv.cA1 hrun
    right
    simp only [hpc, cGotItems] at h
    split at h
    · simp only [Option.some.injEq] at h; subst h
      cLoadTail_block
    · simp only [Option.some.injEq] at h; subst h
      cLoadTail_block
  · simp at h

theorem inv_cLoadOpen {s s' : Sys} {ts : Nat} (inv : Inv s) (h : step pinned s (.cLoadOpen ts) = some s') :
    s' = { s with fail := some .useAfterFree } ∨ Inv s' := by
  have nf := inv.nofail
  simp only [step, nf, Option.isSome_none, Bool.false_eq_true, if_false, pinned] at h
  split at h
  case h_2 => simp at h
  rename_i b hpc
  split at h
  · left; simp only [failWith, Option.some.injEq] at h; exact h.symm
  split at h
  · simp at h
  rename_i m hr
  have i1 := inv.cLoad (o := .acquire) hr
  right
  split at h
  · simp only [Option.some.injEq] at h; subst h
    constructor
    inv_same i1
    inv_pc i1
  · simp only [Option.some.injEq] at h; subst h
    cases b
    · constructor
      inv_same i1
      inv_pc i1
    · constructor
      inv_same i1
      inv_pc i1

theorem inv_cLoadTail2 {s s' : Sys} {ts : Nat} (inv : Inv s) (h : step pinned s (.cLoadTail2 ts) = some s') :
    s' = { s with fail := some .useAfterFree } ∨ Inv s' := by
  have nf := inv.nofail
  simp only [step, nf, Option.isSome_none, Bool.false_eq_true, if_false, pinned] at h
  split at h
  case h_2 => simp at h
  rename_i b hpc
  split at h
  · left; simp only [failWith, Option.some.injEq] at h; exact h.symm
  split at h
  · simp at h
  rename_i m hr
  have i1 := inv.cLoad (o := .acquire) hr
  obtain ⟨hm, hts⟩ := readable_some hr
  obtain ⟨hval, htag, _⟩ := inv.hT m hm
  have hge := inv.hTc m hm hts
  have hrun : s.c.pc.running = true := by rw [hpc]; rfl
  obtain ⟨hhead, htail⟩ := inv.cA1 hrun
  right
  simp only [cGotItems] at h
  cases b
  · split at h
    · simp only [Option.some.injEq, Bool.false_eq_true, if_false] at h; subst h
      cLoadTail_block
    · simp only [Option.some.injEq, Bool.false_eq_true, if_false] at h; subst h
      cLoadTail_block
  · split at h
    · simp only [Option.some.injEq, if_true] at h; subst h
      cLoadTail_block
    · simp only [Option.some.injEq, if_true] at h; subst h
      cLoadTail_block

theorem inv_cPop {s s' : Sys} (inv : Inv s) (h : step pinned s .cPop = some s') :
    s' = { s with fail := some .useAfterFree } ∨ Inv s' := by
  have nf := inv.nofail
  simp only [step, nf, Option.isSome_none, Bool.false_eq_true, if_false] at h
  split at h
  case h_2 => simp at h
  case h_1 hpc =>
  split at h
  · simp at h
  rename_i hempty
  split at h
  · left; simp only [failWith, Option.some.injEq] at h; exact h.symm
  right
  have hrun : s.c.pc.running = true := by rw [hpc]; rfl
  have hnq : s.c.pc.quiet = false := by rw [hpc]; rfl
  obtain ⟨hhead, htail⟩ := inv.cA1 hrun
  have hd0 := inv.dropRc hrun
  have c1 := inv.ch1; have c2 := inv.ch2; have c3 := inv.ch3; have c4 := inv.ch4; have c5 := inv.ch5
  have c6 := inv.ch6 hnq; have c7 := inv.ch7; have c8 := inv.ch8
  have hdl : s.dropped.length = 0 := by rw [hd0]; rfl
  have hlt : s.popped.length < s.c.gPeer := by
    rcases Nat.lt_or_ge s.popped.length s.c.gPeer with h | h
    · exact h
    · exfalso; apply hempty
      rw [hhead, htail]
      exact (isEmpty_iff c8 (by omega)).mpr (by omega)
  have hne : ∀ j, s.popped.length < j → j < s.pushed.length → j % s.cap ≠ s.popped.length % s.cap :=
    fun j h1 h2 => (mod_ne_of_lt h1 (by omega)).symm
  have hcell := inv.cellF s.popped.length (by omega) (by omega)
  rw [← hhead] at hcell
  have hsome : s.pushed[s.popped.length]? = some s.pushed[s.popped.length] :=
    List.getElem?_eq_getElem (by omega)
  split at h
  · -- race: impossible
    rename_i hna
    exfalso
    have := naAccess_none hna
    rcases inv.v2 hnq s.c.head with ⟨j, hj1, hj2, hj3⟩ | hv
    · rw [hhead] at hj3
      exact absurd hj3 (hne j (by omega) hj2)
    · exact this hv
  · -- unwritten: impossible
    rename_i hna
    exfalso
    obtain ⟨_, hold, _, _⟩ := naAccess_some hna
    rw [hcell, hsome] at hold; simp at hold
  · rename_i v mem cv hna
    obtain ⟨hv, hold, hmem, hcv⟩ := naAccess_some hna
    have hvv : s.pushed[s.popped.length]? = some v := by rw [← hcell, ← hold]
    simp only [Option.some.injEq] at h
    subst h hmem hcv
    constructor
    inv_same inv
    case ch2 => simp; omega
    case ch3 => simp; omega
    case ch6 => intro _; simp; omega
    case ch8 => simp; omega
    case cA1 => intro _; simp [hhead, htail, wrapAdd_mod]
    case pA2 =>
      intro h; exfalso
      have := inv.dropP (by dsimp only at h; rw [h]; rfl); rw [hnq] at this; cases this
    case pA3 =>
      intro h; exfalso
      have := inv.dropP (by dsimp only at h; rw [h]; rfl); rw [hnq] at this; cases this
    case cA2 => intro h; simp [hpc] at h
    case cA3 => intro h; simp [hpc] at h
    case cS1 => intro h; simp [hpc] at h
    case cellF =>
      intro j h1 h2
      simp at h1
      dsimp only at h2 ⊢
      have n := hne j (by omega) h2
      rw [hhead, if_neg n]
      exact inv.cellF j (by omega) h2
    case cellE =>
      intro c
      simp
      by_cases hc : c = s.c.head
      · right; simp [hc]
      · rcases inv.cellE c with ⟨j, h1, h2, h3⟩ | h
        · left
          refine ⟨j, ?_, h2, h3⟩
          rcases Nat.lt_or_ge s.popped.length j with hh | hh
          · omega
          · exfalso; apply hc; rw [← h3, hhead]; congr 1; omega
        · right; simp [hc, h]
    case fifo =>
      have f := inv.fifo
      rw [hd0] at f ⊢
      simp at f ⊢
      rw [List.take_succ, hvv, ← f]; rfl
    case v0p => intro c; have := inv.v0p c; simp; split <;> simp_all <;> omega
    case v0c => intro c; have := inv.v0c c; simp [View.setNa]; split <;> simp_all <;> omega
    case v0m => intro l m hm c; have := inv.v0m l m hm c; simp; split <;> simp_all <;> omega
    case v1 =>
      intro c
      simp
      by_cases hc : c = s.c.head
      · left; exact ⟨s.popped.length, by omega, by omega, by rw [hc, hhead]⟩
      · rcases inv.v1 c with ⟨j, h1, h2, h3⟩ | h
        · left; exact ⟨j, h1, by omega, h3⟩
        · right; simp [hc, h]
    case v2 =>
      intro hq c
      simp [View.setNa]
      by_cases hc : c = s.c.head
      · right; simp [hc]
      · rcases inv.v2 hnq c with h | h
        · left; exact h
        · right; simp [hc, h]
    case mT =>
      intro m hm j h1 h2
      simp at h1
      dsimp only at h2 hm ⊢
      have := inv.mT m hm j (by omega) h2
      have := (inv.hT m hm).2.1
      have := hne j (by omega) (by omega)
      simp [hhead, *]
    case mH =>
      intro m hm j h1 h2
      dsimp only at h1 h2 hm ⊢
      have := inv.mH m hm j h1 h2
      have := (inv.hH m hm).2.1
      have : j % s.cap ≠ s.popped.length % s.cap := mod_ne_of_lt (by omega) (by omega)
      simp [hhead, *]

theorem inv_cRelease {s s' : Sys} (inv : Inv s) (h : step pinned s .cRelease = some s') :
    s' = { s with fail := some .useAfterFree } ∨ Inv s' := by
  have nf := inv.nofail
  simp only [step, nf, Option.isSome_none, Bool.false_eq_true, if_false, pinned] at h
  split at h
  case h_2 => simp at h
  case h_1 hpc =>
  have hrun : s.c.pc.running = true := by rw [hpc]; rfl
  have hsl : s.c.pc.inSlice = true := by rw [hpc]; rfl
  have hnq : s.c.pc.quiet = false := by rw [hpc]; rfl
  obtain ⟨hhead, htail⟩ := inv.cA1 hrun
  have hprev := inv.cS2 hsl
  have hd0 := inv.dropRc hrun
  have c1 := inv.ch1; have c2 := inv.ch2; have c3 := inv.ch3; have c4 := inv.ch4; have c5 := inv.ch5
  have c6 := inv.ch6 hnq; have c7 := inv.ch7; have c8 := inv.ch8
  have hdl : s.dropped.length = 0 := by rw [hd0]; rfl
  split at h
  · -- nothing changed
    rename_i heq
    right
    have hg : s.c.gPrev = s.popped.length := by
      rw [hprev, hhead] at heq
      exact mod_inj_of_lt heq (by omega) (by omega)
    simp only [Option.some.injEq] at h; subst h
    constructor
    inv_same inv
    case cS1 => intro _; exact hg
    inv_pc inv
  split at h
  · left; simp only [failWith, Option.some.injEq] at h; exact h.symm
  right
  simp only [store, Option.some.injEq, Ord.isRel, if_true] at h
  subst h
  have hlen : ∀ m ∈ s.mem.hist HEAD, m.ts < (s.mem.hist HEAD).length := fun m hm => (inv.hH m hm).2.2
  have hnd : s.p.pc.dropping = false := by
    cases hd : s.p.pc.dropping
    · rfl
    · have := inv.dropP hd; rw [hnq] at this; cases this
  constructor
  inv_same inv
  case ch1 => dsimp only; omega
  case ch2 => dsimp only; omega
  case cS1 => intro _; rfl
  case hH =>
    intro m hm
    simp at hm ⊢
    rcases hm with rfl | hm
    · exact ⟨hhead, Nat.le_refl _, by simp⟩
    · have := inv.hH m hm; exact ⟨this.1, by omega, by omega⟩
  case hHmono =>
    intro m1 h1 m2 h2 hle
    simp at h1 h2
    rcases h1 with rfl | h1 <;> rcases h2 with rfl | h2
    · exact Nat.le_refl _
    · have := hlen m2 h2; simp at hle; omega
    · have := (inv.hH m1 h1).2.1; dsimp only; omega
    · exact inv.hHmono m1 h1 m2 h2 hle
  case hHp =>
    intro m hm hle
    simp at hm
    rcases hm with rfl | hm
    · dsimp only; omega
    · exact inv.hHp m hm hle
  case hHc =>
    intro m hm hle
    simp [View.setAtm] at hm hle
    rcases hm with rfl | hm
    · rfl
    · have := hlen m hm; omega
  case hHx => intro hd; dsimp only at hd; rw [hnd] at hd; cases hd
  case hOx =>
    intro m hm ht
    rcases inv.hO m hm with ⟨h0, _⟩ | ⟨h1, _⟩ | ⟨_, _, h2⟩
    · omega
    · omega
    · rw [hrun] at h2; cases h2
  case v0m =>
    intro l m hm c
    simp at hm
    by_cases hl : l = HEAD
    · simp [hl] at hm
      rcases hm with rfl | hm
      · exact inv.v0c c
      · exact inv.v0m HEAD m hm c
    · simp [hl] at hm; exact inv.v0m l m hm c
  case mH =>
    intro m hm j h1 h2
    simp at hm
    rcases hm with rfl | hm
    · dsimp only at h1 h2 ⊢
      rcases inv.v2 hnq (j % s.cap) with ⟨j', a1, a2, a3⟩ | hv
      · exact absurd a3.symm (mod_ne_of_lt (by omega) (by omega))
      · exact hv
    · exact inv.mH m hm j h1 h2
  case v2 => intro _ c; exact inv.v2 hnq c
  case ch6 => intro _; exact c6
  inv_pc inv

end Quic.Sync.Spsc
