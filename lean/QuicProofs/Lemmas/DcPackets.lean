import QuicModel.Dc.Packets
import QuicProofs.Props.C05VarInt
/-
  Helper lemmas for C18: the primitive parsers of `Quic.Dc.Packets` invert the primitive emitters,
  every parser returns a suffix of its input, tag-bit arithmetic.
-/
namespace Quic.Proofs.DcPackets
open Quic Quic.Codec Quic.Dc.Packets
open Quic.Dc

/-! ### primitive parsers on emitted bytes -/

theorem pU8_cons (x : Nat) (r : List Nat) : pU8 (x :: r) = .ok (x, r) := rfl

theorem pBytes_append (n : Nat) (l r : List Nat) (h : l.length = n) : pBytes n (l ++ r) = .ok (l, r) := by
  unfold pBytes
  have : ¬ (l ++ r).length < n := by simp [List.length_append]; omega
  rw [if_neg this, ← h]
  simp

theorem beVal_beBytes2 (x : Nat) (hx : x < 65536) : beVal (beBytes 2 x) = x := by
  simp [beBytes, beVal]; omega

theorem beVal_beBytes4 (x : Nat) (hx : x < 4294967296) : beVal (beBytes 4 x) = x := by
  simp [beBytes, beVal]; omega

theorem pU16_be (x : Nat) (r : List Nat) (hx : x < 65536) : pU16 (beBytes 2 x ++ r) = .ok (x, r) := by
  unfold pU16
  rw [pBytes_append 2 _ r (by simp [beBytes])]
  simp only [beVal_beBytes2 x hx]

theorem pU16_zero (r : List Nat) : pU16 (0 :: 0 :: r) = .ok (0, r) := by
  have := pU16_be 0 r (by omega)
  simpa [beBytes] using this

theorem pU32_be (x : Nat) (r : List Nat) (hx : x < 4294967296) : pU32 (beBytes 4 x ++ r) = .ok (x, r) := by
  unfold pU32
  rw [pBytes_append 4 _ r (by simp [beBytes])]
  simp only [beVal_beBytes4 x hx]

theorem pVarint_encode (x : Nat) (r : List Nat) (hx : x ≤ VarInt.maxValue) :
    pVarint (VarInt.encode x ++ r) = .ok (x, r) := by
  unfold pVarint
  rw [Quic.Proofs.C05.varint_roundtrip x r hx]

theorem pOptVarint_enc (o : Option Nat) (r : List Nat) (h : ∀ x, o = some x → x ≤ VarInt.maxValue) :
    pOptVarint o.isSome (encOptVarint o ++ r) = .ok (o, r) := by
  cases o with
  | none => simp [pOptVarint, encOptVarint]
  | some x => simp [pOptVarint, encOptVarint, pVarint_encode x r (h x rfl)]

/-- an optional length: emitted only when positive, read back as `none`/`some`, `getD 0` restores it -/
theorem pOptVarint_len (n : Nat) (r : List Nat) (h : n ≤ VarInt.maxValue) :
    ∃ o : Option Nat, pOptVarint (decide (n > 0)) ((if n > 0 then VarInt.encode n else []) ++ r) = .ok (o, r)
      ∧ o.getD 0 = n := by
  by_cases hn : n > 0
  · exact ⟨some n, by simp [pOptVarint, hn, pVarint_encode n r h], rfl⟩
  · exact ⟨none, by simp [pOptVarint, hn], by simp; omega⟩

theorem pCreds_enc (c : Creds) (r : List Nat) (hid : c.id.length = credIdLen) (hk : c.keyId ≤ VarInt.maxValue) :
    pCreds (encCreds c ++ r) = .ok (c, r) := by
  unfold pCreds encCreds
  rw [List.append_assoc, pBytes_append credIdLen _ _ hid]
  simp only [pVarint_encode c.keyId r hk]

theorem pWireVersion_zero (r : List Nat) : pWireVersion (0 :: r) = .ok (0, r) := by
  simp [pWireVersion, pU8]

theorem streamId_toVarint_le (s : StreamId) (h : s.queueId < maxQueueId) : s.toVarint ≤ VarInt.maxValue := by
  unfold StreamId.toVarint VarInt.maxValue
  unfold maxQueueId at h
  cases s.reliable <;> cases s.bidi <;> simp <;> omega

theorem streamId_of_to (s : StreamId) (h : s.queueId < maxQueueId) : StreamId.ofVarint s.toVarint = .ok s := by
  unfold StreamId.ofVarint StreamId.toVarint
  unfold maxQueueId at *
  obtain ⟨q, rel, bidi⟩ := s
  simp only at h
  cases rel <;> cases bidi <;> simp
  all_goals (rw [if_neg (by omega)]; congr 2 <;> first | omega | (simp; omega))

theorem pStreamId_enc (s : StreamId) (r : List Nat) (h : s.queueId < maxQueueId) :
    pStreamId (VarInt.encode s.toVarint ++ r) = .ok (s, r) := by
  unfold pStreamId
  rw [pVarint_encode _ r (streamId_toVarint_le s h)]
  simp only [streamId_of_to s h]

theorem pTagIn_ok (lo hi t : Nat) (r : List Nat) (h1 : lo ≤ t) (h2 : t ≤ hi) : pTagIn lo hi (t :: r) = .ok (t, r) := by
  simp [pTagIn, pU8, h1, h2]

/-! ### tag bits -/

/-- the stream tag as a function of its six flags -/
def streamTagBits (kp cd fin ah sq rec : Bool) : Nat :=
  setBit (setBit (setBit (setBit (setBit (setBit StreamTag.base StreamTag.keyPhase kp) StreamTag.hasControlData cd)
    StreamTag.hasFinalOffset fin) StreamTag.hasAppHeader ah) StreamTag.hasSourceQueueId sq) StreamTag.isRecovery rec

theorem streamTagOf_eq (i : StreamIn) :
    streamTagOf i = streamTagBits i.keyPhase (decide (i.controlData.length > 0)) i.finalOffset.isSome
      (decide (i.appHeader.length > 0)) i.sourceQueueId.isSome i.recovery := rfl

theorem streamTagBits_spec (kp cd fin ah sq rec : Bool) :
    let t := streamTagBits kp cd fin ah sq rec
    StreamTag.min ≤ t ∧ t ≤ StreamTag.max ∧ hasBit t StreamTag.keyPhase = kp ∧ hasBit t StreamTag.hasControlData = cd
      ∧ hasBit t StreamTag.hasFinalOffset = fin ∧ hasBit t StreamTag.hasAppHeader = ah
      ∧ hasBit t StreamTag.hasSourceQueueId = sq ∧ hasBit t StreamTag.isRecovery = rec := by
  cases kp <;> cases cd <;> cases fin <;> cases ah <;> cases sq <;> cases rec <;> decide

def datagramTagBits (conn ah ack kp : Bool) : Nat :=
  setBit (setBit (setBit (setBit DatagramTag.base DatagramTag.isConnected conn) DatagramTag.hasAppHeader ah)
    DatagramTag.ackEliciting ack) DatagramTag.keyPhase kp

theorem datagramTagOf_eq (i : DatagramIn) :
    datagramTagOf i = datagramTagBits i.pn.isSome (decide (i.appHeader.length > 0)) i.nect.isSome i.keyPhase := rfl

theorem datagramTagBits_spec (conn ah ack kp : Bool) :
    let t := datagramTagBits conn ah ack kp
    DatagramTag.min ≤ t ∧ t ≤ DatagramTag.max ∧ hasBit t DatagramTag.isConnected = conn
      ∧ hasBit t DatagramTag.hasAppHeader = ah ∧ hasBit t DatagramTag.ackEliciting = ack
      ∧ hasBit t DatagramTag.keyPhase = kp := by
  cases conn <;> cases ah <;> cases ack <;> cases kp <;> decide

def controlTagBits (sq sid ah : Bool) : Nat :=
  setBit (setBit (setBit ControlTag.base ControlTag.hasSourceQueueId sq) ControlTag.isStream sid) ControlTag.hasAppHeader ah

theorem controlTagOf_eq (i : ControlIn) :
    controlTagOf i = controlTagBits i.sourceQueueId.isSome i.streamId.isSome (decide (i.appHeader.length > 0)) := rfl

theorem controlTagBits_spec (sq sid ah : Bool) :
    let t := controlTagBits sq sid ah
    ControlTag.min ≤ t ∧ t ≤ ControlTag.max ∧ hasBit t ControlTag.hasSourceQueueId = sq
      ∧ hasBit t ControlTag.isStream = sid ∧ hasBit t ControlTag.hasAppHeader = ah := by
  cases sq <;> cases sid <;> cases ah <;> decide

theorem secretTagOf_spec (k : SecretKind) (q : Bool) :
    (secretTagOf k q = k.tag ∨ secretTagOf k q = (k.tag ||| SecretTag.hasQueueId))
      ∧ hasBit (secretTagOf k q) SecretTag.hasQueueId = q := by
  cases k <;> cases q <;> decide

/-! ### slicing -/

theorem take_append_len (a b : List Nat) : (a ++ b).take a.length = a := by simp
theorem drop_append_len (a b : List Nat) : (a ++ b).drop a.length = b := by simp

theorem pSkip_append (n : Nat) (l r : List Nat) (h : l.length = n) : pSkip n (l ++ r) = .ok r := by
  unfold pSkip
  have : ¬ (l ++ r).length < n := by simp [List.length_append]; omega
  rw [if_neg this, ← h]
  simp


theorem header_slices (F ah cd X : List Nat) :
    (F ++ (ah ++ (cd ++ X))).take (F.length + ah.length + cd.length) = F ++ ah ++ cd ∧
    (F ++ (ah ++ (cd ++ X))).drop (F.length + ah.length + cd.length) = X ∧
    ((F ++ ah ++ cd).drop F.length).take ah.length = ah ∧
    ((F ++ ah ++ cd).drop (F.length + ah.length)).take cd.length = cd := by
  have e1 : F ++ (ah ++ (cd ++ X)) = (F ++ ah ++ cd) ++ X := by simp
  have l1 : (F ++ ah ++ cd).length = F.length + ah.length + cd.length := by simp [List.length_append]; omega
  have e2 : F ++ ah ++ cd = F ++ (ah ++ cd) := by simp
  have l2 : (F ++ ah).length = F.length + ah.length := by simp
  refine ⟨?_, ?_, ?_, ?_⟩
  · rw [e1, ← l1, take_append_len]
  · rw [e1, ← l1, drop_append_len]
  · rw [e2, drop_append_len, take_append_len]
  · rw [← l2, drop_append_len, List.take_length]

/-! ### well-formed encoder inputs (the ranges of the Rust types) -/

structure SecretWF (i : SecretIn) : Prop where
  id : i.credId.length = credIdLen
  wv : i.wireVersion = 0
  q : ∀ x, i.queueId = some x → x ≤ VarInt.maxValue
  v : i.value ≤ VarInt.maxValue
  noVal : i.kind.hasValue = false → i.value = 0
  tag : i.authTag.length = tagLen

structure ControlWF (i : ControlIn) : Prop where
  id : i.creds.id.length = credIdLen
  kid : i.creds.keyId ≤ VarInt.maxValue
  sq : ∀ x, i.sourceQueueId = some x → x ≤ VarInt.maxValue
  sid : ∀ s, i.streamId = some s → s.queueId < maxQueueId
  pn : i.pn ≤ VarInt.maxValue
  ah : i.appHeader.length ≤ VarInt.maxValue
  cd : i.controlData.length ≤ VarInt.maxValue
  tag : i.authTag.length = tagLen

structure DatagramWF (i : DatagramIn) : Prop where
  id : i.creds.id.length = credIdLen
  kid : i.creds.keyId ≤ VarInt.maxValue
  port : i.sourceControlPort < 65536
  pn : ∀ x, i.pn = some x → x ≤ VarInt.maxValue
  nect : ∀ x, i.nect = some x → x ≤ VarInt.maxValue
  /-- API precondition of `datagram::encoder::encode`: ack-eliciting needs a packet number -/
  ackHasPn : i.nect.isSome = true → i.pn.isSome = true
  /-- control data is only written (and only exists) for ack-eliciting datagrams -/
  cdOnlyAck : i.nect = none → i.controlData = []
  ah : i.appHeader.length ≤ VarInt.maxValue
  cd : i.controlData.length ≤ VarInt.maxValue
  pl : i.payload.length ≤ VarInt.maxValue
  tag : i.authTag.length = tagLen

structure StreamWF (i : StreamIn) : Prop where
  id : i.creds.id.length = credIdLen
  kid : i.creds.keyId ≤ VarInt.maxValue
  sq : ∀ x, i.sourceQueueId = some x → x ≤ VarInt.maxValue
  sid : i.streamId.queueId < maxQueueId
  pn : i.pn ≤ VarInt.maxValue
  rel : i.relOffset < 4294967296
  relOnlyReliable : i.streamId.reliable = false → i.relOffset = 0
  rpn : i.pn + i.relOffset ≤ VarInt.maxValue
  nect : i.nect ≤ VarInt.maxValue
  off : i.offset ≤ VarInt.maxValue
  fin : ∀ x, i.finalOffset = some x → x ≤ VarInt.maxValue
  ah : i.appHeader.length ≤ VarInt.maxValue
  cd : i.controlData.length ≤ VarInt.maxValue
  pl : i.payload.length ≤ VarInt.maxValue
  tag : i.authTag.length = tagLen

/-! ### secret-control round trip -/

theorem pSecretValue_enc (i : SecretIn) (wf : SecretWF i) (tail : List Nat) :
    pSecretValue i.kind (encSecretHeader i ++ tail)
      = .ok ((secretTagOf i.kind i.queueId.isSome, i.credId, 0, i.queueId, i.value), tail) := by
  have hs := secretTagOf_spec i.kind i.queueId.isSome
  unfold pSecretValue encSecretHeader
  simp only [List.append_assoc, List.cons_append, List.nil_append, pU8_cons]
  rw [if_pos hs.1, pBytes_append credIdLen _ _ wf.id]
  simp only [wf.wv, pWireVersion_zero, hs.2, pOptVarint_enc i.queueId _ wf.q]
  cases hv : i.kind.hasValue
  · simp [wf.noVal hv]
  · simp [pVarint_encode i.value tail wf.v]

theorem roundtrip_secret (i : SecretIn) (wf : SecretWF i) (rest : List Nat) :
    ∃ v, decodeSecret i.kind (encodeSecret i ++ rest) = .ok (v, rest) ∧ v.toIn = i ∧ v.header = encSecretHeader i := by
  unfold decodeSecret encodeSecret
  rw [List.append_assoc, pSecretValue_enc i wf]
  simp only [List.length_append]
  have h1 : (encSecretHeader i).length + (i.authTag.length + rest.length) - (i.authTag.length + rest.length)
      = (encSecretHeader i).length := by omega
  rw [h1, drop_append_len, pBytes_append tagLen _ _ wf.tag, take_append_len]
  exact ⟨_, rfl, by have := wf.wv; cases i; simp_all [SecretView.toIn], rfl⟩

/-! ### control round trip -/

theorem pOptStreamId_enc (o : Option StreamId) (r : List Nat) (h : ∀ s, o = some s → s.queueId < maxQueueId) :
    pOptStreamId o.isSome (encOptStreamId o ++ r) = .ok (o, r) := by
  cases o with
  | none => simp [pOptStreamId, encOptStreamId]
  | some s => simp [pOptStreamId, encOptStreamId, pStreamId_enc s r (h s rfl)]

theorem peekControl_enc (i : ControlIn) (wf : ControlWF i) (tail : List Nat) :
    peekControl (encControlFixed i ++ tail)
      = .ok (⟨controlTagOf i, i.creds, 0, i.sourceQueueId, i.streamId, i.pn, (encControlFixed i).length,
              i.appHeader.length, i.controlData.length⟩, tail) := by
  have hs := controlTagBits_spec i.sourceQueueId.isSome i.streamId.isSome (decide (i.appHeader.length > 0))
  rw [← controlTagOf_eq] at hs
  obtain ⟨h1, h2, h3, h4, h5⟩ := hs
  obtain ⟨o, ho, hod⟩ := pOptVarint_len i.appHeader.length tail wf.ah
  unfold peekControl
  rw [show encControlFixed i = [controlTagOf i] ++ encCreds i.creds ++ [0]
    ++ encOptStreamId i.streamId
    ++ encOptVarint i.sourceQueueId
    ++ VarInt.encode i.pn
    ++ VarInt.encode i.controlData.length
    ++ (if i.appHeader.length > 0 then VarInt.encode i.appHeader.length else []) from rfl]
  simp only [List.append_assoc, List.cons_append, List.nil_append, bind, Except.bind, pure, Except.pure,
    pTagIn_ok _ _ _ _ h1 h2, pCreds_enc _ _ wf.id wf.kid, pWireVersion_zero, h3, h4, h5,
    pOptStreamId_enc _ _ wf.sid, pOptVarint_enc _ _ wf.sq, pVarint_encode _ _ wf.pn, pVarint_encode _ _ wf.cd, ho, hod]
  simp only [List.length_append, List.length_cons, Except.ok.injEq, Prod.mk.injEq, and_true, ControlPeek.mk.injEq, true_and]
  omega

theorem roundtrip_control (i : ControlIn) (wf : ControlWF i) (rest : List Nat) :
    ∃ v, decodeControl (encodeControl i ++ rest) = .ok (v, rest) ∧ v.toIn = i ∧ v.header = encControlHeader i := by
  obtain ⟨s1, s2, s3, s4⟩ := header_slices (encControlFixed i) i.appHeader i.controlData (i.authTag ++ rest)
  have hb : encodeControl i ++ rest
      = encControlFixed i ++ (i.appHeader ++ (i.controlData ++ (i.authTag ++ rest))) := by
    simp [encodeControl, encControlHeader]
  have t1 : (i.authTag ++ rest).take tagLen = i.authTag := by rw [← wf.tag, take_append_len]
  have t2 : (i.authTag ++ rest).drop tagLen = rest := by rw [← wf.tag, drop_append_len]
  unfold decodeControl
  rw [hb, peekControl_enc i wf]
  simp only [bind, Except.bind, pure, Except.pure, pSkip_append _ _ _ rfl, pSkip_append _ _ _ wf.tag, s1, s2, s3, s4,
    t1, t2]
  exact ⟨_, rfl, rfl, rfl⟩


/-! ### datagram round trip -/

theorem pDatagramPn (pn nect : Option Nat) (r : List Nat) (hpn : ∀ x, pn = some x → x ≤ VarInt.maxValue)
    (h : nect.isSome = true → pn.isSome = true) :
    ∃ o : Option Nat, pOptVarint (pn.isSome || nect.isSome)
        ((if pn.isSome ∨ nect.isSome then VarInt.encode (pn.getD 0) else []) ++ r) = .ok (o, r)
      ∧ o.getD 0 = pn.getD 0 := by
  cases pn with
  | none =>
    cases nect with
    | none => exact ⟨none, by simp [pOptVarint], rfl⟩
    | some y => simp at h
  | some x => exact ⟨some x, by simp [pOptVarint, pVarint_encode x r (hpn x rfl)], rfl⟩

theorem pAckFields_enc (nect : Option Nat) (n : Nat) (r : List Nat) (hn : ∀ x, nect = some x → x ≤ VarInt.maxValue)
    (hl : n ≤ VarInt.maxValue) :
    pAckFields nect.isSome (encAckFields nect n ++ r) = .ok ((nect, if nect.isSome then n else 0), r) := by
  cases nect with
  | none => simp [pAckFields, encAckFields]
  | some x => simp [pAckFields, encAckFields, pVarint_encode x _ (hn x rfl), pVarint_encode n r hl]

theorem peekDatagram_enc (i : DatagramIn) (wf : DatagramWF i) (tail : List Nat) :
    peekDatagram (encDatagramFixed i ++ tail)
      = .ok (⟨datagramTagOf i, i.creds, 0, i.sourceControlPort, i.pn.getD 0, i.nect, (encDatagramFixed i).length,
              i.appHeader.length, i.controlData.length, i.payload.length⟩, tail) := by
  have hs := datagramTagBits_spec i.pn.isSome (decide (i.appHeader.length > 0)) i.nect.isSome i.keyPhase
  rw [← datagramTagOf_eq] at hs
  obtain ⟨h1, h2, h3, h4, h5, _⟩ := hs
  obtain ⟨o, ho, hod⟩ := pOptVarint_len i.appHeader.length tail wf.ah
  have hcd : (if i.nect.isSome then i.controlData.length else 0) = i.controlData.length := by
    cases hn : i.nect with
    | none => simp [wf.cdOnlyAck hn]
    | some x => simp
  unfold peekDatagram
  rw [show encDatagramFixed i = [datagramTagOf i] ++ encCreds i.creds ++ [0] ++ beBytes 2 i.sourceControlPort
    ++ (if i.pn.isSome ∨ i.nect.isSome then VarInt.encode (i.pn.getD 0) else [])
    ++ VarInt.encode i.payload.length
    ++ encAckFields i.nect i.controlData.length
    ++ (if i.appHeader.length > 0 then VarInt.encode i.appHeader.length else []) from rfl]
  simp only [List.append_assoc, List.cons_append, List.nil_append]
  obtain ⟨opn, hopn, hopnd⟩ := pDatagramPn i.pn i.nect
    (VarInt.encode i.payload.length ++ (encAckFields i.nect i.controlData.length ++
      ((if i.appHeader.length > 0 then VarInt.encode i.appHeader.length else []) ++ tail))) wf.pn wf.ackHasPn
  simp only [bind, Except.bind, pure, Except.pure,
    pTagIn_ok _ _ _ _ h1 h2, pCreds_enc _ _ wf.id wf.kid, pWireVersion_zero, pU16_be _ _ wf.port, h3, h4, h5,
    hopn, hopnd, pVarint_encode _ _ wf.pl, pAckFields_enc _ _ _ wf.nect wf.cd, ho, hod, hcd]
  simp only [List.length_append, List.length_cons, Except.ok.injEq, Prod.mk.injEq, and_true, DatagramPeek.mk.injEq, true_and]
  omega

theorem roundtrip_datagram (i : DatagramIn) (wf : DatagramWF i) (rest : List Nat) :
    ∃ v, decodeDatagram (encodeDatagram i ++ rest) = .ok (v, rest) ∧ v.toIn = i ∧ v.header = encDatagramHeader i := by
  obtain ⟨s1, s2, s3, s4⟩ := header_slices (encDatagramFixed i) i.appHeader i.controlData
    (i.payload ++ (i.authTag ++ rest))
  have hcd : (if i.nect.isSome then i.controlData else []) = i.controlData := by
    cases hn : i.nect with
    | none => simp [wf.cdOnlyAck hn]
    | some x => simp
  have hh : encDatagramHeader i = encDatagramFixed i ++ i.appHeader ++ i.controlData := by
    unfold encDatagramHeader; rw [hcd]
  have hb : encodeDatagram i ++ rest
      = encDatagramFixed i ++ (i.appHeader ++ (i.controlData ++ (i.payload ++ (i.authTag ++ rest)))) := by
    simp [encodeDatagram, hh]
  have hs := datagramTagBits_spec i.pn.isSome (decide (i.appHeader.length > 0)) i.nect.isSome i.keyPhase
  rw [← datagramTagOf_eq] at hs
  obtain ⟨_, _, h3, _, _, h6⟩ := hs
  unfold decodeDatagram
  rw [hb, peekDatagram_enc i wf]
  simp only [bind, Except.bind, pure, Except.pure, pSkip_append _ _ _ rfl, s1, s2, s3, s4,
    pBytes_append _ _ _ rfl, pBytes_append _ _ _ wf.tag]
  refine ⟨_, rfl, ?_, hh.symm⟩
  simp only [DatagramView.toIn, h3, h6]
  cases i with
  | mk kp creds port pn nect ah cd pl tg => cases pn <;> simp

/-! ### stream round trip -/

theorem pRetransmission_enc (rel : Bool) (pn off : Nat) (r : List Nat) (ho : off < 4294967296)
    (hs : pn + off ≤ VarInt.maxValue) (hz : rel = false → off = 0) :
    pRetransmission rel pn ((if rel then beBytes 4 off else []) ++ r) = .ok (pn + off, r) := by
  cases rel with
  | false => simp [pRetransmission, hz rfl]
  | true =>
    have : ¬ pn + off > VarInt.maxValue := by omega
    simp [pRetransmission, pU32_be off r ho, this]

/-- position of the 4-byte retransmission offset field (`retransmission_packet_number_offset`, a `u8`) -/
def rpnOffsetOf (i : StreamIn) : Nat :=
  ([streamTagOf i] ++ encCreds i.creds ++ [0] ++ [0, 0] ++ VarInt.encode i.streamId.toVarint
    ++ encOptVarint i.sourceQueueId ++ VarInt.encode i.pn).length % 256

theorem peekStream_enc (i : StreamIn) (wf : StreamWF i) (tail : List Nat) :
    peekStream (encStreamFixed i ++ tail)
      = .ok (⟨streamTagOf i, i.creds, 0, i.sourceQueueId, i.streamId, i.pn, i.pn + i.relOffset, rpnOffsetOf i, i.nect,
              i.offset, i.finalOffset, (encStreamFixed i).length, i.appHeader.length, i.controlData.length,
              i.payload.length⟩, tail) := by
  have hs := streamTagBits_spec i.keyPhase (decide (i.controlData.length > 0)) i.finalOffset.isSome
      (decide (i.appHeader.length > 0)) i.sourceQueueId.isSome i.recovery
  rw [← streamTagOf_eq] at hs
  obtain ⟨h1, h2, _, hcd, hfin, hah, hsq, _⟩ := hs
  obtain ⟨oa, hoa, hoad⟩ := pOptVarint_len i.appHeader.length tail wf.ah
  obtain ⟨oc, hoc, hocd⟩ := pOptVarint_len i.controlData.length
    (VarInt.encode i.payload.length ++ ((if i.appHeader.length > 0 then VarInt.encode i.appHeader.length else []) ++ tail)) wf.cd
  unfold peekStream rpnOffsetOf
  rw [show encStreamFixed i = [streamTagOf i] ++ encCreds i.creds ++ [0] ++ [0, 0]
    ++ VarInt.encode i.streamId.toVarint ++ encOptVarint i.sourceQueueId
    ++ VarInt.encode i.pn
    ++ (if i.streamId.reliable then beBytes 4 i.relOffset else [])
    ++ VarInt.encode i.nect ++ VarInt.encode i.offset ++ encOptVarint i.finalOffset
    ++ (if i.controlData.length > 0 then VarInt.encode i.controlData.length else [])
    ++ VarInt.encode i.payload.length
    ++ (if i.appHeader.length > 0 then VarInt.encode i.appHeader.length else []) from rfl]
  simp only [List.append_assoc, List.cons_append, List.nil_append, bind, Except.bind, pure, Except.pure,
    pTagIn_ok _ _ _ _ h1 h2, pCreds_enc _ _ wf.id wf.kid, pWireVersion_zero, pU16_zero, pStreamId_enc _ _ wf.sid,
    hcd, hfin, hah, hsq, pOptVarint_enc _ _ wf.sq, pVarint_encode _ _ wf.pn,
    pRetransmission_enc _ _ _ _ wf.rel wf.rpn wf.relOnlyReliable, pVarint_encode _ _ wf.nect, pVarint_encode _ _ wf.off,
    pOptVarint_enc _ _ wf.fin, hoc, hocd, pVarint_encode _ _ wf.pl, hoa, hoad]
  simp only [List.length_append, List.length_cons, Except.ok.injEq, Prod.mk.injEq, and_true, StreamPeek.mk.injEq, true_and]
  omega

theorem roundtrip_stream (i : StreamIn) (wf : StreamWF i) (rest : List Nat) :
    ∃ v, decodeStream (encodeStream i ++ rest) = .ok (v, rest) ∧ v.toIn = i ∧ v.header = encStreamHeader i := by
  obtain ⟨s1, s2, s3, s4⟩ := header_slices (encStreamFixed i) i.appHeader i.controlData
    (i.payload ++ (i.authTag ++ rest))
  have hb : encodeStream i ++ rest
      = encStreamFixed i ++ (i.appHeader ++ (i.controlData ++ (i.payload ++ (i.authTag ++ rest)))) := by
    simp [encodeStream, encStreamHeader]
  have t1 : (i.authTag ++ rest).take tagLen = i.authTag := by rw [← wf.tag, take_append_len]
  have t2 : (i.authTag ++ rest).drop tagLen = rest := by rw [← wf.tag, drop_append_len]
  have hs := streamTagBits_spec i.keyPhase (decide (i.controlData.length > 0)) i.finalOffset.isSome
      (decide (i.appHeader.length > 0)) i.sourceQueueId.isSome i.recovery
  rw [← streamTagOf_eq] at hs
  obtain ⟨_, _, hkp, _, _, _, _, hrec⟩ := hs
  unfold decodeStream
  rw [hb, peekStream_enc i wf]
  simp only [bind, Except.bind, pure, Except.pure, pSkip_append _ _ _ rfl, pSkip_append _ _ _ wf.tag, s1, s2, s3, s4,
    take_append_len, drop_append_len, t1, t2]
  refine ⟨_, rfl, ?_, rfl⟩
  simp only [StreamView.toIn, hkp, hrec, Nat.add_sub_cancel_left]

/-! ### what a successful decode consumed -/

theorem split4 (b : List Nat) (n m k : Nat) :
    b = b.take n ++ (b.drop n).take m ++ ((b.drop n).drop m).take k ++ ((b.drop n).drop m).drop k := by
  rw [List.append_assoc, List.append_assoc, List.take_append_drop, List.take_append_drop, List.take_append_drop]

theorem pSkip_ok {n : Nat} {b r : List Nat} (h : pSkip n b = .ok r) : n ≤ b.length ∧ r = b.drop n := by
  unfold pSkip at h
  split at h
  · cases h
  · simp only [Except.ok.injEq] at h
    exact ⟨by omega, h.symm⟩

theorem pBytes_ok {n : Nat} {b x r : List Nat} (h : pBytes n b = .ok (x, r)) :
    n ≤ b.length ∧ x = b.take n ∧ r = b.drop n := by
  unfold pBytes at h
  split at h
  · cases h
  · simp only [Except.ok.injEq, Prod.mk.injEq] at h
    exact ⟨by omega, h.1.symm, h.2.symm⟩

theorem decodeStream_consumes (b rest : List Nat) (v : StreamView) (h : decodeStream b = .ok (v, rest)) :
    b = v.header ++ v.payload ++ v.authTag ++ rest := by
  unfold decodeStream at h
  simp only [bind, Except.bind, pure, Except.pure] at h
  repeat' split at h
  all_goals try (cases h; done)
  simp only [Except.ok.injEq, Prod.mk.injEq] at h
  obtain ⟨hv, hr⟩ := h
  rw [← hv, ← hr]
  exact split4 _ _ _ _

theorem split3 (b : List Nat) (n k : Nat) :
    b = b.take n ++ (b.drop n).take k ++ (b.drop n).drop k := by
  rw [List.append_assoc, List.take_append_drop, List.take_append_drop]

theorem decodeControl_consumes (b rest : List Nat) (v : ControlView) (h : decodeControl b = .ok (v, rest)) :
    b = v.header ++ v.authTag ++ rest := by
  unfold decodeControl at h
  simp only [bind, Except.bind, pure, Except.pure] at h
  repeat' split at h
  all_goals try (cases h; done)
  simp only [Except.ok.injEq, Prod.mk.injEq] at h
  obtain ⟨hv, hr⟩ := h
  rw [← hv, ← hr]
  exact split3 _ _ _

theorem decodeDatagram_consumes (b rest : List Nat) (v : DatagramView) (h : decodeDatagram b = .ok (v, rest)) :
    b = v.header ++ v.payload ++ v.authTag ++ rest ∧ v.authTag.length = tagLen := by
  unfold decodeDatagram at h
  simp only [bind, Except.bind, pure, Except.pure] at h
  repeat' split at h
  all_goals try (cases h; done)
  rename_i _ _ _ _ _ _ _ _ _ p1 hp1 _ p2 hp2
  simp only [Except.ok.injEq, Prod.mk.injEq] at h
  obtain ⟨hv, hr⟩ := h
  obtain ⟨l1, x1, r1⟩ := pBytes_ok hp1
  obtain ⟨l2, x2, r2⟩ := pBytes_ok hp2
  rw [← hv, ← hr]
  simp only [x1, x2, r1, r2]
  refine ⟨split4 _ _ _ _, ?_⟩
  rw [List.length_take]
  rw [r1] at l2
  omega

theorem decodeSecret_consumes (k : SecretKind) (b rest : List Nat) (v : SecretView) (h : decodeSecret k b = .ok (v, rest)) :
    b = v.header ++ v.authTag ++ rest ∧ v.authTag.length = tagLen ∧ v.kind = k := by
  unfold decodeSecret at h
  cases hp : pSecretValue k b with
  | error e => rw [hp] at h; cases h
  | ok x =>
    obtain ⟨⟨t, id, wv, q, val⟩, r⟩ := x
    rw [hp] at h
    simp only [] at h
    cases hq : pBytes tagLen (b.drop (b.length - r.length)) with
    | error e => rw [hq] at h; cases h
    | ok y =>
      obtain ⟨tg, rest'⟩ := y
      rw [hq] at h
      simp only [Except.ok.injEq, Prod.mk.injEq] at h
      obtain ⟨hv, hr⟩ := h
      obtain ⟨l1, x1, r1⟩ := pBytes_ok hq
      rw [← hv, ← hr]
      simp only [x1, r1]
      refine ⟨split3 _ _ _, ?_, trivial⟩
      rw [List.length_take]
      omega

/-! ### the declarative field tables emit exactly the encoders' bytes -/

theorem streamTagBits_sum (kp cd fin ah sq rec : Bool) :
    streamTagBits kp cd fin ah sq rec
      = Spec.bit sq 0x20 + Spec.bit rec 0x10 + Spec.bit cd 0x08 + Spec.bit fin 0x04 + Spec.bit ah 0x02 + Spec.bit kp 0x01 := by
  cases kp <;> cases cd <;> cases fin <;> cases ah <;> cases sq <;> cases rec <;> decide

theorem datagramTagBits_sum (conn ah ack kp : Bool) :
    datagramTagBits conn ah ack kp = 0x40 + Spec.bit ack 0x08 + Spec.bit conn 0x04 + Spec.bit ah 0x02 + Spec.bit kp 0x01 := by
  cases conn <;> cases ah <;> cases ack <;> cases kp <;> decide

theorem controlTagBits_sum (sq sid ah : Bool) :
    controlTagBits sq sid ah = 0x50 + Spec.bit sq 0x08 + Spec.bit sid 0x04 + Spec.bit ah 0x02 := by
  cases sq <;> cases sid <;> cases ah <;> decide

theorem emit_optNum (n : String) (o : Option Nat) : Spec.emitField ⟨n, .varint⟩ (Spec.optNum o) = encOptVarint o := by
  cases o <;> rfl

theorem emit_cond_varint (n : String) (c : Bool) (x : Nat) :
    Spec.emitField ⟨n, .varint⟩ (Spec.cond c (.num x)) = if c then VarInt.encode x else [] := by
  cases c <;> rfl

theorem emit_cond_u32 (n : String) (c : Bool) (x : Nat) :
    Spec.emitField ⟨n, .u32⟩ (Spec.cond c (.num x)) = if c then beBytes 4 x else [] := by
  cases c <;> rfl

theorem emit_cond_bytes (n : String) (c : Bool) (x : List Nat) :
    Spec.emitField ⟨n, .bytes⟩ (Spec.cond c (.bytes x)) = if c then x else [] := by
  cases c <;> rfl

theorem streamId_spec (s : StreamId) : s.queueId * 4 + Spec.bit s.reliable 2 + Spec.bit s.bidi 1 = s.toVarint := rfl

theorem encode_eq_spec_stream (i : StreamIn) : Spec.emit (Spec.stream i) = encodeStream i := by
  unfold encodeStream encStreamHeader encStreamFixed
  rw [streamTagOf_eq, streamTagBits_sum]
  simp only [Spec.stream, Spec.emit, emit_optNum, emit_cond_varint, emit_cond_u32, streamId_spec]
  simp only [Spec.emitField, encCreds, List.append_assoc, List.cons_append, List.nil_append, List.append_nil,
    decide_eq_true_eq, beBytes]

theorem encode_eq_spec_datagram (i : DatagramIn) : Spec.emit (Spec.datagram i) = encodeDatagram i := by
  unfold encodeDatagram encDatagramHeader encDatagramFixed
  rw [datagramTagOf_eq, datagramTagBits_sum]
  simp only [Spec.datagram, Spec.emit, emit_optNum, emit_cond_varint, emit_cond_bytes]
  cases hn : i.nect <;>
  simp [Spec.emitField, encCreds, encAckFields, encOptVarint, List.append_assoc]

theorem emit_optSid (n : String) (o : Option StreamId) :
    Spec.emitField ⟨n, .varint⟩ (Spec.optStreamId o) = encOptStreamId o := by
  cases o <;> rfl

theorem encode_eq_spec_control (i : ControlIn) : Spec.emit (Spec.control i) = encodeControl i := by
  unfold encodeControl encControlHeader encControlFixed
  rw [controlTagOf_eq, controlTagBits_sum]
  simp only [Spec.control, Spec.emit, emit_optNum, emit_cond_varint, emit_optSid]
  simp only [Spec.emitField, encCreds, List.append_assoc, List.cons_append, List.nil_append, List.append_nil,
    decide_eq_true_eq]

theorem encode_eq_spec_secret (i : SecretIn) : Spec.emit (Spec.secret i) = encodeSecret i := by
  unfold encodeSecret encSecretHeader
  cases hk : i.kind <;> cases hq : i.queueId <;>
    simp [Spec.secret, Spec.emit, Spec.emitField, Spec.optNum, Spec.bit, secretTagOf, SecretKind.tag, SecretKind.hasValue,
      encOptVarint, SecretTag.unknownPathSecret, SecretTag.staleKey, SecretTag.replayDetected, SecretTag.hasQueueId, hk, hq]

/-! ### every consumed byte is an input of the primitive call -/

/-- the primitive call a receiver makes for a datagram that is exactly one packet -/
def datagramCallOfWire (b : List Nat) : Option CryptoCall :=
  match decodeDatagram b with
  | .ok (v, []) => (datagramOpenCall v).toOption
  | _ => none

def controlCallOfWire (b : List Nat) : Option CryptoCall :=
  match decodeControl b with
  | .ok (v, []) => some (controlOpenCall v)
  | _ => none

def secretCallOfWire (k : SecretKind) (b : List Nat) : Option CryptoCall :=
  match decodeSecret k b with
  | .ok (v, []) => some (secretOpenCall v)
  | _ => none

/-- `retx = false`: only packets whose retransmission offset is zero -/
def streamCallOfWire (retx : Bool) (b : List Nat) : Option CryptoCall :=
  match decodeStream b with
  | .ok (v, []) => if retx || v.origPn == v.pn then (streamOpenCall v).toOption else none
  | _ => none

theorem datagram_call_covers (b : List Nat) (c : CryptoCall) (h : datagramCallOfWire b = some c) :
    c.aad ++ c.body ++ c.tag = b := by
  unfold datagramCallOfWire at h
  split at h
  · rename_i v hd
    have hc := (decodeDatagram_consumes b [] v hd).1
    unfold datagramOpenCall at h
    split at h
    · simp [Except.toOption] at h
    · simp only [Except.toOption, Option.some.injEq] at h
      rw [← h, hc]; simp
  · simp at h

theorem control_call_covers (b : List Nat) (c : CryptoCall) (h : controlCallOfWire b = some c) :
    c.aad ++ c.body ++ c.tag = b := by
  unfold controlCallOfWire at h
  split at h
  · rename_i v hd
    have hc := decodeControl_consumes b [] v hd
    simp only [controlOpenCall, Option.some.injEq] at h
    rw [← h, hc]; simp
  · simp at h

theorem secret_call_covers (k : SecretKind) (hk : k ≠ .unknownPathSecret) (b : List Nat) (c : CryptoCall)
    (h : secretCallOfWire k b = some c) : c.aad ++ c.body ++ c.tag = b := by
  unfold secretCallOfWire at h
  split at h
  · rename_i v hd
    obtain ⟨hc, _, hkind⟩ := decodeSecret_consumes k b [] v hd
    unfold secretOpenCall at h
    rw [hkind] at h
    cases k with
    | unknownPathSecret => exact absurd rfl hk
    | staleKey => simp only [Option.some.injEq] at h; rw [← h, hc]; simp
    | replayDetected => simp only [Option.some.injEq] at h; rw [← h, hc]; simp
  · simp at h

theorem stream_call_covers (b : List Nat) (c : CryptoCall) (h : streamCallOfWire false b = some c) :
    c.aad ++ c.body ++ c.tag = b := by
  unfold streamCallOfWire at h
  split at h
  · rename_i v hd
    have hc := decodeStream_consumes b [] v hd
    simp only [Bool.false_or] at h
    split at h
    · rename_i hpn
      have hne : (v.origPn != v.pn) = false := by simp at hpn; simp [hpn]
      unfold streamOpenCall at h
      simp only [hne, Bool.false_eq_true, if_false] at h
      split at h
      · split at h
        · rename_i he
          simp only [Except.toOption, Option.some.injEq] at h
          have : v.payload = [] := by simpa using he
          rw [← h, hc, this]; simp
        · simp [Except.toOption] at h
      · split at h
        · simp [Except.toOption] at h
        · simp only [Except.toOption, Option.some.injEq] at h
          rw [← h, hc]; simp
    · simp at h
  · simp at h

/-! ### the tag dispatcher picks the right decoder for every encoded packet -/

theorem roundtrip_any_stream (i : StreamIn) (wf : StreamWF i) (rest : List Nat) :
    ∃ v, decodeAny (encodeStream i ++ rest) = .ok (.stream v, rest) ∧ v.toIn = i := by
  obtain ⟨v, hd, hi, _⟩ := roundtrip_stream i wf rest
  have hs := streamTagBits_spec i.keyPhase (decide (i.controlData.length > 0)) i.finalOffset.isSome
      (decide (i.appHeader.length > 0)) i.sourceQueueId.isSome i.recovery
  rw [← streamTagOf_eq] at hs
  have hcons : ∃ X, encodeStream i ++ rest = streamTagOf i :: X := by
    simp [encodeStream, encStreamHeader, encStreamFixed]
  obtain ⟨X, hX⟩ := hcons
  refine ⟨v, ?_, hi⟩
  rw [hX] at hd ⊢
  unfold decodeAny
  simp only [hs.1, hs.2.1, and_self, if_true, hd]

theorem roundtrip_any_datagram (i : DatagramIn) (wf : DatagramWF i) (rest : List Nat) :
    ∃ v, decodeAny (encodeDatagram i ++ rest) = .ok (.datagram v, rest) ∧ v.toIn = i := by
  obtain ⟨v, hd, hi, _⟩ := roundtrip_datagram i wf rest
  have hs := datagramTagBits_spec i.pn.isSome (decide (i.appHeader.length > 0)) i.nect.isSome i.keyPhase
  rw [← datagramTagOf_eq] at hs
  have hcons : ∃ X, encodeDatagram i ++ rest = datagramTagOf i :: X := by
    simp [encodeDatagram, encDatagramHeader, encDatagramFixed]
  obtain ⟨X, hX⟩ := hcons
  refine ⟨v, ?_, hi⟩
  rw [hX] at hd ⊢
  unfold decodeAny
  have h1 := hs.1; have h2 := hs.2.1
  unfold DatagramTag.min at h1; unfold DatagramTag.max at h2
  have n1 : ¬ (StreamTag.min ≤ datagramTagOf i ∧ datagramTagOf i ≤ StreamTag.max) := by
    unfold StreamTag.max; omega
  have p2 : DatagramTag.min ≤ datagramTagOf i ∧ datagramTagOf i ≤ DatagramTag.max := by
    unfold DatagramTag.min DatagramTag.max; omega
  simp only [n1, p2.1, p2.2, and_self, if_false, if_true, hd]

theorem roundtrip_any_control (i : ControlIn) (wf : ControlWF i) (rest : List Nat) :
    ∃ v, decodeAny (encodeControl i ++ rest) = .ok (.control v, rest) ∧ v.toIn = i := by
  obtain ⟨v, hd, hi, _⟩ := roundtrip_control i wf rest
  have hs := controlTagBits_spec i.sourceQueueId.isSome i.streamId.isSome (decide (i.appHeader.length > 0))
  rw [← controlTagOf_eq] at hs
  have hcons : ∃ X, encodeControl i ++ rest = controlTagOf i :: X := by
    simp [encodeControl, encControlHeader, encControlFixed]
  obtain ⟨X, hX⟩ := hcons
  refine ⟨v, ?_, hi⟩
  rw [hX] at hd ⊢
  unfold decodeAny
  have h1 := hs.1; have h2 := hs.2.1
  unfold ControlTag.min at h1; unfold ControlTag.max at h2
  have n1 : ¬ (StreamTag.min ≤ controlTagOf i ∧ controlTagOf i ≤ StreamTag.max) := by
    unfold StreamTag.max; omega
  have n2 : ¬ (DatagramTag.min ≤ controlTagOf i ∧ controlTagOf i ≤ DatagramTag.max) := by
    unfold DatagramTag.max; omega
  have p3 : ControlTag.min ≤ controlTagOf i ∧ controlTagOf i ≤ ControlTag.max := by
    unfold ControlTag.min ControlTag.max; omega
  simp only [n1, n2, p3.1, p3.2, and_self, if_false, if_true, hd]

theorem roundtrip_any_secret (i : SecretIn) (wf : SecretWF i) (rest : List Nat) :
    ∃ v, decodeAny (encodeSecret i ++ rest) = .ok (.secret v, rest) ∧ v.toIn = i := by
  obtain ⟨v, hd, hi, _⟩ := roundtrip_secret i wf rest
  have hcons : ∃ X, encodeSecret i ++ rest = secretTagOf i.kind i.queueId.isSome :: X := by
    simp [encodeSecret, encSecretHeader]
  obtain ⟨X, hX⟩ := hcons
  refine ⟨v, ?_, hi⟩
  rw [hX] at hd ⊢
  unfold decodeAny
  cases hk : i.kind <;> cases hq : i.queueId.isSome <;> rw [hk, hq] at hd <;>
    (simp [secretTagOf, SecretKind.tag, SecretTag.unknownPathSecret, SecretTag.staleKey, SecretTag.replayDetected,
      SecretTag.hasQueueId] at hd) <;>
    simp [secretTagOf, SecretKind.tag, SecretTag.unknownPathSecret, SecretTag.staleKey, SecretTag.replayDetected,
      SecretTag.hasQueueId, StreamTag.min, StreamTag.max, DatagramTag.min, DatagramTag.max, ControlTag.min, ControlTag.max, hd]

/-! ### the dispatcher: consumption and totality -/

/-- the wire bytes a decoded packet occupied -/
def AnyView.wire : AnyView → List Nat
  | .stream v => v.header ++ v.payload ++ v.authTag
  | .datagram v => v.header ++ v.payload ++ v.authTag
  | .control v => v.header ++ v.authTag
  | .secret v => v.header ++ v.authTag

theorem decodeAny_consumes (b r : List Nat) (v : AnyView) (h : decodeAny b = .ok (v, r)) : b = AnyView.wire v ++ r := by
  unfold decodeAny at h
  split at h
  · cases h
  · repeat' split at h
    all_goals try (cases h; done)
    all_goals (
      simp only [Except.ok.injEq, Prod.mk.injEq] at h
      obtain ⟨hv, hr⟩ := h
      subst hv hr
      rename_i hd
      first
        | exact decodeStream_consumes _ _ _ hd
        | exact (decodeDatagram_consumes _ _ _ hd).1
        | exact decodeControl_consumes _ _ _ hd
        | exact (decodeSecret_consumes _ _ _ _ hd).1)

theorem decode_total (b : List Nat) :
    (∃ v r, decodeAny b = .ok (v, r)) ∨ decodeAny b = .error .eof ∨ decodeAny b = .error .invariant := by
  cases h : decodeAny b with
  | ok x => exact Or.inl ⟨x.1, x.2, rfl⟩
  | error e => cases e <;> simp

/-! ### genuine packets are accepted: the receiver's call is exactly the sealer's call -/

/-- the exact view the datagram decoder returns for an encoded packet -/
theorem decodeDatagram_encode (i : DatagramIn) (wf : DatagramWF i) (rest : List Nat) :
    decodeDatagram (encodeDatagram i ++ rest)
      = .ok (⟨datagramTagOf i, i.creds, 0, i.sourceControlPort, i.pn.getD 0, i.nect, encDatagramHeader i, i.appHeader,
              i.controlData, i.payload, i.authTag⟩, rest) := by
  obtain ⟨s1, s2, s3, s4⟩ := header_slices (encDatagramFixed i) i.appHeader i.controlData
    (i.payload ++ (i.authTag ++ rest))
  have hcd : (if i.nect.isSome then i.controlData else []) = i.controlData := by
    cases hn : i.nect with
    | none => simp [wf.cdOnlyAck hn]
    | some x => simp
  have hh : encDatagramHeader i = encDatagramFixed i ++ i.appHeader ++ i.controlData := by
    unfold encDatagramHeader; rw [hcd]
  have hb : encodeDatagram i ++ rest
      = encDatagramFixed i ++ (i.appHeader ++ (i.controlData ++ (i.payload ++ (i.authTag ++ rest)))) := by
    simp [encodeDatagram, hh]
  unfold decodeDatagram
  rw [hb, peekDatagram_enc i wf]
  simp only [bind, Except.bind, pure, Except.pure, pSkip_append _ _ _ rfl, s1, s2, s3, s4,
    pBytes_append _ _ _ rfl, pBytes_append _ _ _ wf.tag, hh]

/-- a datagram produced by the encoder and sealed is accepted by the receiver (awslc keys: key phase zero) -/
theorem genuine_accepted_datagram (i : DatagramIn) (wf : DatagramWF i) (hkp : i.keyPhase = false) :
    datagramCallOfWire (encodeDatagram i) = some (datagramSealCall i) := by
  have h := decodeDatagram_encode i wf []
  rw [List.append_nil] at h
  have hs := datagramTagBits_spec i.pn.isSome (decide (i.appHeader.length > 0)) i.nect.isSome i.keyPhase
  rw [← datagramTagOf_eq] at hs
  unfold datagramCallOfWire
  rw [h]
  simp only [datagramOpenCall, hs.2.2.2.2.2, hkp, Bool.false_eq_true, if_false, Except.toOption, datagramSealCall]

theorem decodeControl_encode (i : ControlIn) (wf : ControlWF i) (rest : List Nat) :
    decodeControl (encodeControl i ++ rest)
      = .ok (⟨controlTagOf i, i.creds, 0, i.sourceQueueId, i.streamId, i.pn, encControlHeader i, i.appHeader,
              i.controlData, i.authTag⟩, rest) := by
  obtain ⟨s1, s2, s3, s4⟩ := header_slices (encControlFixed i) i.appHeader i.controlData (i.authTag ++ rest)
  have hb : encodeControl i ++ rest
      = encControlFixed i ++ (i.appHeader ++ (i.controlData ++ (i.authTag ++ rest))) := by
    simp [encodeControl, encControlHeader]
  have t1 : (i.authTag ++ rest).take tagLen = i.authTag := by rw [← wf.tag, take_append_len]
  have t2 : (i.authTag ++ rest).drop tagLen = rest := by rw [← wf.tag, drop_append_len]
  unfold decodeControl
  rw [hb, peekControl_enc i wf]
  simp only [bind, Except.bind, pure, Except.pure, pSkip_append _ _ _ rfl, pSkip_append _ _ _ wf.tag, s1, s2, s3, s4,
    t1, t2, encControlHeader]

theorem genuine_accepted_control (i : ControlIn) (wf : ControlWF i) :
    controlCallOfWire (encodeControl i) = some (controlSealCall i) := by
  have h := decodeControl_encode i wf []
  rw [List.append_nil] at h
  unfold controlCallOfWire
  rw [h]
  rfl

theorem genuine_accepted_secret (i : SecretIn) (wf : SecretWF i) :
    secretCallOfWire i.kind (encodeSecret i) = some (secretSealCall i) := by
  obtain ⟨v, hd, hi, hh⟩ := roundtrip_secret i wf []
  rw [List.append_nil] at hd
  unfold secretCallOfWire
  rw [hd]
  have hk : v.kind = i.kind := by rw [← hi]; rfl
  have hc : v.credId = i.credId := by rw [← hi]; rfl
  have ht : v.authTag = i.authTag := by rw [← hi]; rfl
  simp only [secretOpenCall, secretSealCall, hk, hh, hc, ht]

theorem decodeStream_encode (i : StreamIn) (wf : StreamWF i) (rest : List Nat) :
    decodeStream (encodeStream i ++ rest)
      = .ok (⟨streamTagOf i, i.creds, 0, i.sourceQueueId, i.streamId, i.pn, i.pn + i.relOffset, rpnOffsetOf i, i.nect,
              i.offset, i.finalOffset, encStreamHeader i, i.appHeader, i.controlData, i.payload, i.authTag⟩, rest) := by
  obtain ⟨s1, s2, s3, s4⟩ := header_slices (encStreamFixed i) i.appHeader i.controlData
    (i.payload ++ (i.authTag ++ rest))
  have hb : encodeStream i ++ rest
      = encStreamFixed i ++ (i.appHeader ++ (i.controlData ++ (i.payload ++ (i.authTag ++ rest)))) := by
    simp [encodeStream, encStreamHeader]
  have t1 : (i.authTag ++ rest).take tagLen = i.authTag := by rw [← wf.tag, take_append_len]
  have t2 : (i.authTag ++ rest).drop tagLen = rest := by rw [← wf.tag, drop_append_len]
  unfold decodeStream
  rw [hb, peekStream_enc i wf]
  simp only [bind, Except.bind, pure, Except.pure, pSkip_append _ _ _ rfl, pSkip_append _ _ _ wf.tag, s1, s2, s3, s4,
    take_append_len, drop_append_len, t1, t2, encStreamHeader]

/-- application packets (`encode`) and probes (`probe`: recovery space, empty payload) that were not
    retransmitted are accepted -/
theorem genuine_accepted_stream (i : StreamIn) (wf : StreamWF i) (hkp : i.keyPhase = false) (hrel : i.relOffset = 0)
    (hprobe : i.recovery = true → i.payload = []) :
    streamCallOfWire false (encodeStream i) = some (streamSealCall i none) := by
  have h := decodeStream_encode i wf []
  rw [List.append_nil] at h
  have hs := streamTagBits_spec i.keyPhase (decide (i.controlData.length > 0)) i.finalOffset.isSome
      (decide (i.appHeader.length > 0)) i.sourceQueueId.isSome i.recovery
  rw [← streamTagOf_eq] at hs
  obtain ⟨_, _, hk, _, _, _, _, hr⟩ := hs
  unfold streamCallOfWire
  rw [h]
  simp only [hrel, Nat.add_zero, Bool.false_or, beq_self_eq_true, if_true, streamOpenCall, bne_self_eq_false,
    Bool.false_eq_true, if_false, hr, hk, hkp, streamSealCall, Option.isSome_none]
  cases hrec : i.recovery with
  | false => simp [Except.toOption]
  | true => simp [hprobe hrec, Except.toOption]

theorem encode_length_le (x : Nat) : (VarInt.encode x).length ≤ 8 := by
  rw [Quic.Proofs.C05.varint_size, VarInt.encodingSize, Quic.Proofs.C05.lookup_cases]
  repeat' split
  all_goals simp

theorem streamTagBits_clear_recovery (kp cd fin ah sq rec : Bool) :
    streamTagBits kp cd fin ah sq rec &&& (255 - StreamTag.isRecovery) = streamTagBits kp cd fin ah sq false := by
  cases kp <;> cases cd <;> cases fin <;> cases ah <;> cases sq <;> cases rec <;> decide

theorem normalize_slices (t : Nat) (A W B : List Nat) (hW : W.length = 4) :
    normalizeRetransmit ([t] ++ A ++ W ++ B) (1 + A.length)
      = [t &&& (255 - StreamTag.isRecovery)] ++ A ++ [0, 0, 0, 0] ++ B := by
  unfold normalizeRetransmit
  simp only [List.cons_append, List.nil_append, List.append_assoc]
  have e1 : ((t &&& (255 - StreamTag.isRecovery)) :: (A ++ (W ++ B)))
      = ((t &&& (255 - StreamTag.isRecovery)) :: A) ++ (W ++ B) := by simp
  have l1 : ((t &&& (255 - StreamTag.isRecovery)) :: A).length = 1 + A.length := by simp; omega
  have e2 : ((t &&& (255 - StreamTag.isRecovery)) :: (A ++ (W ++ B)))
      = (((t &&& (255 - StreamTag.isRecovery)) :: A) ++ W) ++ B := by simp
  have l2 : (((t &&& (255 - StreamTag.isRecovery)) :: A) ++ W).length = 1 + A.length + 4 := by
    simp [hW]; omega
  have hmin : min 4 (((t &&& (255 - StreamTag.isRecovery)) :: (A ++ (W ++ B))).length - (1 + A.length)) = 4 := by
    simp [hW]; omega
  have ht : ((t &&& (255 - StreamTag.isRecovery)) :: (A ++ (W ++ B))).take (1 + A.length)
      = (t &&& (255 - StreamTag.isRecovery)) :: A := by rw [e1, ← l1, take_append_len]
  have hd : ((t &&& (255 - StreamTag.isRecovery)) :: (A ++ (W ++ B))).drop (1 + A.length + 4) = B := by
    rw [e2, ← l2, drop_append_len]
  rw [hmin, ht, hd]
  simp [List.replicate]

theorem encOptVarint_length_le (o : Option Nat) : (encOptVarint o).length ≤ 8 := by
  cases o with
  | none => simp [encOptVarint]
  | some x => exact encode_length_le x

theorem normalize_header (i : StreamIn) (wf : StreamWF i) (hrel : i.streamId.reliable = true) :
    normalizeRetransmit (encStreamHeader i) (rpnOffsetOf i)
      = encStreamHeader { i with recovery := false, relOffset := 0 } := by
  have hA : ∃ A B, encStreamHeader i = [streamTagOf i] ++ A ++ beBytes 4 i.relOffset ++ B
      ∧ encStreamHeader { i with recovery := false, relOffset := 0 }
          = [streamTagOf { i with recovery := false, relOffset := 0 }] ++ A ++ [0, 0, 0, 0] ++ B
      ∧ rpnOffsetOf i = (1 + A.length) % 256 ∧ A.length ≤ 51 := by
    refine ⟨encCreds i.creds ++ [0] ++ [0, 0] ++ VarInt.encode i.streamId.toVarint ++ encOptVarint i.sourceQueueId
        ++ VarInt.encode i.pn,
      VarInt.encode i.nect ++ VarInt.encode i.offset ++ encOptVarint i.finalOffset
        ++ (if i.controlData.length > 0 then VarInt.encode i.controlData.length else [])
        ++ VarInt.encode i.payload.length
        ++ (if i.appHeader.length > 0 then VarInt.encode i.appHeader.length else []) ++ i.appHeader ++ i.controlData,
      ?_, ?_, ?_, ?_⟩
    · simp [encStreamHeader, encStreamFixed, hrel]
    · simp [encStreamHeader, encStreamFixed, hrel, beBytes]
    · simp [rpnOffsetOf, List.length_append]; omega
    · have h1 := encode_length_le i.creds.keyId
      have h2 := encode_length_le i.streamId.toVarint
      have h3 := encOptVarint_length_le i.sourceQueueId
      have h4 := encode_length_le i.pn
      have h5 := wf.id
      unfold credIdLen at h5
      simp [encCreds, List.length_append]; omega
  obtain ⟨A, B, e1, e2, e3, e4⟩ := hA
  have hoff : rpnOffsetOf i = 1 + A.length := by rw [e3]; omega
  rw [e1, e2, hoff, normalize_slices _ A _ B (by simp [beBytes])]
  congr 3
  rw [streamTagOf_eq, streamTagOf_eq, streamTagBits_clear_recovery]

/-- a packet sealed by `encode` and then retransmitted (`retransmit`: offset k > 0, either packet
    space) is accepted: the receiver removes the mask, clears the recovery bit, zeroes the offset
    and lands on exactly the call the sealer made -/
theorem genuine_accepted_stream_retx (i : StreamIn) (wf : StreamWF i) (hkp : i.keyPhase = false)
    (hrel : i.streamId.reliable = true) (hk : i.relOffset > 0) :
    streamCallOfWire true (encodeStream i) = some (streamSealCall i (some (i.pn, i.pn + i.relOffset))) := by
  have h := decodeStream_encode i wf []
  rw [List.append_nil] at h
  have hs := streamTagBits_spec i.keyPhase (decide (i.controlData.length > 0)) i.finalOffset.isSome
      (decide (i.appHeader.length > 0)) i.sourceQueueId.isSome i.recovery
  rw [← streamTagOf_eq] at hs
  obtain ⟨_, _, hkb, _, _, _, _, _⟩ := hs
  have hne : (i.pn != i.pn + i.relOffset) = true := by simp; omega
  unfold streamCallOfWire
  rw [h]
  simp only [Bool.true_or, if_true, streamOpenCall, hne, normalize_header i wf hrel, Bool.false_eq_true, if_false,
    hkb, hkp, streamSealCall, Option.isSome_some, Except.toOption]

theorem decodeSecretControl_inv (b r : List Nat) (v : SecretView) (h : decodeSecretControl b = .ok (v, r)) :
    ∃ k, decodeSecret k b = .ok (v, r) := by
  unfold decodeSecretControl at h
  split at h
  · cases h
  · dsimp only at h
    repeat' split at h
    all_goals try (cases h; done)
    all_goals exact ⟨_, h⟩


end Quic.Proofs.DcPackets
