import QuicModel.Dc.Packets
import QuicProofs.Props.C05VarInt
/-
  Helper lemmas for C18: the primitive parsers of `Quic.Dc.Packets` invert the primitive emitters,
  every parser returns a suffix of its input, tag-bit arithmetic.
-/
namespace Quic.Proofs.DcPackets
open Quic Quic.Codec Quic.Dc.Packets

/-! ### primitive parsers on emitted bytes -/

theorem pU8_cons (x : Nat) (r : List Nat) : pU8 (x :: r) = .ok (x, r) := rfl

theorem pBytes_append (n : Nat) (l r : List Nat) (h : l.length = n) : pBytes n (l ++ r) = .ok (l, r) := by
  unfold pBytes
  have : ¬ (l ++ r).length < n := by simp [List.length_append]; omega
  rw [if_neg this, ← h]
  simp

theorem beVal_beBytes2 (x : Nat) (hx : x < 65536) : beVal (beBytes 2 x) = x := by
  simp [beBytes, beVal]; omega

theorem beVal_beBytes4 (x : Nat) (hx : x < 4294967296) : beVal (beBytes 4 x) = x := by
  simp [beBytes, beVal]; omega

theorem pU16_be (x : Nat) (r : List Nat) (hx : x < 65536) : pU16 (beBytes 2 x ++ r) = .ok (x, r) := by
  unfold pU16
  rw [pBytes_append 2 _ r (by simp [beBytes])]
  simp only [beVal_beBytes2 x hx]

theorem pU16_zero (r : List Nat) : pU16 (0 :: 0 :: r) = .ok (0, r) := by
  have := pU16_be 0 r (by omega)
  simpa [beBytes] using this

theorem pU32_be (x : Nat) (r : List Nat) (hx : x < 4294967296) : pU32 (beBytes 4 x ++ r) = .ok (x, r) := by
  unfold pU32
  rw [pBytes_append 4 _ r (by simp [beBytes])]
  simp only [beVal_beBytes4 x hx]

theorem pVarint_encode (x : Nat) (r : List Nat) (hx : x ≤ VarInt.maxValue) :
    pVarint (VarInt.encode x ++ r) = .ok (x, r) := by
  unfold pVarint
  rw [Quic.Proofs.C05.varint_roundtrip x r hx]

theorem pOptVarint_enc (o : Option Nat) (r : List Nat) (h : ∀ x, o = some x → x ≤ VarInt.maxValue) :
    pOptVarint o.isSome (encOptVarint o ++ r) = .ok (o, r) := by
  cases o with
  | none => simp [pOptVarint, encOptVarint]
  | some x => simp [pOptVarint, encOptVarint, pVarint_encode x r (h x rfl)]

/-- an optional length: emitted only when positive, read back as `none`/`some`, `getD 0` restores it -/
theorem pOptVarint_len (n : Nat) (r : List Nat) (h : n ≤ VarInt.maxValue) :
    ∃ o : Option Nat, pOptVarint (decide (n > 0)) ((if n > 0 then VarInt.encode n else []) ++ r) = .ok (o, r)
      ∧ o.getD 0 = n := by
  by_cases hn : n > 0
  · exact ⟨some n, by simp [pOptVarint, hn, pVarint_encode n r h], rfl⟩
  · exact ⟨none, by simp [pOptVarint, hn], by simp; omega⟩

theorem pCreds_enc (c : Creds) (r : List Nat) (hid : c.id.length = credIdLen) (hk : c.keyId ≤ VarInt.maxValue) :
    pCreds (encCreds c ++ r) = .ok (c, r) := by
  unfold pCreds encCreds
  rw [List.append_assoc, pBytes_append credIdLen _ _ hid]
  simp only [pVarint_encode c.keyId r hk]

theorem pWireVersion_zero (r : List Nat) : pWireVersion (0 :: r) = .ok (0, r) := by
  simp [pWireVersion, pU8]

theorem streamId_toVarint_le (s : StreamId) (h : s.queueId < maxQueueId) : s.toVarint ≤ VarInt.maxValue := by
  unfold StreamId.toVarint VarInt.maxValue
  unfold maxQueueId at h
  cases s.reliable <;> cases s.bidi <;> simp <;> omega

theorem streamId_of_to (s : StreamId) (h : s.queueId < maxQueueId) : StreamId.ofVarint s.toVarint = .ok s := by
  unfold StreamId.ofVarint StreamId.toVarint
  unfold maxQueueId at *
  obtain ⟨q, rel, bidi⟩ := s
  simp only at h
  cases rel <;> cases bidi <;> simp
  all_goals (rw [if_neg (by omega)]; congr 2 <;> first | omega | (simp; omega))

theorem pStreamId_enc (s : StreamId) (r : List Nat) (h : s.queueId < maxQueueId) :
    pStreamId (VarInt.encode s.toVarint ++ r) = .ok (s, r) := by
  unfold pStreamId
  rw [pVarint_encode _ r (streamId_toVarint_le s h)]
  simp only [streamId_of_to s h]

theorem pTagIn_ok (lo hi t : Nat) (r : List Nat) (h1 : lo ≤ t) (h2 : t ≤ hi) : pTagIn lo hi (t :: r) = .ok (t, r) := by
  simp [pTagIn, pU8, h1, h2]

/-! ### tag bits -/

/-- the stream tag as a function of its six flags -/
def streamTagBits (kp cd fin ah sq rec : Bool) : Nat :=
  setBit (setBit (setBit (setBit (setBit (setBit StreamTag.base StreamTag.keyPhase kp) StreamTag.hasControlData cd)
    StreamTag.hasFinalOffset fin) StreamTag.hasAppHeader ah) StreamTag.hasSourceQueueId sq) StreamTag.isRecovery rec

theorem streamTagOf_eq (i : StreamIn) :
    streamTagOf i = streamTagBits i.keyPhase (decide (i.controlData.length > 0)) i.finalOffset.isSome
      (decide (i.appHeader.length > 0)) i.sourceQueueId.isSome i.recovery := rfl

theorem streamTagBits_spec (kp cd fin ah sq rec : Bool) :
    let t := streamTagBits kp cd fin ah sq rec
    StreamTag.min ≤ t ∧ t ≤ StreamTag.max ∧ hasBit t StreamTag.keyPhase = kp ∧ hasBit t StreamTag.hasControlData = cd
      ∧ hasBit t StreamTag.hasFinalOffset = fin ∧ hasBit t StreamTag.hasAppHeader = ah
      ∧ hasBit t StreamTag.hasSourceQueueId = sq ∧ hasBit t StreamTag.isRecovery = rec := by
  cases kp <;> cases cd <;> cases fin <;> cases ah <;> cases sq <;> cases rec <;> decide

def datagramTagBits (conn ah ack kp : Bool) : Nat :=
  setBit (setBit (setBit (setBit DatagramTag.base DatagramTag.isConnected conn) DatagramTag.hasAppHeader ah)
    DatagramTag.ackEliciting ack) DatagramTag.keyPhase kp

theorem datagramTagOf_eq (i : DatagramIn) :
    datagramTagOf i = datagramTagBits i.pn.isSome (decide (i.appHeader.length > 0)) i.nect.isSome i.keyPhase := rfl

theorem datagramTagBits_spec (conn ah ack kp : Bool) :
    let t := datagramTagBits conn ah ack kp
    DatagramTag.min ≤ t ∧ t ≤ DatagramTag.max ∧ hasBit t DatagramTag.isConnected = conn
      ∧ hasBit t DatagramTag.hasAppHeader = ah ∧ hasBit t DatagramTag.ackEliciting = ack
      ∧ hasBit t DatagramTag.keyPhase = kp := by
  cases conn <;> cases ah <;> cases ack <;> cases kp <;> decide

def controlTagBits (sq sid ah : Bool) : Nat :=
  setBit (setBit (setBit ControlTag.base ControlTag.hasSourceQueueId sq) ControlTag.isStream sid) ControlTag.hasAppHeader ah

theorem controlTagOf_eq (i : ControlIn) :
    controlTagOf i = controlTagBits i.sourceQueueId.isSome i.streamId.isSome (decide (i.appHeader.length > 0)) := rfl

theorem controlTagBits_spec (sq sid ah : Bool) :
    let t := controlTagBits sq sid ah
    ControlTag.min ≤ t ∧ t ≤ ControlTag.max ∧ hasBit t ControlTag.hasSourceQueueId = sq
      ∧ hasBit t ControlTag.isStream = sid ∧ hasBit t ControlTag.hasAppHeader = ah := by
  cases sq <;> cases sid <;> cases ah <;> decide

theorem secretTagOf_spec (k : SecretKind) (q : Bool) :
    (secretTagOf k q = k.tag ∨ secretTagOf k q = (k.tag ||| SecretTag.hasQueueId))
      ∧ hasBit (secretTagOf k q) SecretTag.hasQueueId = q := by
  cases k <;> cases q <;> decide

/-! ### slicing -/

theorem take_append_len (a b : List Nat) : (a ++ b).take a.length = a := by simp
theorem drop_append_len (a b : List Nat) : (a ++ b).drop a.length = b := by simp

theorem pSkip_append (n : Nat) (l r : List Nat) (h : l.length = n) : pSkip n (l ++ r) = .ok r := by
  unfold pSkip
  have : ¬ (l ++ r).length < n := by simp [List.length_append]; omega
  rw [if_neg this, ← h]
  simp


theorem header_slices (F ah cd X : List Nat) :
    (F ++ (ah ++ (cd ++ X))).take (F.length + ah.length + cd.length) = F ++ ah ++ cd ∧
    (F ++ (ah ++ (cd ++ X))).drop (F.length + ah.length + cd.length) = X ∧
    ((F ++ ah ++ cd).drop F.length).take ah.length = ah ∧
    ((F ++ ah ++ cd).drop (F.length + ah.length)).take cd.length = cd := by
  have e1 : F ++ (ah ++ (cd ++ X)) = (F ++ ah ++ cd) ++ X := by simp
  have l1 : (F ++ ah ++ cd).length = F.length + ah.length + cd.length := by simp [List.length_append]; omega
  have e2 : F ++ ah ++ cd = F ++ (ah ++ cd) := by simp
  have l2 : (F ++ ah).length = F.length + ah.length := by simp
  refine ⟨?_, ?_, ?_, ?_⟩
  · rw [e1, ← l1, take_append_len]
  · rw [e1, ← l1, drop_append_len]
  · rw [e2, drop_append_len, take_append_len]
  · rw [← l2, drop_append_len, List.take_length]

/-! ### well-formed encoder inputs (the ranges of the Rust types) -/

structure SecretWF (i : SecretIn) : Prop where
  id : i.credId.length = credIdLen
  wv : i.wireVersion = 0
  q : ∀ x, i.queueId = some x → x ≤ VarInt.maxValue
  v : i.value ≤ VarInt.maxValue
  noVal : i.kind.hasValue = false → i.value = 0
  tag : i.authTag.length = tagLen

structure ControlWF (i : ControlIn) : Prop where
  id : i.creds.id.length = credIdLen
  kid : i.creds.keyId ≤ VarInt.maxValue
  sq : ∀ x, i.sourceQueueId = some x → x ≤ VarInt.maxValue
  sid : ∀ s, i.streamId = some s → s.queueId < maxQueueId
  pn : i.pn ≤ VarInt.maxValue
  ah : i.appHeader.length ≤ VarInt.maxValue
  cd : i.controlData.length ≤ VarInt.maxValue
  tag : i.authTag.length = tagLen

structure DatagramWF (i : DatagramIn) : Prop where
  id : i.creds.id.length = credIdLen
  kid : i.creds.keyId ≤ VarInt.maxValue
  port : i.sourceControlPort < 65536
  pn : ∀ x, i.pn = some x → x ≤ VarInt.maxValue
  nect : ∀ x, i.nect = some x → x ≤ VarInt.maxValue
  /-- API precondition of `datagram::encoder::encode`: ack-eliciting needs a packet number -/
  ackHasPn : i.nect.isSome = true → i.pn.isSome = true
  /-- control data is only written (and only exists) for ack-eliciting datagrams -/
  cdOnlyAck : i.nect = none → i.controlData = []
  ah : i.appHeader.length ≤ VarInt.maxValue
  cd : i.controlData.length ≤ VarInt.maxValue
  pl : i.payload.length ≤ VarInt.maxValue
  tag : i.authTag.length = tagLen

structure StreamWF (i : StreamIn) : Prop where
  id : i.creds.id.length = credIdLen
  kid : i.creds.keyId ≤ VarInt.maxValue
  sq : ∀ x, i.sourceQueueId = some x → x ≤ VarInt.maxValue
  sid : i.streamId.queueId < maxQueueId
  pn : i.pn ≤ VarInt.maxValue
  rel : i.relOffset < 4294967296
  relOnlyReliable : i.streamId.reliable = false → i.relOffset = 0
  rpn : i.pn + i.relOffset ≤ VarInt.maxValue
  nect : i.nect ≤ VarInt.maxValue
  off : i.offset ≤ VarInt.maxValue
  fin : ∀ x, i.finalOffset = some x → x ≤ VarInt.maxValue
  ah : i.appHeader.length ≤ VarInt.maxValue
  cd : i.controlData.length ≤ VarInt.maxValue
  pl : i.payload.length ≤ VarInt.maxValue
  tag : i.authTag.length = tagLen

/-! ### secret-control round trip -/

theorem pSecretValue_enc (i : SecretIn) (wf : SecretWF i) (tail : List Nat) :
    pSecretValue i.kind (encSecretHeader i ++ tail)
      = .ok ((secretTagOf i.kind i.queueId.isSome, i.credId, 0, i.queueId, i.value), tail) := by
  have hs := secretTagOf_spec i.kind i.queueId.isSome
  unfold pSecretValue encSecretHeader
  simp only [List.append_assoc, List.cons_append, List.nil_append, pU8_cons]
  rw [if_pos hs.1, pBytes_append credIdLen _ _ wf.id]
  simp only [wf.wv, pWireVersion_zero, hs.2, pOptVarint_enc i.queueId _ wf.q]
  cases hv : i.kind.hasValue
  · simp [wf.noVal hv]
  · simp [pVarint_encode i.value tail wf.v]

theorem roundtrip_secret (i : SecretIn) (wf : SecretWF i) (rest : List Nat) :
    ∃ v, decodeSecret i.kind (encodeSecret i ++ rest) = .ok (v, rest) ∧ v.toIn = i ∧ v.header = encSecretHeader i := by
  unfold decodeSecret encodeSecret
  rw [List.append_assoc, pSecretValue_enc i wf]
  simp only [List.length_append]
  have h1 : (encSecretHeader i).length + (i.authTag.length + rest.length) - (i.authTag.length + rest.length)
      = (encSecretHeader i).length := by omega
  rw [h1, drop_append_len, pBytes_append tagLen _ _ wf.tag, take_append_len]
  exact ⟨_, rfl, by have := wf.wv; cases i; simp_all [SecretView.toIn], rfl⟩

/-! ### control round trip -/

theorem pOptStreamId_enc (o : Option StreamId) (r : List Nat) (h : ∀ s, o = some s → s.queueId < maxQueueId) :
    pOptStreamId o.isSome (encOptStreamId o ++ r) = .ok (o, r) := by
  cases o with
  | none => simp [pOptStreamId, encOptStreamId]
  | some s => simp [pOptStreamId, encOptStreamId, pStreamId_enc s r (h s rfl)]

theorem peekControl_enc (i : ControlIn) (wf : ControlWF i) (tail : List Nat) :
    peekControl (encControlFixed i ++ tail)
      = .ok (⟨controlTagOf i, i.creds, 0, i.sourceQueueId, i.streamId, i.pn, (encControlFixed i).length,
              i.appHeader.length, i.controlData.length⟩, tail) := by
  have hs := controlTagBits_spec i.sourceQueueId.isSome i.streamId.isSome (decide (i.appHeader.length > 0))
  rw [← controlTagOf_eq] at hs
  obtain ⟨h1, h2, h3, h4, h5⟩ := hs
  obtain ⟨o, ho, hod⟩ := pOptVarint_len i.appHeader.length tail wf.ah
  unfold peekControl
  rw [show encControlFixed i = [controlTagOf i] ++ encCreds i.creds ++ [0]
    ++ encOptStreamId i.streamId
    ++ encOptVarint i.sourceQueueId
    ++ VarInt.encode i.pn
    ++ VarInt.encode i.controlData.length
    ++ (if i.appHeader.length > 0 then VarInt.encode i.appHeader.length else []) from rfl]
  simp only [List.append_assoc, List.cons_append, List.nil_append, bind, Except.bind, pure, Except.pure,
    pTagIn_ok _ _ _ _ h1 h2, pCreds_enc _ _ wf.id wf.kid, pWireVersion_zero, h3, h4, h5,
    pOptStreamId_enc _ _ wf.sid, pOptVarint_enc _ _ wf.sq, pVarint_encode _ _ wf.pn, pVarint_encode _ _ wf.cd, ho, hod]
  simp only [List.length_append, List.length_cons, Except.ok.injEq, Prod.mk.injEq, and_true, ControlPeek.mk.injEq, true_and]
  omega

theorem roundtrip_control (i : ControlIn) (wf : ControlWF i) (rest : List Nat) :
    ∃ v, decodeControl (encodeControl i ++ rest) = .ok (v, rest) ∧ v.toIn = i ∧ v.header = encControlHeader i := by
  obtain ⟨s1, s2, s3, s4⟩ := header_slices (encControlFixed i) i.appHeader i.controlData (i.authTag ++ rest)
  have hb : encodeControl i ++ rest
      = encControlFixed i ++ (i.appHeader ++ (i.controlData ++ (i.authTag ++ rest))) := by
    simp [encodeControl, encControlHeader]
  have t1 : (i.authTag ++ rest).take tagLen = i.authTag := by rw [← wf.tag, take_append_len]
  have t2 : (i.authTag ++ rest).drop tagLen = rest := by rw [← wf.tag, drop_append_len]
  unfold decodeControl
  rw [hb, peekControl_enc i wf]
  simp only [bind, Except.bind, pure, Except.pure, pSkip_append _ _ _ rfl, pSkip_append _ _ _ wf.tag, s1, s2, s3, s4,
    t1, t2]
  exact ⟨_, rfl, rfl, rfl⟩


/-! ### datagram round trip -/

theorem pDatagramPn (pn nect : Option Nat) (r : List Nat) (hpn : ∀ x, pn = some x → x ≤ VarInt.maxValue)
    (h : nect.isSome = true → pn.isSome = true) :
    ∃ o : Option Nat, pOptVarint (pn.isSome || nect.isSome)
        ((if pn.isSome ∨ nect.isSome then VarInt.encode (pn.getD 0) else []) ++ r) = .ok (o, r)
      ∧ o.getD 0 = pn.getD 0 := by
  cases pn with
  | none =>
    cases nect with
    | none => exact ⟨none, by simp [pOptVarint], rfl⟩
    | some y => simp at h
  | some x => exact ⟨some x, by simp [pOptVarint, pVarint_encode x r (hpn x rfl)], rfl⟩

theorem pAckFields_enc (nect : Option Nat) (n : Nat) (r : List Nat) (hn : ∀ x, nect = some x → x ≤ VarInt.maxValue)
    (hl : n ≤ VarInt.maxValue) :
    pAckFields nect.isSome (encAckFields nect n ++ r) = .ok ((nect, if nect.isSome then n else 0), r) := by
  cases nect with
  | none => simp [pAckFields, encAckFields]
  | some x => simp [pAckFields, encAckFields, pVarint_encode x _ (hn x rfl), pVarint_encode n r hl]

theorem peekDatagram_enc (i : DatagramIn) (wf : DatagramWF i) (tail : List Nat) :
    peekDatagram (encDatagramFixed i ++ tail)
      = .ok (⟨datagramTagOf i, i.creds, 0, i.sourceControlPort, i.pn.getD 0, i.nect, (encDatagramFixed i).length,
              i.appHeader.length, i.controlData.length, i.payload.length⟩, tail) := by
  have hs := datagramTagBits_spec i.pn.isSome (decide (i.appHeader.length > 0)) i.nect.isSome i.keyPhase
  rw [← datagramTagOf_eq] at hs
  obtain ⟨h1, h2, h3, h4, h5, _⟩ := hs
  obtain ⟨o, ho, hod⟩ := pOptVarint_len i.appHeader.length tail wf.ah
  have hcd : (if i.nect.isSome then i.controlData.length else 0) = i.controlData.length := by
    cases hn : i.nect with
    | none => simp [wf.cdOnlyAck hn]
    | some x => simp
  unfold peekDatagram
  rw [show encDatagramFixed i = [datagramTagOf i] ++ encCreds i.creds ++ [0] ++ beBytes 2 i.sourceControlPort
    ++ (if i.pn.isSome ∨ i.nect.isSome then VarInt.encode (i.pn.getD 0) else [])
    ++ VarInt.encode i.payload.length
    ++ encAckFields i.nect i.controlData.length
    ++ (if i.appHeader.length > 0 then VarInt.encode i.appHeader.length else []) from rfl]
  simp only [List.append_assoc, List.cons_append, List.nil_append]
  obtain ⟨opn, hopn, hopnd⟩ := pDatagramPn i.pn i.nect
    (VarInt.encode i.payload.length ++ (encAckFields i.nect i.controlData.length ++
      ((if i.appHeader.length > 0 then VarInt.encode i.appHeader.length else []) ++ tail))) wf.pn wf.ackHasPn
  simp only [bind, Except.bind, pure, Except.pure,
    pTagIn_ok _ _ _ _ h1 h2, pCreds_enc _ _ wf.id wf.kid, pWireVersion_zero, pU16_be _ _ wf.port, h3, h4, h5,
    hopn, hopnd, pVarint_encode _ _ wf.pl, pAckFields_enc _ _ _ wf.nect wf.cd, ho, hod, hcd]
  simp only [List.length_append, List.length_cons, Except.ok.injEq, Prod.mk.injEq, and_true, DatagramPeek.mk.injEq, true_and]
  omega

theorem roundtrip_datagram (i : DatagramIn) (wf : DatagramWF i) (rest : List Nat) :
    ∃ v, decodeDatagram (encodeDatagram i ++ rest) = .ok (v, rest) ∧ v.toIn = i ∧ v.header = encDatagramHeader i := by
  obtain ⟨s1, s2, s3, s4⟩ := header_slices (encDatagramFixed i) i.appHeader i.controlData
    (i.payload ++ (i.authTag ++ rest))
  have hcd : (if i.nect.isSome then i.controlData else []) = i.controlData := by
    cases hn : i.nect with
    | none => simp [wf.cdOnlyAck hn]
    | some x => simp
  have hh : encDatagramHeader i = encDatagramFixed i ++ i.appHeader ++ i.controlData := by
    unfold encDatagramHeader; rw [hcd]
  have hb : encodeDatagram i ++ rest
      = encDatagramFixed i ++ (i.appHeader ++ (i.controlData ++ (i.payload ++ (i.authTag ++ rest)))) := by
    simp [encodeDatagram, hh]
  have hs := datagramTagBits_spec i.pn.isSome (decide (i.appHeader.length > 0)) i.nect.isSome i.keyPhase
  rw [← datagramTagOf_eq] at hs
  obtain ⟨_, _, h3, _, _, h6⟩ := hs
  unfold decodeDatagram
  rw [hb, peekDatagram_enc i wf]
  simp only [bind, Except.bind, pure, Except.pure, pSkip_append _ _ _ rfl, s1, s2, s3, s4,
    pBytes_append _ _ _ rfl, pBytes_append _ _ _ wf.tag]
  refine ⟨_, rfl, ?_, hh.symm⟩
  simp only [DatagramView.toIn, h3, h6]
  cases i with
  | mk kp creds port pn nect ah cd pl tg => cases pn <;> simp

/-! ### stream round trip -/

theorem pRetransmission_enc (rel : Bool) (pn off : Nat) (r : List Nat) (ho : off < 4294967296)
    (hs : pn + off ≤ VarInt.maxValue) (hz : rel = false → off = 0) :
    pRetransmission rel pn ((if rel then beBytes 4 off else []) ++ r) = .ok (pn + off, r) := by
  cases rel with
  | false => simp [pRetransmission, hz rfl]
  | true =>
    have : ¬ pn + off > VarInt.maxValue := by omega
    simp [pRetransmission, pU32_be off r ho, this]

/-- position of the 4-byte retransmission offset field (`retransmission_packet_number_offset`, a `u8`) -/
def rpnOffsetOf (i : StreamIn) : Nat :=
  ([streamTagOf i] ++ encCreds i.creds ++ [0] ++ [0, 0] ++ VarInt.encode i.streamId.toVarint
    ++ encOptVarint i.sourceQueueId ++ VarInt.encode i.pn).length % 256

theorem peekStream_enc (i : StreamIn) (wf : StreamWF i) (tail : List Nat) :
    peekStream (encStreamFixed i ++ tail)
      = .ok (⟨streamTagOf i, i.creds, 0, i.sourceQueueId, i.streamId, i.pn, i.pn + i.relOffset, rpnOffsetOf i, i.nect,
              i.offset, i.finalOffset, (encStreamFixed i).length, i.appHeader.length, i.controlData.length,
              i.payload.length⟩, tail) := by
  have hs := streamTagBits_spec i.keyPhase (decide (i.controlData.length > 0)) i.finalOffset.isSome
      (decide (i.appHeader.length > 0)) i.sourceQueueId.isSome i.recovery
  rw [← streamTagOf_eq] at hs
  obtain ⟨h1, h2, _, hcd, hfin, hah, hsq, _⟩ := hs
  obtain ⟨oa, hoa, hoad⟩ := pOptVarint_len i.appHeader.length tail wf.ah
  obtain ⟨oc, hoc, hocd⟩ := pOptVarint_len i.controlData.length
    (VarInt.encode i.payload.length ++ ((if i.appHeader.length > 0 then VarInt.encode i.appHeader.length else []) ++ tail)) wf.cd
  unfold peekStream rpnOffsetOf
  rw [show encStreamFixed i = [streamTagOf i] ++ encCreds i.creds ++ [0] ++ [0, 0]
    ++ VarInt.encode i.streamId.toVarint ++ encOptVarint i.sourceQueueId
    ++ VarInt.encode i.pn
    ++ (if i.streamId.reliable then beBytes 4 i.relOffset else [])
    ++ VarInt.encode i.nect ++ VarInt.encode i.offset ++ encOptVarint i.finalOffset
    ++ (if i.controlData.length > 0 then VarInt.encode i.controlData.length else [])
    ++ VarInt.encode i.payload.length
    ++ (if i.appHeader.length > 0 then VarInt.encode i.appHeader.length else []) from rfl]
  simp only [List.append_assoc, List.cons_append, List.nil_append, bind, Except.bind, pure, Except.pure,
    pTagIn_ok _ _ _ _ h1 h2, pCreds_enc _ _ wf.id wf.kid, pWireVersion_zero, pU16_zero, pStreamId_enc _ _ wf.sid,
    hcd, hfin, hah, hsq, pOptVarint_enc _ _ wf.sq, pVarint_encode _ _ wf.pn,
    pRetransmission_enc _ _ _ _ wf.rel wf.rpn wf.relOnlyReliable, pVarint_encode _ _ wf.nect, pVarint_encode _ _ wf.off,
    pOptVarint_enc _ _ wf.fin, hoc, hocd, pVarint_encode _ _ wf.pl, hoa, hoad]
  simp only [List.length_append, List.length_cons, Except.ok.injEq, Prod.mk.injEq, and_true, StreamPeek.mk.injEq, true_and]
  omega

theorem roundtrip_stream (i : StreamIn) (wf : StreamWF i) (rest : List Nat) :
    ∃ v, decodeStream (encodeStream i ++ rest) = .ok (v, rest) ∧ v.toIn = i ∧ v.header = encStreamHeader i := by
  obtain ⟨s1, s2, s3, s4⟩ := header_slices (encStreamFixed i) i.appHeader i.controlData
    (i.payload ++ (i.authTag ++ rest))
  have hb : encodeStream i ++ rest
      = encStreamFixed i ++ (i.appHeader ++ (i.controlData ++ (i.payload ++ (i.authTag ++ rest)))) := by
    simp [encodeStream, encStreamHeader]
  have t1 : (i.authTag ++ rest).take tagLen = i.authTag := by rw [← wf.tag, take_append_len]
  have t2 : (i.authTag ++ rest).drop tagLen = rest := by rw [← wf.tag, drop_append_len]
  have hs := streamTagBits_spec i.keyPhase (decide (i.controlData.length > 0)) i.finalOffset.isSome
      (decide (i.appHeader.length > 0)) i.sourceQueueId.isSome i.recovery
  rw [← streamTagOf_eq] at hs
  obtain ⟨_, _, hkp, _, _, _, _, hrec⟩ := hs
  unfold decodeStream
  rw [hb, peekStream_enc i wf]
  simp only [bind, Except.bind, pure, Except.pure, pSkip_append _ _ _ rfl, pSkip_append _ _ _ wf.tag, s1, s2, s3, s4,
    take_append_len, drop_append_len, t1, t2]
  refine ⟨_, rfl, ?_, rfl⟩
  simp only [StreamView.toIn, hkp, hrec, Nat.add_sub_cancel_left]

end Quic.Proofs.DcPackets
