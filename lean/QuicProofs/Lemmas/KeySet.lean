import QuicModel.Conn.KeySet
/-
  Helper lemmas for C15 (single endpoint): closed forms of the three operations, the structural
  invariants and their preservation. The property theorems are in Props/C15KeySet.lean.
-/
namespace Quic.Proofs.KeySetLemmas
open Quic.Conn.KeySet

/-! ### slots -/

@[simp] theorem setSlot_phase (s : State) (p : Bool) (k : Slot) : (s.setSlot p k).phase = s.phase := by
  cases p <;> rfl
@[simp] theorem setSlot_timer (s : State) (p : Bool) (k : Slot) : (s.setSlot p k).timer = s.timer := by
  cases p <;> rfl
@[simp] theorem setSlot_window (s : State) (p : Bool) (k : Slot) : (s.setSlot p k).window = s.window := by
  cases p <;> rfl
@[simp] theorem setSlot_failures (s : State) (p : Bool) (k : Slot) : (s.setSlot p k).failures = s.failures := by
  cases p <;> rfl
@[simp] theorem setSlot_integrityLimit (s : State) (p : Bool) (k : Slot) :
    (s.setSlot p k).integrityLimit = s.integrityLimit := by
  cases p <;> rfl
@[simp] theorem slot_setSlot_same (s : State) (p : Bool) (k : Slot) : (s.setSlot p k).slot p = k := by
  cases p <;> rfl
@[simp] theorem slot_setSlot_not (s : State) (p : Bool) (k : Slot) : (s.setSlot p k).slot (!p) = s.slot (!p) := by
  cases p <;> rfl
@[simp] theorem slot_setSlot_not' (s : State) (p : Bool) (k : Slot) : (s.setSlot (!p) k).slot p = s.slot p := by
  cases p <;> rfl

@[simp] theorem active_setSlot_phase (s : State) (k : Slot) : (s.setSlot s.phase k).active = k := by
  simp [State.active]
@[simp] theorem other_setSlot_phase (s : State) (k : Slot) : (s.setSlot s.phase k).other = s.other := by
  simp [State.other]
@[simp] theorem active_setSlot_not (s : State) (k : Slot) : (s.setSlot (!s.phase) k).active = s.active := by
  simp [State.active]
@[simp] theorem other_setSlot_not (s : State) (k : Slot) : (s.setSlot (!s.phase) k).other = k := by
  simp [State.other]

theorem slot_cases (s : State) (p : Bool) : (p = s.phase ∧ s.slot p = s.active) ∨ (p = (!s.phase) ∧ s.slot p = s.other) := by
  cases p <;> cases h : s.phase <;> simp [State.active, State.other, h]

/-! ### closed forms of the operations -/

/-- the state after `rotate_phase(); set_derivation_timer(pto)` -/
def rotate (s : State) (pto : Nat) : State :=
  { s with generation := s.generation + 1, phase := !s.phase, timer := some pto }

@[simp] theorem rotate_active (s : State) (pto : Nat) : (rotate s pto).active = s.other := rfl
@[simp] theorem rotate_other (s : State) (pto : Nat) : (rotate s pto).other = s.active := by
  simp [rotate, State.other, State.active, State.slot]
@[simp] theorem rotate_timer (s : State) (pto : Nat) : (rotate s pto).timer = some pto := rfl
@[simp] theorem rotate_window (s : State) (pto : Nat) : (rotate s pto).window = s.window := rfl
@[simp] theorem rotate_slot0 (s : State) (pto : Nat) : (rotate s pto).slot0 = s.slot0 := rfl
@[simp] theorem rotate_slot1 (s : State) (pto : Nat) : (rotate s pto).slot1 = s.slot1 := rfl
@[simp] theorem rotate_failures (s : State) (pto : Nat) : (rotate s pto).failures = s.failures := rfl
@[simp] theorem rotate_integrityLimit (s : State) (pto : Nat) : (rotate s pto).integrityLimit = s.integrityLimit := rfl

/-- the state after a failed authentication -/
def failed (s : State) : State := { s with failures := s.failures + 1 }

@[simp] theorem failed_active (s : State) : (failed s).active = s.active := rfl
@[simp] theorem failed_other (s : State) : (failed s).other = s.other := rfl
@[simp] theorem failed_timer (s : State) : (failed s).timer = s.timer := rfl
@[simp] theorem failed_window (s : State) : (failed s).window = s.window := rfl
@[simp] theorem failed_slot0 (s : State) : (failed s).slot0 = s.slot0 := rfl
@[simp] theorem failed_slot1 (s : State) : (failed s).slot1 = s.slot1 := rfl
@[simp] theorem failed_phase (s : State) : (failed s).phase = s.phase := rfl
@[simp] theorem failed_failures (s : State) : (failed s).failures = s.failures + 1 := rfl
@[simp] theorem failed_integrityLimit (s : State) : (failed s).integrityLimit = s.integrityLimit := rfl

/-- ideal AEAD: does a packet sealed with `g` under phase bit `ph` open at `s`? -/
def opens (s : State) (ph : Bool) (g : Option Nat) : Bool := g == some (s.slot ph).keyGen

/-- `decrypt_packet` always selects the slot named by the packet's phase bit: the
    `pn < largest_acked` test of the pinned code has no effect (`phase_to_use ^= phase_switch`
    already is the packet's phase). -/
theorem decrypt_eq (r : Repairs) (s : State) (ph : Bool) (g : Option Nat) (pn la pto : Nat) :
    decrypt r s ph g pn la pto =
      if opens s ph g then
        if ph != s.phase && !(r.rotateOnlyIfNoUpdateInProgress && s.updateInProgress) then
          if s.generation + 1 > generationMax then (s, .generationOverflow)
          else (rotate s pto, .rotated (s.generation + 1))
        else (s, .same)
      else
        if integrityReached (s.failures + 1) s.integrityLimit then (failed s, .aeadLimit)
        else (failed s, .decryptError) := by
  have h : (if (s.updateInProgress && (s.phase != ph)) = true then (if pn < la then ph else (s.phase ^^ (s.phase != ph)))
      else (s.phase ^^ (s.phase != ph))) = ph := by
    cases s.phase <;> cases ph <;> simp
  simp only [decrypt, h]
  rfl

/-- the slot `encrypt` uses next: the other slot iff `encryption_phase()` is the next phase -/
def usesOther (r : Repairs) (s : State) : Bool :=
  s.active.needsUpdate s.window && !(r.noInitiateWhileUpdateInProgress && s.updateInProgress)

def bump (k : Slot) : Slot := { k with encrypted := k.encrypted + 1 }

theorem encrypt_eq (r : Repairs) (s : State) :
    encrypt r s =
      if usesOther r s then
        if s.other.expired then (s, .aeadLimit)
        else (s.setSlot (!s.phase) (bump s.other), .sealed (!s.phase) s.other.keyGen)
      else
        if s.active.expired then (s, .aeadLimit)
        else (s.setSlot s.phase (bump s.active), .sealed s.phase s.active.keyGen) := by
  unfold encrypt State.encryptionPhase usesOther
  by_cases h : (s.active.needsUpdate s.window && !(r.noInitiateWhileUpdateInProgress && s.updateInProgress)) = true
  · simp only [h, if_true]; rfl
  · simp only [h]; rfl

/-- the state after `Timer::cancel` -/
def disarm (s : State) : State := { s with timer := none }

@[simp] theorem disarm_active (s : State) : (disarm s).active = s.active := rfl
@[simp] theorem disarm_other (s : State) : (disarm s).other = s.other := rfl
@[simp] theorem disarm_timer (s : State) : (disarm s).timer = none := rfl
@[simp] theorem disarm_window (s : State) : (disarm s).window = s.window := rfl
@[simp] theorem disarm_slot0 (s : State) : (disarm s).slot0 = s.slot0 := rfl
@[simp] theorem disarm_slot1 (s : State) : (disarm s).slot1 = s.slot1 := rfl
@[simp] theorem disarm_phase (s : State) : (disarm s).phase = s.phase := rfl
@[simp] theorem disarm_failures (s : State) : (disarm s).failures = s.failures := rfl
@[simp] theorem disarm_integrityLimit (s : State) : (disarm s).integrityLimit = s.integrityLimit := rfl

@[simp] theorem disarm_setSlot_active (s : State) (k : Slot) : ((disarm s).setSlot (!s.phase) k).active = s.active :=
  active_setSlot_not (disarm s) k
@[simp] theorem disarm_setSlot_other (s : State) (k : Slot) : ((disarm s).setSlot (!s.phase) k).other = k :=
  other_setSlot_not (disarm s) k

/-- the freshly derived key `limited::Key::new(active.derive_next_key())` -/
def nextKey (s : State) : Slot := ⟨s.active.keyGen + 1, 0, s.active.limit⟩

theorem timeout_eq (s : State) (now : Nat) :
    timeout s now =
      match s.timer with
      | some d => if timerExpired d now then (disarm s).setSlot (!(disarm s).phase) (nextKey s) else s
      | none => s := by
  unfold timeout
  cases s.timer <;> rfl

/-! ### well-formedness (every repair setting) -/

structure WF (c : Nat) (s : State) : Prop where
  lim0 : s.slot0.limit = c
  lim1 : s.slot1.limit = c
  cap0 : s.slot0.encrypted ≤ c
  cap1 : s.slot1.encrypted ≤ c
  par0 : s.slot0.keyGen % 2 = 0
  par1 : s.slot1.keyGen % 2 = 1

theorem wf_init (c i w : Nat) : WF c (init c i w) := ⟨rfl, rfl, Nat.zero_le _, Nat.zero_le _, rfl, rfl⟩

theorem WF.slot_limit {c : Nat} {s : State} (h : WF c s) (p : Bool) : (s.slot p).limit = c := by
  cases p <;> simp [State.slot, h.lim0, h.lim1]

theorem WF.slot_cap {c : Nat} {s : State} (h : WF c s) (p : Bool) : (s.slot p).encrypted ≤ c := by
  cases p <;> simp [State.slot, h.cap0, h.cap1]

/-- slot `p` holds a key whose generation has parity `p` -/
theorem WF.slot_par {c : Nat} {s : State} (h : WF c s) (p : Bool) : (s.slot p).keyGen % 2 = (if p then 1 else 0) := by
  cases p <;> simp [State.slot, h.par0, h.par1]

theorem WF.setSlot {c : Nat} {s : State} (h : WF c s) (p : Bool) (k : Slot)
    (hl : k.limit = c) (hc : k.encrypted ≤ c) (hp : k.keyGen % 2 = (s.slot p).keyGen % 2) : WF c (s.setSlot p k) := by
  obtain ⟨l0, l1, c0, c1, p0, p1⟩ := h
  cases p
  · have hp' : k.keyGen % 2 = s.slot0.keyGen % 2 := hp
    exact ⟨hl, l1, hc, c1, (by show k.keyGen % 2 = 0; omega), p1⟩
  · have hp' : k.keyGen % 2 = s.slot1.keyGen % 2 := hp
    exact ⟨l0, hl, c0, hc, p0, (by show k.keyGen % 2 = 1; omega)⟩

theorem WF.of_slots {c : Nat} {s s' : State} (h : WF c s) (h0 : s'.slot0 = s.slot0) (h1 : s'.slot1 = s.slot1) : WF c s' := by
  obtain ⟨l0, l1, c0, c1, p0, p1⟩ := h
  exact ⟨h0 ▸ l0, h1 ▸ l1, h0 ▸ c0, h1 ▸ c1, h0 ▸ p0, h1 ▸ p1⟩

theorem WF.active_limit {c : Nat} {s : State} (h : WF c s) : s.active.limit = c := h.slot_limit _
theorem WF.other_limit {c : Nat} {s : State} (h : WF c s) : s.other.limit = c := h.slot_limit _
theorem WF.active_cap {c : Nat} {s : State} (h : WF c s) : s.active.encrypted ≤ c := h.slot_cap _
theorem WF.other_cap {c : Nat} {s : State} (h : WF c s) : s.other.encrypted ≤ c := h.slot_cap _

/-- the two slots never hold the same generation (their parities differ) -/
theorem WF.active_ne_other {c : Nat} {s : State} (h : WF c s) : s.active.keyGen ≠ s.other.keyGen := by
  have a := h.slot_par s.phase
  have b := h.slot_par (!s.phase)
  unfold State.active State.other
  cases hp : s.phase <;> simp [hp] at a b ⊢ <;> omega

theorem wf_encrypt (r : Repairs) {c : Nat} {s : State} (h : WF c s) : WF c (encrypt r s).1 := by
  rw [encrypt_eq]
  split
  · split
    · exact h
    · rename_i he
      refine h.setSlot _ _ h.other_limit ?_ rfl
      have := h.other_limit; have := h.other_cap
      simp [Slot.expired] at he
      simp [bump]; omega
  · split
    · exact h
    · rename_i he
      refine h.setSlot _ _ h.active_limit ?_ rfl
      have := h.active_limit; have := h.active_cap
      simp [Slot.expired] at he
      simp [bump]; omega

theorem wf_decrypt (r : Repairs) {c : Nat} {s : State} (h : WF c s) (ph : Bool) (g : Option Nat) (pn la pto : Nat) :
    WF c (decrypt r s ph g pn la pto).1 := by
  rw [decrypt_eq]
  repeat' split
  all_goals first | exact h | exact h.of_slots rfl rfl

theorem wf_timeout {c : Nat} {s : State} (h : WF c s) (now : Nat) : WF c (timeout s now) := by
  rw [timeout_eq]
  split
  · split
    · have h' : WF c (disarm s) := h.of_slots rfl rfl
      refine h'.setSlot _ _ h.active_limit (Nat.zero_le _) ?_
      have a := h.slot_par s.phase
      have b := h.slot_par (!s.phase)
      show (s.active.keyGen + 1) % 2 = (s.slot (!s.phase)).keyGen % 2
      unfold State.active
      cases hp : s.phase <;> simp [hp] at a b ⊢ <;> omega
    · exact h
  · exact h

theorem wf_step (r : Repairs) {c : Nat} {s : State} (h : WF c s) (op : Op) : WF c (step r s op).1 := by
  cases op with
  | encrypt => exact wf_encrypt r h
  | decrypt ph g pn la pto => exact wf_decrypt r h ph g pn la pto
  | timeout now => exact wf_timeout h now

theorem wf_run (r : Repairs) {c : Nat} (ops : List Op) {s : State} (log : List Nat) (h : WF c s) :
    WF c (run r (s, log) ops).1 := by
  induction ops generalizing s log with
  | nil => exact h
  | cons op ops ih => exact ih _ (wf_step r h op)

/-! ### the invariant that the repaired rotate guard (F5) maintains

  `log` is the ghost log of the generations sealed so far. -/

structure Inv (c : Nat) (s : State) (log : List Nat) : Prop where
  wf : WF c s
  /-- while the derivation timer is armed the other slot still holds the previous key -/
  armed_gen : s.timer.isSome = true → s.active.keyGen = s.other.keyGen + 1
  /-- otherwise it holds the next key -/
  idle_gen : s.timer = none → s.other.keyGen = s.active.keyGen + 1
  /-- the per-slot counters count exactly the packets sealed under the slot's generation -/
  cntA : log.count s.active.keyGen = s.active.encrypted
  cntO : log.count s.other.keyGen = s.other.encrypted
  /-- generations beyond the two slots have not been used -/
  fresh : ∀ g, s.active.keyGen < g → s.other.keyGen < g → log.count g = 0
  capped : ∀ g, log.count g ≤ c

theorem inv_init (c i w : Nat) : Inv c (init c i w) [] :=
  ⟨wf_init c i w, by simp [init], by intro; rfl, rfl, rfl, by simp, by simp⟩

theorem inv_seal_other {c : Nat} {s : State} {log : List Nat} (h : Inv c s log) (hexp : ¬ s.other.expired = true)
    (hwf : WF c (s.setSlot (!s.phase) (bump s.other))) :
    Inv c (s.setSlot (!s.phase) (bump s.other)) (s.other.keyGen :: log) := by
  have hne := h.wf.active_ne_other
  obtain ⟨wf, hag, hig, hca, hco, hfr, hcap⟩ := h
  have hlt : s.other.encrypted < c := by
    have := wf.other_limit; simp [Slot.expired] at hexp; omega
  refine ⟨hwf, by simpa [bump] using hag, by simpa [bump] using hig, ?_, ?_, ?_, ?_⟩
  · simp [List.count_cons, hca]; omega
  · simp [hco, bump]
  · intro g h1 h2
    simp [bump] at h1 h2
    simp [List.count_cons, hfr g h1 h2]; omega
  · intro g
    simp only [List.count_cons]
    by_cases hg : s.other.keyGen = g
    · subst hg; simp [hco]; omega
    · have := hcap g; simp [hg]; omega

theorem inv_seal_active {c : Nat} {s : State} {log : List Nat} (h : Inv c s log) (hexp : ¬ s.active.expired = true)
    (hwf : WF c (s.setSlot s.phase (bump s.active))) :
    Inv c (s.setSlot s.phase (bump s.active)) (s.active.keyGen :: log) := by
  have hne := h.wf.active_ne_other
  obtain ⟨wf, hag, hig, hca, hco, hfr, hcap⟩ := h
  have hlt : s.active.encrypted < c := by
    have := wf.active_limit; simp [Slot.expired] at hexp; omega
  refine ⟨hwf, by simpa [bump] using hag, by simpa [bump] using hig, ?_, ?_, ?_, ?_⟩
  · simp [hca, bump]
  · simp [List.count_cons, hco]; omega
  · intro g h1 h2
    simp [bump] at h1 h2
    simp [List.count_cons, hfr g h1 h2]; omega
  · intro g
    simp only [List.count_cons]
    by_cases hg : s.active.keyGen = g
    · subst hg; simp [hca]; omega
    · have := hcap g; simp [hg]; omega

theorem inv_encrypt (r : Repairs) {c : Nat} {s : State} {log : List Nat} (h : Inv c s log) :
    Inv c (encrypt r s).1 ((Out.enc (encrypt r s).2).addTo log) := by
  have hwf := wf_encrypt r h.wf
  rw [encrypt_eq] at hwf ⊢
  by_cases hu : usesOther r s = true <;> simp only [hu, if_true, if_false, Bool.false_eq_true] at hwf ⊢
  · by_cases hexp : s.other.expired = true <;> simp only [hexp, if_true, if_false, Bool.false_eq_true] at hwf ⊢
    · exact h
    · exact inv_seal_other h hexp hwf
  · by_cases hexp : s.active.expired = true <;> simp only [hexp, if_true, if_false, Bool.false_eq_true] at hwf ⊢
    · exact h
    · exact inv_seal_active h hexp hwf

theorem inv_rotate {c : Nat} {s : State} {log : List Nat} (h : Inv c s log) (hidle : s.timer = none) (pto : Nat) :
    Inv c (rotate s pto) log := by
  obtain ⟨wf, hag, hig, hca, hco, hfr, hcap⟩ := h
  refine ⟨wf.of_slots rfl rfl, ?_, by simp, by simpa using hco, by simpa using hca, ?_, hcap⟩
  · intro _; simpa using hig hidle
  · intro g h1 h2; simp at h1 h2; exact hfr g h2 h1

theorem inv_failed {c : Nat} {s : State} {log : List Nat} (h : Inv c s log) : Inv c (failed s) log := by
  obtain ⟨wf, hag, hig, hca, hco, hfr, hcap⟩ := h
  exact ⟨wf.of_slots rfl rfl, hag, hig, hca, hco, hfr, hcap⟩

theorem inv_decrypt (r : Repairs) (hr : r.rotateOnlyIfNoUpdateInProgress = true) {c : Nat} {s : State} {log : List Nat}
    (h : Inv c s log) (ph : Bool) (g : Option Nat) (pn la pto : Nat) :
    Inv c (decrypt r s ph g pn la pto).1 log := by
  rw [decrypt_eq]
  by_cases ho : opens s ph g = true <;> simp only [ho, if_true, if_false, Bool.false_eq_true]
  · by_cases hrot : (ph != s.phase && !(r.rotateOnlyIfNoUpdateInProgress && s.updateInProgress)) = true <;>
      simp only [hrot, if_true, if_false, Bool.false_eq_true]
    · split
      · exact h
      · refine inv_rotate h ?_ pto
        simp [hr, State.updateInProgress] at hrot
        exact hrot.2
    · exact h
  · split <;> exact inv_failed h

theorem inv_timeout {c : Nat} {s : State} {log : List Nat} (h : Inv c s log) (now : Nat) :
    Inv c (timeout s now) log := by
  have hwf := wf_timeout h.wf now
  rw [timeout_eq] at hwf ⊢
  cases ht : s.timer with
  | none => simpa [ht] using h
  | some d =>
    simp only [ht] at hwf ⊢
    by_cases he : timerExpired d now = true <;> simp only [he, if_true, if_false, Bool.false_eq_true] at hwf ⊢
    · obtain ⟨wf, hag, hig, hca, hco, hfr, hcap⟩ := h
      have ha := hag (by simp [ht])
      refine ⟨hwf, by simp, ?_, ?_, ?_, ?_, hcap⟩
      · intro _; simp [nextKey]
      · simpa using hca
      · simp only [disarm_phase, disarm_setSlot_other, nextKey]
        exact hfr _ (by omega) (by omega)
      · intro g h1 h2
        simp [nextKey] at h1 h2
        exact hfr g h1 (by omega)
    · exact h

theorem inv_step (r : Repairs) (hr : r.rotateOnlyIfNoUpdateInProgress = true) {c : Nat} {s : State} {log : List Nat}
    (h : Inv c s log) (op : Op) : Inv c (step r s op).1 ((step r s op).2.addTo log) := by
  cases op with
  | encrypt => exact inv_encrypt r h
  | decrypt ph g pn la pto => exact inv_decrypt r hr h ph g pn la pto
  | timeout now => exact inv_timeout h now

theorem inv_run (r : Repairs) (hr : r.rotateOnlyIfNoUpdateInProgress = true) {c : Nat} (ops : List Op) {s : State}
    {log : List Nat} (h : Inv c s log) : Inv c (run r (s, log) ops).1 (run r (s, log) ops).2 := by
  induction ops generalizing s log with
  | nil => exact h
  | cons op ops ih => exact ih (inv_step r hr h op)

/-! ### generations are monotone in the sealing order (both repairs) -/

/-- the generation the next `encrypt` of the fully repaired model seals with -/
def emitGen (s : State) : Nat :=
  if s.active.needsUpdate s.window && s.timer.isNone then s.active.keyGen + 1 else s.active.keyGen

theorem le_emitGen (s : State) : s.active.keyGen ≤ emitGen s := by
  unfold emitGen; split <;> omega

theorem emitGen_le (s : State) : emitGen s ≤ s.active.keyGen + 1 := by
  unfold emitGen; split <;> omega

structure Mono (s : State) (log : List Nat) : Prop where
  bound : ∀ g ∈ log, g ≤ emitGen s
  sorted : log.Pairwise (· ≥ ·)

theorem Mono.weaken {s s' : State} {log : List Nat} (h : Mono s log) (hle : emitGen s ≤ emitGen s') : Mono s' log :=
  ⟨fun g hg => Nat.le_trans (h.bound g hg) hle, h.sorted⟩

theorem Mono.cons {s s' : State} {log : List Nat} (h : Mono s log) (g : Nat) (h1 : emitGen s ≤ g) (h2 : g ≤ emitGen s') :
    Mono s' (g :: log) := by
  refine ⟨?_, ?_⟩
  · intro x hx
    cases hx with
    | head => exact h2
    | tail _ hx => exact Nat.le_trans (Nat.le_trans (h.bound x hx) h1) h2
  · exact List.Pairwise.cons (fun x hx => Nat.le_trans (h.bound x hx) h1) h.sorted

theorem usesOther_full (s : State) : usesOther Repairs.full s = (s.active.needsUpdate s.window && s.timer.isNone) := by
  unfold usesOther Repairs.full State.updateInProgress
  cases s.timer <;> simp

theorem mono_encrypt {c : Nat} {s : State} {log : List Nat} (hi : Inv c s log) (h : Mono s log) :
    Mono (encrypt Repairs.full s).1 ((Out.enc (encrypt Repairs.full s).2).addTo log) := by
  rw [encrypt_eq]
  by_cases hu : usesOther Repairs.full s = true <;> simp only [hu, if_true, if_false, Bool.false_eq_true]
  · by_cases hexp : s.other.expired = true <;> simp only [hexp, if_true, if_false, Bool.false_eq_true]
    · exact h
    · have hu' := hu
      rw [usesOther_full] at hu'
      have hidle : s.timer = none := by
        simp at hu'; exact hu'.2
      have hg := hi.idle_gen hidle
      have e : emitGen s = s.other.keyGen := by
        unfold emitGen; rw [hu']; simp [hg]
      show Mono _ (s.other.keyGen :: log)
      refine h.cons _ (by omega) ?_
      have e' : emitGen (s.setSlot (!s.phase) (bump s.other)) = emitGen s := by
        unfold emitGen; simp
      omega
  · by_cases hexp : s.active.expired = true <;> simp only [hexp, if_true, if_false, Bool.false_eq_true]
    · exact h
    · have hu' := hu
      rw [usesOther_full] at hu'
      have e : emitGen s = s.active.keyGen := by
        unfold emitGen; simp only [hu']; simp
      show Mono _ (s.active.keyGen :: log)
      refine h.cons _ (by omega) ?_
      have := le_emitGen (s.setSlot s.phase (bump s.active))
      simpa [bump] using this


theorem mono_decrypt {c : Nat} {s : State} {log : List Nat} (hi : Inv c s log) (h : Mono s log)
    (ph : Bool) (g : Option Nat) (pn la pto : Nat) :
    Mono (decrypt Repairs.full s ph g pn la pto).1 log := by
  rw [decrypt_eq]
  by_cases ho : opens s ph g = true <;> simp only [ho, if_true, if_false, Bool.false_eq_true]
  · by_cases hrot : (ph != s.phase && !(Repairs.full.rotateOnlyIfNoUpdateInProgress && s.updateInProgress)) = true <;>
      simp only [hrot, if_true, if_false, Bool.false_eq_true]
    · split
      · exact h
      · have hidle : s.timer = none := by
          simp [Repairs.full, State.updateInProgress] at hrot
          exact hrot.2
        refine h.weaken ?_
        show emitGen s ≤ emitGen (rotate s pto)
        have := emitGen_le s
        have hg := hi.idle_gen hidle
        have e : emitGen (rotate s pto) = s.other.keyGen := by
          unfold emitGen; simp
        omega
    · exact h
  · split <;> exact h.weaken (Nat.le_of_eq rfl)

theorem mono_timeout {s : State} {log : List Nat} (h : Mono s log) (now : Nat) :
    Mono (timeout s now) log := by
  rw [timeout_eq]
  cases ht : s.timer with
  | none => simpa [ht] using h
  | some d =>
    simp only
    by_cases he : timerExpired d now = true <;> simp only [he, if_true, if_false, Bool.false_eq_true]
    · refine h.weaken ?_
      have e : emitGen s = s.active.keyGen := by
        unfold emitGen; simp [ht]
      have := le_emitGen ((disarm s).setSlot (!(disarm s).phase) (nextKey s))
      simp only [disarm_phase, disarm_setSlot_active] at this
      simp only [disarm_phase]
      omega
    · exact h

theorem mono_step {c : Nat} {s : State} {log : List Nat} (hi : Inv c s log) (h : Mono s log) (op : Op) :
    Mono (step Repairs.full s op).1 ((step Repairs.full s op).2.addTo log) := by
  cases op with
  | encrypt => exact mono_encrypt hi h
  | decrypt ph g pn la pto => exact mono_decrypt hi h ph g pn la pto
  | timeout now => exact mono_timeout h now

theorem mono_run {c : Nat} (ops : List Op) {s : State} {log : List Nat} (hi : Inv c s log) (h : Mono s log) :
    Mono (run Repairs.full (s, log) ops).1 (run Repairs.full (s, log) ops).2 := by
  induction ops generalizing s log with
  | nil => exact h
  | cons op ops ih => exact ih (inv_step Repairs.full rfl hi op) (mono_step hi h op)


/-! ### histories on which the pinned code behaves like the repaired one -/

/-- what is assumed about one operation, only for the repairs `r` lacks:
    * no genuine old-phase packet arrives (opens) while the derivation timer is armed          (F5)
    * no packet is sealed with a key that needs an update while the derivation timer is armed  (F5b) -/
def calmOp (r : Repairs) (s : State) : Op → Prop
  | .encrypt => r.noInitiateWhileUpdateInProgress = false → s.active.needsUpdate s.window = true → s.timer = none
  | .decrypt ph g _ _ _ =>
    r.rotateOnlyIfNoUpdateInProgress = false → ph ≠ s.phase → opens s ph g = true → s.timer = none
  | .timeout _ => True

def Calm (r : Repairs) : State → List Op → Prop
  | _, [] => True
  | s, op :: ops => calmOp r s op ∧ Calm r (step r s op).1 ops

instance (r : Repairs) (s : State) (op : Op) : Decidable (calmOp r s op) := by
  cases op <;> unfold calmOp <;> infer_instance

instance decCalm (r : Repairs) : (s : State) → (ops : List Op) → Decidable (Calm r s ops)
  | _, [] => isTrue trivial
  | s, op :: ops =>
    have := decCalm r (step r s op).1 ops
    (inferInstance : Decidable (calmOp r s op ∧ Calm r (step r s op).1 ops))

theorem calm_full (s : State) (ops : List Op) : Calm Repairs.full s ops := by
  induction ops generalizing s with
  | nil => trivial
  | cons op ops ih =>
    refine ⟨?_, ih _⟩
    cases op <;> simp [calmOp, Repairs.full]

theorem step_eq_full (r : Repairs) (s : State) (op : Op) (h : calmOp r s op) : step r s op = step Repairs.full s op := by
  cases op with
  | timeout now => rfl
  | encrypt =>
    have hu : usesOther r s = usesOther Repairs.full s := by
      unfold usesOther Repairs.full State.updateInProgress
      simp only [calmOp] at h
      cases hn : r.noInitiateWhileUpdateInProgress
      · cases hnu : s.active.needsUpdate s.window
        · simp
        · simp [h hn hnu]
      · simp
    simp only [step, encrypt_eq, hu]
  | decrypt ph g pn la pto =>
    simp only [step, decrypt_eq]
    by_cases ho : opens s ph g = true <;> simp only [ho, if_true, if_false, Bool.false_eq_true]
    have hc : (ph != s.phase && !(r.rotateOnlyIfNoUpdateInProgress && s.updateInProgress))
        = (ph != s.phase && !(Repairs.full.rotateOnlyIfNoUpdateInProgress && s.updateInProgress)) := by
      simp only [calmOp] at h
      cases hn : r.rotateOnlyIfNoUpdateInProgress
      · by_cases hp : ph = s.phase
        · simp [hp]
        · simp [Repairs.full, State.updateInProgress, h hn hp ho]
      · simp [Repairs.full]
    rw [hc]

theorem run_eq_full (r : Repairs) (ops : List Op) (s : State) (log : List Nat) (h : Calm r s ops) :
    run r (s, log) ops = run Repairs.full (s, log) ops := by
  induction ops generalizing s log with
  | nil => rfl
  | cons op ops ih =>
    obtain ⟨h1, h2⟩ := h
    simp only [run]
    rw [step_eq_full r s op h1] at h2 ⊢
    exact ih _ _ h2

/-! ### the active generation never goes backwards (repaired rotate guard) -/

theorem active_gen_le_step (r : Repairs) (hr : r.rotateOnlyIfNoUpdateInProgress = true) {c : Nat} {s : State} {log : List Nat}
    (h : Inv c s log) (op : Op) : s.active.keyGen ≤ (step r s op).1.active.keyGen := by
  cases op with
  | encrypt =>
    show _ ≤ (encrypt r s).1.active.keyGen
    rw [encrypt_eq]
    repeat' split
    all_goals simp [bump]
  | timeout now =>
    show _ ≤ (timeout s now).active.keyGen
    rw [timeout_eq]
    repeat' split
    all_goals simp
  | decrypt ph g pn la pto =>
    show _ ≤ (decrypt r s ph g pn la pto).1.active.keyGen
    rw [decrypt_eq]
    by_cases ho : opens s ph g = true <;> simp only [ho, if_true, if_false, Bool.false_eq_true]
    · by_cases hrot : (ph != s.phase && !(r.rotateOnlyIfNoUpdateInProgress && s.updateInProgress)) = true <;>
        simp only [hrot, if_true, if_false, Bool.false_eq_true]
      · split
        · exact Nat.le_refl _
        · have hidle : s.timer = none := by
            simp [hr, State.updateInProgress] at hrot
            exact hrot.2
          have := h.idle_gen hidle
          simp only [rotate_active]
          omega
      · exact Nat.le_refl _
    · split <;> exact Nat.le_refl _

theorem active_gen_le_run (r : Repairs) (hr : r.rotateOnlyIfNoUpdateInProgress = true) {c : Nat} (ops : List Op) {s : State}
    {log : List Nat} (h : Inv c s log) : s.active.keyGen ≤ (run r (s, log) ops).1.active.keyGen := by
  induction ops generalizing s log with
  | nil => exact Nat.le_refl _
  | cons op ops ih =>
    exact Nat.le_trans (active_gen_le_step r hr h op) (ih (inv_step r hr h op))

/-! ### failed authentications -/

def Out.isFailure : Out → Bool
  | .dec .decryptError => true
  | .dec .aeadLimit => true
  | _ => false

/-- the failed authentications of a history, in order -/
def failuresOf (outs : List Out) : List Out := outs.filter Out.isFailure

theorem step_failures (r : Repairs) (s : State) (op : Op) :
    (step r s op).1.integrityLimit = s.integrityLimit ∧
      (if Out.isFailure (step r s op).2 then
        (step r s op).1.failures = s.failures + 1 ∧
          ((step r s op).2 = .dec .aeadLimit ↔ s.integrityLimit ≤ s.failures + 1)
      else (step r s op).1.failures = s.failures) := by
  cases op with
  | encrypt =>
    show (encrypt r s).1.integrityLimit = _ ∧ (if Out.isFailure (.enc (encrypt r s).2) then _ else (encrypt r s).1.failures = _)
    rw [encrypt_eq]
    repeat' split
    all_goals simp_all [Out.isFailure]
  | timeout now =>
    show (timeout s now).integrityLimit = _ ∧ (if Out.isFailure .tick then _ else (timeout s now).failures = _)
    rw [timeout_eq]
    repeat' split
    all_goals simp_all [Out.isFailure]
  | decrypt ph g pn la pto =>
    show (decrypt r s ph g pn la pto).1.integrityLimit = _ ∧
      (if Out.isFailure (.dec (decrypt r s ph g pn la pto).2) then
        (decrypt r s ph g pn la pto).1.failures = _ ∧ (Out.dec (decrypt r s ph g pn la pto).2 = _ ↔ _)
       else (decrypt r s ph g pn la pto).1.failures = _)
    rw [decrypt_eq]
    by_cases ho : opens s ph g = true <;> simp only [ho, if_true, if_false, Bool.false_eq_true]
    · repeat' split
      all_goals simp_all [Out.isFailure, rotate]
    · by_cases hi : integrityReached (s.failures + 1) s.integrityLimit = true <;>
        simp only [hi, if_true, if_false, Bool.false_eq_true]
      · simp [Out.isFailure]; simpa [integrityReached] using hi
      · simp [Out.isFailure]; simpa [integrityReached] using hi


theorem failures_close (r : Repairs) (ops : List Op) (s : State) (k : Nat) (o : Out)
    (h : (failuresOf (outputs r s ops))[k]? = some o) :
    o = .dec .aeadLimit ↔ s.integrityLimit ≤ s.failures + k + 1 := by
  induction ops generalizing s k with
  | nil => simp [outputs, failuresOf] at h
  | cons op ops ih =>
    obtain ⟨hl, hf⟩ := step_failures r s op
    simp only [outputs, failuresOf, List.filter_cons] at h
    by_cases hfail : Out.isFailure (step r s op).2 = true
    · simp only [hfail, if_true] at h hf
      cases k with
      | zero =>
        simp only [List.getElem?_cons_zero, Option.some.injEq] at h
        subst h
        simpa using hf.2
      | succ k =>
        simp only [List.getElem?_cons_succ] at h
        have := ih _ _ h
        rw [hl, hf.1] at this
        rw [this]; omega
    · simp only [hfail, if_false, Bool.false_eq_true] at h hf
      have := ih _ _ h
      rw [hl, hf] at this
      exact this

end Quic.Proofs.KeySetLemmas
