import QuicModel.State.Machine
/-
  Generic facts about runs of an `event!` machine (any `stp : σ → ε → Except Err σ`), by induction over the event list.
  The per-machine finite side conditions are Bool checkers over (state, event) pairs, discharged by case analysis on the
  GENERATED inductives in QuicProofs.Props.C20States.
-/
namespace Quic.Proofs.StatesLemmas
open Quic.State

deriving instance DecidableEq for Except

variable {σ ε : Type}

/-- `p s t` holds for every accepted transition `s → t` of `(s, e)` -/
def okAll (stp : σ → ε → Except Err σ) (p : σ → σ → Bool) (s : σ) (e : ε) : Bool :=
  match stp s e with
  | .ok t => p s t
  | .error _ => true

theorem okAll_spec {stp : σ → ε → Except Err σ} {p : σ → σ → Bool} (h : ∀ s e, okAll stp p s e = true)
    {s : σ} {e : ε} {t : σ} (hs : stp s e = .ok t) : p s t = true := by
  have := h s e
  simp only [okAll, hs] at this
  exact this

theorem next_eq_or_ok (stp : σ → ε → Except Err σ) (s : σ) (e : ε) :
    next (stp s e) s = s ∨ stp s e = .ok (next (stp s e) s) := by
  cases h : stp s e with
  | ok t => right; simp [next]
  | error _ => left; simp [next]

/-- a set closed under accepted transitions is closed under runs -/
theorem trace_closed {stp : σ → ε → Except Err σ} {P : σ → Bool}
    (h : ∀ s e, okAll stp (fun a b => !P a || P b) s e = true) :
    ∀ (es : List ε) (s : σ), P s = true → ∀ x ∈ trace stp s es, P x = true := by
  intro es
  induction es with
  | nil => intro s hs x hx; simp [trace] at hx; subst hx; exact hs
  | cons e es ih =>
    intro s hs x hx
    simp only [trace, List.mem_cons] at hx
    cases hx with
    | inl h1 => subst h1; exact hs
    | inr h1 =>
      apply ih (next (stp s e) s) _ x h1
      cases next_eq_or_ok stp s e with
      | inl h2 => rw [h2]; exact hs
      | inr h2 =>
        have := okAll_spec h h2
        simp [hs] at this
        exact this

theorem run_mem_trace (stp : σ → ε → Except Err σ) : ∀ (es : List ε) (s : σ), run stp s es ∈ trace stp s es := by
  intro es
  induction es with
  | nil => intro s; simp [run, trace]
  | cons e es ih => intro s; simp only [run, trace, List.mem_cons]; right; exact ih _

/-- a state that no event leaves is never left -/
theorem run_absorbing {stp : σ → ε → Except Err σ} {s : σ} (h : ∀ e, next (stp s e) s = s) :
    ∀ es : List ε, run stp s es = s := by
  intro es
  induction es with
  | nil => rfl
  | cons e es ih => simp only [run, h e]; exact ih

theorem trace_absorbing {stp : σ → ε → Except Err σ} {s : σ} (h : ∀ e, next (stp s e) s = s) :
    ∀ (es : List ε), ∀ x ∈ trace stp s es, x = s := by
  intro es
  induction es with
  | nil => intro x hx; simpa [trace] using hx
  | cons e es ih =>
    intro x hx
    simp only [trace, List.mem_cons, h e] at hx
    cases hx with
    | inl h1 => exact h1
    | inr h1 => exact ih x h1

/-- rank never decreases along a run when it does not decrease along accepted transitions -/
theorem run_rank_mono {stp : σ → ε → Except Err σ} {rank : σ → Nat}
    (h : ∀ s e, okAll stp (fun a b => decide (rank a ≤ rank b)) s e = true) :
    ∀ (es : List ε) (s : σ), rank s ≤ rank (run stp s es) := by
  intro es
  induction es with
  | nil => intro s; exact Nat.le_refl _
  | cons e es ih =>
    intro s
    simp only [run]
    apply Nat.le_trans _ (ih _)
    cases next_eq_or_ok stp s e with
    | inl h2 => rw [h2]; exact Nat.le_refl _
    | inr h2 => have := okAll_spec h h2; simpa using this

/-- number of steps of a run in which the state changed -/
def changes [DecidableEq σ] (stp : σ → ε → Except Err σ) : σ → List ε → Nat
  | _, [] => 0
  | s, e :: es => (if next (stp s e) s = s then 0 else 1) + changes stp (next (stp s e) s) es

/-- number of accepted (`Ok`) calls of a run -/
def accepted (stp : σ → ε → Except Err σ) : σ → List ε → Nat
  | _, [] => 0
  | s, e :: es => (match stp s e with | .ok _ => 1 | .error _ => 0) + accepted stp (next (stp s e) s) es

/-- strictly increasing rank: every accepted call pays one unit of rank, so a run has at most `rank (last) - rank (first)` of them -/
theorem accepted_le_rank {stp : σ → ε → Except Err σ} {rank : σ → Nat}
    (h : ∀ s e, okAll stp (fun a b => decide (rank a < rank b)) s e = true) :
    ∀ (es : List ε) (s : σ), rank s + accepted stp s es ≤ rank (run stp s es) := by
  intro es
  induction es with
  | nil => intro s; simp [accepted, run]
  | cons e es ih =>
    intro s
    simp only [accepted, run]
    have ih' := ih (next (stp s e) s)
    cases hs : stp s e with
    | ok t =>
      have := okAll_spec h hs
      simp only [decide_eq_true_eq] at this
      simp only [hs, next] at ih' ⊢
      omega
    | error _ =>
      simp only [hs, next] at ih' ⊢
      omega

theorem changes_le_accepted [DecidableEq σ] (stp : σ → ε → Except Err σ) :
    ∀ (es : List ε) (s : σ), changes stp s es ≤ accepted stp s es := by
  intro es
  induction es with
  | nil => intro s; simp [changes, accepted]
  | cons e es ih =>
    intro s
    simp only [changes, accepted]
    have ih' := ih (next (stp s e) s)
    cases hs : stp s e with
    | ok t =>
      simp only [hs, next] at ih' ⊢
      by_cases h1 : t = s
      · simp only [h1, if_true] at ih' ⊢; omega
      · simp only [h1, if_false]; omega
    | error _ => simp only [hs, next] at ih' ⊢; simp; exact ih'

/-- if `T` can only be entered from `Q`-states, a run that reaches `T` from a non-`T` state visited a `Q`-state before -/
theorem reach_requires {stp : σ → ε → Except Err σ} [DecidableEq σ] {T : σ} {Q : σ → Bool}
    (h : ∀ s e, okAll stp (fun a b => decide (b = T → a = T ∨ Q a = true)) s e = true) :
    ∀ (es : List ε) (s : σ), s ≠ T → T ∈ trace stp s es → ∃ q ∈ trace stp s es, Q q = true := by
  intro es
  induction es with
  | nil => intro s hs hT; simp [trace] at hT; exact absurd hT.symm hs
  | cons e es ih =>
    intro s hs hT
    simp only [trace, List.mem_cons] at hT ⊢
    cases hT with
    | inl h1 => exact absurd h1.symm hs
    | inr h1 =>
      by_cases hn : next (stp s e) s = T
      · cases next_eq_or_ok stp s e with
        | inl h2 => rw [h2] at hn; exact absurd hn hs
        | inr h2 =>
          have := okAll_spec h h2
          simp only [decide_eq_true_eq] at this
          cases this hn with
          | inl h3 => exact absurd h3 hs
          | inr h3 => exact ⟨s, Or.inl rfl, h3⟩
      · obtain ⟨q, hq, hQ⟩ := ih _ hn h1
        exact ⟨q, Or.inr hq, hQ⟩

end Quic.Proofs.StatesLemmas
