import QuicModel.Conn.TxPn
/-
  Helper lemmas for `txpn_*` (C08): what each block of `Conn.TxPn.transmit` / `onPacketAck` does
  to the state.
-/
namespace Quic.Proofs.TxPn
open Quic Quic.Codec Quic.Conn.TxPn

theorem next_spec {pn q : Nat} (h : PacketNumber.next pn = some q) : q = pn + 1 ∧ q ≤ PacketNumber.maxPn := by
  unfold PacketNumber.next at h
  split at h
  · cases h; omega
  · cases h

theorem probeSkip_spec {pn0 pn1 : Nat} {probe : Bool} {pto : Option Nat}
    (h : probeSkip pn0 probe = .ok (pn1, pto)) :
    (pn1 = pn0 ∧ pto = none) ∨ (pn1 = pn0 + 1 ∧ pto = some pn0) := by
  unfold probeSkip at h
  split at h
  · cases hn : PacketNumber.next pn0 with
    | none => rw [hn] at h; cases h
    | some n =>
      rw [hn] at h
      simp only [Except.ok.injEq, Prod.mk.injEq] at h
      obtain ⟨h1, h2⟩ := h
      have := next_spec hn
      right; exact ⟨by omega, h2.symm⟩
  · simp only [Except.ok.injEq, Prod.mk.injEq] at h
    left; exact ⟨h.1.symm, h.2.symm⟩

theorem optAckSkip_spec {s : State} {pn1 pn2 : Nat} {pto oa : Option Nat} {c : Bool}
    (h : optAckSkip s pn1 pto c = .ok (pn2, oa)) :
    (pn2 = pn1 ∧ oa = none) ∨ (pn2 = pn1 ∧ oa = pto ∧ pto ≠ none ∧ s.skip = none) ∨
      (pn2 = pn1 + 1 ∧ oa = some pn1 ∧ pto = none ∧ s.skip = none) := by
  unfold optAckSkip at h
  split at h
  · rename_i hc
    have hs : s.skip = none := by
      simp only [Bool.and_eq_true, shouldSkip, Option.isNone_iff_eq_none] at hc
      exact hc.2
    cases pto with
    | some sk =>
      simp only [Except.ok.injEq, Prod.mk.injEq] at h
      right; left; exact ⟨h.1.symm, h.2.symm, by simp, hs⟩
    | none =>
      simp only at h
      cases hn : PacketNumber.next pn1 with
      | none => rw [hn] at h; cases h
      | some n =>
        rw [hn] at h
        simp only [Except.ok.injEq, Prod.mk.injEq] at h
        have := next_spec hn
        right; right; exact ⟨by omega, h.2.symm, rfl, hs⟩
  · simp only [Except.ok.injEq, Prod.mk.injEq] at h
    left; exact ⟨h.1.symm, h.2.symm⟩

theorem recordSent_spec {s s' : State} {pn2 : Nat} {oa : Option Nat}
    (h : recordSent s pn2 oa = .ok s') :
    s'.next = pn2 + 1 ∧ pn2 < PacketNumber.maxPn ∧ s'.largestSentAcked = s.largestSentAcked ∧
      s'.ackedAt = s.ackedAt ∧ s'.skip = (match oa with | some sk => some sk | none => s.skip) := by
  unfold recordSent onTransmit at h
  cases hn : PacketNumber.next pn2 with
  | none => rw [hn] at h; cases h
  | some n =>
    rw [hn] at h
    have := next_spec hn
    cases oa with
    | some sk =>
      simp only [setSkip, Except.ok.injEq] at h
      subst h; exact ⟨by simp only; omega, by omega, rfl, rfl, rfl⟩
    | none =>
      simp only [Except.ok.injEq] at h
      subst h; exact ⟨by simp only; omega, by omega, rfl, rfl, rfl⟩

/-- what a transmission that puts a packet on the wire does to the state -/
theorem transmit_sent {s s' : State} {p c e : Bool} {pn : Nat}
    (h : transmit s p c e = .ok (s', some pn)) :
    s.next ≤ pn ∧ pn ≤ s.next + 2 ∧ s'.next = pn + 1 ∧ pn < PacketNumber.maxPn ∧
      s'.largestSentAcked = s.largestSentAcked ∧
      (s'.skip = s.skip ∨ ∃ sk, s'.skip = some sk ∧ s.skip = none ∧ s.next ≤ sk ∧ sk < pn) := by
  unfold transmit at h
  cases h1 : probeSkip s.next p with
  | error e => rw [h1] at h; cases h
  | ok r1 =>
    obtain ⟨pn1, pto⟩ := r1
    rw [h1] at h
    simp only at h
    cases h2 : optAckSkip s pn1 pto c with
    | error e => rw [h2] at h; cases h
    | ok r2 =>
      obtain ⟨pn2, oa⟩ := r2
      rw [h2] at h
      simp only at h
      split at h
      · cases h
      · cases h3 : recordSent s pn2 oa with
        | error e => rw [h3] at h; cases h
        | ok s2 =>
          rw [h3] at h
          simp only [Except.ok.injEq, Prod.mk.injEq, Option.some.injEq] at h
          obtain ⟨hs, hp⟩ := h
          subst hs; subst hp
          have a1 := probeSkip_spec h1
          have a2 := optAckSkip_spec h2
          obtain ⟨b1, b2, b3, _, b5⟩ := recordSent_spec h3
          refine ⟨by omega, by omega, b1, b2, b3, ?_⟩
          rcases a2 with ⟨_, ho⟩ | ⟨e2, ho, hne, hsk⟩ | ⟨e2, ho, hpn, hsk⟩
          · subst ho; left; exact b5
          · rcases a1 with ⟨_, hp0⟩ | ⟨e1, hp0⟩
            · exact absurd hp0 hne
            · subst hp0; subst ho
              right; exact ⟨s.next, b5, hsk, Nat.le_refl _, by omega⟩
          · subst ho
            right; exact ⟨pn1, b5, hsk, by omega, by omega⟩

theorem transmit_not_sent {s s' : State} {p c e : Bool}
    (h : transmit s p c e = .ok (s', none)) : s' = s := by
  unfold transmit at h
  cases h1 : probeSkip s.next p with
  | error e => rw [h1] at h; cases h
  | ok r1 =>
    obtain ⟨pn1, pto⟩ := r1
    rw [h1] at h
    simp only at h
    cases h2 : optAckSkip s pn1 pto c with
    | error e => rw [h2] at h; cases h
    | ok r2 =>
      obtain ⟨pn2, oa⟩ := r2
      rw [h2] at h
      simp only at h
      split at h
      · simp only [Except.ok.injEq, Prod.mk.injEq, and_true] at h; exact h.symm
      · cases h3 : recordSent s pn2 oa with
        | error e => rw [h3] at h; cases h
        | ok s2 => rw [h3] at h; simp at h

theorem ack_spec {s s' : State} {ts low : Nat} {a : AckSet} (h : onPacketAck s ts a low = .ok s') :
    s'.next = s.next ∧ a.largest < s.next ∧ s'.largestSentAcked = max s.largestSentAcked a.largest ∧
      (s'.skip = s.skip ∨ s'.skip = none) ∧ (∀ sk, s.skip = some sk → a.contains sk = false) := by
  unfold onPacketAck at h
  simp only at h
  split at h
  · cases h
  · rename_i hlt
    cases hsk : s.skip with
    | none =>
      rw [hsk] at h
      simp only at h
      split at h <;> (simp only [Except.ok.injEq] at h; subst h; simp only) <;>
        refine ⟨trivial, by omega, by omega, by simp, by simp⟩
    | some sk =>
      rw [hsk] at h
      simp only at h
      by_cases hc : a.contains sk = true
      · rw [if_pos hc] at h; cases h
      · rw [if_neg hc] at h
        cases hn : PacketNumber.next sk with
        | none => rw [hn] at h; cases h
        | some n =>
          rw [hn] at h
          simp only at h
          have hcf : a.contains sk = false := by simpa using hc
          split at h <;> (simp only [Except.ok.injEq] at h; subst h; simp only) <;>
            refine ⟨trivial, by omega, by omega, ?_, ?_⟩
          all_goals first
            | (intro sk' hs'; cases hs'; exact hcf)
            | (split <;> simp)
end Quic.Proofs.TxPn
