import QuicModel.Recovery.Cubic
import QuicModel.Recovery.Bbr
/-
  Helper lemmas for Props/C10Congestion.lean: one-step facts about the CUBIC and BBR skeletons.
-/
namespace Quic.Proofs.Lemmas.Cubic
open Quic.Recovery.Cubic

theorem sat32_le (x : Nat) : sat32 x ≤ x := by unfold sat32; omega
theorem sat32_le_max (x : Nat) : sat32 x ≤ u32Max := by unfold sat32; omega
theorem le_sat32 {a x : Nat} (h : a ≤ x) (ha : a ≤ u32Max) : a ≤ sat32 x := by unfold sat32; omega

/-- the window floor holds and the datagram size is a `u16` -/
def MinOk (s : State) : Prop := minimumWindow s.mds ≤ s.w ∧ s.mds ≤ u16Max

/-- hypothesis of `cubic_cwnd_ge_min_partial`: where the TCP-friendly branch is taken, `w_est` (in
    bytes) is at least the minimum window -/
def WEstOk (s : State) (op : Op) (o : Oracle) : Prop :=
  match op with
  | .ack _ _ _ => o.tcpFriendly = true → minimumWindow s.mds ≤ o.wEst
  | _ => True

theorem minw_le_u32 {mds : Nat} (h : mds ≤ u16Max) : minimumWindow mds ≤ u32Max := by
  unfold minimumWindow minWindowPackets u32Max; unfold u16Max at h; omega

theorem minw_le_initial (mds : Nat) : minimumWindow mds ≤ initialWindow mds := by
  unfold initialWindow; omega

theorem init_minOk {mds : Nat} (h : mds ≤ u16Max) : MinOk (init mds) :=
  ⟨minw_le_initial mds, h⟩

/-! ### pieces of `on_ack` -/

theorem exitRecovery_fields (s : State) (ts now : Nat) :
    (exitRecovery s ts now).w = s.w ∧ (exitRecovery s ts now).mds = s.mds ∧
    (exitRecovery s ts now).inflight = s.inflight ∧ (exitRecovery s ts now).underUtilized = s.underUtilized := by
  unfold exitRecovery
  split
  · split <;> exact ⟨rfl, rfl, rfl, rfl⟩
  · exact ⟨rfl, rfl, rfl, rfl⟩

/-- an ack of a packet sent at or before the recovery start leaves the recovery period open -/
theorem exitRecovery_stays (s : State) (ts now : Nat) {t : Nat} {fr : Bool}
    (hp : s.phase = .recovery t fr) (hts : ts ≤ t) : exitRecovery s ts now = s := by
  unfold exitRecovery
  rw [hp]
  simp only
  have : ¬ ts > t := by omega
  simp only [this, if_false]

theorem congestionAvoidance_fields (s : State) (m : Nat) (o : Oracle) :
    (congestionAvoidance s m o).mds = s.mds ∧ (congestionAvoidance s m o).inflight = s.inflight ∧
    (congestionAvoidance s m o).underUtilized = s.underUtilized := by
  unfold congestionAvoidance
  split
  · exact ⟨rfl, rfl, rfl⟩
  · split <;> exact ⟨rfl, rfl, rfl⟩

theorem congestionAvoidance_minOk (s : State) (maxCwnd : Nat) (o : Oracle)
    (h : MinOk s) (hmax : minimumWindow s.mds ≤ maxCwnd)
    (hw : o.tcpFriendly = true → minimumWindow s.mds ≤ o.wEst) :
    MinOk (congestionAvoidance s maxCwnd o) := by
  obtain ⟨hmin, hm⟩ := h
  have h32 := minw_le_u32 hm
  unfold congestionAvoidance
  split
  · rename_i htf
    have := hw htf
    exact ⟨le_sat32 (by simp only []; omega) h32, hm⟩
  · split
    · exact ⟨hmin, hm⟩
    · exact ⟨le_sat32 (by simp only []; omega) h32, hm⟩

theorem congestionAvoidance_w_le (s : State) (m : Nat) (o : Oracle) (h : s.w ≤ u32Max) :
    (congestionAvoidance s m o).w ≤ u32Max := by
  unfold congestionAvoidance
  split
  · exact sat32_le_max _
  · split
    · exact h
    · exact sat32_le_max _

theorem ackGrow_fields (s : State) (now : Nat) (o : Oracle) :
    (ackGrow s now o).mds = s.mds ∧ (ackGrow s now o).inflight = s.inflight ∧
    (ackGrow s now o).underUtilized = s.underUtilized := by
  unfold ackGrow
  split
  · split
    · exact ⟨rfl, rfl, rfl⟩
    · split <;> exact ⟨rfl, rfl, rfl⟩
  · split <;> exact ⟨rfl, rfl, rfl⟩
  · split
    · exact ⟨rfl, rfl, rfl⟩
    · exact congestionAvoidance_fields _ _ o

theorem ackGrow_minOk (s : State) (now : Nat) (o : Oracle) (h : MinOk s)
    (hw : o.tcpFriendly = true → minimumWindow s.mds ≤ o.wEst) : MinOk (ackGrow s now o) := by
  have h32 := minw_le_u32 h.2
  have hmin := h.1
  unfold ackGrow
  split
  · split
    · exact h
    · split
      · exact ⟨le_sat32 (by simp only []; omega) h32, h.2⟩
      · exact ⟨le_sat32 (by simp only []; omega) h32, h.2⟩
  · split <;> exact h
  · split
    · exact h
    · exact congestionAvoidance_minOk _ _ o ⟨hmin, h.2⟩ (Nat.le_max_right _ _) hw

theorem ackGrow_w_le (s : State) (now : Nat) (o : Oracle) (h : s.w ≤ u32Max) : (ackGrow s now o).w ≤ u32Max := by
  unfold ackGrow
  split
  · split
    · exact h
    · split <;> exact sat32_le_max _
  · split <;> exact h
  · split
    · exact h
    · exact congestionAvoidance_w_le _ _ o h

/-- in a recovery period `on_ack` does not touch window or phase -/
theorem ackGrow_in_recovery (s : State) (now : Nat) (o : Oracle) {t : Nat} {fr : Bool}
    (hp : s.phase = .recovery t fr) : ackGrow s now o = s := by
  unfold ackGrow
  rw [hp]
  simp only [ite_self]

/-! ### congestion events -/

theorem onCongestionEvent_fields (s : State) (now : Nat) (o : Oracle) :
    (onCongestionEvent s now o).mds = s.mds ∧ (onCongestionEvent s now o).inflight = s.inflight ∧
    (onCongestionEvent s now o).underUtilized = s.underUtilized := by
  unfold onCongestionEvent; split <;> exact ⟨rfl, rfl, rfl⟩

theorem onCongestionEvent_minOk (s : State) (now : Nat) (o : Oracle) (h : MinOk s) :
    MinOk (onCongestionEvent s now o) := by
  obtain ⟨hmin, hm⟩ := h
  have h32 := minw_le_u32 hm
  unfold onCongestionEvent
  split
  · exact ⟨hmin, hm⟩
  · exact ⟨le_sat32 (by simp only []; omega) h32, hm⟩

theorem onCongestionEvent_w_le (s : State) (now : Nat) (o : Oracle) (h : s.w ≤ u32Max) :
    (onCongestionEvent s now o).w ≤ u32Max := by
  unfold onCongestionEvent
  split
  · exact h
  · exact sat32_le_max _

/-- a congestion event never raises the window when `fl(cwnd * β) ≤ cwnd` -/
theorem onCongestionEvent_le (s : State) (now : Nat) (o : Oracle) (h : minimumWindow s.mds ≤ s.w) (hd : o.decrease ≤ s.w) :
    (onCongestionEvent s now o).w ≤ s.w := by
  unfold onCongestionEvent
  split
  · exact Nat.le_refl _
  · have := sat32_le (max o.decrease (minimumWindow s.mds))
    simp only []
    omega

/-- in a recovery period a congestion event changes neither window nor phase -/
theorem onCongestionEvent_in_recovery (s : State) (now : Nat) (o : Oracle) {t : Nat} {fr : Bool}
    (hp : s.phase = .recovery t fr) :
    (onCongestionEvent s now o).w = s.w ∧ (onCongestionEvent s now o).phase = .recovery t fr := by
  unfold onCongestionEvent
  rw [hp]
  exact ⟨rfl, rfl⟩

/-! ### one step -/

theorem step_minOk {s s' : State} {op : Op} {o : Oracle} (h : MinOk s) (hw : WEstOk s op o)
    (hs : step s op o = some s') : MinOk s' := by
  obtain ⟨hmin, hm⟩ := h
  cases op with
  | sent b now app =>
    simp only [step, onPacketSent] at hs
    split at hs
    · cases hs; exact ⟨hmin, hm⟩
    · split at hs
      · cases hs
      · split at hs
        · cases hs
        · cases hs; exact ⟨hmin, hm⟩
  | rtt now =>
    simp only [step, onRttUpdate] at hs
    split at hs
    · cases hs
    · split at hs <;> (cases hs; exact ⟨hmin, hm⟩)
  | ack ts b now =>
    simp only [WEstOk] at hw
    simp only [step, onAck] at hs
    split at hs
    · cases hs
    · split at hs
      · cases hs
      · split at hs
        · cases hs; exact ⟨hmin, hm⟩
        · cases hs
          have hf := exitRecovery_fields { s with inflightHi := max s.inflightHi s.inflight, inflight := s.inflight - b } ts now
          apply ackGrow_minOk
          · exact ⟨by rw [hf.1, hf.2.1]; exact hmin, by rw [hf.2.1]; exact hm⟩
          · rw [hf.2.1]; exact hw
  | lost b p now =>
    simp only [step, onPacketLost] at hs
    split at hs
    · cases hs
    · split at hs
      · cases hs
      · have hk := onCongestionEvent_minOk { s with inflight := s.inflight - b } now o ⟨hmin, hm⟩
        have hf := onCongestionEvent_fields { s with inflight := s.inflight - b } now o
        split at hs
        · cases hs; exact ⟨by simp only []; rw [hf.1]; exact Nat.le_refl _, hk.2⟩
        · cases hs; exact hk
  | ecn now =>
    simp only [step, onExplicitCongestion] at hs
    cases hs; exact onCongestionEvent_minOk s now o ⟨hmin, hm⟩
  | mtu m =>
    simp only [step, onMtuUpdate] at hs
    split at hs
    · cases hs
    · cases hs
      rename_i hm'
      have hm'' : m ≤ u16Max := by omega
      refine ⟨le_sat32 ?_ (minw_le_u32 hm''), hm''⟩
      have := minw_le_initial m
      simp only []; omega
  | discard b =>
    simp only [step, onPacketDiscarded] at hs
    split at hs
    · cases hs
    · split at hs
      · cases hs
      · cases hs; exact ⟨hmin, hm⟩

theorem run_minOk : ∀ (h : List (Op × Oracle)) (s s' : State), MinOk s → Along WEstOk s h → run s h = some s' → MinOk s'
  | [], s, s', hs, _, hr => by simp only [run] at hr; cases hr; exact hs
  | (op, o) :: rest, s, s', hs, ha, hr => by
    simp only [run] at hr
    simp only [Along] at ha
    split at hr
    · rename_i s1 h1
      rw [h1] at ha
      exact run_minOk rest s1 s' (step_minOk hs ha.1 h1) ha.2 hr
    · cases hr

/-- executable form of `Along WEstOk` (used for the non-vacuity examples) -/
def westOkB (s : State) (op : Op) (o : Oracle) : Bool :=
  match op with
  | .ack _ _ _ => !o.tcpFriendly || decide (minimumWindow s.mds ≤ o.wEst)
  | _ => true

def alongB : State → List (Op × Oracle) → Bool
  | _, [] => true
  | s, (op, o) :: rest =>
    westOkB s op o && (match step s op o with
      | some s' => alongB s' rest
      | none => true)

theorem westOk_of_b {s : State} {op : Op} {o : Oracle} (h : westOkB s op o = true) : WEstOk s op o := by
  cases op with
  | ack ts b now =>
    simp only [westOkB, Bool.or_eq_true, Bool.not_eq_true', decide_eq_true_eq] at h
    simp only [WEstOk]
    intro ht
    cases h with
    | inl h => rw [ht] at h; cases h
    | inr h => exact h
  | sent _ _ _ => trivial
  | rtt _ => trivial
  | lost _ _ _ => trivial
  | ecn _ => trivial
  | mtu _ => trivial
  | discard _ => trivial

theorem along_of_alongB : ∀ (h : List (Op × Oracle)) (s : State), alongB s h = true → Along WEstOk s h
  | [], _, _ => trivial
  | (op, o) :: rest, s, hb => by
    simp only [alongB, Bool.and_eq_true] at hb
    simp only [Along]
    refine ⟨westOk_of_b hb.1, ?_⟩
    have h2 := hb.2
    split
    · rename_i s1 h1
      rw [h1] at h2
      exact along_of_alongB rest s1 h2
    · trivial

/-! ### in-flight ledger -/

def Op.sentBytes : Op → Nat
  | .sent b _ _ => b
  | _ => 0

def Op.resolvedBytes : Op → Nat
  | .ack _ b _ => b
  | .lost b _ _ => b
  | .discard b => b
  | _ => 0

theorem step_inflight {s s' : State} {op : Op} {o : Oracle} (hs : step s op o = some s') :
    s'.inflight + Op.resolvedBytes op = s.inflight + Op.sentBytes op ∧ (s.inflight ≤ u32Max → s'.inflight ≤ u32Max) := by
  cases op with
  | sent b now app =>
    simp only [step, onPacketSent] at hs
    simp only [Op.resolvedBytes, Op.sentBytes]
    split at hs
    · cases hs; omega
    · split at hs
      · cases hs
      · split at hs
        · cases hs
        · cases hs; simp only []; omega
  | rtt now =>
    simp only [step, onRttUpdate] at hs
    simp only [Op.resolvedBytes, Op.sentBytes]
    split at hs
    · cases hs
    · split at hs <;> (cases hs; exact ⟨rfl, fun h => h⟩)
  | ack ts b now =>
    simp only [step, onAck] at hs
    simp only [Op.resolvedBytes, Op.sentBytes]
    split at hs
    · cases hs
    · split at hs
      · cases hs
      · split at hs
        · cases hs; simp only []; omega
        · cases hs
          have hf := exitRecovery_fields { s with inflightHi := max s.inflightHi s.inflight, inflight := s.inflight - b } ts now
          have hg := ackGrow_fields (exitRecovery { s with inflightHi := max s.inflightHi s.inflight, inflight := s.inflight - b } ts now) now o
          rw [hg.2.1, hf.2.2.1]; simp only []; omega
  | lost b p now =>
    simp only [step, onPacketLost] at hs
    simp only [Op.resolvedBytes, Op.sentBytes]
    split at hs
    · cases hs
    · split at hs
      · cases hs
      · have hf := onCongestionEvent_fields { s with inflight := s.inflight - b } now o
        split at hs
        · cases hs; simp only []; rw [hf.2.1]; simp only []; omega
        · cases hs; rw [hf.2.1]; simp only []; omega
  | ecn now =>
    simp only [step, onExplicitCongestion] at hs
    simp only [Op.resolvedBytes, Op.sentBytes]
    cases hs; rw [(onCongestionEvent_fields s now o).2.1]; omega
  | mtu m =>
    simp only [step, onMtuUpdate] at hs
    simp only [Op.resolvedBytes, Op.sentBytes]
    split at hs
    · cases hs
    · cases hs; exact ⟨rfl, fun h => h⟩
  | discard b =>
    simp only [step, onPacketDiscarded] at hs
    simp only [Op.resolvedBytes, Op.sentBytes]
    split at hs
    · cases hs
    · split at hs
      · cases hs
      · cases hs; simp only []; omega

/-- the window itself never exceeds `u32::MAX` (`as u32` saturates) -/
theorem step_w_le {s s' : State} {op : Op} {o : Oracle} (h : s.w ≤ u32Max) (hm : s.mds ≤ u16Max)
    (hs : step s op o = some s') : s'.w ≤ u32Max ∧ s'.mds ≤ u16Max := by
  cases op with
  | sent b now app =>
    simp only [step, onPacketSent] at hs
    split at hs
    · cases hs; exact ⟨h, hm⟩
    · split at hs
      · cases hs
      · split at hs
        · cases hs
        · cases hs; exact ⟨h, hm⟩
  | rtt now =>
    simp only [step, onRttUpdate] at hs
    split at hs
    · cases hs
    · split at hs <;> (cases hs; exact ⟨h, hm⟩)
  | ack ts b now =>
    simp only [step, onAck] at hs
    split at hs
    · cases hs
    · split at hs
      · cases hs
      · split at hs
        · cases hs; exact ⟨h, hm⟩
        · cases hs
          have hf := exitRecovery_fields { s with inflightHi := max s.inflightHi s.inflight, inflight := s.inflight - b } ts now
          have hg := ackGrow_fields (exitRecovery { s with inflightHi := max s.inflightHi s.inflight, inflight := s.inflight - b } ts now) now o
          exact ⟨ackGrow_w_le _ now o (by rw [hf.1]; exact h), by rw [hg.1, hf.2.1]; exact hm⟩
  | lost b p now =>
    simp only [step, onPacketLost] at hs
    split at hs
    · cases hs
    · split at hs
      · cases hs
      · have hf := onCongestionEvent_fields { s with inflight := s.inflight - b } now o
        split at hs
        · cases hs; exact ⟨minw_le_u32 hm, by simp only []; rw [hf.1]; exact hm⟩
        · cases hs; exact ⟨onCongestionEvent_w_le _ now o h, by rw [hf.1]; exact hm⟩
  | ecn now =>
    simp only [step, onExplicitCongestion] at hs
    cases hs
    exact ⟨onCongestionEvent_w_le _ now o h, by rw [(onCongestionEvent_fields s now o).1]; exact hm⟩
  | mtu m =>
    simp only [step, onMtuUpdate] at hs
    split at hs
    · cases hs
    · rename_i hm'
      cases hs; exact ⟨sat32_le_max _, by simp only []; omega⟩
  | discard b =>
    simp only [step, onPacketDiscarded] at hs
    split at hs
    · cases hs
    · split at hs
      · cases hs
      · cases hs; exact ⟨h, hm⟩

/-- a panic of the skeleton never depends on the oracle values -/
theorem step_none_oracle_independent (s : State) (op : Op) (o o' : Oracle) :
    step s op o = none → step s op o' = none := by
  intro h
  cases op with
  | sent b now app => exact h
  | rtt now =>
    simp only [step, onRttUpdate] at h ⊢
    split at h
    · rfl
    · split at h <;> cases h
  | ack ts b now =>
    simp only [step, onAck] at h ⊢
    split at h
    · rename_i hb; simp only [hb, if_true]
    · split at h
      · rename_i hb hi; simp only [hb, hi, if_false, if_true]
      · split at h <;> cases h
  | lost b p now =>
    simp only [step, onPacketLost] at h ⊢
    split at h
    · rename_i hb; simp only [hb, if_true]
    · split at h
      · rename_i hb hi; simp only [hb, hi, if_false, if_true]
      · split at h <;> cases h
  | ecn now => simp only [step, onExplicitCongestion] at h; cases h
  | mtu m =>
    simp only [step, onMtuUpdate] at h ⊢
    split at h
    · rename_i hb; simp only [hb, if_true]
    · cases h
  | discard b => exact h

/-! ### recovery period -/

/-- calls that cannot end a recovery period that started at `t` (nor collapse / rescale the window):
    everything except an ack for a packet sent after `t`, persistent congestion and an MTU change -/
def KeepsRecovery (t : Nat) : Op → Prop
  | .ack ts _ _ => ts ≤ t
  | .lost _ p _ => p = false
  | .mtu _ => False
  | _ => True

theorem clearFastRetransmission_recovery (t : Nat) (fr : Bool) :
    ∃ fr', (Phase.recovery t fr).clearFastRetransmission = .recovery t fr' := by
  cases fr
  · exact ⟨false, rfl⟩
  · exact ⟨false, rfl⟩

theorem step_in_recovery {s s' : State} {op : Op} {o : Oracle} {t : Nat} {fr : Bool}
    (hp : s.phase = .recovery t fr) (hk : KeepsRecovery t op) (hs : step s op o = some s') :
    s'.w = s.w ∧ ∃ fr', s'.phase = .recovery t fr' := by
  cases op with
  | sent b now app =>
    simp only [step, onPacketSent] at hs
    split at hs
    · cases hs; exact ⟨rfl, fr, hp⟩
    · split at hs
      · cases hs
      · split at hs
        · cases hs
        · cases hs
          refine ⟨rfl, ?_⟩
          simp only [hp]
          exact clearFastRetransmission_recovery t fr
  | rtt now =>
    simp only [step, onRttUpdate] at hs
    split at hs
    · cases hs
    · have : s.phase.isSlowStart = false := by rw [hp]; rfl
      simp only [this, Bool.false_and, Bool.false_eq_true, if_false] at hs
      cases hs; exact ⟨rfl, fr, hp⟩
  | ack ts b now =>
    simp only [KeepsRecovery] at hk
    simp only [step, onAck] at hs
    split at hs
    · cases hs
    · split at hs
      · cases hs
      · split at hs
        · cases hs
          refine ⟨rfl, fr, ?_⟩
          simp only [hp]; rfl
        · cases hs
          have h1 := exitRecovery_stays { s with inflightHi := max s.inflightHi s.inflight, inflight := s.inflight - b } ts now
            (t := t) (fr := fr) hp hk
          have hp1 : ({ s with inflightHi := max s.inflightHi s.inflight, inflight := s.inflight - b } : State).phase
              = .recovery t fr := hp
          rw [h1, ackGrow_in_recovery _ now o hp1]
          exact ⟨rfl, fr, hp⟩
  | lost b p now =>
    simp only [KeepsRecovery] at hk
    subst hk
    simp only [step, onPacketLost] at hs
    split at hs
    · cases hs
    · split at hs
      · cases hs
      · simp only [Bool.false_eq_true, if_false] at hs
        cases hs
        have h1 := onCongestionEvent_in_recovery { s with inflight := s.inflight - b } now o (t := t) (fr := fr) hp
        exact ⟨h1.1, fr, h1.2⟩
  | ecn now =>
    simp only [step, onExplicitCongestion] at hs
    cases hs
    have h1 := onCongestionEvent_in_recovery s now o hp
    exact ⟨h1.1, fr, h1.2⟩
  | mtu m => exact absurd hk (by simp only [KeepsRecovery, not_false_eq_true])
  | discard b =>
    simp only [step, onPacketDiscarded] at hs
    split at hs
    · cases hs
    · split at hs
      · cases hs
      · cases hs
        refine ⟨rfl, ?_⟩
        simp only [hp]
        exact clearFastRetransmission_recovery t fr

theorem run_in_recovery : ∀ (h : List (Op × Oracle)) (s s' : State) (t : Nat) (fr : Bool),
    s.phase = .recovery t fr → (∀ x ∈ h, KeepsRecovery t x.1) → run s h = some s' →
    s'.w = s.w ∧ ∃ fr', s'.phase = .recovery t fr'
  | [], s, s', t, fr, hp, _, hr => by simp only [run] at hr; cases hr; exact ⟨rfl, fr, hp⟩
  | (op, o) :: rest, s, s', t, fr, hp, hk, hr => by
    simp only [run] at hr
    split at hr
    · rename_i s1 h1
      have hk1 : KeepsRecovery t op := hk (op, o) (List.mem_cons_self ..)
      obtain ⟨hw1, fr1, hp1⟩ := step_in_recovery hp hk1 h1
      have := run_in_recovery rest s1 s' t fr1 hp1 (fun x hx => hk x (List.mem_cons_of_mem _ hx)) hr
      exact ⟨by rw [this.1, hw1], this.2⟩
    · cases hr

/-! ### application-limited -/

/-- calls between two sends that only resolve packets or sample the RTT -/
def Quiet : Op → Prop
  | .ack _ _ _ => True
  | .rtt _ => True
  | .discard _ => True
  | _ => False

theorem step_quiet_under_utilized {s s' : State} {op : Op} {o : Oracle}
    (hu : s.underUtilized = true) (hq : Quiet op) (hs : step s op o = some s') :
    s'.w = s.w ∧ s'.underUtilized = true := by
  cases op with
  | sent b now app => exact absurd hq (by simp only [Quiet, not_false_eq_true])
  | rtt now =>
    simp only [step, onRttUpdate] at hs
    split at hs
    · cases hs
    · split at hs <;> (cases hs; exact ⟨rfl, hu⟩)
  | ack ts b now =>
    simp only [step, onAck] at hs
    split at hs
    · cases hs
    · split at hs
      · cases hs
      · simp only [hu] at hs
        cases hs; exact ⟨rfl, rfl⟩
  | lost b p now => exact absurd hq (by simp only [Quiet, not_false_eq_true])
  | ecn now => exact absurd hq (by simp only [Quiet, not_false_eq_true])
  | mtu m => exact absurd hq (by simp only [Quiet, not_false_eq_true])
  | discard b =>
    simp only [step, onPacketDiscarded] at hs
    split at hs
    · cases hs
    · split at hs
      · cases hs
      · cases hs; exact ⟨rfl, hu⟩

theorem run_quiet_under_utilized : ∀ (h : List (Op × Oracle)) (s s' : State),
    s.underUtilized = true → (∀ x ∈ h, Quiet x.1) → run s h = some s' → s'.w = s.w ∧ s'.underUtilized = true
  | [], s, s', hu, _, hr => by simp only [run] at hr; cases hr; exact ⟨rfl, hu⟩
  | (op, o) :: rest, s, s', hu, hq, hr => by
    simp only [run] at hr
    split at hr
    · rename_i s1 h1
      obtain ⟨hw1, hu1⟩ := step_quiet_under_utilized hu (hq (op, o) (List.mem_cons_self ..)) h1
      have := run_quiet_under_utilized rest s1 s' hu1 (fun x hx => hq x (List.mem_cons_of_mem _ hx)) hr
      exact ⟨by rw [this.1, hw1], this.2⟩
    · cases hr

/-! ### ledger and bounds over histories -/

def sentTotal (h : List (Op × Oracle)) : Nat := (h.map (fun x => Op.sentBytes x.1)).sum
def resolvedTotal (h : List (Op × Oracle)) : Nat := (h.map (fun x => Op.resolvedBytes x.1)).sum

theorem run_inflight : ∀ (h : List (Op × Oracle)) (s s' : State), run s h = some s' →
    s'.inflight + resolvedTotal h = s.inflight + sentTotal h ∧ (s.inflight ≤ u32Max → s'.inflight ≤ u32Max)
  | [], s, s', hr => by
    simp only [run] at hr; cases hr
    exact ⟨rfl, fun h => h⟩
  | (op, o) :: rest, s, s', hr => by
    simp only [run] at hr
    split at hr
    · rename_i s1 h1
      have a := step_inflight h1
      have b := run_inflight rest s1 s' hr
      simp only [resolvedTotal, sentTotal, List.map_cons, List.sum_cons] at b ⊢
      exact ⟨by omega, fun h => b.2 (a.2 h)⟩
    · cases hr

theorem run_w_le : ∀ (h : List (Op × Oracle)) (s s' : State), s.w ≤ u32Max → s.mds ≤ u16Max → run s h = some s' →
    s'.w ≤ u32Max ∧ s'.mds ≤ u16Max
  | [], s, s', hw, hm, hr => by simp only [run] at hr; cases hr; exact ⟨hw, hm⟩
  | (op, o) :: rest, s, s', hw, hm, hr => by
    simp only [run] at hr
    split at hr
    · rename_i s1 h1
      have a := step_w_le hw hm h1
      exact run_w_le rest s1 s' a.1 a.2 hr
    · cases hr

/-- the caller contract of the trait, relative to the current state -/
def Contract (s : State) : Op → Prop
  | .sent b _ _ => s.inflight + b ≤ u32Max
  | .rtt _ => s.lastSent ≠ none
  | .ack _ b _ => b ≤ s.inflight
  | .lost b _ _ => 0 < b ∧ b ≤ s.inflight
  | .ecn _ => True
  | .mtu m => m ≤ u16Max
  | .discard b => b ≤ s.inflight

theorem step_no_panic {s : State} {op : Op} (o : Oracle) (hi : s.inflight ≤ u32Max) (hc : Contract s op) :
    ∃ s', step s op o = some s' := by
  cases op with
  | sent b now app =>
    simp only [Contract] at hc
    simp only [step, onPacketSent]
    split
    · exact ⟨_, rfl⟩
    · have h1 : ¬ b > u32Max := by omega
      have h2 : ¬ s.inflight + b > u32Max := by omega
      simp only [h1, h2, if_false]
      exact ⟨_, rfl⟩
  | rtt now =>
    simp only [Contract] at hc
    simp only [step, onRttUpdate]
    split
    · rename_i hl; exact absurd hl hc
    · split <;> exact ⟨_, rfl⟩
  | ack ts b now =>
    simp only [Contract] at hc
    simp only [step, onAck]
    have h1 : ¬ b > u32Max := by omega
    have h2 : ¬ s.inflight < b := by omega
    simp only [h1, h2, if_false]
    split <;> exact ⟨_, rfl⟩
  | lost b p now =>
    simp only [Contract] at hc
    simp only [step, onPacketLost]
    have h1 : ¬ b = 0 := by omega
    have h2 : ¬ s.inflight < b := by omega
    simp only [h1, h2, if_false]
    split <;> exact ⟨_, rfl⟩
  | ecn now => exact ⟨_, rfl⟩
  | mtu m =>
    simp only [Contract] at hc
    simp only [step, onMtuUpdate]
    have h1 : ¬ m > u16Max := by omega
    simp only [h1, if_false]
    exact ⟨_, rfl⟩
  | discard b =>
    simp only [Contract] at hc
    simp only [step, onPacketDiscarded]
    have h1 : ¬ b > u32Max := by omega
    have h2 : ¬ s.inflight < b := by omega
    simp only [h1, h2, if_false]
    exact ⟨_, rfl⟩

theorem accept_sound {s s' : State} {op : Op} {obs : Obs} {o : Oracle} (h : accept s op obs = some (o, s')) :
    step s op o = some s' ∧ observe s' = obs := by
  unfold accept at h
  obtain ⟨o', _, ho'⟩ := List.exists_of_findSome?_eq_some h
  split at ho'
  · rename_i s1 h1
    split at ho'
    · rename_i hobs
      cases ho'
      exact ⟨h1, hobs⟩
    · cases ho'
  · cases ho'

end Quic.Proofs.Lemmas.Cubic

namespace Quic.Proofs.Lemmas.Bbr
open Quic.Recovery.Bbr

theorem sat32_le_max (x : Nat) : sat32 x ≤ u32Max := by unfold sat32; omega

/-- window floor, representable window / saved window, `minimum_window` computable in u16 -/
def Inv (s : State) : Prop :=
  minimumWindow s.mds ≤ s.cwnd ∧ s.cwnd ≤ u32Max ∧ s.priorCwnd ≤ u32Max ∧ mdsOverflows s.mds = false

theorem minw_le_u32 {mds : Nat} (h : mdsOverflows mds = false) : minimumWindow mds ≤ u32Max := by
  unfold mdsOverflows at h
  simp only [decide_eq_false_iff_not] at h
  unfold minimumWindow u32Max
  unfold u16Max at h
  omega

theorem initialWindow_bounds {mds : Nat} (h : mdsOverflows mds = false) :
    minimumWindow mds ≤ initialWindow mds ∧ initialWindow mds ≤ u32Max := by
  unfold mdsOverflows at h
  simp only [decide_eq_false_iff_not] at h
  unfold initialWindow minimumWindow initialWindowPackets initialWindowLimit initialWindowLimitPackets u32Max
  unfold minPipeCwndPackets u16Max at h
  unfold minPipeCwndPackets
  omega

theorem init_inv {mds : Nat} {s : State} (h : init mds = some s) : Inv s ∧ s.inflight = 0 := by
  unfold init at h
  split at h
  · cases h
  · rename_i hm
    cases h
    have hm' : mdsOverflows mds = false := by simpa using hm
    have := initialWindow_bounds hm'
    exact ⟨⟨this.1, this.2, by show 0 ≤ u32Max; omega, hm'⟩, rfl⟩

theorem clamp?_bounds {x lo hi c : Nat} (h : clamp? x lo hi = some c) : lo ≤ c ∧ c ≤ hi := by
  unfold clamp? at h
  split at h
  · cases h
  · cases h
    split
    · omega
    · split <;> omega

theorem setCwnd_inv {sat : Bool} {s s' : State} {n : Nat} {o : Oracle} (h : Inv s) (hs : setCwnd sat s n o = some s') :
    Inv s' ∧ s'.inflight = s.inflight ∧ s'.mds = s.mds := by
  unfold setCwnd at hs
  split at hs
  · cases hs
  · split at hs
    · rename_i c hc
      cases hs
      have hb := clamp?_bounds hc
      have h32 := minw_le_u32 h.2.2.2
      refine ⟨⟨hb.1, ?_, h.2.2.1, h.2.2.2⟩, rfl, rfl⟩
      have : boundCwndForModel s o ≤ u32Max := by
        unfold boundCwndForModel
        have := sat32_le_max o.capRaw
        omega
      simp only []; omega
    · cases hs

theorem enterProbeRtt_inv {s : State} (o : Oracle) (h : Inv s) :
    Inv (enterProbeRtt s o) ∧ (enterProbeRtt s o).inflight = s.inflight ∧ (enterProbeRtt s o).mds = s.mds ∧
    (enterProbeRtt s o).cwnd = s.cwnd := by
  unfold enterProbeRtt
  split
  · refine ⟨⟨h.1, h.2.1, ?_, h.2.2.2⟩, rfl, rfl, rfl⟩
    show max s.priorCwnd s.cwnd ≤ u32Max
    have := h.2.1; have := h.2.2.1; omega
  · exact ⟨h, rfl, rfl, rfl⟩

theorem exitProbeRtt_inv {s : State} (o : Oracle) (h : Inv s) :
    Inv (exitProbeRtt s o) ∧ (exitProbeRtt s o).inflight = s.inflight ∧ (exitProbeRtt s o).mds = s.mds ∧
    s.cwnd ≤ (exitProbeRtt s o).cwnd := by
  unfold exitProbeRtt
  split
  · refine ⟨⟨?_, ?_, h.2.2.1, h.2.2.2⟩, rfl, rfl, ?_⟩
    · show minimumWindow s.mds ≤ max s.cwnd s.priorCwnd
      have := h.1; omega
    · show max s.cwnd s.priorCwnd ≤ u32Max
      have := h.2.1; have := h.2.2.1; omega
    · show s.cwnd ≤ max s.cwnd s.priorCwnd
      omega
  · exact ⟨h, rfl, rfl, Nat.le_refl _⟩

theorem checkProbeRtt_inv {s : State} (o : Oracle) (h : Inv s) :
    Inv (checkProbeRtt s o) ∧ (checkProbeRtt s o).inflight = s.inflight ∧ (checkProbeRtt s o).mds = s.mds := by
  unfold checkProbeRtt
  have h1 := enterProbeRtt_inv o h
  have h2 := exitProbeRtt_inv o h1.1
  exact ⟨h2.1, by rw [h2.2.1, h1.2.1], by rw [h2.2.2.1, h1.2.2.1]⟩

def Op.sentBytes : Op → Nat
  | .sent b _ _ => b
  | _ => 0

def Op.resolvedBytes : Op → Nat
  | .ack _ b _ => b
  | .lost b _ _ => b
  | .discard b => b
  | _ => 0

theorem step_inv {sat : Bool} {s s' : State} {op : Op} {o : Oracle} (h : Inv s) (hs : step sat s op o = some s') :
    Inv s' ∧ s'.inflight + Op.resolvedBytes op = s.inflight + Op.sentBytes op ∧ (s.inflight ≤ u32Max → s'.inflight ≤ u32Max) := by
  cases op with
  | sent b now app =>
    simp only [step, onPacketSent] at hs
    simp only [Op.resolvedBytes, Op.sentBytes]
    split at hs
    · cases hs; exact ⟨h, by omega, fun h => h⟩
    · split at hs
      · cases hs
      · split at hs
        · cases hs
        · cases hs; exact ⟨h, by simp only []; omega, fun _ => by simp only []; omega⟩
  | rtt now =>
    simp only [step] at hs
    cases hs; exact ⟨h, rfl, fun h => h⟩
  | ack ts b now =>
    simp only [step, onAck] at hs
    simp only [Op.resolvedBytes, Op.sentBytes]
    split at hs
    · cases hs
    · split at hs
      · cases hs
      · have hb : Inv (ackBookkeeping s ts b) := h
        have hc := checkProbeRtt_inv o hb
        have hi : (ackBookkeeping s ts b).inflight = s.inflight - b := rfl
        split at hs
        · have hk := setCwnd_inv hc.1 hs
          refine ⟨hk.1, ?_, fun _ => ?_⟩ <;> (rw [hk.2.1, hc.2.1, hi]; omega)
        · cases hs
          refine ⟨hc.1, ?_, fun _ => ?_⟩ <;> (rw [hc.2.1, hi]; omega)
  | lost b p now =>
    simp only [step, onPacketLost] at hs
    simp only [Op.resolvedBytes, Op.sentBytes]
    split at hs
    · cases hs
    · split at hs
      · cases hs
      · cases hs; exact ⟨h, by simp only []; omega, fun _ => by simp only []; omega⟩
  | ecn now =>
    simp only [step, onExplicitCongestion] at hs
    cases hs; exact ⟨h, rfl, fun h => h⟩
  | mtu m =>
    simp only [step, onMtuUpdate] at hs
    simp only [Op.resolvedBytes, Op.sentBytes]
    split at hs
    · cases hs
    · rename_i hm
      cases hs
      have hm' : mdsOverflows m = false := by simpa using hm
      have hb := initialWindow_bounds hm'
      have := sat32_le_max o.scaled
      exact ⟨⟨by simp only []; omega, by simp only []; omega, h.2.2.1, hm'⟩, rfl, fun h => h⟩
  | discard b =>
    simp only [step, onPacketDiscarded] at hs
    simp only [Op.resolvedBytes, Op.sentBytes]
    split at hs
    · cases hs
    · split at hs
      · cases hs
      · cases hs; exact ⟨h, by simp only []; omega, fun _ => by simp only []; omega⟩

def sentTotal (h : List (Op × Oracle)) : Nat := (h.map (fun x => Op.sentBytes x.1)).sum
def resolvedTotal (h : List (Op × Oracle)) : Nat := (h.map (fun x => Op.resolvedBytes x.1)).sum

theorem run_inv (sat : Bool) : ∀ (h : List (Op × Oracle)) (s s' : State), Inv s → run sat s h = some s' →
    Inv s' ∧ s'.inflight + resolvedTotal h = s.inflight + sentTotal h ∧ (s.inflight ≤ u32Max → s'.inflight ≤ u32Max)
  | [], s, s', hi, hr => by
    simp only [run] at hr; cases hr
    exact ⟨hi, rfl, fun h => h⟩
  | (op, o) :: rest, s, s', hi, hr => by
    simp only [run] at hr
    split at hr
    · rename_i s1 h1
      have a := step_inv hi h1
      have b := run_inv sat rest s1 s' a.1 hr
      simp only [resolvedTotal, sentTotal, List.map_cons, List.sum_cons] at b ⊢
      exact ⟨b.1, by omega, fun h => b.2.2 (a.2.2 h)⟩
    · cases hr

/-- the caller contract of the trait, relative to the current state -/
def Contract (s : State) : Op → Prop
  | .sent b _ _ => s.inflight + b ≤ u32Max
  | .rtt _ => True
  | .ack _ b _ => b ≤ s.inflight
  | .lost b _ _ => 0 < b ∧ b ≤ s.inflight
  | .ecn _ => True
  | .mtu m => mdsOverflows m = false
  | .discard b => b ≤ s.inflight

/-- hypothesis of `bbr_no_overflow_partial`: the unchecked `cwnd += newly_acked as u32` of `set_cwnd` fits in a u32
    whatever branch the model takes (the window it starts from is `cwnd` or the restored `max cwnd prior_cwnd`) -/
def GrowthFits (s : State) : Op → Prop
  | .ack _ b _ => max s.cwnd s.priorCwnd + b ≤ u32Max
  | _ => True

theorem checkProbeRtt_cwnd_le (s : State) (o : Oracle) : (checkProbeRtt s o).cwnd ≤ max s.cwnd s.priorCwnd := by
  unfold checkProbeRtt exitProbeRtt enterProbeRtt
  split
  · split
    · show max (saveCwnd { s with probeRtt := true }).cwnd (saveCwnd { s with probeRtt := true }).priorCwnd ≤ _
      show max s.cwnd (max s.priorCwnd s.cwnd) ≤ _
      omega
    · show s.cwnd ≤ _; omega
  · split
    · show max s.cwnd s.priorCwnd ≤ _; omega
    · show s.cwnd ≤ _; omega

theorem setCwnd_no_panic {sat : Bool} {s : State} {n : Nat} (o : Oracle) (hn : n ≤ u32Max)
    (hfit : sat = true ∨ s.cwnd + n ≤ u32Max) : ∃ s', setCwnd sat s n o = some s' := by
  have hmod : n % (u32Max + 1) = n := Nat.mod_eq_of_lt (by omega)
  unfold setCwnd
  have hg : ∃ c, grownCwnd sat s n o = some c := by
    unfold grownCwnd
    rw [hmod]
    split
    · exact ⟨_, rfl⟩
    · split
      · cases hfit with
        | inl hsat => simp only [hsat, if_true]; exact ⟨_, rfl⟩
        | inr hfit =>
          have : ¬ s.cwnd + n > u32Max := by omega
          simp only [this, if_false]
          split <;> exact ⟨_, rfl⟩
      · exact ⟨_, rfl⟩
  obtain ⟨c, hc⟩ := hg
  rw [hc]
  simp only
  have hcl : ∃ c', clamp? (boundForProbeRtt s c o) (minimumWindow s.mds) (boundCwndForModel s o) = some c' := by
    unfold clamp?
    have : ¬ minimumWindow s.mds > boundCwndForModel s o := by
      unfold boundCwndForModel; omega
    simp only [this, if_false]
    exact ⟨_, rfl⟩
  obtain ⟨c', hc'⟩ := hcl
  rw [hc']
  exact ⟨_, rfl⟩

theorem step_no_panic {sat : Bool} {s : State} {op : Op} (o : Oracle) (hi : s.inflight ≤ u32Max) (hc : Contract s op)
    (hfit : sat = true ∨ GrowthFits s op) : ∃ s', step sat s op o = some s' := by
  cases op with
  | sent b now app =>
    simp only [Contract] at hc
    simp only [step, onPacketSent]
    split
    · exact ⟨_, rfl⟩
    · have h1 : ¬ b > u32Max := by omega
      have h2 : ¬ s.inflight + b > u32Max := by omega
      simp only [h1, h2, if_false]
      exact ⟨_, rfl⟩
  | rtt now => exact ⟨_, rfl⟩
  | ack ts b now =>
    simp only [Contract] at hc
    simp only [GrowthFits] at hfit
    simp only [step, onAck]
    have h1 : ¬ b > u32Max := by omega
    have h2 : ¬ s.inflight < b := by omega
    simp only [h1, h2, if_false]
    split
    · apply setCwnd_no_panic o (by omega)
      cases hfit with
      | inl hsat => exact Or.inl hsat
      | inr hfit =>
        have := checkProbeRtt_cwnd_le (ackBookkeeping s ts b) o
        have h3 : (ackBookkeeping s ts b).cwnd = s.cwnd := rfl
        have h4 : (ackBookkeeping s ts b).priorCwnd = s.priorCwnd := rfl
        exact Or.inr (by omega)
    · exact ⟨_, rfl⟩
  | lost b p now =>
    simp only [Contract] at hc
    simp only [step, onPacketLost]
    have h1 : ¬ b = 0 := by omega
    have h2 : ¬ s.inflight < b := by omega
    simp only [h1, h2, if_false]
    exact ⟨_, rfl⟩
  | ecn now => exact ⟨_, rfl⟩
  | mtu m =>
    simp only [Contract] at hc
    simp only [step, onMtuUpdate, hc, Bool.false_eq_true, if_false]
    exact ⟨_, rfl⟩
  | discard b =>
    simp only [Contract] at hc
    simp only [step, onPacketDiscarded]
    have h1 : ¬ b > u32Max := by omega
    have h2 : ¬ s.inflight < b := by omega
    simp only [h1, h2, if_false]
    exact ⟨_, rfl⟩

theorem accept_sound {s s' : State} {op : Op} {obs : Obs} {o : Oracle} (h : accept s op obs = some (o, s')) :
    step saturatingGrowth s op o = some s' ∧ observe s' = obs := by
  unfold accept at h
  obtain ⟨o', _, ho'⟩ := List.exists_of_findSome?_eq_some h
  split at ho'
  · rename_i s1 h1
    split at ho'
    · rename_i hobs
      cases ho'
      exact ⟨h1, hobs⟩
    · cases ho'
  · cases ho'

end Quic.Proofs.Lemmas.Bbr
